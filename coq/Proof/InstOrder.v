(* C17, order of the emitted type instances.  The checker collects the monomorphic instances from a
   HashMap (arbitrary iteration order; in the model: insertion order) and sorts them by name
   (fix f423564).  Here: the sorted list is a function of the SET of instances - two lists with
   pairwise different names and the same elements sort to the same list ([sort_by_name_set]), and
   collecting the entries of the instance table in ANY order (any permutation of the entries, i.e.
   any hash iteration order and any order in which the definitions created the instances) yields
   the same declaration lists ([collect_sorted_order_independent]).
   The uniqueness of a strictly sorted list comes from Proof/Determinism.v ([sorted_unique], the
   ordered-set lemma used for the back ends' BTreeSets), instantiated with the byte-wise string
   order of `String::cmp`. *)
From Coq Require Import List ZArith NArith String Bool Permutation Sorted Lia.
From Coq Require Import Structures.OrderedTypeEx.
From SCC Require Import Lang.FunSyn Model.Check Proof.CheckAnn Proof.CheckBuild Proof.Determinism Proof.CheckInst.
Import ListNotations.
Open Scope list_scope.

(* ---------- the order of String::cmp ---------- *)
Lemma scmp_eq : forall a b : string, String.compare a b = Eq <-> a = b.
Proof. exact String_as_OT.cmp_eq. Qed.
Lemma scmp_lt_trans : forall a b c : string,
  String.compare a b = Lt -> String.compare b c = Lt -> String.compare a c = Lt.
Proof.
  intros a b c H1 H2. apply String_as_OT.cmp_lt. eapply String_as_OT.lt_trans; apply String_as_OT.cmp_lt; eassumption.
Qed.
Lemma scmp_antisym : forall a b : string, String.compare a b = Gt <-> String.compare b a = Lt.
Proof.
  intros a b. pose proof (String_as_OT.cmp_antisym a b) as H. unfold String_as_OT.cmp in H.
  destruct (String.compare b a) eqn:E; simpl in H; rewrite H; split; congruence.
Qed.
Definition klt : string -> string -> Prop := ltk String.compare.
Lemma leb_lt : forall a b, String.leb a b = true -> a <> b -> klt a b.
Proof.
  intros a b H Hn. unfold String.leb in H. unfold klt, ltk. destruct (String.compare a b) eqn:E; try reflexivity; try discriminate.
  apply scmp_eq in E. contradiction.
Qed.
Lemma nleb_gt : forall a b, String.leb a b = false -> klt b a.
Proof.
  intros a b H. unfold String.leb in H. unfold klt, ltk. destruct (String.compare a b) eqn:E; try discriminate.
  apply scmp_antisym. exact E.
Qed.

(* ---------- sort_by_name on lists with pairwise different names ---------- *)
Section SortByName.
  Context {X : Type} (key : X -> string).

  Lemma insert_sorted_sorted : forall x l,
    StronglySorted klt (map key l) -> ~ In (key x) (map key l) ->
    StronglySorted klt (map key (insert_sorted key x l)).
  Proof.
    intros x l. induction l as [|y r IH]; intros Hs Hn; simpl.
    - repeat constructor.
    - simpl in Hs. inversion Hs as [|? ? Hsr Hall]; subst.
      destruct (name_leb (key y) (key x)) eqn:E; simpl.
      + constructor.
        * apply IH; [assumption|]. intro Hin. apply Hn. right. assumption.
        * rewrite Forall_forall in *. intros k Hk. apply in_map_iff in Hk. destruct Hk as [z [<- Hz]].
          apply (Permutation_in _ (insert_sorted_perm key x r)) in Hz. destruct Hz as [<-|Hz].
          -- apply leb_lt; [exact E|]. intro Heq. apply Hn. left. exact Heq.
          -- apply Hall. apply in_map. assumption.
      + constructor; [exact Hs|]. constructor; [apply nleb_gt; exact E|].
        rewrite Forall_forall in *. intros k Hk. eapply scmp_lt_trans; [apply nleb_gt; exact E|apply Hall; exact Hk].
  Qed.

  Lemma sort_by_name_sorted : forall l, NoDup (map key l) -> StronglySorted klt (map key (sort_by_name key l)).
  Proof.
    intros l. unfold sort_by_name.
    assert (G : forall acc, StronglySorted klt (map key acc) -> NoDup (map key acc ++ map key l) ->
              StronglySorted klt (map key (fold_left (fun acc x => insert_sorted key x acc) l acc))).
    { induction l as [|x r IH]; intros acc Hs Hn; simpl; [exact Hs|].
      apply IH.
      - apply insert_sorted_sorted; [exact Hs|]. simpl in Hn. apply NoDup_remove_2 in Hn.
        intro Hin. apply Hn. apply in_or_app. left. exact Hin.
      - simpl in Hn. eapply Permutation_NoDup; [|exact Hn].
        rewrite (Permutation_map key (insert_sorted_perm key x acc)). simpl.
        apply Permutation_sym. apply Permutation_middle. }
    intros Hn. apply G; [constructor|exact Hn].
  Qed.

  Lemma NoDup_map_inj : forall l x y, NoDup (map key l) -> In x l -> In y l -> key x = key y -> x = y.
  Proof.
    induction l as [|z r IH]; intros x y Hn Hx Hy E; [destruct Hx|]. simpl in Hn. inversion Hn as [|? ? Hnot Hn']; subst.
    destruct Hx as [<-|Hx], Hy as [<-|Hy]; auto.
    - exfalso. apply Hnot. rewrite E. apply in_map. assumption.
    - exfalso. apply Hnot. rewrite <- E. apply in_map. assumption.
  Qed.
  Lemma keys_determine : forall a b : list X,
    (forall x y, In x a -> In y b -> key x = key y -> x = y) -> map key a = map key b -> a = b.
  Proof.
    induction a as [|x r IH]; intros [|y s] H E; simpl in E; try discriminate; [reflexivity|].
    inversion E. f_equal.
    - apply H; simpl; auto.
    - apply IH; [|assumption]. intros. apply H; simpl; auto.
  Qed.

  (* the sorted list is a function of the set of elements *)
  Theorem sort_by_name_set : forall l l', NoDup (map key l) -> NoDup (map key l') ->
    (forall x, In x l <-> In x l') -> sort_by_name key l = sort_by_name key l'.
  Proof.
    intros l l' Hn Hn' Hm.
    pose proof (sort_by_name_perm key l) as P. pose proof (sort_by_name_perm key l') as P'.
    apply keys_determine.
    - intros x y Hx Hy E. apply (NoDup_map_inj l x y Hn); [eapply Permutation_in; eassumption| |exact E].
      apply Hm. eapply Permutation_in; eassumption.
    - apply (sorted_unique String.compare scmp_eq scmp_lt_trans); [apply sort_by_name_sorted; exact Hn|apply sort_by_name_sorted; exact Hn'|].
      intros k. split; intros Hk; apply in_map_iff in Hk; destruct Hk as [z [<- Hz]]; apply in_map.
      + apply (Permutation_in _ (Permutation_sym P')). apply Hm. eapply Permutation_in; eassumption.
      + apply (Permutation_in _ (Permutation_sym P)). apply Hm. eapply Permutation_in; eassumption.
  Qed.
  Corollary sort_by_name_permutation : forall l l', NoDup (map key l) -> Permutation l l' ->
    sort_by_name key l = sort_by_name key l'.
  Proof.
    intros l l' Hn P. apply sort_by_name_set; [exact Hn| |].
    - eapply Permutation_NoDup; [apply Permutation_map; exact P|exact Hn].
    - intros x. split; intros Hx; [eapply Permutation_in; eassumption|eapply Permutation_in; [apply Permutation_sym|]; eassumption].
  Qed.
End SortByName.

(* ---------- collecting the instance table in another order ---------- *)
Lemma collect_types_perm : forall st l l', Permutation l l' ->
  forall das cos, collect_types st l = COk (das, cos) ->
  exists das' cos', collect_types st l' = COk (das', cos') /\ Permutation das das' /\ Permutation cos cos'.
Proof.
  intros st l l' P. induction P as [|[name [[pol targs] xs]] l l' P IH|[n1 [[p1 t1] x1]] [n2 [[p2 t2] x2]] l|l l' l'' P1 IH1 P2 IH2];
    intros das cos H.
  - exists das, cos. auto.
  - simpl in H. simpl. destruct pol.
    + apply cbind_ok in H. destruct H as [cs [Hc H]]. apply cbind_ok in H. destruct H as [[das0 cos0] [Hr H]]. inversion H; subst.
      destruct (IH _ _ Hr) as [das' [cos' [Hr' [Pd Pc]]]]. rewrite Hc. simpl. rewrite Hr'. simpl. eauto 10.
    + apply cbind_ok in H. destruct H as [cs [Hc H]]. apply cbind_ok in H. destruct H as [[das0 cos0] [Hr H]]. inversion H; subst.
      destruct (IH _ _ Hr) as [das' [cos' [Hr' [Pd Pc]]]]. rewrite Hc. simpl. rewrite Hr'. simpl. eauto 10.
  - simpl in H. simpl.
    destruct p1, p2;
      apply cbind_ok in H; destruct H as [c1 [Hc1 H]]; apply cbind_ok in H; destruct H as [[da1 co1] [H1 H]];
      apply cbind_ok in H1; destruct H1 as [c2 [Hc2 H1]]; apply cbind_ok in H1; destruct H1 as [[da2 co2] [Hr H1]];
      inversion H1; subst; inversion H; subst;
      rewrite Hc1, Hc2; simpl; rewrite Hr; simpl; eexists _, _; (split; [reflexivity|]);
      split; auto using perm_swap, Permutation_refl.
  - destruct (IH1 _ _ H) as [das1 [cos1 [H1 [Pd1 Pc1]]]]. destruct (IH2 _ _ H1) as [das2 [cos2 [H2 [Pd2 Pc2]]]].
    exists das2, cos2. split; [exact H2|]. split; eapply perm_trans; eassumption.
Qed.

Lemma NoDup_app_left : forall {A} (a b : list A), NoDup (a ++ b) -> NoDup a.
Proof. induction a as [|x r IH]; intros b H; [constructor|]. simpl in H. inversion H; subst. constructor; [intro; apply H2; apply in_or_app; auto|eauto]. Qed.
Lemma NoDup_app_right : forall {A} (a b : list A), NoDup (a ++ b) -> NoDup b.
Proof. induction a as [|x r IH]; intros b H; [exact H|]. simpl in H. inversion H; subst. eauto. Qed.

(* whatever the iteration order of the table, the sorted declaration lists are the same *)
Theorem collect_sorted_order_independent : forall st l l' das cos das' cos',
  NoDup (map fst l) -> Permutation l l' ->
  collect_types st l = COk (das, cos) -> collect_types st l' = COk (das', cos') ->
  sort_by_name fdaname das = sort_by_name fdaname das' /\ sort_by_name fcoaname cos = sort_by_name fcoaname cos'.
Proof.
  intros st l l' das cos das' cos' Hn P H H'.
  destruct (collect_types_perm st l l' P das cos H) as [das2 [cos2 [H2 [Pd Pc]]]].
  rewrite H' in H2. inversion H2; subst das2 cos2.
  destruct (collect_types_spec _ _ _ _ H) as [Pn _].
  assert (Hnn : NoDup (map fdaname das ++ map fcoaname cos)).
  { eapply Permutation_NoDup; [apply Permutation_sym; exact Pn|exact Hn]. }
  split; apply sort_by_name_permutation; try assumption.
  - eapply NoDup_app_left. exact Hnn.
  - eapply NoDup_app_right. exact Hnn.
Qed.

(* ---------- the instance lists of an accepted program are in canonical order ---------- *)
Lemma sorted_klt_NoDup : forall l, StronglySorted klt l -> NoDup l.
Proof.
  induction 1 as [|a l Hs IH Hall]; constructor; [|exact IH].
  intro Hin. rewrite Forall_forall in Hall. specialize (Hall a Hin).
  unfold klt, ltk in Hall. assert (String.compare a a = Eq) by (apply scmp_eq; reflexivity). congruence.
Qed.
Lemma sorted_lists_equal : forall {X} (key : X -> string) (a b : list X),
  StronglySorted klt (map key a) -> StronglySorted klt (map key b) -> (forall x, In x a <-> In x b) -> a = b.
Proof.
  intros X key a b Sa Sb M. apply (keys_determine key).
  - intros x y Hx Hy E. apply (NoDup_map_inj key a x y (sorted_klt_NoDup _ Sa) Hx); [apply M; exact Hy|exact E].
  - apply (sorted_unique String.compare scmp_eq scmp_lt_trans); [exact Sa|exact Sb|].
    intros k. split; intros Hk; apply in_map_iff in Hk; destruct Hk as [z [<- Hz]]; apply in_map; apply M; exact Hz.
Qed.

From SCC Require Import Sem.FunNames Sem.FunClosed Proof.CheckPoly Proof.CheckInstBase.
Theorem check_output_sorted : forall eager p q, prog_names_ok p = true -> check_gen eager p = COk q ->
  StronglySorted klt (map fdaname (fcpdata q)) /\ StronglySorted klt (map fcoaname (fcpcodata q)).
Proof.
  intros eager p q Hm H. destruct (check_gen_run eager p q Hm H) as [st1 [das [cos [W [I1 [Hcol [Hq C1]]]]]]].
  destruct (collect_types_spec _ _ _ _ Hcol) as [Pn _].
  assert (Hnn : NoDup (map fdaname das ++ map fcoaname cos)).
  { eapply Permutation_NoDup; [apply Permutation_sym; exact Pn|apply (pi_nodup _ _ I1)]. }
  rewrite Hq. simpl. split; apply sort_by_name_sorted; [eapply NoDup_app_left|eapply NoDup_app_right]; exact Hnn.
Qed.
(* hence the emitted lists are a function of the SETS of instances, whatever program, order of
   definitions or iteration order produced them *)
Theorem check_instances_function_of_set : forall eager p q eager' p' q',
  prog_names_ok p = true -> prog_names_ok p' = true -> check_gen eager p = COk q -> check_gen eager' p' = COk q' ->
  ((forall d, In d (fcpdata q) <-> In d (fcpdata q')) -> fcpdata q = fcpdata q')
  /\ ((forall d, In d (fcpcodata q) <-> In d (fcpcodata q')) -> fcpcodata q = fcpcodata q').
Proof.
  intros eager p q eager' p' q' Hm Hm' H H'.
  destruct (check_output_sorted eager p q Hm H) as [S1 S2]. destruct (check_output_sorted eager' p' q' Hm' H') as [S1' S2'].
  split; intros M; eapply sorted_lists_equal; eassumption.
Qed.
