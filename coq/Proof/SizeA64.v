(* C19: the cost model of the AArch64 back end (Model/A64.v), discharged:
       a64_K = 40 + 15 * FIELDS_PER_BLOCK
   (single operations <= 14; store of n fields <= (1 + n) * (29 + 15 * FIELDS_PER_BLOCK), acquire_block =
   18 + 14 * FIELDS_PER_BLOCK; load <= 38 * (1 + n); print <= 11 + 4 * context; parallel moves
   <= 8 * new + 4 * old).  Same structure as Proof/SizeX86.v. *)
From Coq Require Import String List ZArith NArith Bool Lia.
From SCC Require Import Base.Sexp Lang.AxSyn Lang.AxSize Model.ParMoves Model.Backend Model.A64 Model.Linearize Model.LinCheck
     Proof.LinBasics Proof.SubstGraph Proof.SubstBackends Proof.SizeLin Proof.SizeCodegen Proof.SizeExchange Proof.SizeCodegenWf.
From SCC Require Model.SizeWf.
Import ListNotations.
Open Scope list_scope.
Open Scope N_scope.
Local Arguments N.add : simpl never.
Local Arguments N.mul : simpl never.
Local Arguments N.sub : simpl never.
Local Arguments N.of_nat : simpl never.
Local Arguments len : simpl never.

Ltac sl := repeat (rewrite ?len_app, ?len_cons); repeat match goal with |- context [@len ?X []] => change (@len X []) with 0 end.
Ltac bind H :=
  match type of H with
  | rbind ?e _ = Ok _ => let E := fresh "E" in destruct e eqn:E; [cbn [rbind] in H | discriminate H]
  end.

Notation FPB := FIELDS_PER_BLOCK.
Notation a64_K := SizeWf.a64_K.

Lemma len_firstn_skipn : forall {X} n (l : list X), len (firstn n l) + len (skipn n l) = len l.
Proof. intros X n l. rewrite <- len_app, firstn_skipn. reflexivity. Qed.
Lemma len_combine_r : forall {X Y} (a : list X) (b : list Y), len (combine a b) <= len b.
Proof. intros X Y a b. unfold len. rewrite combine_length. lia. Qed.
Lemma len_rev : forall {X} (l : list X), len (rev l) = len l.
Proof. intros. unfold len. rewrite rev_length. reflexivity. Qed.
Lemma len_nseq : forall s l, len (nseq s l) = l.
Proof. intros. unfold nseq, len. rewrite map_length, seq_length. lia. Qed.

(* ---------- single operations ---------- *)
Lemma l_move_from_register : forall t r, len (move_from_register t r) = 1.
Proof. intros t r; destruct t; reflexivity. Qed.
Lemma l_move_to_register : forall r t, len (move_to_register r t) = 1.
Proof. intros r t; destruct t; reflexivity. Qed.
Lemma l_compare : forall a b, len (compare a b) <= 3.
Proof. intros a b; destruct a, b; cbn [compare]; sl; lia. Qed.
Lemma l_compare_immediate : forall t i, len (compare_immediate t i) <= 2.
Proof. intros t i; destruct t; cbn [compare_immediate]; sl; lia. Qed.
Lemma l_jump : forall t, len (a_jump t) <= 2.
Proof. intros t; destruct t; cbn [a_jump]; sl; lia. Qed.
Lemma l_imm_pieces : forall r v inv ig fd is, len (imm_pieces r v inv ig fd is) <= len is.
Proof.
  intros r v inv ig fd is. revert fd. induction is as [|i rest IH]; intros fd; cbn [imm_pieces]; [sl; lia|].
  destruct (Z.eqb (halfword v i) ig); [specialize (IH fd); sl; lia|].
  destruct fd; [|destruct inv]; sl; specialize (IH true); lia.
Qed.
Lemma l_imm_code : forall r v, len (imm_code r v) <= 4.
Proof.
  intros r v. unfold imm_code. destruct (Z.eqb v 0); [sl; lia|]. destruct (Z.eqb v (-1)); [sl; lia|].
  eapply N.le_trans; [apply l_imm_pieces|]. sl. lia.
Qed.
Lemma l_load_immediate : forall t i, len (a_load_immediate t i) <= 5.
Proof. intros t i; destruct t as [r|p]; cbn [a_load_immediate]; sl; [pose proof (l_imm_code r i) | pose proof (l_imm_code TEMP i)]; lia. Qed.
Lemma l_load_label : forall t l, len (a_load_label t l) <= 2.
Proof. intros t l; destruct t; cbn [a_load_label]; sl; lia. Qed.
Lemma l_add_offset : forall r i, len (add_offset r i) <= 5.
Proof. intros r i. unfold add_offset. destruct (add_imm_fits i); sl; [lia|]. pose proof (l_imm_code TEMP2 i). lia. Qed.
Lemma l_add_and_jump : forall t i, len (a_add_and_jump t i) <= 7.
Proof. intros t i; destruct t as [r|p]; cbn [a_add_and_jump]; sl; [pose proof (l_add_offset r i)|pose proof (l_add_offset TEMP i)]; lia. Qed.
Lemma l_mov : forall t s, len (a_mov t s) <= 2.
Proof. intros t s; destruct t, s; cbn [a_mov move_from_register move_to_register]; sl; lia. Qed.
Lemma l_store_temporary : forall t f, len (a_store_temporary t f) <= 2.
Proof. intros t f; destruct t; cbn [a_store_temporary]; sl; lia. Qed.
Lemma l_restore_temporary : forall t f, len (a_restore_temporary t f) <= 2.
Proof. intros t f; destruct t; cbn [a_restore_temporary]; sl; lia. Qed.
Lemma l_op : forall (f : areg -> areg -> areg -> list acode) t s1 s2,
  (forall a b c, len (f a b c) <= 5) -> len (a_op f t s1 s2) <= 8.
Proof.
  intros f t s1 s2 H. unfold a_op. destruct t, s1, s2; sl;
    repeat match goal with |- context [len (f ?a ?b ?c)] => pose proof (H a b c); generalize dependent (len (f a b c)); intros end; lia.
Qed.
Lemma l_rem : forall a b c, len (r_rem a b c) <= 5.
Proof. intros. unfold r_rem. destruct (areg_eqb c TEMP2); [destruct (areg_eqb a TEMP)|]; sl; lia. Qed.
Lemma l_arith : forall o t a b, len (a_arith o t a b) <= 8.
Proof.
  intros o t a b. destruct o; cbn [a_arith]; apply l_op; intros; first [apply l_rem | unfold r_add, r_sub, r_mul, r_div; sl; lia].
Qed.

(* ---------- print ---------- *)
Lemma l_save : forall fb regs, len (save_caller_save_registers fb regs) <= len regs + 1.
Proof.
  intros fb regs. unfold save_caller_save_registers. sl. rewrite !len_map.
  pose proof (len_combine_r (nseq 0 (N.of_nat (backup_used fb regs))) (firstn (backup_used fb regs) regs)).
  pose proof (len_firstn_skipn (backup_used fb regs) regs).
  destruct (Nat.eqb _ 0); sl; [lia|]. rewrite len_map.
  pose proof (len_combine_r (nseq 0 (N.of_nat (List.length regs - backup_used fb regs))) (skipn (backup_used fb regs) regs)).
  lia.
Qed.
Lemma l_restore : forall fb regs, len (restore_caller_save_registers fb regs) <= len regs + 1.
Proof.
  intros fb regs. unfold restore_caller_save_registers. sl. rewrite !len_map.
  pose proof (len_combine_r (nseq 0 (N.of_nat (backup_used fb regs))) (firstn (backup_used fb regs) regs)).
  pose proof (len_firstn_skipn (backup_used fb regs) regs).
  destruct (Nat.eqb _ 0); sl; [lia|]. rewrite len_map, len_rev.
  pose proof (len_combine_r (nseq 0 (N.of_nat (List.length regs - backup_used fb regs))) (skipn (backup_used fb regs) regs)).
  lia.
Qed.
Lemma l_csr : forall c, len (snd (caller_save_registers_info c)) <= 3 + 2 * len c.
Proof.
  intros c. unfold caller_save_registers_info. cbn [snd].
  set (taken := firstn _ c).
  assert (G : forall (l : list (N * binding)),
    len (flat_map (fun ob : N * binding => let '(offset, b) := ob in
            match bchi b with
            | Ext => [CALLER_SAVE_FIRST + 2 * offset + 1]
            | _ => [CALLER_SAVE_FIRST + 2 * offset; CALLER_SAVE_FIRST + 2 * offset + 1]
            end) l) <= 2 * len l).
  { induction l as [|[o b] r IH]; [cbn [flat_map]; sl; lia|]. cbn [flat_map]. sl. destruct (bchi b); sl; lia. }
  sl.
  match goal with |- context [len (flat_map ?f ?l)] => pose proof (G l) as HG end.
  assert (len (combine (nseq 0 (N.of_nat (List.length taken))) taken) <= len taken) by apply len_combine_r.
  assert (len taken <= len c) by (unfold taken; apply len_firstn).
  destruct (N.leb REGISTER_NUM _); sl; lia.
Qed.
Lemma l_print : forall nl t c, len (a_print nl t c) <= 11 + 4 * len c.
Proof.
  intros nl t c. unfold a_print. pose proof (l_csr c) as H.
  destruct (caller_save_registers_info c) as [fb regs]. cbn [snd] in H. sl.
  pose proof (l_save fb regs). pose proof (l_restore fb regs).
  destruct t; sl; rewrite ?l_move_to_register; lia.
Qed.

(* ---------- erase / share ---------- *)
Lemma l_ifz : forall cond th el lc, len (fst (if_zero_then_else cond th el lc)) = 5 + len th + len el.
Proof. intros. unfold if_zero_then_else. cbn [fst]. sl. lia. Qed.
Lemma l_skip : forall cnd body lc, len (fst (skip_if_zero cnd body lc)) = 3 + len body.
Proof. intros. unfold skip_if_zero. cbn [fst]. sl. lia. Qed.
Lemma l_erase_valid : forall r lc, len (fst (erase_valid_object r lc)) = 9.
Proof. intros. unfold erase_valid_object. rewrite l_ifz. reflexivity. Qed.
Lemma l_erase_block : forall t lc, len (fst (a_erase_block t lc)) <= 14.
Proof.
  intros [r|p] lc; cbn [a_erase_block].
  - pose proof (l_erase_valid r lc) as H. destruct (erase_valid_object r lc) as [c lc1]. cbn [fst] in H.
    rewrite l_skip. sl. lia.
  - pose proof (l_erase_valid TEMP lc) as H. destruct (erase_valid_object TEMP lc) as [c lc1]. cbn [fst] in H.
    match goal with |- context [skip_if_zero TEMP ?b lc1] => pose proof (l_skip TEMP b lc1) as H2; destruct (skip_if_zero TEMP b lc1) as [c2 lc2] end.
    cbn [fst] in *. revert H2. sl. intros H2. lia.
Qed.
Lemma l_erase_block_temp : forall lc, len (fst (a_erase_block (AR TEMP) lc)) = 13.
Proof.
  intros lc. cbn [a_erase_block].
  pose proof (l_erase_valid TEMP lc) as H. destruct (erase_valid_object TEMP lc) as [c lc1]. cbn [fst] in H.
  rewrite l_skip. sl. lia.
Qed.
Lemma l_share_block : forall t n lc, len (fst (a_share_block_n t n lc)) <= 7.
Proof.
  intros [r|p] n lc; cbn [a_share_block_n].
  - rewrite l_skip. unfold share_code. sl. lia.
  - pose proof (l_skip TEMP (share_code TEMP n) lc) as H. destruct (skip_if_zero TEMP (share_code TEMP n) lc) as [c lc1].
    cbn [fst] in *. unfold share_code in H. revert H. sl. intros H. lia.
Qed.

(* ---------- store ---------- *)
Lemma l_erase_fields : forall r lc, len (fst (erase_fields r lc)) = 14 * FPB.
Proof.
  intros r lc. unfold erase_fields.
  assert (G : forall l c lc0,
    len (fst (fold_left (fun (acc : list acode * N) (offset : N) =>
               let '(c, lc) := acc in
               let '(c1, lc1) := a_erase_block (AR TEMP) lc in
               (c ++ [LDR TEMP r (field_offset Fst offset)] ++ c1, lc1)) l (c, lc0))) = len c + 14 * len l).
  { induction l as [|o l IH]; intros c lc0; [cbn [fold_left fst]; sl; lia|].
    cbn [fold_left]. pose proof (l_erase_block_temp lc0) as H. destruct (a_erase_block (AR TEMP) lc0) as [c1 lc1]. cbn [fst] in H.
    rewrite IH. sl. lia. }
  rewrite G, len_nseq. sl. lia.
Qed.
Lemma l_acquire : forall t lc, len (fst (acquire_block t lc)) <= 18 + 14 * FPB.
Proof.
  intros t lc. unfold acquire_block.
  pose proof (l_erase_fields HEAP lc) as H1. destruct (erase_fields HEAP lc) as [ef lc1]. cbn [fst] in H1.
  match goal with |- context [if_zero_then_else FREE ?a ?b lc1] =>
    pose proof (l_ifz FREE a b lc1) as H2; destruct (if_zero_then_else FREE a b lc1) as [inner lc2] end.
  cbn [fst] in H2.
  match goal with |- context [if_zero_then_else HEAP ?a ?b lc2] =>
    pose proof (l_ifz HEAP a b lc2) as H3; destruct (if_zero_then_else HEAP a b lc2) as [outer lc3] end.
  cbn [fst] in *. destruct t; revert H2 H3; sl; intros H2 H3; lia.
Qed.
Lemma l_store_field : forall n c b o code, store_field n c b o = Ok code -> len code <= 2.
Proof. intros n c b o code H. unfold store_field in H. bind H. inversion H; subst. destruct x; sl; lia. Qed.
Lemma l_load_field : forall n c b o code, load_field n c b o = Ok code -> len code <= 2.
Proof. intros n c b o code H. unfold load_field in H. bind H. inversion H; subst. destruct x; sl; lia. Qed.
Lemma l_store_zeros : forall n b, len (store_zeros n b) = n.
Proof.
  intros n b. unfold store_zeros. rewrite <- (len_nseq 0 n) at 2. induction (nseq 0 n) as [|x l IH]; [reflexivity|].
  cbn [flat_map]. sl. unfold store_zero at 1. sl. lia.
Qed.
Lemma l_store_value : forall b rem blk o code, store_value b rem blk o = Ok code -> len code <= 4.
Proof.
  intros b rem blk o code H. unfold store_value in H. bind H. apply l_store_field in E.
  destruct (bchi b).
  - bind H. inversion H; subst. apply l_store_field in E0. sl. lia.
  - bind H. inversion H; subst. apply l_store_field in E0. sl. lia.
  - inversion H; subst. sl. unfold store_zero. sl. lia.
Qed.
Lemma l_store_values : forall l rem blk ff code, store_values l rem blk ff = Ok code -> len code <= 4 * len l + ff.
Proof.
  induction l as [|b l IH]; intros rem blk ff code H; cbn [store_values] in H.
  - inversion H; subst. rewrite l_store_zeros. sl. lia.
  - bind H. bind H. inversion H; subst. apply l_store_value in E. apply IH in E0. sl. lia.
Qed.

Definition store_unit : N := 20 + 15 * FPB.
Lemma l_store_fields : forall fuel ts rem bp lc code lc',
  store_fields fuel ts rem bp lc = Ok (code, lc') -> len code <= N.of_nat fuel * store_unit + 4 * len ts + 5.
Proof.
  induction fuel as [|f IH]; intros ts rem bp lc code lc' H; [discriminate|].
  rewrite Nat2N.inj_succ, N.mul_succ_l.
  destruct ts as [|b0 ts0].
  - cbn [store_fields] in H. destruct bp.
    + bind H. inversion H; subst. pose proof (l_load_immediate x 0). lia.
    + inversion H; subst. sl. lia.
  - cbn [store_fields] in H. remember (b0 :: ts0) as ts eqn:Ets. clear Ets b0 ts0.
    bind H. rename x into c0. bind H. rename x into c1. bind H. rename x into t.
    set (cap := FPB - bp_n bp) in *.
    set (rl := if N.leb (N.of_nat (List.length ts)) cap then 0 else N.of_nat (List.length ts) - cap) in *.
    pose proof (l_acquire t lc) as HA. destruct (acquire_block t lc) as [c2 lc2]. cbn [fst] in HA.
    bind H. destruct x as [c3 lc3]. inversion H; subst; clear H.
    apply IH in E2. apply l_store_values in E0.
    assert (H0 : len c0 <= 2).
    { destruct bp; [inversion E; subst; sl; lia | eapply l_store_field; eauto]. }
    assert (Hcap : cap <= FPB) by (unfold cap; lia).
    pose proof (len_rev (skipn (N.to_nat rl) ts)) as Hrev.
    pose proof (len_firstn_skipn (N.to_nat rl) ts).
    sl. unfold store_unit in *. lia.
Qed.
Lemma l_store : forall a r lc code lc', a_store a r lc = Ok (code, lc') -> len code <= (29 + 15 * FPB) * (1 + len a).
Proof.
  intros a r lc code lc' H. unfold a_store in H. apply l_store_fields in H.
  rewrite Nat2N.inj_succ in H. fold (len a) in H. unfold store_unit in H. lia.
Qed.

(* ---------- load ---------- *)
Lemma l_load_value : forall b ex blk o m lc code lc', load_value b ex blk o m lc = Ok (code, lc') -> len code <= 11.
Proof.
  intros b ex blk o m lc code lc' H. unfold load_value in H. bind H. apply l_load_field in E.
  destruct (bchi b).
  - bind H. bind H. apply l_load_field in E0. destruct m.
    + inversion H; subst. sl. lia.
    + match type of H with context [a_share_block_n ?t ?n ?l] =>
        pose proof (l_share_block t n l) as HS; destruct (a_share_block_n t n l) as [c3 lc1] end.
      cbn [fst] in HS. inversion H; subst. sl. lia.
  - bind H. bind H. apply l_load_field in E0. destruct m.
    + inversion H; subst. sl. lia.
    + match type of H with context [a_share_block_n ?t ?n ?l] =>
        pose proof (l_share_block t n l) as HS; destruct (a_share_block_n t n l) as [c3 lc1] end.
      cbn [fst] in HS. inversion H; subst. sl. lia.
  - inversion H; subst. lia.
Qed.
Lemma l_load_values : forall l ex blk ff m lc code lc', load_values l ex blk ff m lc = Ok (code, lc') -> len code <= 11 * len l.
Proof.
  induction l as [|b l IH]; intros ex blk ff m lc code lc' H; cbn [load_values] in H.
  - inversion H; subst. sl. lia.
  - bind H. destruct x as [c1 lc1]. bind H. destruct x as [c2 lc2]. inversion H; subst.
    apply l_load_value in E. apply IH in E0. sl. lia.
Qed.
Lemma l_release : forall r, len (release_block r) = 2.
Proof. reflexivity. Qed.
Lemma l_load_fields : forall fuel tl ex bp m rf lc code rf' lc',
  load_fields fuel tl ex bp m rf lc = Ok (code, rf', lc') -> len code <= N.of_nat fuel * 7 + 11 * len tl.
Proof.
  induction fuel as [|f IH]; intros tl ex bp m rf lc code rf' lc' H; [discriminate|].
  rewrite Nat2N.inj_succ, N.mul_succ_l.
  destruct tl as [|b0 tl0].
  - cbn [load_fields] in H. inversion H; subst. sl. lia.
  - cbn [load_fields] in H. remember (b0 :: tl0) as tl eqn:Etl. clear Etl b0 tl0.
    set (cap := FPB - bp_n bp) in *.
    set (rl := if N.leb (N.of_nat (List.length tl)) cap then 0 else N.of_nat (List.length tl) - cap) in *.
    bind H. destruct x as [[c0 freed0] lc0]. bind H. rename x into mb.
    apply IH in E.
    pose proof (len_rev (skipn (N.to_nat rl) tl)) as Hrev.
    pose proof (len_firstn_skipn (N.to_nat rl) tl).
    destruct mb as [mr|mp].
    + bind H. rename x into c2. bind H. destruct x as [c3 lc3]. inversion H; subst; clear H.
      apply l_load_values in E2.
      assert (len c2 <= 2) by (destruct bp; [inversion E1; subst; sl; lia | eapply l_load_field; eauto]).
      assert (len (match m with Release => release_block mr | Share => [] end) <= 2) by (destruct m; [rewrite l_release|sl]; lia).
      sl. lia.
    + bind H. rename x into c2. bind H. destruct x as [c3 lc3]. inversion H; subst; clear H.
      apply l_load_values in E2.
      assert (len c2 <= 2) by (destruct bp; [inversion E1; subst; sl; lia | eapply l_load_field; eauto]).
      assert (len (match m with Release => release_block TEMPORARY_TEMP | Share => [] end) <= 2) by (destruct m; [rewrite l_release|sl]; lia).
      assert (len (if freed0 then [] else [STR TEMPORARY_TEMP SP (stack_offset SPILL_TEMP)]) <= 1) by (destruct freed0; sl; lia).
      assert (len (match bp with Last => [LDR TEMPORARY_TEMP SP (stack_offset SPILL_TEMP)] | Other => [] end) <= 1) by (destruct bp; sl; lia).
      sl. lia.
Qed.
Lemma l_load_register : forall blk tl ex lc code lc', load_register blk tl ex lc = Ok (code, lc') -> len code <= 36 * (1 + len tl).
Proof.
  intros blk tl ex lc code lc' H. unfold load_register in H.
  bind H. destruct x as [[th f1] lc1]. bind H. destruct x as [[el f2] lc2].
  apply l_load_fields in E. apply l_load_fields in E0. rewrite Nat2N.inj_succ in *. fold (len tl) in *.
  match type of H with Ok ?p = _ => assert (HI : fst p = code) by (inversion H; reflexivity) end.
  rewrite <- HI, l_ifz. sl. lia.
Qed.
Lemma l_load : forall a r lc code lc', a_load a r lc = Ok (code, lc') -> len code <= 38 * (1 + len a).
Proof.
  intros a r lc code lc' H. unfold a_load in H. destruct a as [|b0 a0]; [inversion H; subst; sl; lia|].
  remember (b0 :: a0) as a. clear Heqa b0 a0.
  bind H. destruct x as [mr|mp].
  - bind H. destruct x as [c1 lc1]. cbn [fst snd] in H. inversion H; subst. apply l_load_register in E0. sl. lia.
  - bind H. destruct x as [c1 lc1]. cbn [fst snd] in H. inversion H; subst. apply l_load_register in E0. sl. lia.
Qed.

(* ---------- the cost model ---------- *)
Lemma a64_K_ge : 40 <= a64_K.
Proof. unfold SizeWf.a64_K. lia. Qed.

Lemma a64_with_ok : forall mark, backend_ok (a64_backend_with mark).
Proof.
  intros mark. destruct a64_backend_ok as [A1 A2 A3 A4]. split; [exact A1 | exact A2 | exact A3 | exact A4].
Qed.

Section A64.
Variable mark : ctx -> list acode.
Hypothesis mark_len : forall c, len (mark c) <= 1.
Let B := a64_backend_with mark.

Lemma a64_exchange : forall re c code, NoDup (ids c) -> NoDup (SizeWf.new_ids_of re) ->
  code_exchange B (transpose re c) c (map fst re) = Ok code -> len code <= a64_K * (1 + len c + len re).
Proof.
  intros re c code N1 N2 H.
  pose proof (exchange_len B (a64_with_ok mark) 2 l_mov l_store_temporary l_restore_temporary c re code N1 N2 H) as G.
  pose proof a64_K_ge. nia.
Qed.

Theorem a64_cost_model_wf : cost_model_wf B a64_K.
Proof.
  pose proof a64_K_ge as HK. unfold cost_model_wf.
  cbn [B a64_backend_with b_mark b_jump b_jump_label b_jump_label_fixed b_jcc2 b_jcc1
    b_load_immediate b_load_label b_add_and_jump b_arith b_mov b_print b_erase b_share_n b_store b_load].
  repeat split.
  - lia.
  - intros c. pose proof (mark_len c). lia.
  - intros t. pose proof (l_jump t). lia.
  - intros l. sl. lia.
  - intros l. sl. lia.
  - intros so a b l. sl. pose proof (l_compare a b). lia.
  - intros so a l. sl. pose proof (l_compare_immediate a 0). lia.
  - intros t z. pose proof (l_load_immediate t z). lia.
  - intros t l. pose proof (l_load_label t l). lia.
  - intros t z. pose proof (l_add_and_jump t z). lia.
  - intros o a b c. pose proof (l_arith o a b c). lia.
  - intros a b. pose proof (l_mov a b). lia.
  - intros nl t c. pose proof (l_print nl t c). nia.
  - intros t lc. pose proof (l_erase_block t lc). lia.
  - intros t n lc. pose proof (l_share_block t n lc). lia.
  - intros a r lc code lc' H. apply l_store in H. unfold SizeWf.a64_K. nia.
  - intros a r lc code lc' H. apply l_load in H. nia.
  - exact a64_exchange.
Qed.

Theorem a64_translate_size : forall types ds lc code lc',
  SizeWf.sub_wf_defs ds = true ->
  translate B types ds lc = Ok (code, lc') -> len code <= a64_K * cg_bound_defs ds.
Proof. apply translate_size_wf_cm. exact a64_cost_model_wf. Qed.
End A64.

Lemma l_move_arguments : forall n code, move_arguments n = Ok code -> len code <= 7.
Proof.
  assert (G : forall n code, move_arguments n = Ok code -> len code = N.of_nat n /\ (n <= 7)%nat).
  { induction n as [|m IH]; intros code H; cbn [move_arguments] in H; [inversion H; subst; split; [reflexivity|lia]|].
    destruct (Nat.ltb 7 (S m)) eqn:E; [discriminate|]. apply Nat.ltb_ge in E.
    bind H. inversion H; subst. destruct (IH _ eq_refl) as [L _]. sl. split; lia. }
  intros n code H. apply G in H. lia.
Qed.

Theorem a64_compile_size : forall p lc r n lc',
  SizeWf.sub_wf_prog p = true -> a64_compile p lc = Ok (r, n, lc') -> len r <= SizeWf.a64_bound p.
Proof.
  intros p lc r n lc' HW H. unfold a64_compile, a64_compile_with in H.
  destruct (compile (a64_backend_with (fun _ => [])) p lc) as [[[is n0] lc0]|e] eqn:E; [|discriminate]. cbn [rbind] in H.
  destruct (into_aarch64_routine is n0) as [rt|e] eqn:E0; [|discriminate]. cbn [rbind] in H. inversion H; subst; clear H.
  unfold compile in E. unfold SizeWf.a64_bound, SizeWf.sub_wf_prog in *. destruct (pdefs p) as [|d0 ds]; [discriminate|].
  destruct (translate (a64_backend_with (fun _ => [])) (ptypes p) (d0 :: ds) lc) as [[c1 lc1]|e] eqn:E1; [|discriminate].
  cbn [rbind fst snd] in E. inversion E; subst; clear E.
  apply (a64_translate_size (fun _ => [])) in E1; [|intros; sl; lia|exact HW].
  unfold into_aarch64_routine in E0. destruct (setup (List.length (dctx d0))) as [st|e] eqn:E2; [|discriminate].
  cbn [rbind] in E0. inversion E0; subst; clear E0.
  unfold setup in E2. destruct (move_arguments (List.length (dctx d0))) as [ma|e] eqn:E3; [|discriminate].
  cbn [rbind] in E2. inversion E2; subst; clear E2. apply l_move_arguments in E3.
  unfold SizeWf.a64_routine_overhead. sl. unfold preamble, cleanup. sl. lia.
Qed.
