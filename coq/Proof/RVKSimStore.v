(* C08, forward simulation for HEAP statements WITHOUT the one-block restriction, part 2: the code of `r_store` (Let,
   Create) under `hrel`, for objects of ANY number of fields (chains of blocks).  The chain version of
   Proof/RVHSimStore.v, after Proof/A64HSimStore.v: the hypotheses of the RISC-V refinement theorem `rv_store_chain`
   (Proof/RVMemStoreChain.v) come from the allocator invariant through the SHARED bridge (Proof/X86HBridge.v
   `alloc_object_bridge`, Proof/X86HeapCongr.v `heq_alloc_object`); the representations of untouched values survive by the
   shared frame lemma `HRep.xrep_frame`; the allocator registers afterwards from `alloc_object_invA` + `acq_ok_of_inv`. *)
From Coq Require Import List ZArith NArith String Bool Lia FMapPositive Permutation.
From SCC Require Import Base.Sexp Lang.AxSyn Sem.AxSem Sem.AxHeap Model.ParMoves Model.Backend Model.RV Sem.RVSem Sem.RVWf
     Generated.Constants Proof.RVSel Proof.SubstGraph Proof.SubstBackends Proof.RVSubst Proof.RVSimAddr Proof.RVSimRel
     Proof.RVHeapAbs Proof.RVHDefs Proof.RVHMem Proof.RVHBridge Proof.HRep Proof.RVMemStoreChain Proof.RVKSimRel.
From SCC Require Model.Heap Proof.HeapMore Proof.HeapTrace Proof.HeapRep Proof.HeapRepAlloc Proof.HeapBridge
     Proof.X86Mem Proof.X86MemFrame Proof.X86MemStore Proof.X86MemStoreChain Proof.X86HeapDefs Proof.X86HeapAcq Proof.X86HeapCongr
     Proof.X86HBridge Proof.X86HFrame Proof.RVHSimStore.
Import ListNotations.
Open Scope Z_scope.
Open Scope list_scope.

Notation rtpos_rtp := RVHSimStore.rtpos_rtp.
Notation rval := RVHSimStore.rval.
Notation roots_length := RVHSimStore.roots_length.
Notation roots_split := RVHSimStore.roots_split.
Notation app_inv_len := RVHSimStore.app_inv_len.
Notation NoDup_app_l := RVHSimStore.NoDup_app_l.
Notation pos_reg_special := RVHSimStore.pos_reg_special.
Notation kept := (HRep.kept).
Notation alloc_object_bridge := X86HBridge.alloc_object_bridge.
Notation heq_alloc_object := X86HeapCongr.heq_alloc_object.
Notation store_other_frontier := X86HBridge.store_other_frontier.
Notation nlinks_bound := X86HFrame.nlinks_bound.
Notation waddrs_length := X86HeapDefs.waddrs_length.
Notation nth_error_skipn_add := X86Mem.nth_error_skipn_add.

Lemma nlinks_upper n : (n <= 2 * Heap.nlinks n + 3)%nat.
Proof.
  unfold Heap.nlinks. destruct (Nat.leb_spec n 3); [lia|].
  assert (D := Nat.div_mod (n - 3 + 1) 2 ltac:(lia)).
  assert (M := Nat.mod_upper_bound (n - 3 + 1) 2 ltac:(lia)). lia.
Qed.
Lemma reach_zero_false (mm : Heap.mem) b : ~ reach mm [0] b.
Proof.
  intros Hb. remember [0] as src eqn:Es. induction Hb as [b Hb Hb0|x b Hx IH Hin Hb0]; subst.
  - destruct Hb as [<-|[]]. congruence.
  - auto.
Qed.

Section HStore.
Variable im : image.
Variable types : list tydecl.
Variable CLO : Z -> ident -> list clause -> ctx -> Prop.
Local Notation hrel := (hrel types CLO).
Local Notation hvrep := (hvrep types CLO).
Local Notation xrep := (HRep.xrep types CLO jump_length any_int).
Local Notation xflds := (HRep.xflds types CLO jump_length any_int).
Local Notation xreps := (HRep.xreps types CLO jump_length any_int).

(* positions of a prefix *)
Lemma hrel_vals_app c1 c2 he1 he2 hs s i x v q :
  hrel (c1 ++ c2) (he1 ++ he2) hs s -> List.length he1 = List.length c1 ->
  nth_error he2 i = Some (x, v, q) ->
  exists b, nth_error c2 i = Some b /\ hvrep s (List.length c1 + i) b v q.
Proof.
  intros R L H. destruct (hr_vals R (List.length c1 + i)%nat x v q) as (b & Hb & V).
  { rewrite nth_error_app2 by lia. replace (List.length c1 + i - List.length he1)%nat with i by lia. exact H. }
  exists b. split; [|exact V]. rewrite nth_error_app2 in Hb by lia.
  now replace (List.length c1 + i - List.length c1)%nat with i in Hb by lia.
Qed.

(* the values of the registers of the variables to store, and their pointer slots *)
Lemma store_vals c1 c2 he1 he2 hs s :
  hrel (c1 ++ c2) (he1 ++ he2) hs s -> List.length he1 = List.length c1 ->
  vals_ok s (rval s) (List.length c1) c2.
Proof.
  intros R L i b Hi.
  assert (Li : (i < List.length c2)%nat) by (apply nth_error_Some; congruence).
  pose proof (hrel_length R) as LEN. rewrite !app_length in LEN.
  destruct (nth_error he2 i) as [[[x v] q]|] eqn:He; [|apply nth_error_None in He; lia].
  destruct (hrel_vals_app c1 c2 he1 he2 hs s i x v q R L He) as (b' & Hb' & V).
  assert (b' = b) by congruence. subst b'. unfold rval, reg_or0.
  destruct V as [b z q t A B T Lg|b v q a t1 t2 A K1 K2 T1 T2 L1 L2 X].
  - apply rtpos_rtp in T as [-> _]. cbn [tnum_n] in Lg. rewrite Lg. split; [reflexivity|congruence].
  - apply rtpos_rtp in T1 as [-> _]. apply rtpos_rtp in T2 as [-> _]. cbn [tnum_n] in L1, L2.
    rewrite N.add_0_r in L1. rewrite L1, L2. split; [reflexivity|intros _; reflexivity].
Qed.
Lemma store_fsts c1 c2 he1 he2 hs s :
  hrel (c1 ++ c2) (he1 ++ he2) hs s -> List.length he1 = List.length c1 ->
  (forall en, In en he2 -> chi_of (h_val en) = Ext -> h_ptr en = 0) ->
  xfsts (rval s) (List.length c1) c2 = map store_ptr he2 /\ map store_ptr he2 = ptrs he2.
Proof.
  intros R L EX. pose proof (hrel_length R) as LEN. rewrite !app_length in LEN.
  assert (L2 : List.length he2 = List.length c2) by lia.
  split.
  - apply nth_ext with (d := 0) (d' := 0); [now rewrite X86MemStore.fsts_length, map_length|].
    intros i Hi. rewrite X86MemStore.fsts_length in Hi.
    destruct (nth_error he2 i) as [[[x v] q]|] eqn:He; [|apply nth_error_None in He; lia].
    destruct (hrel_vals_app c1 c2 he1 he2 hs s i x v q R L He) as (b & Hb & V).
    assert (E1 : nth i (xfsts (rval s) (List.length c1) c2) 0 = xfst_slot (rval s) (List.length c1 + i) b).
    { clear -Hb. revert i Hb. generalize (List.length c1). induction c2 as [|b0 c2 IH]; intros E i Hb; [destruct i; discriminate|].
      destruct i as [|i]; cbn [nth_error X86MemStore.fsts nth] in *.
      - inversion Hb; subst. now rewrite Nat.add_0_r.
      - rewrite (IH (S E) i Hb). f_equal. lia. }
    rewrite E1. rewrite (nth_indep _ 0 (store_ptr (x, v, q))) by (rewrite map_length; lia).
    rewrite map_nth. rewrite (nth_error_nth _ _ _ He).
    unfold X86MemStore.fst_slot, store_ptr, rval, reg_or0. cbn [h_val h_ptr fst snd].
    destruct V as [b z q t A B T Lg|b v q a t1 t2 A K1 K2 T1 T2 Lg1 Lg2 X].
    + rewrite A. reflexivity.
    + rewrite K1. destruct (bchi b) eqn:Kb; try congruence; apply rtpos_rtp in T1 as [-> _]; cbn [tnum_n] in Lg1;
        rewrite N.add_0_r in Lg1; now rewrite Lg1.
  - apply map_ext_in. intros en Hen. unfold store_ptr. destruct (chi_of (h_val en)) eqn:K; auto. symmetry. now apply EX.
Qed.

Theorem hsim_store rest args he0 fsE hs s lc c1 lc1 pc hl fl cl :
  hrel (rest ++ args) (he0 ++ fsE) hs s ->
  List.length he0 = List.length rest -> args <> [] ->
  InvA HEAP_BASE hs (roots (he0 ++ fsE)) hl fl cl -> P03 hs ->
  (forall en, In en fsE -> chi_of (h_val en) = Ext -> h_ptr en = 0) ->
  r_store args rest lc = Ok (c1, lc1) -> placed im pc c1 ->
  Heap.frontier hs + 64 <= LIMIT ->
  Heap.frontier (snd (Heap.alloc_object (map store_ptr fsE) hs)) + 64 <= LIMIT ->
  exists s', star im pc s (padd pc (List.length c1)) s' /\
    hrel rest he0 (snd (Heap.alloc_object (map store_ptr fsE) hs)) s' /\
    rget s' (pos_reg Fst (List.length rest)) = Some (fst (Heap.alloc_object (map store_ptr fsE) hs)) /\
    xflds (hword s') (map h_val fsE) (fst (Heap.alloc_object (map store_ptr fsE) hs)).
Proof.
  intros R L0 NE IA K03 EX XS PL HF1 HF.
  pose proof (hrel_length R) as LEN. rewrite !app_length in LEN.
  assert (LE : List.length fsE = List.length args) by lia.
  set (F := Heap.frontier hs).
  set (val := rval s).
  pose proof (store_vals rest args he0 fsE hs s R L0) as VO. fold val in VO.
  destruct (store_fsts rest args he0 fsE hs s R L0 EX) as [EF EP]. fold val in EF.
  set (fields := map store_ptr fsE) in *.
  assert (NEf : fields <> []).
  { unfold fields. destruct fsE; [cbn in LE; destruct args; [congruence|discriminate]|discriminate]. }
  pose proof (hrel_small types CLO _ _ _ _ R) as SM. rewrite app_length in SM.
  assert (HR : Z.of_nat (List.length (roots (he0 ++ fsE))) < 1048576).
  { pose proof (roots_length (he0 ++ fsE)) as RL. rewrite app_length in RL. lia. }
  assert (PM : Permutation (roots (he0 ++ fsE)) (Heap.nz fields ++ roots he0)).
  { rewrite EP. apply roots_split. }
  pose proof (hr_heq R) as HQ. fold F in HQ.
  destruct (alloc_object_bridge fields (abs_heap F s) hs _ _ hl fl cl IA HQ (P03_P3 _ K03) PM NEf HR HF)
    as (PRE & ACQ & ND & UNR).
  destruct (heq_alloc_object (abs_heap F s) hs fields HQ (P03_P3 _ K03) PRE) as (EFST & HQ').
  set (res := Heap.alloc_object fields hs) in *. set (resa := Heap.alloc_object fields (abs_heap F s)) in *.
  destruct (rv_store_chain im pc args rest lc c1 lc1 s F val XS NE PL VO)
    as (s' & ST & EQ & RP & KEEP & WB & FB & (SLOTS & PAD) & HFR).
  { rewrite EF. exact PRE. }
  { rewrite EF, ACQ. exact ND. }
  rewrite EF in EQ, RP, WB, FB, SLOTS, PAD, HFR. fold resa in EQ, RP, WB, FB, SLOTS, PAD.
  rewrite ACQ in WB, HFR. rewrite EFST in RP, WB, FB, SLOTS, PAD. fold res in RP, WB, FB, SLOTS, PAD.
  set (n := List.length args) in *. set (k := Heap.nlinks n) in *.
  (* the abstraction afterwards *)
  assert (EFr : Heap.frontier (snd resa) = Heap.frontier (snd res)) by (destruct HQ' as (_ & _ & X & _); exact X).
  assert (HQ2 : heq (abs_heap (Heap.frontier (snd res)) s') (snd res)).
  { rewrite <- EFr. eapply heq_eqB; [exact EQ|exact HQ']. }
  (* the allocator registers afterwards: the invariant of the new state *)
  destruct (HeapMore.alloc_object_invA HEAP_BASE hs _ _ hl fl cl fields IA PM NEf) as (hl' & fl' & cl' & IA' & _).
  fold res in IA'.
  assert (AOK' : acq_ok (abs_heap (Heap.frontier (snd res)) s')).
  { apply (acq_ok_of_inv _ (snd res) _ hl' fl' cl' IA' HQ2); [|exact HF|].
    - apply P3_alloc_object. apply P03_P3. exact K03.
    - cbn [List.length]. pose proof (roots_length he0). lia. }
  destruct AOK' as (B1 & B2 & _). cbn [abs_heap Heap.heap Heap.free] in B1, B2.
  assert (RH : rget s' HEAP = Some (Heap.heap (snd res))).
  { destruct HQ2 as (E1 & _). cbn [abs_heap Heap.heap] in E1. rewrite <- E1. apply reg_or0_blk. exact B1. }
  assert (RF : rget s' FREE = Some (Heap.free (snd res))).
  { destruct HQ2 as (_ & E2 & _). cbn [abs_heap Heap.free] in E2. rewrite <- E2. apply reg_or0_nz. exact B2. }
  (* the words of everything reachable from the old roots are untouched *)
  assert (KEPT : forall q, q <> 0 -> In q (ptrs (he0 ++ fsE)) -> kept hs (hword s) (hword s') q).
  { intros q Hq0 Hq b Hb i Hi.
    assert (RB : reach (Heap.m hs) (roots (he0 ++ fsE)) b).
    { eapply HeapRep.reach_trans; [|exact Hb]. intros r [<-|[]] _. apply HeapTrace.reach_src; [|exact Hq0].
      unfold roots. apply HeapMore.in_nz. auto. }
    assert (BB : is_blk b) by (eapply reach_is_blk; [exact IA|unfold LIMIT in *; lia|exact RB]).
    apply HFR; [apply not_blk_off; [exact BB|lia]|].
    intros b' Hb'. destruct (UNR b' Hb') as [BB' NR].
    assert (NEb : b <> b') by (intros ->; contradiction).
    destruct (is_blk_apart b b' BB BB' NEb); lia. }
  assert (AG : slots_agree (Heap.m hs) (hword s)) by (eapply heq_slots_agree; exact HQ).
  assert (XFR : forall v q a, In q (ptrs (he0 ++ fsE)) -> xrep (hword s) v q a -> xrep (hword s') v q a).
  { intros v q a Hq X. eapply (HRep.xrep_frame types CLO jump_length any_int hs (hword s) (hword s') AG); [exact X|].
    destruct (Z.eq_dec q 0) as [->|Hq0]; [intros b0 Hb0; exfalso; exact (reach_zero_false _ _ Hb0)|now apply KEPT]. }
  exists s'. split; [exact ST|split; [|split]].
  - (* the positions of `rest` *)
    destruct R as [Hr Fr HQ0 Ids NDc Vals]. split.
    + exact RH.
    + exact RF.
    + exact HQ2.
    + unfold env_ids, ids, erase_env in *. rewrite !map_app in Ids.
      apply app_inv_len in Ids; [tauto|]. rewrite !map_length. exact L0.
    + unfold ids in *. rewrite map_app in NDc. eapply NoDup_app_l; eauto.
    + intros i x v q Hi. assert (Li : (i < List.length he0)%nat) by (apply nth_error_Some; congruence).
      destruct (Vals i x v q) as (b & Hb & V); [rewrite nth_error_app1 by exact Li; exact Hi|].
      rewrite nth_error_app1 in Hb by lia. exists b. split; [exact Hb|].
      destruct V as [b z q t A B T Lg|b v q a t1 t2 A K1 K2 T1 T2 L1 L2 X].
      * eapply hv_int; eauto. apply rtpos_rtp in T as [-> _]. rewrite KEEP; [exact Lg|]. cbn [tnum_n]. lia.
      * pose proof T1 as T1'. pose proof T2 as T2'.
        apply rtpos_rtp in T1' as [-> _]. apply rtpos_rtp in T2' as [-> _].
        eapply (hv_ptr types CLO s' i b v q a); eauto.
        -- rewrite KEEP; [exact L1|]. cbn [tnum_n]. lia.
        -- rewrite KEEP; [exact L2|]. cbn [tnum_n]. lia.
        -- apply XFR; [|exact X]. unfold ptrs. rewrite map_app, in_app_iff. left.
           apply nth_error_In in Hi. apply (in_map h_ptr) in Hi. exact Hi.
  - rewrite pos_reg_rtp. cbn [tnum_n]. rewrite N.add_0_r. exact RP.
  - (* the new object *)
    assert (Lf : List.length (map h_val fsE) = n) by (rewrite map_length; exact LE).
    apply xf_cons; rewrite ?Lf; fold k.
    + destruct fsE; [cbn in LE; destruct args; [congruence|discriminate]|discriminate].
    + exact FB.
    + exact PAD.
    + apply xreps_intro.
      * rewrite skipn_length, Lf, waddrs_length. pose proof (nlinks_bound n). pose proof (nlinks_upper n). unfold k.
        assert (0 < n)%nat by (unfold n; destruct args; [congruence|cbn; lia]). lia.
      * intros i v a Hv Ha. rewrite nth_error_skipn_add in Ha.
        rewrite nth_error_map in Hv. destruct (nth_error fsE i) as [[[x v0] q]|] eqn:He; [|discriminate].
        cbn in Hv. inversion Hv; subst v0. clear Hv.
        destruct (hrel_vals_app rest args he0 fsE hs s i x v q R L0 He) as (b & Hb & V).
        destruct (SLOTS i b Hb) as [S1 S2]. cbv zeta in S1, S2.
        assert (Ea : nth (List.length (waddrs k (hword s') (fst res)) - n + i) (waddrs k (hword s') (fst res)) 0 = a).
        { apply nth_error_nth. exact Ha. }
        rewrite Ea in S1, S2. rewrite S1, S2. unfold X86MemStore.fst_slot, X86MemStore.snd_slot, val, rval, reg_or0.
        assert (Hq : In q (ptrs (he0 ++ fsE))).
        { unfold ptrs. rewrite map_app, in_app_iff. right. apply nth_error_In in He. apply (in_map h_ptr) in He. exact He. }
        destruct V as [b z q t A B T Lg|b v q a0 t1 t2 A K1 K2 T1 T2 L1 L2 X].
        -- rewrite A. apply rtpos_rtp in T as [-> _]. cbn [tnum_n] in Lg. rewrite Lg. constructor. exact I.
        -- apply rtpos_rtp in T1 as [-> _]. apply rtpos_rtp in T2 as [-> _]. cbn [tnum_n] in L1, L2. rewrite N.add_0_r in L1.
           rewrite L1, L2. destruct (bchi b) eqn:Kb; try congruence; now apply XFR.
Qed.

(* appending a variable that owns a pointer: its first register holds the pointer already, the second one has
   just been written *)
Lemma hrel_push_ptr c he hs s s' x b v q a :
  hrel c he hs s -> NoDup (ids (c ++ [b])) -> idn (bvar b) = idn x ->
  bchi b <> Ext -> chi_of v = bchi b -> ty_of v = bty b -> (List.length c < 14)%nat ->
  (forall a0, hword s' a0 = hword s a0) ->
  (forall r, r <> pos_reg Snd (List.length c) -> r <> TEMP -> rget s' r = rget s r) ->
  rget s (pos_reg Fst (List.length c)) = Some q -> rget s' (pos_reg Snd (List.length c)) = Some a ->
  xrep (hword s) v q a ->
  hrel (c ++ [b]) (he ++ [(x, v, q)]) hs s'.
Proof.
  intros R ND EX NB K1 K2 L14 HE K L1 L2 X.
  pose proof (hrel_length R) as LEN. destruct R as [Hr Fr HQ Ids ND0 Vals].
  destruct (pos_reg_special Snd (List.length c)) as (_ & _ & PH & PF).
  assert (RH : rget s' HEAP = rget s HEAP) by (apply K; [congruence|discriminate]).
  assert (RF : rget s' FREE = rget s FREE) by (apply K; [congruence|discriminate]).
  split.
  - now rewrite RH.
  - now rewrite RF.
  - eapply heq_same_words; eauto.
  - unfold env_ids, ids, erase_env in *. rewrite !map_app. f_equal; [exact Ids|]. cbn. now rewrite EX.
  - exact ND.
  - intros i y w p Hn. destruct (Nat.lt_ge_cases i (List.length he)) as [L|L].
    + rewrite nth_error_app1 in Hn by exact L. destruct (Vals i y w p Hn) as (b0 & Hb & V).
      exists b0. split; [rewrite nth_error_app1 by lia; exact Hb|].
      eapply hvrep_keep; [intros a0 _; apply HE| |exact V]. intros n t0 _ T0.
      pose proof (rtpos_regs _ _ _ T0) as (_ & NT & _). apply rtpos_val in T0 as [-> _]. apply K; [|exact NT].
      intros E. apply pos_reg_inj in E as [_ E]. lia.
    + rewrite nth_error_app2 in Hn by exact L. destruct (i - List.length he)%nat as [|k] eqn:Kk; cbn in Hn; [|destruct k; discriminate].
      inversion Hn; subst. exists b. split.
      * rewrite nth_error_app2 by lia. replace (i - List.length c)%nat with O by lia. reflexivity.
      * replace i with (List.length c) by lia.
        apply (hv_ptr types CLO s' (List.length c) b w p a (pos_reg Fst (List.length c)) (pos_reg Snd (List.length c))); auto.
        -- apply rtpos_lt. exact L14.
        -- apply rtpos_lt. exact L14.
        -- rewrite K; [exact L1| |].
           ++ intros E. apply pos_reg_inj in E as [E _]. discriminate.
           ++ apply (pos_reg_special Fst (List.length c)).
        -- apply (HRep.xrep_ext types CLO jump_length any_int (hword s) (hword s')); [intros a0 _; apply HE|exact X].
Qed.

(* r_store of any number of variables (Let, Create): none = the null pointer *)
Theorem hsim_store_any rest args he0 fsE hs s lc c1 lc1 pc hl fl cl :
  hrel (rest ++ args) (he0 ++ fsE) hs s ->
  List.length he0 = List.length rest ->
  InvA HEAP_BASE hs (roots (he0 ++ fsE)) hl fl cl -> P03 hs ->
  (forall en, In en fsE -> chi_of (h_val en) = Ext -> h_ptr en = 0) ->
  r_store args rest lc = Ok (c1, lc1) -> placed im pc c1 ->
  Heap.frontier hs + 64 <= LIMIT ->
  Heap.frontier (snd (Heap.alloc_object (map store_ptr fsE) hs)) + 64 <= LIMIT ->
  exists s', star im pc s (padd pc (List.length c1)) s' /\
    hrel rest he0 (snd (Heap.alloc_object (map store_ptr fsE) hs)) s' /\
    rget s' (pos_reg Fst (List.length rest)) = Some (fst (Heap.alloc_object (map store_ptr fsE) hs)) /\
    xflds (hword s') (map h_val fsE) (fst (Heap.alloc_object (map store_ptr fsE) hs)).
Proof.
  intros R L0 IA K03 EX XS PL HF1 HF2.
  destruct args as [|a0 ar].
  - (* nothing to store: the null pointer *)
    pose proof (hrel_length R) as LEN. rewrite !app_length in LEN. cbn [List.length] in LEN.
    assert (fsE = []) by (destruct fsE; [reflexivity|cbn in LEN; lia]). subst fsE.
    rewrite !app_nil_r in *. cbn [map Heap.alloc_object fst snd].
    unfold r_store in XS. cbn [List.length store_fields] in XS.
    destruct (r_fresh Fst rest) as [t1|] eqn:T1; cbn [rbind] in XS; [|discriminate].
    inversion XS; subst c1 lc1. clear XS.
    apply r_fresh_ok in T1. subst t1. set (t1 := pos_reg Fst (List.length rest)).
    destruct (pos_reg_special Fst (List.length rest)) as (NZ & NT & NH & NF). fold t1 in NZ, NT, NH, NF.
    set (s1 := rset s t1 (rget s ZERO)).
    exists s1. split; [|split; [|split]].
    + apply (run_mvs_star im [MV t1 ZERO] pc s s1 (proj1 PL)). reflexivity.
    + apply (hrel_keep types CLO rest he0 hs s s1 R).
      * intros a. apply hword_rset.
      * apply rget_rset_other. congruence.
      * apply rget_rset_other. congruence.
      * intros i b n t Hi _ Ti. apply rget_rset_other. apply rtpos_val in Ti as [-> _].
        assert (Li : (i < List.length rest)%nat) by (apply nth_error_Some; congruence).
        intros E. apply pos_reg_inj in E as [_ E]. lia.
    + unfold s1. rewrite rget_rset_same by exact NZ. reflexivity.
    + constructor.
  - eapply hsim_store; eauto. discriminate.
Qed.
End HStore.
