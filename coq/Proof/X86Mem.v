(* Refinement of the two simplest allocator operations to the x86-64 code of axcut2x86_64's
   memory.rs, on the ISA semantics of Sem/X86Sem.v:
     - abs_heap: the abstraction of a machine state to the abstract allocator state of Model/Heap.v
       (header = word 0 of a block, pointer slots = the words at offsets 16, 32, 48, heap / free =
       the two allocator registers, the frontier a ghost);
     - structured execution of code with forward jumps (`steps`), for code placed anywhere in an
       image whose labels resolve to their positions (shown for mk_image with duplicate-free labels);
     - x86_share_block_ok, x86_erase_block_ok: the emitted code of share_block_n / erase_block,
       the pointer in a register or in a spill slot, null included, all branches. *)
From Coq Require Import List ZArith NArith String Bool Lia FMapPositive.
From SCC Require Import Base.Sexp Lang.AxSyn Sem.AxSem Model.Backend Model.X86 Sem.X86Sem Generated.Constants
  Proof.X86State Proof.X86Sel.
From SCC Require Model.Heap.
Import ListNotations.
Open Scope Z_scope.

(* ---------- the abstraction ---------- *)
Definition hword (s : xstate) (a : Z) : Z :=
  match PM.find (key a) (heap s) with Some z => z | None => 0 end.
Definition abs_mem (s : xstate) : Heap.mem :=
  fun a => {| Heap.hdr := hword s a; Heap.ps := [hword s (a + 16); hword s (a + 32); hword s (a + 48)] |}.
Definition reg_or0 (s : xstate) (r : N) : Z := match rget s r with Some z => z | None => 0 end.
Definition abs_heap (F : Z) (s : xstate) : Heap.st :=
  {| Heap.m := abs_mem s; Heap.heap := reg_or0 s HEAP; Heap.free := reg_or0 s FREE; Heap.frontier := F |}.

(* block addresses of the heap region *)
Definition is_blk (a : Z) : Prop := exists k, 0 <= k /\ a = HEAP_BASE + 64 * k /\ a + 64 <= HEAP_BASE + HEAP_SIZE.
(* equality of abstract states on the blocks (memories are functions; no extensionality axiom) *)
Definition st_eqB (a b : Heap.st) : Prop :=
  Heap.heap a = Heap.heap b /\ Heap.free a = Heap.free b /\ Heap.frontier a = Heap.frontier b /\
  forall x, is_blk x -> Heap.m a x = Heap.m b x.

(* ---------- heap accesses ---------- *)
Definition heap_addr (a : Z) : Prop := a mod 8 = 0 /\ HEAP_BASE <= a /\ a + 8 <= HEAP_BASE + HEAP_SIZE.
Definition hset (s : xstate) (a z : Z) : xstate :=
  {| regs := regs s; heap := PM.add (key a) z (heap s); stack := stack s; flags := flags s; out := out s;
     hw := Z.max (hw s) a |}.

Lemma is_blk_addr p i : is_blk p -> (i = 0 \/ i = 16 \/ i = 32 \/ i = 48) -> heap_addr (p + i).
Proof.
  intros (k & Hk & -> & Hhi) Hi. unfold heap_addr, HEAP_BASE, HEAP_SIZE in *.
  repeat split; try lia.
  replace (268435456 + 64 * k + i) with (i + (33554432 + 8 * k) * 8) by lia. rewrite Z.mod_add by lia.
  destruct Hi as [->|[->|[->| ->]]]; reflexivity.
Qed.
Lemma heap_addr_facts a : heap_addr a -> aligned a = true /\ in_heap a = true /\ in_stack a = false /\ 0 <= a.
Proof.
  intros (A & L & H). unfold aligned, in_heap, in_stack, HEAP_BASE, HEAP_SIZE, STACK_LIMIT, STACK_TOP in *.
  rewrite A. repeat split; try lia.
  all: try (apply andb_true_iff; split; apply Z.leb_le; lia).
  all: try (apply andb_false_iff; left; apply Z.leb_gt; lia).
Qed.

Lemma mload_heap s a : heap_addr a -> mload s a = MOk (Some (hword s a)).
Proof. intros H. destruct (heap_addr_facts a H) as (A & B & _ & _). unfold mload. now rewrite A, B. Qed.
Lemma mstore_heap s a z : heap_addr a -> mstore s a (Some z) = MOk (hset s a z).
Proof. intros H. destruct (heap_addr_facts a H) as (A & B & _ & _). unfold mstore. now rewrite A, B. Qed.
Lemma ea_heap s r i p k : rget s r = Some p -> heap_addr (p + i) -> ea s r i k = k (p + i).
Proof. intros R H. destruct (heap_addr_facts _ H) as (_ & _ & C & _). unfold ea, need. now rewrite R, C. Qed.

Lemma hword_hset_same s a z : hword (hset s a z) a = z.
Proof. unfold hword, hset; cbn. now rewrite PM.gss. Qed.
Lemma hword_hset_other s a z b : 0 <= a -> 0 <= b -> a <> b -> hword (hset s a z) b = hword s b.
Proof. intros A B H. unfold hword, hset; cbn. rewrite PM.gso; auto. intro E. apply key_inj in E; auto. Qed.
Lemma rget_hset s a z r : rget (hset s a z) r = rget s r. Proof. reflexivity. Qed.
Lemma stack_hset s a z : stack (hset s a z) = stack s. Proof. reflexivity. Qed.
Lemma out_hset s a z : out (hset s a z) = out s. Proof. reflexivity. Qed.
Lemma hword_rset s r v a : hword (rset s r v) a = hword s a. Proof. reflexivity. Qed.
Lemma hword_set_flags s f a : hword (set_flags s f) a = hword s a. Proof. reflexivity. Qed.
Lemma frame_ok_hset s sp a z : frame_ok s sp -> frame_ok (hset s a z) sp.
Proof. intros (A & B). split; [exact A|exact B]. Qed.

(* ---------- single instructions on heap words ---------- *)
Section HeapSteps.
Variable im : image.
Lemma step_CMPI0 s r v : rget s r = Some v -> step im (CMPI r 0) s = Next (set_flags s (Some (v, 0))).
Proof. intros H. cbn [step]. change (fits32 0) with true. unfold need. now rewrite H. Qed.
Lemma step_CMPIM0_slot s sp q v :
  frame_ok s sp -> slot_ok q -> sget s sp q = Some v ->
  step im (CMPIM STACK (stack_offset q) 0) s = Next (set_flags s (Some (v, 0))).
Proof.
  intros F Q H. cbn [step]. change (fits32 0) with true. rewrite (ea_stack s sp) by auto. unfold withm, need.
  rewrite mload_slot by auto. now rewrite H.
Qed.
Lemma step_CMPIM0_heap s r p :
  rget s r = Some p -> heap_addr p ->
  step im (CMPIM r 0 0) s = Next (set_flags s (Some (hword s p, 0))).
Proof.
  intros R H. cbn [step]. change (fits32 0) with true. rewrite (ea_heap s r 0 p) by (auto; now rewrite Z.add_0_r).
  rewrite Z.add_0_r. unfold withm, need. now rewrite mload_heap.
Qed.
Lemma step_ADDIM_heap s r p j :
  rget s r = Some p -> heap_addr p -> fits32 j = true ->
  step im (ADDIM r 0 j) s = Next (set_flags (hset s p (wrap (hword s p + j))) None).
Proof.
  intros R H J. cbn [step]. rewrite J. rewrite (ea_heap s r 0 p) by (auto; now rewrite Z.add_0_r).
  rewrite Z.add_0_r. unfold withm, need. rewrite mload_heap by auto. now rewrite mstore_heap.
Qed.
Lemma step_MOVS_heap s a b p v :
  rget s b = Some p -> heap_addr p -> rget s a = Some v ->
  step im (MOVS a b 0) s = Next (hset s p v).
Proof.
  intros R H A. cbn [step]. rewrite (ea_heap s b 0 p) by (auto; now rewrite Z.add_0_r).
  rewrite Z.add_0_r. unfold withm. now rewrite A, mstore_heap.
Qed.
Lemma step_JEL s l x y :
  flags s = Some (x, y) ->
  step im (JEL l) s = if x =? y then goto_label im s l else Next s.
Proof. intros H. cbn [step]. unfold cond_jump. now rewrite H. Qed.
End HeapSteps.

(* ---------- structured execution ---------- *)
Fixpoint pnth (p : positive) (n : nat) : positive :=
  match n with O => p | S k => Pos.succ (pnth p k) end.
Lemma pnth_succ p n : pnth (Pos.succ p) n = Pos.succ (pnth p n).
Proof. induction n; cbn; congruence. Qed.
Lemma pnth_add p a b : pnth (pnth p a) b = pnth p (a + b).
Proof. induction b; cbn; rewrite ?Nat.add_0_r, <- ?plus_n_Sm; cbn; congruence. Qed.

(* the instruction list cs sits in the image from index pos on, and its labels resolve to their
   positions *)
Definition code_at (im : image) (pos : positive) (cs : list xcode) : Prop :=
  forall n c, nth_error cs n = Some c -> PM.find (pnth pos n) (code im) = Some c.
Definition labels_at (im : image) (pos : positive) (cs : list xcode) : Prop :=
  forall n l, nth_error cs n = Some (LAB l) -> find_label (labels im) l = Some (pnth pos n).

Inductive steps (im : image) : positive -> xstate -> positive -> xstate -> Prop :=
| steps_refl pc s : steps im pc s pc s
| steps_next pc s c s1 pc' s' :
    PM.find pc (code im) = Some c -> step im c s = Next s1 -> steps im (Pos.succ pc) s1 pc' s' ->
    steps im pc s pc' s'
| steps_jump pc s c s1 i pc' s' :
    PM.find pc (code im) = Some c -> step im c s = Jump s1 i -> steps im i s1 pc' s' ->
    steps im pc s pc' s'.

Lemma steps_trans im pc s pc1 s1 pc2 s2 : steps im pc s pc1 s1 -> steps im pc1 s1 pc2 s2 -> steps im pc s pc2 s2.
Proof. induction 1; intros H2; auto; [eapply steps_next|eapply steps_jump]; eauto. Qed.

(* `steps` is what the executable runner does *)
Lemma steps_run_chunk im pc s pc' s' :
  steps im pc s pc' s' -> exists n, forall fuel, run_chunk (n + fuel) im pc s = run_chunk fuel im pc' s'.
Proof.
  induction 1 as [pc s|pc s c s1 pc' s' Hc Hs _ [n IH]|pc s c s1 i pc' s' Hc Hs _ [n IH]].
  - exists O. reflexivity.
  - exists (S n). intros fuel. cbn [Nat.add run_chunk]. rewrite Hc, Hs. apply IH.
  - exists (S n). intros fuel. cbn [Nat.add run_chunk]. rewrite Hc, Hs. apply IH.
Qed.

(* mk_image places a program at index 1 and resolves duplicate-free labels to their positions *)
Lemma build_code_below : forall cs i a im j, (j < i)%positive -> PM.find j (code (build cs i a im)) = PM.find j (code im).
Proof.
  induction cs as [|c r IH]; intros i a im j Hj; cbn [build code]; auto.
  rewrite IH by lia. cbn [code]. apply PM.gso. lia.
Qed.
Lemma build_code_at : forall cs i a im, code_at (build cs i a im) i cs.
Proof.
  induction cs as [|c r IH]; intros i a im n c0 Hn; [destruct n; discriminate|].
  destruct n as [|n]; cbn [nth_error pnth] in *.
  - inversion Hn; subst. cbn [build]. rewrite build_code_below by lia. cbn [code]. apply PM.gss.
  - cbn [build]. rewrite <- pnth_succ. eapply IH; eauto.
Qed.
Definition label_names (cs : list xcode) : list string :=
  flat_map (fun c => match c with LAB l => [l] | _ => [] end) cs.
Lemma build_labels_old : forall cs i a im l,
  ~ In l (label_names cs) -> find_label (labels (build cs i a im)) l = find_label (labels im) l.
Proof.
  induction cs as [|c r IH]; intros i a im l Hl; cbn [build labels]; auto.
  rewrite IH.
  - cbn [labels]. destruct c; auto. cbn [find_label]. destruct (String.eqb_spec l l0); auto.
    subst. exfalso. apply Hl. cbn. now left.
  - intro H. apply Hl. cbn [label_names flat_map]. apply in_app_iff. now right.
Qed.
Lemma build_labels_at : forall cs i a im, NoDup (label_names cs) -> labels_at (build cs i a im) i cs.
Proof.
  induction cs as [|c r IH]; intros i a im Hnd n l Hn; [destruct n; discriminate|].
  assert (Hnd' : NoDup (label_names r)).
  { cbn [label_names flat_map] in Hnd. now apply Heap.NoDup_app_r in Hnd. }
  destruct n as [|n]; cbn [nth_error pnth] in *.
  - inversion Hn; subst. cbn [build]. rewrite build_labels_old.
    + cbn [labels find_label]. now rewrite String.eqb_refl.
    + cbn [label_names flat_map app] in Hnd. now inversion Hnd.
  - cbn [build]. rewrite <- pnth_succ. eapply IH; eauto.
Qed.
Theorem mk_image_code_labels cs :
  NoDup (label_names cs) -> code_at (mk_image cs) 1%positive cs /\ labels_at (mk_image cs) 1%positive cs.
Proof. intros H. split; [apply build_code_at|now apply build_labels_at]. Qed.
(* a sub-list of placed code is placed code *)
Lemma code_at_app im pos a b c : code_at im pos (a ++ b ++ c) -> code_at im (pnth pos (List.length a)) b.
Proof.
  intros H n x Hn. rewrite pnth_add. apply H. rewrite nth_error_app2 by lia.
  replace (List.length a + n - List.length a)%nat with n by lia. rewrite nth_error_app1; auto. apply nth_error_Some. congruence.
Qed.
Lemma labels_at_app im pos a b c : labels_at im pos (a ++ b ++ c) -> labels_at im (pnth pos (List.length a)) b.
Proof.
  intros H n x Hn. rewrite pnth_add. apply H. rewrite nth_error_app2 by lia.
  replace (List.length a + n - List.length a)%nat with n by lia. rewrite nth_error_app1; auto. apply nth_error_Some. congruence.
Qed.

(* ---------- the abstraction under a header write ---------- *)
Lemma is_blk_nonneg p : is_blk p -> 0 <= p.
Proof. intros (k & Hk & -> & _). unfold HEAP_BASE. lia. Qed.
Lemma abs_mem_hset s p z x :
  is_blk p -> is_blk x -> abs_mem (hset s p z) x = Heap.set_hdr (abs_mem s) p z x.
Proof.
  intros Hp Hx. unfold Heap.set_hdr, Heap.upd. destruct (Z.eqb_spec x p) as [->|Hne].
  - unfold abs_mem. cbn [Heap.ps Heap.hdr]. pose proof (is_blk_nonneg p Hp).
    rewrite hword_hset_same, !hword_hset_other by lia. reflexivity.
  - unfold abs_mem. destruct Hp as (k & Hk & -> & Hp), Hx as (j & Hj & -> & Hx). unfold HEAP_BASE in *.
    rewrite !hword_hset_other by lia. reflexivity.
Qed.

Lemma wrap_id z : min_int <= z <= max_int -> wrap z = z.
Proof. unfold wrap, min_int, max_int, two63, two64. intros H. rewrite Z.mod_small by lia. lia. Qed.

Lemma st_eqB_refl a : st_eqB a a.
Proof. repeat split; auto. Qed.
Lemma st_eqB_trans a b c : st_eqB a b -> st_eqB b c -> st_eqB a c.
Proof. intros (A1 & A2 & A3 & A4) (B1 & B2 & B3 & B4). repeat split; try congruence. intros x Hx. rewrite A4, B4; auto. Qed.
Lemma st_eqB_sym a b : st_eqB a b -> st_eqB b a.
Proof. intros (A1 & A2 & A3 & A4). repeat split; auto. intros x Hx. symmetry; auto. Qed.
(* erase respects the block-wise equality *)
Lemma erase_st_eqB a b p : st_eqB a b -> (p = 0 \/ is_blk p) -> st_eqB (Heap.erase p a) (Heap.erase p b).
Proof.
  intros (A1 & A2 & A3 & A4) Hp. unfold Heap.erase. destruct (Z.eqb_spec p 0); [repeat split; auto|].
  destruct Hp as [|Hb]; [contradiction|]. rewrite (A4 p Hb).
  destruct (Heap.hdr (Heap.m b p) =? 0); (split; [|split; [|split]]); cbn; auto;
    intros x Hx; unfold Heap.set_hdr, Heap.upd; destruct (x =? p); rewrite ?A2, ?(A4 p Hb), ?(A4 x Hx); auto.
Qed.
(* sub-lists by position *)
Lemma nth_error_skipn_add {A} k : forall (l : list A) n, nth_error (skipn k l) n = nth_error l (k + n).
Proof. induction k as [|k IH]; intros l n; cbn; auto. destruct l; cbn; auto. now destruct n. Qed.
Lemma nth_error_firstn_some {A} m : forall (l : list A) n c, nth_error (firstn m l) n = Some c -> nth_error l n = Some c.
Proof. induction m as [|m IH]; intros l n c H; [destruct n; discriminate|]. destruct l; [destruct n; discriminate|]. destruct n; cbn in *; auto. Qed.
Lemma code_at_slice im pos cs off E : code_at im pos cs -> firstn (List.length E) (skipn off cs) = E -> code_at im (pnth pos off) E.
Proof.
  intros HC HE n c Hn. rewrite pnth_add. apply HC. rewrite <- HE in Hn. apply nth_error_firstn_some in Hn.
  now rewrite nth_error_skipn_add in Hn.
Qed.
Lemma labels_at_slice im pos cs off E : labels_at im pos cs -> firstn (List.length E) (skipn off cs) = E -> labels_at im (pnth pos off) E.
Proof.
  intros HC HE n c Hn. rewrite pnth_add. apply HC. rewrite <- HE in Hn. apply nth_error_firstn_some in Hn.
  now rewrite nth_error_skipn_add in Hn.
Qed.

Definition same_but_temp (s s' : xstate) : Prop :=
  (forall r, r <> TEMP -> rget s' r = rget s r) /\ stack s' = stack s /\ out s' = out s.

Lemma blk_heap_addr p : is_blk p -> heap_addr p.
Proof. intros H. rewrite <- (Z.add_0_r p). apply is_blk_addr; auto. Qed.

Lemma same_but_temp_regs s s' : same_but_temp s s' -> reg_or0 s' HEAP = reg_or0 s HEAP /\ reg_or0 s' FREE = reg_or0 s FREE.
Proof. intros (H & _). unfold reg_or0. rewrite !H by discriminate. auto. Qed.

Section Refine.
Variable im : image.

Ltac nxt HC k := eapply steps_next; [apply (HC k); reflexivity| |].
Ltac jmp HC k := eapply steps_jump; [apply (HC k); reflexivity| |].

(* ---------- share_block_n ---------- *)
Theorem x86_share_block_ok pos t n lc s sp p F :
  let cs := fst (x_share_block_n t n lc) in
  code_at im pos cs -> labels_at im pos cs ->
  frame_ok s sp -> loc_ok t -> lget s sp t = Some p ->
  (p = 0 \/ is_blk p) -> fits32 (Z.of_N n) = true ->
  (p <> 0 -> wrap (hword s p + Z.of_N n) = hword s p + Z.of_N n) ->
  exists s', steps im pos s (pnth pos (List.length cs)) s' /\
     st_eqB (abs_heap F s') (Heap.share p (Z.of_N n) (abs_heap F s)) /\
     same_but_temp s s' /\ frame_ok s' sp.
Proof.
  intros cs HC HL FR T P Hp Hn Hw. unfold cs in *. clear cs.
  destruct t as [r|q]; cbn [x_share_block_n skip_if_zero compare_immediate fst app List.length] in *; cbn [lget loc_ok] in *.
  - (* register *)
    destruct (Z.eq_dec p 0) as [->|Hp0].
    + exists (set_flags s (Some (0, 0))). split; [|split; [|split]].
      * nxt HC 0%nat. { apply step_CMPI0. exact P. }
        jmp HC 1%nat. { rewrite (step_JEL im _ _ 0 0) by reflexivity. cbn [Z.eqb]. unfold goto_label. rewrite (HL 3%nat _ eq_refl). reflexivity. }
        nxt HC 3%nat. { reflexivity. }
        apply steps_refl.
      * unfold Heap.share. cbn [Z.eqb]. repeat split; reflexivity.
      * repeat split; reflexivity.
      * now apply frame_ok_set_flags.
    + destruct Hp as [|Hb]; [contradiction|]. pose proof (blk_heap_addr p Hb) as Ha.
      exists (set_flags (hset (set_flags s (Some (p, 0))) p (wrap (hword s p + Z.of_N n))) None). split; [|split; [|split]].
      * nxt HC 0%nat. { apply step_CMPI0. exact P. }
        nxt HC 1%nat. { rewrite (step_JEL im _ _ p 0) by reflexivity. destruct (Z.eqb_spec p 0); [contradiction|reflexivity]. }
        nxt HC 2%nat. { change REFERENCE_COUNT_OFFSET with 0. eapply step_ADDIM_heap; [exact P|exact Ha|exact Hn]. }
        nxt HC 3%nat. { reflexivity. }
        apply steps_refl.
      * unfold Heap.share. destruct (Z.eqb_spec p 0); [contradiction|].
        split; [reflexivity|split; [reflexivity|split; [reflexivity|]]].
        intros x Hx. cbn [abs_heap Heap.m]. rewrite Hw by auto.
        change (abs_mem (set_flags (hset (set_flags s (Some (p, 0))) p (hword s p + Z.of_N n)) None) x)
          with (abs_mem (hset s p (hword s p + Z.of_N n)) x).
        now apply abs_mem_hset.
      * repeat split; reflexivity.
      * apply frame_ok_set_flags, frame_ok_hset, frame_ok_set_flags, FR.
  - (* spill slot *)
    destruct (Z.eq_dec p 0) as [->|Hp0].
    + exists (set_flags s (Some (0, 0))). split; [|split; [|split]].
      * nxt HC 0%nat. { apply (step_CMPIM0_slot im s sp); [exact FR|exact T|exact P]. }
        jmp HC 1%nat. { rewrite (step_JEL im _ _ 0 0) by reflexivity. cbn [Z.eqb]. unfold goto_label. rewrite (HL 4%nat _ eq_refl). reflexivity. }
        nxt HC 4%nat. { reflexivity. }
        apply steps_refl.
      * unfold Heap.share. cbn [Z.eqb]. repeat split; reflexivity.
      * repeat split; reflexivity.
      * now apply frame_ok_set_flags.
    + destruct Hp as [|Hb]; [contradiction|]. pose proof (blk_heap_addr p Hb) as Ha.
      set (s1 := set_flags s (Some (p, 0))).
      set (s2 := rset s1 TEMP (Some p)).
      exists (set_flags (hset s2 p (wrap (hword s p + Z.of_N n))) None). split; [|split; [|split]].
      * nxt HC 0%nat. { apply (step_CMPIM0_slot im s sp); [exact FR|exact T|exact P]. }
        nxt HC 1%nat. { rewrite (step_JEL im _ _ p 0) by reflexivity. destruct (Z.eqb_spec p 0); [contradiction|reflexivity]. }
        nxt HC 2%nat. { rewrite (step_MOVL_slot im s1 sp) by (auto; now apply frame_ok_set_flags). unfold s1. rewrite sget_set_flags, P. reflexivity. }
        nxt HC 3%nat. { change REFERENCE_COUNT_OFFSET with 0. eapply step_ADDIM_heap; [apply rget_rset_same|exact Ha|exact Hn]. }
        nxt HC 4%nat. { reflexivity. }
        apply steps_refl.
      * assert (SB : same_but_temp s (set_flags (hset s2 p (wrap (hword s p + Z.of_N n))) None)).
        { split; [|split; reflexivity]. intros r Hr. rewrite rget_set_flags, rget_hset. unfold s2. rewrite rget_rset_other by congruence. reflexivity. }
        destruct (same_but_temp_regs _ _ SB) as [E1 E2].
        unfold Heap.share. destruct (Z.eqb_spec p 0); [contradiction|].
        split; [exact E1|split; [exact E2|split; [reflexivity|]]].
        intros x Hx. cbn [abs_heap Heap.m]. change (hword s2 p) with (hword s p). rewrite Hw by auto.
        change (abs_mem (set_flags (hset s2 p (hword s p + Z.of_N n)) None) x)
          with (abs_mem (hset s p (hword s p + Z.of_N n)) x).
        now apply abs_mem_hset.
      * split; [|split; reflexivity]. intros r Hr. rewrite rget_set_flags, rget_hset. unfold s2. rewrite rget_rset_other by congruence. reflexivity.
      * apply frame_ok_set_flags, frame_ok_hset. unfold s2. apply frame_ok_rset; [discriminate|]. now apply frame_ok_set_flags.
Qed.

(* ---------- erase_block ---------- *)
Definition same_but_temp_free (s s' : xstate) : Prop :=
  (forall r, r <> TEMP -> r <> FREE -> rget s' r = rget s r) /\ stack s' = stack s /\ out s' = out s.

Theorem x86_erase_block_ok pos t lc s sp p f F :
  let cs := fst (x_erase_block t lc) in
  code_at im pos cs -> labels_at im pos cs ->
  frame_ok s sp -> loc_ok t -> lget s sp t = Some p -> rget s FREE = Some f ->
  (p = 0 \/ is_blk p) ->
  (p <> 0 -> hword s p <> 0 -> wrap (hword s p + -1) = hword s p - 1) ->
  exists s', steps im pos s (pnth pos (List.length cs)) s' /\
     st_eqB (abs_heap F s') (Heap.erase p (abs_heap F s)) /\
     same_but_temp_free s s' /\ (frame_ok s' sp /\ rget s' FREE = Some (Heap.free (Heap.erase p (abs_heap F s)))).
Proof.
  intros cs HC HL FR T P Hf Hp Hw. unfold cs in *. clear cs.
  assert (HeapReg : forall s', same_but_temp_free s s' -> reg_or0 s' HEAP = reg_or0 s HEAP).
  { intros s' (H & _). unfold reg_or0. now rewrite H by discriminate. }
  assert (Ff : reg_or0 s FREE = f) by (unfold reg_or0; now rewrite Hf).
  assert (EF0 : Heap.free (Heap.erase 0 (abs_heap F s)) = f) by exact Ff.
  assert (EFL : p <> 0 -> hword s p = 0 -> Heap.free (Heap.erase p (abs_heap F s)) = p).
  { intros A B. unfold Heap.erase. destruct (Z.eqb_spec p 0); [contradiction|].
    change (Heap.hdr (Heap.m (abs_heap F s) p)) with (hword s p). rewrite B. reflexivity. }
  assert (EFD : p <> 0 -> hword s p <> 0 -> Heap.free (Heap.erase p (abs_heap F s)) = f).
  { intros A B. unfold Heap.erase. destruct (Z.eqb_spec p 0); [contradiction|].
    change (Heap.hdr (Heap.m (abs_heap F s) p)) with (hword s p). destruct (Z.eqb_spec (hword s p) 0); [contradiction|exact Ff]. }
  destruct t as [r|q];
    cbn [x_erase_block erase_valid_object if_zero_then_else skip_if_zero compare_immediate fst snd app List.length] in *; cbn [lget loc_ok] in *.
  - (* register *)
    destruct (Z.eq_dec p 0) as [->|Hp0].
    + exists (set_flags s (Some (0, 0))). split; [|split; [|split]].
      * nxt HC 0%nat. { apply step_CMPI0. exact P. }
        jmp HC 1%nat. { rewrite (step_JEL im _ _ 0 0) by reflexivity. cbn [Z.eqb]. unfold goto_label. rewrite (HL 10%nat _ eq_refl). reflexivity. }
        nxt HC 10%nat. { reflexivity. }
        apply steps_refl.
      * unfold Heap.erase. cbn [Z.eqb]. repeat split; reflexivity.
      * repeat split; reflexivity.
      * split; [now apply frame_ok_set_flags|]. rewrite EF0. exact Hf.
    + destruct Hp as [|Hb]; [contradiction|]. pose proof (blk_heap_addr p Hb) as Ha.
      set (s1 := set_flags s (Some (p, 0))).
      set (s2 := set_flags s1 (Some (hword s p, 0))).
      destruct (Z.eq_dec (hword s p) 0) as [Hh|Hh].
      * (* last reference: onto the deferred list *)
        set (s3 := hset s2 p f).
        exists (rset s3 FREE (Some p)).
        assert (SB : same_but_temp_free s (rset s3 FREE (Some p))).
        { split; [|split; reflexivity]. intros r' _ Hr. rewrite rget_rset_other by congruence. reflexivity. }
        split; [|split; [|split]].
        -- nxt HC 0%nat. { apply step_CMPI0. exact P. }
           nxt HC 1%nat. { rewrite (step_JEL im _ _ p 0) by reflexivity. destruct (Z.eqb_spec p 0); [contradiction|reflexivity]. }
           nxt HC 2%nat. { change REFERENCE_COUNT_OFFSET with 0. eapply step_CMPIM0_heap; [exact P|exact Ha]. }
           jmp HC 3%nat. { rewrite (step_JEL im _ _ (hword s p) 0) by reflexivity. rewrite Hh. cbn [Z.eqb]. unfold goto_label. rewrite (HL 6%nat _ eq_refl). reflexivity. }
           nxt HC 6%nat. { reflexivity. }
           nxt HC 7%nat. { change NEXT_ELEMENT_OFFSET with 0. eapply step_MOVS_heap; [exact P|exact Ha|exact Hf]. }
           nxt HC 8%nat. { cbn [step]. reflexivity. }
           nxt HC 9%nat. { reflexivity. }
           nxt HC 10%nat. { reflexivity. }
           match goal with |- steps _ _ (rset _ FREE ?v) _ _ => change v with (rget s r) end. rewrite P. apply steps_refl.
        -- unfold Heap.erase. destruct (Z.eqb_spec p 0); [contradiction|].
           change (Heap.hdr (Heap.m (abs_heap F s) p)) with (hword s p). rewrite Hh. cbn [Z.eqb].
           split; [apply (HeapReg _ SB)|split; [|split; [reflexivity|]]].
           ++ cbn [abs_heap Heap.free]. unfold reg_or0. now rewrite rget_rset_same.
           ++ intros x Hx. cbn [abs_heap Heap.m Heap.free]. rewrite Ff.
              change (abs_mem (rset s3 FREE (Some p)) x) with (abs_mem (hset s p f) x). now apply abs_mem_hset.
        -- exact SB.
        -- split; [apply frame_ok_rset; [discriminate|]; apply frame_ok_hset, frame_ok_set_flags, frame_ok_set_flags, FR|]. rewrite EFL by auto. apply rget_rset_same.
      * (* other references remain: decrement *)
        exists (set_flags (hset s2 p (wrap (hword s p + -1))) None).
        assert (SB : same_but_temp_free s (set_flags (hset s2 p (wrap (hword s p + -1))) None)).
        { repeat split; reflexivity. }
        split; [|split; [|split]].
        -- nxt HC 0%nat. { apply step_CMPI0. exact P. }
           nxt HC 1%nat. { rewrite (step_JEL im _ _ p 0) by reflexivity. destruct (Z.eqb_spec p 0); [contradiction|reflexivity]. }
           nxt HC 2%nat. { change REFERENCE_COUNT_OFFSET with 0. eapply step_CMPIM0_heap; [exact P|exact Ha]. }
           nxt HC 3%nat. { rewrite (step_JEL im _ _ (hword s p) 0) by reflexivity. destruct (Z.eqb_spec (hword s p) 0); [contradiction|reflexivity]. }
           nxt HC 4%nat. { change REFERENCE_COUNT_OFFSET with 0. eapply step_ADDIM_heap; [exact P|exact Ha|reflexivity]. }
           jmp HC 5%nat. { cbn [step]. unfold goto_label. rewrite (HL 9%nat _ eq_refl). reflexivity. }
           nxt HC 9%nat. { reflexivity. }
           nxt HC 10%nat. { reflexivity. }
           apply steps_refl.
        -- unfold Heap.erase. destruct (Z.eqb_spec p 0); [contradiction|].
           change (Heap.hdr (Heap.m (abs_heap F s) p)) with (hword s p).
           destruct (Z.eqb_spec (hword s p) 0); [contradiction|].
           split; [reflexivity|split; [reflexivity|split; [reflexivity|]]].
           intros x Hx. cbn [abs_heap Heap.m]. change (hword s2 p) with (hword s p). rewrite Hw by auto.
           change (abs_mem (set_flags (hset s2 p (hword s p - 1)) None) x) with (abs_mem (hset s p (hword s p - 1)) x).
           now apply abs_mem_hset.
        -- exact SB.
        -- split; [apply frame_ok_set_flags, frame_ok_hset, frame_ok_set_flags, frame_ok_set_flags, FR|]. rewrite EFD by auto. exact Hf.
  - (* spill slot: the pointer is first loaded into the scratch register *)
    set (s0 := rset s TEMP (Some p)).
    assert (F0 : frame_ok s0 sp) by (apply frame_ok_rset; [discriminate|exact FR]).
    assert (P0 : rget s0 TEMP = Some p) by apply rget_rset_same.
    assert (Hf0 : rget s0 FREE = Some f) by (unfold s0; rewrite rget_rset_other by discriminate; exact Hf).
    destruct (Z.eq_dec p 0) as [->|Hp0].
    + exists (set_flags s0 (Some (0, 0))). split; [|split; [|split]].
      * nxt HC 0%nat. { rewrite (step_MOVL_slot im s sp FR) by exact T. rewrite P. reflexivity. }
        nxt HC 1%nat. { apply step_CMPI0. exact P0. }
        jmp HC 2%nat. { rewrite (step_JEL im _ _ 0 0) by reflexivity. cbn [Z.eqb]. unfold goto_label. rewrite (HL 11%nat _ eq_refl). reflexivity. }
        nxt HC 11%nat. { reflexivity. }
        apply steps_refl.
      * unfold Heap.erase. cbn [Z.eqb].
        split; [|split; [|split; [reflexivity|intros; reflexivity]]]; cbn [abs_heap Heap.heap Heap.free]; unfold reg_or0;
          rewrite rget_set_flags; unfold s0; now rewrite rget_rset_other by discriminate.
      * split; [|split; reflexivity]. intros r' Hr _. rewrite rget_set_flags. unfold s0. now rewrite rget_rset_other by congruence.
      * split; [now apply frame_ok_set_flags|]. rewrite EF0. exact Hf0.
    + destruct Hp as [|Hb]; [contradiction|]. pose proof (blk_heap_addr p Hb) as Ha.
      set (s1 := set_flags s0 (Some (p, 0))).
      set (s2 := set_flags s1 (Some (hword s p, 0))).
      destruct (Z.eq_dec (hword s p) 0) as [Hh|Hh].
      * set (s3 := hset s2 p f).
        exists (rset s3 FREE (Some p)).
        assert (SB : same_but_temp_free s (rset s3 FREE (Some p))).
        { split; [|split; reflexivity]. intros r' Hr1 Hr. rewrite rget_rset_other by congruence.
          unfold s3. rewrite rget_hset. unfold s2, s1. rewrite !rget_set_flags. unfold s0. now rewrite rget_rset_other by congruence. }
        split; [|split; [|split]].
        -- nxt HC 0%nat. { rewrite (step_MOVL_slot im s sp FR) by exact T. rewrite P. reflexivity. }
           nxt HC 1%nat. { apply step_CMPI0. exact P0. }
           nxt HC 2%nat. { rewrite (step_JEL im _ _ p 0) by reflexivity. destruct (Z.eqb_spec p 0); [contradiction|reflexivity]. }
           nxt HC 3%nat. { change REFERENCE_COUNT_OFFSET with 0. eapply step_CMPIM0_heap; [exact P0|exact Ha]. }
           jmp HC 4%nat. { rewrite (step_JEL im _ _ (hword s p) 0) by reflexivity. rewrite Hh. cbn [Z.eqb]. unfold goto_label. rewrite (HL 7%nat _ eq_refl). reflexivity. }
           nxt HC 7%nat. { reflexivity. }
           nxt HC 8%nat. { change NEXT_ELEMENT_OFFSET with 0. eapply step_MOVS_heap; [exact P0|exact Ha|exact Hf0]. }
           nxt HC 9%nat. { cbn [step]. reflexivity. }
           nxt HC 10%nat. { reflexivity. }
           nxt HC 11%nat. { reflexivity. }
           match goal with |- steps _ _ (rset _ FREE ?v) _ _ => change v with (rget s0 TEMP) end. rewrite P0. apply steps_refl.
        -- unfold Heap.erase. destruct (Z.eqb_spec p 0); [contradiction|].
           change (Heap.hdr (Heap.m (abs_heap F s) p)) with (hword s p). rewrite Hh. cbn [Z.eqb].
           split; [apply (HeapReg _ SB)|split; [|split; [reflexivity|]]].
           ++ cbn [abs_heap Heap.free]. unfold reg_or0. now rewrite rget_rset_same.
           ++ intros x Hx. cbn [abs_heap Heap.m Heap.free]. rewrite Ff.
              change (abs_mem (rset s3 FREE (Some p)) x) with (abs_mem (hset s p f) x). now apply abs_mem_hset.
        -- exact SB.
        -- split; [apply frame_ok_rset; [discriminate|]; apply frame_ok_hset, frame_ok_set_flags, frame_ok_set_flags, F0|]. rewrite EFL by auto. apply rget_rset_same.
      * exists (set_flags (hset s2 p (wrap (hword s p + -1))) None).
        assert (SB : same_but_temp_free s (set_flags (hset s2 p (wrap (hword s p + -1))) None)).
        { split; [|split; reflexivity]. intros r' Hr1 Hr. rewrite rget_set_flags, rget_hset. unfold s2, s1. rewrite !rget_set_flags.
          unfold s0. now rewrite rget_rset_other by congruence. }
        split; [|split; [|split]].
        -- nxt HC 0%nat. { rewrite (step_MOVL_slot im s sp FR) by exact T. rewrite P. reflexivity. }
           nxt HC 1%nat. { apply step_CMPI0. exact P0. }
           nxt HC 2%nat. { rewrite (step_JEL im _ _ p 0) by reflexivity. destruct (Z.eqb_spec p 0); [contradiction|reflexivity]. }
           nxt HC 3%nat. { change REFERENCE_COUNT_OFFSET with 0. eapply step_CMPIM0_heap; [exact P0|exact Ha]. }
           nxt HC 4%nat. { rewrite (step_JEL im _ _ (hword s p) 0) by reflexivity. destruct (Z.eqb_spec (hword s p) 0); [contradiction|reflexivity]. }
           nxt HC 5%nat. { change REFERENCE_COUNT_OFFSET with 0. eapply step_ADDIM_heap; [exact P0|exact Ha|reflexivity]. }
           jmp HC 6%nat. { cbn [step]. unfold goto_label. rewrite (HL 10%nat _ eq_refl). reflexivity. }
           nxt HC 10%nat. { reflexivity. }
           nxt HC 11%nat. { reflexivity. }
           apply steps_refl.
        -- unfold Heap.erase. destruct (Z.eqb_spec p 0); [contradiction|].
           change (Heap.hdr (Heap.m (abs_heap F s) p)) with (hword s p).
           destruct (Z.eqb_spec (hword s p) 0); [contradiction|].
           split; [apply (HeapReg _ SB)|split; [|split; [reflexivity|]]].
           ++ cbn [abs_heap Heap.free]. unfold reg_or0. rewrite rget_set_flags, rget_hset. unfold s2, s1. rewrite !rget_set_flags.
              unfold s0. now rewrite rget_rset_other by discriminate.
           ++ intros x Hx. cbn [abs_heap Heap.m]. change (hword s2 p) with (hword s p). rewrite Hw by auto.
              change (abs_mem (set_flags (hset s2 p (hword s p - 1)) None) x) with (abs_mem (hset s p (hword s p - 1)) x).
              now apply abs_mem_hset.
        -- exact SB.
        -- split; [apply frame_ok_set_flags, frame_ok_hset, frame_ok_set_flags, frame_ok_set_flags, F0|]. rewrite EFD by auto. exact Hf0.
Qed.

(* ---------- more single instructions ---------- *)
Lemma step_MOVL_heap s a b i p :
  rget s b = Some p -> heap_addr (p + i) -> step im (MOVL a b i) s = Next (rset s a (Some (hword s (p + i)))).
Proof. intros R H. cbn [step]. rewrite (ea_heap s b i p) by auto. unfold withm. now rewrite mload_heap. Qed.
Lemma step_MOVIM_heap s a p j :
  rget s a = Some p -> heap_addr p -> fits32 j = true -> step im (MOVIM a 0 j) s = Next (hset s p j).
Proof.
  intros R H J. cbn [step]. rewrite J, (ea_heap s a 0 p) by (auto; now rewrite Z.add_0_r).
  rewrite Z.add_0_r. unfold withm. now rewrite mstore_heap.
Qed.
Lemma step_ADDI s a x i :
  rget s a = Some x -> fits32 i = true -> step im (ADDI a i) s = Next (set_flags (rset s a (Some (wrap (x + i)))) None).
Proof. intros R J. cbn [step]. rewrite J. unfold need. now rewrite R. Qed.

(* ---------- release_block (straight-line) ---------- *)
Theorem x86_release_block_ok pos r s p h F :
  code_at im pos (release_block r) ->
  rget s r = Some p -> rget s HEAP = Some h -> is_blk p ->
  exists s', steps im pos s (pnth pos 2) s' /\
     st_eqB (abs_heap F s') (Heap.release p (abs_heap F s)) /\
     (forall r', r' <> HEAP -> rget s' r' = rget s r') /\ stack s' = stack s /\ out s' = out s.
Proof.
  intros HC P Hh Hb. pose proof (blk_heap_addr p Hb) as Ha. unfold release_block in HC.
  exists (rset (hset s p h) HEAP (Some p)). split; [|split; [|split; [|split; reflexivity]]].
  - nxt HC 0%nat. { change NEXT_ELEMENT_OFFSET with 0. eapply step_MOVS_heap; [exact P|exact Ha|exact Hh]. }
    nxt HC 1%nat. { cbn [step]. reflexivity. }
    change (rget (hset s p h) r) with (rget s r). rewrite P. apply steps_refl.
  - unfold Heap.release. split; [|split; [|split; [reflexivity|]]].
    + cbn [abs_heap Heap.heap]. unfold reg_or0. now rewrite rget_rset_same.
    + cbn [abs_heap Heap.free]. unfold reg_or0. now rewrite rget_rset_other by discriminate.
    + intros x Hx. cbn [abs_heap Heap.m Heap.heap]. unfold reg_or0 at 1. rewrite Hh.
      change (abs_mem (rset (hset s p h) HEAP (Some p)) x) with (abs_mem (hset s p h) x). now apply abs_mem_hset.
  - intros r' Hr. rewrite rget_rset_other by congruence. reflexivity.
Qed.

(* ---------- one iteration of erase_fields in acquire_block: load a child, erase it ---------- *)
Lemma abs_heap_rset_temp F s v : st_eqB (abs_heap F (rset s TEMP v)) (abs_heap F s).
Proof.
  unfold abs_heap, reg_or0. split; [|split; [|split; [reflexivity|intros; reflexivity]]]; cbn [Heap.heap Heap.free];
    now rewrite rget_rset_other by discriminate.
Qed.

Lemma x86_erase_field_ok pos off lc s sp h2 f F :
  let cs := MOVL TEMP HEAP off :: fst (x_erase_block (XR TEMP) lc) in
  code_at im pos cs -> labels_at im pos cs ->
  (off = 16 \/ off = 32 \/ off = 48) ->
  frame_ok s sp -> rget s HEAP = Some h2 -> is_blk h2 -> rget s FREE = Some f ->
  let c := hword s (h2 + off) in
  (c = 0 \/ is_blk c) ->
  (c <> 0 -> hword s c <> 0 -> wrap (hword s c + -1) = hword s c - 1) ->
  exists s', steps im pos s (pnth pos 12) s' /\
    st_eqB (abs_heap F s') (Heap.erase c (abs_heap F s)) /\
    same_but_temp_free s s' /\ frame_ok s' sp /\
    rget s' FREE = Some (Heap.free (Heap.erase c (abs_heap F s))).
Proof.
  intros cs HC HL Hoff FR Hh Hb Hf c Hc Hw.
  assert (Ha : heap_addr (h2 + off)) by (apply is_blk_addr; auto; tauto).
  set (s0 := rset s TEMP (Some c)).
  assert (F0 : frame_ok s0 sp) by (apply frame_ok_rset; [discriminate|exact FR]).
  assert (HC1 : code_at im (pnth pos 1) (fst (x_erase_block (XR TEMP) lc))).
  { intros n x Hn. rewrite pnth_add. apply HC. exact Hn. }
  assert (HL1 : labels_at im (pnth pos 1) (fst (x_erase_block (XR TEMP) lc))).
  { intros n x Hn. rewrite pnth_add. apply HL. exact Hn. }
  destruct (x86_erase_block_ok (pnth pos 1) (XR TEMP) lc s0 sp c f F HC1 HL1 F0 ltac:(cbn; discriminate)
              ltac:(cbn [lget]; apply rget_rset_same) ltac:(unfold s0; rewrite rget_rset_other by discriminate; exact Hf) Hc Hw)
    as (s' & ST & EQ & (SB1 & SB2 & SB3) & FR' & FREE').
  assert (E0 : st_eqB (Heap.erase c (abs_heap F s0)) (Heap.erase c (abs_heap F s))).
  { apply erase_st_eqB; auto. apply abs_heap_rset_temp. }
  exists s'. split; [|split; [|split; [|split]]].
  - eapply steps_next; [apply (HC 0%nat); reflexivity|eapply step_MOVL_heap; [exact Hh|exact Ha]|].
    fold c. fold s0.
    replace (pnth pos 12) with (pnth (pnth pos 1) (List.length (fst (x_erase_block (XR TEMP) lc)))) by (rewrite pnth_add; reflexivity).
    exact ST.
  - eapply st_eqB_trans; [exact EQ|exact E0].
  - split; [|split; [exact SB2|exact SB3]]. intros r' H1 H2. rewrite SB1 by auto. unfold s0. now rewrite rget_rset_other by congruence.
  - exact FR'.
  - rewrite FREE'. f_equal. destruct E0 as (_ & E & _). exact E.
Qed.

(* ---------- acquire_block, the new block in a register ---------- *)
Lemma erase_hdr_cases a p x :
  Heap.hdr (Heap.m (Heap.erase p a) x) = Heap.hdr (Heap.m a x) \/
  Heap.hdr (Heap.m (Heap.erase p a) x) = Heap.hdr (Heap.m a x) - 1 \/
  Heap.hdr (Heap.m (Heap.erase p a) x) = Heap.free a.
Proof.
  unfold Heap.erase. destruct (p =? 0); auto. destruct (Heap.hdr (Heap.m a p) =? 0); cbn; unfold Heap.set_hdr, Heap.upd;
    destruct (Z.eqb_spec x p); subst; cbn; auto.
Qed.
Lemma erase_free_cases a p : Heap.free (Heap.erase p a) = Heap.free a \/ Heap.free (Heap.erase p a) = p.
Proof. unfold Heap.erase. destruct (p =? 0); auto. destruct (Heap.hdr (Heap.m a p) =? 0); cbn; auto. Qed.
Lemma erase_ps_abs a p x : Heap.ps (Heap.m (Heap.erase p a) x) = Heap.ps (Heap.m a x).
Proof.
  unfold Heap.erase. destruct (p =? 0); auto. destruct (Heap.hdr (Heap.m a p) =? 0); cbn; unfold Heap.set_hdr, Heap.upd;
    destruct (Z.eqb_spec x p); subst; auto.
Qed.

(* all headers and the free pointer at least k above the smallest 64-bit integer *)
Definition bounded (k : Z) (s : xstate) (f : Z) : Prop :=
  (forall x, is_blk x -> min_int + k <= hword s x <= max_int) /\ min_int + k <= f <= max_int.
Lemma is_blk_range x : is_blk x -> min_int + 3 <= x <= max_int.
Proof. intros (k & Hk & -> & H). unfold min_int, max_int, two63, HEAP_BASE, HEAP_SIZE in *. lia. Qed.

Lemma bounded_after_erase F k s f s' c :
  bounded (k + 1) s f -> 0 <= k <= 2 -> Heap.free (abs_heap F s) = f -> (c = 0 \/ is_blk c) ->
  st_eqB (abs_heap F s') (Heap.erase c (abs_heap F s)) ->
  bounded k s' (Heap.free (Heap.erase c (abs_heap F s))).
Proof.
  intros [B1 B2] Hk Hf Hc (_ & _ & _ & E). split.
  - intros x Hx. change (hword s' x) with (Heap.hdr (Heap.m (abs_heap F s') x)). rewrite (E x Hx).
    specialize (B1 x Hx). change (hword s x) with (Heap.hdr (Heap.m (abs_heap F s) x)) in B1.
    destruct (erase_hdr_cases (abs_heap F s) c x) as [->|[->| ->]]; rewrite ?Hf; lia.
  - destruct (erase_free_cases (abs_heap F s) c) as [->| ->]; [rewrite Hf; lia|].
    destruct Hc as [->|Hb]; [unfold min_int, max_int, two63; lia|]. pose proof (is_blk_range c Hb). lia.
Qed.

(* ---------- acquire_block, the new block in a register: all three cases ---------- *)
Ltac rg := repeat first [rewrite rget_set_flags | rewrite rget_hset | rewrite rget_sset | rewrite rget_rset_other by (first [congruence|discriminate])].

Theorem x86_acquire_block_reg_ok pos r lc s sp rv h2 F :
  let cs := fst (acquire_block (XR r) lc) in
  code_at im pos cs -> labels_at im pos cs ->
  frame_ok s sp -> r <> 0%N -> r <> HEAP -> r <> FREE -> r <> TEMP ->
  rget s HEAP = Some rv -> is_blk rv -> rget s FREE = Some h2 ->
  (hword s rv = 0 -> is_blk h2) ->
  (hword s rv = 0 -> hword s h2 <> 0 ->
     (forall off, off = 16 \/ off = 32 \/ off = 48 -> hword s (h2 + off) = 0 \/ is_blk (hword s (h2 + off))) /\
     bounded 3 s (hword s h2)) ->
  exists s', steps im pos s (pnth pos (List.length cs)) s' /\
    st_eqB (abs_heap (Heap.frontier (snd (Heap.acquire (abs_heap F s)))) s') (snd (Heap.acquire (abs_heap F s))) /\
    rget s' r = Some rv /\ fst (Heap.acquire (abs_heap F s)) = rv /\
    (forall r', r' <> r -> r' <> TEMP -> r' <> HEAP -> r' <> FREE -> rget s' r' = rget s r') /\
    stack s' = stack s /\ out s' = out s /\ frame_ok s' sp.
Proof.
  intros cs HC HL FR R0 RH RF RT Hh Hb Hf Hb2 Hch. unfold cs in *. clear cs.
  unfold acquire_block, erase_fields in *. change (nseq 0 FIELDS_PER_BLOCK) with [0;1;2]%N in *.
  cbn [fold_left x_erase_block erase_valid_object if_zero_then_else skip_if_zero compare_immediate fst snd app List.length] in *.
  assert (HA : Heap.heap (abs_heap F s) = rv) by (unfold abs_heap, reg_or0; cbn [Heap.heap]; now rewrite Hh).
  assert (FA : Heap.free (abs_heap F s) = h2) by (unfold abs_heap, reg_or0; cbn [Heap.free]; now rewrite Hf).
  pose proof (blk_heap_addr rv Hb) as Ha.
  set (s1 := rset s r (Some rv)).
  set (s2 := rset s1 HEAP (Some (hword s rv))).
  set (s3 := set_flags s2 (Some (hword s rv, 0))).
  assert (P1 : rget s1 HEAP = Some rv) by (unfold s1; rewrite rget_rset_other by (first [congruence|discriminate]); exact Hh).
  assert (ST3 : forall pc' s', steps im (pnth pos 3) s3 pc' s' -> steps im pos s pc' s').
  { intros pc' s' H.
    nxt HC 0%nat. { cbn [step]. rewrite Hh. reflexivity. }
    nxt HC 1%nat. { change NEXT_ELEMENT_OFFSET with 0. eapply step_MOVL_heap; [exact P1|rewrite Z.add_0_r; exact Ha]. }
    nxt HC 2%nat. { apply step_CMPI0. rewrite Z.add_0_r. apply rget_rset_same. }
    rewrite Z.add_0_r. exact H. }
  unfold Heap.acquire. rewrite HA, FA.
  change (Heap.hdr (Heap.m (abs_heap F s) rv)) with (hword s rv).
  change (Heap.hdr (Heap.m (abs_heap F s) h2)) with (hword s h2).
  destruct (Z.eqb_spec (hword s rv) 0) as [H0|Hn0]; cbn [negb].
  2:{ (* case 1 *)
    exists (hset s3 rv 0). split; [|split; [|split; [|split; [|split; [|split; [|split]]]]]].
    - apply ST3.
      nxt HC 3%nat. { rewrite (step_JEL im _ _ (hword s rv) 0) by reflexivity. destruct (Z.eqb_spec (hword s rv) 0); [contradiction|reflexivity]. }
      nxt HC 4%nat. { change REFERENCE_COUNT_OFFSET with 0. eapply step_MOVIM_heap; [|exact Ha|reflexivity].
        unfold s3, s2. rewrite rget_set_flags, rget_rset_other by (first [congruence|discriminate]). apply rget_rset_same. }
      jmp HC 5%nat. { cbn [step]. unfold goto_label. rewrite (HL 53%nat _ eq_refl). reflexivity. }
      nxt HC 53%nat. { reflexivity. }
      apply steps_refl.
    - cbn [snd Heap.frontier]. split; [|split; [|split; [reflexivity|]]].
      + cbn [abs_heap Heap.heap]. unfold reg_or0. rewrite rget_hset. unfold s3, s2. rewrite rget_set_flags, rget_rset_same. reflexivity.
      + cbn [abs_heap Heap.free]. unfold reg_or0. rewrite rget_hset. unfold s3, s2, s1. rewrite rget_set_flags, !rget_rset_other by (first [congruence|discriminate]). now rewrite Hf.
      + intros x Hx. cbn [abs_heap Heap.m]. change (abs_mem (hset s3 rv 0) x) with (abs_mem (hset s rv 0) x). now apply abs_mem_hset.
    - rewrite rget_hset. unfold s3, s2. rewrite rget_set_flags, rget_rset_other by (first [congruence|discriminate]). apply rget_rset_same.
    - reflexivity.
    - intros r' A B C D. rewrite rget_hset. unfold s3, s2, s1. rewrite rget_set_flags, !rget_rset_other by (first [congruence|discriminate]). reflexivity.
    - reflexivity.
    - reflexivity.
    - apply frame_ok_hset, frame_ok_set_flags. unfold s2, s1. apply frame_ok_rset; [discriminate|]. apply frame_ok_rset; auto. }
  pose proof (Hb2 H0) as Hbh2. pose proof (blk_heap_addr h2 Hbh2) as Ha2.
  set (s4 := rset s3 HEAP (Some h2)).
  set (s5 := rset s4 FREE (Some (hword s h2))).
  set (s6 := set_flags s5 (Some (hword s h2, 0))).
  assert (P3F : rget s3 FREE = Some h2).
  { unfold s3, s2, s1. rewrite rget_set_flags, !rget_rset_other by (first [congruence|discriminate]). exact Hf. }
  assert (P4F : rget s4 FREE = Some h2) by (unfold s4; rewrite rget_rset_other by discriminate; exact P3F).
  assert (ST6 : forall pc' s', steps im (pnth pos 10) s6 pc' s' -> steps im pos s pc' s').
  { intros pc' s' H. apply ST3.
    jmp HC 3%nat. { rewrite (step_JEL im _ _ (hword s rv) 0) by reflexivity. rewrite H0. cbn [Z.eqb]. unfold goto_label. rewrite (HL 6%nat _ eq_refl). reflexivity. }
    nxt HC 6%nat. { reflexivity. }
    nxt HC 7%nat. { cbn [step]. rewrite P3F. reflexivity. }
    nxt HC 8%nat. { change NEXT_ELEMENT_OFFSET with 0. eapply step_MOVL_heap; [exact P4F|rewrite Z.add_0_r; exact Ha2]. }
    nxt HC 9%nat. { apply step_CMPI0. rewrite Z.add_0_r. apply rget_rset_same. }
    rewrite Z.add_0_r. exact H. }
  assert (P6r : rget s6 r = Some rv).
  { unfold s6, s5, s4, s3, s2. rg. apply rget_rset_same. }
  assert (P6H : rget s6 HEAP = Some h2).
  { unfold s6, s5. rg. apply rget_rset_same. }
  assert (P6o : forall r', r' <> r -> r' <> TEMP -> r' <> HEAP -> r' <> FREE -> rget s6 r' = rget s r').
  { intros r' A B C D. unfold s6, s5, s4, s3, s2, s1. rg. reflexivity. }
  assert (F6 : frame_ok s6 sp).
  { unfold s6, s5, s4, s3, s2, s1. repeat first [apply frame_ok_set_flags | apply frame_ok_rset; [first [assumption|discriminate]|]]. exact FR. }
  destruct (Z.eqb_spec (hword s h2) 0) as [Hf0|Hfn].
  - (* case 3: bump *)
    set (s7 := rset s6 FREE (Some h2)).
    exists (set_flags (rset s7 FREE (Some (wrap (h2 + 64)))) None).
    assert (W : wrap (h2 + 64) = h2 + 64).
    { apply wrap_id. destruct Hbh2 as (k & Hk & -> & Hhi). unfold min_int, max_int, two63, HEAP_BASE, HEAP_SIZE in *. lia. }
    split; [|split; [|split; [|split; [|split; [|split; [|split]]]]]].
    + apply ST6.
      jmp HC 10%nat. { rewrite (step_JEL im _ _ (hword s h2) 0) by reflexivity. rewrite Hf0. cbn [Z.eqb]. unfold goto_label. rewrite (HL 49%nat _ eq_refl). reflexivity. }
      nxt HC 49%nat. { reflexivity. }
      nxt HC 50%nat. { cbn [step]. rewrite P6H. reflexivity. }
      nxt HC 51%nat. { eapply step_ADDI; [apply rget_rset_same|reflexivity]. }
      nxt HC 52%nat. { reflexivity. }
      nxt HC 53%nat. { reflexivity. }
      apply steps_refl.
    + cbn [snd Heap.frontier]. split; [|split; [|split; [reflexivity|intros; reflexivity]]].
      * cbn [abs_heap Heap.heap]. unfold reg_or0. rewrite rget_set_flags, rget_rset_other by discriminate. unfold s7. rewrite rget_rset_other by discriminate. now rewrite P6H.
      * cbn [abs_heap Heap.free]. unfold reg_or0. rewrite rget_set_flags, rget_rset_same. exact W.
    + rewrite rget_set_flags. unfold s7. rewrite !rget_rset_other by (first [congruence|discriminate]). exact P6r.
    + reflexivity.
    + intros r' A B C D. rewrite rget_set_flags. unfold s7. rewrite !rget_rset_other by (first [congruence|discriminate]). now apply P6o.
    + reflexivity.
    + reflexivity.
    + apply frame_ok_set_flags. unfold s7. do 2 (apply frame_ok_rset; [discriminate|]). exact F6.
  - (* case 2: recycle the first deferred block, erase its children *)
    destruct (Hch H0 Hfn) as [Hkids [B1 B2]].
    set (f' := hword s h2) in *.
    set (sm := hset s6 h2 0).
    pose proof (is_blk_nonneg h2 Hbh2) as Hh2nn.
    assert (Wm : forall x, 0 <= x -> x <> h2 -> hword sm x = hword s x).
    { intros x A B. unfold sm. rewrite hword_hset_other by auto. reflexivity. }
    assert (PmH : rget sm HEAP = Some h2) by exact P6H.
    assert (PmF : rget sm FREE = Some f') by (unfold sm, s6, s5; rg; apply rget_rset_same).
    assert (Fm : frame_ok sm sp) by (apply frame_ok_hset; exact F6).
    assert (Bm : bounded 3 sm f').
    { split; [|exact B2]. intros x Hx. destruct (Z.eq_dec x h2) as [->|Hne].
      - unfold sm. rewrite hword_hset_same. unfold min_int, max_int, two63. lia.
      - rewrite Wm by (auto using is_blk_nonneg). now apply B1. }
    set (a1 := {| Heap.m := Heap.set_hdr (Heap.m (abs_heap F s)) h2 0; Heap.heap := h2; Heap.free := f'; Heap.frontier := Heap.frontier (abs_heap F s) |}).
    assert (Em : st_eqB (abs_heap F sm) a1).
    { unfold a1. split; [|split; [|split; [reflexivity|]]].
      - cbn [abs_heap Heap.heap]. unfold reg_or0. now rewrite PmH.
      - cbn [abs_heap Heap.free]. unfold reg_or0. now rewrite PmF.
      - intros x Hx. cbn [abs_heap Heap.m]. change (abs_mem sm x) with (abs_mem (hset s h2 0) x). now apply abs_mem_hset. }
    set (c1 := hword s (h2 + 16)). set (c2 := hword s (h2 + 32)). set (c3 := hword s (h2 + 48)).
    assert (K1 : c1 = 0 \/ is_blk c1) by (apply Hkids; auto).
    assert (K2 : c2 = 0 \/ is_blk c2) by (apply Hkids; auto).
    assert (K3 : c3 = 0 \/ is_blk c3) by (apply Hkids; auto).
    assert (Cm : hword sm (h2 + 16) = c1 /\ hword sm (h2 + 32) = c2 /\ hword sm (h2 + 48) = c3).
    { repeat split; apply Wm; lia. }
    destruct Cm as (Cm1 & Cm2 & Cm3).
    (* the slots of the recycled block are not changed by the erasures *)
    assert (Slots : forall s' a, st_eqB (abs_heap F s') (Heap.erase a (abs_heap F sm)) ->
              hword s' (h2 + 16) = c1 /\ hword s' (h2 + 32) = c2 /\ hword s' (h2 + 48) = c3).
    { intros s' a (_ & _ & _ & E). specialize (E h2 Hbh2). apply (f_equal Heap.ps) in E. rewrite erase_ps_abs in E.
      cbn [abs_heap Heap.m abs_mem Heap.ps] in E. inversion E. rewrite Cm1, Cm2, Cm3 in *. auto. }
    (* first child *)
    assert (HC1 : code_at im (pnth pos 12) (MOVL TEMP HEAP 16 :: fst (x_erase_block (XR TEMP) lc))) by (apply (code_at_slice _ _ _ 12 _ HC); reflexivity).
    assert (HL1 : labels_at im (pnth pos 12) (MOVL TEMP HEAP 16 :: fst (x_erase_block (XR TEMP) lc))) by (apply (labels_at_slice _ _ _ 12 _ HL); reflexivity).
    destruct (x86_erase_field_ok (pnth pos 12) 16 lc sm sp h2 f' F HC1 HL1 ltac:(auto) Fm PmH Hbh2 PmF) as (se1 & ST1 & EQ1 & SB1 & FR1 & FREE1).
    { rewrite Cm1. exact K1. }
    { rewrite Cm1. intros A B. apply wrap_id. destruct K1 as [|Kb]; [contradiction|]. pose proof (proj1 Bm c1 Kb). lia. }
    rewrite Cm1 in *.
    assert (Efm : Heap.free (abs_heap F sm) = f') by (destruct Em as (_ & E & _); exact E).
    set (am := abs_heap F sm) in *.
    pose proof (bounded_after_erase F 2 sm f' se1 c1 Bm ltac:(lia) Efm K1 EQ1) as Bd1. fold am in Bd1.
    destruct (Slots se1 c1 EQ1) as (_ & S12 & S13).
    assert (P1H : rget se1 HEAP = Some h2) by (destruct SB1 as (A & _); rewrite A by discriminate; exact PmH).
    (* second child *)
    assert (HC2 : code_at im (pnth pos 24) (MOVL TEMP HEAP 32 :: fst (x_erase_block (XR TEMP) (lc + 2 + 1)))) by (apply (code_at_slice _ _ _ 24 _ HC); reflexivity).
    assert (HL2 : labels_at im (pnth pos 24) (MOVL TEMP HEAP 32 :: fst (x_erase_block (XR TEMP) (lc + 2 + 1)))) by (apply (labels_at_slice _ _ _ 24 _ HL); reflexivity).
    destruct (x86_erase_field_ok (pnth pos 24) 32 (lc + 2 + 1) se1 sp h2 _ F HC2 HL2 ltac:(auto) FR1 P1H Hbh2 FREE1) as (se2 & ST2 & EQ2 & SB2 & FR2 & FREE2).
    { rewrite S12. exact K2. }
    { rewrite S12. intros A B. apply wrap_id. destruct K2 as [|Kb]; [contradiction|]. pose proof (proj1 Bd1 c2 Kb). lia. }
    rewrite S12 in *.
    assert (EQ2' : st_eqB (abs_heap F se2) (Heap.erase c2 (Heap.erase c1 am))).
    { eapply st_eqB_trans; [exact EQ2|]. apply erase_st_eqB; auto. }
    assert (Ef1 : Heap.free (abs_heap F se1) = Heap.free (Heap.erase c1 am)) by (destruct EQ1 as (_ & E & _); exact E).
    pose proof (bounded_after_erase F 1 se1 _ se2 c2 Bd1 ltac:(lia) Ef1 K2 EQ2) as Bd2.
    assert (S23 : hword se2 (h2 + 48) = c3).
    { destruct EQ2' as (_ & _ & _ & E). specialize (E h2 Hbh2). apply (f_equal Heap.ps) in E. rewrite !erase_ps_abs in E.
      unfold am in E. cbn [abs_heap Heap.m abs_mem Heap.ps] in E. inversion E. rewrite Cm3 in *. auto. }
    assert (P2H : rget se2 HEAP = Some h2) by (destruct SB2 as (A & _); rewrite A by discriminate; exact P1H).
    (* third child *)
    assert (HC3 : code_at im (pnth pos 36) (MOVL TEMP HEAP 48 :: fst (x_erase_block (XR TEMP) (lc + 2 + 1 + 2 + 1)))) by (apply (code_at_slice _ _ _ 36 _ HC); reflexivity).
    assert (HL3 : labels_at im (pnth pos 36) (MOVL TEMP HEAP 48 :: fst (x_erase_block (XR TEMP) (lc + 2 + 1 + 2 + 1)))) by (apply (labels_at_slice _ _ _ 36 _ HL); reflexivity).
    destruct (x86_erase_field_ok (pnth pos 36) 48 (lc + 2 + 1 + 2 + 1) se2 sp h2 _ F HC3 HL3 ltac:(auto) FR2 P2H Hbh2 FREE2) as (se3 & ST3' & EQ3 & SB3 & FR3 & FREE3).
    { rewrite S23. exact K3. }
    { rewrite S23. intros A B. apply wrap_id. destruct K3 as [|Kb]; [contradiction|]. pose proof (proj1 Bd2 c3 Kb). lia. }
    rewrite S23 in *.
    assert (EQ3' : st_eqB (abs_heap F se3) (Heap.erase c3 (Heap.erase c2 (Heap.erase c1 a1)))).
    { eapply st_eqB_trans; [exact EQ3|]. apply erase_st_eqB; auto.
      eapply st_eqB_trans; [exact EQ2'|]. apply erase_st_eqB; auto. apply erase_st_eqB; auto. }
    exists se3. split; [|split; [|split; [|split; [|split; [|split; [|split]]]]]].
    + apply ST6.
      nxt HC 10%nat. { rewrite (step_JEL im _ _ (hword s h2) 0) by reflexivity. fold f'. destruct (Z.eqb_spec f' 0); [contradiction|reflexivity]. }
      nxt HC 11%nat. { change NEXT_ELEMENT_OFFSET with 0. eapply step_MOVIM_heap; [exact P6H|exact Ha2|reflexivity]. }
      fold sm.
      eapply steps_trans; [exact ST1|]. eapply steps_trans; [exact ST2|]. eapply steps_trans; [exact ST3'|].
      jmp HC 48%nat. { cbn [step]. unfold goto_label. rewrite (HL 52%nat _ eq_refl). reflexivity. }
      nxt HC 52%nat. { reflexivity. }
      nxt HC 53%nat. { reflexivity. }
      apply steps_refl.
    + cbn [snd]. cbn [abs_heap Heap.m abs_mem Heap.ps fold_left]. fold c1 c2 c3. fold f'.
      assert (FE : Heap.frontier (Heap.erase c3 (Heap.erase c2 (Heap.erase c1 a1))) = F).
      { destruct EQ3' as (_ & _ & E & _). rewrite <- E. reflexivity. }
      change {| Heap.m := Heap.set_hdr (abs_mem s) h2 0; Heap.heap := h2; Heap.free := f'; Heap.frontier := F |} with a1.
      rewrite FE. exact EQ3'.
    + destruct SB3 as (A3 & _), SB2 as (A2 & _), SB1 as (A1 & _). rewrite A3, A2, A1 by (first [congruence|discriminate]). exact P6r.
    + reflexivity.
    + intros r' A B C D. destruct SB3 as (A3 & _), SB2 as (A2 & _), SB1 as (A1 & _). rewrite A3, A2, A1 by auto. unfold sm. rewrite rget_hset. now apply P6o.
    + destruct SB3 as (_ & A3 & _), SB2 as (_ & A2 & _), SB1 as (_ & A1 & _). rewrite A3, A2, A1. reflexivity.
    + destruct SB3 as (_ & _ & A3), SB2 as (_ & _ & A2), SB1 as (_ & _ & A1). rewrite A3, A2, A1. reflexivity.
    + exact FR3.
Qed.

(* ---------- acquire_block, the new block in a spill slot ---------- *)
Theorem x86_acquire_block_spill_ok pos q lc s sp rv h2 F :
  let cs := fst (acquire_block (XS q) lc) in
  code_at im pos cs -> labels_at im pos cs ->
  frame_ok s sp -> slot_ok q ->
  rget s HEAP = Some rv -> is_blk rv -> rget s FREE = Some h2 ->
  (hword s rv = 0 -> is_blk h2) ->
  (hword s rv = 0 -> hword s h2 <> 0 ->
     (forall off, off = 16 \/ off = 32 \/ off = 48 -> hword s (h2 + off) = 0 \/ is_blk (hword s (h2 + off))) /\
     bounded 3 s (hword s h2)) ->
  exists s', steps im pos s (pnth pos (List.length cs)) s' /\
    st_eqB (abs_heap (Heap.frontier (snd (Heap.acquire (abs_heap F s)))) s') (snd (Heap.acquire (abs_heap F s))) /\
    sget s' sp q = Some rv /\ fst (Heap.acquire (abs_heap F s)) = rv /\
    (forall r', r' <> TEMP -> r' <> HEAP -> r' <> FREE -> rget s' r' = rget s r') /\
    (forall q', slot_ok q' -> q' <> q -> sget s' sp q' = sget s sp q') /\ out s' = out s /\ frame_ok s' sp.
Proof.
  intros cs HC HL FR Q Hh Hb Hf Hb2 Hch. unfold cs in *. clear cs.
  unfold acquire_block, erase_fields in *. change (nseq 0 FIELDS_PER_BLOCK) with [0;1;2]%N in *.
  cbn [fold_left x_erase_block erase_valid_object if_zero_then_else skip_if_zero compare_immediate fst snd app List.length] in *.
  assert (HA : Heap.heap (abs_heap F s) = rv) by (unfold abs_heap, reg_or0; cbn [Heap.heap]; now rewrite Hh).
  assert (FA : Heap.free (abs_heap F s) = h2) by (unfold abs_heap, reg_or0; cbn [Heap.free]; now rewrite Hf).
  pose proof (blk_heap_addr rv Hb) as Ha.
  set (s0 := rset s TEMP (Some rv)).
  assert (F0 : frame_ok s0 sp) by (apply frame_ok_rset; [discriminate|exact FR]).
  set (s1 := sset s0 sp q (Some rv)).
  set (s2 := rset s1 HEAP (Some (hword s rv))).
  set (s3 := set_flags s2 (Some (hword s rv, 0))).
  assert (P1 : rget s1 HEAP = Some rv) by (unfold s1, s0; rewrite rget_sset, rget_rset_other by discriminate; exact Hh).
  assert (ST3 : forall pc' s', steps im (pnth pos 4) s3 pc' s' -> steps im pos s pc' s').
  { intros pc' s' H.
    nxt HC 0%nat. { cbn [step]. rewrite Hh. reflexivity. }
    nxt HC 1%nat. { rewrite (step_MOVS_slot im s0 sp F0) by exact Q. unfold s0 at 2. rewrite rget_rset_other by discriminate. rewrite Hh. reflexivity. }
    nxt HC 2%nat. { change NEXT_ELEMENT_OFFSET with 0. eapply step_MOVL_heap; [exact P1|rewrite Z.add_0_r; exact Ha]. }
    nxt HC 3%nat. { apply step_CMPI0. rewrite Z.add_0_r. apply rget_rset_same. }
    rewrite Z.add_0_r. exact H. }
  unfold Heap.acquire. rewrite HA, FA.
  change (Heap.hdr (Heap.m (abs_heap F s) rv)) with (hword s rv).
  change (Heap.hdr (Heap.m (abs_heap F s) h2)) with (hword s h2).
  destruct (Z.eqb_spec (hword s rv) 0) as [H0|Hn0]; cbn [negb].
  2:{ (* case 1 *)
    exists (hset s3 rv 0). split; [|split; [|split; [|split; [|split; [|split; [|split]]]]]].
    - apply ST3.
      nxt HC 4%nat. { rewrite (step_JEL im _ _ (hword s rv) 0) by reflexivity. destruct (Z.eqb_spec (hword s rv) 0); [contradiction|reflexivity]. }
      nxt HC 5%nat. { change REFERENCE_COUNT_OFFSET with 0. eapply step_MOVIM_heap; [|exact Ha|reflexivity].
        unfold s3, s2, s1, s0. rg. apply rget_rset_same. }
      jmp HC 6%nat. { cbn [step]. unfold goto_label. rewrite (HL 54%nat _ eq_refl). reflexivity. }
      nxt HC 54%nat. { reflexivity. }
      apply steps_refl.
    - cbn [snd Heap.frontier]. split; [|split; [|split; [reflexivity|]]].
      + cbn [abs_heap Heap.heap]. unfold reg_or0. rewrite rget_hset. unfold s3, s2. rewrite rget_set_flags, rget_rset_same. reflexivity.
      + cbn [abs_heap Heap.free]. unfold reg_or0. unfold s3, s2, s1, s0. rg. now rewrite Hf.
      + intros x Hx. cbn [abs_heap Heap.m]. change (abs_mem (hset s3 rv 0) x) with (abs_mem (hset s rv 0) x). now apply abs_mem_hset.
    - change (sget (hset s3 rv 0) sp q) with (sget s1 sp q). unfold s1. apply sget_sset_same.
    - reflexivity.
    - intros r' A C D. unfold s3, s2, s1, s0. rg. reflexivity.
    - intros q' Q' N. change (sget (hset s3 rv 0) sp q') with (sget s1 sp q'). unfold s1. rewrite sget_sset_other by (auto; apply FR). apply sget_rset.
    - reflexivity.
    - apply frame_ok_hset, frame_ok_set_flags. unfold s2, s1. apply frame_ok_rset; [discriminate|]. apply frame_ok_sset. exact F0. }
  pose proof (Hb2 H0) as Hbh2. pose proof (blk_heap_addr h2 Hbh2) as Ha2.
  set (s4 := rset s3 HEAP (Some h2)).
  set (s5 := rset s4 FREE (Some (hword s h2))).
  set (s6 := set_flags s5 (Some (hword s h2, 0))).
  assert (P3F : rget s3 FREE = Some h2).
  { unfold s3, s2, s1, s0. rg. exact Hf. }
  assert (P4F : rget s4 FREE = Some h2) by (unfold s4; rewrite rget_rset_other by discriminate; exact P3F).
  assert (ST6 : forall pc' s', steps im (pnth pos 11) s6 pc' s' -> steps im pos s pc' s').
  { intros pc' s' H. apply ST3.
    jmp HC 4%nat. { rewrite (step_JEL im _ _ (hword s rv) 0) by reflexivity. rewrite H0. cbn [Z.eqb]. unfold goto_label. rewrite (HL 7%nat _ eq_refl). reflexivity. }
    nxt HC 7%nat. { reflexivity. }
    nxt HC 8%nat. { cbn [step]. rewrite P3F. reflexivity. }
    nxt HC 9%nat. { change NEXT_ELEMENT_OFFSET with 0. eapply step_MOVL_heap; [exact P4F|rewrite Z.add_0_r; exact Ha2]. }
    nxt HC 10%nat. { apply step_CMPI0. rewrite Z.add_0_r. apply rget_rset_same. }
    rewrite Z.add_0_r. exact H. }
  assert (P6q : sget s6 sp q = Some rv).
  { change (sget s6 sp q) with (sget s1 sp q). unfold s1. apply sget_sset_same. }
  assert (P6s : forall q', slot_ok q' -> q' <> q -> sget s6 sp q' = sget s sp q').
  { intros q' Q' N. change (sget s6 sp q') with (sget s1 sp q'). unfold s1. rewrite sget_sset_other by (auto; apply FR). apply sget_rset. }
  assert (P6H : rget s6 HEAP = Some h2).
  { unfold s6, s5. rg. apply rget_rset_same. }
  assert (P6o : forall r', r' <> TEMP -> r' <> HEAP -> r' <> FREE -> rget s6 r' = rget s r').
  { intros r' B C D. unfold s6, s5, s4, s3, s2, s1, s0. rg. reflexivity. }
  assert (F6 : frame_ok s6 sp).
  { unfold s6, s5, s4, s3, s2, s1. apply frame_ok_set_flags. apply frame_ok_rset; [discriminate|]. apply frame_ok_rset; [discriminate|].
    apply frame_ok_set_flags. apply frame_ok_rset; [discriminate|]. apply frame_ok_sset. exact F0. }
  destruct (Z.eqb_spec (hword s h2) 0) as [Hf0|Hfn].
  - (* case 3: bump *)
    set (s7 := rset s6 FREE (Some h2)).
    exists (set_flags (rset s7 FREE (Some (wrap (h2 + 64)))) None).
    assert (W : wrap (h2 + 64) = h2 + 64).
    { apply wrap_id. destruct Hbh2 as (k & Hk & -> & Hhi). unfold min_int, max_int, two63, HEAP_BASE, HEAP_SIZE in *. lia. }
    split; [|split; [|split; [|split; [|split; [|split; [|split]]]]]].
    + apply ST6.
      jmp HC 11%nat. { rewrite (step_JEL im _ _ (hword s h2) 0) by reflexivity. rewrite Hf0. cbn [Z.eqb]. unfold goto_label. rewrite (HL 50%nat _ eq_refl). reflexivity. }
      nxt HC 50%nat. { reflexivity. }
      nxt HC 51%nat. { cbn [step]. rewrite P6H. reflexivity. }
      nxt HC 52%nat. { eapply step_ADDI; [apply rget_rset_same|reflexivity]. }
      nxt HC 53%nat. { reflexivity. }
      nxt HC 54%nat. { reflexivity. }
      apply steps_refl.
    + cbn [snd Heap.frontier]. split; [|split; [|split; [reflexivity|intros; reflexivity]]].
      * cbn [abs_heap Heap.heap]. unfold reg_or0. rewrite rget_set_flags, rget_rset_other by discriminate. unfold s7. rewrite rget_rset_other by discriminate. now rewrite P6H.
      * cbn [abs_heap Heap.free]. unfold reg_or0. rewrite rget_set_flags, rget_rset_same. exact W.
    + exact P6q.
    + reflexivity.
    + intros r' B C D. rewrite rget_set_flags. unfold s7. rewrite !rget_rset_other by (first [congruence|discriminate]). now apply P6o.
    + exact P6s.
    + reflexivity.
    + apply frame_ok_set_flags. unfold s7. do 2 (apply frame_ok_rset; [discriminate|]). exact F6.
  - (* case 2: recycle the first deferred block, erase its children *)
    destruct (Hch H0 Hfn) as [Hkids [B1 B2]].
    set (f' := hword s h2) in *.
    set (sm := hset s6 h2 0).
    pose proof (is_blk_nonneg h2 Hbh2) as Hh2nn.
    assert (Wm : forall x, 0 <= x -> x <> h2 -> hword sm x = hword s x).
    { intros x A B. unfold sm. rewrite hword_hset_other by auto. reflexivity. }
    assert (PmH : rget sm HEAP = Some h2) by exact P6H.
    assert (PmF : rget sm FREE = Some f') by (unfold sm, s6, s5; rg; apply rget_rset_same).
    assert (Fm : frame_ok sm sp) by (apply frame_ok_hset; exact F6).
    assert (Bm : bounded 3 sm f').
    { split; [|exact B2]. intros x Hx. destruct (Z.eq_dec x h2) as [->|Hne].
      - unfold sm. rewrite hword_hset_same. unfold min_int, max_int, two63. lia.
      - rewrite Wm by (auto using is_blk_nonneg). now apply B1. }
    set (a1 := {| Heap.m := Heap.set_hdr (Heap.m (abs_heap F s)) h2 0; Heap.heap := h2; Heap.free := f'; Heap.frontier := Heap.frontier (abs_heap F s) |}).
    assert (Em : st_eqB (abs_heap F sm) a1).
    { unfold a1. split; [|split; [|split; [reflexivity|]]].
      - cbn [abs_heap Heap.heap]. unfold reg_or0. now rewrite PmH.
      - cbn [abs_heap Heap.free]. unfold reg_or0. now rewrite PmF.
      - intros x Hx. cbn [abs_heap Heap.m]. change (abs_mem sm x) with (abs_mem (hset s h2 0) x). now apply abs_mem_hset. }
    set (c1 := hword s (h2 + 16)). set (c2 := hword s (h2 + 32)). set (c3 := hword s (h2 + 48)).
    assert (K1 : c1 = 0 \/ is_blk c1) by (apply Hkids; auto).
    assert (K2 : c2 = 0 \/ is_blk c2) by (apply Hkids; auto).
    assert (K3 : c3 = 0 \/ is_blk c3) by (apply Hkids; auto).
    assert (Cm : hword sm (h2 + 16) = c1 /\ hword sm (h2 + 32) = c2 /\ hword sm (h2 + 48) = c3).
    { repeat split; apply Wm; lia. }
    destruct Cm as (Cm1 & Cm2 & Cm3).
    (* the slots of the recycled block are not changed by the erasures *)
    assert (Slots : forall s' a, st_eqB (abs_heap F s') (Heap.erase a (abs_heap F sm)) ->
              hword s' (h2 + 16) = c1 /\ hword s' (h2 + 32) = c2 /\ hword s' (h2 + 48) = c3).
    { intros s' a (_ & _ & _ & E). specialize (E h2 Hbh2). apply (f_equal Heap.ps) in E. rewrite erase_ps_abs in E.
      cbn [abs_heap Heap.m abs_mem Heap.ps] in E. inversion E. rewrite Cm1, Cm2, Cm3 in *. auto. }
    (* first child *)
    assert (HC1 : code_at im (pnth pos 13) (MOVL TEMP HEAP 16 :: fst (x_erase_block (XR TEMP) lc))) by (apply (code_at_slice _ _ _ 13 _ HC); reflexivity).
    assert (HL1 : labels_at im (pnth pos 13) (MOVL TEMP HEAP 16 :: fst (x_erase_block (XR TEMP) lc))) by (apply (labels_at_slice _ _ _ 13 _ HL); reflexivity).
    destruct (x86_erase_field_ok (pnth pos 13) 16 lc sm sp h2 f' F HC1 HL1 ltac:(auto) Fm PmH Hbh2 PmF) as (se1 & ST1 & EQ1 & SB1 & FR1 & FREE1).
    { rewrite Cm1. exact K1. }
    { rewrite Cm1. intros A B. apply wrap_id. destruct K1 as [|Kb]; [contradiction|]. pose proof (proj1 Bm c1 Kb). lia. }
    rewrite Cm1 in *.
    assert (Efm : Heap.free (abs_heap F sm) = f') by (destruct Em as (_ & E & _); exact E).
    set (am := abs_heap F sm) in *.
    pose proof (bounded_after_erase F 2 sm f' se1 c1 Bm ltac:(lia) Efm K1 EQ1) as Bd1. fold am in Bd1.
    destruct (Slots se1 c1 EQ1) as (_ & S12 & S13).
    assert (P1H : rget se1 HEAP = Some h2) by (destruct SB1 as (A & _); rewrite A by discriminate; exact PmH).
    (* second child *)
    assert (HC2 : code_at im (pnth pos 25) (MOVL TEMP HEAP 32 :: fst (x_erase_block (XR TEMP) (lc + 2 + 1)))) by (apply (code_at_slice _ _ _ 25 _ HC); reflexivity).
    assert (HL2 : labels_at im (pnth pos 25) (MOVL TEMP HEAP 32 :: fst (x_erase_block (XR TEMP) (lc + 2 + 1)))) by (apply (labels_at_slice _ _ _ 25 _ HL); reflexivity).
    destruct (x86_erase_field_ok (pnth pos 25) 32 (lc + 2 + 1) se1 sp h2 _ F HC2 HL2 ltac:(auto) FR1 P1H Hbh2 FREE1) as (se2 & ST2 & EQ2 & SB2 & FR2 & FREE2).
    { rewrite S12. exact K2. }
    { rewrite S12. intros A B. apply wrap_id. destruct K2 as [|Kb]; [contradiction|]. pose proof (proj1 Bd1 c2 Kb). lia. }
    rewrite S12 in *.
    assert (EQ2' : st_eqB (abs_heap F se2) (Heap.erase c2 (Heap.erase c1 am))).
    { eapply st_eqB_trans; [exact EQ2|]. apply erase_st_eqB; auto. }
    assert (Ef1 : Heap.free (abs_heap F se1) = Heap.free (Heap.erase c1 am)) by (destruct EQ1 as (_ & E & _); exact E).
    pose proof (bounded_after_erase F 1 se1 _ se2 c2 Bd1 ltac:(lia) Ef1 K2 EQ2) as Bd2.
    assert (S23 : hword se2 (h2 + 48) = c3).
    { destruct EQ2' as (_ & _ & _ & E). specialize (E h2 Hbh2). apply (f_equal Heap.ps) in E. rewrite !erase_ps_abs in E.
      unfold am in E. cbn [abs_heap Heap.m abs_mem Heap.ps] in E. inversion E. rewrite Cm3 in *. auto. }
    assert (P2H : rget se2 HEAP = Some h2) by (destruct SB2 as (A & _); rewrite A by discriminate; exact P1H).
    (* third child *)
    assert (HC3 : code_at im (pnth pos 37) (MOVL TEMP HEAP 48 :: fst (x_erase_block (XR TEMP) (lc + 2 + 1 + 2 + 1)))) by (apply (code_at_slice _ _ _ 37 _ HC); reflexivity).
    assert (HL3 : labels_at im (pnth pos 37) (MOVL TEMP HEAP 48 :: fst (x_erase_block (XR TEMP) (lc + 2 + 1 + 2 + 1)))) by (apply (labels_at_slice _ _ _ 37 _ HL); reflexivity).
    destruct (x86_erase_field_ok (pnth pos 37) 48 (lc + 2 + 1 + 2 + 1) se2 sp h2 _ F HC3 HL3 ltac:(auto) FR2 P2H Hbh2 FREE2) as (se3 & ST3' & EQ3 & SB3 & FR3 & FREE3).
    { rewrite S23. exact K3. }
    { rewrite S23. intros A B. apply wrap_id. destruct K3 as [|Kb]; [contradiction|]. pose proof (proj1 Bd2 c3 Kb). lia. }
    rewrite S23 in *.
    assert (EQ3' : st_eqB (abs_heap F se3) (Heap.erase c3 (Heap.erase c2 (Heap.erase c1 a1)))).
    { eapply st_eqB_trans; [exact EQ3|]. apply erase_st_eqB; auto.
      eapply st_eqB_trans; [exact EQ2'|]. apply erase_st_eqB; auto. apply erase_st_eqB; auto. }
    exists se3. split; [|split; [|split; [|split; [|split; [|split; [|split]]]]]].
    + apply ST6.
      nxt HC 11%nat. { rewrite (step_JEL im _ _ (hword s h2) 0) by reflexivity. fold f'. destruct (Z.eqb_spec f' 0); [contradiction|reflexivity]. }
      nxt HC 12%nat. { change NEXT_ELEMENT_OFFSET with 0. eapply step_MOVIM_heap; [exact P6H|exact Ha2|reflexivity]. }
      fold sm.
      eapply steps_trans; [exact ST1|]. eapply steps_trans; [exact ST2|]. eapply steps_trans; [exact ST3'|].
      jmp HC 49%nat. { cbn [step]. unfold goto_label. rewrite (HL 53%nat _ eq_refl). reflexivity. }
      nxt HC 53%nat. { reflexivity. }
      nxt HC 54%nat. { reflexivity. }
      apply steps_refl.
    + cbn [snd]. cbn [abs_heap Heap.m abs_mem Heap.ps fold_left]. fold c1 c2 c3. fold f'.
      assert (FE : Heap.frontier (Heap.erase c3 (Heap.erase c2 (Heap.erase c1 a1))) = F).
      { destruct EQ3' as (_ & _ & E & _). rewrite <- E. reflexivity. }
      change {| Heap.m := Heap.set_hdr (abs_mem s) h2 0; Heap.heap := h2; Heap.free := f'; Heap.frontier := F |} with a1.
      rewrite FE. exact EQ3'.
    + destruct SB3 as (_ & A3 & _), SB2 as (_ & A2 & _), SB1 as (_ & A1 & _). unfold sget. rewrite A3, A2, A1. exact P6q.
    + reflexivity.
    + intros r' B C D. destruct SB3 as (A3 & _), SB2 as (A2 & _), SB1 as (A1 & _). rewrite A3, A2, A1 by auto. unfold sm. rewrite rget_hset. now apply P6o.
    + intros q' Q' N. destruct SB3 as (_ & A3 & _), SB2 as (_ & A2 & _), SB1 as (_ & A1 & _). unfold sget. rewrite A3, A2, A1. now apply P6s.
    + destruct SB3 as (_ & _ & A3), SB2 as (_ & _ & A2), SB1 as (_ & _ & A1). rewrite A3, A2, A1. reflexivity.
    + exact FR3.
Qed.
End Refine.
