(* Refinement of the two simplest allocator operations to the x86-64 code of axcut2x86_64's
   memory.rs, on the ISA semantics of Sem/X86Sem.v:
     - abs_heap: the abstraction of a machine state to the abstract allocator state of Model/Heap.v
       (header = word 0 of a block, pointer slots = the words at offsets 16, 32, 48, heap / free =
       the two allocator registers, the frontier a ghost);
     - structured execution of code with forward jumps (`steps`), for code placed anywhere in an
       image whose labels resolve to their positions (shown for mk_image with duplicate-free labels);
     - x86_share_block_ok, x86_erase_block_ok: the emitted code of share_block_n / erase_block,
       the pointer in a register or in a spill slot, null included, all branches. *)
From Coq Require Import List ZArith NArith String Bool Lia FMapPositive.
From SCC Require Import Base.Sexp Lang.AxSyn Sem.AxSem Model.Backend Model.X86 Sem.X86Sem Generated.Constants
  Proof.X86State Proof.X86Sel.
From SCC Require Model.Heap.
Import ListNotations.
Open Scope Z_scope.

(* ---------- the abstraction ---------- *)
Definition hword (s : xstate) (a : Z) : Z :=
  match PM.find (key a) (heap s) with Some z => z | None => 0 end.
Definition abs_mem (s : xstate) : Heap.mem :=
  fun a => {| Heap.hdr := hword s a; Heap.ps := [hword s (a + 16); hword s (a + 32); hword s (a + 48)] |}.
Definition reg_or0 (s : xstate) (r : N) : Z := match rget s r with Some z => z | None => 0 end.
Definition abs_heap (F : Z) (s : xstate) : Heap.st :=
  {| Heap.m := abs_mem s; Heap.heap := reg_or0 s HEAP; Heap.free := reg_or0 s FREE; Heap.frontier := F |}.

(* block addresses of the heap region *)
Definition is_blk (a : Z) : Prop := exists k, 0 <= k /\ a = HEAP_BASE + 64 * k /\ a + 64 <= HEAP_BASE + HEAP_SIZE.
(* equality of abstract states on the blocks (memories are functions; no extensionality axiom) *)
Definition st_eqB (a b : Heap.st) : Prop :=
  Heap.heap a = Heap.heap b /\ Heap.free a = Heap.free b /\ Heap.frontier a = Heap.frontier b /\
  forall x, is_blk x -> Heap.m a x = Heap.m b x.

(* ---------- heap accesses ---------- *)
Definition heap_addr (a : Z) : Prop := a mod 8 = 0 /\ HEAP_BASE <= a /\ a + 8 <= HEAP_BASE + HEAP_SIZE.
Definition hset (s : xstate) (a z : Z) : xstate :=
  {| regs := regs s; heap := PM.add (key a) z (heap s); stack := stack s; flags := flags s; out := out s;
     hw := Z.max (hw s) a |}.

Lemma is_blk_addr p i : is_blk p -> (i = 0 \/ i = 16 \/ i = 32 \/ i = 48) -> heap_addr (p + i).
Proof.
  intros (k & Hk & -> & Hhi) Hi. unfold heap_addr, HEAP_BASE, HEAP_SIZE in *.
  repeat split; try lia.
  replace (268435456 + 64 * k + i) with (i + (33554432 + 8 * k) * 8) by lia. rewrite Z.mod_add by lia.
  destruct Hi as [->|[->|[->| ->]]]; reflexivity.
Qed.
Lemma heap_addr_facts a : heap_addr a -> aligned a = true /\ in_heap a = true /\ in_stack a = false /\ 0 <= a.
Proof.
  intros (A & L & H). unfold aligned, in_heap, in_stack, HEAP_BASE, HEAP_SIZE, STACK_LIMIT, STACK_TOP in *.
  rewrite A. repeat split; try lia.
  all: try (apply andb_true_iff; split; apply Z.leb_le; lia).
  all: try (apply andb_false_iff; left; apply Z.leb_gt; lia).
Qed.

Lemma mload_heap s a : heap_addr a -> mload s a = MOk (Some (hword s a)).
Proof. intros H. destruct (heap_addr_facts a H) as (A & B & _ & _). unfold mload. now rewrite A, B. Qed.
Lemma mstore_heap s a z : heap_addr a -> mstore s a (Some z) = MOk (hset s a z).
Proof. intros H. destruct (heap_addr_facts a H) as (A & B & _ & _). unfold mstore. now rewrite A, B. Qed.
Lemma ea_heap s r i p k : rget s r = Some p -> heap_addr (p + i) -> ea s r i k = k (p + i).
Proof. intros R H. destruct (heap_addr_facts _ H) as (_ & _ & C & _). unfold ea, need. now rewrite R, C. Qed.

Lemma hword_hset_same s a z : hword (hset s a z) a = z.
Proof. unfold hword, hset; cbn. now rewrite PM.gss. Qed.
Lemma hword_hset_other s a z b : 0 <= a -> 0 <= b -> a <> b -> hword (hset s a z) b = hword s b.
Proof. intros A B H. unfold hword, hset; cbn. rewrite PM.gso; auto. intro E. apply key_inj in E; auto. Qed.
Lemma rget_hset s a z r : rget (hset s a z) r = rget s r. Proof. reflexivity. Qed.
Lemma stack_hset s a z : stack (hset s a z) = stack s. Proof. reflexivity. Qed.
Lemma out_hset s a z : out (hset s a z) = out s. Proof. reflexivity. Qed.
Lemma hword_rset s r v a : hword (rset s r v) a = hword s a. Proof. reflexivity. Qed.
Lemma hword_set_flags s f a : hword (set_flags s f) a = hword s a. Proof. reflexivity. Qed.
Lemma frame_ok_hset s sp a z : frame_ok s sp -> frame_ok (hset s a z) sp.
Proof. intros (A & B). split; [exact A|exact B]. Qed.

(* ---------- single instructions on heap words ---------- *)
Section HeapSteps.
Variable im : image.
Lemma step_CMPI0 s r v : rget s r = Some v -> step im (CMPI r 0) s = Next (set_flags s (Some (v, 0))).
Proof. intros H. cbn [step]. change (fits32 0) with true. unfold need. now rewrite H. Qed.
Lemma step_CMPIM0_slot s sp q v :
  frame_ok s sp -> slot_ok q -> sget s sp q = Some v ->
  step im (CMPIM STACK (stack_offset q) 0) s = Next (set_flags s (Some (v, 0))).
Proof.
  intros F Q H. cbn [step]. change (fits32 0) with true. rewrite (ea_stack s sp) by auto. unfold withm, need.
  rewrite mload_slot by auto. now rewrite H.
Qed.
Lemma step_CMPIM0_heap s r p :
  rget s r = Some p -> heap_addr p ->
  step im (CMPIM r 0 0) s = Next (set_flags s (Some (hword s p, 0))).
Proof.
  intros R H. cbn [step]. change (fits32 0) with true. rewrite (ea_heap s r 0 p) by (auto; now rewrite Z.add_0_r).
  rewrite Z.add_0_r. unfold withm, need. now rewrite mload_heap.
Qed.
Lemma step_ADDIM_heap s r p j :
  rget s r = Some p -> heap_addr p -> fits32 j = true ->
  step im (ADDIM r 0 j) s = Next (set_flags (hset s p (wrap (hword s p + j))) None).
Proof.
  intros R H J. cbn [step]. rewrite J. rewrite (ea_heap s r 0 p) by (auto; now rewrite Z.add_0_r).
  rewrite Z.add_0_r. unfold withm, need. rewrite mload_heap by auto. now rewrite mstore_heap.
Qed.
Lemma step_MOVS_heap s a b p v :
  rget s b = Some p -> heap_addr p -> rget s a = Some v ->
  step im (MOVS a b 0) s = Next (hset s p v).
Proof.
  intros R H A. cbn [step]. rewrite (ea_heap s b 0 p) by (auto; now rewrite Z.add_0_r).
  rewrite Z.add_0_r. unfold withm. now rewrite A, mstore_heap.
Qed.
Lemma step_JEL s l x y :
  flags s = Some (x, y) ->
  step im (JEL l) s = if x =? y then goto_label im s l else Next s.
Proof. intros H. cbn [step]. unfold cond_jump. now rewrite H. Qed.
End HeapSteps.

(* ---------- structured execution ---------- *)
Fixpoint pnth (p : positive) (n : nat) : positive :=
  match n with O => p | S k => Pos.succ (pnth p k) end.
Lemma pnth_succ p n : pnth (Pos.succ p) n = Pos.succ (pnth p n).
Proof. induction n; cbn; congruence. Qed.
Lemma pnth_add p a b : pnth (pnth p a) b = pnth p (a + b).
Proof. induction b; cbn; rewrite ?Nat.add_0_r, <- ?plus_n_Sm; cbn; congruence. Qed.

(* the instruction list cs sits in the image from index pos on, and its labels resolve to their
   positions *)
Definition code_at (im : image) (pos : positive) (cs : list xcode) : Prop :=
  forall n c, nth_error cs n = Some c -> PM.find (pnth pos n) (code im) = Some c.
Definition labels_at (im : image) (pos : positive) (cs : list xcode) : Prop :=
  forall n l, nth_error cs n = Some (LAB l) -> find_label (labels im) l = Some (pnth pos n).

Inductive steps (im : image) : positive -> xstate -> positive -> xstate -> Prop :=
| steps_refl pc s : steps im pc s pc s
| steps_next pc s c s1 pc' s' :
    PM.find pc (code im) = Some c -> step im c s = Next s1 -> steps im (Pos.succ pc) s1 pc' s' ->
    steps im pc s pc' s'
| steps_jump pc s c s1 i pc' s' :
    PM.find pc (code im) = Some c -> step im c s = Jump s1 i -> steps im i s1 pc' s' ->
    steps im pc s pc' s'.

Lemma steps_trans im pc s pc1 s1 pc2 s2 : steps im pc s pc1 s1 -> steps im pc1 s1 pc2 s2 -> steps im pc s pc2 s2.
Proof. induction 1; intros H2; auto; [eapply steps_next|eapply steps_jump]; eauto. Qed.

(* `steps` is what the executable runner does *)
Lemma steps_run_chunk im pc s pc' s' :
  steps im pc s pc' s' -> exists n, forall fuel, run_chunk (n + fuel) im pc s = run_chunk fuel im pc' s'.
Proof.
  induction 1 as [pc s|pc s c s1 pc' s' Hc Hs _ [n IH]|pc s c s1 i pc' s' Hc Hs _ [n IH]].
  - exists O. reflexivity.
  - exists (S n). intros fuel. cbn [Nat.add run_chunk]. rewrite Hc, Hs. apply IH.
  - exists (S n). intros fuel. cbn [Nat.add run_chunk]. rewrite Hc, Hs. apply IH.
Qed.

(* mk_image places a program at index 1 and resolves duplicate-free labels to their positions *)
Lemma build_code_below : forall cs i a im j, (j < i)%positive -> PM.find j (code (build cs i a im)) = PM.find j (code im).
Proof.
  induction cs as [|c r IH]; intros i a im j Hj; cbn [build code]; auto.
  rewrite IH by lia. cbn [code]. apply PM.gso. lia.
Qed.
Lemma build_code_at : forall cs i a im, code_at (build cs i a im) i cs.
Proof.
  induction cs as [|c r IH]; intros i a im n c0 Hn; [destruct n; discriminate|].
  destruct n as [|n]; cbn [nth_error pnth] in *.
  - inversion Hn; subst. cbn [build]. rewrite build_code_below by lia. cbn [code]. apply PM.gss.
  - cbn [build]. rewrite <- pnth_succ. eapply IH; eauto.
Qed.
Definition label_names (cs : list xcode) : list string :=
  flat_map (fun c => match c with LAB l => [l] | _ => [] end) cs.
Lemma build_labels_old : forall cs i a im l,
  ~ In l (label_names cs) -> find_label (labels (build cs i a im)) l = find_label (labels im) l.
Proof.
  induction cs as [|c r IH]; intros i a im l Hl; cbn [build labels]; auto.
  rewrite IH.
  - cbn [labels]. destruct c; auto. cbn [find_label]. destruct (String.eqb_spec l l0); auto.
    subst. exfalso. apply Hl. cbn. now left.
  - intro H. apply Hl. cbn [label_names flat_map]. apply in_app_iff. now right.
Qed.
Lemma build_labels_at : forall cs i a im, NoDup (label_names cs) -> labels_at (build cs i a im) i cs.
Proof.
  induction cs as [|c r IH]; intros i a im Hnd n l Hn; [destruct n; discriminate|].
  assert (Hnd' : NoDup (label_names r)).
  { cbn [label_names flat_map] in Hnd. now apply Heap.NoDup_app_r in Hnd. }
  destruct n as [|n]; cbn [nth_error pnth] in *.
  - inversion Hn; subst. cbn [build]. rewrite build_labels_old.
    + cbn [labels find_label]. now rewrite String.eqb_refl.
    + cbn [label_names flat_map app] in Hnd. now inversion Hnd.
  - cbn [build]. rewrite <- pnth_succ. eapply IH; eauto.
Qed.
Theorem mk_image_code_labels cs :
  NoDup (label_names cs) -> code_at (mk_image cs) 1%positive cs /\ labels_at (mk_image cs) 1%positive cs.
Proof. intros H. split; [apply build_code_at|now apply build_labels_at]. Qed.
(* a sub-list of placed code is placed code *)
Lemma code_at_app im pos a b c : code_at im pos (a ++ b ++ c) -> code_at im (pnth pos (List.length a)) b.
Proof.
  intros H n x Hn. rewrite pnth_add. apply H. rewrite nth_error_app2 by lia.
  replace (List.length a + n - List.length a)%nat with n by lia. rewrite nth_error_app1; auto. apply nth_error_Some. congruence.
Qed.
Lemma labels_at_app im pos a b c : labels_at im pos (a ++ b ++ c) -> labels_at im (pnth pos (List.length a)) b.
Proof.
  intros H n x Hn. rewrite pnth_add. apply H. rewrite nth_error_app2 by lia.
  replace (List.length a + n - List.length a)%nat with n by lia. rewrite nth_error_app1; auto. apply nth_error_Some. congruence.
Qed.

(* ---------- the abstraction under a header write ---------- *)
Lemma is_blk_nonneg p : is_blk p -> 0 <= p.
Proof. intros (k & Hk & -> & _). unfold HEAP_BASE. lia. Qed.
Lemma abs_mem_hset s p z x :
  is_blk p -> is_blk x -> abs_mem (hset s p z) x = Heap.set_hdr (abs_mem s) p z x.
Proof.
  intros Hp Hx. unfold Heap.set_hdr, Heap.upd. destruct (Z.eqb_spec x p) as [->|Hne].
  - unfold abs_mem. cbn [Heap.ps Heap.hdr]. pose proof (is_blk_nonneg p Hp).
    rewrite hword_hset_same, !hword_hset_other by lia. reflexivity.
  - unfold abs_mem. destruct Hp as (k & Hk & -> & Hp), Hx as (j & Hj & -> & Hx). unfold HEAP_BASE in *.
    rewrite !hword_hset_other by lia. reflexivity.
Qed.

Definition same_but_temp (s s' : xstate) : Prop :=
  (forall r, r <> TEMP -> rget s' r = rget s r) /\ stack s' = stack s /\ out s' = out s.

Lemma blk_heap_addr p : is_blk p -> heap_addr p.
Proof. intros H. rewrite <- (Z.add_0_r p). apply is_blk_addr; auto. Qed.

Lemma same_but_temp_regs s s' : same_but_temp s s' -> reg_or0 s' HEAP = reg_or0 s HEAP /\ reg_or0 s' FREE = reg_or0 s FREE.
Proof. intros (H & _). unfold reg_or0. rewrite !H by discriminate. auto. Qed.

Section Refine.
Variable im : image.

Ltac nxt HC k := eapply steps_next; [apply (HC k); reflexivity| |].
Ltac jmp HC k := eapply steps_jump; [apply (HC k); reflexivity| |].

(* ---------- share_block_n ---------- *)
Theorem x86_share_block_ok pos t n lc s sp p F :
  let cs := fst (x_share_block_n t n lc) in
  code_at im pos cs -> labels_at im pos cs ->
  frame_ok s sp -> loc_ok t -> lget s sp t = Some p ->
  (p = 0 \/ is_blk p) -> fits32 (Z.of_N n) = true ->
  (p <> 0 -> wrap (hword s p + Z.of_N n) = hword s p + Z.of_N n) ->
  exists s', steps im pos s (pnth pos (List.length cs)) s' /\
     st_eqB (abs_heap F s') (Heap.share p (Z.of_N n) (abs_heap F s)) /\
     same_but_temp s s' /\ frame_ok s' sp.
Proof.
  intros cs HC HL FR T P Hp Hn Hw. unfold cs in *. clear cs.
  destruct t as [r|q]; cbn [x_share_block_n skip_if_zero compare_immediate fst app List.length] in *; cbn [lget loc_ok] in *.
  - (* register *)
    destruct (Z.eq_dec p 0) as [->|Hp0].
    + exists (set_flags s (Some (0, 0))). split; [|split; [|split]].
      * nxt HC 0%nat. { apply step_CMPI0. exact P. }
        jmp HC 1%nat. { rewrite (step_JEL im _ _ 0 0) by reflexivity. cbn [Z.eqb]. unfold goto_label. rewrite (HL 3%nat _ eq_refl). reflexivity. }
        nxt HC 3%nat. { reflexivity. }
        apply steps_refl.
      * unfold Heap.share. cbn [Z.eqb]. repeat split; reflexivity.
      * repeat split; reflexivity.
      * now apply frame_ok_set_flags.
    + destruct Hp as [|Hb]; [contradiction|]. pose proof (blk_heap_addr p Hb) as Ha.
      exists (set_flags (hset (set_flags s (Some (p, 0))) p (wrap (hword s p + Z.of_N n))) None). split; [|split; [|split]].
      * nxt HC 0%nat. { apply step_CMPI0. exact P. }
        nxt HC 1%nat. { rewrite (step_JEL im _ _ p 0) by reflexivity. destruct (Z.eqb_spec p 0); [contradiction|reflexivity]. }
        nxt HC 2%nat. { change REFERENCE_COUNT_OFFSET with 0. eapply step_ADDIM_heap; [exact P|exact Ha|exact Hn]. }
        nxt HC 3%nat. { reflexivity. }
        apply steps_refl.
      * unfold Heap.share. destruct (Z.eqb_spec p 0); [contradiction|].
        split; [reflexivity|split; [reflexivity|split; [reflexivity|]]].
        intros x Hx. cbn [abs_heap Heap.m]. rewrite Hw by auto.
        change (abs_mem (set_flags (hset (set_flags s (Some (p, 0))) p (hword s p + Z.of_N n)) None) x)
          with (abs_mem (hset s p (hword s p + Z.of_N n)) x).
        now apply abs_mem_hset.
      * repeat split; reflexivity.
      * apply frame_ok_set_flags, frame_ok_hset, frame_ok_set_flags, FR.
  - (* spill slot *)
    destruct (Z.eq_dec p 0) as [->|Hp0].
    + exists (set_flags s (Some (0, 0))). split; [|split; [|split]].
      * nxt HC 0%nat. { apply (step_CMPIM0_slot im s sp); [exact FR|exact T|exact P]. }
        jmp HC 1%nat. { rewrite (step_JEL im _ _ 0 0) by reflexivity. cbn [Z.eqb]. unfold goto_label. rewrite (HL 4%nat _ eq_refl). reflexivity. }
        nxt HC 4%nat. { reflexivity. }
        apply steps_refl.
      * unfold Heap.share. cbn [Z.eqb]. repeat split; reflexivity.
      * repeat split; reflexivity.
      * now apply frame_ok_set_flags.
    + destruct Hp as [|Hb]; [contradiction|]. pose proof (blk_heap_addr p Hb) as Ha.
      set (s1 := set_flags s (Some (p, 0))).
      set (s2 := rset s1 TEMP (Some p)).
      exists (set_flags (hset s2 p (wrap (hword s p + Z.of_N n))) None). split; [|split; [|split]].
      * nxt HC 0%nat. { apply (step_CMPIM0_slot im s sp); [exact FR|exact T|exact P]. }
        nxt HC 1%nat. { rewrite (step_JEL im _ _ p 0) by reflexivity. destruct (Z.eqb_spec p 0); [contradiction|reflexivity]. }
        nxt HC 2%nat. { rewrite (step_MOVL_slot im s1 sp) by (auto; now apply frame_ok_set_flags). unfold s1. rewrite sget_set_flags, P. reflexivity. }
        nxt HC 3%nat. { change REFERENCE_COUNT_OFFSET with 0. eapply step_ADDIM_heap; [apply rget_rset_same|exact Ha|exact Hn]. }
        nxt HC 4%nat. { reflexivity. }
        apply steps_refl.
      * assert (SB : same_but_temp s (set_flags (hset s2 p (wrap (hword s p + Z.of_N n))) None)).
        { split; [|split; reflexivity]. intros r Hr. rewrite rget_set_flags, rget_hset. unfold s2. rewrite rget_rset_other by congruence. reflexivity. }
        destruct (same_but_temp_regs _ _ SB) as [E1 E2].
        unfold Heap.share. destruct (Z.eqb_spec p 0); [contradiction|].
        split; [exact E1|split; [exact E2|split; [reflexivity|]]].
        intros x Hx. cbn [abs_heap Heap.m]. change (hword s2 p) with (hword s p). rewrite Hw by auto.
        change (abs_mem (set_flags (hset s2 p (hword s p + Z.of_N n)) None) x)
          with (abs_mem (hset s p (hword s p + Z.of_N n)) x).
        now apply abs_mem_hset.
      * split; [|split; reflexivity]. intros r Hr. rewrite rget_set_flags, rget_hset. unfold s2. rewrite rget_rset_other by congruence. reflexivity.
      * apply frame_ok_set_flags, frame_ok_hset. unfold s2. apply frame_ok_rset; [discriminate|]. now apply frame_ok_set_flags.
Qed.

(* ---------- erase_block ---------- *)
Definition same_but_temp_free (s s' : xstate) : Prop :=
  (forall r, r <> TEMP -> r <> FREE -> rget s' r = rget s r) /\ stack s' = stack s /\ out s' = out s.

Theorem x86_erase_block_ok pos t lc s sp p f F :
  let cs := fst (x_erase_block t lc) in
  code_at im pos cs -> labels_at im pos cs ->
  frame_ok s sp -> loc_ok t -> lget s sp t = Some p -> rget s FREE = Some f ->
  (p = 0 \/ is_blk p) ->
  (p <> 0 -> hword s p <> 0 -> wrap (hword s p + -1) = hword s p - 1) ->
  exists s', steps im pos s (pnth pos (List.length cs)) s' /\
     st_eqB (abs_heap F s') (Heap.erase p (abs_heap F s)) /\
     same_but_temp_free s s' /\ frame_ok s' sp.
Proof.
  intros cs HC HL FR T P Hf Hp Hw. unfold cs in *. clear cs.
  assert (HeapReg : forall s', same_but_temp_free s s' -> reg_or0 s' HEAP = reg_or0 s HEAP).
  { intros s' (H & _). unfold reg_or0. now rewrite H by discriminate. }
  assert (Ff : reg_or0 s FREE = f) by (unfold reg_or0; now rewrite Hf).
  destruct t as [r|q];
    cbn [x_erase_block erase_valid_object if_zero_then_else skip_if_zero compare_immediate fst snd app List.length] in *; cbn [lget loc_ok] in *.
  - (* register *)
    destruct (Z.eq_dec p 0) as [->|Hp0].
    + exists (set_flags s (Some (0, 0))). split; [|split; [|split]].
      * nxt HC 0%nat. { apply step_CMPI0. exact P. }
        jmp HC 1%nat. { rewrite (step_JEL im _ _ 0 0) by reflexivity. cbn [Z.eqb]. unfold goto_label. rewrite (HL 10%nat _ eq_refl). reflexivity. }
        nxt HC 10%nat. { reflexivity. }
        apply steps_refl.
      * unfold Heap.erase. cbn [Z.eqb]. repeat split; reflexivity.
      * repeat split; reflexivity.
      * now apply frame_ok_set_flags.
    + destruct Hp as [|Hb]; [contradiction|]. pose proof (blk_heap_addr p Hb) as Ha.
      set (s1 := set_flags s (Some (p, 0))).
      set (s2 := set_flags s1 (Some (hword s p, 0))).
      destruct (Z.eq_dec (hword s p) 0) as [Hh|Hh].
      * (* last reference: onto the deferred list *)
        set (s3 := hset s2 p f).
        exists (rset s3 FREE (Some p)).
        assert (SB : same_but_temp_free s (rset s3 FREE (Some p))).
        { split; [|split; reflexivity]. intros r' _ Hr. rewrite rget_rset_other by congruence. reflexivity. }
        split; [|split; [|split]].
        -- nxt HC 0%nat. { apply step_CMPI0. exact P. }
           nxt HC 1%nat. { rewrite (step_JEL im _ _ p 0) by reflexivity. destruct (Z.eqb_spec p 0); [contradiction|reflexivity]. }
           nxt HC 2%nat. { change REFERENCE_COUNT_OFFSET with 0. eapply step_CMPIM0_heap; [exact P|exact Ha]. }
           jmp HC 3%nat. { rewrite (step_JEL im _ _ (hword s p) 0) by reflexivity. rewrite Hh. cbn [Z.eqb]. unfold goto_label. rewrite (HL 6%nat _ eq_refl). reflexivity. }
           nxt HC 6%nat. { reflexivity. }
           nxt HC 7%nat. { change NEXT_ELEMENT_OFFSET with 0. eapply step_MOVS_heap; [exact P|exact Ha|exact Hf]. }
           nxt HC 8%nat. { cbn [step]. reflexivity. }
           nxt HC 9%nat. { reflexivity. }
           nxt HC 10%nat. { reflexivity. }
           match goal with |- steps _ _ (rset _ FREE ?v) _ _ => change v with (rget s r) end. rewrite P. apply steps_refl.
        -- unfold Heap.erase. destruct (Z.eqb_spec p 0); [contradiction|].
           change (Heap.hdr (Heap.m (abs_heap F s) p)) with (hword s p). rewrite Hh. cbn [Z.eqb].
           split; [apply (HeapReg _ SB)|split; [|split; [reflexivity|]]].
           ++ cbn [abs_heap Heap.free]. unfold reg_or0. now rewrite rget_rset_same.
           ++ intros x Hx. cbn [abs_heap Heap.m Heap.free]. rewrite Ff.
              change (abs_mem (rset s3 FREE (Some p)) x) with (abs_mem (hset s p f) x). now apply abs_mem_hset.
        -- exact SB.
        -- apply frame_ok_rset; [discriminate|]. apply frame_ok_hset, frame_ok_set_flags, frame_ok_set_flags, FR.
      * (* other references remain: decrement *)
        exists (set_flags (hset s2 p (wrap (hword s p + -1))) None).
        assert (SB : same_but_temp_free s (set_flags (hset s2 p (wrap (hword s p + -1))) None)).
        { repeat split; reflexivity. }
        split; [|split; [|split]].
        -- nxt HC 0%nat. { apply step_CMPI0. exact P. }
           nxt HC 1%nat. { rewrite (step_JEL im _ _ p 0) by reflexivity. destruct (Z.eqb_spec p 0); [contradiction|reflexivity]. }
           nxt HC 2%nat. { change REFERENCE_COUNT_OFFSET with 0. eapply step_CMPIM0_heap; [exact P|exact Ha]. }
           nxt HC 3%nat. { rewrite (step_JEL im _ _ (hword s p) 0) by reflexivity. destruct (Z.eqb_spec (hword s p) 0); [contradiction|reflexivity]. }
           nxt HC 4%nat. { change REFERENCE_COUNT_OFFSET with 0. eapply step_ADDIM_heap; [exact P|exact Ha|reflexivity]. }
           jmp HC 5%nat. { cbn [step]. unfold goto_label. rewrite (HL 9%nat _ eq_refl). reflexivity. }
           nxt HC 9%nat. { reflexivity. }
           nxt HC 10%nat. { reflexivity. }
           apply steps_refl.
        -- unfold Heap.erase. destruct (Z.eqb_spec p 0); [contradiction|].
           change (Heap.hdr (Heap.m (abs_heap F s) p)) with (hword s p).
           destruct (Z.eqb_spec (hword s p) 0); [contradiction|].
           split; [reflexivity|split; [reflexivity|split; [reflexivity|]]].
           intros x Hx. cbn [abs_heap Heap.m]. change (hword s2 p) with (hword s p). rewrite Hw by auto.
           change (abs_mem (set_flags (hset s2 p (hword s p - 1)) None) x) with (abs_mem (hset s p (hword s p - 1)) x).
           now apply abs_mem_hset.
        -- exact SB.
        -- apply frame_ok_set_flags, frame_ok_hset, frame_ok_set_flags, frame_ok_set_flags, FR.
  - (* spill slot: the pointer is first loaded into the scratch register *)
    set (s0 := rset s TEMP (Some p)).
    assert (F0 : frame_ok s0 sp) by (apply frame_ok_rset; [discriminate|exact FR]).
    assert (P0 : rget s0 TEMP = Some p) by apply rget_rset_same.
    assert (Hf0 : rget s0 FREE = Some f) by (unfold s0; rewrite rget_rset_other by discriminate; exact Hf).
    destruct (Z.eq_dec p 0) as [->|Hp0].
    + exists (set_flags s0 (Some (0, 0))). split; [|split; [|split]].
      * nxt HC 0%nat. { rewrite (step_MOVL_slot im s sp FR) by exact T. rewrite P. reflexivity. }
        nxt HC 1%nat. { apply step_CMPI0. exact P0. }
        jmp HC 2%nat. { rewrite (step_JEL im _ _ 0 0) by reflexivity. cbn [Z.eqb]. unfold goto_label. rewrite (HL 11%nat _ eq_refl). reflexivity. }
        nxt HC 11%nat. { reflexivity. }
        apply steps_refl.
      * unfold Heap.erase. cbn [Z.eqb].
        split; [|split; [|split; [reflexivity|intros; reflexivity]]]; cbn [abs_heap Heap.heap Heap.free]; unfold reg_or0;
          rewrite rget_set_flags; unfold s0; now rewrite rget_rset_other by discriminate.
      * split; [|split; reflexivity]. intros r' Hr _. rewrite rget_set_flags. unfold s0. now rewrite rget_rset_other by congruence.
      * now apply frame_ok_set_flags.
    + destruct Hp as [|Hb]; [contradiction|]. pose proof (blk_heap_addr p Hb) as Ha.
      set (s1 := set_flags s0 (Some (p, 0))).
      set (s2 := set_flags s1 (Some (hword s p, 0))).
      destruct (Z.eq_dec (hword s p) 0) as [Hh|Hh].
      * set (s3 := hset s2 p f).
        exists (rset s3 FREE (Some p)).
        assert (SB : same_but_temp_free s (rset s3 FREE (Some p))).
        { split; [|split; reflexivity]. intros r' Hr1 Hr. rewrite rget_rset_other by congruence.
          unfold s3. rewrite rget_hset. unfold s2, s1. rewrite !rget_set_flags. unfold s0. now rewrite rget_rset_other by congruence. }
        split; [|split; [|split]].
        -- nxt HC 0%nat. { rewrite (step_MOVL_slot im s sp FR) by exact T. rewrite P. reflexivity. }
           nxt HC 1%nat. { apply step_CMPI0. exact P0. }
           nxt HC 2%nat. { rewrite (step_JEL im _ _ p 0) by reflexivity. destruct (Z.eqb_spec p 0); [contradiction|reflexivity]. }
           nxt HC 3%nat. { change REFERENCE_COUNT_OFFSET with 0. eapply step_CMPIM0_heap; [exact P0|exact Ha]. }
           jmp HC 4%nat. { rewrite (step_JEL im _ _ (hword s p) 0) by reflexivity. rewrite Hh. cbn [Z.eqb]. unfold goto_label. rewrite (HL 7%nat _ eq_refl). reflexivity. }
           nxt HC 7%nat. { reflexivity. }
           nxt HC 8%nat. { change NEXT_ELEMENT_OFFSET with 0. eapply step_MOVS_heap; [exact P0|exact Ha|exact Hf0]. }
           nxt HC 9%nat. { cbn [step]. reflexivity. }
           nxt HC 10%nat. { reflexivity. }
           nxt HC 11%nat. { reflexivity. }
           match goal with |- steps _ _ (rset _ FREE ?v) _ _ => change v with (rget s0 TEMP) end. rewrite P0. apply steps_refl.
        -- unfold Heap.erase. destruct (Z.eqb_spec p 0); [contradiction|].
           change (Heap.hdr (Heap.m (abs_heap F s) p)) with (hword s p). rewrite Hh. cbn [Z.eqb].
           split; [apply (HeapReg _ SB)|split; [|split; [reflexivity|]]].
           ++ cbn [abs_heap Heap.free]. unfold reg_or0. now rewrite rget_rset_same.
           ++ intros x Hx. cbn [abs_heap Heap.m Heap.free]. rewrite Ff.
              change (abs_mem (rset s3 FREE (Some p)) x) with (abs_mem (hset s p f) x). now apply abs_mem_hset.
        -- exact SB.
        -- apply frame_ok_rset; [discriminate|]. apply frame_ok_hset, frame_ok_set_flags, frame_ok_set_flags, F0.
      * exists (set_flags (hset s2 p (wrap (hword s p + -1))) None).
        assert (SB : same_but_temp_free s (set_flags (hset s2 p (wrap (hword s p + -1))) None)).
        { split; [|split; reflexivity]. intros r' Hr1 Hr. rewrite rget_set_flags, rget_hset. unfold s2, s1. rewrite !rget_set_flags.
          unfold s0. now rewrite rget_rset_other by congruence. }
        split; [|split; [|split]].
        -- nxt HC 0%nat. { rewrite (step_MOVL_slot im s sp FR) by exact T. rewrite P. reflexivity. }
           nxt HC 1%nat. { apply step_CMPI0. exact P0. }
           nxt HC 2%nat. { rewrite (step_JEL im _ _ p 0) by reflexivity. destruct (Z.eqb_spec p 0); [contradiction|reflexivity]. }
           nxt HC 3%nat. { change REFERENCE_COUNT_OFFSET with 0. eapply step_CMPIM0_heap; [exact P0|exact Ha]. }
           nxt HC 4%nat. { rewrite (step_JEL im _ _ (hword s p) 0) by reflexivity. destruct (Z.eqb_spec (hword s p) 0); [contradiction|reflexivity]. }
           nxt HC 5%nat. { change REFERENCE_COUNT_OFFSET with 0. eapply step_ADDIM_heap; [exact P0|exact Ha|reflexivity]. }
           jmp HC 6%nat. { cbn [step]. unfold goto_label. rewrite (HL 10%nat _ eq_refl). reflexivity. }
           nxt HC 10%nat. { reflexivity. }
           nxt HC 11%nat. { reflexivity. }
           apply steps_refl.
        -- unfold Heap.erase. destruct (Z.eqb_spec p 0); [contradiction|].
           change (Heap.hdr (Heap.m (abs_heap F s) p)) with (hword s p).
           destruct (Z.eqb_spec (hword s p) 0); [contradiction|].
           split; [apply (HeapReg _ SB)|split; [|split; [reflexivity|]]].
           ++ cbn [abs_heap Heap.free]. unfold reg_or0. rewrite rget_set_flags, rget_hset. unfold s2, s1. rewrite !rget_set_flags.
              unfold s0. now rewrite rget_rset_other by discriminate.
           ++ intros x Hx. cbn [abs_heap Heap.m]. change (hword s2 p) with (hword s p). rewrite Hw by auto.
              change (abs_mem (set_flags (hset s2 p (hword s p - 1)) None) x) with (abs_mem (hset s p (hword s p - 1)) x).
              now apply abs_mem_hset.
        -- exact SB.
        -- apply frame_ok_set_flags, frame_ok_hset, frame_ok_set_flags, frame_ok_set_flags, F0.
Qed.

(* ---------- release_block (straight-line) ---------- *)
Theorem x86_release_block_ok pos r s p h F :
  code_at im pos (release_block r) ->
  rget s r = Some p -> rget s HEAP = Some h -> is_blk p ->
  exists s', steps im pos s (pnth pos 2) s' /\
     st_eqB (abs_heap F s') (Heap.release p (abs_heap F s)) /\
     (forall r', r' <> HEAP -> rget s' r' = rget s r') /\ stack s' = stack s /\ out s' = out s.
Proof.
  intros HC P Hh Hb. pose proof (blk_heap_addr p Hb) as Ha. unfold release_block in HC.
  exists (rset (hset s p h) HEAP (Some p)). split; [|split; [|split; [|split; reflexivity]]].
  - nxt HC 0%nat. { change NEXT_ELEMENT_OFFSET with 0. eapply step_MOVS_heap; [exact P|exact Ha|exact Hh]. }
    nxt HC 1%nat. { cbn [step]. reflexivity. }
    change (rget (hset s p h) r) with (rget s r). rewrite P. apply steps_refl.
  - unfold Heap.release. split; [|split; [|split; [reflexivity|]]].
    + cbn [abs_heap Heap.heap]. unfold reg_or0. now rewrite rget_rset_same.
    + cbn [abs_heap Heap.free]. unfold reg_or0. now rewrite rget_rset_other by discriminate.
    + intros x Hx. cbn [abs_heap Heap.m Heap.heap]. unfold reg_or0 at 1. rewrite Hh.
      change (abs_mem (rset (hset s p h) HEAP (Some p)) x) with (abs_mem (hset s p h) x). now apply abs_mem_hset.
  - intros r' Hr. rewrite rget_rset_other by congruence. reflexivity.
Qed.
End Refine.
