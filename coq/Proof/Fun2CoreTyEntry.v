(* ======================================================================================
   Proof/Fun2CoreTyEntry  -  C12, the entry point of a program in which main is called (fix f929eb7 of /repo):
     def main<n>(params) : ret { main(params) }          [entry_fdef d nm]
   satisfies the typing guard [tg] in the scope of main's parameters whenever main itself satisfies the
   parameter clauses of [def_tyguard] (distinct parameters of declared types), main is the definition found
   under its name, and some call of the program targets main (the call clause of [tg]).
   Used by Proof/Fun2CoreTyProg.v (typing of the entry group) and Proof/Fun2CoreTyTotal.v (totality).
   ====================================================================================== *)
From Coq Require Import List ZArith NArith String Bool Lia.
From SCC Require Import Base.Sexp Lang.SynUtil Lang.FunSyn Lang.FunTy Lang.CoreSyn.
From SCC Require Import Sem.AxSem Sem.FunSem Sem.FsCheck Sem.CoreCheck Model.Fun2Core Model.Fun2CoreGuard Model.Fun2CoreTyGuard.
From SCC Require Import Proof.Fun2CoreProof Proof.Fun2CoreTfv Proof.Fun2CoreInv Proof.Fun2CoreProg Proof.CoreTyRules
     Proof.Fun2CoreTyBase.
Import ListNotations.
Open Scope string_scope.
Open Scope list_scope.

(* the definition found under the name of a member of a program with pairwise distinct definition names *)
Lemma find_def_nodup : forall p d, NoDup (map fdname (fcpdefs p)) -> In d (fcpdefs p) -> ffind_def p (fdname d) = Some d.
Proof.
  intros p d. unfold ffind_def. induction (fcpdefs p) as [|d0 r IH]; intros Hnd Hin; [contradiction|].
  cbn [find]. cbn [map] in Hnd. inversion Hnd as [|? ? Hnot Hnd']; subst.
  destruct (String.eqb (fdname d0) (fdname d)) eqn:E.
  - apply String.eqb_eq in E. destruct Hin as [Hin|Hin]; [subst; reflexivity|].
    exfalso. apply Hnot. rewrite E. apply in_map. exact Hin.
  - destruct Hin as [Hin|Hin]; [subst; rewrite String.eqb_refl in E; discriminate | apply IH; assumption].
Qed.

Lemma cvars_compile_ctx_e : forall ctx, cvars (compile_ctx ctx) = map new_id (fvars ctx).
Proof. induction ctx as [|b r IH]; simpl; [reflexivity | rewrite IH; reflexivity]. Qed.

Section Entry.
  Variable p : fcprog.
  Variables D C : list ctydecl.
  Notation tg := (tg p D C).
  Notation tg_args := (tg_args p D C).
  Notation tyd := (tyd D C).

  Lemma entry_tg_args : forall G, NoDup (cvars G) -> ctx_tyd D C G = true ->
    forall ctx, incl (compile_ctx ctx) G -> tg_args G (entry_args ctx) (compile_ctx ctx) = true.
  Proof.
    intros G Hnd Htd. induction ctx as [|b r IH]; intros Hin; [reflexivity|].
    unfold entry_args. cbn [map compile_ctx]. fold (entry_args r). fold (compile_ctx r).
    change (tg_arg p D C G (FVar (fbvar b) (Some (fbty b)) (Some (fbchi b))) (compile_binding b)
            && tg_args G (entry_args r) (compile_ctx r) = true).
    rewrite IH; [|intros x Hx; apply Hin; right; exact Hx]. rewrite andb_true_r.
    assert (Hb : In (compile_binding b) G) by (apply Hin; left; reflexivity).
    assert (Hl : clookup G (new_id (fbvar b)) = Some (compile_binding b)).
    { apply (clookup_nodup G (compile_binding b) Hnd Hb). }
    assert (Ht : tyd (compile_ty (fbty b)) = true).
    { unfold ctx_tyd in Htd. rewrite forallb_forall in Htd. apply (Htd _ Hb). }
    assert (Hv : var_ok G (fbvar b) (Some (fbty b)) (compile_chi (fbchi b)) = true).
    { unfold var_ok. rewrite gl_clookup, Hl. apply cbinding_eqb_eq. reflexivity. }
    assert (Hh : forall chi, has_ty (FVar (fbvar b) (Some (fbty b)) chi) (compile_ty (fbty b)) = true).
    { intros chi. unfold has_ty, tyo. cbn [fterm_type option_map]. apply ceq_ty_refl. }
    unfold tg_arg, compile_binding. cbn [cbchi cbty]. destruct (fbchi b) eqn:Echi; cbn [compile_chi] in *.
    - cbn [is_cns_var negb andb]. rewrite tg_var. rewrite Hv, Hh, Ht. reflexivity.
    - rewrite Hv, Hh, Ht. reflexivity.
  Qed.

  (* the body of the entry point is typed like any call of main *)
  Lemma entry_tg : forall d nm,
    nodup_str (fvars (fdctx d)) = true -> ctx_tyd D C (compile_ctx (fdctx d)) = true ->
    ffind_def p (fdname d) = Some d -> fdname d = "main" -> calls_main_prog p = true ->
    tyd (compile_ty (fdret d)) = true ->
    tg (compile_ctx (fdctx d)) (fdbody (entry_fdef d nm)) = true.
  Proof.
    intros d nm Hnd Hctd Hfind Hname Hcm Htr. unfold entry_fdef. cbn [fdbody]. fold (entry_args (fdctx d)).
    rewrite tg_call, Hcm, orb_true_r, Hfind. cbn [andb].
    rewrite entry_tg_args; [|rewrite cvars_compile_ctx_e|exact Hctd|apply incl_refl].
    - rewrite ceq_ty_refl, Htr. reflexivity.
    - apply FinFun.Injective_map_NoDup; [intros x y E; apply new_id_inj; exact E | apply nodup_str_nd0; exact Hnd].
  Qed.
End Entry.
