(* C08, heap statements, all statement forms: what is left of the fragment predicate `stmt_h` (Proof/RVHFrag.v) once
   objects and closure environments may have ANY number of fields and the landing of an Invoke is established when the
   closure is INVOKED (Proof/RVKLayout.v, RVKClo.v) instead of when it is created:
     stmt_k    no print statement (the RISC-V back end panics on it: `rv_compile` = Err, so this follows from a successful
               compilation) and every Create carries its annotation (`ann_check` demands that anyway).
   `k_frag_intro`: both follow from `prog_has_print p = false` and `ann_check_prog p = true`: NO guard on the program is left. *)
From Coq Require Import List ZArith NArith String Bool Lia FMapPositive.
From SCC Require Import Base.Sexp Lang.AxSyn Sem.AxSem Model.ParMoves Model.Backend Model.RV Sem.RVSem Sem.RVWf
     Model.Linearize Model.LinCheck Generated.Constants Proof.LinBasics
     Proof.RVSel Proof.RVSimAddr Proof.BackendInv Proof.RVSimRel Proof.RVSimStmt Proof.RVSimClo Proof.RVHLayout Proof.X86HAnn.
Import ListNotations.
Open Scope Z_scope.
Open Scope list_scope.

Fixpoint stmt_k (s : stmt) : bool :=
  let clauses := fix go (cls : list (ident * ctx * stmt)) : bool :=
    match cls with
    | [] => true
    | (_, cc, b) :: r => stmt_k b && go r
    end in
  match s with
  | Substitute _ next => stmt_k next
  | Call _ _ | Exit _ | Invoke _ _ _ _ => true
  | Let _ _ _ args next => stmt_k next
  | Switch _ _ cls => clauses cls
  | Create _ _ (Some env) cls next => clauses cls && stmt_k next
  | Create _ _ None _ _ => false
  | Literal _ _ next | Op _ _ _ _ next => stmt_k next
  | PrintI64 _ _ _ => false
  | IfC _ _ _ t e => stmt_k t && stmt_k e
  end.
Definition clauses_k (cls : list clause) : bool :=
  forallb (fun c => stmt_k (cl_body c)) cls.
Definition k_frag (p : prog) : bool := forallb (fun d => stmt_k (dbody d)) (pdefs p).

Lemma stmt_k_switch v t cls : stmt_k (Switch v t cls) = clauses_k cls.
Proof.
  cbn [stmt_k]. unfold clauses_k. induction cls as [|[[x cc] b] r IH]; [reflexivity|].
  cbn [forallb cl_ctx cl_body fst snd]. now rewrite IH.
Qed.
Lemma stmt_k_create v t env cls next :
  stmt_k (Create v t (Some env) cls next) = clauses_k cls && stmt_k next.
Proof.
  cbn [stmt_k]. f_equal. unfold clauses_k. induction cls as [|[[x cc] b] r IH]; [reflexivity|].
  cbn [forallb cl_ctx cl_body fst snd]. now rewrite IH.
Qed.
Lemma stmt_k_no_print : forall s, stmt_k s = true -> stmt_has_print s = false.
Proof.
  intros s. induction s using stmt_ind2; intros FR; cbn [stmt_has_print].
  - apply IHs. exact FR.
  - reflexivity.
  - cbn [stmt_k] in FR. apply IHs. exact FR.
  - rewrite stmt_k_switch in FR. unfold clauses_k in FR.
    induction cls as [|[[x cc] b] r IHr]; [reflexivity|]. inversion H as [|? ? P0 Pr]; subst. cbn [forallb cl_ctx cl_body fst snd] in FR.
    apply andb_true_iff in FR as [H1 H2]. cbn [cl_body snd] in P0. rewrite (P0 H1). cbn [orb]. exact (IHr Pr H2).
  - destruct env as [env|]; [|discriminate]. rewrite stmt_k_create in FR. apply andb_true_iff in FR as [HC HN].
    rewrite (IHs HN), orb_false_r. unfold clauses_k in HC. clear IHs HN.
    induction cls as [|[[x cc] b] r IHr]; [reflexivity|]. inversion H as [|? ? P0 Pr]; subst. cbn [forallb cl_ctx cl_body fst snd] in HC.
    apply andb_true_iff in HC as [H1 H2]. cbn [cl_body snd] in P0. rewrite (P0 H1). cbn [orb]. exact (IHr Pr H2).
  - reflexivity.
  - apply IHs. exact FR.
  - apply IHs. exact FR.
  - cbn [stmt_k] in FR. discriminate.
  - cbn [stmt_k] in FR. apply andb_true_iff in FR as [H1 H2]. rewrite IHs1, IHs2; auto.
  - reflexivity.
Qed.

(* no print (implied by a successful `rv_compile`), annotated closures (implied by `ann_check`) *)
Lemma stmt_k_intro : forall s c, stmt_has_print s = false -> ann_check c s = true -> stmt_k s = true.
Proof.
  intros s. induction s using stmt_ind2; intros c NP AN.
  - cbn [stmt_has_print ann_check stmt_k] in *. eapply IHs; eauto.
  - reflexivity.
  - cbn [stmt_has_print ann_check stmt_k] in *.
    destruct (split_lastn (List.length args) c) as [[c0 tl]|]; [|discriminate]. eapply IHs; eauto.
  - rewrite stmt_k_switch.
    rewrite ann_check_switch in AN. destruct (split_lastn 1 c) as [[c0 tl]|]; [|discriminate].
    cbn [stmt_has_print] in NP. unfold clauses_k, ann_clauses_sw in *.
    induction cls as [|[[x cc] b] r IHr]; [reflexivity|]. inversion H as [|? ? P0 Pr]; subst.
    cbn [forallb cl_ctx cl_body fst snd] in *. apply andb_true_iff in AN as [A1 A2].
    apply orb_false_iff in NP as [N1 N2]. cbn [cl_body snd] in P0. rewrite (P0 _ N1 A1). cbn [andb]. exact (IHr Pr N2 A2).
  - destruct env as [env|]; [|cbn [ann_check] in AN; discriminate].
    rewrite stmt_k_create.
    rewrite ann_check_create in AN. destruct (split_lastn (List.length env) c) as [[c0 tl]|]; [|discriminate].
    apply andb_true_iff in AN as [AN ANn]. apply andb_true_iff in AN as [_ AN].
    cbn [stmt_has_print] in NP. apply orb_false_iff in NP as [NP NPn].
    rewrite (IHs _ NPn ANn), andb_true_r. unfold clauses_k, ann_clauses_cr in *. clear IHs NPn ANn.
    induction cls as [|[[x cc] b] r IHr]; [reflexivity|]. inversion H as [|? ? P0 Pr]; subst.
    cbn [forallb cl_ctx cl_body fst snd] in *. apply andb_true_iff in AN as [A1 A2].
    apply orb_false_iff in NP as [N1 N2]. cbn [cl_body snd] in P0. rewrite (P0 _ N1 A1). cbn [andb]. exact (IHr Pr N2 A2).
  - reflexivity.
  - cbn [stmt_has_print ann_check stmt_k] in *. eapply IHs; eauto.
  - cbn [stmt_has_print ann_check stmt_k] in *. eapply IHs; eauto.
  - cbn [stmt_has_print] in NP. discriminate.
  - cbn [stmt_has_print ann_check stmt_k] in *. apply andb_true_iff in AN as [A1 A2].
    apply orb_false_iff in NP as [N1 N2]. rewrite (IHs1 _ N1 A1), (IHs2 _ N2 A2). reflexivity.
  - reflexivity.
Qed.

Lemma k_frag_intro p : prog_has_print p = false -> ann_check_prog p = true -> k_frag p = true.
Proof.
  unfold prog_has_print, ann_check_prog, k_frag. rewrite !forallb_forall. intros NP AN d Hd.
  apply (stmt_k_intro (dbody d) (dctx d)); [|exact (AN d Hd)].
  destruct (stmt_has_print (dbody d)) eqn:E; [|reflexivity].
  assert (X : existsb (fun d0 => stmt_has_print (dbody d0)) (pdefs p) = true) by (apply existsb_exists; exists d; auto). congruence.
Qed.
