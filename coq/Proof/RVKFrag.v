(* C08, heap statements WITHOUT the one-block restriction: the residual guard `stmt_k` of the RISC-V heap simulation.
   Objects and closure environments of ANY number of fields.  What is left of `stmt_h` (Proof/RVHFrag.v):
     - no print statement (the RISC-V back end panics on it: `rv_compile` = Err, so this is implied by a successful
       compilation, `k_frag_of_compile`... see Proof/RVKSimTop.v);
     - Create carries its annotation (`ann_check` demands that anyway);
     - every Switch has at least one clause.  An EMPTY Switch (a match on a data type without constructors) emits a
       label only; the RISC-V routine ends with the label `cleanup` (no epilogue instruction, unlike the RET of the
       other back ends), so for a single-clause closure whose body is such a Switch the indirect jump of Invoke has no
       instruction to land on (`fwd_ok` needs one).  Such code is dead (no value of an empty type exists);
   the fact that the code of every statement of the fragment contains an instruction of non-zero size
   (so an indirect jump to the address of its first instruction lands inside it, `RVHLayout.fwd_ok`). *)
From Coq Require Import List ZArith NArith String Bool Lia FMapPositive.
From SCC Require Import Base.Sexp Lang.AxSyn Sem.AxSem Model.ParMoves Model.Backend Model.RV Sem.RVSem Sem.RVWf
     Model.Linearize Model.LinCheck Generated.Constants Proof.LinBasics
     Proof.RVSel Proof.RVSimAddr Proof.BackendInv Proof.RVSimRel Proof.RVSimStmt Proof.RVSimClo Proof.RVHLayout Proof.X86HAnn.
Import ListNotations.
Open Scope Z_scope.
Open Scope list_scope.

Fixpoint stmt_k (s : stmt) : bool :=
  let clauses := fix go (cls : list (ident * ctx * stmt)) : bool :=
    match cls with
    | [] => true
    | (_, cc, b) :: r => stmt_k b && go r
    end in
  match s with
  | Substitute _ next => stmt_k next
  | Call _ _ | Exit _ | Invoke _ _ _ _ => true
  | Let _ _ _ args next => stmt_k next
  | Switch _ _ cls => negb (XC.is_nil cls) && clauses cls
  | Create _ _ (Some env) cls next => clauses cls && stmt_k next
  | Create _ _ None _ _ => false
  | Literal _ _ next | Op _ _ _ _ next => stmt_k next
  | PrintI64 _ _ _ => false
  | IfC _ _ _ t e => stmt_k t && stmt_k e
  end.
Definition clauses_k (cls : list clause) : bool :=
  forallb (fun c => stmt_k (cl_body c)) cls.
Definition k_frag (p : prog) : bool := forallb (fun d => stmt_k (dbody d)) (pdefs p).

Lemma stmt_k_switch v t cls : stmt_k (Switch v t cls) = negb (XC.is_nil cls) && clauses_k cls.
Proof.
  cbn [stmt_k]. f_equal. unfold clauses_k. induction cls as [|[[x cc] b] r IH]; [reflexivity|].
  cbn [forallb cl_ctx cl_body fst snd]. now rewrite IH.
Qed.
Lemma stmt_k_create v t env cls next :
  stmt_k (Create v t (Some env) cls next) = clauses_k cls && stmt_k next.
Proof.
  cbn [stmt_k]. f_equal. unfold clauses_k. induction cls as [|[[x cc] b] r IH]; [reflexivity|].
  cbn [forallb cl_ctx cl_body fst snd]. now rewrite IH.
Qed.
Lemma stmt_k_no_print : forall s, stmt_k s = true -> stmt_has_print s = false.
Proof.
  intros s. induction s using stmt_ind2; intros FR; cbn [stmt_has_print].
  - apply IHs. exact FR.
  - reflexivity.
  - cbn [stmt_k] in FR. apply IHs. exact FR.
  - rewrite stmt_k_switch in FR. apply andb_true_iff in FR as [_ FR]. unfold clauses_k in FR.
    induction cls as [|[[x cc] b] r IHr]; [reflexivity|]. inversion H as [|? ? P0 Pr]; subst. cbn [forallb cl_ctx cl_body fst snd] in FR.
    apply andb_true_iff in FR as [H1 H2]. cbn [cl_body snd] in P0. rewrite (P0 H1). cbn [orb]. exact (IHr Pr H2).
  - destruct env as [env|]; [|discriminate]. rewrite stmt_k_create in FR. apply andb_true_iff in FR as [HC HN].
    rewrite (IHs HN), orb_false_r. unfold clauses_k in HC. clear IHs HN.
    induction cls as [|[[x cc] b] r IHr]; [reflexivity|]. inversion H as [|? ? P0 Pr]; subst. cbn [forallb cl_ctx cl_body fst snd] in HC.
    apply andb_true_iff in HC as [H1 H2]. cbn [cl_body snd] in P0. rewrite (P0 H1). cbn [orb]. exact (IHr Pr H2).
  - reflexivity.
  - apply IHs. exact FR.
  - apply IHs. exact FR.
  - cbn [stmt_k] in FR. discriminate.
  - cbn [stmt_k] in FR. apply andb_true_iff in FR as [H1 H2]. rewrite IHs1, IHs2; auto.
  - reflexivity.
Qed.

Lemma has_nz_cons c r : isize c <> 0 -> has_nz (c :: r).
Proof. intros H. exists O, c. auto. Qed.

(* every statement of the fragment emits an instruction of non-zero size *)
Lemma cs_has_nz types : forall s c lc code lc',
  stmt_k s = true -> rcs types s c lc = Ok (code, lc') -> has_nz code.
Proof.
  intros s. induction s using stmt_ind2; intros c lc code lc' FR CS.
  - cbn [stmt_k] in FR. destruct (cs_substitute _ _ _ _ _ _ _ _ CS) as (c1 & lc1 & c2 & c3 & _ & _ & NX & ->).
    cbn [b_mark rv_backend app]. apply has_nz_app_r, has_nz_app_r. eauto.
  - destruct (cs_call _ _ _ _ _ _ _ _ CS) as (-> & _). apply has_nz_cons. cbn; lia.
  - destruct (cs_let _ _ _ _ _ _ _ _ _ _ CS) as (d & k & rest & arguments & c1 & lc1 & tmpv & c3 & _ & _ & _ & _ & _ & _ & ->).
    apply has_nz_app_r. apply has_nz_cons. apply isize_LI.
  - rewrite stmt_k_switch in FR. apply andb_true_iff in FR as [NE CH].
    destruct (cs_switch _ _ _ _ _ _ _ _ CS) as (c1 & c3 & _ & GC & ->).
    apply has_nz_app_r, has_nz_app_r.
    destruct cls as [|[[x cx] body] r]; [discriminate|]. cbn [gclauses] in GC.
    destruct (r_load cx (removelast c) (lc + 1)%N) as [[cl lc1]|]; cbn [rbind] in GC; [|discriminate].
    destruct (rcs types body (removelast c ++ cx) lc1) as [[cb lc2]|] eqn:BD; cbn [rbind] in GC; [|discriminate].
    destruct (gclauses _ _ _ _ r lc2) as [[cr lc3]|]; cbn [rbind] in GC; [|discriminate]. inversion GC; subst.
    inversion H as [|? ? P0 _]; subst. cbn [cl_body snd] in P0.
    unfold clauses_k in CH. cbn [forallb cl_ctx cl_body fst snd] in CH. apply andb_true_iff in CH as [CH _].
    apply (has_nz_app_r [_]), has_nz_app_r, has_nz_app_l. eapply P0; eauto.
  - destruct env as [env|]; [|discriminate].
    destruct (cs_create _ _ _ _ _ _ _ _ _ _ _ CS) as (rest & cenv & c1 & lc1 & tmpv & c3 & lc3 & c5 & _ & _ & _ & _ & _ & ->).
    cbn [b_mark b_load_label rv_backend app r_load_label]. apply has_nz_app_r. apply has_nz_cons. cbn; lia.
  - destruct (cs_invoke _ _ _ _ _ _ _ _ _ _ CS) as (tmpv & d & _ & _ & _ & CD).
    destruct (Nat.leb (List.length (txtors d)) 1); [subst code|destruct CD as (k & _ & ->)]; apply has_nz_cons; cbn; lia.
  - destruct (cs_literal _ _ _ _ _ _ _ _ _ CS) as (tv & c2 & _ & _ & ->). apply has_nz_cons. apply isize_LI.
  - destruct (cs_op _ _ _ _ _ _ _ _ _ _ _ CS) as (tv & ta & tb & c2 & _ & _ & _ & _ & ->). destruct o; apply has_nz_cons; cbn; lia.
  - cbn [stmt_k] in FR. discriminate.
  - destruct (cs_ifc _ _ _ _ _ _ _ _ _ _ _ CS) as (ta & c1 & c2 & lc2 & c3 & _ & C1 & _ & _ & ->).
    destruct b as [b|]; [destruct C1 as (tb & _ & ->)|subst c1]; destruct so; apply has_nz_cons; cbn; lia.
  - destruct (cs_exit _ _ _ _ _ _ _ CS) as (tv & _ & -> & _). apply has_nz_cons. cbn; lia.
Qed.

(* ---------- the guard of the program-level theorem: every Switch has a clause ---------- *)
Fixpoint stmt_sw (s : stmt) : bool :=
  let clauses := fix go (cls : list (ident * ctx * stmt)) : bool :=
    match cls with
    | [] => true
    | (_, _, b) :: r => stmt_sw b && go r
    end in
  match s with
  | Substitute _ next | Let _ _ _ _ next | Literal _ _ next | Op _ _ _ _ next | PrintI64 _ _ next => stmt_sw next
  | Call _ _ | Exit _ | Invoke _ _ _ _ => true
  | Switch _ _ cls => negb (XC.is_nil cls) && clauses cls
  | Create _ _ _ cls next => clauses cls && stmt_sw next
  | IfC _ _ _ t e => stmt_sw t && stmt_sw e
  end.
Definition switch_guard (p : prog) : bool := forallb (fun d => stmt_sw (dbody d)) (pdefs p).

(* no print (implied by a successful `rv_compile`), annotated closures (implied by `ann_check`), no empty Switch *)
Lemma stmt_k_intro : forall s c, stmt_sw s = true -> stmt_has_print s = false -> ann_check c s = true -> stmt_k s = true.
Proof.
  intros s. induction s using stmt_ind2; intros c SW NP AN.
  - cbn [stmt_sw stmt_has_print ann_check stmt_k] in *. eapply IHs; eauto.
  - reflexivity.
  - cbn [stmt_sw stmt_has_print ann_check stmt_k] in *.
    destruct (split_lastn (List.length args) c) as [[c0 tl]|]; [|discriminate]. eapply IHs; eauto.
  - rewrite stmt_k_switch. cbn [stmt_sw] in SW. apply andb_true_iff in SW as [NE SW]. rewrite NE. cbn [andb].
    rewrite ann_check_switch in AN. destruct (split_lastn 1 c) as [[c0 tl]|]; [|discriminate].
    cbn [stmt_has_print] in NP. unfold clauses_k, ann_clauses_sw in *. clear NE.
    induction cls as [|[[x cc] b] r IHr]; [reflexivity|]. inversion H as [|? ? P0 Pr]; subst.
    cbn [forallb cl_ctx cl_body fst snd] in *. apply andb_true_iff in SW as [S1 S2]. apply andb_true_iff in AN as [A1 A2].
    apply orb_false_iff in NP as [N1 N2]. cbn [cl_body snd] in P0. rewrite (P0 _ S1 N1 A1). cbn [andb]. exact (IHr Pr S2 N2 A2).
  - destruct env as [env|]; [|cbn [ann_check] in AN; discriminate].
    rewrite stmt_k_create. cbn [stmt_sw] in SW. apply andb_true_iff in SW as [SW SWn].
    rewrite ann_check_create in AN. destruct (split_lastn (List.length env) c) as [[c0 tl]|]; [|discriminate].
    apply andb_true_iff in AN as [AN ANn]. apply andb_true_iff in AN as [_ AN].
    cbn [stmt_has_print] in NP. apply orb_false_iff in NP as [NP NPn].
    rewrite (IHs _ SWn NPn ANn), andb_true_r. unfold clauses_k, ann_clauses_cr in *. clear IHs SWn NPn ANn.
    induction cls as [|[[x cc] b] r IHr]; [reflexivity|]. inversion H as [|? ? P0 Pr]; subst.
    cbn [forallb cl_ctx cl_body fst snd] in *. apply andb_true_iff in SW as [S1 S2]. apply andb_true_iff in AN as [A1 A2].
    apply orb_false_iff in NP as [N1 N2]. cbn [cl_body snd] in P0. rewrite (P0 _ S1 N1 A1). cbn [andb]. exact (IHr Pr S2 N2 A2).
  - reflexivity.
  - cbn [stmt_sw stmt_has_print ann_check stmt_k] in *. eapply IHs; eauto.
  - cbn [stmt_sw stmt_has_print ann_check stmt_k] in *. eapply IHs; eauto.
  - cbn [stmt_has_print] in NP. discriminate.
  - cbn [stmt_sw stmt_has_print ann_check stmt_k] in *. apply andb_true_iff in SW as [S1 S2]. apply andb_true_iff in AN as [A1 A2].
    apply orb_false_iff in NP as [N1 N2]. rewrite (IHs1 _ S1 N1 A1), (IHs2 _ S2 N2 A2). reflexivity.
  - reflexivity.
Qed.

Lemma k_frag_intro p :
  switch_guard p = true -> prog_has_print p = false -> ann_check_prog p = true -> k_frag p = true.
Proof.
  unfold switch_guard, prog_has_print, ann_check_prog, k_frag. rewrite !forallb_forall. intros SW NP AN d Hd.
  apply (stmt_k_intro (dbody d) (dctx d)); [exact (SW d Hd)| |exact (AN d Hd)].
  destruct (stmt_has_print (dbody d)) eqn:E; [|reflexivity].
  assert (X : existsb (fun d0 => stmt_has_print (dbody d0)) (pdefs p) = true) by (apply existsb_exists; exists d; auto). congruence.
Qed.
