(* C14, AArch64: EVERY instruction the code generator emits is well-formed, for every program inside the boolean
   guards of Sem/WfGuard64.v.  This file: the body predicate [cok] on one instruction (encodable: Sem/A64Wf.instr_wf;
   every referenced label is not a '#'-mark; a BL goes to one of the two print routines; no GLOBAL directive) and a
   lemma `W (method ...)` for each method of a64_backend (W l = every instruction of l passes cok).  The lifting to
   programs and asm_wf is in Proof/A64WfProg.v.
   Ranges that matter: stack_offset p = 2048 - 8 (p + 1) for p < 256 spill slots (LDR/STR unsigned scaled offset),
   field offsets 16..72, the caller-save bracket of print (at most 17 registers: SUB SP / STR offsets below 144),
   reference-count increments below 4096 (ADD immediate), tag offsets 4 k as an ADD immediate up to 4095 and through
   TEMP2 beyond (the repaired add_and_jump), half-word chunks of a literal (MOVZ / MOVN / MOVK, any value). *)
From Coq Require Import List ZArith NArith String Ascii Bool Lia.
From SCC Require Import Base.Sexp Lang.AxSyn Model.ParMoves Model.Backend Model.A64
  Sem.A64Wf Sem.WfGuard Sem.WfGuard64 Generated.Constants Proof.LabelGen.
Import ListNotations.
Local Open Scope string_scope.
Local Open Scope list_scope.

(* ---------- the predicate on body code ---------- *)
Definition cok (c : acode) : bool :=
  instr_wf c && forallb (fun l => negb (is_hash_label l)) (referenced c)
  && match c with
     | BL l => String.eqb l "print_i64" || String.eqb l "println_i64"
     | GLOBAL _ => false
     | _ => true
     end.
Definition W (l : list acode) : Prop := Forall (fun c => cok c = true) l.
Lemma W_nil : W [].
Proof. constructor. Qed.
Lemma W_app a b : W a -> W b -> W (a ++ b).
Proof. intros A C. apply Forall_app. split; assumption. Qed.
Lemma W_forallb l : forallb cok l = true -> W l.
Proof. intros H. apply Forall_forall. rewrite forallb_forall in H. exact H. Qed.
Lemma W_In l : W l -> forall c, In c l -> cok c = true.
Proof. intros H. unfold W in H. rewrite Forall_forall in H. exact H. Qed.

(* registers / temporaries the encodings can name *)
Definition reg_enc (r : areg) : Prop := match r with X n => N.leb n 29 = true | _ => False end.
Definition temp_enc (t : atemp) : Prop := match t with AR r => reg_enc r | AS p => N.ltb p SPILL_NUM = true end.

Lemma stack_offset_ok p : N.ltb p SPILL_NUM = true -> uoff8 (stack_offset p) = true.
Proof.
  intros H. apply N.ltb_lt in H. change SPILL_NUM with 256%N in H. unfold uoff8, stack_offset. change SPILL_SPACE with 2048%Z.
  replace (2048 - 8 * (Z.of_N p + 1))%Z with ((255 - Z.of_N p) * 8)%Z by lia. rewrite Z.mod_mul by lia.
  apply andb_true_iff; split; [apply andb_true_iff; split; apply Z.leb_le; lia|reflexivity].
Qed.
Lemma field_offset_ok n o : N.leb o FIELDS_PER_BLOCK = true -> uoff8 (field_offset n o) = true.
Proof.
  intros H. apply N.leb_le in H. change FIELDS_PER_BLOCK with 3%N in H. unfold uoff8, field_offset, address. change A64C.address1 with 8%Z.
  assert (0 <= Z.of_N (tnum_n n) <= 1)%Z by (destruct n; cbn; lia).
  rewrite Z.mul_comm, Z.mod_mul by lia.
  apply andb_true_iff; split; [apply andb_true_iff; split; apply Z.leb_le; lia|reflexivity].
Qed.
Lemma imm12_small i : (0 <= i <= 4095)%Z -> imm12 i = true.
Proof. intros H. unfold imm12. apply orb_true_iff. left. apply andb_true_iff; split; apply Z.leb_le; lia. Qed.
Lemma lab_plain n : is_hash_label (lab n) = false.
Proof. reflexivity. Qed.

Ltac enc T :=
  repeat match goal with
  | t : atemp |- _ => destruct t as [[?|?|?]|?]; cbn [temp_enc reg_enc] in *; try contradiction
  | r : areg |- _ => destruct r as [?|?|?]; cbn [reg_enc] in *; try contradiction
  end.
Ltac wf1 :=
  unfold cok; cbn [instr_wf referenced forallb gp gp_or_zr gp_or_sp];
  rewrite ?stack_offset_ok by assumption; rewrite ?field_offset_ok by assumption; rewrite ?lab_plain;
  repeat match goal with H : is_hash_label _ = false |- _ => rewrite H end;
  repeat match goal with H : ?x = true |- context [?x] => rewrite H end;
  try reflexivity; repeat (apply andb_true_iff; split); try reflexivity.
Ltac wf :=
  unfold W;
  repeat match goal with
  | |- Forall _ (_ ++ _) => apply Forall_app; split
  | |- Forall _ (_ :: _) => constructor
  | |- Forall _ [] => constructor
  end; try wf1.

Lemma reg_TEMP : reg_enc TEMP. Proof. reflexivity. Qed.
Lemma reg_TEMP2 : reg_enc TEMP2. Proof. reflexivity. Qed.
Lemma reg_HEAP : reg_enc HEAP. Proof. reflexivity. Qed.
Lemma reg_FREE : reg_enc FREE. Proof. reflexivity. Qed.
Lemma reg_TT : reg_enc TEMPORARY_TEMP. Proof. reflexivity. Qed.
Lemma spill_TEMP : N.ltb SPILL_TEMP SPILL_NUM = true. Proof. reflexivity. Qed.

(* ---------- code.rs ---------- *)
Lemma W_move_from_register t r : temp_enc t -> reg_enc r -> W (move_from_register t r).
Proof. intros T R. destruct t as [[tn| |]|p], r as [rn| |]; cbn [temp_enc reg_enc move_from_register] in *; try contradiction; wf. Qed.
Lemma W_move_to_register r t : reg_enc r -> temp_enc t -> W (move_to_register r t).
Proof. intros R T. destruct t as [[tn| |]|p], r as [rn| |]; cbn [temp_enc reg_enc move_to_register] in *; try contradiction; wf. Qed.

Definition f_ok (f : areg -> areg -> areg -> list acode) : Prop :=
  forall t a b, reg_enc t -> reg_enc a -> reg_enc b -> W (f t a b).
Lemma W_r3 (mk : areg -> areg -> areg -> acode) :
  (forall t a b, instr_wf (mk t a b) = gp_or_zr t && gp_or_zr a && gp_or_zr b) ->
  (forall t a b, referenced (mk t a b) = []) ->
  (forall t a b, match mk t a b with BL _ | GLOBAL _ => False | _ => True end) ->
  f_ok (fun t a b => [mk t a b]).
Proof.
  intros HI HR HM t a b T A Bb. constructor; [|constructor]. unfold cok. rewrite HI, HR. specialize (HM t a b).
  destruct t as [tn| |], a as [an| |], b as [bn| |]; cbn [reg_enc] in *; try contradiction. cbn [gp_or_zr forallb]. rewrite T, A, Bb.
  destruct (mk (X tn) (X an) (X bn)); try contradiction; reflexivity.
Qed.
Lemma f_add : f_ok r_add. Proof. apply (W_r3 ADD); intros; try reflexivity; exact I. Qed.
Lemma f_sub : f_ok r_sub. Proof. apply (W_r3 SUB); intros; try reflexivity; exact I. Qed.
Lemma f_mul : f_ok r_mul. Proof. apply (W_r3 MUL); intros; try reflexivity; exact I. Qed.
Lemma f_div : f_ok r_div. Proof. apply (W_r3 SDIV); intros; try reflexivity; exact I. Qed.
Lemma f_rem : f_ok r_rem.
Proof.
  intros t a b T A Bb. unfold r_rem. pose proof spill_TEMP as S0.
  destruct t as [tn| |], a as [an| |], b as [bn| |]; cbn [reg_enc] in *; try contradiction.
  destruct (areg_eqb (X bn) TEMP2); [destruct (areg_eqb (X tn) TEMP)|]; wf.
Qed.
Lemma W_op f t s1 s2 : f_ok f -> temp_enc t -> temp_enc s1 -> temp_enc s2 -> W (a_op f t s1 s2).
Proof.
  intros F T S1 S2. pose proof reg_TEMP as RT. pose proof reg_TEMP2 as RT2.
  assert (SC : forall r, reg_enc (scratch_for r)) by (intros r; unfold scratch_for; destruct (areg_eqb r TEMP); assumption).
  unfold a_op. destruct t as [tr|tp], s1 as [r1|p1], s2 as [r2|p2]; cbn [temp_enc] in *;
    repeat apply W_app; try (apply F; auto); try solve [wf].
  all: specialize (SC r1); destruct (scratch_for r1) as [sn| |]; cbn [reg_enc] in SC; try contradiction; wf.
Qed.
Lemma W_arith o t s1 s2 : temp_enc t -> temp_enc s1 -> temp_enc s2 -> W (a_arith o t s1 s2).
Proof.
  intros T S1 S2. destruct o; cbn [a_arith]; apply W_op; auto using f_add, f_sub, f_mul, f_div, f_rem.
Qed.
Lemma W_compare a b : temp_enc a -> temp_enc b -> W (compare a b).
Proof. intros A Bb. destruct a as [[an| |]|p], b as [[bn| |]|q]; cbn [temp_enc reg_enc compare] in *; try contradiction; wf. Qed.
Lemma W_compare_immediate a : temp_enc a -> W (compare_immediate a 0).
Proof. intros A. destruct a as [[an| |]|p]; cbn [temp_enc reg_enc compare_immediate] in *; try contradiction; wf. Qed.
Lemma W_bcc s l : is_hash_label l = false -> W [bcc s l].
Proof. intros H. destruct s; cbn [bcc]; wf. Qed.
Lemma W_mov t s : temp_enc t -> temp_enc s -> W (a_mov t s).
Proof.
  intros T S. unfold a_mov. destruct s as [sr|sp].
  - apply W_move_from_register; assumption.
  - destruct t as [tr|tp].
    + apply W_move_to_register; assumption.
    + apply W_app; [apply W_move_to_register|apply W_move_from_register]; auto using reg_TEMP2.
Qed.
Lemma W_jump t : temp_enc t -> W (a_jump t).
Proof. intros T. destruct t as [[n| |]|p]; cbn [temp_enc reg_enc a_jump] in *; try contradiction; wf. Qed.

(* literals: every half-word is a 16-bit chunk, every shift one of 0 / 16 / 32 / 48 *)
Lemma halfword_range v i : (0 <= halfword v i <= 65535)%Z.
Proof. unfold halfword. pose proof (Z.mod_pos_bound (v / 2 ^ (16 * Z.of_N i)) 65536). lia. Qed.
Lemma imm16_ok h : (0 <= h <= 65535)%Z -> imm16 h = true.
Proof. intros H. unfold imm16. apply andb_true_iff; split; apply Z.leb_le; lia. Qed.
Lemma shift16_ok i : (i <= 3)%N -> shift16 (16 * Z.of_N i) = true.
Proof.
  intros H. assert (C : (i = 0 \/ i = 1 \/ i = 2 \/ i = 3)%N) by lia. destruct C as [->|[->|[->| ->]]]; reflexivity.
Qed.
Lemma W_imm_pieces n v inv ign (R : N.leb n 29 = true) : forall is fd,
  (forall i, In i is -> (i <= 3)%N) -> W (imm_pieces (X n) v inv ign fd is).
Proof.
  induction is as [|i is IH]; intros fd HI; cbn [imm_pieces]; [exact W_nil|].
  assert (HI' : forall j, In j is -> (j <= 3)%N) by (intros; apply HI; right; assumption).
  pose proof (halfword_range v i) as HR. pose proof (shift16_ok i (HI i (or_introl eq_refl))) as SH.
  destruct (Z.eqb _ ign); [apply IH; exact HI'|].
  destruct fd; [|destruct inv]; (constructor; [|apply IH; exact HI']); unfold cok; cbn [instr_wf referenced forallb gp_or_zr];
    rewrite R, SH, imm16_ok by lia; reflexivity.
Qed.
Lemma W_imm_code r v : reg_enc r -> W (imm_code r v).
Proof.
  intros R. destruct r as [n| |]; cbn [reg_enc] in R; try contradiction. unfold imm_code.
  destruct (Z.eqb v 0); [wf|]. destruct (Z.eqb v (-1)); [wf|].
  apply W_imm_pieces; [exact R|]. intros i Hi. cbn in Hi. lia.
Qed.
Lemma W_load_immediate t i : temp_enc t -> W (a_load_immediate t i).
Proof.
  intros T. destruct t as [r|p]; cbn [temp_enc a_load_immediate] in *.
  - apply W_imm_code; exact T.
  - apply W_app; [apply W_imm_code; exact reg_TEMP|wf].
Qed.
Lemma W_load_label t l : temp_enc t -> is_hash_label l = false -> W (a_load_label t l).
Proof. intros T H. destruct t as [[n| |]|p]; cbn [temp_enc reg_enc a_load_label] in *; try contradiction; wf. Qed.
Lemma fits_imm12 i : add_imm_fits i = true -> imm12 i = true.
Proof. unfold add_imm_fits. intros H. apply andb_true_iff in H as [H1 H2]. apply Z.leb_le in H1, H2. apply imm12_small. lia. Qed.
Lemma W_add_offset r i : reg_enc r -> W (add_offset r i).
Proof.
  intros R. unfold add_offset. destruct (add_imm_fits i) eqn:FI.
  - pose proof (fits_imm12 i FI) as F. destruct r as [n| |]; cbn [reg_enc] in R; try contradiction. wf.
  - apply W_app; [apply W_imm_code; exact reg_TEMP2|]. destruct r as [n| |]; cbn [reg_enc] in R; try contradiction. wf.
Qed.
(* the table dispatch of invoke: every offset (repaired code; the old code only below 1024 xtors: W_old_add_and_jump) *)
Lemma W_add_and_jump t i : temp_enc t -> W (a_add_and_jump t i).
Proof.
  intros T. destruct t as [r|p]; cbn [temp_enc a_add_and_jump] in *.
  - apply W_app; [apply W_add_offset; exact T|]. destruct r as [n| |]; cbn [reg_enc] in T; try contradiction. wf.
  - apply (W_app [_]); [wf|]. apply W_app; [apply W_add_offset; exact reg_TEMP|wf].
Qed.
Lemma tag_imm12 k : (k < A64_XTORS_MAX)%N -> imm12 (jump_length k) = true.
Proof. unfold A64_XTORS_MAX, jump_length. intros H. apply imm12_small. lia. Qed.
Lemma W_old_add_and_jump t k : temp_enc t -> (k < A64_XTORS_MAX)%N -> W (old_a_add_and_jump t (jump_length k)).
Proof.
  intros T K. pose proof (tag_imm12 k K) as F.
  destruct t as [[n| |]|p]; cbn [temp_enc reg_enc old_a_add_and_jump] in *; try contradiction; wf.
Qed.
Lemma W_store_temporary t f : temp_enc t -> W (a_store_temporary t f).
Proof. intros T. destruct t as [[n| |]|p]; cbn [temp_enc reg_enc a_store_temporary] in *; try contradiction; wf. Qed.
Lemma W_restore_temporary t f : temp_enc t -> W (a_restore_temporary t f).
Proof. intros T. destruct t as [[n| |]|p]; cbn [temp_enc reg_enc a_restore_temporary] in *; try contradiction; wf. Qed.

(* ---------- print_i64: the caller-save bracket ---------- *)
Lemma firstn_In_ {X} (x : X) n l : In x (firstn n l) -> In x l.
Proof. intros H. rewrite <- (firstn_skipn n l). apply in_or_app. left. exact H. Qed.
Lemma skipn_In_ {X} (x : X) n l : In x (skipn n l) -> In x l.
Proof. intros H. rewrite <- (firstn_skipn n l). apply in_or_app. right. exact H. Qed.
Lemma In_nseq o n : In o (nseq 0 n) -> (o < n)%N.
Proof. unfold nseq. intros H. apply in_map_iff in H as (k & <- & H). apply in_seq in H. lia. Qed.
Lemma In_combine_nseq {X} (o : N) (x : X) n l : In (o, x) (combine (nseq 0 n) l) -> (o < n)%N /\ In x l.
Proof. intros H. split; [apply In_nseq; eapply in_combine_l; eauto|eapply in_combine_r; eauto]. Qed.
Lemma flat_map_len_le {X Y} (f : X -> list Y) k l : (forall x, In x l -> (List.length (f x) <= k)%nat) ->
  (List.length (flat_map f l) <= k * List.length l)%nat.
Proof.
  induction l as [|x l IH]; intros H; cbn [flat_map List.length]; [lia|]. rewrite app_length.
  pose proof (H x (or_introl eq_refl)). assert (forall y, In y l -> (List.length (f y) <= k)%nat) by (intros; apply H; right; assumption).
  specialize (IH H1). lia.
Qed.
Lemma csr_regs c r : In r (snd (caller_save_registers_info c)) -> (r <= 29)%N.
Proof.
  unfold caller_save_registers_info. cbn [snd]. intros H. apply in_app_or in H as [H|H]; [cbn in H; lia|].
  apply in_app_or in H as [H|H].
  - destruct (N.leb _ _); cbn in H; [|contradiction]. destruct H as [<-|[]]. vm_compute. discriminate.
  - apply in_flat_map in H as ([o b] & H & Hr). apply In_combine_nseq in H as [Ho _].
    assert (LT : (o < 7)%N).
    { eapply N.lt_le_trans; [exact Ho|]. rewrite firstn_length.
      change (N.to_nat ((CALLER_SAVE_LAST + 1 - CALLER_SAVE_FIRST) / 2)) with 7%nat. lia. }
    change CALLER_SAVE_FIRST with 4%N in Hr.
    destruct (bchi b); cbn [In] in Hr; lia.
Qed.
Lemma csr_len c : (List.length (snd (caller_save_registers_info c)) <= 17)%nat.
Proof.
  unfold caller_save_registers_info. cbn [snd]. rewrite !app_length.
  assert (A : (List.length (if N.leb REGISTER_NUM (2 * N.of_nat (List.length c) + RESERVED) then [(REGISTER_NUM - 1)%N] else []) <= 1)%nat)
    by (destruct (N.leb _ _); cbn; lia).
  match goal with |- context [flat_map ?f ?l] =>
    assert (Bd : (List.length (flat_map f l) <= 2 * List.length l)%nat) by
      (apply flat_map_len_le; intros [o b] _; destruct (bchi b); cbn; lia);
    assert (Ld : (List.length l <= 7)%nat) end.
  { rewrite combine_length. unfold nseq. rewrite map_length, seq_length, firstn_length.
    change (N.to_nat ((CALLER_SAVE_LAST + 1 - CALLER_SAVE_FIRST) / 2)) with 7%nat. lia. }
  cbn [List.length]. lia.
Qed.
Lemma push_count_le fb regs : (List.length regs <= 17)%nat ->
  (List.length regs - backup_used fb regs <= push_count fb regs <= 18)%nat.
Proof. intros H. unfold push_count. destruct (Nat.even _); lia. Qed.
Lemma W_movs fb used regs :
  (used <= N.to_nat ((REGISTER_NUM - 1) - fb))%nat -> (forall r, In r regs -> (r <= 29)%N) ->
  W (map (fun or_ : N * N => MOVR (X (fb + fst or_)) (X (snd or_))) (combine (nseq 0 (N.of_nat used)) (firstn used regs))) /\
  W (map (fun or_ : N * N => MOVR (X (snd or_)) (X (fb + fst or_))) (combine (nseq 0 (N.of_nat used)) (firstn used regs))).
Proof.
  intros U R. change REGISTER_NUM with 30%N in U.
  split; apply Forall_forall; intros c Hc; apply in_map_iff in Hc as ([o r] & <- & H); apply In_combine_nseq in H as [Ho Hr];
    cbn [fst snd]; assert (A : N.leb (fb + o) 29 = true) by (apply N.leb_le; lia);
    assert (A2 : N.leb r 29 = true) by (apply N.leb_le; apply R; eapply firstn_In_; exact Hr); wf1.
Qed.
Lemma W_print nl s c : temp_enc s -> W (a_print nl s c).
Proof.
  intros T. unfold a_print. pose proof (csr_regs c) as R. pose proof (csr_len c) as LN.
  destruct (caller_save_registers_info c) as [fb regs]. cbn [snd] in R, LN.
  unfold save_caller_save_registers, restore_caller_save_registers.
  assert (U : (backup_used fb regs <= N.to_nat ((REGISTER_NUM - 1) - fb))%nat) by (unfold backup_used; lia).
  destruct (W_movs fb _ regs U R) as [M1 M2].
  pose proof (push_count_le fb regs LN) as PC.
  set (pc := push_count fb regs) in *. set (used := backup_used fb regs) in *.
  assert (SUBOK : imm12 (address (Z.of_nat pc)) = true).
  { apply imm12_small. unfold address. change A64C.address1 with 8%Z. lia. }
  assert (OFF : forall o r, In (o, r) (combine (nseq 0 (N.of_nat (List.length regs - used))) (skipn used regs)) ->
                uoff8 (address (Z.of_nat pc - 1 - Z.of_N o)) = true /\ N.leb r 29 = true).
  { intros o r H. apply In_combine_nseq in H as [Ho Hr]. split; [|apply N.leb_le, R; eapply skipn_In_; exact Hr].
    unfold uoff8, address. change A64C.address1 with 8%Z. rewrite Z.mul_comm, Z.mod_mul by lia.
    apply andb_true_iff; split; [apply andb_true_iff; split; apply Z.leb_le; lia|reflexivity]. }
  repeat apply W_app.
  - destruct s as [r|p]; [exact W_nil|apply W_move_to_register; [exact reg_TEMP|exact T]].
  - exact M1.
  - destruct (Nat.eqb _ 0); [exact W_nil|]. apply W_app; [wf|].
    apply Forall_forall. intros x Hx. apply in_map_iff in Hx as ([o r] & <- & H). destruct (OFF o r H) as [O1 O2]. cbn [fst snd]. wf1.
  - destruct s as [[n| |]|p]; cbn [temp_enc reg_enc] in T; try contradiction; wf.
  - destruct nl; wf.
  - exact M2.
  - destruct (Nat.eqb _ 0); [exact W_nil|]. apply W_app; [|wf].
    apply Forall_forall. intros x Hx. apply in_map_iff in Hx as ([o r] & <- & H). apply in_rev in H.
    destruct (OFF o r H) as [O1 O2]. cbn [fst snd]. wf1.
Qed.

(* ---------- memory.rs ---------- *)
Lemma W_skip cond body lc : reg_enc cond -> W body -> W (fst (skip_if_zero cond body lc)).
Proof.
  intros T HB. unfold skip_if_zero. cbn [fst]. destruct cond as [n| |]; cbn [reg_enc] in T; try contradiction.
  apply (W_app [_; _]); [wf|]. apply W_app; [exact HB|wf].
Qed.
Lemma W_ite r th el lc : reg_enc r -> W th -> W el -> W (fst (if_zero_then_else r th el lc)).
Proof.
  intros R H1 H2. unfold if_zero_then_else. cbn [fst]. destruct r as [n| |]; cbn [reg_enc] in R; try contradiction.
  apply (W_app [_; _]); [wf|]. apply W_app; [exact H2|]. apply (W_app [_; _]); [wf|]. apply W_app; [exact H1|wf].
Qed.
Lemma W_erase_valid r lc : reg_enc r -> W (fst (erase_valid_object r lc)).
Proof.
  intros R. unfold erase_valid_object. destruct r as [n| |]; cbn [reg_enc] in R; try contradiction.
  apply W_ite; [exact reg_TEMP2|wf|wf].
Qed.
Lemma W_erase t lc : temp_enc t -> W (fst (a_erase_block t lc)).
Proof.
  intros T. destruct t as [r|p]; cbn [a_erase_block temp_enc] in *.
  - pose proof (W_erase_valid r lc T) as H. destruct (erase_valid_object r lc) as [c lc1]. apply W_skip; [exact T|].
    cbn [fst] in H. apply (W_app [_]); [|exact H]. destruct r as [n| |]; cbn [reg_enc] in T; try contradiction; wf.
  - pose proof (W_erase_valid TEMP lc reg_TEMP) as H. destruct (erase_valid_object TEMP lc) as [c lc1]. cbn [fst] in H.
    assert (H1 : W ([LDR TEMP2 TEMP REFERENCE_COUNT_OFFSET] ++ c)) by (apply (W_app [_]); [wf|exact H]).
    pose proof (W_skip TEMP _ lc1 reg_TEMP H1) as H2. destruct (skip_if_zero TEMP _ lc1) as [c2 lc2]. cbn [fst] in *.
    apply W_app; [wf|exact H2].
Qed.
Lemma W_share_code r n : reg_enc r -> (n < A64_SUBST_MAX)%N -> W (share_code r n).
Proof.
  intros R H. assert (F : imm12 (Z.of_N n) = true) by (apply imm12_small; unfold A64_SUBST_MAX in H; lia).
  destruct r as [m| |]; cbn [reg_enc] in R; try contradiction. unfold share_code. wf.
Qed.
Lemma W_share t n lc : temp_enc t -> (n < A64_SUBST_MAX)%N -> W (fst (a_share_block_n t n lc)).
Proof.
  intros T H. destruct t as [r|p]; cbn [a_share_block_n temp_enc] in *.
  - apply W_skip; [exact T|apply W_share_code; assumption].
  - pose proof (W_skip TEMP (share_code TEMP n) lc reg_TEMP (W_share_code TEMP n reg_TEMP H)) as H2.
    destruct (skip_if_zero TEMP (share_code TEMP n) lc) as [c lc1]. cbn [fst] in *. apply W_app; [wf|exact H2].
Qed.
Lemma W_erase_fields_fold n (R : N.leb n 29 = true) : forall l acc,
  (forall o, In o l -> N.leb o FIELDS_PER_BLOCK = true) -> W (fst acc) ->
  W (fst (fold_left (fun (acc : list acode * N) (offset : N) =>
               let '(c, lc) := acc in
               let '(c1, lc1) := a_erase_block (AR TEMP) lc in
               (c ++ [LDR TEMP (X n) (field_offset Fst offset)] ++ c1, lc1)) l acc)).
Proof.
  induction l as [|o l IH]; intros [c lc] HO H; cbn [fold_left]; [exact H|]. apply IH; [intros; apply HO; right; assumption|].
  pose proof (W_erase (AR TEMP) lc reg_TEMP) as H2. destruct (a_erase_block (AR TEMP) lc) as [c1 lc1]. cbn [fst] in *.
  assert (O : N.leb o FIELDS_PER_BLOCK = true) by (apply HO; left; reflexivity).
  apply W_app; [exact H|]. apply W_app; [wf|exact H2].
Qed.
Lemma W_erase_fields r lc : reg_enc r -> W (fst (erase_fields r lc)).
Proof.
  intros R. destruct r as [n| |]; cbn [reg_enc] in R; try contradiction.
  unfold erase_fields. apply (W_erase_fields_fold n R); [|exact W_nil].
  intros o H. apply In_nseq in H. apply N.leb_le. lia.
Qed.
Lemma fpb_ok : N.leb FIELDS_PER_BLOCK FIELDS_PER_BLOCK = true. Proof. reflexivity. Qed.
Lemma W_acquire t lc : temp_enc t -> W (fst (acquire_block t lc)).
Proof.
  intros T. unfold acquire_block.
  pose proof (W_erase_fields HEAP lc reg_HEAP) as H1. destruct (erase_fields HEAP lc) as [ef lc1]. cbn [fst] in H1.
  pose proof fpb_ok as FO.
  pose proof (W_ite FREE [ADDI FREE HEAP (field_offset Fst FIELDS_PER_BLOCK)]
                ([STR XZR HEAP NEXT_ELEMENT_OFFSET] ++ ef) lc1 reg_FREE) as H2.
  destruct (if_zero_then_else FREE _ _ lc1) as [inner lc2]. cbn [fst] in H2.
  assert (H2' : W inner).
  { apply H2; [apply W_forallb; reflexivity|apply (W_app [_]); [wf|exact H1]]. }
  match goal with |- context [if_zero_then_else HEAP ?th ?el lc2] =>
    pose proof (W_ite HEAP th el lc2 reg_HEAP) as H3; destruct (if_zero_then_else HEAP th el lc2) as [outer lc3] end.
  cbn [fst] in *. apply W_app.
  - destruct t as [[n| |]|p]; cbn [temp_enc reg_enc] in T; try contradiction; wf.
  - apply H3; [apply (W_app [_; _]); [wf|exact H2']|destruct t as [[n| |]|p]; cbn [temp_enc reg_enc] in T; try contradiction; wf].
Qed.

Lemma tfp_enc p t : temporary_from_position p = Ok t -> temp_enc t.
Proof.
  unfold temporary_from_position. destruct (N.ltb_spec (p + RESERVED) REGISTER_NUM) as [H|H].
  - intros E; inversion E; subst. cbn [temp_enc reg_enc]. change REGISTER_NUM with 30%N in H. apply N.leb_le. lia.
  - destruct (N.ltb (p + RESERVED - REGISTER_NUM + RESERVED_SPILLS) SPILL_NUM) eqn:H2; [|discriminate].
    intros E; inversion E; subst. cbn [temp_enc]. exact H2.
Qed.
Lemma fresh_enc n c t : a_fresh n c = Ok t -> temp_enc t.
Proof. apply tfp_enc. Qed.

Lemma W_store_field n c blk o code : reg_enc blk -> N.leb o FIELDS_PER_BLOCK = true -> store_field n c blk o = Ok code -> W code.
Proof.
  unfold store_field. intros R O H. rinv H. inversion H; subst. pose proof (fresh_enc _ _ _ E) as T.
  destruct blk as [bn| |]; cbn [reg_enc] in R; try contradiction.
  destruct x as [[xn| |]|xp]; cbn [temp_enc reg_enc] in T; try contradiction; wf.
Qed.
Lemma W_load_field n c blk o code : reg_enc blk -> N.leb o FIELDS_PER_BLOCK = true -> load_field n c blk o = Ok code -> W code.
Proof.
  unfold load_field. intros R O H. rinv H. inversion H; subst. pose proof (fresh_enc _ _ _ E) as T.
  destruct blk as [bn| |]; cbn [reg_enc] in R; try contradiction.
  destruct x as [[xn| |]|xp]; cbn [temp_enc reg_enc] in T; try contradiction; wf.
Qed.
Lemma W_store_zero blk o : reg_enc blk -> N.leb o FIELDS_PER_BLOCK = true -> W (store_zero blk o).
Proof. intros R O. destruct blk as [bn| |]; cbn [reg_enc] in R; try contradiction. unfold store_zero. wf. Qed.
Lemma W_store_value b rem blk o code : reg_enc blk -> N.leb o FIELDS_PER_BLOCK = true -> store_value b rem blk o = Ok code -> W code.
Proof.
  unfold store_value. intros R O H. rinv H. pose proof (W_store_field _ _ _ _ _ R O E) as N1. destruct (bchi b).
  - rinv H. inversion H; subst. apply W_app; [exact N1|exact (W_store_field _ _ _ _ _ R O E0)].
  - rinv H. inversion H; subst. apply W_app; [exact N1|exact (W_store_field _ _ _ _ _ R O E0)].
  - inversion H; subst. apply W_app; [exact N1|apply W_store_zero; assumption].
Qed.
Lemma leb_le_trans a b : (a <= b)%N -> N.leb b FIELDS_PER_BLOCK = true -> N.leb a FIELDS_PER_BLOCK = true.
Proof. intros H K. apply N.leb_le in K. apply N.leb_le. lia. Qed.
Lemma W_store_zeros n blk : reg_enc blk -> N.leb n FIELDS_PER_BLOCK = true -> W (store_zeros n blk).
Proof.
  intros R O. unfold store_zeros. apply Forall_forall. intros c Hc. apply in_flat_map in Hc as (o & Ho & Hc).
  apply In_nseq in Ho. assert (O2 : N.leb o FIELDS_PER_BLOCK = true) by (apply (leb_le_trans o n); [lia|exact O]).
  exact (W_In _ (W_store_zero blk o R O2) c Hc).
Qed.
Lemma W_store_values rem blk (R : reg_enc blk) : forall l ff code,
  N.leb ff FIELDS_PER_BLOCK = true -> store_values l rem blk ff = Ok code -> W code.
Proof.
  induction l as [|b l IH]; intros ff code O H; cbn [store_values] in H.
  - inversion H; subst. apply W_store_zeros; assumption.
  - rinv H. inversion H; subst. assert (O1 : N.leb (ff - 1) FIELDS_PER_BLOCK = true) by (apply (leb_le_trans _ ff); [lia|exact O]).
    apply W_app; [exact (W_store_value _ _ _ _ _ R O1 E)|exact (IH _ _ O1 E0)].
Qed.
Lemma W_load_value b ex blk o m lc c lc' : reg_enc blk -> N.leb o FIELDS_PER_BLOCK = true ->
  load_value b ex blk o m lc = Ok (c, lc') -> W c.
Proof.
  unfold load_value. intros R O H. rinv H. pose proof (W_load_field _ _ _ _ _ R O E) as N1.
  assert (SH : forall x2 l, temp_enc x2 -> W (fst (a_share_block_n (AR match x2 with AR r => r | AS _ => TEMP end) 1 l))).
  { intros x2 l T2. apply W_share; [|reflexivity]. destruct x2; [exact T2|exact reg_TEMP]. }
  destruct (bchi b).
  1,2: rinv H; pose proof (W_load_field _ _ _ _ _ R O E0) as N2; pose proof (fresh_enc _ _ _ E1) as T2; destruct m.
  - inversion H; subst. apply W_app; assumption.
  - pose proof (SH x1 lc T2) as S1. destruct (a_share_block_n _ 1 lc) as [c3 lc1]. inversion H; subst.
    apply W_app; [exact N1|apply W_app; [exact N2|exact S1]].
  - inversion H; subst. apply W_app; assumption.
  - pose proof (SH x1 lc T2) as S1. destruct (a_share_block_n _ 1 lc) as [c3 lc1]. inversion H; subst.
    apply W_app; [exact N1|apply W_app; [exact N2|exact S1]].
  - inversion H; subst. exact N1.
Qed.
Lemma W_load_values ex blk m (R : reg_enc blk) : forall l ff lc c lc',
  N.leb ff FIELDS_PER_BLOCK = true -> load_values l ex blk ff m lc = Ok (c, lc') -> W c.
Proof.
  induction l as [|b l IH]; intros ff lc c lc' O H; cbn [load_values] in H.
  - inversion H; subst. exact W_nil.
  - rinv H. inversion H; subst. assert (O1 : N.leb (ff - 1) FIELDS_PER_BLOCK = true) by (apply (leb_le_trans _ ff); [lia|exact O]).
    apply W_app; [exact (W_load_value _ _ _ _ _ _ _ _ R O1 E)|exact (IH _ _ _ _ O1 E0)].
Qed.

Lemma cap_le bp : N.leb (FIELDS_PER_BLOCK - bp_n bp) FIELDS_PER_BLOCK = true.
Proof. destruct bp; reflexivity. Qed.
Lemma fpb1_le : N.leb (FIELDS_PER_BLOCK - 1) FIELDS_PER_BLOCK = true.
Proof. reflexivity. Qed.

Lemma W_store_fields : forall fuel to_store remaining bp lc c lc',
  store_fields fuel to_store remaining bp lc = Ok (c, lc') -> W c.
Proof.
  induction fuel as [|fuel IH]; intros to_store remaining bp lc c lc' H; cbn [store_fields] in H; [discriminate|].
  destruct to_store as [|b0 ts].
  - destruct bp; [rinv H|]; inversion H; subst; [|exact W_nil].
    apply W_load_immediate. exact (fresh_enc _ _ _ E).
  - rinv H. pose proof (W_acquire x1 lc (fresh_enc _ _ _ E1)) as A. destruct (acquire_block x1 lc) as [c2 lc2]. rinv H. inversion H; subst.
    cbn [fst] in A.
    assert (N0 : W x) by (destruct bp; [inversion E; exact W_nil|exact (W_store_field _ _ _ _ _ reg_HEAP fpb1_le E)]).
    apply W_app; [exact N0|]. apply W_app; [exact (W_store_values _ _ reg_HEAP _ _ _ (cap_le bp) E0)|].
    apply W_app; [exact A|exact (IH _ _ _ _ _ _ E2)].
Qed.
Lemma W_release m r : reg_enc r -> W (match m with Release => release_block r | Share => [] end).
Proof. intros R. destruct r as [n| |]; cbn [reg_enc] in R; try contradiction. destruct m; [unfold release_block; wf|exact W_nil]. Qed.
Lemma W_load_fields : forall fuel to_load existing bp m freed lc c freed' lc',
  load_fields fuel to_load existing bp m freed lc = Ok (c, freed', lc') -> W c.
Proof.
  induction fuel as [|fuel IH]; intros to_load existing bp m freed lc c freed' lc' H; cbn [load_fields] in H; [discriminate|].
  destruct to_load as [|b0 tl].
  - inversion H; subst. exact W_nil.
  - rstep H. destruct x as [[c0 freed0] lc0]. rinv H. pose proof (IH _ _ _ _ _ _ _ _ _ E) as I0.
    pose proof (fresh_enc _ _ _ E0) as TM. pose proof spill_TEMP as S0. pose proof reg_TT as RT.
    destruct x as [mr|mp]; cbn [temp_enc] in TM; rinv H; inversion H; subst.
    + assert (N2 : W x) by (destruct bp; [inversion E1; exact W_nil|exact (W_load_field _ _ _ _ _ TM fpb1_le E1)]).
      apply W_app; [exact I0|]. apply W_app; [apply W_release; exact TM|]. apply W_app; [exact N2|].
      exact (W_load_values _ _ _ TM _ _ _ _ _ (cap_le bp) E2).
    + assert (N2 : W x) by (destruct bp; [inversion E1; exact W_nil|exact (W_load_field _ _ _ _ _ RT fpb1_le E1)]).
      apply W_app; [exact I0|]. apply W_app; [destruct freed0; wf|]. apply (W_app [_]); [wf|].
      apply W_app; [apply W_release; exact RT|]. apply W_app; [exact N2|].
      apply W_app; [exact (W_load_values _ _ _ RT _ _ _ _ _ (cap_le bp) E2)|destruct bp; wf].
Qed.
Lemma W_load_register blk to_load existing lc c lc' : reg_enc blk ->
  load_register blk to_load existing lc = Ok (c, lc') -> W c.
Proof.
  unfold load_register. intros R H. rstep H. destruct x as [[th f1] lc1]. rstep H. destruct x as [[eb f2] lc2].
  pose proof (W_load_fields _ _ _ _ _ _ _ _ _ _ E) as I1. pose proof (W_load_fields _ _ _ _ _ _ _ _ _ _ E0) as I2.
  assert (K : W (fst (if_zero_then_else TEMP2 th ([SUBI TEMP2 TEMP2 1; STR TEMP2 blk REFERENCE_COUNT_OFFSET] ++ eb) lc2))).
  { apply (W_ite TEMP2 th _ lc2 reg_TEMP2 I1). apply (W_app [_; _]); [|exact I2].
    destruct blk as [bn| |]; cbn [reg_enc] in R; try contradiction; wf. }
  replace c with (fst (if_zero_then_else TEMP2 th ([SUBI TEMP2 TEMP2 1; STR TEMP2 blk REFERENCE_COUNT_OFFSET] ++ eb) lc2));
    [exact K|inversion H; reflexivity].
Qed.
Lemma W_a_load to_load existing lc c lc' : a_load to_load existing lc = Ok (c, lc') -> W c.
Proof.
  unfold a_load. intros H. destruct to_load as [|b0 tl].
  - inversion H; subst. exact W_nil.
  - rinv H. pose proof (fresh_enc _ _ _ E) as T. destruct x as [r|p]; cbn [temp_enc] in T.
    + rinv H. destruct x as [c1 l1]. cbn [fst snd] in H. inversion H; subst. apply (W_app [_]).
      * destruct r as [n| |]; cbn [reg_enc] in T; try contradiction; wf.
      * exact (W_load_register _ _ _ _ _ _ T E0).
    + rinv H. destruct x as [c1 l1]. cbn [fst snd] in H. inversion H; subst. apply (W_app [_; _]); [wf|].
      exact (W_load_register _ _ _ _ _ _ reg_TEMP E0).
Qed.
Lemma W_a_store to_store remaining lc c lc' : a_store to_store remaining lc = Ok (c, lc') -> W c.
Proof. unfold a_store. apply W_store_fields. Qed.

(* ---------- the routine wrapper ---------- *)
Lemma W_move_arguments : forall n x, move_arguments n = Ok x -> W x.
Proof.
  intros n x H. destruct n as [|[|[|[|[|[|[|[|n]]]]]]]];
    try (vm_compute in H; inversion H; subst; apply W_forallb; vm_compute; reflexivity).
Qed.
Lemma W_setup n s : setup n = Ok s -> W s.
Proof.
  unfold setup. intros H. rinv H. inversion H; subst. apply (W_app [_; _; _; _; _; _; _]); [apply W_forallb; vm_compute; reflexivity|].
  apply W_app; [exact (W_move_arguments _ _ E)|apply W_forallb; vm_compute; reflexivity].
Qed.
Lemma W_cleanup : W cleanup.
Proof. apply W_forallb. vm_compute. reflexivity. Qed.
