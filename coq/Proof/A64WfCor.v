(* C07 without the two hypotheses that were only CHECKED on the emitted code (`asm_wf cs = None`,
   `code_small cs = true`): both are theorems now (Proof/A64WfProg.v) under boolean guards on the PROGRAM handed to the
   code generator (Sem/WfGuard64.v):
     labels_guard      the label texts are unambiguous (known finding label-collision-name-digits outside it)
     imm_guard_a64     a type declares at most 1024 xtors (`ADD Xt, Xt, #4k`: a real limit of the back end); this also
                       gives tags_i64
     reach_guard_a64   28 + cg_fine_defs 14 74 < 262143 instructions (two-weight size bound, Proof/SizeA64Fine.v): every
                       B.cond / ADR target within +-1 MiB (a real limit of the back end), and the code fits the image
   `calls_guard` follows from the linear discipline (Proof/X86WfCor.lin_check_calls_guard). *)
From Coq Require Import List ZArith NArith String Bool Lia.
From SCC Require Import Base.Sexp Lang.AxSyn Sem.AxSem Sem.AxHeap Model.Backend Model.A64 Sem.A64Sem Sem.A64Wf
     Model.Linearize Model.LinCheck Proof.LinearizeProof Proof.SimFrag Proof.A64SimAddr Proof.A64SimTop
     Proof.X86HAnn Proof.X86HAnnLin Proof.A64HSimTop Proof.A64HSimCor Proof.A64HSimExample Proof.A64HSimExampleW
     Sem.LabelGuard Sem.WfGuard Sem.WfGuard64 Proof.A64WfProg Proof.AxHeapExample Proof.Fun2CoreExamples.
From SCC Require Model.Heap Proof.AxHeapTyping Proof.X86HSimTop Proof.X86HSimExample Proof.X86WfCor.
Import ListNotations.
Local Open Scope list_scope.
Open Scope Z_scope.

Lemma imm_guard_tags p : imm_guard_a64 p = true -> tags_i64 p = true.
Proof.
  unfold imm_guard_a64, imm_guardP, tags_i64, xtors_le. intros H. apply andb_true_iff in H as [_ H].
  rewrite forallb_forall in H. apply forallb_forall. intros d Hd. specialize (H d Hd). apply N.leb_le in H.
  unfold A64_XTORS_MAX in H. apply Z.ltb_lt. lia.
Qed.

Theorem a64_codegen_simulates_wf p lc cs n lc' args fuel o :
  lin_check_prog p = true -> ann_check_prog p = true -> AxHeapTyping.entry_ext p = true ->
  plain_names p = true -> plain_types p = true -> lits_i64 p = true ->
  labels_guard p = true -> imm_guard_a64 p = true -> reach_guard_a64 p = true ->
  a64_compile p lc = Ok (cs, n, lc') ->
  List.length args = n -> args_i64 args = true -> heap_fits p args ->
  run_linear fuel p args = o -> snd o <> OOutOfFuel ->
  exists outer inner, fst (run_a64 outer inner cs args) = o.
Proof.
  intros LIN ANN EE PN PT LI LG IG RG XC.
  apply (a64_codegen_simulates p lc cs n lc' args fuel o LIN ANN EE PN PT LI (imm_guard_tags p IG) XC).
  - exact (a64_compile_asm_wf p lc cs n lc' LG LIN PN PT IG RG XC).
  - exact (a64_compile_code_small_reach p lc cs n lc' LIN RG XC).
Qed.

Corollary a64_codegen_correct_linearized_wf a lc cs n lc' args fuel o :
  prog_ok a = true ->
  AxHeapTyping.entry_ext (linearize a) = true -> plain_names (linearize a) = true -> plain_types (linearize a) = true ->
  lits_i64 (linearize a) = true ->
  labels_guard (linearize a) = true -> imm_guard_a64 (linearize a) = true -> reach_guard_a64 (linearize a) = true ->
  a64_compile (linearize a) lc = Ok (cs, n, lc') ->
  args_i64 args = true -> heap_fits (linearize a) args ->
  run_linear fuel (linearize a) args = o -> defined o = true ->
  exists outer inner, fst (run_a64 outer inner cs args) = o.
Proof.
  intros OK EE PN PT LI LG IG RG XC. pose proof (linearize_exact a OK) as LIN.
  apply (a64_codegen_correct_linearized a lc cs n lc' args fuel o OK EE PN PT LI (imm_guard_tags _ IG) XC).
  - exact (a64_compile_asm_wf _ lc cs n lc' LG LIN PN PT IG RG XC).
  - exact (a64_compile_code_small_reach _ lc cs n lc' LIN RG XC).
Qed.

(* the hypotheses are satisfiable: the two heap examples of C07 and the linearized stage outputs of the five example
   programs of C01 pass every guard *)
Lemma hx_lin_guards_a64 :
  labels_guard hx_lin = true /\ imm_guard_a64 hx_lin = true /\ reach_guard_a64 hx_lin = true /\
  labels_guard hxw_lin = true /\ imm_guard_a64 hxw_lin = true /\ reach_guard_a64 hxw_lin = true.
Proof. vm_compute. repeat split; reflexivity. Qed.
Lemma wf_guard_a64_examples :
  wf_guard_a64 (X86WfCor.lin_of ex_calls) = true /\ wf_guard_a64 (X86WfCor.lin_of ex_shared) = true /\
  wf_guard_a64 (X86WfCor.lin_of ex_data) = true /\ wf_guard_a64 (X86WfCor.lin_of ex_labels) = true /\
  wf_guard_a64 (X86WfCor.lin_of ex_codata) = true /\ wf_guard_a64 hx_lin = true /\ wf_guard_a64 hxw_lin = true.
Proof. vm_compute. repeat split; reflexivity. Qed.

(* the theorem applied to the heap example (Proof/A64HSimExample.v), without evaluating asm_wf on the code *)
Lemma hxa_simulated_wf : exists outer inner, fst (run_a64 outer inner hxa_code [3; 100]) = run_linear 2000 hx_lin [3; 100].
Proof.
  destruct hxa_hypotheses as (H1 & H2 & H3 & H4 & H5 & HL & HT & (lc' & H6) & H7 & H8 & HA & H9).
  destruct hx_lin_guards_a64 as (G1 & G2 & G3 & _).
  eapply (a64_codegen_simulates_wf hx_lin 0 hxa_code 2 lc' [3; 100] 2000); eauto.
  - eapply fits_run_sound; eauto.
  - vm_compute. discriminate.
Qed.

(* ---------- the xtor bound cannot be dropped: a type with 1026 destructors, invoke of the last one ----------
   (the stage-level form of the finding docs/C14.md "tag dispatch immediate": `codata Big { d0, ..., d1099 }`,
   `def use(o: Big): i64 { o.d1099 }` is accepted by the front end and `ADD X7, X7, 4396` is rejected by the assembler) *)
Definition many_xtors (n : nat) : list xtorsig := map (fun k => mkx ("d"%string, N.of_nat k) []) (seq 0 n).
Definition wide_type_prog (n : nat) : prog :=
  let big : ident := ("Big"%string, 0%N) in
  let o : ident := ("o"%string, 1%N) in
  mkp [mkd ("use"%string, 0%N) [mkb o Cns (Decl big)] (Invoke o ("d"%string, N.of_nat (n - 1)) (Decl big) [])]
      [mkt big (many_xtors n)] 1%N.
Lemma asm_wf_xtors_needed :
  let p := wide_type_prog 1026 in
  labels_guard p = true /\ lin_check_prog p = true /\ plain_names p = true /\ plain_types p = true /\
  imm_guardP 1026 any_lit p = true /\ imm_guard_a64 p = false /\ reach_guard_a64 p = true /\
  exists cs n lc', a64_compile p 0 = Backend.Ok (cs, n, lc') /\
    asm_wf cs = Some "operand not encodable in its instruction form"%string /\
    In (ADDI (X 5) (X 5) 4100) cs.
Proof.
  cbv zeta. repeat (split; [vm_compute; reflexivity|]).
  eexists _, _, _. split; [vm_compute; reflexivity|]. split; [vm_compute; reflexivity|].
  vm_compute. repeat (first [left; reflexivity|right]).
Qed.
