(* C07 without the two hypotheses that were only CHECKED on the emitted code (`asm_wf cs = None`,
   `code_small cs = true`): both are theorems now (Proof/A64WfProg.v) under boolean guards on the PROGRAM handed to the
   code generator (Sem/WfGuard64.v):
     labels_guard      the label texts are unambiguous (known finding label-collision-name-digits outside it)
     (no bound on the xtors of a type since the repair of the table dispatch: the offset 4k is synthesised in TEMP2 when it
     does not fit the 12-bit immediate of ADD; tags_i64 - fewer than 2^61 xtors - stays a hypothesis of C07)
     reach_guard_a64   28 + cg_fine_defs 14 74 < 262143 instructions (two-weight size bound, Proof/SizeA64Fine.v): every
                       B.cond / ADR target within +-1 MiB (a real limit of the back end), and the code fits the image
   `calls_guard` follows from the linear discipline (Proof/X86WfCor.lin_check_calls_guard). *)
From Coq Require Import List ZArith NArith String Bool Lia.
From SCC Require Import Base.Sexp Lang.AxSyn Sem.AxSem Sem.AxHeap Model.Backend Model.A64 Sem.A64Sem Sem.A64Wf
     Model.Linearize Model.LinCheck Proof.LinearizeProof Proof.SimFrag Proof.A64SimAddr Proof.A64SimTop
     Proof.X86HAnn Proof.X86HAnnLin Proof.A64HSimTop Proof.A64HSimCor Proof.A64HSimExample Proof.A64HSimExampleW
     Sem.LabelGuard Sem.WfGuard Sem.WfGuard64 Proof.A64WfProg Proof.AxHeapExample Proof.Fun2CoreExamples.
From SCC Require Model.Heap Proof.AxHeapTyping Proof.X86HSimTop Proof.X86HSimExample Proof.X86WfCor.
Import ListNotations.
Local Open Scope list_scope.
Open Scope Z_scope.

Theorem a64_codegen_simulates_wf p lc cs n lc' args fuel o :
  lin_check_prog p = true -> ann_check_prog p = true -> AxHeapTyping.entry_ext p = true ->
  plain_names p = true -> plain_types p = true -> lits_i64 p = true -> tags_i64 p = true ->
  labels_guard p = true -> reach_guard_a64 p = true ->
  a64_compile p lc = Ok (cs, n, lc') ->
  List.length args = n -> args_i64 args = true -> heap_fits p args ->
  run_linear fuel p args = o -> snd o <> OOutOfFuel ->
  exists outer inner, fst (run_a64 outer inner cs args) = o.
Proof.
  intros LIN ANN EE PN PT LI TG LG RG XC.
  apply (a64_codegen_simulates p lc cs n lc' args fuel o LIN ANN EE PN PT LI TG XC).
  - exact (a64_compile_asm_wf p lc cs n lc' LG LIN PN PT RG XC).
  - exact (a64_compile_code_small_reach p lc cs n lc' LIN RG XC).
Qed.

Corollary a64_codegen_correct_linearized_wf a lc cs n lc' args fuel o :
  prog_ok a = true ->
  AxHeapTyping.entry_ext (linearize a) = true -> plain_names (linearize a) = true -> plain_types (linearize a) = true ->
  lits_i64 (linearize a) = true -> tags_i64 (linearize a) = true ->
  labels_guard (linearize a) = true -> reach_guard_a64 (linearize a) = true ->
  a64_compile (linearize a) lc = Ok (cs, n, lc') ->
  args_i64 args = true -> heap_fits (linearize a) args ->
  run_linear fuel (linearize a) args = o -> defined o = true ->
  exists outer inner, fst (run_a64 outer inner cs args) = o.
Proof.
  intros OK EE PN PT LI TG LG RG XC. pose proof (linearize_exact a OK) as LIN.
  apply (a64_codegen_correct_linearized a lc cs n lc' args fuel o OK EE PN PT LI TG XC).
  - exact (a64_compile_asm_wf _ lc cs n lc' LG LIN PN PT RG XC).
  - exact (a64_compile_code_small_reach _ lc cs n lc' LIN RG XC).
Qed.

(* the hypotheses are satisfiable: the two heap examples of C07 and the linearized stage outputs of the five example
   programs of C01 pass every guard *)
Lemma hx_lin_guards_a64 :
  labels_guard hx_lin = true /\ reach_guard_a64 hx_lin = true /\
  labels_guard hxw_lin = true /\ reach_guard_a64 hxw_lin = true.
Proof. vm_compute. repeat split; reflexivity. Qed.
Lemma wf_guard_a64_examples :
  wf_guard_a64 (X86WfCor.lin_of ex_calls) = true /\ wf_guard_a64 (X86WfCor.lin_of ex_shared) = true /\
  wf_guard_a64 (X86WfCor.lin_of ex_data) = true /\ wf_guard_a64 (X86WfCor.lin_of ex_labels) = true /\
  wf_guard_a64 (X86WfCor.lin_of ex_codata) = true /\ wf_guard_a64 hx_lin = true /\ wf_guard_a64 hxw_lin = true.
Proof. vm_compute. repeat split; reflexivity. Qed.

(* the theorem applied to the heap example (Proof/A64HSimExample.v), without evaluating asm_wf on the code *)
Lemma hxa_simulated_wf : exists outer inner, fst (run_a64 outer inner hxa_code [3; 100]) = run_linear 2000 hx_lin [3; 100].
Proof.
  destruct hxa_hypotheses as (H1 & H2 & H3 & H4 & H5 & HL & HT & (lc' & H6) & H7 & H8 & HA & H9).
  destruct hx_lin_guards_a64 as (G1 & G3 & _).
  eapply (a64_codegen_simulates_wf hx_lin 0 hxa_code 2 lc' [3; 100] 2000); eauto.
  - eapply fits_run_sound; eauto.
  - vm_compute. discriminate.
Qed.

(* ---------- regression: the table dispatch beyond 1023 xtors ----------
   A type with 1026 destructors, invoke of the last one (the stage-level form of the finding "tag dispatch immediate",
   docs/C14.md: `codata Big { d0, ..., d1099 }`, `def use(o: Big): i64 { o.d1099 }` was accepted by the front end and
   `ADD X7, X7, 4396` rejected by the assembler).  The code generator BEFORE the repair (old_a_add_and_jump) emits
   `ADD X5, X5, #4100` and fails asm_wf although the program satisfies every hypothesis of the theorem; the repaired one
   synthesises the offset in X3 and passes. *)
Definition old_a64_backend : backend acode atemp := {|
  b_label := b_label a64_backend; b_mark := b_mark a64_backend; b_jump := b_jump a64_backend;
  b_jump_label := b_jump_label a64_backend; b_jump_label_fixed := b_jump_label_fixed a64_backend;
  b_jcc2 := b_jcc2 a64_backend; b_jcc1 := b_jcc1 a64_backend;
  b_load_immediate := b_load_immediate a64_backend; b_load_label := b_load_label a64_backend;
  b_add_and_jump := old_a_add_and_jump;
  b_arith := b_arith a64_backend; b_mov := b_mov a64_backend; b_print := b_print a64_backend;
  b_erase := b_erase a64_backend; b_share_n := b_share_n a64_backend; b_store := b_store a64_backend; b_load := b_load a64_backend;
  b_contains_spill_edge := b_contains_spill_edge a64_backend;
  b_store_temporary := b_store_temporary a64_backend; b_restore_temporary := b_restore_temporary a64_backend;
  b_temp := b_temp a64_backend; b_return1 := b_return1 a64_backend; b_jump_length := b_jump_length a64_backend;
  b_temporary_from_position := b_temporary_from_position a64_backend; b_tcompare := b_tcompare a64_backend |}.
Definition old_a64_compile (p : prog) (lc : N) : Backend.res (list acode * nat * N) :=
  Backend.rbind (compile old_a64_backend p lc) (fun c => let '(is, n, lc') := c in
  Backend.rbind (into_aarch64_routine is n) (fun r => Backend.Ok (r, n, lc'))).
Definition many_xtors (n : nat) : list xtorsig := map (fun k => mkx ("d"%string, N.of_nat k) []) (seq 0 n).
Definition wide_type_prog (n : nat) : prog :=
  let big : ident := ("Big"%string, 0%N) in
  let o : ident := ("o"%string, 1%N) in
  mkp [mkd ("use"%string, 0%N) [mkb o Cns (Decl big)] (Invoke o ("d"%string, N.of_nat (n - 1)) (Decl big) [])]
      [mkt big (many_xtors n)] 1%N.
Lemma asm_wf_xtors_regression :
  let p := wide_type_prog 1026 in
  wf_guard_a64 p = true /\ old_imm_guard_a64 p = false /\
  (exists cs n lc', old_a64_compile p 0 = Backend.Ok (cs, n, lc') /\
     asm_wf cs = Some "operand not encodable in its instruction form"%string /\
     In (ADDI (X 5) (X 5) 4100) cs) /\
  (exists cs n lc', a64_compile p 0 = Backend.Ok (cs, n, lc') /\ asm_wf cs = None /\
     In (MOVZ (X 3) 4100 0) cs /\ In (ADD (X 5) (X 5) (X 3)) cs).
Proof.
  cbv zeta. split; [vm_compute; reflexivity|]. split; [vm_compute; reflexivity|]. split.
  - eexists _, _, _. split; [vm_compute; reflexivity|]. split; [vm_compute; reflexivity|].
    vm_compute. repeat (first [left; reflexivity|right]).
  - eexists _, _, _. split; [vm_compute; reflexivity|]. split; [vm_compute; reflexivity|].
    split; vm_compute; repeat (first [left; reflexivity|right]).
Qed.
