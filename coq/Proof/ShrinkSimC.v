(* Proof/ShrinkSimC.v (C04, fragment 2) - clause selection ([select_sim]: a constructor/destructor
   meeting a case/cocase on the Core machine is simulated by the AxCut clause selected by switch/invoke)
   and the cases of the simulation lemma built on it: switch, create. *)
From Coq Require Import List ZArith NArith String Bool Lia.
From SCC Require Import Base.Sexp Lang.SynUtil Lang.CoreSyn Lang.AxSyn Sem.AxSem Sem.FsCheck Model.Shrink
     Proof.ShrinkProof Proof.ShrinkSem Proof.ShrinkRn Proof.ShrinkRel Proof.ShrinkArgs Proof.ShrinkSimBase
     Proof.ShrinkSimA Proof.ShrinkSimB Proof.ShrinkSimData.
From SCC Require Sem.CoreSem.
Import ListNotations.
Open Scope list_scope.

Lemma bind_total : forall (xs : list ident) (vs : list value), List.length xs = List.length vs -> exists e, bind xs vs = Some e.
Proof.
  induction xs as [|x r IH]; intros [|v vr] H; try discriminate; [eexists; reflexivity|].
  simpl in H. destruct (IH vr) as [e He]; [lia|]. simpl. rewrite He. eexists; reflexivity.
Qed.
Lemma ids_vars : forall c, ids c = map idn (vars c).
Proof. intros. unfold ids, vars. now rewrite map_map. Qed.

(* inversion of an equation between Some's without substituting other variables *)
Ltac inv_keep H := injection H as <-.

Section CasesC.
Variable p : fsprog.
Variable q : prog.
Notation P := (CoreSem.fs2c_prog p).
Notation data := (fspdata p).
Notation codata := (fspcodata p).
Notation defs := (fspdefs p).
Notation m0 := (fspmax p).
Notation D := (data ++ [cont_int]).
Notation IHn := (IHn p q).
Hypothesis Hdisj : forall n, find_decl data n <> None -> find_decl codata n = None.

Lemma inv_push_list : forall ctx G rho th st, inv p G rho th st -> NoDup (cids ctx) ->
  (forall i, In i (cids ctx) -> ~ In i (cids G) /\ (i <= m0)%N) -> inv p (ctx ++ G) rho th st.
Proof.
  induction ctx as [|[x c t] ctx IH]; intros G rho th st Hinv Hnd Hids; [exact Hinv|].
  cbn [cids map cbvar] in Hnd. inversion Hnd as [|? ? Hni Hnd']; subst. cbn [app].
  apply inv_push.
  - apply IH; auto. intros i Hi. apply Hids. now right.
  - rewrite cids_app. intros Hin. apply in_app_or in Hin as [Hin|Hin]; [contradiction|].
    apply (proj1 (Hids (cid_id x) (or_introl eq_refl))). exact Hin.
  - apply Hids. now left.
Qed.

Lemma select_sim : forall j, FLn p q j ->
  forall k lbl side T d cls G rho th st cls' st' A e ae K sg vs avs,
  inv p G rho th st ->
  clauses_match side T cls (ctxtors d) = None -> check_bodies data codata defs G cls = None ->
  ub_clauses (cids G) cls = true -> ib_clauses m0 cls = true -> nc_clauses (cvars G) cls = true ->
  shrink_clauses (shrink_stmt k (mksenv D codata lbl)) (mksenv D codata lbl) (rn_clauses rho cls) st = SOk (cls', st') ->
  pfresh_cls A cls' = true -> lifted_in q st' ->
  erel p q j (fun x => occ_clauses x cls) (fun x => th (rho x)) A G e ae ->
  find_cxtor d K = Some sg -> vrels p q j (cxargs sg) vs avs ->
  exists cl e1, find_clause (arn_cls th cls') K = Some cl /\ bind (vars (cl_ctx cl)) avs = Some e1 /\
     beh p q j (CoreSem.select (fs2c_clauses cls) e K vs) (e1 ++ ae) (cl_body cl).
Proof.
  intros j FL k lbl side T d cls G rho th st cls' st' A e ae K sg vs avs Hinv Hcm Hcb Hub Hib Hnc Hsh Hpf Hlift He Hx Hv.
  destruct (clauses_match_find _ _ _ _ _ _ Hcm Hx) as (cl0 & Hf & Hn & Hps).
  assert (Hin : In cl0 cls) by (apply find_some in Hf; tauto).
  destruct (ib_clauses_in p _ _ Hib Hin) as [Hibc Hibb].
  destruct (ub_clauses_in _ _ _ Hub Hin) as [Hubc Hubb]. apply fresh_ids_spec in Hubc as [Hnd Hnotin].
  destruct (shrink_clauses_find p k (mksenv D codata lbl) rho cls st cls' st' K cl0 eq_refl Hsh) as (t1 & st1 & st1' & F1 & F2 & F3 & F4 & F5 & nd & F6); auto.
  { intros c Hc. apply (ib_clauses_in p _ _ Hib Hc). }
  { apply (inv_st _ _ _ _ _ Hinv). }
  destruct (pfresh_cls_in _ _ _ _ _ Hpf F2) as [Hfl Hpb]. apply fresh_list_spec in Hfl as [Hnd' Hdis'].
  destruct (vrels_length _ _ _ _ _ _ Hv) as [Hlv Hla]. pose proof (fparams_ok_length _ _ Hps) as Hlp.
  destruct (bind_total (vars (shrink_context codata (clause_ctx cl0))) avs) as [e1 Hb].
  { rewrite vars_shrink_context. unfold cvars. rewrite map_length. lia. }
  exists (clause_xtor cl0, shrink_context codata (clause_ctx cl0), arn th t1), e1.
  split; [rewrite find_clause_arn, F1; reflexivity|]. split; [exact Hb|].
  intros out r Hr Hg. unfold CoreSem.select in Hr. rewrite cfind_clause_fs2c, Hf in Hr. cbn [option_map] in Hr.
  destruct cl0 as [c0 x0 ctx0 b0]. cbn [CoreSem.fs2c_clause CoreSem.cl_ctx CoreSem.cl_body clause_ctx clause_body clause_xtor] in *.
  destruct (CoreSem.cbind (cvars ctx0) vs e) as [e'|] eqn:Ecb; [|exfalso; eapply cont_stuck; eauto].
  cbn [cont] in Hr. cbn [cl_body snd].
  assert (Hids : forall i, In i (cids ctx0) -> ~ In i (cids G) /\ (i <= m0)%N).
  { intros i Hi. split; [now apply Hnotin | eapply ctx_le_ids; eauto]. }
  assert (Hself : forall b, In b ctx0 -> th (rho (cbvar b)) = cbvar b).
  { intros b Hb0. assert (Hbi : In (cid_id (cbvar b)) (cids ctx0)) by (unfold cids; apply in_map_iff; eauto).
    destruct (Hids _ Hbi). eapply inv_self; eauto. }
  assert (He' : erel p q j (fun y => occurs y b0) (fun y => th (rho y))
                  (rev_append (map idn (vars (shrink_context codata ctx0))) A) (ctx0 ++ G) e' (e1 ++ ae)).
  { eapply erel_push_list with (pi := fun y => th (rho y)) (vs := vs) (avs := avs).
    - exact He.
    - intros b Hb0 Hn0. split; [|reflexivity]. exists (FsClause c0 x0 ctx0 b0). split; [exact Hin | exact Hn0].
    - rewrite <- ids_vars. exact Hnd'.
    - rewrite <- ids_vars. exact Hdis'.
    - rewrite vars_shrink_context. unfold cvars. rewrite map_map. apply map_ext_in. intros b Hb0. now rewrite Hself.
    - eapply vrels_sig; eauto.
    - exact Ecb.
    - exact Hb. }
  rewrite <- ids_vars in He'.
  eapply (FL b0 k lbl (ctx0 ++ G) rho th st1 t1 st1'); eauto.
  - apply inv_push_list; auto. eapply inv_st_mono; eauto.
  - apply (check_bodies_in p _ _ (FsClause c0 x0 ctx0 b0) Hcb Hin).
  - rewrite <- ub_cids_app. exact Hubb.
  - unfold cvars. rewrite map_app. apply (nc_clauses_in _ _ (FsClause c0 x0 ctx0 b0) Hnc Hin).
  - eapply lifted_in_mono; eauto.
Qed.

Ltac occx := cbn [occurs]; right; apply occ_term_xcase; assumption.

(* <x | case {..}>  =  switch x {..} *)
Lemma fl_switch_case : forall n, IHn n -> forall c1 x t1 ty c2 cls t2,
  FLs p q n (FsCut (FsXVar c1 x t1) ty (FsXCase c2 cls t2)).
Proof.
  intros n IH c1 x t1 ty c2 cls t2. start. cbn [rn_stmt] in Hsh. rewrite rn_term_xcase in Hsh.
  cbn [rn_term shrink_step shrink_cut] in Hsh. unfold shrink_identifier in Hsh.
  destruct (shrink_clauses _ _ (rn_clauses rho cls) st) as [[cls' st1]|] eqn:E1; [|discriminate Hsh]. cbn [sbind] in Hsh. invsh Hsh.
  rewrite check_stmt_cut_eq in Hck. apply seq_none in Hck as [Hty Hck]. apply seq_none in Hck as [Hcp Hck].
  cbn [check_term] in Hcp. apply seq_none in Hcp as [_ Hcp]. apply seq_none in Hcp as [_ Hcx].
  destruct (xcase_typing p _ _ _ _ _ _ Hck) as (T & d & -> & Hd & Hcm & Hcb).
  rewrite ib_stmt_cut, ib_term_xcase in Hib. apply andb_prop in Hib as [_ Hib].
  cbn [ub_stmt] in Hub. rewrite ub_term_xcase in Hub. cbn [ub_term andb] in Hub.
  rewrite pfresh_switch in Hpf.
  cbn [CoreSem.fs2c_stmt] in Hrun. rewrite fs2c_term_xcase in Hrun. cbn [CoreSem.fs2c_term] in Hrun.
  core_step Hrun Hg n. cbn [CoreSem.khead CoreSem.cut_with_k] in Hrun.
  destruct (CoreSem.clookup e x) as [cv|] eqn:Hl; [|exfalso; eapply cont_stuck; eauto].
  destruct (erel_var p q _ _ _ _ _ _ _ _ _ _ _ He (inv_nd _ _ _ _ _ Hinv) Hcx ltac:(occ) Hl) as (HinA & av & Hla & Hv).
  destruct (vrel_prd_data_inv _ _ _ _ _ _ Hv (data_not_codata p Hdisj _ _ Hd)) as (d0 & K & sg & vs & avs & tn & -> & -> & Hd0 & Hx & Hvs).
  rewrite Hd in Hd0. inv_keep Hd0.
  cbn [CoreSem.interact_val] in Hrun.
  destruct (select_sim n (IH n ltac:(lia)) k lbl CCns T d cls G rho th st cls' st' A e ae K sg vs avs) as (cl & e1 & Hf & Hb & Hbeh); auto.
  { eapply nc_cut_case_r; eauto. }
  { eapply erel_weaken; [exact He | lia | intros y Hy; occx | apply incl_refl]. }
  { eapply vrels_le; [|exact Hvs]. lia. }
  destruct (Hbeh _ _ Hrun Hg) as [m Hm].
  exists (S m). rewrite arn_switch. cbn [exec_named]. unfold lookup_id. rewrite Hla, Hf, Hb. exact Hm.
Qed.

(* <cocase {..} | a>  =  switch a {..} *)
Lemma fl_switch_cocase : forall n, IHn n -> forall c1 cls t1 ty c2 b t2,
  FLs p q n (FsCut (FsXCase c1 cls t1) ty (FsXVar c2 b t2)).
Proof.
  intros n IH c1 cls t1 ty c2 b t2. start. cbn [rn_stmt] in Hsh. rewrite rn_term_xcase in Hsh.
  cbn [rn_term shrink_step shrink_cut] in Hsh. unfold shrink_identifier in Hsh.
  destruct (shrink_clauses _ _ (rn_clauses rho cls) st) as [[cls' st1]|] eqn:E1; [|discriminate Hsh]. cbn [sbind] in Hsh. invsh Hsh.
  rewrite check_stmt_cut_eq in Hck. apply seq_none in Hck as [Hty Hck]. apply seq_none in Hck as [Hcp Hck].
  cbn [check_term] in Hck. apply seq_none in Hck as [_ Hck]. apply seq_none in Hck as [_ Hcx].
  destruct (xcase_typing p _ _ _ _ _ _ Hcp) as (T & d & -> & Hd & Hcm & Hcb).
  rewrite ib_stmt_cut, ib_term_xcase in Hib. apply andb_prop in Hib as [Hib _].
  cbn [ub_stmt] in Hub. rewrite ub_term_xcase in Hub. cbn [ub_term] in Hub. rewrite andb_true_r in Hub.
  rewrite pfresh_switch in Hpf.
  cbn [CoreSem.fs2c_stmt] in Hrun. rewrite fs2c_term_xcase in Hrun. cbn [CoreSem.fs2c_term] in Hrun.
  core_step Hrun Hg n. cbn [CoreSem.khead] in Hrun.
  destruct (CoreSem.clookup e b) as [cv|] eqn:Hl; [|exfalso; eapply cont_stuck; eauto].
  destruct (erel_var p q _ _ _ _ _ _ _ _ _ _ _ He (inv_nd _ _ _ _ _ Hinv) Hcx ltac:(occ) Hl) as (HinA & av & Hla & Hv).
  destruct (vrel_cns_codata_inv _ _ _ _ _ _ Hv (codata_is_codata p _ _ Hd)) as (d0 & K & sg & vs & avs & tn & -> & -> & Hd0 & Hx & Hvs).
  rewrite Hd in Hd0. inv_keep Hd0.
  cbn [CoreSem.cut_with_k CoreSem.interact_val] in Hrun.
  destruct (select_sim n (IH n ltac:(lia)) k lbl CPrd T d cls G rho th st cls' st' A e ae K sg vs avs) as (cl & e1 & Hf & Hb & Hbeh); auto.
  { eapply nc_cut_case_l; eauto. }
  { eapply erel_weaken; [exact He | lia | intros y Hy; cbn [occurs]; left; apply occ_term_xcase; assumption | apply incl_refl]. }
  { eapply vrels_le; [|exact Hvs]. lia. }
  destruct (Hbeh _ _ Hrun Hg) as [m Hm].
  exists (S m). rewrite arn_switch. cbn [exec_named]. unfold lookup_id. rewrite Hla, Hf, Hb. exact Hm.
Qed.

(* <mu a.s | case {..}>  =  create a = {..}; s *)
Lemma fl_create_case : forall n, IHn n -> forall c1 a s' t1 ty c2 cls t2,
  FLs p q n (FsCut (FsMu c1 a s' t1) ty (FsXCase c2 cls t2)).
Proof.
  intros n IH c1 a s' t1 ty c2 cls t2. start. cbn [rn_stmt] in Hsh. rewrite rn_term_xcase in Hsh.
  cbn [rn_term shrink_step shrink_cut] in Hsh. unfold shrink_identifier in Hsh.
  destruct (shrink_clauses _ _ (rn_clauses rho cls) st) as [[cls' st1]|] eqn:E1; [|discriminate Hsh]. cbn [sbind] in Hsh.
  destruct (shrink_stmt k _ (rn_stmt rho s') st1) as [[next st2]|] eqn:E2; [|discriminate Hsh]. cbn [sbind] in Hsh. invsh Hsh.
  rewrite check_stmt_cut_eq in Hck. apply seq_none in Hck as [Hty Hck]. apply seq_none in Hck as [Hcp Hck].
  rewrite check_term_mu_eq in Hcp. apply seq_none in Hcp as [_ Hcp]. apply seq_none in Hcp as [_ Hcs]. cbn [opp] in Hcs.
  destruct (xcase_typing p _ _ _ _ _ _ Hck) as (T & d & -> & Hd & Hcm & Hcb).
  rewrite ib_stmt_cut, ib_term_xcase, ib_term_mu in Hib. apply andb_prop in Hib as [Hib1 Hibc].
  apply andb_prop in Hib1 as [Hia Hibs]. apply id_le_le in Hia.
  cbn [ub_stmt] in Hub. rewrite ub_term_xcase in Hub. cbn [ub_term] in Hub. apply andb_prop in Hub as [Hub1 Hubc].
  apply andb_prop in Hub1 as [Hua Hubs]. apply negb_mem_notin in Hua.
  rewrite pfresh_create in Hpf. apply andb_prop in Hpf as [Hpf Hpn]. apply andb_prop in Hpf as [Hpc Hpa]. apply negb_memN_notin in Hpa.
  destruct (shrink_clauses_mono p _ _ _ _ _ _ _ E1 (fun c Hc => proj2 (ib_clauses_in p _ _ Hibc Hc)) (inv_st _ _ _ _ _ Hinv)) as [Hm1 (nd1 & Hl1)].
  assert (Hinv1 : inv p G rho th st1) by (eapply inv_st_mono; eauto).
  destruct (shrink_mono p _ _ _ _ _ _ _ Hibs (inv_st _ _ _ _ _ Hinv1) E2) as [Hm2 (nd2 & Hl2)].
  assert (Hlift1 : lifted_in q st1) by (eapply lifted_in_mono; eauto).
  cbn [CoreSem.fs2c_stmt] in Hrun. rewrite fs2c_term_xcase in Hrun. cbn [CoreSem.fs2c_term] in Hrun.
  core_step Hrun Hg n. cbn [CoreSem.khead CoreSem.cut_with_k] in Hrun.
  set (kv := CoreSem.KCase (fs2c_clauses cls) e) in *.
  assert (Hrun' : CoreSem.crun n P (CoreSem.Run (CoreSem.fs2c_stmt s') ((a, BK kv) :: e)) out = r).
  { destruct (CoreSem.is_codata P (CDecl T)); exact Hrun. }
  clear Hrun.
  assert (Hco : is_codata codata (CDecl T) = false) by (eapply data_not_codata; eauto).
  assert (Hclo : vrel p q n CCns (CDecl T) (BK kv) (VClo T (arn_cls th cls') ae)).
  { apply VR_clo. apply cloR_intro; [exact Hco|]. intros j Hj tag fs sr (_ & d1 & sg & args & Hd1 & Hx & Hvs & ->).
    rewrite Hd in Hd1. inv_keep Hd1. unfold kv. cbn [CoreSem.interact_val]. apply relsV_vrelsF in Hvs.
    eapply (select_sim j (IH j ltac:(lia)) k lbl CCns T d cls G rho th st cls' st1 A e ae tag sg args fs); eauto.
    - eapply nc_cut_case_r; eauto.
    - eapply erel_weaken; [exact He | lia | intros y Hy; occx | apply incl_refl]. }
  assert (He' : erel p q n (fun y => occurs y s') (fun y => th (rho y)) (idn a :: A) (mkcb a CCns (CDecl T) :: G)
                  ((a, BK kv) :: e) ((a, VClo T (arn_cls th cls') ae) :: ae)).
  { eapply erel_push with (pi := fun y => th (rho y)) (need := fun y => occurs y (FsCut (FsMu c1 a s' t1) (CDecl T) (FsXCase c2 cls t2))).
    - eapply erel_weaken; [exact He | lia | auto | apply incl_refl].
    - exact Hpa.
    - intros b0 _ Hb. split; [occ | reflexivity].
    - rewrite (inv_self p _ _ _ _ _ Hinv Hua Hia). reflexivity.
    - exact Hclo. }
  destruct (IH n ltac:(lia) s' k lbl _ rho th st1 next st' _ _ _ (inv_push p _ _ _ _ _ CCns (CDecl T) Hinv1 Hua Hia) Hcs Hubs Hibs (nc_cut_mu_l _ _ _ _ _ _ _ Hnc) E2 Hpn Hlift He' _ _ Hrun' Hg) as [m Hm].
  exists (S m). rewrite arn_create. cbn [exec_named shrink_ty ty_name shrink_identifier]. exact Hm.
Qed.

(* <cocase {..} | mu~ x.s>  =  create x = {..}; s *)
Lemma fl_create_cocase : forall n, IHn n -> forall c1 cls t1 ty c2 x s' t2,
  FLs p q n (FsCut (FsXCase c1 cls t1) ty (FsMu c2 x s' t2)).
Proof.
  intros n IH c1 cls t1 ty c2 x s' t2. start. cbn [rn_stmt] in Hsh. rewrite rn_term_xcase in Hsh.
  cbn [rn_term shrink_step shrink_cut] in Hsh. unfold shrink_identifier in Hsh.
  destruct (shrink_clauses _ _ (rn_clauses rho cls) st) as [[cls' st1]|] eqn:E1; [|discriminate Hsh]. cbn [sbind] in Hsh.
  destruct (shrink_stmt k _ (rn_stmt rho s') st1) as [[next st2]|] eqn:E2; [|discriminate Hsh]. cbn [sbind] in Hsh. invsh Hsh.
  rewrite check_stmt_cut_eq in Hck. apply seq_none in Hck as [Hty Hck]. apply seq_none in Hck as [Hcp Hck].
  rewrite check_term_mu_eq in Hck. apply seq_none in Hck as [_ Hck]. apply seq_none in Hck as [_ Hcs]. cbn [opp] in Hcs.
  destruct (xcase_typing p _ _ _ _ _ _ Hcp) as (T & d & -> & Hd & Hcm & Hcb).
  rewrite ib_stmt_cut, ib_term_xcase, ib_term_mu in Hib. apply andb_prop in Hib as [Hibc Hib1].
  apply andb_prop in Hib1 as [Hix Hibs]. apply id_le_le in Hix.
  cbn [ub_stmt] in Hub. rewrite ub_term_xcase in Hub. cbn [ub_term] in Hub. apply andb_prop in Hub as [Hubc Hub1].
  apply andb_prop in Hub1 as [Hux Hubs]. apply negb_mem_notin in Hux.
  rewrite pfresh_create in Hpf. apply andb_prop in Hpf as [Hpf Hpn]. apply andb_prop in Hpf as [Hpc Hpx]. apply negb_memN_notin in Hpx.
  destruct (shrink_clauses_mono p _ _ _ _ _ _ _ E1 (fun c Hc => proj2 (ib_clauses_in p _ _ Hibc Hc)) (inv_st _ _ _ _ _ Hinv)) as [Hm1 (nd1 & Hl1)].
  assert (Hinv1 : inv p G rho th st1) by (eapply inv_st_mono; eauto).
  destruct (shrink_mono p _ _ _ _ _ _ _ Hibs (inv_st _ _ _ _ _ Hinv1) E2) as [Hm2 (nd2 & Hl2)].
  assert (Hlift1 : lifted_in q st1) by (eapply lifted_in_mono; eauto).
  cbn [CoreSem.fs2c_stmt] in Hrun. rewrite fs2c_term_xcase in Hrun. cbn [CoreSem.fs2c_term] in Hrun.
  core_step Hrun Hg n. cbn [CoreSem.khead CoreSem.cut_with_k CoreSem.interact_val cont] in Hrun.
  set (pv := CoreSem.PCocase (fs2c_clauses cls) e) in *.
  assert (Hco : is_codata codata (CDecl T) = true) by (eapply codata_is_codata; eauto).
  assert (Hclo : vrel p q n CPrd (CDecl T) (BP pv) (VClo T (arn_cls th cls') ae)).
  { apply VR_clo. apply cloR_intro; [exact Hco|]. intros j Hj tag fs sr (_ & d1 & sg & args & Hd1 & Hx & Hvs & ->).
    rewrite Hd in Hd1. inv_keep Hd1. unfold pv. cbn [CoreSem.interact_val]. apply relsV_vrelsF in Hvs.
    eapply (select_sim j (IH j ltac:(lia)) k lbl CPrd T d cls G rho th st cls' st1 A e ae tag sg args fs); eauto.
    - eapply nc_cut_case_l; eauto.
    - eapply erel_weaken; [exact He | lia | intros y Hy; cbn [occurs]; left; apply occ_term_xcase; assumption | apply incl_refl]. }
  assert (He' : erel p q n (fun y => occurs y s') (fun y => th (rho y)) (idn x :: A) (mkcb x CPrd (CDecl T) :: G)
                  ((x, BP pv) :: e) ((x, VClo T (arn_cls th cls') ae) :: ae)).
  { eapply erel_push with (pi := fun y => th (rho y)) (need := fun y => occurs y (FsCut (FsXCase c1 cls t1) (CDecl T) (FsMu c2 x s' t2))).
    - eapply erel_weaken; [exact He | lia | auto | apply incl_refl].
    - exact Hpx.
    - intros b0 _ Hb. split; [occ | reflexivity].
    - rewrite (inv_self p _ _ _ _ _ Hinv Hux Hix). reflexivity.
    - exact Hclo. }
  destruct (IH n ltac:(lia) s' k lbl _ rho th st1 next st' _ _ _ (inv_push p _ _ _ _ _ CPrd (CDecl T) Hinv1 Hux Hix) Hcs Hubs Hibs (nc_cut_mu_r _ _ _ _ _ _ _ Hnc) E2 Hpn Hlift He' _ _ Hrun Hg) as [m Hm].
  exists (S m). rewrite arn_create. cbn [exec_named shrink_ty ty_name shrink_identifier]. exact Hm.
Qed.
End CasesC.
