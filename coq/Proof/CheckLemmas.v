(* Lemmas about the boolean checkers of Model/FocusCheck.v: monotonicity of the id bound and of
   the scope environment, the binder specification [bspec] and its composition rules, and the
   implications "globally distinct binders => distinct along every path", "scoped => free names
   are no binders". *)
From Coq Require Import List ZArith NArith String Bool Lia.
From SCC Require Import Base.Sexp Lang.CoreSyn Model.Backend Model.Uniquify Model.FocusCheck
     Proof.CoreInd Proof.SubstProof.
Import ListNotations.
Open Scope list_scope.
Open Scope N_scope.

(* ---------- mem_le ---------- *)
Lemma mem_le_app : forall b l1 l2, mem_le b (l1 ++ l2) <-> mem_le b l1 /\ mem_le b l2.
Proof.
  unfold mem_le; intros; split.
  - intros H; split; intros i Hi; apply H; apply in_or_app; auto.
  - intros [H1 H2] i Hi; apply in_app_or in Hi; destruct Hi; auto.
Qed.
Lemma mem_le_mono : forall b b' l, mem_le b l -> b <= b' -> mem_le b' l.
Proof. unfold mem_le; intros b b' l H L i Hi. specialize (H i Hi). lia. Qed.
Lemma mem_le_nil : forall b, mem_le b [].
Proof. intros b i []. Qed.
Lemma mem_le_cons : forall b x l, mem_le b (x :: l) <-> x <= b /\ mem_le b l.
Proof.
  unfold mem_le; intros; split.
  - intros H; split; [apply H; left; auto | intros i Hi; apply H; right; auto].
  - intros [H1 H2] i [E|Hi]; subst; auto.
Qed.

(* ---------- ids_le is monotone in the bound ---------- *)
Lemma forallb_impl : forall (X : Type) (f g : X -> bool) l,
  (forall x, In x l -> f x = true -> g x = true) -> forallb f l = true -> forallb g l = true.
Proof.
  intros X f g l H F. rewrite forallb_forall in *. intros x Hx; auto.
Qed.

Lemma ids_le_mono_all : forall b b', b <= b' ->
  (forall t, ids_le_term b t = true -> ids_le_term b' t = true) /\
  (forall a, ids_le_arg b a = true -> ids_le_arg b' a = true) /\
  (forall c, ids_le_clause b c = true -> ids_le_clause b' c = true) /\
  (forall s, ids_le_stmt b s = true -> ids_le_stmt b' s = true).
Proof.
  intros b b' L. apply core_mutind; simpl; intros; bsplit; auto.
  - apply N.leb_le in H. apply N.leb_le. lia.
  - apply N.leb_le in H0. apply N.leb_le. lia.
  - eapply forallb_impl; [|eassumption]. rewrite Forall_forall in H. auto.
  - eapply forallb_impl; [|eassumption]. rewrite Forall_forall in H. auto.
  - eapply forallb_impl; [|eassumption]. intros i _ Hi. apply N.leb_le in Hi. apply N.leb_le. lia.
  - destruct b0; simpl in *; auto.
  - eapply forallb_impl; [|eassumption]. rewrite Forall_forall in H. auto.
Qed.
Definition ids_le_term_mono b b' (L : b <= b') := proj1 (ids_le_mono_all b b' L).
Definition ids_le_arg_mono b b' (L : b <= b') := proj1 (proj2 (ids_le_mono_all b b' L)).
Definition ids_le_clause_mono b b' (L : b <= b') := proj1 (proj2 (proj2 (ids_le_mono_all b b' L))).
Definition ids_le_stmt_mono b b' (L : b <= b') := proj2 (proj2 (proj2 (ids_le_mono_all b b' L))).

(* ---------- scoped is monotone in the environment (ids 0 do not count) ---------- *)
Definition sub_nz (env env' : list N) : Prop := forall i, i <> 0 -> In i env -> In i env'.
Lemma sub_nz_refl : forall e, sub_nz e e.
Proof. intros e i _ H; auto. Qed.
Lemma sub_nz_trans : forall a b c, sub_nz a b -> sub_nz b c -> sub_nz a c.
Proof. unfold sub_nz; intros; auto. Qed.
Lemma sub_nz_cons : forall x e e', sub_nz e e' -> sub_nz (x :: e) (x :: e').
Proof. intros x e e' H i Ni [E|Hi]; [left; auto | right; auto]. Qed.
Lemma sub_nz_app : forall l e e', sub_nz e e' -> sub_nz (l ++ e) (l ++ e').
Proof. intros l e e' H i Ni Hi. apply in_app_or in Hi. apply in_or_app. destruct Hi; auto. Qed.
Lemma sub_nz_app2 : forall l l' e e', sub_nz l l' -> sub_nz e e' -> sub_nz (l ++ e) (l' ++ e').
Proof. intros l l' e e' H1 H2 i Ni Hi. apply in_app_or in Hi. apply in_or_app. destruct Hi; auto. Qed.
Lemma sub_nz_drop0 : forall e, sub_nz (0 :: e) e.
Proof. intros e i Ni [E|Hi]; [congruence | auto]. Qed.
Lemma sub_nz_skip : forall x e e', sub_nz e e' -> sub_nz e (x :: e').
Proof. intros x e e' H i Ni Hi. right; auto. Qed.
Lemma sub_nz_incl : forall e e', incl e e' -> sub_nz e e'.
Proof. intros e e' H i _ Hi; auto. Qed.

Lemma scoped_mono_all :
  (forall t env env', sub_nz env env' -> scoped_term env t = true -> scoped_term env' t = true) /\
  (forall a env env', sub_nz env env' -> scoped_arg env a = true -> scoped_arg env' a = true) /\
  (forall c env env', sub_nz env env' -> scoped_clause env c = true -> scoped_clause env' c = true) /\
  (forall s env env', sub_nz env env' -> scoped_stmt env s = true -> scoped_stmt env' s = true).
Proof.
  apply core_mutind; simpl; intros; bsplit; eauto.
  - destruct (N.eqb (cid_id v) 0) eqn:Z; simpl in *; auto.
    apply N.eqb_neq in Z. apply memN_In. apply memN_In in H0. auto.
  - eapply H; [|eassumption]. apply sub_nz_cons; auto.
  - eapply forallb_impl; [|eassumption]. rewrite Forall_forall in H. eauto.
  - eapply forallb_impl; [|eassumption]. rewrite Forall_forall in H. eauto.
  - eapply H; [|eassumption]. apply sub_nz_app; auto.
  - destruct b; simpl in *; eauto.
  - eapply forallb_impl; [|eassumption]. rewrite Forall_forall in H. eauto.
Qed.
Definition scoped_term_mono := proj1 scoped_mono_all.
Definition scoped_arg_mono := proj1 (proj2 scoped_mono_all).
Definition scoped_clause_mono := proj1 (proj2 (proj2 scoped_mono_all)).
Definition scoped_stmt_mono := proj2 (proj2 (proj2 scoped_mono_all)).

(* ---------- the binder specification ----------
   [bspec R m m' L]: the binder ids L of an output are pairwise distinct and each is either
   inherited (in R) or fresh, i.e. in the half-open counter interval (m, m']. *)
Definition bspec (R : list N) (m m' : N) (L : list N) : Prop :=
  NoDup L /\ forall b, In b L -> In b R \/ (m < b <= m').

Lemma not_in_app : forall (X : Type) (x : X) l1 l2, ~ In x (l1 ++ l2) -> ~ In x l1 /\ ~ In x l2.
Proof. intros X x l1 l2 H; split; intro; apply H; apply in_or_app; auto. Qed.
Lemma not_in_cons' : forall (X : Type) (x y : X) l, ~ In x (y :: l) -> x <> y /\ ~ In x l.
Proof. intros X x y l H; split; intro; apply H; simpl; auto. Qed.

Ltac pose_new H :=
  let T := type of H in
  lazymatch goal with
  | _ : T |- _ => fail
  | _ => pose proof H
  end.

(* normalise list membership / NoDup / mem_le over ++ and :: *)
Ltac lnorm :=
  repeat match goal with
         | H : bspec _ _ _ _ |- _ => destruct H
         | H : NoDup (_ ++ _) |- _ => apply NoDup_app_iff in H; destruct H as (? & ? & ?)
         | H : NoDup (_ :: _) |- _ => apply NoDup_cons_iff in H; destruct H
         | H : mem_le _ (_ ++ _) |- _ => apply mem_le_app in H; destruct H
         | H : mem_le _ (_ :: _) |- _ => apply mem_le_cons in H; destruct H
         | H : ~ In _ (_ ++ _) |- _ => apply not_in_app in H
         | H : ~ In _ (_ :: _) |- _ => apply not_in_cons' in H
         | H : In _ (_ ++ _) |- _ => apply in_app_or in H
         | H : In _ (_ :: _) |- _ => simpl in H
         | H : In _ [] |- _ => destruct H
         | H : _ \/ _ |- _ => destruct H
         | H : _ /\ _ |- _ => destruct H
         end.

(* saturate: instantiate the inclusion and bound facts at the known memberships *)
Ltac lsat :=
  repeat match goal with
         | H : In ?x ?L, HI : forall b, In b ?L -> _ |- _ => pose_new (HI x H)
         | H : In ?x ?L, HM : mem_le _ ?L |- _ => pose_new (HM x H)
         end.

Ltac lfin :=
  subst;
  try lia;
  try solve [exfalso; eauto with datatypes];
  try solve [left; simpl; repeat (rewrite in_app_iff); simpl; tauto];
  try solve [right; lia];
  try solve [simpl; repeat (rewrite in_app_iff); simpl; tauto].

Ltac lsolve := lnorm; lsat; lnorm; lsat; lnorm; lfin.

Ltac bspec_tac :=
  lnorm; split;
  [ repeat (rewrite NoDup_app_iff || rewrite NoDup_cons_iff || rewrite in_app_iff); simpl;
    repeat match goal with |- _ /\ _ => split | |- ~ _ => intro | |- NoDup [] => constructor end;
    auto; intros; lsolve
  | intros; lsolve ].

Lemma bspec_nil : forall R m, bspec R m m [].
Proof. intros; split; [constructor | intros b []]. Qed.

Lemma bspec_app : forall T R1 R2 m m1 m2 L1 L2,
  bspec R1 m m1 L1 -> bspec R2 m1 m2 L2 -> m <= m1 -> m1 <= m2 ->
  NoDup (R1 ++ R2) -> mem_le T (R1 ++ R2) -> T <= m ->
  bspec (R1 ++ R2) m m2 (L1 ++ L2).
Proof. intros. bspec_tac. Qed.

Lemma bspec_weaken : forall R R' m m' L, bspec R m m' L -> incl R R' -> bspec R' m m' L.
Proof.
  intros R R' m m' L [A B] I; split; auto. intros b Hb. destruct (B b Hb); auto.
Qed.
Lemma bspec_widen : forall R m0 m m' m1 L, bspec R m m' L -> m0 <= m -> m' <= m1 -> bspec R m0 m1 L.
Proof.
  intros R m0 m m' m1 L [A B] L1 L2; split; auto. intros b Hb. destruct (B b Hb); auto. right; lia.
Qed.

Lemma bspec_cons_fresh : forall T R m m' L,
  bspec R (m + 1) m' L -> mem_le T R -> T <= m -> m + 1 <= m' -> bspec R m m' ((m + 1) :: L).
Proof. intros. bspec_tac. Qed.

Lemma bspec_cons_keep : forall T R v m m' L,
  bspec R m m' L -> NoDup (v :: R) -> mem_le T (v :: R) -> T <= m -> bspec (v :: R) m m' (v :: L).
Proof. intros. bspec_tac. Qed.

(* NoDup / mem_le side conditions of sub-lists *)
Ltac ndsolve :=
  repeat match goal with
         | H : NoDup (_ ++ _) |- _ => apply NoDup_app_iff in H; destruct H as (? & ? & ?)
         | H : NoDup (_ :: _) |- _ => apply NoDup_cons_iff in H; destruct H
         | H : mem_le _ (_ ++ _) |- _ => apply mem_le_app in H; destruct H
         | H : mem_le _ (_ :: _) |- _ => apply mem_le_cons in H; destruct H
         | |- NoDup (_ ++ _) => apply NoDup_app_iff; split; [|split]
         | |- NoDup (_ :: _) => apply NoDup_cons_iff; split
         | |- NoDup [] => constructor
         | |- mem_le _ (_ ++ _) => apply mem_le_app; split
         | |- mem_le _ (_ :: _) => apply mem_le_cons; split
         | |- mem_le _ [] => apply mem_le_nil
         end; auto; try lia;
  try (intros;
       repeat match goal with
              | |- ~ _ => intro
              | H : In _ (_ ++ _) |- _ => apply in_app_or in H; destruct H
              | H : In _ (_ :: _) |- _ => destruct H; [subst|]
              | H : In _ [] |- _ => destruct H
              end; solve [eauto 6 with datatypes | exfalso; eauto 6 with datatypes]).
