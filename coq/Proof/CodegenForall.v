(* A generic "every piece of emitted code comes from a back-end method" theorem for
   Backend.code_statement / translate / compile: if a predicate Q on instruction lists contains [],
   is closed under ++, and holds of the output of every back-end method whenever the temporaries
   handed to it satisfy T (T holds of everything temporary_from_position hands out, of b_temp and
   of b_return1), then Q holds of the code of every statement and of every program.
   Used for C13 on AArch64 (Q = SP is only moved inside the print bracket, 16-byte aligned at every
   SP-relative access, and back at its body value at every label and branch). *)
From Coq Require Import List ZArith NArith String Bool Lia.
From SCC Require Import Base.Sexp Lang.AxSyn Model.ParMoves Model.Backend Proof.LinBasics Proof.SubstGraph.
From SCC Require Proof.A64PM.
Import ListNotations.
Open Scope list_scope.

Section Forall.
Context {Code Temp : Type} (B : backend Code Temp).
Hypothesis Heq : forall a b, b_tcompare B a b = Datatypes.Eq <-> a = b.
Variable T : Temp -> Prop.
Variable Q : list Code -> Prop.
Hypothesis Qnil : Q [].
Hypothesis Qapp : forall a b, Q a -> Q b -> Q (a ++ b).
Hypothesis Ttfp : forall p t, b_temporary_from_position B p = Ok t -> T t.
Hypothesis Ttemp : T (b_temp B).
Hypothesis Tret : T (b_return1 B).
Hypothesis m_label : forall l, Q [b_label B l].
Hypothesis m_mark : forall c, Q (b_mark B c).
Hypothesis m_jump : forall t, T t -> Q (b_jump B t).
Hypothesis m_jump_label : forall l, Q (b_jump_label B l).
Hypothesis m_jump_label_fixed : forall l, Q (b_jump_label_fixed B l).
Hypothesis m_jcc2 : forall s a b l, T a -> T b -> Q (b_jcc2 B s a b l).
Hypothesis m_jcc1 : forall s a l, T a -> Q (b_jcc1 B s a l).
Hypothesis m_load_immediate : forall t i, T t -> Q (b_load_immediate B t i).
Hypothesis m_load_label : forall t l, T t -> Q (b_load_label B t l).
Hypothesis m_add_and_jump : forall t i, T t -> Q (b_add_and_jump B t i).
Hypothesis m_arith : forall o t a b, T t -> T a -> T b -> Q (b_arith B o t a b).
Hypothesis m_mov : forall t s, T t -> T s -> Q (b_mov B t s).
Hypothesis m_print : forall nl t c, T t -> Q (b_print B nl t c).
Hypothesis m_erase : forall t lc, T t -> Q (fst (b_erase B t lc)).
Hypothesis m_share : forall t n lc, T t -> Q (fst (b_share_n B t n lc)).
Hypothesis m_store : forall a r lc c lc', b_store B a r lc = Ok (c, lc') -> Q c.
Hypothesis m_load : forall a r lc c lc', b_load B a r lc = Ok (c, lc') -> Q c.
Hypothesis m_store_temporary : forall t f, T t -> Q (b_store_temporary B t f).
Hypothesis m_restore_temporary : forall t f, T t -> Q (b_restore_temporary B t f).

Ltac ub H :=
  match type of H with
  | rbind ?e _ = Ok _ => let x := fresh "x" in let E := fresh "E" in destruct e as [x|?] eqn:E; [cbn [rbind] in H|discriminate H]
  end.

Ltac ubp H :=
  match type of H with
  | rbind ?e _ = Ok _ => let E := fresh "E" in destruct e as [[? ?]|?] eqn:E; [cbn [rbind] in H|discriminate H]
  end.

Lemma Q_flat_map {X} (f : X -> list Code) l : (forall x, In x l -> Q (f x)) -> Q (flat_map f l).
Proof. induction l as [|x l IH]; intros H; cbn [flat_map]; [exact Qnil|]. apply Qapp; [apply H; left; reflexivity|apply IH; intros; apply H; right; assumption]. Qed.

Lemma Qcons x l : Q [x] -> Q l -> Q (x :: l).
Proof. intros A C. apply (Qapp [x] l A C). Qed.

Lemma vt_T n c id t : variable_temporary B n c id = Ok t -> T t.
Proof. unfold variable_temporary. destruct (position_of c id 0); [apply Ttfp|discriminate]. Qed.
Lemma rmap_T n c l : forall ts, rmap (fun t => variable_temporary B n c t) l = Ok ts -> Forall T ts.
Proof.
  induction l as [|x l IH]; intros ts H; cbn [rmap] in H.
  - inversion H; constructor.
  - ub H. ub H. inversion H; subst. constructor; [eapply vt_T; eauto|apply IH; reflexivity].
Qed.

Lemma urc_Q v c k lc code lc' : update_reference_count B v c k lc = Ok (code, lc') -> Q code.
Proof.
  unfold update_reference_count. intros H. ub H. pose proof (vt_T _ _ _ _ E) as Tx.
  destruct k as [|[|k]]; inversion H; subst.
  - rewrite (surjective_pairing (b_erase B x lc)) in H1. inversion H1; subst. apply m_erase; exact Tx.
  - exact Qnil.
  - rewrite (surjective_pairing (b_share_n B x _ lc)) in H1. inversion H1; subst. apply m_share; exact Tx.
Qed.
Lemma cwc_Q c : forall tm lc code lc', code_weakening_contraction B tm c lc = Ok (code, lc') -> Q code.
Proof.
  induction tm as [|[b tg] tm IH]; intros lc code lc' H; cbn [code_weakening_contraction] in H.
  - inversion H; subst. exact Qnil.
  - destruct (bchi b).
    + ub H. destruct x as [c1 lc1]. ub H. destruct x as [c2 lc2]. inversion H; subst. apply Qapp; [eapply urc_Q; eauto|eapply IH; eauto].
    + ub H. destruct x as [c1 lc1]. ub H. destruct x as [c2 lc2]. inversion H; subst. apply Qapp; [eapply urc_Q; eauto|eapply IH; eauto].
    + eapply IH; eauto.
Qed.

Lemma ins_T n c nc b tg m m' :
  A64PM.amap_ok Temp T m ->
  (dor k <- variable_temporary B n c (idn (bvar b));
   dor ts <- rmap (fun t => variable_temporary B n nc t) tg;
   Ok (map_insert (b_tcompare B) k (set_of_list (b_tcompare B) ts) m)) = Ok m' ->
  A64PM.amap_ok Temp T m'.
Proof.
  intros OK H. ub H. ub H. inversion H; subst. intros k ts Hin.
  apply In_map_insert in Hin as [E1|Hin]; [|apply OK; exact Hin].
  inversion E1; subst. split; [eapply vt_T; eauto|].
  apply Forall_forall. intros t Ht. apply (proj1 (In_set_of_list (b_tcompare B) Heq t x0)) in Ht.
  pose proof (rmap_T _ _ _ _ E0) as F. rewrite Forall_forall in F. auto.
Qed.
Lemma connections_T tm c nc am : connections B tm c nc = Ok am -> A64PM.amap_ok Temp T am.
Proof.
  unfold connections.
  assert (G : forall tm (rm : res (list (Temp * list Temp))),
            (forall m, rm = Ok m -> A64PM.amap_ok Temp T m) ->
            forall am, fold_left (fun rm bt =>
                dor m <- rm;
                let '(b, targets) := bt in
                match bchi b with
                | Ext => dor k <- variable_temporary B Snd c (idn (bvar b));
                         dor ts <- rmap (fun t => variable_temporary B Snd nc t) targets;
                         Ok (map_insert (b_tcompare B) k (set_of_list (b_tcompare B) ts) m)
                | _ => dor m1 <- (dor k <- variable_temporary B Fst c (idn (bvar b));
                                  dor ts <- rmap (fun t => variable_temporary B Fst nc t) targets;
                                  Ok (map_insert (b_tcompare B) k (set_of_list (b_tcompare B) ts) m));
                       dor k <- variable_temporary B Snd c (idn (bvar b));
                       dor ts <- rmap (fun t => variable_temporary B Snd nc t) targets;
                       Ok (map_insert (b_tcompare B) k (set_of_list (b_tcompare B) ts) m1)
                end) tm rm = Ok am -> A64PM.amap_ok Temp T am).
  { clear tm am. induction tm as [|[b tg] tm IH]; intros rm OK am H; cbn [fold_left] in H; [apply OK; exact H|].
    eapply IH; [|exact H]. intros m' Hm'. destruct rm as [m|e]; cbn [rbind] in Hm'; [|discriminate].
    specialize (OK m eq_refl).
    destruct (bchi b).
    - ub Hm'. eapply ins_T; [eapply ins_T; [exact OK|exact E]|exact Hm'].
    - ub Hm'. eapply ins_T; [eapply ins_T; [exact OK|exact E]|exact Hm'].
    - eapply ins_T; [exact OK|exact Hm']. }
  intros H. eapply G; [|exact H]. intros m E. inversion E; subst. intros k ts [].
Qed.

Lemma teqb_spec' a b : reflect (a = b) (teqb B a b).
Proof.
  unfold teqb. destruct (b_tcompare B a b) eqn:E; constructor.
  - now apply Heq.
  - intros H; apply Heq in H; congruence.
  - intros H; apply Heq in H; congruence.
Qed.
Lemma emit_pinstr_Q f i : A64PM.pinstr_ok Temp T i -> Q (emit_pinstr B f i).
Proof. destruct i; cbn [A64PM.pinstr_ok emit_pinstr]; intros H; [apply m_mov; tauto|apply m_store_temporary; exact H|apply m_restore_temporary; exact H]. Qed.
Lemma pmc_Q am code : A64PM.amap_ok Temp T am -> parallel_moves_code B am = Ok code -> Q code.
Proof.
  intros OK E. unfold parallel_moves_code in E.
  destruct (spanning_forest Temp (teqb B) (List.length (all_targets Temp am) + 2) am) as [forest|] eqn:SF; [|discriminate].
  inversion E; subst.
  assert (PM : parallel_moves Temp (teqb B) (List.length (all_targets Temp am) + 2) am = Some (flat_map (root_moves Temp) forest))
    by (unfold parallel_moves; now rewrite SF).
  pose proof (A64PM.parallel_moves_mentions Temp (teqb B) teqb_spec' T _ am _ OK PM) as MEN.
  apply Q_flat_map. intros r Hr. unfold emit_root. apply Q_flat_map. intros i Hi.
  apply emit_pinstr_Q. rewrite Forall_forall in MEN. apply MEN. apply in_flat_map. exists r. auto.
Qed.
Lemma exchange_Q tm c nc code : code_exchange B tm c nc = Ok code -> Q code.
Proof. unfold code_exchange. intros H. ub H. eapply pmc_Q; [eapply connections_T; eauto|exact H]. Qed.
Lemma code_table_Q cls base : Q (code_table B cls base).
Proof. unfold code_table. apply Q_flat_map. intros; apply m_jump_label_fixed. Qed.

Definition stmt_Q (s : stmt) : Prop :=
  forall types c lc code lc', code_statement B types s c lc = Ok (code, lc') -> Q code.

Ltac fin H := inversion H; subst; clear H; cbn [fst snd]; repeat (apply Qapp); auto.

Theorem code_statement_Q : forall s, stmt_Q s.
Proof.
  induction s using stmt_ind2; intros types c lc code lc' CS; cbn [code_statement] in CS; ub CS;
    destruct x as [body lcb]; inversion CS; subst; clear CS; cbn [fst snd]; apply Qapp; try apply m_mark.
  - (* Substitute *)
    ub E. destruct x as [c1 lc1]. ub E. ub E. destruct x0 as [c3 lc3]. inversion E; subst.
    apply Qapp; [eapply cwc_Q; eauto|]. apply Qapp; [eapply exchange_Q; eauto|eapply IHs; eauto].
  - inversion E; subst. apply m_jump_label.
  - (* Let *)
    ub E. ub E. ub E. destruct x1 as [rest arguments]. ub E. destruct x1 as [c1 lc1]. ub E. ub E. destruct x2 as [c3 lc3].
    inversion E; subst. apply Qapp; [eapply m_store; eauto|]. apply Qapp; [apply m_load_immediate; eapply vt_T; eauto|eapply IHs; eauto].
  - (* Switch *)
    ub E. ub E. destruct x0 as [c3 lc3]. inversion E; subst. clear E.
    apply Qapp; [|apply Qcons; [apply m_label|apply Qapp]].
    + destruct (Nat.leb _ 1); [inversion E0; subst; exact Qnil|]. ub E0. inversion E0; subst.
      pose proof (vt_T _ _ _ _ E) as Tx. repeat apply Qapp; auto.
    + destruct (Nat.leb _ 1); [exact Qnil|apply code_table_Q].
    + clear E0. set (fresh := type_label t (lc + 1)) in *. clearbody fresh. revert lc' c3 E1. generalize (lc + 1)%N.
      induction H as [|[[xt cx] body] cls Hb _ IHc]; intros lq lcb c3 E1.
      * inversion E1; subst. exact Qnil.
      * ub E1. destruct x0 as [cl l1]. ub E1. destruct x0 as [cb l2]. ub E1. destruct x0 as [cr l3]. inversion E1; subst.
        apply Qcons; [apply m_label|]. apply Qapp; [eapply m_load; eauto|]. apply Qapp; [eapply Hb; eauto|eapply IHc; eauto].
  - (* Create *)
    destruct env as [env|]; [|discriminate].
    ubp E. ubp E. ub E. ubp E. ubp E. inversion E; subst. clear E.
    apply Qapp; [eapply m_store; eauto|]. apply Qapp; [apply m_load_label; eapply vt_T; eauto|].
    apply Qapp; [eapply IHs; eauto|]. apply Qcons; [apply m_label|]. apply Qapp.
    + destruct (Nat.leb _ 1); [exact Qnil|apply code_table_Q].
    + match goal with HL : _ = Ok (?c5, lc') |- Q ?c5 => revert HL end.
      match goal with |- context [type_label t ?l] => set (fresh := type_label t l) in *; clearbody fresh end.
      match goal with |- _ ?cls0 ?l3 = Ok (?c5, lc') -> _ => revert lc' c5; generalize l3 end.
      induction H as [|[[xt cx] body] cls Hb _ IHc]; intros lq lcb c5 E4.
      * inversion E4; subst. exact Qnil.
      * ubp E4. ubp E4. ubp E4. inversion E4; subst.
        apply Qcons; [apply m_label|]. apply Qapp; [eapply m_load; eauto|]. apply Qapp; [eapply Hb; eauto|eapply IHc; eauto].
  - (* Invoke *)
    ub E. ub E. pose proof (vt_T _ _ _ _ E0) as Tx. destruct (Nat.leb _ 1); [inversion E; subst; apply m_jump; exact Tx|].
    ub E. inversion E; subst. apply m_add_and_jump; exact Tx.
  - (* Literal *)
    ub E. ub E. destruct x0 as [c2 lc2]. inversion E; subst. apply Qapp; [apply m_load_immediate; eapply vt_T; eauto|eapply IHs; eauto].
  - (* Op *)
    ub E. ub E. ub E. ub E. destruct x2 as [c2 lc2]. inversion E; subst.
    apply Qapp; [apply m_arith; eapply vt_T; eauto|eapply IHs; eauto].
  - (* PrintI64 *)
    ub E. ub E. destruct x0 as [c2 lc2]. inversion E; subst. apply Qapp; [apply m_print; eapply vt_T; eauto|eapply IHs; eauto].
  - (* IfC *)
    ub E. ub E. ub E. destruct x1 as [c2 lc2]. ub E. destruct x1 as [c3 lc3]. inversion E; subst.
    pose proof (vt_T _ _ _ _ E0) as Ta.
    apply Qapp; [|apply Qapp; [eapply IHs2; eauto|apply Qcons; [apply m_label|eapply IHs1; eauto]]].
    destruct b as [b|]; [ub E1; inversion E1; subst; apply m_jcc2; [exact Ta|eapply vt_T; eauto]|inversion E1; subst; apply m_jcc1; exact Ta].
  - (* Exit *)
    ub E. inversion E; subst. apply Qapp; [apply m_mov; [exact Tret|eapply vt_T; eauto]|apply m_jump_label].
Qed.

Lemma translate_Q types : forall defs lc code lc', translate B types defs lc = Ok (code, lc') -> Q code.
Proof.
  induction defs as [|d defs IH]; intros lc code lc' H; cbn [translate] in H.
  - inversion H; subst. exact Qnil.
  - ub H. destruct x as [c1 lc1]. ub H. destruct x as [c2 lc2]. inversion H; subst.
    apply Qcons; [apply m_label|]. apply Qapp; [eapply code_statement_Q; eauto|eapply IH; eauto].
Qed.
Theorem compile_Q p lc code n lc' : compile B p lc = Ok (code, n, lc') -> Q code.
Proof.
  unfold compile. destruct (pdefs p) as [|d0 ds] eqn:D; [discriminate|]. intros H. ub H. destruct x as [c l]. inversion H; subst.
  eapply translate_Q; eauto.
Qed.
End Forall.
