(* C08, heap statements: from the invariant of the instrumented machine (InvA of Proof/HeapMore.v, in every
   reachable configuration by C09_program_heap_safe) and the agreement `heq` of Proof/RVHDefs.v to the
   hypotheses of the RISC-V refinement theorems of Proof/RVHMem.v (the counterpart of Proof/X86HBridge.v):
     hdr_bounds_r        headers lie in [0, 2^32]: no 64-bit count wraps;
     acq_ok_of_inv       the precondition of `acquire_block`;
     reach_is_blk        everything reachable from the roots is a block of the heap region.
   The only numeric hypothesis: the frontier leaves room for the reserved block
   (`frontier + 64 <= HEAP_BASE + HEAP_SIZE`). *)
From Coq Require Import List ZArith NArith String Bool Lia Permutation.
From SCC Require Import Sem.AxSem Sem.RVSem Proof.RVSel Proof.RVHeapAbs Proof.RVHDefs.
From SCC Require Model.Heap Proof.HeapMore Proof.HeapTrace Proof.HeapRep Proof.HeapRepAlloc Proof.HeapBridge.
Import ListNotations.
Open Scope Z_scope.

Notation InvA := HeapMore.InvA.
Notation reach := HeapTrace.reach.

(* ---------- blocks of the abstract heap vs. blocks of the heap region ---------- *)
Lemma is_blk_blk x : is_blk x -> HeapMore.blk HEAP_BASE x.
Proof. intros (k & Hk & -> & _). exists k. unfold Heap.BLOCK. split; [exact Hk|lia]. Qed.
Lemma blk_is_blk x : HeapMore.blk HEAP_BASE x -> x + 64 <= LIMIT -> is_blk x.
Proof. intros (k & Hk & ->) H. exists k. unfold Heap.BLOCK, LIMIT in *. repeat split; lia. Qed.
Lemma frontier_blk s R hl fl cl : InvA HEAP_BASE s R hl fl cl -> HeapMore.blk HEAP_BASE (Heap.frontier s).
Proof.
  intros [_ X]. pose proof (HeapMore.x_sz _ _ _ _ _ X) as E.
  exists (Z.of_nat (List.length (hl ++ fl ++ cl))). split; [lia|]. lia.
Qed.
Lemma below_is_blk s R hl fl cl x :
  InvA HEAP_BASE s R hl fl cl -> Heap.frontier s <= LIMIT -> HeapMore.blk HEAP_BASE x -> x < Heap.frontier s -> is_blk x.
Proof.
  intros IA HF Hx Hlt. apply blk_is_blk; [exact Hx|].
  destruct (frontier_blk _ _ _ _ _ IA) as (n & Hn & En). destruct Hx as (k & Hk & Ek). unfold Heap.BLOCK in *. lia.
Qed.
Lemma list_is_blk s R hl fl cl x :
  InvA HEAP_BASE s R hl fl cl -> Heap.frontier s <= LIMIT -> In x (hl ++ fl ++ cl) -> is_blk x.
Proof.
  intros IA HF Hx. destruct (HeapBridge.list_blk _ _ _ _ _ _ _ IA Hx) as [B L]. eapply below_is_blk; eauto. lia.
Qed.
Lemma reach_is_blk s R hl fl cl b :
  InvA HEAP_BASE s R hl fl cl -> Heap.frontier s <= LIMIT -> reach (Heap.m s) R b -> is_blk b.
Proof.
  intros IA HF Hr. eapply list_is_blk; eauto. rewrite !in_app_iff. right. right.
  eapply HeapRep.reach_root_counted; [exact (proj1 IA)|exact Hr].
Qed.

(* ---------- header bounds ---------- *)
Definition HB : Z := 4294967296.  (* 2^32 *)
Lemma hdr_bounds_r s R hl fl cl :
  InvA HEAP_BASE s R hl fl cl -> P3 s -> Heap.frontier s <= LIMIT -> Z.of_nat (List.length R) <= 1048576 ->
  forall x, is_blk x -> 0 <= Heap.hdr (Heap.m s x) <= HB.
Proof.
  intros IA HP HF HR x Hx.
  pose proof (HeapBridge.hdr_bounds HEAP_BASE s R hl fl cl IA HP ltac:(unfold HEAP_BASE; lia) x (is_blk_blk x Hx)) as H.
  pose proof (HeapBridge.in_use_bound _ _ _ _ _ _ IA) as U.
  unfold HB, LIMIT, HEAP_BASE, HEAP_SIZE in *. lia.
Qed.

(* ---------- the precondition of acquire ---------- *)
Lemma pad3_in l c : In c (pad3 l) -> c = 0 \/ In c l.
Proof.
  unfold pad3. cbn [In]. intros [<-|[<-|[<-|[]]]].
  - destruct l; cbn; auto.
  - destruct l as [|a [|b r]]; cbn; auto.
  - destruct l as [|a [|b [|d r]]]; cbn; auto.
Qed.

Lemma acq_ok_of_inv a s R hl fl cl :
  InvA HEAP_BASE s R hl fl cl -> heq a s -> P3 s -> Heap.frontier s + 64 <= LIMIT -> Z.of_nat (List.length R) <= 1048576 ->
  acq_ok a.
Proof.
  intros IA HQ HP HF HR. pose proof (proj1 IA) as I.
  destruct HQ as (E1 & E2 & E3 & EM).
  destruct (HeapMore.heap_in_hl _ _ _ _ _ I) as (hl1 & Ehl).
  assert (Bh : is_blk (Heap.heap s)).
  { eapply list_is_blk; [exact IA|lia|]. rewrite Ehl. now left. }
  assert (BD : forall x, is_blk x -> min_int + 3 <= Heap.hdr (Heap.m a x) <= max_int).
  { intros x Hx. rewrite (proj1 (EM x Hx)).
    pose proof (hdr_bounds_r s R hl fl cl IA HP ltac:(lia) HR x Hx). unfold HB, min_int, max_int, two63 in *. lia. }
  unfold acq_ok. rewrite E1, E2. split; [exact Bh|].
  assert (Bf : is_blk (Heap.free s)).
  { destruct (HeapRep.free_cases _ _ _ _ _ I) as [[E _]|Hf].
    - rewrite E. apply blk_is_blk; [eapply frontier_blk; eauto|exact HF].
    - eapply list_is_blk; [exact IA|lia|]. rewrite !in_app_iff. auto. }
  split; [apply is_blk_pos in Bf; lia|]. split; [intros _; exact Bf|].
  intros _ Hn0. rewrite (proj1 (EM _ Bf)) in Hn0.
  split; [|split; [exact BD|apply BD; exact Bf]].
  assert (Hfl : In (Heap.free s) fl).
  { destruct (HeapRep.free_cases _ _ _ _ _ I) as [[E _]|Hf]; auto.
    rewrite E, (Heap.i_fresh _ _ _ _ _ I (Heap.frontier s)) in Hn0 by lia. now cbn in Hn0. }
  rewrite (proj2 (EM _ Bf)). apply Forall_forall. intros c Hc.
  destruct (pad3_in _ _ Hc) as [->|Hin]; [now left|].
  destruct (Z.eq_dec c 0) as [->|Hc0]; [now left|right].
  eapply list_is_blk; [exact IA|lia|]. rewrite !in_app_iff. right. right.
  eapply HeapMore.child_counted; [exact I| |exact Hin|exact Hc0]. rewrite in_app_iff. now right.
Qed.

(* ---------- one allocation (an object of at most three fields) ---------- *)
Theorem alloc_small_bridge fields a s R R0 hl fl cl :
  InvA HEAP_BASE s R hl fl cl -> heq a s -> P3 s -> Permutation R (Heap.nz fields ++ R0) -> fields <> [] ->
  (List.length fields <= 3)%nat ->
  Z.of_nat (List.length R) < 1048576 ->
  Heap.frontier s + 64 <= LIMIT ->
  acq_ok a /\
  Heap.alloc_object fields s = Heap.alloc (Heap.pad 3 fields) s /\
  fst (Heap.alloc (Heap.pad 3 fields) a) = fst (Heap.alloc (Heap.pad 3 fields) s) /\
  heq (snd (Heap.alloc (Heap.pad 3 fields) a)) (snd (Heap.alloc (Heap.pad 3 fields) s)) /\
  fst (Heap.alloc (Heap.pad 3 fields) s) = Heap.heap s /\ is_blk (Heap.heap s) /\
  ~ reach (Heap.m s) R (Heap.heap s).
Proof.
  intros IA HQ HP HPm Hne Hlen HR HF.
  assert (AOK : acq_ok a) by (apply (acq_ok_of_inv a s _ hl fl cl IA HQ HP); [lia|lia]).
  assert (Lsl : List.length (Heap.pad 3 fields) = 3%nat) by (apply HeapRepAlloc.length_pad; exact Hlen).
  destruct (heq_alloc a s _ HQ HP AOK Lsl) as (Efa & HQ' & HP').
  assert (HP1 : Permutation R (Heap.nz (Heap.pad 3 fields) ++ R0)) by (rewrite HeapMore.nz_pad; exact HPm).
  destruct (HeapBridge.alloc_stage HEAP_BASE s _ _ hl fl cl _ IA HP1) as (Ef & Hr0 & _ & _ & Hnr & _).
  assert (Bh : is_blk (Heap.heap s)).
  { destruct (HeapMore.heap_in_hl _ _ _ _ _ (proj1 IA)) as (hl1 & Ehl).
    eapply list_is_blk; [exact IA|lia|]. rewrite Ehl. now left. }
  split; [exact AOK|]. split; [now apply alloc_object_small|]. split; [exact Efa|]. split; [exact HQ'|].
  split; [exact Ef|]. split; [exact Bh|exact Hnr].
Qed.
