(* Instruction-selection lemmas for the AArch64 back end (L1 -> L2 of DESIGN.md C07): the code the
   MODEL of axcut2aarch64::code emits for one abstract operation, executed on the ISA semantics of
   Sem/A64Sem.v, has the abstract operation's effect for EVERY placement of target and operands in
   registers or spill slots, any aliasing, and every register/memory contents, and changes nothing
   but the target and the documented scratch (TEMP = X2, TEMP2 = X3; for `rem` with everything
   spilled also the scratch slot SPILL_TEMP, with X10 evacuated and restored). *)
From Coq Require Import List ZArith NArith String Bool Lia FMapPositive.
From SCC Require Import Base.Sexp Lang.AxSyn Sem.AxSem Model.Backend Model.A64 Sem.A64Sem Generated.Constants
  Proof.A64State Proof.A64ImmHw Proof.A64Imm.
Import ListNotations.
Open Scope Z_scope.

(* ---------- the model's config functions against the crate's values ---------- *)
Lemma a64_stack_offset_samples :
  map stack_offset [0; 1; 2; 3; 4; 5; 6; 7]%N = A64C.stack_offset_samples.
Proof. reflexivity. Qed.
Lemma a64_field_offset_samples :
  map (field_offset Fst) [0; 1; 2; 3]%N = A64C.field_offset_fst /\
  map (field_offset Snd) [0; 1; 2; 3]%N = A64C.field_offset_snd.
Proof. split; reflexivity. Qed.
Lemma a64_jump_length_samples :
  map jump_length [0; 1; 2; 3; 4; 5]%N = A64C.jump_length_samples.
Proof. reflexivity. Qed.
(* a fixed-size jump (B) is one 4-byte instruction: the table stride of jump_length is the ISA's *)
Lemma a64_jump_length_is_isize l n : jump_length n = Z.of_N n * isize (B l).
Proof. unfold jump_length; cbn [isize]; lia. Qed.

(* ---------- what "nothing else changes" means ---------- *)
Definition preserved (s s' : astate) (sp : Z) (t : atemp) : Prop :=
  (forall l, loc_ok l -> l <> t -> l <> AR TEMP -> l <> AR TEMP2 -> lget s' sp l = lget s sp l) /\
  heap s' = heap s /\ out s' = out s /\ flags s' = flags s /\ frame_ok s' sp.

(* reading a location through a chain of writes *)
Ltac rd :=
  repeat (cbn [lget lset];
    first [ rewrite rget_set_flags | rewrite sget_set_flags | rewrite rget_sset | rewrite sget_rset
          | rewrite rget_rset_same by exact I | rewrite sget_sset_same
          | rewrite rget_rset_other by congruence
          | rewrite sget_sset_other by (first [assumption | congruence]) ]).
Ltac consts := rewrite ?TEMP_is, ?TEMP2_is, ?TEMPORARY_TEMP_is, ?SPILL_TEMP_is in *.
Ltac frame :=
  repeat first [ apply frame_ok_set_flags | apply frame_ok_sset | apply frame_ok_rset; [discriminate|] | assumption ].
Ltac fields := rewrite ?heap_rset, ?out_rset, ?flags_rset, ?heap_sset, ?out_sset, ?flags_sset; try reflexivity.
Ltac pres :=
  split; [ let l := fresh "l" in let L := fresh "L" in intros l L ? ? ?;
           destruct l as [[?| |]|?]; cbn [loc_ok gp] in L; try tauto; rd; reflexivity
         | split; [fields | split; [fields | split; [fields | frame]]] ].

Section Sel.
Variable im : image.

Lemma move_to_register_ok s sp r t :
  frame_ok s sp -> loc_ok t ->
  run_straight im (move_to_register r t) s = MOk (rset s r (lget s sp t)).
Proof.
  intros F T. destruct t as [q|p]; cbn [move_to_register run_straight lget].
  - reflexivity.
  - now rewrite (step_LDR_slot im s sp F).
Qed.
Lemma move_from_register_ok s sp t r :
  frame_ok s sp -> loc_ok t ->
  run_straight im (move_from_register t r) s = MOk (lset s sp t (rget s r)).
Proof.
  intros F T. destruct t as [q|p]; cbn [move_from_register run_straight lset].
  - reflexivity.
  - now rewrite (step_STR_slot im s sp F).
Qed.

(* ---------- add / sub / mul / div: one three-address instruction around spilled operands ---------- *)
(* [f] emits one instruction computing [g] whenever [ok] holds of the operand values *)
Definition simple_op (f : areg -> areg -> areg -> list acode) (g : Z -> Z -> Z) (ok : Z -> Z -> Prop) : Prop :=
  forall s d a b x y, rget s a = Some x -> rget s b = Some y -> ok x y ->
    run_straight im (f d a b) s = MOk (rset s d (Some (g x y))).

Lemma simple_add : simple_op r_add (fun x y => wrap (x + y)) (fun _ _ => True).
Proof. intros s d a b x y A B _. cbn [r_add run_straight step]. now rewrite (step_arith3 s Z.add d a b x y A B). Qed.
Lemma simple_sub : simple_op r_sub (fun x y => wrap (x - y)) (fun _ _ => True).
Proof. intros s d a b x y A B _. cbn [r_sub run_straight step]. now rewrite (step_arith3 s Z.sub d a b x y A B). Qed.
Lemma simple_mul : simple_op r_mul (fun x y => wrap (x * y)) (fun _ _ => True).
Proof. intros s d a b x y A B _. cbn [r_mul run_straight step]. now rewrite (step_arith3 s Z.mul d a b x y A B). Qed.
Definition div_defined (x y : Z) : Prop := y <> 0 /\ ~ (x = min_int /\ y = -1).
Lemma div_defined_tests x y : div_defined x y -> (y =? 0) = false /\ ((x =? min_int) && (y =? -1)) = false.
Proof.
  intros (NZ & NO). split; [now apply Z.eqb_neq|].
  destruct (Z.eqb_spec x min_int), (Z.eqb_spec y (-1)); cbn; auto. exfalso; apply NO; auto.
Qed.
Lemma simple_div : simple_op r_div Z.quot div_defined.
Proof.
  intros s d a b x y A B D. destruct (div_defined_tests x y D) as (Hz & Ho).
  cbn [r_div run_straight step]. unfold need. now rewrite A, B, Hz, Ho.
Qed.

Lemma scratch_for_other r : r <> TEMP -> scratch_for r = TEMP.
Proof. unfold scratch_for. destruct (areg_eqb_spec r TEMP); congruence. Qed.

Definition operand_ok (t : atemp) : Prop := loc_ok t /\ t <> AR TEMP /\ t <> AR TEMP2.

Theorem a64_simple_op_ok f g ok s sp t s1 s2 a b :
  simple_op f g ok ->
  frame_ok s sp -> operand_ok t -> operand_ok s1 -> operand_ok s2 ->
  lget s sp s1 = Some a -> lget s sp s2 = Some b -> ok a b ->
  exists s', run_straight im (a_op f t s1 s2) s = MOk s' /\
             lget s' sp t = Some (g a b) /\ preserved s s' sp t.
Proof.
  intros Hf F (T & NT1 & NT2) (S1 & N11 & N12) (S2 & N21 & N22) A B OK.
  assert (SP : sp_ok sp) by apply F.
  unfold a_op, preserved. consts.
  destruct t as [tr|tp]; cbn [loc_ok] in T.
  - (* target in a register *)
    assert (TR : gp tr) by exact T. destruct tr as [tn| |]; cbn [gp] in TR; try tauto.
    destruct s1 as [r1|p1], s2 as [r2|p2]; cbn [lget loc_ok] in *.
    + rewrite (Hf s (X tn) r1 r2 a b A B OK).
      eexists; split; [reflexivity|]. split; [rd; reflexivity|pres].
    + rewrite scratch_for_other by (consts; congruence). consts.
      cbn [app run_straight]. rewrite (step_LDR_slot im s sp F) by exact S2.
      rewrite (Hf _ (X tn) r1 (X 2) a b); [|rd; exact A|rd; exact B|exact OK].
      eexists; split; [reflexivity|]. split; [rd; reflexivity|pres].
    + cbn [app run_straight]. rewrite (step_LDR_slot im s sp F) by exact S1.
      rewrite (Hf _ (X tn) (X 2) r2 a b); [|rd; exact A|rd; exact B|exact OK].
      eexists; split; [reflexivity|]. split; [rd; reflexivity|pres].
    + cbn [app run_straight]. rewrite (step_LDR_slot im s sp F) by exact S1.
      rewrite (step_LDR_slot im _ sp) by (frame || exact S2).
      rewrite (Hf _ (X tn) (X 2) (X 3) a b); [|rd; exact A|rd; exact B|exact OK].
      eexists; split; [reflexivity|]. split; [rd; reflexivity|pres].
  - (* target in a spill slot: through TEMP *)
    destruct s1 as [r1|p1], s2 as [r2|p2]; cbn [lget loc_ok] in *.
    + rewrite run_straight_app, (Hf s (X 2) r1 r2 a b A B OK). cbn [run_straight].
      rewrite (step_STR_slot im _ sp) by (frame || exact T).
      eexists; split; [reflexivity|]. split; [rd; reflexivity|pres].
    + rewrite scratch_for_other by (consts; congruence). consts.
      cbn [app run_straight]. rewrite (step_LDR_slot im s sp F) by exact S2.
      rewrite run_straight_app, (Hf _ (X 2) r1 (X 2) a b); [|rd; exact A|rd; exact B|exact OK].
      cbn [run_straight]. rewrite (step_STR_slot im _ sp) by (frame || exact T).
      eexists; split; [reflexivity|]. split; [rd; reflexivity|pres].
    + cbn [app run_straight]. rewrite (step_LDR_slot im s sp F) by exact S1.
      rewrite run_straight_app, (Hf _ (X 2) (X 2) r2 a b); [|rd; exact A|rd; exact B|exact OK].
      cbn [run_straight]. rewrite (step_STR_slot im _ sp) by (frame || exact T).
      eexists; split; [reflexivity|]. split; [rd; reflexivity|pres].
    + cbn [app run_straight]. rewrite (step_LDR_slot im s sp F) by exact S1.
      rewrite (step_LDR_slot im _ sp) by (frame || exact S2).
      rewrite run_straight_app, (Hf _ (X 2) (X 2) (X 3) a b); [|rd; exact A|rd; exact B|exact OK].
      cbn [run_straight]. rewrite (step_STR_slot im _ sp) by (frame || exact T).
      eexists; split; [reflexivity|]. split; [rd; reflexivity|pres].
Qed.

(* ---------- rem: SDIV + MSUB through TEMP2, with X10 evacuated when everything is spilled ---------- *)
Lemma rem_between a b : b <> 0 -> (0 <= a -> 0 <= Z.rem a b <= a) /\ (a <= 0 -> a <= Z.rem a b <= 0).
Proof.
  intros NZ.
  assert (P : forall a b, 0 <= a -> 0 < b -> 0 <= Z.rem a b <= a).
  { intros a0 b0 Ha Hb. split; [apply Z.rem_nonneg; lia|apply Z.rem_le; lia]. }
  split; intros Ha; destruct (Z_lt_le_dec 0 b) as [Hb|Hb].
  - apply P; auto.
  - specialize (P a (- b) Ha ltac:(lia)). rewrite Z.rem_opp_r in P by lia. lia.
  - specialize (P (- a) b ltac:(lia) Hb). rewrite Z.rem_opp_l in P by lia. lia.
  - specialize (P (- a) (- b) ltac:(lia) ltac:(lia)). rewrite Z.rem_opp_r, Z.rem_opp_l in P by lia. lia.
Qed.
Lemma msub_rem a b : in64 a -> b <> 0 -> wrap (a - Z.quot a b * b) = Z.rem a b.
Proof.
  intros H NZ. pose proof (Z.quot_rem' a b) as E. pose proof (rem_between a b NZ) as L.
  replace (a - Z.quot a b * b) with (Z.rem a b) by lia.
  clear E. set (r := Z.rem a b) in *. clearbody r.
  assert (R : - two63 <= r < two63) by (unfold in64, two63 in *; lia).
  clear L H. unfold wrap, two63, two64 in *. Z.div_mod_to_equations. lia.
Qed.

Lemma step_SDIV s d ra rb x y :
  rget s ra = Some x -> rget s rb = Some y -> div_defined x y ->
  step im (SDIV d ra rb) s = Next (rset s d (Some (Z.quot x y))).
Proof.
  intros A Bv D. destruct (div_defined_tests x y D) as (Hz & Ho). cbn [step]. unfold need. now rewrite A, Bv, Hz, Ho.
Qed.
Lemma step_MSUB s d ra rb rc x y z :
  rget s ra = Some x -> rget s rb = Some y -> rget s rc = Some z ->
  step im (MSUB d ra rb rc) s = Next (rset s d (Some (wrap (z - x * y)))).
Proof. intros A Bv C. cbn [step]. unfold need. now rewrite A, Bv, C. Qed.

(* the three shapes of r_rem *)
Lemma r_rem_plain s d ra rb a b :
  rb <> TEMP2 -> rget s ra = Some a -> rget s rb = Some b -> ra <> TEMP2 ->
  in64 a -> div_defined a b ->
  run_straight im (r_rem d ra rb) s = MOk (rset (rset s TEMP2 (Some (Z.quot a b))) d (Some (Z.rem a b))).
Proof.
  intros NB A Bv NA IA D. destruct (div_defined_tests a b D) as (Hz & Ho).
  unfold r_rem. destruct (areg_eqb_spec rb TEMP2) as [|_]; [congruence|]. consts.
  cbn [run_straight step]. unfold need. rewrite A, Bv, Hz, Ho. cbv iota beta.
  rewrite rget_rset_same by exact I. rewrite !rget_rset_other by congruence. rewrite Bv, A.
  now rewrite msub_rem by (auto; apply D).
Qed.
Lemma r_rem_temp2_reg s d a b :
  d <> TEMP -> d <> TEMP2 -> gp d -> rget s TEMP = Some a -> rget s TEMP2 = Some b ->
  in64 a -> div_defined a b ->
  run_straight im (r_rem d TEMP TEMP2) s = MOk (rset (rset s d (Some (Z.quot a b))) d (Some (Z.rem a b))).
Proof.
  intros N1 N2 G A Bv IA D. destruct (div_defined_tests a b D) as (Hz & Ho).
  unfold r_rem. destruct (areg_eqb_spec TEMP2 TEMP2) as [_|]; [|congruence].
  destruct (areg_eqb_spec d TEMP) as [|_]; [congruence|]. consts.
  cbn [run_straight step]. unfold need. rewrite A, Bv, Hz, Ho. cbv iota beta.
  rewrite rget_rset_same by exact G. rewrite !rget_rset_other by congruence. rewrite Bv, A.
  now rewrite msub_rem by (auto; apply D).
Qed.

Definition preserved_rem (s s' : astate) (sp : Z) (t : atemp) : Prop :=
  (forall l, loc_ok l -> l <> t -> l <> AR TEMP -> l <> AR TEMP2 -> l <> AS SPILL_TEMP -> lget s' sp l = lget s sp l) /\
  heap s' = heap s /\ out s' = out s /\ flags s' = flags s /\ frame_ok s' sp.

Definition rem_operand_ok (t : atemp) : Prop := operand_ok t /\ t <> AS SPILL_TEMP.

Theorem a64_rem_ok s sp t s1 s2 a b :
  frame_ok s sp -> rem_operand_ok t -> rem_operand_ok s1 -> rem_operand_ok s2 ->
  lget s sp s1 = Some a -> lget s sp s2 = Some b -> in64 a -> div_defined a b ->
  exists s', run_straight im (a_op r_rem t s1 s2) s = MOk s' /\
             lget s' sp t = Some (Z.rem a b) /\ preserved_rem s s' sp t.
Proof.
  intros F ((T & NT1 & NT2) & NT0) ((S1 & N11 & N12) & N10) ((S2 & N21 & N22) & N20) A Bv IA D.
  assert (SP : sp_ok sp) by apply F.
  assert (P0 : slot_ok 0%N) by (unfold slot_ok; rewrite SPILL_NUM_is; lia).
  unfold a_op, preserved_rem. consts.
  destruct t as [tr|tp]; cbn [loc_ok] in T.
  - assert (TR : gp tr) by exact T. destruct tr as [tn| |]; cbn [gp] in TR; try tauto.
    destruct s1 as [r1|p1], s2 as [r2|p2]; cbn [lget loc_ok] in *.
    + rewrite (r_rem_plain s (X tn) r1 r2 a b); consts; try assumption; try congruence.
      eexists; split; [reflexivity|]. split; [rd; reflexivity|pres].
    + rewrite scratch_for_other by (consts; congruence). consts.
      cbn [app run_straight]. rewrite (step_LDR_slot im s sp F) by exact S2.
      rewrite (r_rem_plain _ (X tn) r1 (X 2) a b); consts; try assumption; try congruence; [|rd; exact A|rd; exact Bv].
      eexists; split; [reflexivity|]. split; [rd; reflexivity|pres].
    + cbn [app run_straight]. rewrite (step_LDR_slot im s sp F) by exact S1.
      rewrite (r_rem_plain _ (X tn) (X 2) r2 a b); consts; try assumption; try congruence; [|rd; exact A|rd; exact Bv].
      eexists; split; [reflexivity|]. split; [rd; reflexivity|pres].
    + cbn [app run_straight]. rewrite (step_LDR_slot im s sp F) by exact S1.
      rewrite (step_LDR_slot im _ sp) by (frame || exact S2).
      pose proof (r_rem_temp2_reg (rset (rset s (X 2) (sget s sp p1)) (X 3) (sget (rset s (X 2) (sget s sp p1)) sp p2)) (X tn) a b) as R.
      consts. rewrite R; try assumption; try congruence; try exact I; [|rd; exact A|rd; exact Bv].
      eexists; split; [reflexivity|]. split; [rd; reflexivity|pres].
  - destruct s1 as [r1|p1], s2 as [r2|p2]; cbn [lget loc_ok] in *.
    + rewrite run_straight_app, (r_rem_plain s (X 2) r1 r2 a b); consts; try assumption; try congruence.
      cbn [run_straight]. rewrite (step_STR_slot im _ sp) by (frame || exact T).
      eexists; split; [reflexivity|]. split; [rd; reflexivity|pres].
    + rewrite scratch_for_other by (consts; congruence). consts.
      cbn [app run_straight]. rewrite (step_LDR_slot im s sp F) by exact S2.
      rewrite run_straight_app, (r_rem_plain _ (X 2) r1 (X 2) a b); consts; try assumption; try congruence; [|rd; exact A|rd; exact Bv].
      cbn [run_straight]. rewrite (step_STR_slot im _ sp) by (frame || exact T).
      eexists; split; [reflexivity|]. split; [rd; reflexivity|pres].
    + cbn [app run_straight]. rewrite (step_LDR_slot im s sp F) by exact S1.
      rewrite run_straight_app, (r_rem_plain _ (X 2) (X 2) r2 a b); consts; try assumption; try congruence; [|rd; exact A|rd; exact Bv].
      cbn [run_straight]. rewrite (step_STR_slot im _ sp) by (frame || exact T).
      eexists; split; [reflexivity|]. split; [rd; reflexivity|pres].
    + (* everything spilled: X10 is evacuated to the scratch slot and restored *)
      destruct (div_defined_tests a b D) as (Hz & Ho).
      cbn [app run_straight]. rewrite (step_LDR_slot im s sp F) by exact S1.
      rewrite (step_LDR_slot im _ sp) by (frame || exact S2).
      unfold r_rem. consts. cbn [areg_eqb N.eqb Pos.eqb app run_straight].
      rewrite (step_STR_slot im _ sp) by (frame || exact P0).
      rewrite step_MOVR.
      set (st := rset (sset (rset (rset s (X 2) (sget s sp p1)) (X 3) (sget (rset s (X 2) (sget s sp p1)) sp p2)) sp 0%N
                        (rget (rset (rset s (X 2) (sget s sp p1)) (X 3) (sget (rset s (X 2) (sget s sp p1)) sp p2)) (X 10)))
                      (X 10) (rget (sset (rset (rset s (X 2) (sget s sp p1)) (X 3) (sget (rset s (X 2) (sget s sp p1)) sp p2)) sp 0%N
                        (rget (rset (rset s (X 2) (sget s sp p1)) (X 3) (sget (rset s (X 2) (sget s sp p1)) sp p2)) (X 10))) (X 3))).
      assert (A2 : rget st (X 2) = Some a) by (subst st; rd; exact A).
      assert (B10 : rget st (X 10) = Some b) by (subst st; rd; exact Bv).
      assert (Fst_ : frame_ok st sp) by (subst st; frame).
      rewrite (step_SDIV st (X 3) (X 2) (X 10) a b A2 B10 D).
      rewrite (step_MSUB _ (X 2) (X 3) (X 10) (X 2) (Z.quot a b) b a) by (rd; first [reflexivity|assumption]).
      rewrite msub_rem by (auto; apply D).
      rewrite (step_LDR_slot im _ sp) by (frame || exact P0).
      rewrite (step_STR_slot im _ sp) by (frame || exact T).
      eexists; split; [reflexivity|]. split; [rd; reflexivity|].
      split; [|split; [subst st; fields|split; [subst st; fields|split; [subst st; fields|subst st; frame]]]].
      intros l L NL N2' N3' N0'. subst st.
      destruct l as [[m| |]|q]; cbn [loc_ok gp] in L; try tauto.
      * destruct (N.eq_dec m 10) as [->|N10']; rd; reflexivity.
      * rd; reflexivity.
Qed.

(* ---------- all five operators at once, against the AxCut meaning eval_op ---------- *)
Theorem a64_arith_ok o s sp t s1 s2 a b v :
  frame_ok s sp -> rem_operand_ok t -> rem_operand_ok s1 -> rem_operand_ok s2 ->
  lget s sp s1 = Some a -> lget s sp s2 = Some b -> in64 a -> eval_op o a b = OpVal v ->
  exists s', run_straight im (a_arith o t s1 s2) s = MOk s' /\
             lget s' sp t = Some v /\ preserved_rem s s' sp t.
Proof.
  intros F T S1 S2 A Bv IA E.
  assert (W : forall f g ok, simple_op f g ok -> ok a b ->
              exists s', run_straight im (a_op f t s1 s2) s = MOk s' /\
                         lget s' sp t = Some (g a b) /\ preserved_rem s s' sp t).
  { intros f g ok Hs Hok.
    destruct (a64_simple_op_ok f g ok s sp t s1 s2 a b Hs F (proj1 T) (proj1 S1) (proj1 S2) A Bv Hok)
      as (s' & R & V & (P1 & P2)).
    exists s'. split; [exact R|]. split; [exact V|]. split; [|exact P2]. intros; apply P1; auto. }
  destruct o; cbn [a_arith eval_op] in *.
  - (* Div *)
    destruct (Z.eqb_spec b 0) as [|NZ]; [discriminate|].
    destruct ((a =? min_int) && (b =? -1)) eqn:O; [discriminate|]. injection E as <-.
    apply (W r_div Z.quot div_defined simple_div).
    split; auto. intros (-> & ->). cbn in O. discriminate.
  - injection E as <-. apply (W r_mul (fun x y => wrap (x * y)) _ simple_mul I).
  - destruct (Z.eqb_spec b 0) as [|NZ]; [discriminate|].
    destruct ((a =? min_int) && (b =? -1)) eqn:O; [discriminate|]. injection E as <-.
    apply a64_rem_ok; auto. split; auto. intros (-> & ->). cbn in O. discriminate.
  - injection E as <-. apply (W r_add (fun x y => wrap (x + y)) _ simple_add I).
  - injection E as <-. apply (W r_sub (fun x y => wrap (x - y)) _ simple_sub I).
Qed.

(* ---------- mov between any two temporaries (what parallel moves are made of) ---------- *)
Theorem a64_mov_ok s sp t src :
  frame_ok s sp -> operand_ok t -> operand_ok src ->
  exists s', run_straight im (a_mov t src) s = MOk s' /\
             lget s' sp t = lget s sp src /\ preserved s s' sp t.
Proof.
  intros F (T & NT1 & NT2) (S & NS1 & NS2). assert (SP : sp_ok sp) by apply F.
  unfold a_mov, preserved. consts. destruct src as [sr|sq]; [|destruct t as [tr|tq]].
  - rewrite (move_from_register_ok s sp t sr F T).
    eexists; split; [reflexivity|]. split; [apply lget_lset_same; exact T|].
    destruct t as [[tn| |]|tq]; cbn [loc_ok gp] in T; try tauto; pres.
  - rewrite (move_to_register_ok s sp tr (AS sq) F S).
    destruct tr as [tn| |]; cbn [loc_ok gp] in T; try tauto.
    eexists; split; [reflexivity|]. split; [rd; reflexivity|]. pres.
  - rewrite run_straight_app, (move_to_register_ok s sp (X 3) (AS sq) F S).
    rewrite (move_from_register_ok _ sp (AS tq) (X 3)) by (frame || exact T).
    cbn [loc_ok] in T, S.
    eexists; split; [reflexivity|]. split; [rd; reflexivity|]. pres.
Qed.

(* ---------- literals: every 64-bit value, register or spill target ---------- *)
Theorem a64_load_immediate_ok s sp t v :
  frame_ok s sp -> operand_ok t -> in64 v ->
  exists s', run_straight im (a_load_immediate t v) s = MOk s' /\
             lget s' sp t = Some v /\ preserved s s' sp t.
Proof.
  intros F (T & NT1 & NT2) IV. assert (SP : sp_ok sp) by apply F. pose proof (proj1 F) as Fs.
  unfold a_load_immediate, preserved. consts. destruct t as [[tn| |]|tp]; cbn [loc_ok gp] in T; try tauto.
  - destruct (a64_imm_code_ok im tn v s IV) as (s' & R & V & (O & Hsp & Hh & Hst & Hf & Ho & _)).
    exists s'. split; [exact R|]. split; [exact V|].
    split; [|split; [exact Hh|split; [exact Ho|split; [exact Hf|split; [congruence|exact SP]]]]].
    intros l L NL _ _. destruct l as [[m| |]|q]; cbn [loc_ok gp lget rget] in *; try tauto.
    + apply O. congruence.
    + unfold sget. now rewrite Hst.
  - destruct (a64_imm_code_ok im 2 v s IV) as (s1 & R & V & (O & Hsp & Hh & Hst & Hf & Ho & _)).
    assert (F1 : frame_ok s1 sp) by (split; [congruence|exact SP]).
    rewrite run_straight_app, R. cbn [run_straight]. rewrite (step_STR_slot im s1 sp F1) by exact T.
    cbn [rget]. rewrite V.
    eexists; split; [reflexivity|]. split; [rd; reflexivity|].
    split; [|split; [fields; exact Hh|split; [fields; exact Ho|split; [fields; exact Hf|frame]]]].
    intros l L NL N2' _. destruct l as [[m| |]|q]; cbn [loc_ok gp] in L; try tauto; rd.
    + apply O. congruence.
    + unfold sget. now rewrite Hst.
Qed.

(* ---------- comparison followed by a conditional branch ---------- *)
(* the NZCV flags SUBS computes decide the six conditions exactly like the signed comparison *)
Lemma cond_holds_cmp sort a b : in64 a -> in64 b -> cond_holds sort (cmp_flags a b) = eval_cmp sort a b.
Proof.
  unfold in64, two63. intros Ha Hb.
  assert (R : wrap (a - b) = a - b \/ wrap (a - b) = a - b - two64 \/ wrap (a - b) = a - b + two64).
  { unfold wrap, two63, two64. Z.div_mod_to_equations. lia. }
  assert (RB : - two63 <= wrap (a - b) < two63).
  { unfold wrap, two63, two64. Z.div_mod_to_equations. lia. }
  unfold two63, two64 in *.
  destruct sort; cbn [cond_holds eval_cmp cmp_flags fN fZ fC fV];
    repeat match goal with
           | |- context [?x =? ?y] => destruct (Z.eqb_spec x y)
           | |- context [?x <? ?y] => destruct (Z.ltb_spec x y)
           | |- context [?x <=? ?y] => destruct (Z.leb_spec x y)
           end; cbn; try reflexivity; exfalso; lia.
Qed.

Definition flags_preserving (s s' : astate) (sp : Z) : Prop :=
  (forall l, loc_ok l -> l <> AR TEMP -> l <> AR TEMP2 -> lget s' sp l = lget s sp l) /\
  heap s' = heap s /\ out s' = out s /\ frame_ok s' sp.

Theorem a64_compare_ok s sp t1 t2 a b :
  frame_ok s sp -> operand_ok t1 -> operand_ok t2 ->
  lget s sp t1 = Some a -> lget s sp t2 = Some b ->
  exists s', run_straight im (compare t1 t2) s = MOk s' /\ flags s' = Some (cmp_flags a b) /\
             flags_preserving s s' sp.
Proof.
  intros F (T1 & N11 & N12) (T2 & N21 & N22) A Bv. assert (SP : sp_ok sp) by apply F.
  unfold flags_preserving. consts.
  destruct t1 as [r1|p1], t2 as [r2|p2]; cbn [lget loc_ok] in *; cbn [compare run_straight]; consts.
  - cbn [step]. unfold need. rewrite A, Bv. eexists; split; [reflexivity|]. split; [reflexivity|].
    split; [intros; rd; reflexivity|split; [reflexivity|split; [reflexivity|frame]]].
  - rewrite (step_LDR_slot im s sp F) by exact T2. cbn [step]. unfold need.
    rewrite rget_rset_other by congruence. rewrite A. rewrite rget_rset_same by exact I. rewrite Bv.
    eexists; split; [reflexivity|]. split; [reflexivity|].
    split; [|split; [fields|split; [fields|frame]]].
    intros l L N2' N3'. destruct l as [[m| |]|q]; cbn [loc_ok gp] in L; try tauto; rd; reflexivity.
  - rewrite (step_LDR_slot im s sp F) by exact T1. cbn [step]. unfold need.
    rewrite rget_rset_same by exact I. rewrite A. rewrite rget_rset_other by congruence. rewrite Bv.
    eexists; split; [reflexivity|]. split; [reflexivity|].
    split; [|split; [fields|split; [fields|frame]]].
    intros l L N2' N3'. destruct l as [[m| |]|q]; cbn [loc_ok gp] in L; try tauto; rd; reflexivity.
  - rewrite (step_LDR_slot im s sp F) by exact T1.
    rewrite (step_LDR_slot im _ sp) by (frame || exact T2). cbn [step]. unfold need.
    rewrite rget_rset_other by congruence. rewrite rget_rset_same by exact I. rewrite A.
    rewrite rget_rset_same by exact I. rewrite sget_rset, Bv.
    eexists; split; [reflexivity|]. split; [reflexivity|].
    split; [|split; [fields|split; [fields|frame]]].
    intros l L N2' N3'. destruct l as [[m| |]|q]; cbn [loc_ok gp] in L; try tauto; rd; reflexivity.
Qed.
Theorem a64_compare_zero_ok s sp t a :
  frame_ok s sp -> operand_ok t -> lget s sp t = Some a ->
  exists s', run_straight im (compare_immediate t 0) s = MOk s' /\ flags s' = Some (cmp_flags a 0) /\
             flags_preserving s s' sp.
Proof.
  intros F (T & N1 & N2) A. assert (SP : sp_ok sp) by apply F. unfold flags_preserving. consts.
  destruct t as [r|p]; cbn [lget loc_ok] in *; cbn [compare_immediate run_straight]; consts.
  - cbn [step]. unfold need. rewrite A. eexists; split; [reflexivity|]. split; [reflexivity|].
    split; [intros; rd; reflexivity|split; [reflexivity|split; [reflexivity|frame]]].
  - rewrite (step_LDR_slot im s sp F) by exact T. cbn [step]. unfold need.
    rewrite rget_rset_same by exact I. rewrite A.
    eexists; split; [reflexivity|]. split; [reflexivity|].
    split; [|split; [fields|split; [fields|frame]]].
    intros l L N2' N3'. destruct l as [[m| |]|q]; cbn [loc_ok gp] in L; try tauto; rd; reflexivity.
Qed.
(* the conditional branch is taken exactly when the AxCut comparison holds (all six sorts) *)
Theorem a64_bcc_step sort l s a b :
  flags s = Some (cmp_flags a b) -> in64 a -> in64 b ->
  step im (bcc sort l) s = if eval_cmp sort a b then goto_label im s l else Next s.
Proof.
  intros H Ha Hb. rewrite <- (cond_holds_cmp sort a b Ha Hb).
  destruct sort; cbn [bcc step]; unfold cond_jump; now rewrite H.
Qed.

(* ---------- labels, jumps, jump-table dispatch ---------- *)
Lemma step_ADR s r l addr : label_addr im l = Some addr -> step im (ADR r l) s = Next (rset s r (Some addr)).
Proof. intros LA. cbn [step]. now rewrite LA. Qed.
Theorem a64_load_label_ok s sp t l addr :
  frame_ok s sp -> operand_ok t -> label_addr im l = Some addr ->
  exists s', run_straight im (a_load_label t l) s = MOk s' /\ lget s' sp t = Some addr /\ preserved s s' sp t.
Proof.
  intros F (T & N1 & N2) LA. assert (SP : sp_ok sp) by apply F. unfold a_load_label, preserved. consts.
  destruct t as [[tn| |]|tp]; cbn [loc_ok gp] in T; try tauto; cbn [run_straight]; rewrite (step_ADR _ _ _ _ LA).
  - eexists; split; [reflexivity|]. split; [rd; reflexivity|pres].
  - rewrite (step_STR_slot im _ sp) by (frame || exact T).
    eexists; split; [reflexivity|]. split; [rd; reflexivity|pres].
Qed.
(* jump to the address held by a temporary *)
Theorem a64_jump_ok s sp t addr :
  frame_ok s sp -> operand_ok t -> lget s sp t = Some addr ->
  exists s', run_straight im (removelast (a_jump t)) s = MOk s' /\
             step im (last (a_jump t) RET) s' = goto_addr im s' addr /\
             (forall l, loc_ok l -> l <> AR TEMP -> lget s' sp l = lget s sp l) /\ heap s' = heap s /\ out s' = out s.
Proof.
  intros F (T & N1 & N2) A. assert (SP : sp_ok sp) by apply F. consts.
  destruct t as [r|p]; cbn [lget loc_ok a_jump removelast last run_straight] in *; consts.
  - eexists; split; [reflexivity|]. cbn [step]. unfold need. rewrite A. auto.
  - rewrite (step_LDR_slot im s sp F) by exact T.
    eexists; split; [reflexivity|]. cbn [step]. unfold need. rewrite rget_rset_same by exact I. rewrite A.
    split; [reflexivity|]. split; [|split; fields].
    intros l L N2'. destruct l as [[m| |]|q]; cbn [loc_ok gp] in L; try tauto; rd; reflexivity.
Qed.
(* invoke: add the tag offset to the code pointer and branch there.  The offset is an ADD immediate when it has
   12 bits, else it is synthesised in TEMP2 (repair of the finding "tag dispatch immediate"): [a64_add_offset_ok] *)
Theorem a64_add_offset_ok s n i a :
  gp (X n) -> n <> 3%N -> xget s n = Some a -> (add_imm_fits i = false -> in64 i) ->
  exists s', run_straight im (add_offset (X n) i) s = MOk s' /\ xget s' n = Some (wrap (a + i)) /\
             (forall m, m <> n -> m <> 3%N -> xget s' m = xget s m) /\
             spv s' = spv s /\ heap s' = heap s /\ stack s' = stack s /\ out s' = out s.
Proof.
  intros G N3 A IV. unfold add_offset. destruct (add_imm_fits i) eqn:FI.
  - cbn [run_straight step]. unfold arith_imm, need. cbn [rget]. rewrite A.
    eexists; split; [reflexivity|]. cbn [rset]. split; [apply xget_xset_same|].
    split; [intros m Hm _; apply xget_xset_other; congruence|repeat split].
  - destruct (a64_imm_code_ok im 3 i s (IV eq_refl)) as (s1 & R & V & (O & Hsp & Hh & Hst & Hf & Ho & _)).
    consts. rewrite run_straight_app, R. cbn [run_straight step]. unfold arith3, need. cbn [rget].
    rewrite (O n N3), A, V.
    eexists; split; [reflexivity|]. cbn [rset]. split; [apply xget_xset_same|].
    split; [intros m Hm H3; rewrite xget_xset_other by congruence; apply O; exact H3|].
    repeat split; assumption.
Qed.
Theorem a64_add_and_jump_ok s sp t i addr :
  frame_ok s sp -> operand_ok t -> lget s sp t = Some addr -> (add_imm_fits i = false -> in64 i) ->
  exists s', run_straight im (removelast (a_add_and_jump t i)) s = MOk s' /\
             step im (last (a_add_and_jump t i) RET) s' = goto_addr im s' (wrap (addr + i)) /\
             heap s' = heap s /\ out s' = out s.
Proof.
  intros F (T & N1 & N2) A IV. assert (SP : sp_ok sp) by apply F. consts.
  destruct t as [[tn| |]|p]; cbn [lget loc_ok gp a_add_and_jump] in *; try tauto; consts.
  - assert (N3 : tn <> 3%N) by congruence.
    destruct (a64_add_offset_ok s tn i addr T N3 A IV) as (s' & R & V & _ & _ & Hh & _ & Ho).
    rewrite removelast_last, last_last. exists s'. split; [exact R|]. cbn [step]. unfold need. cbn [rget]. rewrite V. auto.
  - change ([LDR (X 2) SP (stack_offset p)] ++ add_offset (X 2) i ++ [BR (X 2)])
      with (([LDR (X 2) SP (stack_offset p)] ++ add_offset (X 2) i) ++ [BR (X 2)]) at 1 2 || rewrite !app_assoc.
    rewrite removelast_last, last_last, run_straight_app. cbn [run_straight].
    rewrite (step_LDR_slot im s sp F) by exact T.
    destruct (a64_add_offset_ok (rset s (X 2) (sget s sp p)) 2 i addr I ltac:(discriminate)) as (s' & R & V & _ & _ & Hh & _ & Ho);
      [cbn [rset]; rewrite xget_xset_same; exact A|exact IV|].
    exists s'. split; [exact R|]. cbn [step]. unfold need. cbn [rget]. rewrite V.
    split; [reflexivity|]. rewrite Hh, Ho. split; fields.
Qed.
(* switch: ADR TEMP, table; ADD TEMP, TEMP, tag; BR TEMP - also when the tag is spilled (the case
   repaired by 3781c3f: the tag must not be loaded into TEMP) *)
Theorem a64_switch_dispatch_ok s sp tag l base off :
  frame_ok s sp -> operand_ok tag -> label_addr im l = Some base -> lget s sp tag = Some off ->
  exists s', run_straight im (a_load_label (AR TEMP) l ++ a_arith Sum (AR TEMP) (AR TEMP) tag) s = MOk s' /\
             step im (BR TEMP) s' = goto_addr im s' (wrap (base + off)) /\
             (forall l, loc_ok l -> l <> AR TEMP -> l <> AR TEMP2 -> lget s' sp l = lget s sp l) /\
             heap s' = heap s /\ out s' = out s.
Proof.
  intros F (T & N1 & N2) LA A. assert (SP : sp_ok sp) by apply F. consts.
  cbn [a_load_label a_arith a_op app run_straight]. consts. rewrite (step_ADR _ _ _ _ LA).
  destruct tag as [r|p]; cbn [lget loc_ok] in *.
  - cbn [r_add run_straight step]. unfold arith3, need.
    rewrite rget_rset_same by exact I. rewrite rget_rset_other by congruence. rewrite A.
    eexists; split; [reflexivity|]. cbn [step]. unfold need. rewrite rget_rset_same by exact I.
    split; [reflexivity|]. split; [|split; fields].
    intros l0 L N2' N3'. destruct l0 as [[m| |]|q]; cbn [loc_ok gp] in L; try tauto; rd; reflexivity.
  - unfold scratch_for. consts. cbn [areg_eqb N.eqb Pos.eqb app run_straight].
    rewrite (step_LDR_slot im _ sp) by (frame || exact T).
    cbn [r_add run_straight step]. unfold arith3, need.
    rewrite rget_rset_other by congruence. rewrite rget_rset_same by exact I.
    rewrite rget_rset_same by exact I. rewrite sget_rset, A.
    eexists; split; [reflexivity|]. cbn [step]. unfold need. rewrite rget_rset_same by exact I.
    split; [reflexivity|]. split; [|split; fields].
    intros l0 L N2' N3'. destruct l0 as [[m| |]|q]; cbn [loc_ok gp] in L; try tauto; rd; reflexivity.
Qed.
End Sel.
