(* Induction principle for Fun terms that reaches through argument and clause lists. *)
From Coq Require Import List ZArith String Bool.
From SCC Require Import Lang.FunSyn.
Import ListNotations.

Definition clause_body (c : fclause) : fterm := match c with FClause _ _ _ _ b => b end.

Section FtermInd.
  Variable P : fterm -> Prop.
  Hypothesis HVar : forall v ty chi, P (FVar v ty chi).
  Hypothesis HLit : forall n, P (FLit n).
  Hypothesis HOp : forall a o b, P a -> P b -> P (FOp a o b).
  Hypothesis HIfC : forall s a b th el ty, P a -> (forall b', b = Some b' -> P b') -> P th -> P el -> P (FIfC s a b th el ty).
  Hypothesis HPrint : forall nl a next ty, P a -> P next -> P (FPrint nl a next ty).
  Hypothesis HLet : forall v vty a body ty, P a -> P body -> P (FLet v vty a body ty).
  Hypothesis HCall : forall f args r, Forall P args -> P (FCall f args r).
  Hypothesis HCtor : forall x args r, Forall P args -> P (FCtor x args r).
  Hypothesis HDtor : forall s x targs args r, P s -> Forall P args -> P (FDtor s x targs args r).
  Hypothesis HCase : forall s targs cls r, P s -> Forall (fun c => P (clause_body c)) cls -> P (FCase s targs cls r).
  Hypothesis HNew : forall cls r, Forall (fun c => P (clause_body c)) cls -> P (FNew cls r).
  Hypothesis HLabel : forall l t r, P t -> P (FLabel l t r).
  Hypothesis HGoto : forall l t r, P t -> P (FGoto l t r).
  Hypothesis HExit : forall a r, P a -> P (FExit a r).
  Hypothesis HParen : forall t, P t -> P (FParen t).

  Fixpoint fterm_ind' (t : fterm) : P t :=
    let args_ind := fix go (l : list fterm) : Forall P l :=
      match l with [] => Forall_nil _ | a :: r => Forall_cons _ (fterm_ind' a) (go r) end in
    let cls_ind := fix go (l : list fclause) : Forall (fun c => P (clause_body c)) l :=
      match l with
      | [] => Forall_nil _
      | c :: r => Forall_cons c (match c return P (clause_body c) with FClause _ _ _ _ b => fterm_ind' b end) (go r)
      end in
    match t with
    | FVar v ty chi => HVar v ty chi
    | FLit n => HLit n
    | FOp a o b => HOp a o b (fterm_ind' a) (fterm_ind' b)
    | FIfC s a b th el ty =>
        HIfC s a b th el ty (fterm_ind' a)
          (match b return forall b', b = Some b' -> P b' with
           | Some b0 => fun b' H => match H in _ = o return match o with Some x => P x | None => True end with eq_refl => fterm_ind' b0 end
           | None => fun b' H => match H in _ = o return match o with Some x => P x | None => True end with eq_refl => I end
           end)
          (fterm_ind' th) (fterm_ind' el)
    | FPrint nl a next ty => HPrint nl a next ty (fterm_ind' a) (fterm_ind' next)
    | FLet v vty a body ty => HLet v vty a body ty (fterm_ind' a) (fterm_ind' body)
    | FCall f args r => HCall f args r (args_ind args)
    | FCtor x args r => HCtor x args r (args_ind args)
    | FDtor s x targs args r => HDtor s x targs args r (fterm_ind' s) (args_ind args)
    | FCase s targs cls r => HCase s targs cls r (fterm_ind' s) (cls_ind cls)
    | FNew cls r => HNew cls r (cls_ind cls)
    | FLabel l t r => HLabel l t r (fterm_ind' t)
    | FGoto l t r => HGoto l t r (fterm_ind' t)
    | FExit a r => HExit a r (fterm_ind' a)
    | FParen t => HParen t (fterm_ind' t)
    end.
End FtermInd.
