(* Programs generate well-formed allocator traces.
   For a linearity-checked program, in every configuration reachable by the instrumented machine of
   Sem/AxHeap.v:
     - the abstract heap satisfies the strengthened counting invariant InvA with the roots being
       exactly the non-null pointers of the environment (with multiplicity);
     - every value of the environment is represented at its pointer (`rep`), chains are owned (`KI`);
     - the environment is the typing context of the statement (`cfg_wt`);
   and every allocator operation the machine emits satisfies its precondition `pre` in the state
   in which it is executed - so the whole operation trace of a run satisfies `pre_trace` from the
   initial allocator state, and the theorems of Proof/HeapTrace.v apply to programs. *)
From Coq Require Import List ZArith NArith Bool Lia Permutation.
From SCC Require Import Base.Sexp Lang.AxSyn Sem.AxSem Model.Linearize Model.LinCheck Sem.AxHeap.
From SCC Require Import Proof.LinBasics Proof.LinTyping Proof.LinMachine Proof.AxHeapErase Proof.AxHeapTyping.
From SCC Require Import Model.Heap Proof.HeapMore Proof.HeapTrace Proof.HeapRep Proof.HeapRepAlloc Proof.HeapRepLoad
  Proof.HeapRepSubst Proof.HeapTracePerm Proof.AxHeapSubst.
Import ListNotations.
Open Scope list_scope.

(* ---------- the invariant of a configuration ---------- *)
Definition env_rep (lk : lkmap) (hs : st) (he : henv) : Prop := reps lk (m hs) (map h_val he) (ptrs he).
Definition HInv (base : Z) (he : henv) (hs : st) : Prop :=
  exists lk, (exists hl fl cl, InvA base hs (roots he) hl fl cl) /\ KI lk hs (roots he) /\ env_rep lk hs he.

(* ---------- small facts ---------- *)
Lemma ptrs_app a b : ptrs (a ++ b) = ptrs a ++ ptrs b.
Proof. apply map_app. Qed.
Lemma roots_app a b : roots (a ++ b) = roots a ++ roots b.
Proof. unfold roots. now rewrite ptrs_app, nz_app. Qed.
Lemma ptrs_attach : forall e pl, length e = length pl -> ptrs (attach e pl) = pl.
Proof. induction e as [|xv e IH]; intros [|q pl] L; cbn in *; try discriminate; auto. unfold ptrs in IH. rewrite IH; auto. Qed.
Lemma vals_attach : forall e pl, map h_val (attach e pl) = map snd e.
Proof. induction e as [|xv e IH]; intros pl; cbn; auto. destruct pl; cbn; now rewrite IH. Qed.
Lemma ptrs_length he : length (ptrs he) = length he.
Proof. apply map_length. Qed.

Lemma reps_ptrs_ok lk mm he : reps lk mm (map h_val he) (ptrs he) -> ptrs_ok he.
Proof.
  induction he as [|en he IH]; intros H e He; [destruct He|]. cbn in H. inversion H; subst.
  destruct He as [<-|He]; [|apply IH; auto]. intros E.
  match goal with Hr : rep _ _ (h_val en) _ |- _ => destruct Hr; cbn in E; try discriminate; reflexivity end.
Qed.
Lemma store_ptr_ok he : ptrs_ok he -> map store_ptr he = ptrs he.
Proof.
  intros H. apply map_ext_in. intros en He. unfold store_ptr. destruct (chi_of (h_val en)) eqn:E; auto.
  symmetry. apply H; auto.
Qed.

Lemma lin_wt_nodup S c s : lin_wt S c s -> NoDup (ids c).
Proof. destruct 1; auto. Qed.
Lemma cfg_wt_nodup p he s : cfg_wt p he s -> NoDup (hids he).
Proof.
  intros (c & W & E). rewrite <- hids_erase, (env_wt_ids _ _ _ E). eapply lin_wt_nodup; eauto.
Qed.

Lemma lastn_app_exact {A} n (l1 l2 : list A) : length l2 = n -> lastn n (l1 ++ l2) = l2.
Proof.
  intros L. unfold lastn. rewrite app_length, L. replace (length l1 + n - n)%nat with (length l1) by lia.
  rewrite skipn_app, Nat.sub_diag, skipn_all. reflexivity.
Qed.

Lemma hrun_grun ops s R : hrun ops s = fst (grun ops (s, R)).
Proof. symmetry. apply grun_fst. Qed.

(* allocation of the last entries of the environment as a new object *)
Lemma store_safe base lk he0 fs hs v (val : value) :
  (exists hl fl cl, InvA base hs (roots (he0 ++ fs)) hl fl cl) -> KI lk hs (roots (he0 ++ fs)) ->
  env_rep lk hs (he0 ++ fs) ->
  (forall lk' mm, reps lk' mm (map h_val fs) (ptrs fs) ->
                  (fs = [] -> rep lk' mm val 0) /\
                  (forall q, rep_flds lk' mm (map h_val fs) q -> rep lk' mm val q)) ->
  let fields := map store_ptr fs in
  let ops := [OAllocObj fields] in
  let he' := he0 ++ [(v, val, fst (alloc_object fields hs))] in
  pre_trace hs (roots (he0 ++ fs)) ops /\
  Permutation (snd (grun ops (hs, roots (he0 ++ fs)))) (roots he') /\
  HInv base he' (hrun ops hs).
Proof.
  intros (hl & fl & cl & IA) K ER Hval fields ops he'.
  unfold env_rep in ER. rewrite map_app, ptrs_app in ER.
  destruct (reps_app_inv _ _ _ _ _ ER) as (p1 & p2 & Ep & R0 & Rf).
  assert (L1 : length p1 = length (ptrs he0)) by (rewrite (reps_length _ _ _ _ R0), map_length, ptrs_length; reflexivity).
  apply app_inv_length in Ep as [<- <-]; [|symmetry; exact L1].
  pose proof (reps_ptrs_ok _ _ _ Rf) as PO. assert (Ef : fields = ptrs fs) by (apply store_ptr_ok; exact PO).
  assert (HP : Permutation (roots (he0 ++ fs)) (nz fields ++ roots he0)).
  { rewrite roots_app, Ef. apply Permutation_app_comm. }
  assert (Pre : pre_trace hs (roots (he0 ++ fs)) ops).
  { cbn. split; auto. eapply sub_ok_app; eauto. }
  split; [exact Pre|].
  unfold ops, hrun. cbn [grun fold_left gstep fst snd step ghost].
  destruct fs as [|en fs'].
  - (* nothing to store: pointer 0 *)
    cbn in Ef. subst fields. unfold he'. cbn [map alloc_object fst snd]. rewrite !roots_app. cbn [roots ptrs map nz filter Z.eqb negb h_ptr snd].
    rewrite !app_nil_r. split; [reflexivity|].
    exists lk. rewrite roots_app. cbn [roots ptrs map nz filter Z.eqb negb h_ptr snd]. rewrite app_nil_r.
    rewrite roots_app in IA, K. cbn [roots ptrs map nz filter] in IA, K. rewrite app_nil_r in IA, K.
    split; [eauto|]. split; [exact K|].
    unfold env_rep. rewrite map_app, ptrs_app. apply reps_app; [exact R0|]. cbn. constructor; [|constructor].
    destruct (Hval lk (m hs) Rf) as [Hv _]. apply Hv. reflexivity.
  - set (fs := en :: fs') in *.
    assert (Hne : fields <> []) by (rewrite Ef; discriminate).
    destruct (alloc_object_rep base lk hs _ (roots he0) hl fl cl fields IA K HP Hne)
      as (lk' & j' & hl' & fl' & cl' & I1 & K1 & N1 & Hlk & HL & HF & Fr).
    cbn zeta in *. set (r := alloc_object fields hs) in *.
    assert (Eg : match fields with [] => roots (he0 ++ fs) | _ => fst r :: msub (roots (he0 ++ fs)) (nz fields) end
                 = fst r :: msub (roots (he0 ++ fs)) (nz fields)) by (destruct fields; [congruence|reflexivity]).
    rewrite Eg. clear Eg.
    assert (Er : roots he' = roots he0 ++ [fst r]).
    { unfold he'. rewrite roots_app. cbn [roots ptrs map h_ptr snd nz filter]. destruct (Z.eqb_spec (fst r) 0); [contradiction|reflexivity]. }
    split.
    + rewrite Er. etransitivity; [apply perm_skip, (msub_app _ _ _ HP)|]. apply Permutation_cons_append.
    + exists lk'. rewrite Er. split; [|split].
      * exists hl', fl', cl'. eapply invA_perm_R; [|exact I1]. apply Permutation_cons_append.
      * eapply KI_perm; [|exact K1]. apply Permutation_cons_append.
      * (* representation: old entries by the frame, the new object by construction *)
        assert (Hfr : forall pl, (forall q, In q pl -> q <> 0%Z -> In q (roots (he0 ++ fs))) ->
                  forall b, reach (m hs) pl b -> ps (m (snd r) b) = ps (m hs b) /\ lk' b = lk b).
        { intros pl Hpl b Hb. destruct (Fr b) as (A & B & _); [|auto].
          eapply reach_trans; [|exact Hb]. intros q Hq Hq0. apply reach_src; auto. }
        assert (R0' : reps lk' (m (snd r)) (map h_val he0) (ptrs he0)).
        { eapply reps_frame; [exact R0|]. apply Hfr. intros q Hq Hq0. rewrite roots_app, in_app_iff. left. apply in_nz. auto. }
        assert (Rf' : reps lk' (m (snd r)) (map h_val fs) (ptrs fs)).
        { eapply reps_frame; [exact Rf|]. apply Hfr. intros q Hq Hq0. rewrite roots_app, in_app_iff. right. apply in_nz. auto. }
        unfold env_rep, he'. rewrite map_app, ptrs_app. apply reps_app; [exact R0'|]. cbn [map ptrs h_val h_ptr fst snd].
        constructor; [|constructor]. apply (Hval lk' (m (snd r)) Rf').
        apply (rf_cons lk' (m (snd r)) (map h_val fs) (fst r) j' (ptrs fs)).
        -- discriminate.
        -- rewrite Hlk, Ef, map_length, ptrs_length. reflexivity.
        -- exact HL.
        -- rewrite HF, Ef. reflexivity.
        -- exact Rf'.
Qed.

(* loading the fields of the last entry of the environment *)
Lemma load_safe base lk he0 x (val : value) q hs vals (e1 : env) :
  (exists hl fl cl, InvA base hs (roots (he0 ++ [(x, val, q)])) hl fl cl) -> KI lk hs (roots (he0 ++ [(x, val, q)])) ->
  reps lk (m hs) (map h_val he0) (ptrs he0) -> rep_flds lk (m hs) vals q ->
  map snd e1 = vals ->
  let n := length vals in
  let ops := load_ops n q in
  let pl := load_ptrs hs n q in
  pre_trace hs (roots (he0 ++ [(x, val, q)])) ops /\
  Permutation (snd (grun ops (hs, roots (he0 ++ [(x, val, q)])))) (roots he0 ++ nz pl) /\
  (exists lk', (exists hl fl cl, InvA base (hrun ops hs) (roots he0 ++ nz pl) hl fl cl) /\
               KI lk' (hrun ops hs) (roots he0 ++ nz pl) /\
               reps lk' (m (hrun ops hs)) (map h_val he0) (ptrs he0) /\
               reps lk' (m (hrun ops hs)) vals pl).
Proof.
  intros (hl & fl & cl & IA) K R0 RF E1.
  destruct RF as [|vals q j pl0 Hne Hlk HL HF RS]; intros n ops pl;
    rewrite roots_app in *; cbn [roots ptrs map h_ptr snd] in *.
  - (* no field: nothing happens, the pointer is null *)
    assert (Epl : pl = []) by (unfold pl, load_ptrs, lastn, n; cbn [length]; rewrite Nat.sub_0_r; apply skipn_all).
    rewrite Epl. unfold ops, n. cbn [length load_ops nz filter hrun fold_left grun snd pre_trace Z.eqb negb] in *.
    rewrite !app_nil_r in *. split; [exact I|]. split; [reflexivity|].
    exists lk. split; [eauto|]. split; [exact K|]. split; [exact R0|constructor].
  - assert (Hq0 : q <> 0%Z) by exact (links_ok_head _ _ _ HL).
    assert (Hn : n <> O) by (unfold n; destruct vals; [congruence|discriminate]).
    assert (Eops : ops = [OLoadObj (nlinks n) q]) by (unfold ops, load_ops; destruct n; [congruence|reflexivity]).
    assert (Epl : pl = pl0).
    { unfold pl, load_ptrs, n. rewrite <- Hlk, HF. apply lastn_app_exact. apply (reps_length _ _ _ _ RS). }
    change (roots [(x, val, q)]) with (nz [q]) in *. cbn [nz filter] in *. destruct (Z.eqb_spec q 0) as [|_]; [contradiction|]. cbn [negb] in *.
    assert (HP : Permutation (roots he0 ++ [q]) (q :: roots he0)) by (symmetry; apply Permutation_cons_append).
    destruct (load_object_KI base lk hs _ (roots he0) hl fl cl q (nlinks n) j pl0 IA K HP Hq0 Hlk ltac:(unfold n; rewrite <- Hlk; exact HF))
      as (Pre & (hl' & fl' & cl' & I1) & K1).
    rewrite Eops, Epl. unfold hrun. cbn [pre_trace grun fold_left gstep fst snd step ghost].
    split; [auto|]. split.
    + unfold n. rewrite <- Hlk, HF, nz_app, nz_repeat0. cbn [app].
      etransitivity; [apply Permutation_app_head, rem1_perm_cong, HP|]. cbn [rem1]. destruct (Z.eq_dec q q); [|congruence].
      apply Permutation_app_comm.
    + exists lk. split; [|split; [|split]].
      * exists hl', fl', cl'. eapply invA_perm_R; [|exact I1]. apply Permutation_app_comm.
      * eapply KI_perm; [|exact K1]. apply Permutation_app_comm.
      * eapply reps_ext; [|exact R0]. intros; apply load_object_ps.
      * eapply reps_ext; [|exact RS]. intros; apply load_object_ps.
Qed.

(* ---------- one step ---------- *)
Theorem hstep_safe base p he hs s ops he' s' pr :
  cfg_wt p he s -> HInv base he hs -> hstep p he hs s = HStep ops he' s' pr ->
  pre_trace hs (roots he) ops /\
  Permutation (snd (grun ops (hs, roots he))) (roots he') /\
  HInv base he' (hrun ops hs).
Proof.
  intros W (lk & IAe & K & ER) HS. pose proof (cfg_wt_nodup _ _ _ W) as ND.
  assert (Triv : forall he1, roots he1 = roots he -> env_rep lk hs he1 ->
            pre_trace hs (roots he) [] /\ Permutation (snd (grun [] (hs, roots he))) (roots he1) /\ HInv base he1 (hrun [] hs)).
  { intros he1 Er Re. cbn. split; [exact I|]. split; [now rewrite Er|]. exists lk. rewrite Er. auto. }
  destruct s as [re next|l args|v t tag args next|v t cls|v t [cenv|] cls next|v tag t args|n v next|a o b v next|nl v next|so a b t el|v];
    cbn [hstep] in HS.
  - (* substitute *)
    destruct (hsubst he re) as [he1|] eqn:HSu; [|discriminate]. inversion HS; subst. clear HS.
    pose proof (reps_ptrs_ok _ _ _ ER) as PO. destruct IAe as (hl & fl & cl & IA).
    rewrite subst_ops_acts. set (acts := flat_map (actf he) (Backend.transpose re (ctx_of he))).
    pose proof (acts_perm he re ND) as HPa. fold acts in HPa.
    assert (HP : Permutation (roots he) (nz (map fst acts) ++ [])).
    { rewrite app_nil_r, <- (roots_acts he re PO). apply nz_perm, Permutation_map. symmetry. exact HPa. }
    destruct (acts_ok base lk acts hs (roots he) [] hl fl cl IA K HP) as (A & B & (hl' & fl' & cl' & I1) & K1 & F).
    cbn zeta in *. rewrite app_nil_r in B.
    assert (HR : Permutation (snd (grun (flat_map act_ops acts) (hs, roots he))) (roots he')).
    { etransitivity; [exact B|]. etransitivity; [apply Permutation_flat_map; exact HPa|].
      rewrite act_roots_of by exact PO. symmetry. apply hsubst_roots; auto. }
    split; [exact A|]. split; [exact HR|].
    exists lk. rewrite (hrun_grun _ _ (roots he)). split; [|split].
    + exists hl', fl', cl'. eapply invA_perm_R; eauto.
    + eapply KI_perm; eauto.
    + unfold env_rep. apply (reps_ext lk (m hs)); [intros; apply F|].
      (* every new entry is an old entry *)
      clear -HSu ER. unfold env_rep in ER. revert he' HSu. induction re as [|[nb old] re IH]; intros he' HSu; cbn [hsubst] in HSu.
      * inversion HSu; subst. constructor.
      * destruct (hlookup he (idn old)) as [en0|] eqn:HL; [|discriminate].
        destruct (hsubst he re) as [he1|]; [|discriminate]. inversion HSu; subst. cbn. constructor; [|apply IH; reflexivity].
        apply hlookup_Some in HL as [Hin _]. clear -Hin ER. induction he as [|e he IH]; [destruct Hin|].
        cbn in ER. inversion ER; subst. destruct Hin as [->|Hin]; auto.
  - (* call *)
    destruct (find_def p l) as [d|]; [|discriminate].
    destruct (bind (vars (dctx d)) (map snd (erase_env he))) as [e1|] eqn:B; [|discriminate]. inversion HS; subst. clear HS.
    apply bind_Some_length in B as [L ->].
    assert (Lc : length (combine (vars (dctx d)) (map snd (erase_env he))) = length (ptrs he)).
    { rewrite combine_length, L, Nat.min_id, map_length, erase_length, ptrs_length. reflexivity. }
    apply Triv.
    + unfold roots. now rewrite ptrs_attach.
    + unfold env_rep. rewrite ptrs_attach, vals_attach, combine_map_snd, map_snd_erase by auto. exact ER.
  - (* let *)
    destruct (ty_name t) as [tn|]; [|discriminate].
    destruct (AxSem.split_last (length args) he) as [[he0 fs]|] eqn:SL; [|discriminate].
    destruct (ids_eqb _ _); [|discriminate]. inversion HS; subst. clear HS.
    apply split_last_Some_app in SL as [-> _].
    apply (store_safe base lk he0 fs hs v (VObj tn tag (map h_val fs))); auto.
    intros lk' mm Rf. split.
    + intros ->. constructor. constructor.
    + intros q Hq. constructor. exact Hq.
  - (* switch *)
    destruct (AxSem.split_last 1 he) as [[he0 l]|] eqn:SL; [|discriminate].
    destruct l as [|[[x v0] q] [|en2 l]]; [discriminate| |destruct v0; discriminate].
    destruct v0 as [z|ty tg fs|ty cs ce]; [discriminate| |discriminate].
    destruct (N.eqb (idn x) (idn v)); [|discriminate].
    destruct (find_clause cls tg) as [c|]; [|discriminate].
    destruct (bind (vars (cl_ctx c)) fs) as [e1|] eqn:B; [|discriminate]. inversion HS; subst. clear HS.
    apply split_last_Some_app in SL as [-> _]. apply bind_Some_length in B as [L ->].
    unfold env_rep in ER. rewrite map_app, ptrs_app in ER.
    destruct (reps_app_inv _ _ _ _ _ ER) as (p1 & p2 & Ep & R0 & Rf).
    assert (L1 : length p1 = length (ptrs he0)) by (rewrite (reps_length _ _ _ _ R0), map_length, ptrs_length; reflexivity).
    apply app_inv_length in Ep as [<- <-]; [|symmetry; exact L1].
    cbn in Rf. inversion Rf as [|? ? ? ? Rv _]; subst. inversion Rv; subst.
    rewrite vars_length in L. rewrite L.
    destruct (load_safe base lk he0 x (VObj ty tg fs) q hs fs (combine (vars (cl_ctx c)) fs) IAe K R0 ltac:(assumption))
      as (Pre & HR & lk' & I1 & K1 & R0' & Rf').
    { apply combine_map_snd. now rewrite vars_length. }
    cbn zeta in *.
    assert (Lp : length (combine (vars (cl_ctx c)) fs) = length (load_ptrs hs (length fs) q)).
    { rewrite (reps_length _ _ _ _ Rf'), combine_length, vars_length, L, Nat.min_id. reflexivity. }
    assert (Er : roots (he0 ++ attach (combine (vars (cl_ctx c)) fs) (load_ptrs hs (length fs) q)) = roots he0 ++ nz (load_ptrs hs (length fs) q)).
    { rewrite roots_app. unfold roots at 2. now rewrite ptrs_attach. }
    unfold HInv. rewrite Er. split; [exact Pre|]. split; [exact HR|].
    exists lk'. split; [exact I1|]. split; [exact K1|].
    unfold env_rep. rewrite map_app, ptrs_app, ptrs_attach, vals_attach, combine_map_snd by (auto; now rewrite vars_length).
    apply reps_app; auto.
  - (* create *)
    destruct (ty_name t) as [tn|]; [|discriminate].
    destruct (AxSem.split_last (length cenv) he) as [[he0 cap]|] eqn:SL; [|discriminate].
    destruct (ids_eqb _ _); [|discriminate].
    destruct (bind (vars cenv) (map h_val cap)) as [ce|] eqn:B; [|discriminate]. inversion HS; subst. clear HS.
    apply split_last_Some_app in SL as [-> _]. apply bind_Some_length in B as [L ->].
    assert (Es : map snd (combine (vars cenv) (map h_val cap)) = map h_val cap) by (apply combine_map_snd; exact L).
    apply (store_safe base lk he0 cap hs v (VClo tn cls (combine (vars cenv) (map h_val cap)))); auto.
    intros lk' mm Rf. split.
    + intros ->. constructor. rewrite Es. constructor.
    + intros q Hq. constructor. rewrite Es. exact Hq.
  - discriminate.
  - (* invoke *)
    destruct (AxSem.split_last 1 he) as [[he0 l]|] eqn:SL; [|discriminate].
    destruct l as [|[[x v0] q] [|en2 l]]; [discriminate| |destruct v0; discriminate].
    destruct v0 as [z|ty tg fs|ty cs ce]; [discriminate|discriminate|].
    destruct (N.eqb (idn x) (idn v)); [|discriminate].
    destruct (find_clause cs tag) as [c|]; [|discriminate].
    destruct (bind (vars (cl_ctx c)) (map snd (erase_env he0))) as [e1|] eqn:B; [|discriminate]. inversion HS; subst. clear HS.
    apply split_last_Some_app in SL as [-> _]. apply bind_Some_length in B as [L ->].
    unfold env_rep in ER. rewrite map_app, ptrs_app in ER.
    destruct (reps_app_inv _ _ _ _ _ ER) as (p1 & p2 & Ep & R0 & Rf).
    assert (L1 : length p1 = length (ptrs he0)) by (rewrite (reps_length _ _ _ _ R0), map_length, ptrs_length; reflexivity).
    apply app_inv_length in Ep as [<- <-]; [|symmetry; exact L1].
    cbn in Rf. inversion Rf as [|? ? ? ? Rv _]; subst. inversion Rv; subst.
    destruct (load_safe base lk he0 x (VClo ty cs ce) q hs (map snd ce) ce IAe K R0 ltac:(assumption) eq_refl)
      as (Pre & HR & lk' & I1 & K1 & R0' & Rf').
    cbn zeta in *. rewrite (map_length snd ce) in *.
    assert (Lp : length ce = length (load_ptrs hs (length ce) q)).
    { rewrite (reps_length _ _ _ _ Rf'), map_length. reflexivity. }
    assert (L0 : length (combine (vars (cl_ctx c)) (map snd (erase_env he0))) = length (ptrs he0)).
    { rewrite combine_length, ptrs_length. pose proof L as L'. rewrite ?map_length, ?erase_length in L'.
      rewrite ?map_length, ?erase_length. lia. }
    assert (Er : roots (attach (combine (vars (cl_ctx c)) (map snd (erase_env he0))) (ptrs he0) ++ attach ce (load_ptrs hs (length ce) q))
                 = roots he0 ++ nz (load_ptrs hs (length ce) q)).
    { rewrite roots_app. unfold roots. now rewrite !ptrs_attach. }
    unfold HInv. rewrite Er. split; [exact Pre|]. split; [exact HR|].
    exists lk'. split; [exact I1|]. split; [exact K1|].
    unfold env_rep. rewrite map_app, ptrs_app, !ptrs_attach, !vals_attach, combine_map_snd, map_snd_erase by auto.
    apply reps_app; auto.
  - (* literal *)
    inversion HS; subst. apply Triv.
    + rewrite roots_app. cbn. now rewrite app_nil_r.
    + unfold env_rep. rewrite map_app, ptrs_app. apply reps_app; [exact ER|]. cbn. constructor; constructor.
  - (* op *)
    destruct (lookup_int (erase_env he) a); [|discriminate]. destruct (lookup_int (erase_env he) b); [|discriminate].
    destruct (eval_op o z z0); [|discriminate]. inversion HS; subst. apply Triv.
    + rewrite roots_app. cbn. now rewrite app_nil_r.
    + unfold env_rep. rewrite map_app, ptrs_app. apply reps_app; [exact ER|]. cbn. constructor; constructor.
  - (* print *)
    destruct (lookup_int (erase_env he) v); [|discriminate]. inversion HS; subst. apply Triv; auto.
  - (* ifc *)
    destruct (lookup_int (erase_env he) a); [|discriminate].
    destruct (match b with Some b0 => lookup_int (erase_env he) b0 | None => Some 0%Z end); [|discriminate].
    inversion HS; subst. apply Triv; auto.
  - (* exit *)
    destruct (lookup_int (erase_env he) v); discriminate.
Qed.

(* ---------- the initial configuration ---------- *)
Lemma attach_nil_roots : forall e, roots (attach e []) = [].
Proof. induction e as [|xv e IH]; cbn; auto. Qed.
Lemma ints_rep lk mm : forall e, (forall xv, In xv e -> exists z, snd xv = VInt z) ->
  reps lk mm (map h_val (attach e [])) (ptrs (attach e [])).
Proof.
  induction e as [|xv e IH]; intros H; cbn; constructor.
  - destruct (H xv (or_introl eq_refl)) as (z & E). unfold h_val; cbn. rewrite E. constructor.
  - apply IH. intros; apply H; now right.
Qed.
Lemma hinit_inv base d e args : (0 < base)%Z -> entry_env d args = Some e -> HInv base (hc_env (hinit base d e)) (hc_heap (hinit base d e)).
Proof.
  intros Hb EN. unfold hinit; cbn [hc_env hc_heap]. exists (fun _ => O). rewrite attach_nil_roots. split; [|split].
  - exists [base], [], []. now apply init_invA.
  - intros x Hx. inversion Hx; subst; cbn in *; tauto.
  - apply ints_rep. unfold entry_env in EN. apply bind_Some_length in EN as [_ ->].
    intros [x0 v0] Hin. apply in_combine_r in Hin. apply in_map_iff in Hin as (z & <- & _). exists z. reflexivity.
Qed.

(* ---------- runs ---------- *)
Theorem hsteps_safe base p c tr c' :
  lin_check_prog p = true ->
  cfg_wt p (hc_env c) (hc_stmt c) -> HInv base (hc_env c) (hc_heap c) ->
  hsteps p c tr c' ->
  pre_trace (hc_heap c) (roots (hc_env c)) tr /\
  hc_heap c' = fst (grun tr (hc_heap c, roots (hc_env c))) /\
  Permutation (snd (grun tr (hc_heap c, roots (hc_env c)))) (roots (hc_env c')) /\
  HInv base (hc_env c') (hc_heap c') /\ cfg_wt p (hc_env c') (hc_stmt c').
Proof.
  intros LP W HI H. induction H as [c|c tr c1 ops he' s' pr H IH HS].
  - cbn. split; [exact I|]. split; [reflexivity|]. split; [reflexivity|]. auto.
  - destruct (IH W HI) as (P1 & E1 & R1 & I1 & W1).
    destruct (hstep_safe base p _ _ _ _ _ _ _ W1 I1 HS) as (P2 & R2 & I2).
    cbn [hc_env hc_heap hc_stmt].
    set (sr := grun tr (hc_heap c, roots (hc_env c))) in *.
    assert (Esr : sr = (fst sr, snd sr)) by (destruct sr; reflexivity).
    destruct (grun_perm ops (hc_heap c1) _ _ R1) as [F G]. rewrite E1 in F, G.
    split; [|split; [|split; [|split]]].
    + apply pre_trace_app. split; [exact P1|]. fold sr. rewrite <- E1.
      eapply pre_trace_perm; [symmetry; exact R1|exact P2].
    + rewrite grun_app. fold sr. rewrite Esr, F, <- E1. apply hrun_grun.
    + rewrite grun_app. fold sr. rewrite Esr. etransitivity; [exact G|]. rewrite <- E1. exact R2.
    + exact I2.
    + eapply hstep_wt; eauto.
Qed.

(* the main theorem: programs *)
Theorem program_heap_safe base p args tr c :
  lin_check_prog p = true -> entry_ext p = true -> (0 < base)%Z ->
  hreach base p args tr c ->
  pre_trace (init base) [] tr /\
  hc_heap c = fst (grun tr (init base, [])) /\
  Permutation (snd (grun tr (init base, []))) (roots (hc_env c)) /\
  (exists hl fl cl, InvA base (hc_heap c) (roots (hc_env c)) hl fl cl) /\
  (exists lk, KI lk (hc_heap c) (roots (hc_env c)) /\ env_rep lk (hc_heap c) (hc_env c)) /\
  cfg_wt p (hc_env c) (hc_stmt c).
Proof.
  intros LP EE Hb (d & ds & e & PD & EN & HS).
  pose proof (hinit_wt base p d ds e args LP EE PD EN) as W0.
  pose proof (hinit_inv base d e args Hb EN) as I0.
  destruct (hsteps_safe base p _ _ _ LP W0 I0 HS) as (P & E & R & (lk & IA & K & ER) & W).
  unfold hinit in P, E, R; cbn [hc_env hc_heap] in P, E, R. rewrite attach_nil_roots in P, E, R.
  repeat split; eauto.
Qed.
