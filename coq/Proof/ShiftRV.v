(* C17: the RISC-V back end commutes with the renaming of generated labels ([rv_shift_ok]). *)
From Coq Require Import List ZArith NArith String Ascii Bool Lia.
From SCC Require Import Base.Sexp Lang.AxSyn Model.ParMoves Model.Backend Model.RV Sem.RVWf
  Proof.LabelStrings Proof.LabelGen Proof.LabelShift Proof.LabelsRV.
Import ListNotations.
Local Open Scope string_scope.
Local Open Scope list_scope.

Definition rmap (f : string -> string) (c : rcode) : rcode :=
  match c with
  | JAL x l => JAL x (f l) | LA x l => LA x (f l)
  | BEQ x y l => BEQ x y (f l) | BNE x y l => BNE x y (f l) | BLT x y l => BLT x y (f l)
  | BLE x y l => BLE x y (f l) | BGT x y l => BGT x y (f l) | BGE x y l => BGE x y (f l)
  | LAB l => LAB (f l)
  | c => c
  end.

Section S.
Variable rho : string -> string.
Variables a b : N.
Notation sh := (sh a b).
Notation rn := (map (rmap rho)).
Notation shp := (shp rmap rho a b).
Notation shr := (shr rmap rho a b).
Hypothesis rho_lab : forall k, (a < k)%N -> rho (lab k) = lab (sh k).

Lemma rn_nolab l : forallb nolab l = true -> rn l = l.
Proof.
  induction l as [|c l IH]; intros H; [reflexivity|]. cbn [forallb] in H. apply andb_true_iff in H as [H1 H2].
  cbn [map]. rewrite IH by exact H2. destruct c; try discriminate; reflexivity.
Qed.
Lemma sh1 lc : (a <= lc)%N -> sh (lc + 1) = (sh lc + 1)%N. Proof. unfold LabelShift.sh. lia. Qed.
Lemma sh2 lc : (a <= lc)%N -> sh (lc + 2) = (sh lc + 2)%N. Proof. unfold LabelShift.sh. lia. Qed.

Lemma sk_sh cond body lc : (a <= lc)%N -> skip_if_zero cond (rn body) (sh lc) = shp (skip_if_zero cond body lc).
Proof.
  intros L. unfold skip_if_zero, LabelShift.shp. cbn [fst snd]. rewrite !map_app.
  cbn [map rmap]. rewrite rho_lab by lia. rewrite (sh1 lc L). reflexivity.
Qed.
Lemma ite_sh cond th el lc : (a <= lc)%N ->
  if_zero_then_else cond (rn th) (rn el) (sh lc) = shp (if_zero_then_else cond th el lc).
Proof.
  intros L. unfold if_zero_then_else, LabelShift.shp. cbn [fst snd]. rewrite !map_app. cbn [map rmap].
  rewrite !rho_lab by lia. rewrite (sh1 lc L), (sh2 lc L). reflexivity.
Qed.
Lemma okp_mono lc p : okp lc p -> (lc <= snd p)%N.
Proof. intros [H _]. exact H. Qed.

Lemma erase_sh t lc : (a <= lc)%N -> r_erase_block t (sh lc) = shp (r_erase_block t lc).
Proof.
  intros L. unfold r_erase_block.
  match goal with |- context [if_zero_then_else TEMP ?th ?el (sh lc)] =>
    change (if_zero_then_else TEMP th el (sh lc)) with (if_zero_then_else TEMP (rn th) (rn el) (sh lc));
    rewrite (ite_sh TEMP th el lc L);
    pose proof (okp_mono _ _ (ite_ok lc lc lc TEMP th el (nolab_labs lc th eq_refl) (nolab_labs lc el eq_refl))) as M;
    destruct (if_zero_then_else TEMP th el lc) as [c lc1] end.
  cbn [LabelShift.shp fst snd] in *.
  change ([LW TEMP t REFERENCE_COUNT_OFFSET] ++ rn c) with (rn ([LW TEMP t REFERENCE_COUNT_OFFSET] ++ c)). apply sk_sh. lia.
Qed.
Lemma share_sh t n lc : (a <= lc)%N -> r_share_block_n t n (sh lc) = shp (r_share_block_n t n lc).
Proof. intros L. unfold r_share_block_n. rewrite <- (sk_sh _ _ lc L). reflexivity. Qed.

Lemma erase_fields_sh r t2 : forall l c lc, (a <= lc)%N ->
  fold_left (fun (acc : list rcode * N) (offset : N) =>
               let '(c, lc) := acc in
               let '(c1, lc1) := r_erase_block t2 lc in
               (c ++ [LW t2 r (field_offset Fst offset)] ++ c1, lc1)) l (rn c, sh lc)
  = shp (fold_left (fun (acc : list rcode * N) (offset : N) =>
               let '(c, lc) := acc in
               let '(c1, lc1) := r_erase_block t2 lc in
               (c ++ [LW t2 r (field_offset Fst offset)] ++ c1, lc1)) l (c, lc)).
Proof.
  induction l as [|o l IH]; intros c lc L; cbn [fold_left]; [reflexivity|].
  rewrite (erase_sh t2 lc L). pose proof (okp_mono _ _ (erase_ok t2 lc)) as M.
  destruct (r_erase_block t2 lc) as [c1 lc1]. cbn [LabelShift.shp fst snd] in *.
  rewrite <- IH by lia. rewrite !map_app. reflexivity.
Qed.
Lemma acquire_sh t t2 lc : (a <= lc)%N -> acquire_block t t2 (sh lc) = shp (acquire_block t t2 lc).
Proof.
  intros L. unfold acquire_block, erase_fields.
  pose proof (erase_fields_sh HEAP t2 (nseq 0 FIELDS_PER_BLOCK) [] lc L) as EF. cbn [map] in EF. rewrite EF.
  pose proof (erase_fields_ok HEAP t2 lc (nseq 0 FIELDS_PER_BLOCK) ([], lc) (nolab_labs lc [] eq_refl)) as M1. apply okp_mono in M1.
  destruct (fold_left _ (nseq 0 FIELDS_PER_BLOCK) ([], lc)) as [ef lc1]. cbn [LabelShift.shp fst snd] in *.
  match goal with |- context [if_zero_then_else FREE ?th (?p ++ rn ef) (sh lc1)] =>
    change (if_zero_then_else FREE th (p ++ rn ef) (sh lc1)) with (if_zero_then_else FREE (rn th) (rn (p ++ ef)) (sh lc1)) end.
  rewrite ite_sh by lia.
  destruct (if_zero_then_else FREE _ _ lc1) as [inner lc2] eqn:EI.
  assert (M2 : (lc1 <= lc2)%N) by (unfold if_zero_then_else in EI; inversion EI; lia).
  cbn [LabelShift.shp fst snd].
  match goal with |- context [if_zero_then_else HEAP (?p ++ rn inner) ?el (sh lc2)] =>
    change (if_zero_then_else HEAP (p ++ rn inner) el (sh lc2)) with (if_zero_then_else HEAP (rn (p ++ inner)) (rn el) (sh lc2)) end.
  rewrite ite_sh by lia.
  destruct (if_zero_then_else HEAP _ _ lc2) as [outer lc3]. unfold LabelShift.shp; cbn [fst snd]. rewrite map_app. reflexivity.
Qed.

Ltac sb := apply (same_bind rmap rho a b); intros.
Lemma shr_ok' c l : shr (Ok (c, l)) = Ok (rn c, sh l).
Proof. reflexivity. Qed.

Lemma load_value_sh bd ex blk o m lc : (a <= lc)%N -> load_value bd ex blk o m (sh lc) = shr (load_value bd ex blk o m lc).
Proof.
  intros L. unfold load_value. sb. pose proof (rn_nolab _ (nl_load_field _ _ _ _ _ H)) as R1.
  destruct (bchi bd); [| |rewrite shr_ok', R1; reflexivity].
  all: sb; pose proof (rn_nolab _ (nl_load_field _ _ _ _ _ H0)) as R2; destruct m;
    [rewrite shr_ok', map_app, R1, R2; reflexivity|].
  all: sb; rewrite share_sh by exact L; destruct (r_share_block_n _ 1 lc) as [c3 lc1];
    unfold LabelShift.shp; cbn [fst snd]; rewrite shr_ok', !map_app, R1, R2; reflexivity.
Qed.
Lemma load_values_sh ex blk m : forall l ff lc, (a <= lc)%N ->
  load_values l ex blk ff m (sh lc) = shr (load_values l ex blk ff m lc).
Proof.
  induction l as [|bd l IH]; intros ff lc L; cbn [load_values]; [reflexivity|].
  apply (shr_bind rmap rho a b); [apply load_value_sh; exact L|]. intros c1 lc1 E1.
  destruct (load_value_ok _ _ _ _ _ _ _ _ E1) as [L1 _].
  apply (shr_bind rmap rho a b); [apply IH; lia|]. intros c2 lc2 _. rewrite shr_ok', map_app. reflexivity.
Qed.

Lemma store_fields_sh : forall fuel to_store remaining bp lc, (a <= lc)%N ->
  store_fields fuel to_store remaining bp (sh lc) = shr (store_fields fuel to_store remaining bp lc).
Proof.
  induction fuel as [|fuel IH]; intros to_store remaining bp lc L; cbn [store_fields]; [reflexivity|].
  destruct to_store as [|b0 ts].
  - destruct bp; [|reflexivity]. sb. reflexivity.
  - sb. sb. sb. sb. rewrite acquire_sh by exact L. pose proof (okp_mono _ _ (acquire_ok x1 x2 lc)) as M.
    destruct (acquire_block x1 x2 lc) as [c2 lc2]. unfold LabelShift.shp; cbn [fst snd] in *.
    apply (shr_bind rmap rho a b); [apply IH; lia|]. intros c3 lc3 _. rewrite shr_ok', !map_app.
    assert (N0 : forallb nolab x = true) by (destruct bp; [inversion H; reflexivity|apply (nl_store_field _ _ _ _ _ H)]).
    rewrite (rn_nolab _ N0), (rn_nolab _ (nl_store_values _ _ _ _ _ H0)). reflexivity.
Qed.

Lemma load_fields_sh : forall fuel to_load existing bp m lc, (a <= lc)%N ->
  load_fields fuel to_load existing bp m (sh lc) = shr (load_fields fuel to_load existing bp m lc).
Proof.
  induction fuel as [|fuel IH]; intros to_load existing bp m lc L; cbn [load_fields]; [reflexivity|].
  destruct to_load as [|b0 tl]; [reflexivity|].
  apply (shr_bind rmap rho a b); [apply IH; exact L|]. intros c0 lc0 E0. pose proof (load_fields_ok _ _ _ _ _ _ _ _ E0) as [L0 _].
  sb. sb. assert (N2 : forallb nolab x0 = true) by (destruct bp; [inversion H0; reflexivity|apply (nl_load_field _ _ _ _ _ H0)]).
  apply (shr_bind rmap rho a b); [apply load_values_sh; lia|]. intros c3 lc3 _.
  rewrite shr_ok', !map_app, (rn_nolab _ N2). destruct m; reflexivity.
Qed.

Lemma load_sh to_load existing lc : (a <= lc)%N -> r_load to_load existing (sh lc) = shr (r_load to_load existing lc).
Proof.
  intros L. unfold r_load. destruct to_load as [|b0 tl]; [reflexivity|]. sb.
  apply (shr_bind rmap rho a b); [apply load_fields_sh; exact L|]. intros th lc1 E1. pose proof (load_fields_ok _ _ _ _ _ _ _ _ E1) as [L1 _].
  apply (shr_bind rmap rho a b); [apply load_fields_sh; lia|]. intros eb lc2 E2. pose proof (load_fields_ok _ _ _ _ _ _ _ _ E2) as [L2 _].
  match goal with |- context [if_zero_then_else TEMP (rn th) (?p ++ rn eb) (sh lc2)] =>
    change (if_zero_then_else TEMP (rn th) (p ++ rn eb) (sh lc2)) with (if_zero_then_else TEMP (rn th) (rn (p ++ eb)) (sh lc2)) end.
  rewrite ite_sh by lia. destruct (if_zero_then_else TEMP th _ lc2) as [c lc3].
  unfold LabelShift.shp; cbn [fst snd]. rewrite shr_ok', map_app. reflexivity.
Qed.
Lemma store_sh to_store remaining lc : (a <= lc)%N -> r_store to_store remaining (sh lc) = shr (r_store to_store remaining lc).
Proof. intros L. unfold r_store. apply store_fields_sh. exact L. Qed.

Theorem rv_shift_ok : shift_ok rv_backend rmap rho a b.
Proof.
  constructor; cbn [rv_backend b_label b_mark b_jump b_jump_label b_jump_label_fixed b_jcc2 b_jcc1
    b_load_immediate b_load_label b_add_and_jump b_arith b_mov b_print b_erase b_share_n b_store b_load
    b_store_temporary b_restore_temporary]; try reflexivity.
  - intros s x y l. destruct s; reflexivity.
  - intros s x l. destruct s; reflexivity.
  - intros t i. unfold r_add_and_jump. destruct (addi_fits i); reflexivity.
  - intros o t x y. destruct o; reflexivity.
  - intros t lc. apply erase_sh.
  - intros t n lc. apply share_sh.
  - intros x y lc. apply store_sh.
  - intros x y lc. apply load_sh.
Qed.
End S.
