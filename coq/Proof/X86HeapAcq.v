(* C06, heap statements: the blocks `Heap.alloc_object` acquires, in the order of acquisition (the block
   reserved in the HEAP register at the start of every round of memory.rs `store_fields`: the last block of
   the object first, its head last). *)
From Coq Require Import List ZArith Lia.
From SCC Require Model.Heap.
Import ListNotations.
Open Scope Z_scope.

Fixpoint chain_acq (fuel : nat) (rest : list Z) (link : Z) (a : Heap.st) : list Z :=
  match fuel with
  | O => []
  | S f =>
      match rest with
      | [] => []
      | _ => Heap.heap a ::
             chain_acq f (Heap.butlastn 2 rest)
               (fst (Heap.alloc (Heap.pad 2 (Heap.lastn 2 rest) ++ [link]) a))
               (snd (Heap.alloc (Heap.pad 2 (Heap.lastn 2 rest) ++ [link]) a))
      end
  end.
Definition alloc_object_acq (fields : list Z) (a : Heap.st) : list Z :=
  match fields with
  | [] => []
  | _ => Heap.heap a ::
         chain_acq (List.length fields) (Heap.butlastn 3 fields)
           (fst (Heap.alloc (Heap.pad 3 (Heap.lastn 3 fields)) a))
           (snd (Heap.alloc (Heap.pad 3 (Heap.lastn 3 fields)) a))
  end.
