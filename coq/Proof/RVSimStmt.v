(* C08, forward simulation of the RISC-V code generator, part 3: statement-level simulation lemmas
   for Literal, Op (defined and undefined results), IfC (all 12 jump forms), Exit, Call and Substitute,
   for EVERY context within capacity (any aliasing of operands).  Compositions of the selection lemmas
   of Proof/RVSel.v and of the substitution theorems of Proof/RVSubst.v with the state relation of
   Proof/RVSimRel.v. *)
From Coq Require Import List ZArith NArith String Bool Lia FMapPositive Permutation.
From SCC Require Import Base.Sexp Lang.AxSyn Sem.AxSem Model.ParMoves Model.Backend Model.RV Sem.RVSem Sem.RVWf
     Model.Linearize Model.LinCheck Generated.Constants Proof.LinBasics
     Proof.RVSel Proof.SubstGraph Proof.SubstBackends Proof.RVSubst Proof.RVSimAddr Proof.BackendInv Proof.RVSimRel.
From SCC Require Proof.A64PM.
Import ListNotations.
Open Scope Z_scope.
Open Scope list_scope.

(* what a piece of code leaves alone in memory *)
Definition same_mem (s s' : rstate) : Prop := forall a, hword s' a = hword s a.
Lemma same_mem_refl s : same_mem s s. Proof. intros a; reflexivity. Qed.
Lemma same_mem_trans s1 s2 s3 : same_mem s1 s2 -> same_mem s2 s3 -> same_mem s1 s3.
Proof. intros A B a. now rewrite B, A. Qed.
Lemma same_mem_rset s t v : same_mem s (rset s t v).
Proof. intros a. apply hword_rset. Qed.

Lemma padd_1' pc : padd pc 1 = Pos.succ pc. Proof. reflexivity. Qed.

Section Sim.
Variable im : image.
Variable CL : Z -> ident -> list clause -> Prop.
Local Notation rrel := (rrel CL).

(* a register write into the second register of a new last integer position *)
Lemma rr_push_int c e s v z t :
  rrel c e s -> NoDup (ids (c ++ [mkb v Ext I64])) -> rtpos Snd (List.length c) = Ok t ->
  rrel (c ++ [mkb v Ext I64]) (e ++ [(v, VInt z)]) (rset s t (Some z)).
Proof.
  intros R ND T. apply (rr_push CL c e s _ (mkb v Ext I64) (VInt z) R ND).
  - intros r NR _. apply rget_rset_other. intros E. subst r. exact (NR Snd T).
  - eapply vrep_int; eauto. apply rget_rset_same. apply rtpos_regs in T. tauto.
Qed.

(* ---------- Literal ---------- *)
Theorem sim_literal c e s n v tv pc :
  rrel c e s -> NoDup (ids (c ++ [mkb v Ext I64])) ->
  rvt (c ++ [mkb v Ext I64]) (idn v) = Ok tv ->
  at_code im pc (r_load_immediate tv n) ->
  exists s', star im pc s (padd pc 1) s' /\
             rrel (c ++ [mkb v Ext I64]) (e ++ [(v, VInt n)]) s' /\ same_mem s s'.
Proof.
  intros R ND TV CA. apply (rvt_fresh c (mkb v Ext I64) tv ND) in TV.
  exists (rset s tv (Some n)). split; [|split; [now apply rr_push_int|apply same_mem_rset]].
  eapply star_next; [exact CA|reflexivity].
Qed.

(* ---------- Op ---------- *)
Lemma op_temps c e s a b v x y tv ta tb :
  rrel c e s -> NoDup (ids (c ++ [mkb v Ext I64])) ->
  lookup_int e a = Some x -> lookup_int e b = Some y ->
  rvt (c ++ [mkb v Ext I64]) (idn v) = Ok tv ->
  rvt (c ++ [mkb v Ext I64]) (idn a) = Ok ta -> rvt (c ++ [mkb v Ext I64]) (idn b) = Ok tb ->
  rtpos Snd (List.length c) = Ok tv /\ rget s ta = Some x /\ rget s tb = Some y.
Proof.
  intros R ND LA LB TV TA TB. apply (rvt_fresh c (mkb v Ext I64) tv ND) in TV.
  destruct (rr_operand_app CL c _ e s a x ta R ND LA TA) as (VA & _).
  destruct (rr_operand_app CL c _ e s b y tb R ND LB TB) as (VB & _). auto.
Qed.

Theorem sim_op c e s a o b v x y z tv ta tb pc :
  rrel c e s -> NoDup (ids (c ++ [mkb v Ext I64])) ->
  lookup_int e a = Some x -> lookup_int e b = Some y -> eval_op o x y = OpVal z ->
  rvt (c ++ [mkb v Ext I64]) (idn v) = Ok tv ->
  rvt (c ++ [mkb v Ext I64]) (idn a) = Ok ta -> rvt (c ++ [mkb v Ext I64]) (idn b) = Ok tb ->
  at_code im pc (r_arith o tv ta tb) ->
  exists s', star im pc s (padd pc 1) s' /\
             rrel (c ++ [mkb v Ext I64]) (e ++ [(v, VInt z)]) s' /\ same_mem s s'.
Proof.
  intros R ND LA LB EV TV TA TB CA.
  destruct (op_temps c e s a b v x y tv ta tb R ND LA LB TV TA TB) as (TV' & VA & VB).
  exists (rset s tv (Some z)). split; [|split; [now apply rr_push_int|apply same_mem_rset]].
  destruct (rv_arith_sel im 0 o tv ta tb s x y VA VB) as (ci & E & _). cbn [b_arith rv_backend] in E. rewrite E in CA.
  eapply star_next; [exact CA|]. intros ad.
  destruct (rv_arith_sel im ad o tv ta tb s x y VA VB) as (ci' & E' & ST). cbn [b_arith rv_backend] in E'.
  assert (ci' = ci) by congruence. subst ci'. rewrite ST, EV. reflexivity.
Qed.

(* the undefined cases of div and rem: the one instruction reports them *)
Theorem sim_op_undef c e s a o b v x y w tv ta tb :
  rrel c e s -> NoDup (ids (c ++ [mkb v Ext I64])) ->
  lookup_int e a = Some x -> lookup_int e b = Some y -> eval_op o x y = OpUndef w ->
  rvt (c ++ [mkb v Ext I64]) (idn v) = Ok tv ->
  rvt (c ++ [mkb v Ext I64]) (idn a) = Ok ta -> rvt (c ++ [mkb v Ext I64]) (idn b) = Ok tb ->
  exists ci, r_arith o tv ta tb = [ci] /\ forall ad, step im ad ci s = Undefd w s.
Proof.
  intros R ND LA LB EV TV TA TB.
  destruct (op_temps c e s a b v x y tv ta tb R ND LA LB TV TA TB) as (TV' & VA & VB).
  destruct (rv_arith_sel im 0 o tv ta tb s x y VA VB) as (ci & E & _). cbn [b_arith rv_backend] in E.
  exists ci. split; [exact E|]. intros ad.
  destruct (rv_arith_sel im ad o tv ta tb s x y VA VB) as (ci' & E' & ST). cbn [b_arith rv_backend] in E'.
  assert (ci' = ci) by congruence. subst ci'. rewrite ST, EV. reflexivity.
Qed.

(* ---------- IfC: one conditional jump (12 forms: six sorts, one or two operands) ---------- *)
Theorem sim_ifc c e s so a b x y types thenc elsec lc code lc' pc :
  rrel c e s -> lookup_int e a = Some x ->
  match b with Some b => lookup_int e b | None => Some 0 end = Some y ->
  rcs types (IfC so a b thenc elsec) c lc = Ok (code, lc') ->
  placed im pc code ->
  exists c2 lc2 c3,
    code = [jcc so (match rvt c (idn a) with Ok t => t | Err _ => 0%N end)
                   (match b with Some b => match rvt c (idn b) with Ok t => t | Err _ => 0%N end | None => ZERO end) (iflabel lc)]
           ++ c2 ++ [LAB (iflabel lc)] ++ c3 /\
    rcs types elsec c (lc + 1)%N = Ok (c2, lc2) /\ rcs types thenc c lc2 = Ok (c3, lc') /\
    star im pc s (if eval_cmp so x y then padd pc (1 + List.length c2 + 1) else padd pc 1) s.
Proof.
  intros R LA LB CS [CA LO].
  destruct (cs_ifc _ _ _ _ _ _ _ _ _ _ _ CS) as (ta & c1 & c2 & lc2 & c3 & TA & C1 & EL & TH & ->).
  cbn [b_mark rv_backend app b_label] in *. exists c2, lc2, c3. rewrite TA.
  destruct (rr_operand CL c e s a x ta R LA TA) as (VA & _).
  assert (PRE : exists tb, c1 = [jcc so ta tb (iflabel lc)] /\ rget s tb = Some y /\
                 tb = match b with Some b => match rvt c (idn b) with Ok t => t | Err _ => 0%N end | None => ZERO end).
  { destruct b as [b|].
    - destruct C1 as (tb & TB & ->). destruct (rr_operand CL c e s b y tb R LB TB) as (VB & _).
      exists tb. rewrite TB. cbn [b_jcc2 rv_backend]. auto.
    - inversion LB; subst y. exists ZERO. cbn [b_jcc1 rv_backend] in C1. auto. }
  destruct PRE as (tb & -> & VB & <-). split; [reflexivity|]. split; [exact EL|]. split; [exact TH|].
  cbn [app] in CA, LO.
  assert (LL : nth_error (jcc so ta tb (iflabel lc) :: c2 ++ LAB (iflabel lc) :: c3) (1 + List.length c2) = Some (LAB (iflabel lc))).
  { cbn [Nat.add nth_error]. apply nth_error_mid. }
  pose proof (LO _ _ LL) as FL.
  assert (ST : forall ad, step im ad (jcc so ta tb (iflabel lc)) s = if eval_cmp so x y then Jump s (padd pc (1 + List.length c2)) else Next s).
  { intros ad. destruct so; cbn [jcc step]; unfold branch, need; rewrite VA, VB; cbv iota beta;
      (match goal with |- (if ?g then _ else _) = _ => destruct g end); unfold goto_label; rewrite ?FL; reflexivity. }
  destruct (eval_cmp so x y).
  - eapply star_trans; [eapply star_jump; [exact CA|exact ST]|].
    destruct (CA _ _ LL) as (HC & (ad & HA)).
    eapply star_step; [eapply one_next; [exact HC|exact HA|reflexivity]|].
    rewrite <- padd_succ. change (padd (Pos.succ pc) (1 + List.length c2)) with (padd pc (S (1 + List.length c2))).
    replace (S (1 + List.length c2)) with (1 + List.length c2 + 1)%nat by lia. apply star_refl.
  - eapply star_next; [exact CA|exact ST].
Qed.

(* ---------- Exit: the result reaches X10, then control goes to `cleanup` ---------- *)
Theorem sim_exit c e s v z types lc code lc' pc stop :
  rrel c e s -> lookup_int e v = Some z ->
  rcs types (Exit v) c lc = Ok (code, lc') -> at_code im pc code ->
  find_label (labels im) "cleanup" = Some stop ->
  exists s', star im pc s stop s' /\ final_check s' = OExit z /\ same_mem s s'.
Proof.
  intros R LV CS CA FL.
  destruct (cs_exit _ _ _ _ _ _ _ CS) as (tv & TV & -> & _). cbn [b_mark b_mov b_return1 b_jump_label rv_backend app r_mov r_jump_label] in CA.
  destruct (rr_operand CL c e s v z tv R LV TV) as (VV & _).
  exists (rset s RETURN1 (rget s tv)). split; [|split].
  - eapply star_trans; [eapply star_next; [exact CA|reflexivity]|].
    apply at_code_cons in CA as [_ CA].
    eapply (star_jump im _ _ _ _ (rset s RETURN1 (rget s tv))); [exact CA|]. intros ad. cbn [step]. unfold goto_label. rewrite FL. reflexivity.
  - unfold final_check. rewrite rget_rset_same by discriminate. now rewrite VV.
  - apply same_mem_rset.
Qed.

(* ---------- Call: a jump to the callee's label ---------- *)
Theorem sim_call s types l args c lc cd lc' pc pcd :
  rcs types (Call l args) c lc = Ok (cd, lc') -> at_code im pc cd ->
  find_label (labels im) (show_ident l +++ "_") = Some pcd ->
  (exists a, PM.find pcd (code im) = Some (LAB (show_ident l +++ "_")) /\ PM.find pcd (addr_of im) = Some a) ->
  star im pc s (Pos.succ pcd) s.
Proof.
  intros CS CA FL (a & HC & HA). destruct (cs_call _ _ _ _ _ _ _ _ CS) as (-> & _).
  cbn [b_mark b_jump_label rv_backend app r_jump_label] in CA.
  eapply star_trans; [eapply (star_jump im _ _ _ _ s); [exact CA|]|].
  - intros ad. cbn [step]. unfold goto_label. rewrite FL. reflexivity.
  - eapply star_step; [eapply one_next; [exact HC|exact HA|reflexivity]|apply star_refl].
Qed.
End Sim.

(* ================= Substitute ================= *)
(* in a context of integers no reference count is touched *)
Lemma cwc_int tm c : forall lc,
  (forall b tg, In (b, tg) tm -> bchi b = Ext) -> code_weakening_contraction rv_backend tm c lc = Ok ([], lc).
Proof.
  induction tm as [|[b tg] tm IH]; intros lc H; cbn [code_weakening_contraction]; [reflexivity|].
  rewrite (H b tg (or_introl eq_refl)). apply IH. intros b' tg' Hin. apply (H b' tg'). now right.
Qed.

Section Sim3.
Variable im : image.
Variable CL : Z -> ident -> list clause -> Prop.
Local Notation rrel := (rrel CL).

(* the registers of a source position and of a new position it is assigned to are joined by an edge of
   the move graph, because the moves were emitted *)
Lemma subst_edge c re am n i bi j pj :
  NoDup (ids c) -> NoDup (new_ids re) ->
  connections rv_backend (transpose re c) c (map fst re) = Ok am ->
  nth_error c i = Some bi -> allowed n bi -> nth_error re j = Some pj -> idn (snd pj) = idn (bvar bi) ->
  exists ta tb, rtpos n i = Ok ta /\ rtpos n j = Ok tb /\ edge rtemp rv_teqb am ta tb.
Proof.
  intros NDc NDn CN Hbi AL Hre EQ.
  destruct (all_ok rv_backend rv_backend_ok c re am NDc NDn CN n i bi Hbi AL) as (a & ts & K & _).
  pose proof (connections_edges rv_backend rv_backend_ok c re am NDc NDn CN) as EDG.
  unfold op_kv in K. rewrite (vt_tpos rv_backend n c i bi NDc Hbi) in K.
  destruct (rtpos n i) as [ta|] eqn:TA; cbn [rbind] in K; [|discriminate].
  destruct (rmap _ (targets re bi)) as [ts0|] eqn:RM; cbn [rbind] in K; [|discriminate].
  apply rmap_Forall2 in RM.
  assert (In (idn (bvar (fst pj))) (targets re bi)) as I.
  { unfold targets. apply in_map_iff. exists pj. split; auto. apply filter_In. split.
    - eapply nth_error_In; eauto.
    - apply N.eqb_eq. congruence. }
  destruct (Forall2_In_l _ _ _ _ RM I) as (tb & _ & Vy). cbn beta in Vy.
  rewrite (vt_tpos_new rv_backend n re j pj NDn Hre) in Vy.
  exists ta, tb. split; [reflexivity|]. split; [exact Vy|]. apply EDG. exists i, j, bi, pj, n. repeat split; auto.
Qed.

(* Substitute, any mix of integer and closure variables: the reference-count code (one skipped erase /
   share per closure variable that is dropped / duplicated: the block pointer of a closure without
   captured variables is null) followed by the parallel moves leaves the machine's rearranged
   environment in the registers of the new context *)
Theorem sim_substitute c e s re vs e' c1 lc lc1 c2 pc :
  rrel c e s -> NoDup (new_ids re) ->
  (forall q, In q re -> has c (snd q) (bchi (fst q)) (bty (fst q)) = true) ->
  lookups e (map snd re) = Some vs -> bind (map (fun r => bvar (fst r)) re) vs = Some e' ->
  code_weakening_contraction rv_backend (transpose re c) c lc = Ok (c1, lc1) ->
  code_exchange rv_backend (transpose re c) c (map fst re) = Ok c2 ->
  placed im pc (c1 ++ c2) ->
  exists s', star im pc s (padd pc (List.length (c1 ++ c2))) s' /\ rrel (map fst re) e' s' /\ same_mem s s'.
Proof.
  intros R NDn KIND LK BD WC CE PL.
  pose proof (rr_nodup R) as NDc. pose proof (rr_length R) as LEN.
  apply placed_app in PL as [PL1 [CA2 _]].
  unfold code_exchange in CE.
  destruct (connections rv_backend (transpose re c) c (map fst re)) as [am|] eqn:CN; cbn [rbind] in CE; [|discriminate].
  (* every new variable has a source position of the same kind and type *)
  assert (SRC : forall j pj, nth_error re j = Some pj ->
            exists i bi, nth_error c i = Some bi /\ idn (bvar bi) = idn (snd pj) /\
                         bchi bi = bchi (fst pj) /\ bty bi = bty (fst pj)).
  { intros j pj Hj. specialize (KIND pj (nth_error_In _ _ Hj)). unfold has in KIND.
    destruct (lookup_b c (idn (snd pj))) as [bi|] eqn:LB; [|discriminate].
    apply lookup_b_Some in LB as [Hin Hid]. apply andb_true_iff in KIND as [K1 K2].
    apply chi_eqb_eq in K1. apply ty_eqb_eq in K2. apply In_nth_error in Hin as (i & Hi). eauto 8. }
  (* at most 14 new variables: each has registers *)
  assert (LR : (List.length re <= 14)%nat).
  { destruct (Nat.le_gt_cases (List.length re) 14) as [L|L]; [lia|]. exfalso.
    destruct (nth_error re 14) as [pj|] eqn:Hj; [|apply nth_error_None in Hj; lia].
    destruct (SRC _ _ Hj) as (i & bi & Hi & Ei & _).
    destruct (subst_edge c re am Snd i bi 14%nat pj NDc NDn CN Hi (or_introl eq_refl) Hj (eq_sym Ei)) as (_ & tb & _ & Tb & _).
    apply rtpos_val in Tb. lia. }
  (* phase 1: reference counts, all on null pointers *)
  destruct (weakening_contraction_counts rv_backend c re lc c1 lc1 NDc WC) as (order & PERM & _ & ORD & ops & F2 & EM).
  assert (OBJ : forall i b, In (i, b) order -> is_obj b = true).
  { intros i b Hin. assert (In b (map snd order)) as Hb by (apply in_map_iff; exists (i, b); auto).
    eapply Permutation_in in Hb; [|exact PERM]. apply filter_In in Hb. tauto. }
  assert (NULL : forall i b t, In (i, b) order -> rtpos Fst i = Ok t -> rget s t = Some 0).
  { intros i b t Hin Ht. pose proof (ORD i b Hin) as Hnth. pose proof (OBJ i b Hin) as Ho.
    assert (Li : (i < List.length e)%nat) by (rewrite LEN; apply nth_error_Some; congruence).
    destruct (nth_error e i) as [[y v]|] eqn:He; [|apply nth_error_None in He; lia].
    destruct (rr_vals R i y v He) as (b' & Hb' & V). assert (b' = b) by congruence. subst b'.
    inversion V; subst.
    - unfold is_obj in Ho. match goal with H : bchi b = Ext |- _ => rewrite H in Ho end. discriminate.
    - congruence. }
  assert (RCOK : Forall (rc_ok s) (List.concat ops)).
  { apply Forall_concat. clear EM PERM. induction F2 as [|[i b] o order' ops' (t & Ht & ->) _ IHF]; constructor.
    - cbn [fst snd] in *.
      pose proof (rtpos_ok Fst i t Ht) as T4.
      pose proof (NULL i b t (or_introl eq_refl) Ht) as Hp.
      pose proof (count_targets_le re b) as LE.
      destruct (count_targets re b) as [|[|k]]; cbn [rc_op_for].
      + constructor; [|constructor]. unfold rc_ok; cbn [rc_temp]. split; [exact T4|split; [exists 0; auto|exact I]].
      + constructor.
      + constructor; [|constructor]. unfold rc_ok; cbn [rc_temp]. split; [exact T4|split; [exists 0; auto|]].
        unfold fits12. apply andb_true_iff. split; apply Z.leb_le; lia.
    - apply IHF; intros; [apply ORD|eapply OBJ|eapply NULL]; try right; eauto. }
  assert (EMc : c1 = fst (emit_rc rv_backend (List.concat ops) lc)) by (now rewrite <- EM).
  destruct (rr_heap R) as (h0 & HP). destruct (rr_free R) as (f0 & FR).
  set (ah := {| words := hword s; hp := h0; fp := f0 |}).
  assert (RP : represents s ah) by (repeat split; auto).
  rewrite EMc in PL1.
  destruct (rv_emit_rc_ok im s (List.concat ops) pc lc s ah RCOK (fun r _ _ => eq_refl) PL1 RP) as (s1 & X1 & X2 & X4).
  rewrite <- EMc in X1.
  (* null pointers: the abstract heap is unchanged *)
  assert (ID : fold_left (fun h o => rc_a s o h) (List.concat ops) ah = ah).
  { clear -NULL F2 ORD. generalize ah.
    assert (Z0 : Forall (fun o => ptr_of s (rc_temp o) = 0) (List.concat ops)).
    { apply Forall_concat. induction F2 as [|[i b] o order' ops' (t & Ht & ->) _ IHF]; constructor.
      - cbn [fst snd] in *. pose proof (NULL i b t (or_introl eq_refl) Ht) as Hp.
        destruct (count_targets re b) as [|[|k]]; cbn [rc_op_for]; repeat constructor; cbn [rc_temp]; unfold ptr_of; now rewrite Hp.
      - apply IHF; intros; [apply ORD|eapply NULL]; try right; eauto. }
    induction Z0 as [|o l Ho _ IH]; intros hh; cbn [fold_left]; [reflexivity|].
    rewrite <- (IH hh) at 2. f_equal. destruct o; cbn [rc_a rc_temp] in *; rewrite Ho; reflexivity. }
  rewrite ID in X2. destruct X2 as (W1 & HP1 & FR1). cbn [words hp fp ah] in W1, HP1, FR1.
  (* phase 2: the parallel moves *)
  destruct (transpose_connections_indeg1 rv_backend rv_backend_ok c re am NDc NDn CN) as (IDG & NT & SRT & KEYS).
  pose proof (connections_edges rv_backend rv_backend_ok c re am NDc NDn CN) as EDG.
  assert (NDK : NoDup (map fst am)).
  { apply (sorted_nodup N.compare (cmp_eq rv_backend rv_backend_ok)). exact SRT. }
  assert (VTam : forall t, In t (map fst am) \/ In t (all_targets rtemp am) -> (4 <= t)%N).
  { intros t [Hk|Ht].
    - destruct (KEYS t Hk) as (k & bk & n & _ & _ & Hp). apply (rtpos_ok n k t Hp).
    - unfold all_targets in Ht. apply in_flat_map in Ht as ([k ts] & Hin & Ht). cbn [snd] in Ht.
      assert (edge rtemp rv_teqb am k t) as E.
      { exists ts. split; [|exact Ht]. apply lookup_of_In; auto. }
      apply EDG in E as (k' & j & bk & pj & n & _ & _ & _ & _ & _ & Hb). apply (rtpos_ok n j t Hb). }
  assert (AMOK : A64PM.amap_ok rtemp rv_operand_ok am).
  { intros k ts Hin. split.
    - assert (4 <= k)%N as K4 by (apply VTam; left; apply in_map_iff; exists (k, ts); auto).
      destruct (four_le k K4) as (A & B & _). split; assumption.
    - apply Forall_forall. intros t Ht.
      assert (4 <= t)%N as T4 by (apply VTam; right; unfold all_targets; apply in_flat_map; exists (k, ts); auto).
      destruct (four_le t T4) as (A & B & _). split; assumption. }
  destruct (rv_parallel_moves_ok im (padd pc (List.length c1)) am c2 s1 IDG NT AMOK CE CA2) as (s2 & E2 & H2 & W2 & P1 & P2).
  assert (KEEP : forall u, (u = HEAP \/ u = FREE) -> rget s2 u = rget s1 u).
  { intros u Hu. apply P2.
    - unfold rv_operand_ok. change ZERO with 0%N. change TEMP with 1%N. change HEAP with 2%N in Hu. change FREE with 3%N in Hu. lia.
    - intros a E. apply EDG in E as (k & j & bk & pj & n & _ & _ & _ & _ & _ & Hb). apply rtpos_regs in Hb. destruct Hu; subst; tauto. }
  exists s2. split; [rewrite app_length, padd_add; eapply star_trans; eauto|]. split.
  - split.
    + exists h0. rewrite KEEP by auto. exact HP1.
    + exists f0. rewrite KEEP by auto. exact FR1.
    + unfold env_ids. rewrite <- (map_map fst idn), (XS.bind_ids _ _ _ BD). unfold ids. now rewrite !map_map.
    + now rewrite ids_new.
    + intros j x v Hj.
      destruct (XS.bind_nth _ _ _ _ _ _ BD Hj) as (Hx & Hv).
      rewrite nth_error_map in Hx. destruct (nth_error re j) as [pj|] eqn:Hre; [|discriminate]. cbn in Hx. inversion Hx; subst x.
      exists (fst pj). split; [now rewrite nth_error_map, Hre|].
      destruct (XS.lookups_nth e (map snd re) vs j (snd pj) LK) as (v' & Hv' & LV).
      { now rewrite nth_error_map, Hre. }
      assert (v' = v) by congruence. subst v'.
      unfold lookup_id in LV. destruct (XR.lookup_nth e _ _ LV) as (i & y & Hi & Ey).
      destruct (rr_vals R i y v Hi) as (bi & Hbi & V).
      destruct (SRC j pj Hre) as (i' & bi' & Hi' & Ei' & KC & KT).
      assert (i' = i).
      { destruct (XR.env_ctx_nth c e i y v (rr_ids R) Hi) as (b0 & Hb0 & Eb0).
        eapply (ids_nth_inj c i' i bi' b0); eauto. congruence. }
      subst i'. assert (bi' = bi) by congruence. subst bi'.
      assert (MV : forall n ta, allowed n bi -> rtpos n i = Ok ta -> exists tb, rtpos n j = Ok tb /\ rget s2 tb = rget s ta).
      { intros n ta AL Ta.
        destruct (subst_edge c re am n i bi j pj NDc NDn CN Hbi AL Hre (eq_sym Ei')) as (ta' & tb & Ta' & Tb & ED).
        assert (ta' = ta) by congruence. subst ta'. exists tb. split; [exact Tb|].
        rewrite (P1 ta tb ED). destruct (rtpos_regs n i ta Ta) as (_ & A1 & _ & A3). now apply X4. }
      inversion V; subst.
      * match goal with H : rtpos Snd i = Ok _ |- _ => destruct (MV Snd _ (or_introl eq_refl) H) as (tb & Tb & Lb) end.
        eapply vrep_int; eauto; congruence.
      * assert (AL : forall n, allowed n bi) by (intros n; right; congruence).
        match goal with H1 : rtpos Fst i = Ok _, H2 : rtpos Snd i = Ok _ |- _ =>
          destruct (MV Fst _ (AL Fst) H1) as (tb1 & Tb1 & Lb1); destruct (MV Snd _ (AL Snd) H2) as (tb2 & Tb2 & Lb2) end.
        eapply vrep_clo; eauto; congruence.
  - intros a. unfold hword. rewrite H2. apply W1.
Qed.
End Sim3.
