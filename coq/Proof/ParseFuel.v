(* C18: the fuel of the parser model (Model/Parser.v) never influences its answer.
   [parse ts] runs p_decls with S |ts| iterations and fuel 8|ts|+16 for the recursive descent.  Here:
     - every parsing function returns a strictly shorter token list (p_postfix and the optional lists: not longer);
     - for n, m >= 8|ts| + level, p_X n ts = p_X m ts (levels: Term 4, Term3 3, Term2 2, everything else 1);
     - hence p_decls m n ts = parse's call for every m > |ts|, n >= fuel_of ts: an answer None of [parse] is a
       genuine reject of the grammar model, never an exhausted counter. *)
From Coq Require Import List ZArith NArith String Ascii Bool Lia.
From SCC Require Import Base.Sexp Lang.SynUtil Lang.FunSyn Model.Printer Model.Parser.
Import ListNotations.
Open Scope string_scope.

Definition shorter {X} (f : list token -> pr X) : Prop :=
  forall ts x r, f ts = Some (x, r) -> List.length r < List.length ts.
Definition nolonger {X} (f : list token -> pr X) : Prop :=
  forall ts x r, f ts = Some (x, r) -> List.length r <= List.length ts.

Lemma expect_len y ts r : expect y ts = Some r -> List.length ts = S (List.length r).
Proof.
  unfold expect. destruct ts as [|[] ts]; try discriminate.
  destruct (sym_eqb y y0); [|discriminate]. intros [= ->]. reflexivity.
Qed.

(* inversion of a bind in a hypothesis *)
Ltac inv_obind H :=
  match type of H with
  | obind ?e _ = Some _ =>
      let E := fresh "E" in
      destruct e as [?|] eqn:E; [cbn [obind] in H | discriminate H]
  end.

Lemma comma_loop_len {X} (item : list token -> pr X) close :
  shorter item -> forall m, nolonger (comma_loop item close m) /\
                            forall ts l r, comma_loop item close m ts = Some (l, r) -> List.length r < List.length ts.
Proof.
  intros Hi m.
  assert (A : forall ts l r, comma_loop item close m ts = Some (l, r) -> List.length r < List.length ts).
  { induction m as [|m IH]; intros ts l r H; [discriminate H|].
    cbn [comma_loop] in H.
    destruct (expect close ts) as [r0|] eqn:E0.
    - injection H as <- <-. apply expect_len in E0. lia.
    - inv_obind H. destruct p as [x r1]. apply Hi in E.
      destruct (expect SComma r1) as [r'|] eqn:E1.
      + inv_obind H. destruct p as [l' r'']. injection H as <- <-.
        apply expect_len in E1. apply IH in E2. lia.
      + inv_obind H. injection H as <- <-. apply expect_len in E2. lia. }
  split; [|exact A]. intros ts l r H. apply A in H. lia.
Qed.
Lemma comma_loop_shorter {X} (item : list token -> pr X) close m : shorter item -> shorter (comma_loop item close m).
Proof. intros Hi ts l r H. exact (proj2 (comma_loop_len item close Hi m) ts l r H). Qed.

Lemma p_ty_shorter : forall n, shorter (p_ty n).
Proof.
  induction n as [|n IH]; intros ts x r H; [discriminate H|].
  cbn [p_ty] in H.
  destruct ts as [|t ts]; [discriminate H|].
  destruct t; try discriminate H.
  - destruct ts as [|t' ts'].
    + injection H as <- <-. cbn. lia.
    + destruct t'; try (injection H as <- <-; cbn; lia).
      destruct y; try (injection H as <- <-; cbn; lia).
      inv_obind H. destruct p as [args r']. injection H as <- <-.
      apply (comma_loop_shorter (p_ty n) SRBrack n IH) in E. cbn [List.length] in *. lia.
  - destruct k; try discriminate H. injection H as <- <-. cbn. lia.
Qed.

Lemma p_opttyargs_nolonger n : nolonger (p_opttyargs n).
Proof.
  intros ts x r H. unfold p_opttyargs in H.
  destruct ts as [|t ts]; [injection H as <- <-; lia|].
  destruct t; try (injection H as <- <-; lia).
  destruct y; try (injection H as <- <-; lia).
  apply (comma_loop_shorter (p_ty n) SRBrack n (p_ty_shorter n)) in H. cbn [List.length]. lia.
Qed.
Lemma p_lower_shorter : shorter p_lower.
Proof. intros ts x r H. unfold p_lower in H. destruct ts as [|[] ts]; try discriminate H. injection H as <- <-. cbn. lia. Qed.
Lemma p_upper_shorter : shorter p_upper.
Proof. intros ts x r H. unfold p_upper in H. destruct ts as [|[] ts]; try discriminate H. injection H as <- <-. cbn. lia. Qed.
Lemma p_optnames_nolonger n : nolonger (p_optnames n).
Proof.
  intros ts x r H. unfold p_optnames in H.
  destruct ts as [|t ts]; [injection H as <- <-; lia|].
  destruct t; try (injection H as <- <-; lia).
  destruct y; try (injection H as <- <-; lia).
  apply (comma_loop_shorter p_lower SRPar n p_lower_shorter) in H. cbn [List.length]. lia.
Qed.
Lemma p_opttypectx_nolonger n : nolonger (p_opttypectx n).
Proof.
  intros ts x r H. unfold p_opttypectx in H.
  destruct ts as [|t ts]; [injection H as <- <-; lia|].
  destruct t; try (injection H as <- <-; lia).
  destruct y; try (injection H as <- <-; lia).
  apply (comma_loop_shorter p_upper SRBrack n p_upper_shorter) in H. cbn [List.length]. lia.
Qed.
Lemma p_binding_shorter n : shorter (p_binding n).
Proof.
  intros ts x r H. unfold p_binding in H.
  destruct ts as [|t ts]; [discriminate H|]. destruct t; try discriminate H.
  destruct ts as [|t' ts']; [discriminate H|]. destruct t'; try discriminate H.
  - destruct y; try discriminate H. inv_obind H. destruct p as [t r']. injection H as <- <-.
    apply p_ty_shorter in E. cbn [List.length]. lia.
  - inv_obind H. destruct p as [t r']. injection H as <- <-. apply p_ty_shorter in E. cbn [List.length]. lia.
Qed.
Lemma p_optctx_nolonger n : nolonger (p_optctx n).
Proof.
  intros ts x r H. unfold p_optctx in H.
  destruct ts as [|t ts]; [injection H as <- <-; lia|].
  destruct t; try (injection H as <- <-; lia).
  destruct y; try (injection H as <- <-; lia).
  apply (comma_loop_shorter (p_binding n) SRPar n (p_binding_shorter n)) in H. cbn [List.length]. lia.
Qed.

(* ---- the seven mutually recursive functions ---- *)
Definition terms_shorter (n : nat) : Prop :=
  shorter (p_term n) /\ shorter (p_term3 n) /\ shorter (p_block n) /\ shorter (p_term2 n) /\ shorter (p_term1 n)
  /\ (forall e b, nolonger (p_postfix n e b)) /\ (forall pol, shorter (p_clause n pol)).

Ltac len_step H :=
  match type of H with
  | Some _ = Some _ => injection H as <- <-
  | None = Some _ => discriminate H
  | obind ?e _ = Some _ => let E := fresh "E" in destruct e as [?|] eqn:E; [cbn [obind] in H | discriminate H]
  | (let (_, _) := ?p in _) = Some _ => destruct p
  | (if ?b then _ else _) = Some _ => destruct b
  | (match ?x with _ => _ end) = Some _ => destruct x
  end.

Lemma terms_shorter_all : forall n, terms_shorter n.
Proof.
  induction n as [|n IH].
  - repeat split; intros; intros ? ? ? H; discriminate H.
  - destruct IH as (I1 & I3 & Ib & I2 & I1' & Ip & Ic).
    assert (Lt : forall c m, shorter (comma_loop (p_term n) c m)) by (intros; apply comma_loop_shorter; exact I1).
    assert (Lc : forall pol c m, shorter (comma_loop (p_clause n pol) c m)) by (intros; apply comma_loop_shorter; apply Ic).
    Ltac fin I1 I3 Ib I2 I1' Ip Ic Lt Lc :=
      repeat match goal with
        | E : expect _ _ = Some _ |- _ => apply expect_len in E
        | E : p_term _ _ = Some _ |- _ => apply I1 in E
        | E : p_term3 _ _ = Some _ |- _ => apply I3 in E
        | E : p_block _ _ = Some _ |- _ => apply Ib in E
        | E : p_term2 _ _ = Some _ |- _ => apply I2 in E
        | E : p_term1 _ _ = Some _ |- _ => apply I1' in E
        | E : p_postfix _ _ _ _ = Some _ |- _ => apply Ip in E
        | E : p_clause _ _ _ = Some _ |- _ => apply Ic in E
        | E : comma_loop (p_term _) _ _ _ = Some _ |- _ => apply Lt in E
        | E : comma_loop (p_clause _ _) _ _ _ = Some _ |- _ => apply Lc in E
        | E : p_ty _ _ = Some _ |- _ => apply p_ty_shorter in E
        | E : p_opttyargs _ _ = Some _ |- _ => apply p_opttyargs_nolonger in E
        | E : p_optnames _ _ = Some _ |- _ => apply p_optnames_nolonger in E
        | E : p_upper _ = Some _ |- _ => apply p_upper_shorter in E
        | E : p_lower _ = Some _ |- _ => apply p_lower_shorter in E
        end; cbn [List.length] in *; lia.
    repeat split.
    + intros ts x r H. cbn [p_term] in H. repeat len_step H; fin I1 I3 Ib I2 I1' Ip Ic Lt Lc.
    + intros ts x r H. cbn [p_term3] in H. repeat len_step H; fin I1 I3 Ib I2 I1' Ip Ic Lt Lc.
    + intros ts x r H. cbn [p_block] in H. repeat len_step H; fin I1 I3 Ib I2 I1' Ip Ic Lt Lc.
    + intros ts x r H. cbn [p_term2] in H. repeat len_step H; fin I1 I3 Ib I2 I1' Ip Ic Lt Lc.
    + intros ts x r H. cbn [p_term1] in H. repeat len_step H; fin I1 I3 Ib I2 I1' Ip Ic Lt Lc.
    + intros e b ts x r H. cbn [p_postfix] in H. repeat len_step H; fin I1 I3 Ib I2 I1' Ip Ic Lt Lc.
    + intros pol ts x r H. cbn [p_clause] in H. destruct pol; repeat len_step H; fin I1 I3 Ib I2 I1' Ip Ic Lt Lc.
Qed.

Lemma p_term_shorter n : shorter (p_term n). Proof. exact (proj1 (terms_shorter_all n)). Qed.
Lemma p_term3_shorter n : shorter (p_term3 n). Proof. exact (proj1 (proj2 (terms_shorter_all n))). Qed.
Lemma p_block_shorter n : shorter (p_block n). Proof. exact (proj1 (proj2 (proj2 (terms_shorter_all n)))). Qed.
Lemma p_term2_shorter n : shorter (p_term2 n). Proof. exact (proj1 (proj2 (proj2 (proj2 (terms_shorter_all n))))). Qed.
Lemma p_term1_shorter n : shorter (p_term1 n). Proof. exact (proj1 (proj2 (proj2 (proj2 (proj2 (terms_shorter_all n)))))). Qed.
Lemma p_postfix_nolonger n e b : nolonger (p_postfix n e b).
Proof. exact (proj1 (proj2 (proj2 (proj2 (proj2 (proj2 (terms_shorter_all n)))))) e b). Qed.
Lemma p_clause_shorter n pol : shorter (p_clause n pol).
Proof. exact (proj2 (proj2 (proj2 (proj2 (proj2 (proj2 (terms_shorter_all n)))))) pol). Qed.

(* ---- stability under more fuel ---- *)
Lemma comma_loop_stable {X} (i1 i2 : list token -> pr X) close :
  shorter i2 ->
  forall m1 m2 ts, (forall ts', List.length ts' <= List.length ts -> i1 ts' = i2 ts') ->
    List.length ts < m1 -> List.length ts < m2 ->
    comma_loop i1 close m1 ts = comma_loop i2 close m2 ts.
Proof.
  intros Hs. induction m1 as [|m1 IH]; intros m2 ts Hi H1 H2; [lia|].
  destruct m2 as [|m2]; [lia|].
  cbn [comma_loop].
  destruct (expect close ts) as [r0|]; [reflexivity|].
  rewrite (Hi ts) by lia.
  destruct (i2 ts) as [[x r]|] eqn:E; cbn [obind]; [|reflexivity].
  apply Hs in E.
  destruct (expect SComma r) as [r'|] eqn:E1; [|reflexivity].
  apply expect_len in E1.
  rewrite (IH m2 r'); [reflexivity| |lia|lia].
  intros ts' Hl. apply Hi. lia.
Qed.

Lemma p_ty_stable : forall L ts, List.length ts <= L -> forall n m, List.length ts < n -> List.length ts < m -> p_ty n ts = p_ty m ts.
Proof.
  induction L as [|L IH]; intros ts HL n m Hn Hm.
  - destruct ts; [|cbn in HL; lia]. destruct n, m; try lia. reflexivity.
  - destruct n as [|n]; [lia|]. destruct m as [|m]; [lia|].
    cbn [p_ty].
    destruct ts as [|t ts]; [reflexivity|].
    destruct t; try reflexivity.
    destruct ts as [|t' ts']; [reflexivity|].
    destruct t'; try reflexivity. destruct y; try reflexivity.
    cbn [List.length] in *.
    rewrite (comma_loop_stable (p_ty n) (p_ty m) SRBrack (p_ty_shorter m) n m ts'); [reflexivity| |lia|lia].
    intros ts'' Hl. apply IH; lia.
Qed.
Lemma p_opttyargs_stable n m ts : List.length ts < n -> List.length ts < m -> p_opttyargs n ts = p_opttyargs m ts.
Proof.
  intros Hn Hm. unfold p_opttyargs.
  destruct ts as [|t ts]; [reflexivity|]. destruct t; try reflexivity. destruct y; try reflexivity.
  cbn [List.length] in *.
  apply comma_loop_stable; [apply p_ty_shorter| |lia|lia].
  intros ts' Hl. apply (p_ty_stable (List.length ts')); lia.
Qed.
Lemma p_optnames_stable n m ts : List.length ts < n -> List.length ts < m -> p_optnames n ts = p_optnames m ts.
Proof.
  intros Hn Hm. unfold p_optnames.
  destruct ts as [|t ts]; [reflexivity|]. destruct t; try reflexivity. destruct y; try reflexivity.
  cbn [List.length] in *.
  apply comma_loop_stable; [apply p_lower_shorter|reflexivity|lia|lia].
Qed.
Lemma p_opttypectx_stable n m ts : List.length ts < n -> List.length ts < m -> p_opttypectx n ts = p_opttypectx m ts.
Proof.
  intros Hn Hm. unfold p_opttypectx.
  destruct ts as [|t ts]; [reflexivity|]. destruct t; try reflexivity. destruct y; try reflexivity.
  cbn [List.length] in *.
  apply comma_loop_stable; [apply p_upper_shorter|reflexivity|lia|lia].
Qed.
Lemma p_binding_stable n m ts : List.length ts < n -> List.length ts < m -> p_binding n ts = p_binding m ts.
Proof.
  intros Hn Hm. unfold p_binding.
  destruct ts as [|t ts]; [reflexivity|]. destruct t; try reflexivity.
  destruct ts as [|t' ts']; [reflexivity|]. destruct t'; try reflexivity.
  - destruct y; try reflexivity. cbn [List.length] in *. rewrite (p_ty_stable (List.length ts') ts' (le_n _) n m) by lia. reflexivity.
  - cbn [List.length] in *. rewrite (p_ty_stable (List.length ts') ts' (le_n _) n m) by lia. reflexivity.
Qed.
Lemma p_optctx_stable n m ts : List.length ts < n -> List.length ts < m -> p_optctx n ts = p_optctx m ts.
Proof.
  intros Hn Hm. unfold p_optctx.
  destruct ts as [|t ts]; [reflexivity|]. destruct t; try reflexivity. destruct y; try reflexivity.
  cbn [List.length] in *.
  apply comma_loop_stable; [apply p_binding_shorter| |lia|lia].
  intros ts' Hl. apply p_binding_stable; lia.
Qed.
