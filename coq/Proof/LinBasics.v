(* Basic facts used by the C05 proofs: id sets as lists, decidable equalities, lookup by id,
   an induction principle for statements (clauses are nested lists). *)
From Coq Require Import String List ZArith NArith Bool Lia Permutation.
From SCC Require Import Base.Sexp Lang.AxSyn Model.Linearize Model.LinCheck.
Import ListNotations.
Open Scope list_scope.
Open Scope N_scope.

(* ---------- booleans ---------- *)
Ltac btrue :=
  repeat match goal with
         | H : _ && _ = true |- _ => apply andb_true_iff in H; destruct H
         | H : negb _ = true |- _ => apply negb_true_iff in H
         | |- _ && _ = true => apply andb_true_iff; split
         end.

(* ---------- sets ---------- *)
Lemma mem_In : forall x l, mem x l = true <-> In x l.
Proof.
  unfold mem; intros x l; rewrite existsb_exists; split.
  - intros [y [Hy He]]. apply N.eqb_eq in He. subst; auto.
  - intros H. exists x. split; auto. apply N.eqb_refl.
Qed.
Lemma mem_false : forall x l, mem x l = false <-> ~ In x l.
Proof.
  intros x l. rewrite <- mem_In. destruct (mem x l); split; intros H; try congruence.
Qed.
Lemma add_In : forall x y l, In x (add y l) <-> x = y \/ In x l.
Proof.
  intros x y l; unfold add. destruct (mem y l) eqn:E.
  - apply mem_In in E. split; auto. intros [->|]; auto.
  - simpl. split; intros [H|H]; auto.
Qed.
Lemma union_In : forall x a b, In x (union a b) <-> In x a \/ In x b.
Proof.
  intros x a b; unfold union; induction a as [|y a IH]; simpl.
  - tauto.
  - rewrite add_In, IH. intuition congruence.
Qed.
Lemma remove_In : forall x y l, In x (remove y l) <-> In x l /\ x <> y.
Proof.
  intros x y l; unfold remove. rewrite filter_In.
  rewrite negb_true_iff, N.eqb_neq. tauto.
Qed.
Lemma remove_all_In : forall x ys l, In x (remove_all ys l) <-> In x l /\ ~ In x ys.
Proof.
  intros x ys l; induction ys as [|y ys IH]; simpl.
  - tauto.
  - rewrite remove_In, IH. intuition.
Qed.

(* ---------- nodupb ---------- *)
Lemma nodupb_NoDup : forall l, nodupb l = true <-> NoDup l.
Proof.
  induction l as [|x l IH]; simpl.
  - split; auto. constructor.
  - rewrite andb_true_iff, negb_true_iff, mem_false, IH. split.
    + intros [H1 H2]; constructor; auto.
    + intros H; inversion H; auto.
Qed.

(* ---------- decidable equalities ---------- *)
Lemma ident_eqb_eq : forall a b, ident_eqb a b = true <-> a = b.
Proof.
  intros [s1 n1] [s2 n2]; unfold ident_eqb; simpl.
  rewrite andb_true_iff, String.eqb_eq, N.eqb_eq. split.
  - intros [-> ->]; auto.
  - intros H; inversion H; auto.
Qed.
Lemma ident_eqb_refl : forall a, ident_eqb a a = true.
Proof. intros; apply ident_eqb_eq; auto. Qed.
Lemma chi_eqb_eq : forall a b, chi_eqb a b = true <-> a = b.
Proof. intros [] []; simpl; split; intros; congruence. Qed.
Lemma chi_eqb_refl : forall a, chi_eqb a a = true.
Proof. intros; apply chi_eqb_eq; auto. Qed.
Lemma ty_eqb_eq : forall a b, ty_eqb a b = true <-> a = b.
Proof.
  intros [|x] [|y]; simpl; try (split; intros; congruence).
  rewrite ident_eqb_eq. split; intros; congruence.
Qed.
Lemma ty_eqb_refl : forall a, ty_eqb a a = true.
Proof. intros; apply ty_eqb_eq; auto. Qed.
Lemma b_eqb_eq : forall a b, b_eqb a b = true <-> a = b.
Proof.
  intros [v1 c1 t1] [v2 c2 t2]; unfold b_eqb; simpl.
  rewrite !andb_true_iff, ident_eqb_eq, chi_eqb_eq, ty_eqb_eq. split.
  - intros [[-> ->] ->]; auto.
  - intros H; inversion H; auto.
Qed.
Lemma ctx_eqb_eq : forall a b, ctx_eqb a b = true <-> a = b.
Proof.
  induction a as [|x a IH]; intros [|y b]; simpl; try (split; intros; congruence).
  rewrite andb_true_iff, b_eqb_eq, IH. split.
  - intros [-> ->]; auto.
  - intros H; inversion H; auto.
Qed.

(* ---------- ids / vars of contexts ---------- *)
Lemma ids_app : forall a b, ids (a ++ b) = ids a ++ ids b.
Proof. intros; unfold ids; apply map_app. Qed.
Lemma vars_app : forall a b, vars (a ++ b) = vars a ++ vars b.
Proof. intros; unfold vars; apply map_app. Qed.
Lemma ids_length : forall c, length (ids c) = length c.
Proof. intros; unfold ids; apply map_length. Qed.
Lemma vars_length : forall c, length (vars c) = length c.
Proof. intros; unfold vars; apply map_length. Qed.
Lemma ids_vars : forall c, map idn (vars c) = ids c.
Proof. intros; unfold ids, vars; rewrite map_map; auto. Qed.
Lemma In_ids : forall c b, In b c -> In (idn (bvar b)) (ids c).
Proof. intros; unfold ids; apply in_map_iff; eauto. Qed.
Lemma In_ids_ex : forall c x, In x (ids c) -> exists b, In b c /\ idn (bvar b) = x.
Proof. intros c x H; unfold ids in H; apply in_map_iff in H. destruct H as [b [H1 H2]]; eauto. Qed.

(* ---------- lookup_b ---------- *)
Lemma lookup_b_Some : forall c x b, lookup_b c x = Some b -> In b c /\ idn (bvar b) = x.
Proof.
  unfold lookup_b; intros c x b H. apply find_some in H. destruct H as [H1 H2].
  apply N.eqb_eq in H2; auto.
Qed.
Lemma lookup_b_None : forall c x, lookup_b c x = None <-> ~ In x (ids c).
Proof.
  unfold lookup_b; intros c x; split.
  - intros H Hin. apply In_ids_ex in Hin. destruct Hin as [b [H1 H2]].
    eapply find_none in H; eauto. simpl in H. apply N.eqb_neq in H; auto.
  - intros H. destruct (find _ c) eqn:E; auto.
    apply find_some in E. destruct E as [E1 E2]. apply N.eqb_eq in E2.
    exfalso; apply H; subst; apply In_ids; auto.
Qed.
Lemma lookup_b_In : forall c b, NoDup (ids c) -> In b c -> lookup_b c (idn (bvar b)) = Some b.
Proof.
  induction c as [|y c IH]; intros b Hnd Hin; simpl in *; [tauto|].
  inversion Hnd as [|? ? Hn Hnd']; subst.
  destruct Hin as [->|Hin].
  - rewrite N.eqb_refl; auto.
  - destruct (N.eqb (idn (bvar y)) (idn (bvar b))) eqn:E.
    + apply N.eqb_eq in E. exfalso; apply Hn. rewrite E. apply In_ids; auto.
    + apply IH; auto.
Qed.
Lemma lookup_b_app : forall a b x,
  lookup_b (a ++ b) x = match lookup_b a x with Some v => Some v | None => lookup_b b x end.
Proof.
  induction a as [|y a IH]; intros; simpl; auto.
  destruct (N.eqb (idn (bvar y)) x); auto.
Qed.
Lemma lookup_b_cons : forall y c x,
  lookup_b (y :: c) x = if N.eqb (idn (bvar y)) x then Some y else lookup_b c x.
Proof. reflexivity. Qed.
Lemma lookup_b_is_Some : forall c x, In x (ids c) -> exists b, lookup_b c x = Some b.
Proof.
  intros c x H. destruct (lookup_b c x) eqn:E; eauto.
  apply lookup_b_None in E. tauto.
Qed.
(* two contexts with the same bindings (as sets) and distinct ids look up alike *)
Lemma lookup_b_same_set : forall c c' x,
  NoDup (ids c) -> NoDup (ids c') -> (forall b, In b c <-> In b c') -> lookup_b c x = lookup_b c' x.
Proof.
  intros c c' x H1 H2 H.
  destruct (lookup_b c x) eqn:E.
  - apply lookup_b_Some in E. destruct E as [E1 E2]. subst x.
    symmetry; apply lookup_b_In; auto. apply H; auto.
  - destruct (lookup_b c' x) eqn:E'; auto.
    apply lookup_b_Some in E'. destruct E' as [E1 E2]. subst x.
    apply H in E1. apply lookup_b_In in E1; auto. congruence.
Qed.

(* has depends on the lookup only *)
Lemma has_ext_lookup : forall c c' x k t, lookup_b c (idn x) = lookup_b c' (idn x) -> has c x k t = has c' x k t.
Proof. unfold has; intros c c' x k t H; rewrite H; auto. Qed.

(* ---------- list helpers ---------- *)
Lemma combine_map_fst : forall {A B} (a : list A) (b : list B), length a = length b -> map fst (combine a b) = a.
Proof.
  induction a as [|x a IH]; intros [|y b] H; simpl in *; try discriminate; auto.
  f_equal; apply IH; lia.
Qed.
Lemma combine_map_snd : forall {A B} (a : list A) (b : list B), length a = length b -> map snd (combine a b) = b.
Proof.
  induction a as [|x a IH]; intros [|y b] H; simpl in *; try discriminate; auto.
  f_equal; apply IH; lia.
Qed.
Lemma forallb_combine : forall {A B} (P : A * B -> bool) (a : list A) (b : list B),
  (forall n x y, nth_error a n = Some x -> nth_error b n = Some y -> P (x, y) = true) ->
  forallb P (combine a b) = true.
Proof.
  induction a as [|x a IH]; intros [|y b] H; simpl; auto.
  rewrite (H O x y); simpl; auto.
  apply IH. intros n x' y' H1 H2. apply (H (S n)); auto.
Qed.
Lemma split_lastn_app : forall a b, split_lastn (length b) (a ++ b) = Some (a, b).
Proof.
  intros a b; unfold split_lastn. rewrite app_length.
  destruct (Nat.leb (length b) (length a + length b)) eqn:E.
  - replace (length a + length b - length b)%nat with (length a) by lia.
    rewrite firstn_app, skipn_app, firstn_all, skipn_all, Nat.sub_diag; simpl.
    rewrite app_nil_r; auto.
  - apply Nat.leb_gt in E; lia.
Qed.
Lemma split_lastn_Some : forall n c a b, split_lastn n c = Some (a, b) -> c = a ++ b /\ length b = n.
Proof.
  unfold split_lastn; intros n c a b H.
  destruct (Nat.leb n (length c)) eqn:E; try discriminate.
  apply Nat.leb_le in E. inversion H; subst. split.
  - symmetry; apply firstn_skipn.
  - rewrite skipn_length. lia.
Qed.

(* ---------- matching of contexts ---------- *)
Lemma kt_eqb_eq : forall a b, kt_eqb a b = true <-> bchi a = bchi b /\ bty a = bty b.
Proof. intros; unfold kt_eqb; rewrite andb_true_iff, chi_eqb_eq, ty_eqb_eq; tauto. Qed.
Lemma kt_eqb_refl : forall a, kt_eqb a a = true.
Proof. intros; apply kt_eqb_eq; auto. Qed.
Lemma ctx_match_refl : forall a, ctx_match a a = true.
Proof. induction a; simpl; auto. rewrite N.eqb_refl, kt_eqb_refl; auto. Qed.
(* position-wise same kinds and types *)
Definition same_kt (a b : ctx) : Prop := Forall2 (fun x y => bchi x = bchi y /\ bty x = bty y) a b.
Lemma same_kt_refl : forall a, same_kt a a.
Proof. induction a; constructor; auto. Qed.
Lemma same_kt_length : forall a b, same_kt a b -> length a = length b.
Proof. intros a b H; induction H; simpl; auto. Qed.
Lemma sig_match_same_kt : forall a a' s, same_kt a' a -> sig_match a s = true -> sig_match a' s = true.
Proof.
  intros a a' s H; revert s; induction H as [|x y a' a [H1 H2] H IH]; intros [|z s] Hm; simpl in *; auto; try discriminate.
  btrue. apply kt_eqb_eq in H0. destruct H0. apply kt_eqb_eq. split; congruence. auto.
Qed.
Lemma sig_match_iff : forall a s, sig_match a s = true <-> same_kt a s.
Proof.
  induction a as [|x a IH]; intros [|y s]; simpl; split; intros H; try discriminate; try constructor; try inversion H; auto.
  - btrue. apply kt_eqb_eq; auto.
  - btrue. apply IH; auto.
  - subst. btrue. apply kt_eqb_eq; auto. apply IH; auto.
Qed.

(* ---------- induction principle for statements ---------- *)
Section StmtInd.
  Variable P : stmt -> Prop.
  Hypothesis HSub : forall re next, P next -> P (Substitute re next).
  Hypothesis HCall : forall l args, P (Call l args).
  Hypothesis HLet : forall v t tag args next, P next -> P (Let v t tag args next).
  Hypothesis HSwitch : forall v t cls, Forall (fun c => P (cl_body c)) cls -> P (Switch v t cls).
  Hypothesis HCreate : forall v t env cls next, Forall (fun c => P (cl_body c)) cls -> P next -> P (Create v t env cls next).
  Hypothesis HInvoke : forall v tag t args, P (Invoke v tag t args).
  Hypothesis HLit : forall n v next, P next -> P (Literal n v next).
  Hypothesis HOp : forall a o b v next, P next -> P (Op a o b v next).
  Hypothesis HPrint : forall nl v next, P next -> P (PrintI64 nl v next).
  Hypothesis HIfC : forall so a b t e, P t -> P e -> P (IfC so a b t e).
  Hypothesis HExit : forall v, P (Exit v).
  Fixpoint stmt_ind2 (s : stmt) : P s :=
    let go := fix go (cls : list (ident * ctx * stmt)) : Forall (fun c => P (cl_body c)) cls :=
      match cls with
      | [] => Forall_nil _
      | c :: r => Forall_cons c (match c as c0 return P (cl_body c0) with (_, b) => stmt_ind2 b end) (go r)
      end in
    match s with
    | Substitute re next => HSub re next (stmt_ind2 next)
    | Call l args => HCall l args
    | Let v t tag args next => HLet v t tag args next (stmt_ind2 next)
    | Switch v t cls => HSwitch v t cls (go cls)
    | Create v t env cls next => HCreate v t env cls next (go cls) (stmt_ind2 next)
    | Invoke v tag t args => HInvoke v tag t args
    | Literal n v next => HLit n v next (stmt_ind2 next)
    | Op a o b v next => HOp a o b v next (stmt_ind2 next)
    | PrintI64 nl v next => HPrint nl v next (stmt_ind2 next)
    | IfC so a b t e => HIfC so a b t e (stmt_ind2 t) (stmt_ind2 e)
    | Exit v => HExit v
    end.
End StmtInd.

(* ---------- unfolding of the nested fixes over clauses ---------- *)
Lemma fv_switch : forall v t cls, fv (Switch v t cls) = add (idn v) (fv_clauses cls).
Proof.
  intros; reflexivity.
Qed.
Lemma fv_create : forall v t e cls next,
  fv (Create v t e cls next) = union (fv_clauses cls) (remove (idn v) (fv next)).
Proof.
  intros; reflexivity.
Qed.
Lemma fv_clauses_In : forall x cls,
  In x (fv_clauses cls) <-> exists c, In c cls /\ In x (fv (cl_body c)) /\ ~ In x (ids (cl_ctx c)).
Proof.
  intros x cls; induction cls as [|[[xt cc] b] r IH]; simpl.
  - split; [tauto|]. intros [c [[] _]].
  - rewrite union_In, remove_all_In, IH. split.
    + intros [[H1 H2]|[c [H1 H2]]].
      * exists (xt, cc, b). auto.
      * exists c; auto.
    + intros [c [[<-|H1] H2]]; simpl in *; auto. right; exists c; auto.
Qed.

Definition ax_clauses (S : sigs) (c : ctx) (cls : list clause) : bool :=
  forallb (fun cl => ax_check S (cl_ctx cl ++ c) (cl_body cl)) cls.
Lemma ax_check_switch : forall S c v t cls,
  ax_check S c (Switch v t cls) = has c v Prd t && cls_ok S t cls && ax_clauses S c cls.
Proof.
  intros; simpl. f_equal. induction cls as [|[[x cc] b] r IH]; simpl; auto.
  unfold cl_ctx, cl_body; simpl; try (rewrite IH; auto).
Qed.
Lemma ax_check_create : forall S c v t e cls next,
  ax_check S c (Create v t e cls next) =
  cls_ok S t cls && ax_clauses S c cls && ax_check S (mkb v Cns t :: c) next.
Proof.
  intros; simpl. f_equal. f_equal. induction cls as [|[[x cc] b] r IH]; simpl; auto.
  unfold cl_ctx, cl_body; simpl; try (rewrite IH; auto).
Qed.

Fixpoint binders_cls (cls : list clause) : list N :=
  match cls with
  | [] => []
  | c :: r => ids (cl_ctx c) ++ binders (cl_body c) ++ binders_cls r
  end.
Lemma binders_switch : forall v t cls, binders (Switch v t cls) = binders_cls cls.
Proof. intros; simpl. induction cls as [|[[x cc] b] r IH]; simpl; auto; try (rewrite IH; auto). Qed.
Lemma binders_create : forall v t e cls next,
  binders (Create v t e cls next) = idn v :: binders_cls cls ++ binders next.
Proof.
  intros; simpl. f_equal. f_equal. induction cls as [|[[x cc] b] r IH]; simpl; auto; try (rewrite IH; auto).
Qed.
Lemma binders_cls_In : forall cls c x, In c cls -> In x (ids (cl_ctx c) ++ binders (cl_body c)) -> In x (binders_cls cls).
Proof.
  induction cls as [|c0 r IH]; intros c x H Hx; simpl in *; [tauto|].
  destruct H as [->|H].
  - rewrite app_assoc. apply in_or_app; auto.
  - apply in_or_app; right. apply in_or_app; right. eapply IH; eauto.
Qed.

Fixpoint size_cls (cls : list clause) : nat :=
  match cls with [] => O | c :: r => (stmt_size (cl_body c) + size_cls r)%nat end.
Lemma size_switch : forall v t cls, stmt_size (Switch v t cls) = S (size_cls cls).
Proof. intros; simpl. f_equal. induction cls as [|[[x cc] b] r IH]; simpl; auto. Qed.
Lemma size_create : forall v t e cls next,
  stmt_size (Create v t e cls next) = S (size_cls cls + stmt_size next).
Proof. intros; simpl. f_equal. f_equal. induction cls as [|[[x cc] b] r IH]; simpl; auto. Qed.
Lemma size_cls_In : forall cls c, In c cls -> (stmt_size (cl_body c) <= size_cls cls)%nat.
Proof.
  induction cls as [|c0 r IH]; intros c H; simpl in *; [tauto|].
  destruct H as [->|H]; [lia|]. apply IH in H. lia.
Qed.

Definition lin_clauses_sw (S : sigs) (c0 : ctx) (cls : list clause) : bool :=
  forallb (fun cl => lin_check S (c0 ++ cl_ctx cl) (cl_body cl)) cls.
Definition lin_clauses_cr (S : sigs) (env : ctx) (cls : list clause) : bool :=
  forallb (fun cl => lin_check S (cl_ctx cl ++ env) (cl_body cl)) cls.
Lemma lin_check_switch : forall S c v t cls,
  lin_check S c (Switch v t cls) =
  nodupb (ids c) &&
  match split_lastn 1 c with
  | Some (c0, [b]) =>
      N.eqb (idn (bvar b)) (idn v) && chi_eqb (bchi b) Prd && ty_eqb (bty b) t && cls_ok S t cls
      && lin_clauses_sw S c0 cls
  | _ => false
  end.
Proof.
  intros; simpl. f_equal. destruct (split_lastn 1 c) as [[c0 [|b [|]]]|]; auto.
  f_equal. induction cls as [|[[x cc] bd] r IH]; simpl; auto.
  unfold cl_ctx, cl_body; simpl; try (rewrite IH; auto).
Qed.
Lemma lin_check_create : forall S c v t env cls next,
  lin_check S c (Create v t (Some env) cls next) =
  nodupb (ids c) &&
  match split_lastn (length env) c with
  | Some (c0, tl) =>
      ctx_match tl env && cls_ok S t cls && lin_clauses_cr S env cls
      && lin_check S (c0 ++ [mkb v Cns t]) next
  | None => false
  end.
Proof.
  intros; simpl. f_equal. destruct (split_lastn (length env) c) as [[c0 tl]|]; auto.
  f_equal. f_equal. induction cls as [|[[x cc] bd] r IH]; simpl; auto.
  unfold cl_ctx, cl_body; simpl; try (rewrite IH; auto).
Qed.
