(* C03, semantic preservation, part 8: the statements about `Prog::focus` (= uniquify, then focus
   every definition), and `Bind` correctness as a statement of its own. *)
From Coq Require Import List ZArith NArith String Bool Lia.
From SCC Require Import Base.Sexp Lang.CoreSyn Sem.AxSem Sem.CoreSem Model.Backend Model.Uniquify Model.Focus
     Model.FocusCheck Proof.FocusTheorems
     Proof.FocusKont Proof.FocusRel Proof.FocusMono Proof.FocusSim Proof.FocusStep Proof.FocusMain Proof.FocusRun
     Proof.FocusFrag.
From SCC Require Import Model.FocusGuard.
Import ListNotations.
Open Scope list_scope.
Open Scope N_scope.

(* the target program runs the focused definitions of the source *)
Definition focused_defs (M0 : N) (ps qt : cprog) : Prop :=
  (forall ty, is_codata qt ty = is_codata ps ty) /\
  (forall f d, cfind_def ps f = Some d ->
     exists b' mc m2, focus_stmt (cdbody d) mc = Ok (b', m2) /\ M0 <= mc /\ ids_le_stmt M0 (cdbody d) = true /\
                      cfind_def qt f = Some (mkcd (cdname d) (cdctx d) (fs2c_stmt b'))).

(* `Bind`: the statement [bind a k] evaluates the argument [a] exactly as the machine does -
   innermost non-values first, left to right, once - and then behaves as the statement that [k]
   builds for the name of the value, PROVIDED [k] is the code of the machine continuation [m]
   ([mk_rel]); environments related by [env_rel] (target = source + fresh bindings). *)
Theorem bind_correct : forall ps qt M0, focused_defs M0 ps qt ->
  forall a k c mc s' m2 e e' m fuel out,
    bind_arg a k mc = Ok (s', m2) -> M0 <= c -> c <= mc -> ids_le_arg M0 a = true ->
    env_rel ps M0 e e' -> mk_rel ps M0 c m k e' ->
    clash_free ps fuel (Arg a e m) = true -> good_end (snd (crun fuel ps (Arg a e m) out)) ->
    exists fuel', crun fuel' qt (Run (fs2c_stmt s') e') out = crun fuel ps (Arg a e m) out.
Proof.
  intros ps qt M0 [Hcod Hdefs] a k c mc s' m2 e e' m fuel out B L0 L1 IA E R CF G.
  eapply (sim_crun ps qt M0 Hcod Hdefs); eauto. eapply CR_arg; eauto.
Qed.

(* statements *)
Theorem focus_stmt_correct : forall ps qt M0, focused_defs M0 ps qt ->
  forall s mc s' m2 e e' fuel out,
    focus_stmt s mc = Ok (s', m2) -> M0 <= mc -> ids_le_stmt M0 s = true -> env_rel ps M0 e e' ->
    clash_free ps fuel (Run s e) = true -> good_end (snd (crun fuel ps (Run s e) out)) ->
    exists fuel', crun fuel' qt (Run (fs2c_stmt s') e') out = crun fuel ps (Run s e) out.
Proof.
  intros ps qt M0 [Hcod Hdefs] s mc s' m2 e e' fuel out F L IS E CF G.
  eapply (sim_crun ps qt M0 Hcod Hdefs); eauto. eapply CR_run; eauto.
Qed.

(* ---------- Prog::focus ---------- *)
Lemma pre_check_ids_le : forall p, pre_check p = true -> forallb (ids_le_def (cpmax p)) (cpdefs p) = true.
Proof.
  intros p P. unfold pre_check in P. rewrite forallb_forall in *. intros d Hd. specialize (P d Hd).
  unfold pre_def in P. apply andb_true_iff in P. destruct P as [P _]. apply andb_true_iff in P. tauto.
Qed.

Theorem focus_prog_preserves_uniquified : forall p p1 q args fuel,
  pre_check p = true -> focus_wf p = true -> uniquify_prog p = Ok p1 -> focus_prog p = Ok q ->
  clash_free_prog fuel p1 args = true -> good_end (snd (run_core fuel p1 args)) ->
  exists fuel', run_fs fuel' q args = run_core fuel p1 args.
Proof.
  intros p p1 q args fuel P W U F CF G.
  destruct (uniquify_unique_thm p P W) as (p1' & U' & _ & _ & P1). rewrite U in U'. okinv U'.
  unfold focus_prog in F. rewrite U in F. simpl in F. rinvn F ds m FD. okinv F.
  eapply focus_preserves_uniquified; eauto. apply pre_check_ids_le; exact P1.
Qed.

(* the static guard instead of the run-time clash hypothesis *)
Theorem focus_prog_preserves_guarded : forall bn kr p p1 q args fuel,
  pre_check p = true -> focus_wf p = true -> uniquify_prog p = Ok p1 -> focus_prog p = Ok q ->
  bn && kr = false -> sg_prog bn kr p1 = true ->
  good_end (snd (run_core fuel p1 args)) ->
  exists fuel', run_fs fuel' q args = run_core fuel p1 args.
Proof.
  intros bn kr p p1 q args fuel P W U F FL SG G.
  eapply focus_prog_preserves_uniquified; eauto.
  apply (sg_clash_free_prog p1 bn kr FL SG).
Qed.
