(* C16: the token stream of the printed document.
     tokens (d_prog c p) = T_prog p      for every configuration c and every parser-shaped p
   i.e. the document model (Printer.v) followed by the lexer's gluing of `cmp 0`, `0 cmp`, `: cns`
   yields exactly the direct token printer of FmtDefs.v.  Layout (width, indentation,
   allow_linebreaks, the short-scrutinee variant of destructor chains) does not matter. *)
From Coq Require Import List ZArith NArith String Ascii Bool Lia.
From SCC Require Import Base.Sexp Lang.SynUtil Lang.FunSyn Model.Printer Model.Parser Model.FmtClass
  Proof.FmtDefs Proof.FmtRound.
Import ListNotations.
Local Open Scope list_scope.

(* ---------- atoms of a document, continuation style ---------- *)
Fixpoint ak (d : doc) (k : list atom) : list atom :=
  match d with
  | DNil | DSpace | DLine | DLine_ | DHardline => k
  | DText a => a :: k
  | DComment => AComment :: k
  | DAppend a b => ak a (ak b k)
  | DNest _ d | DGroup d | DAlign d => ak d k
  end.
Lemma flat_acc_app d acc : flat_acc d acc = flat d ++ acc.
Proof.
  unfold flat. revert acc. induction d; intros acc; cbn [flat_acc]; try reflexivity; auto.
  rewrite IHd1, (IHd1 (flat_acc d2 [])), IHd2. now rewrite app_assoc.
Qed.
Lemma atoms_of_app l1 l2 : atoms_of (l1 ++ l2) = atoms_of l1 ++ atoms_of l2.
Proof. induction l1 as [|[] l1 IH]; cbn; auto. now rewrite IH. Qed.
Lemma ak_spec d : forall k, ak d k = atoms d ++ k.
Proof.
  unfold atoms, flat. induction d; intros k; cbn [ak flat_acc]; try reflexivity; try (apply IHd).
  rewrite (flat_acc_app d1 (flat_acc d2 [])). unfold flat. rewrite atoms_of_app, <- app_assoc.
  rewrite IHd1, IHd2. reflexivity.
Qed.
Lemma atoms_ak d : atoms d = ak d [].
Proof. rewrite ak_spec. now rewrite app_nil_r. Qed.

(* a1 , a2 , .. , an  on atoms *)
Fixpoint acommas (fs : list (list atom -> list atom)) (k : list atom) : list atom :=
  match fs with
  | [] => k
  | [f] => f k
  | f :: r => f (ASym SComma :: acommas r k)
  end.
Lemma ak_intersperse_from sep acc l k :
  ak (intersperse_from acc l sep) k = ak acc (fold_right (fun d r => ak sep (ak d r)) k l).
Proof.
  revert acc. induction l as [|d l IH]; intros acc; cbn [intersperse_from fold_right]; [reflexivity|].
  rewrite IH. reflexivity.
Qed.
Lemma ak_comma_sep c (l : list doc) k : ak (comma_sep c l) k = acommas (map ak l) k.
Proof.
  unfold comma_sep, intersperse. destruct l as [|d l]; [reflexivity|].
  cbn [map]. rewrite ak_intersperse_from. cbn [ak].
  set (sep := if plinebreaks c then DAppend (dsym SComma) DLine else DAppend (dsym SComma) DSpace).
  assert (Hsep : forall X, ak sep X = ASym SComma :: X)
    by (intros; subst sep; destruct (plinebreaks c); reflexivity).
  clearbody sep. revert d. induction l as [|e l IH]; intros d; [reflexivity|].
  cbn [map fold_right]. rewrite Hsep. cbn [ak]. rewrite IH. reflexivity.
Qed.
(* [ sep_ list sep_ ] inside brackets: d_args, d_ctx, d_namectx, .. all have this shape *)
Lemma ak_sep_ c k : ak (sep_ c) k = k.
Proof. unfold sep_. destruct (plinebreaks c); reflexivity. Qed.

(* ---------- glue, one atom at a time ---------- *)
Definition nocmp (k : list atom) : bool := match k with ASym (SCmp _) :: _ => false | _ => true end.
Definition nozero (k : list atom) : bool := match k with ANum 0 :: _ => false | _ => true end.
Definition nocns (k : list atom) : bool := match k with AWord s :: _ => negb (String.eqb s "cns") | _ => true end.
Lemma glue_word s k : glue (AWord s :: k) = word_token s :: glue k.
Proof. reflexivity. Qed.
Lemma glue_num_pos n k : n <> 0%N -> glue (ANum n :: k) = TNum n :: glue k.
Proof. destruct n; [congruence|reflexivity]. Qed.
Lemma glue_num0 k : nocmp k = true -> glue (ANum 0 :: k) = TNum 0 :: glue k.
Proof. destruct k as [|[| |[]|] ?]; try discriminate; reflexivity. Qed.
Definition plain_sym (y : sym) : bool := match y with SCmp _ | SColon => false | _ => true end.
Lemma glue_sym y k : plain_sym y = true -> glue (ASym y :: k) = TSym y :: glue k.
Proof. destruct y; try discriminate; reflexivity. Qed.
Lemma glue_cmp c k : nozero k = true -> glue (ASym (SCmp c) :: k) = TSym (SCmp c) :: glue k.
Proof. destruct k as [|[|[]| |] ?]; try discriminate; reflexivity. Qed.
Lemma glue_cmp0 c k : glue (ASym (SCmp c) :: ANum 0 :: k) = TCmpZ c :: glue k.
Proof. reflexivity. Qed.
Lemma glue_colon k : nocns k = true -> glue (ASym SColon :: k) = TSym SColon :: glue k.
Proof.
  destruct k as [|[s| | |] ?]; try reflexivity. intros H. cbn [glue].
  destruct (String.eqb_spec s "cns"%string) as [->|E]; [discriminate|reflexivity].
Qed.
Lemma glue_colon_cns k : glue (ASym SColon :: AWord "cns"%string :: k) = TColonCns :: glue k.
Proof. reflexivity. Qed.
Lemma glue_comment k : glue (AComment :: k) = glue k.
Proof. reflexivity. Qed.
Lemma glue_zero_cmp c k : glue (ANum 0 :: ASym (SCmp c) :: k) = TZCmp c :: glue k.
Proof. reflexivity. Qed.

(* ---------- lists ---------- *)
Lemma ak_intersperse sep (l : list doc) k :
  (forall X, ak sep X = ASym SComma :: X) -> ak (intersperse l sep) k = acommas (map ak l) k.
Proof.
  intros Hsep. unfold intersperse. destruct l as [|d l]; [reflexivity|].
  rewrite ak_intersperse_from. cbn [ak map].
  revert d. induction l as [|e l IH]; intros d; [reflexivity|].
  cbn [map fold_right]. rewrite Hsep. rewrite IH. reflexivity.
Qed.
Lemma map_ak_group (l : list doc) : map ak (map DGroup l) = map ak l.
Proof. induction l; cbn [map]; [reflexivity|]. now rewrite IHl. Qed.
Lemma ak_args c (l : list doc) k : ak (d_args c l) k = acommas (map ak l) k.
Proof.
  unfold d_args. destruct l as [|d l]; [reflexivity|].
  cbn [ak]. rewrite ak_sep_, ak_comma_sep, ak_sep_. reflexivity.
Qed.
Lemma ak_optargs c (l : list doc) k :
  ak (d_optargs c l) k = match l with [] => k | _ => ASym SLPar :: acommas (map ak l) (ASym SRPar :: k) end.
Proof.
  unfold d_optargs. destruct l as [|d l]; [reflexivity|].
  unfold parens, enclose, dsym. cbn [ak]. rewrite ak_args. reflexivity.
Qed.
Lemma ak_clauses c (l : list doc) k :
  ak (d_clauses c l) k = ASym SLBrace :: acommas (map ak l) (ASym SRBrace :: k).
Proof.
  unfold d_clauses, braces, enclose, dsym. destruct l as [|a [|b l]]; try reflexivity.
  cbn [ak]. rewrite ak_intersperse by reflexivity. rewrite map_ak_group. reflexivity.
Qed.

Lemma glue_acommas {X} (A : X -> list atom -> list atom) (T : X -> list token -> list token) (xs : list X) k :
  (forall x, In x xs -> forall k', nocmp k' = true -> glue (A x k') = T x (glue k')) ->
  nocmp k = true ->
  glue (acommas (map A xs) k) = commas (map T xs) (glue k).
Proof.
  intros H Hk. induction xs as [|x xs IH]; [reflexivity|].
  assert (IH' := IH (fun y Hy => H y (or_intror Hy))).
  destruct xs as [|y ys].
  - cbn [map acommas commas]. apply H; [now left | assumption].
  - change (acommas (map A (x :: y :: ys)) k) with (A x (ASym SComma :: acommas (map A (y :: ys)) k)).
    change (commas (map T (x :: y :: ys)) (glue k)) with (T x (TSym SComma :: commas (map T (y :: ys)) (glue k))).
    rewrite H by (try reflexivity; now left). rewrite glue_sym by reflexivity. now rewrite IH'.
Qed.

(* ---------- names ---------- *)
Lemma lower_not_upper ch : is_lower ch = true -> is_upper ch = false.
Proof.
  unfold is_lower, is_upper. intros H. apply andb_prop in H. destruct H as [H1 H2].
  apply Nat.leb_le in H1. apply andb_false_intro2. apply Nat.leb_gt. lia.
Qed.
Lemma word_token_lower v : lower_ok v = true -> word_token v = TLower v.
Proof.
  unfold lower_ok, word_token. intros H. apply andb_prop in H. destruct H as [H1 H2].
  destruct (kw_of_string v); [discriminate|]. destruct v as [|ch r]; [discriminate|].
  apply andb_prop in H1. destruct H1 as [H1 _]. now rewrite lower_not_upper.
Qed.
Lemma kw_text_not_upper k ch r : is_upper ch = true -> String.eqb (kw_text k) (String ch r) = false.
Proof.
  intros Hc. destruct k; cbn [kw_text String.eqb];
    match goal with
    | |- (if Ascii.eqb ?x ch then _ else _) = false =>
        destruct (Ascii.eqb_spec x ch) as [E|E]; [subst ch; cbv in Hc; discriminate | reflexivity]
    end.
Qed.
Lemma kw_of_upper ch r : is_upper ch = true -> kw_of_string (String ch r) = None.
Proof.
  intros Hc. unfold kw_of_string, all_kw. cbn [find].
  rewrite !kw_text_not_upper by assumption. reflexivity.
Qed.
Lemma word_token_upper n : upper_ok n = true -> word_token n = TUpper n.
Proof.
  unfold upper_ok, word_token. destruct n as [|ch r]; [discriminate|]. intros H.
  apply andb_prop in H. destruct H as [H1 _]. rewrite kw_of_upper by assumption. now rewrite H1.
Qed.
Lemma upper_not_cns n : upper_ok n = true -> String.eqb n "cns" = false.
Proof.
  unfold upper_ok. destruct n as [|ch r]; [discriminate|]. intros H. apply andb_prop in H. destruct H as [H1 _].
  cbn [String.eqb]. destruct (Ascii.eqb_spec ch "c") as [E|E]; [subst ch; cbv in H1; discriminate|reflexivity].
Qed.

Section G.
Variable c : pcfg.

(* ---------- types ---------- *)
Lemma ak_ty_decl n targs k :
  ak (d_ty c (FDecl n targs)) k =
  AWord n :: match targs with
             | [] => k
             | _ => ASym SLBrack :: acommas (map (fun t => ak (d_ty c t)) targs) (ASym SRBrack :: k)
             end.
Proof.
  destruct targs as [|t l]; [reflexivity|].
  change (d_ty c (FDecl n (t :: l))) with
    (DAppend (word n) (DGroup (brackets (DAppend (DNest (pindent c) (DAppend (sep_ c) (comma_sep c (map (d_ty c) (t :: l))))) (sep_ c))))).
  unfold word, brackets, enclose, dsym. cbn [ak]. rewrite ak_sep_, ak_comma_sep, ak_sep_. rewrite map_map. reflexivity.
Qed.
Lemma G_ty : forall m t, tysz t <= m -> wf_ty t = true -> forall k, glue (ak (d_ty c t) k) = Tk_ty t (glue k).
Proof.
  induction m as [|m IH]; intros t Hm Hwf k. { pose proof (tysz_pos t). lia. }
  destruct t as [|n targs]; [reflexivity|].
  rewrite tysz_decl in Hm. cbn [wf_ty] in Hwf. apply andb_prop in Hwf. destruct Hwf as [Hn Hargs].
  rewrite forallb_forall in Hargs.
  rewrite ak_ty_decl, Tk_ty_decl. rewrite glue_word, word_token_upper by assumption. f_equal.
  destruct targs as [|t l]; [reflexivity|].
  remember (t :: l) as targs eqn:E.
  assert (opt_bracketed SLBrack SRBrack (map Tk_ty targs) (glue k)
          = TSym SLBrack :: commas (map Tk_ty targs) (TSym SRBrack :: glue k)) as -> by (subst targs; reflexivity).
  rewrite glue_sym by reflexivity. f_equal.
  rewrite (glue_acommas (fun t => ak (d_ty c t)) Tk_ty); [now rewrite glue_sym by reflexivity | | reflexivity].
  intros x Hx k' _. apply IH; [|now apply Hargs]. pose proof (in_list_sum tysz x targs Hx). lia.
Qed.
Lemma G_ty' t k : wf_ty t = true -> glue (ak (d_ty c t) k) = Tk_ty t (glue k).
Proof. intros. now apply (G_ty (tysz t)). Qed.
Lemma ty_nocns t k : wf_ty t = true -> nocns (ak (d_ty c t) k) = true.
Proof.
  destruct t as [|n targs]; [reflexivity|]. cbn [wf_ty]. intros H. apply andb_prop in H. destruct H as [H _].
  rewrite ak_ty_decl. cbn [nocns]. now rewrite upper_not_cns.
Qed.
Lemma G_tyargs targs k : forallb wf_ty targs = true -> glue (ak (d_tyargs c targs) k) = Tk_tyargs targs (glue k).
Proof.
  intros Hwf. rewrite forallb_forall in Hwf. destruct targs as [|t l]; [reflexivity|].
  remember (t :: l) as targs eqn:E.
  assert (ak (d_tyargs c targs) k = ASym SLBrack :: acommas (map (fun t => ak (d_ty c t)) targs) (ASym SRBrack :: k)) as ->.
  { subst targs. unfold d_tyargs, brackets, enclose, dsym. cbn [ak].
    rewrite ak_sep_, ak_comma_sep, ak_sep_, map_map. reflexivity. }
  assert (Tk_tyargs targs (glue k) = TSym SLBrack :: commas (map Tk_ty targs) (TSym SRBrack :: glue k)) as ->
    by (subst targs; reflexivity).
  rewrite glue_sym by reflexivity. f_equal.
  rewrite (glue_acommas (fun t => ak (d_ty c t)) Tk_ty); [now rewrite glue_sym by reflexivity | | reflexivity].
  intros x Hx k' _. apply G_ty'. now apply Hwf.
Qed.

(* ---------- name lists and contexts ---------- *)
Lemma G_wordlist (l r : sym) (tok : string -> token) names k :
  plain_sym l = true -> plain_sym r = true ->
  (forall s, In s names -> word_token s = tok s) ->
  glue (match names with [] => k | _ => ASym l :: acommas (map (fun s => cons (AWord s)) names) (ASym r :: k) end)
  = opt_bracketed l r (map (fun s k => tok s :: k) names) (glue k).
Proof.
  intros Hl Hr Hn. destruct names as [|s names']; [reflexivity|].
  remember (s :: names') as names eqn:E.
  assert (opt_bracketed l r (map (fun s k => tok s :: k) names) (glue k)
          = TSym l :: commas (map (fun s k => tok s :: k) names) (TSym r :: glue k)) as -> by (subst names; reflexivity).
  rewrite glue_sym by assumption. f_equal.
  rewrite (glue_acommas (fun s => cons (AWord s)) (fun s k => tok s :: k));
    [now rewrite glue_sym by assumption | | destruct r; try discriminate; reflexivity].
  intros x Hx k' _. rewrite glue_word. now rewrite Hn.
Qed.
Lemma ak_namectx names k :
  ak (d_namectx c names) k =
  match names with [] => k | _ => ASym SLPar :: acommas (map (fun s => cons (AWord s)) names) (ASym SRPar :: k) end.
Proof.
  unfold d_namectx. destruct names as [|s l]; [reflexivity|].
  unfold parens, enclose, dsym. cbn [ak]. rewrite ak_sep_, ak_comma_sep, ak_sep_, map_map. reflexivity.
Qed.
Lemma ak_typectx names k :
  ak (d_typectx c names) k =
  match names with [] => k | _ => ASym SLBrack :: acommas (map (fun s => cons (AWord s)) names) (ASym SRBrack :: k) end.
Proof.
  unfold d_typectx. destruct names as [|s l]; [reflexivity|].
  unfold brackets, enclose, dsym. cbn [ak]. rewrite ak_sep_, ak_comma_sep, ak_sep_, map_map. reflexivity.
Qed.
Lemma G_names names k : forallb lower_ok names = true -> glue (ak (d_namectx c names) k) = Tk_names names (glue k).
Proof.
  intros H. rewrite forallb_forall in H. rewrite ak_namectx. unfold Tk_names, Tk_lower.
  apply (G_wordlist SLPar SRPar TLower); try reflexivity. intros s Hs. apply word_token_lower. now apply H.
Qed.
Lemma G_typarams names k : forallb upper_ok names = true -> glue (ak (d_typectx c names) k) = Tk_typarams names (glue k).
Proof.
  intros H. rewrite forallb_forall in H. rewrite ak_typectx. unfold Tk_typarams, Tk_upper.
  apply (G_wordlist SLBrack SRBrack TUpper); try reflexivity. intros s Hs. apply word_token_upper. now apply H.
Qed.
Lemma G_binding b k : wf_binding b = true -> glue (ak (d_binding c b) k) = Tk_binding b (glue k).
Proof.
  unfold wf_binding. intros H. apply andb_prop in H. destruct H as [Hv Hty]. destruct b as [v chi ty].
  unfold d_binding, Tk_binding, word, dsym. cbn [fbvar fbchi fbty] in *. cbn [ak].
  rewrite glue_word, word_token_lower by assumption. f_equal.
  destruct chi; unfold d_chi, word; cbn [ak].
  - rewrite glue_colon by (now apply ty_nocns). now rewrite G_ty'.
  - rewrite glue_colon_cns. now rewrite G_ty'.
Qed.
Lemma ak_ctx g k : ak (d_ctx c g) k = acommas (map (fun b => ak (d_binding c b)) g) k.
Proof.
  unfold d_ctx. destruct g as [|b g']; [reflexivity|].
  cbn [ak]. rewrite ak_sep_, ak_comma_sep, ak_sep_, map_map. reflexivity.
Qed.
Lemma G_ctx_list g k : wf_ctx g = true -> nocmp k = true ->
  glue (acommas (map (fun b => ak (d_binding c b)) g) k) = commas (map Tk_binding g) (glue k).
Proof.
  intros H Hk. unfold wf_ctx in H. rewrite forallb_forall in H.
  apply (glue_acommas (fun b => ak (d_binding c b)) Tk_binding); [|assumption].
  intros b Hb k' _. apply G_binding. now apply H.
Qed.
End G.

Section GT.
Variable c : pcfg.

(* ---------- terms: atoms of each form ---------- *)
Lemma ak_call f args r k : ak (d_term c (FCall f args r)) k =
  AWord f :: ASym SLPar :: acommas (map (fun t => ak (d_term c t)) args) (ASym SRPar :: k).
Proof.
  change (d_term c (FCall f args r)) with (DAppend (word f) (DGroup (parens (d_args c (map (d_term c) args))))).
  unfold word, parens, enclose, dsym. cbn [ak]. rewrite ak_args, map_map. reflexivity.
Qed.
Lemma ak_ctor x args r k : ak (d_term c (FCtor x args r)) k =
  AWord x :: match args with
             | [] => k
             | _ => ASym SLPar :: acommas (map (fun t => ak (d_term c t)) args) (ASym SRPar :: k)
             end.
Proof.
  change (d_term c (FCtor x args r)) with (DAppend (word x) (DGroup (d_optargs c (map (d_term c) args)))).
  unfold word. cbn [ak]. rewrite ak_optargs, map_map. destruct args; reflexivity.
Qed.
Lemma ak_dtor s x targs args r k : ak (d_term c (FDtor s x targs args r)) k =
  ak (d_term c s) (ASym SDot :: AWord x :: ak (d_tyargs c targs)
     match args with
     | [] => k
     | _ => ASym SLPar :: acommas (map (fun t => ak (d_term c t)) args) (ASym SRPar :: k)
     end).
Proof.
  change (d_term c (FDtor s x targs args r)) with
    (let args' := DGroup (d_optargs c (map (d_term c) args)) in
     if short_scrutinee c s
     then DAppend (DAppend (DAppend (DAppend (d_term c s) (dsym SDot)) (word x)) (d_tyargs c targs)) args'
     else DAlign (DNest (pindent c) (DAppend (DAppend (DAppend (DAppend (DAppend (d_term c s) DLine_) (dsym SDot)) (word x)) (d_tyargs c targs)) args'))).
  cbv zeta. destruct (short_scrutinee c s); unfold word, dsym; cbn [ak]; rewrite ak_optargs, map_map;
    destruct args; reflexivity.
Qed.
Lemma ak_case s targs cls r k : ak (d_term c (FCase s targs cls r)) k =
  ak (d_term c s) (ASym SDot :: AWord "case" :: ak (d_tyargs c targs)
     (ASym SLBrace :: acommas (map (fun cl => ak (d_clause c cl)) cls) (ASym SRBrace :: k))).
Proof.
  change (d_term c (FCase s targs cls r)) with
    (if is_dtor s
     then DAlign (DNest (pindent c) (DAppend (DAppend (DAppend (DAppend (DAppend (DAppend (d_term c s) DLine_) (dsym SDot)) (word "case")) (d_tyargs c targs)) DSpace) (d_clauses c (map (d_clause c) cls))))
     else DAppend (DAppend (DAppend (DAppend (DAppend (d_term c s) (dsym SDot)) (word "case")) (d_tyargs c targs)) DSpace) (d_clauses c (map (d_clause c) cls))).
  destruct (is_dtor s); unfold word, dsym; cbn [ak]; rewrite ak_clauses, map_map; reflexivity.
Qed.
Lemma ak_new cls r k : ak (d_term c (FNew cls r)) k =
  AWord "new" :: ASym SLBrace :: acommas (map (fun cl => ak (d_clause c cl)) cls) (ASym SRBrace :: k).
Proof.
  change (d_term c (FNew cls r)) with (DAppend (DAppend (word "new") DSpace) (d_clauses c (map (d_clause c) cls))).
  unfold word. cbn [ak]. rewrite ak_clauses, map_map. reflexivity.
Qed.
Lemma ak_clause p x names g body k : ak (d_clause c (FClause p x names g body)) k =
  AWord x :: ak (d_namectx c names) (ASym SArrow :: ak (d_term c body) k).
Proof. reflexivity. Qed.

(* the first atom *)
Lemma ak_head t : forall k, exists a tl, ak (d_term c t) k = a :: tl /\ (starts_zero t = false -> a <> ANum 0).
Proof.
  induction t; intros k.
  - eexists _, _; split; [reflexivity | discriminate].
  - cbn [d_term]. unfold d_lit. destruct (n <? 0)%Z eqn:E.
    + eexists _, _; split; [reflexivity | discriminate].
    + eexists _, _; split; [reflexivity|]. destruct n; cbn in *; try discriminate; congruence.
  - destruct (IHt1 (ak (DAppend (DAppend (DAppend DSpace (d_binop o)) DSpace) (DGroup (d_term c t2))) k)) as (a & tl & E & H).
    exists a, tl. split; [|exact H]. cbn [d_term ak] in *. exact E.
  - cbn [d_term]. destruct b as [b|]; [destruct (ends_zero t1), (starts_zero b) | destruct (ends_zero t1)];
      eexists _, _; (split; [reflexivity | discriminate]).
  - destruct nl; eexists _, _; (split; [reflexivity | discriminate]).
  - eexists _, _; split; [reflexivity | discriminate].
  - rewrite ak_call. eexists _, _; split; [reflexivity | discriminate].
  - rewrite ak_ctor. eexists _, _; split; [reflexivity | discriminate].
  - rewrite ak_dtor. destruct (IHt (ASym SDot :: AWord x :: ak (d_tyargs c targs)
        match args with [] => k | _ => ASym SLPar :: acommas (map (fun t => ak (d_term c t)) args) (ASym SRPar :: k) end))
      as (a & tl & E & H). exists a, tl. split; [exact E | exact H].
  - rewrite ak_case. destruct (IHt (ASym SDot :: AWord "case" :: ak (d_tyargs c targs)
        (ASym SLBrace :: acommas (map (fun cl => ak (d_clause c cl)) cls) (ASym SRBrace :: k))))
      as (a & tl & E & H). exists a, tl. split; [exact E | exact H].
  - rewrite ak_new. eexists _, _; split; [reflexivity | discriminate].
  - eexists _, _; split; [reflexivity | discriminate].
  - eexists _, _; split; [reflexivity | discriminate].
  - eexists _, _; split; [reflexivity | discriminate].
  - eexists _, _; split; [reflexivity | discriminate].
Qed.
Lemma nozero_term t k : starts_zero t = false -> nozero (ak (d_term c t) k) = true.
Proof.
  intros H. destruct (ak_head t k) as (a & tl & -> & Ha). specialize (Ha H).
  destruct a as [|[]| |]; try reflexivity. congruence.
Qed.

(* ---------- gluing, per form ---------- *)
Definition G (t : fterm) : Prop := forall k,
  ends_zero t = false \/ nocmp k = true -> glue (ak (d_term c t) k) = Tk_term t (glue k).
Definition Gcl (pol : fpol) (cl : fclause) : Prop := forall k,
  nocmp k = true -> glue (ak (d_clause c cl) k) = Tk_clause cl (glue k).

Lemma G_var v ty chi : lower_ok v = true -> G (FVar v ty chi).
Proof. intros Hv k _. cbn [d_term Tk_term]. unfold word. cbn [ak]. now rewrite glue_word, word_token_lower. Qed.
Lemma G_lit z : G (FLit z).
Proof.
  intros k H. cbn [d_term Tk_term]. unfold d_lit, Tk_lit, dsym. destruct (z <? 0)%Z eqn:E.
  - apply Z.ltb_lt in E. cbn [ak]. rewrite glue_sym by reflexivity. rewrite glue_num_pos by lia. reflexivity.
  - apply Z.ltb_ge in E. cbn [ak]. destruct z as [|p|p]; [|now rewrite glue_num_pos by discriminate|lia].
    cbn [Z.to_N]. destruct H as [H|H]; [discriminate|]. now rewrite glue_num0.
Qed.
Lemma plain_binop o : plain_sym (sym_of_binop o) = true.
Proof. destruct o; reflexivity. Qed.
Lemma d_binop_sym o : d_binop o = DText (ASym (sym_of_binop o)).
Proof. destruct o; reflexivity. Qed.
Lemma G_op a o b : G a -> G b -> G (FOp a o b).
Proof.
  intros Ha Hb k H. cbn [d_term Tk_term ak]. rewrite d_binop_sym. cbn [ak].
  rewrite Ha by (right; destruct o; reflexivity). rewrite glue_sym by apply plain_binop. rewrite Hb; [reflexivity|exact H].
Qed.
Lemma G_block t k : G t ->
  glue (ak (block c (d_term c t)) k) = TSym SLBrace :: Tk_term t (TSym SRBrace :: glue k).
Proof.
  intros Ht. unfold block, braces, enclose, dsym. cbn [ak]. rewrite glue_sym by reflexivity.
  rewrite Ht by (right; reflexivity). now rewrite glue_sym by reflexivity.
Qed.
Lemma G_pblock t k : G t ->
  glue (ak (pblock c (d_term c t)) k) = TSym SLPar :: Tk_term t (TSym SRPar :: glue k).
Proof.
  intros Ht. unfold pblock, parens, enclose, dsym. cbn [ak]. rewrite glue_sym by reflexivity.
  rewrite Ht by (right; reflexivity). now rewrite glue_sym by reflexivity.
Qed.
Lemma nocmp_block d k : nocmp (ak (block c d) k) = true.
Proof. reflexivity. Qed.
Lemma ak_if s a b th el ty k :
  ak (d_term c (FIfC s a b th el ty)) k =
  AWord "if" ::
    let br := ak (block c (d_term c th)) (AWord "else" :: ak (block c (d_term c el)) k) in
    match b with
    | None => if ends_zero a then ANum 0 :: ASym (SCmp (flip s)) :: ak (d_term c a) br
              else ak (d_term c a) (ASym (SCmp s) :: ANum 0 :: br)
    | Some b' => ak (d_term c a) ((if ends_zero a then [AComment] else []) ++
                   ASym (SCmp s) :: (if starts_zero b' then [ASym SMinus] else []) ++ ak (d_term c b') br)
    end.
Proof.
  cbn [d_term]. unfold word, dsym. destruct b as [b|].
  - destruct (ends_zero a), (starts_zero b); reflexivity.
  - destruct (ends_zero a); reflexivity.
Qed.
Lemma G_if s a b th el ty :
  G a -> match b with Some b' => G b' | None => True end ->
  G th -> G el -> G (FIfC s a b th el ty).
Proof.
  intros Ha Hb Hth Hel k _. rewrite ak_if. cbv zeta. cbn [Tk_term].
  rewrite glue_word. change (word_token "if") with (TKw KIf). f_equal.
  assert (Hbr : glue (ak (block c (d_term c th)) (AWord "else" :: ak (block c (d_term c el)) k))
                = TSym SLBrace :: Tk_term th (TSym SRBrace :: TKw KElse :: TSym SLBrace :: Tk_term el (TSym SRBrace :: glue k))).
  { rewrite G_block by auto. do 2 f_equal.
    rewrite glue_word. change (word_token "else") with (TKw KElse). f_equal.
    now rewrite G_block by auto. }
  destruct b as [b|].
  - (* general form: a comment after a final 0 of the first operand, a minus sign before a leading 0 of the second *)
    rewrite Ha by (destruct (ends_zero a); [right; reflexivity | left; reflexivity]). f_equal.
    assert (glue ((if ends_zero a then [AComment] else []) ++
                  ASym (SCmp s) :: (if starts_zero b then [ASym SMinus] else []) ++
                  ak (d_term c b) (ak (block c (d_term c th)) (AWord "else" :: ak (block c (d_term c el)) k)))
            = glue (ASym (SCmp s) :: (if starts_zero b then [ASym SMinus] else []) ++
                    ak (d_term c b) (ak (block c (d_term c th)) (AWord "else" :: ak (block c (d_term c el)) k)))) as ->
      by (destruct (ends_zero a); reflexivity).
    destruct (starts_zero b) eqn:Zb; cbn [app].
    + rewrite glue_cmp by reflexivity. f_equal. rewrite glue_sym by reflexivity. f_equal.
      rewrite Hb by (right; apply nocmp_block). now rewrite Hbr.
    + rewrite glue_cmp by (now apply nozero_term). f_equal.
      rewrite Hb by (right; apply nocmp_block). now rewrite Hbr.
  - destruct (ends_zero a) eqn:Za.
    + (* zero on the left *)
      rewrite glue_zero_cmp. f_equal. rewrite Ha by (right; apply nocmp_block). now rewrite Hbr.
    + rewrite Ha by (left; exact Za). f_equal. rewrite glue_cmp0. now rewrite Hbr.
Qed.
Lemma G_print nl a next ty : G a -> G next -> G (FPrint nl a next ty).
Proof.
  intros Ha Hn k H. cbn [d_term Tk_term]. unfold word, dsym. cbn [ak].
  rewrite glue_word. assert (word_token (if nl then "println_i64" else "print_i64") = TKw (if nl then KPrintln else KPrint)) as ->
    by (destruct nl; reflexivity).
  f_equal. rewrite G_pblock by assumption. do 3 f_equal. rewrite glue_sym by reflexivity. f_equal.
  apply Hn. exact H.
Qed.
Lemma G_let v vty bound body ty : lower_ok v = true -> wf_ty vty = true -> G bound -> G body ->
  G (FLet v vty bound body ty).
Proof.
  intros Hv Hty Hb Ht k H. cbn [d_term Tk_term]. unfold word, dsym. cbn [ak].
  rewrite glue_word. change (word_token "let") with (TKw KLet). f_equal.
  rewrite glue_word, word_token_lower by assumption. f_equal.
  rewrite glue_colon by (now apply ty_nocns). f_equal.
  rewrite G_ty' by assumption. f_equal. rewrite glue_sym by reflexivity. f_equal.
  rewrite Hb by (right; reflexivity). f_equal. rewrite glue_sym by reflexivity. f_equal.
  apply Ht. exact H.
Qed.
Lemma G_arglist args k : (forall a, In a args -> G a) -> nocmp k = true ->
  glue (acommas (map (fun t => ak (d_term c t)) args) k) = commas (map Tk_term args) (glue k).
Proof.
  intros HG Hk. apply (glue_acommas (fun t => ak (d_term c t)) Tk_term); [|assumption].
  intros x Hx k' Hk'. apply (HG x Hx). now right.
Qed.
Lemma G_call f args r : lower_ok f = true -> (forall a, In a args -> G a) -> G (FCall f args r).
Proof.
  intros Hf HG k _. rewrite ak_call, Tk_call. unfold bracketed.
  rewrite glue_word, word_token_lower by assumption. f_equal. rewrite glue_sym by reflexivity. f_equal.
  rewrite G_arglist by (auto). now rewrite glue_sym by reflexivity.
Qed.
Lemma G_optargs args k : (forall a, In a args -> G a) ->
  glue match args with
       | [] => k
       | _ => ASym SLPar :: acommas (map (fun t => ak (d_term c t)) args) (ASym SRPar :: k)
       end = opt_bracketed SLPar SRPar (map Tk_term args) (glue k).
Proof.
  intros HG. destruct args as [|a l]; [reflexivity|]. remember (a :: l) as args eqn:E.
  assert (opt_bracketed SLPar SRPar (map Tk_term args) (glue k)
          = TSym SLPar :: commas (map Tk_term args) (TSym SRPar :: glue k)) as -> by (subst args; reflexivity).
  rewrite glue_sym by reflexivity. f_equal. rewrite G_arglist by auto. now rewrite glue_sym by reflexivity.
Qed.
Lemma G_ctor x args r : upper_ok x = true -> (forall a, In a args -> G a) -> G (FCtor x args r).
Proof.
  intros Hx HG k _. rewrite ak_ctor, Tk_ctor.
  rewrite glue_word, word_token_upper by assumption. f_equal. now apply G_optargs.
Qed.
Lemma G_dtor s x targs args r :
  G s -> lower_ok x = true -> forallb wf_ty targs = true -> (forall a, In a args -> G a) ->
  G (FDtor s x targs args r).
Proof.
  intros Hs Hx Hty HG k _. rewrite ak_dtor, Tk_dtor.
  rewrite Hs by (right; reflexivity). f_equal. rewrite glue_sym by reflexivity. f_equal.
  rewrite glue_word, word_token_lower by assumption. f_equal.
  rewrite G_tyargs by assumption. f_equal. now apply G_optargs.
Qed.
Lemma G_clauses pol cls k : (forall cl, In cl cls -> Gcl pol cl) ->
  glue (ASym SLBrace :: acommas (map (fun cl => ak (d_clause c cl)) cls) (ASym SRBrace :: k))
  = bracketed SLBrace SRBrace (map Tk_clause cls) (glue k).
Proof.
  intros HG. unfold bracketed. rewrite glue_sym by reflexivity. f_equal.
  rewrite (glue_acommas (fun cl => ak (d_clause c cl)) Tk_clause); [now rewrite glue_sym by reflexivity | | reflexivity].
  intros cl Hcl k' Hk'. now apply (HG cl Hcl).
Qed.
Lemma G_case s targs cls r : G s -> forallb wf_ty targs = true -> (forall cl, In cl cls -> Gcl FData cl) ->
  G (FCase s targs cls r).
Proof.
  intros Hs Hty HG k _. rewrite ak_case, Tk_case.
  rewrite Hs by (right; reflexivity). f_equal. rewrite glue_sym by reflexivity. f_equal.
  rewrite glue_word. change (word_token "case") with (TKw KCase). f_equal.
  rewrite G_tyargs by assumption. f_equal.
  now apply (G_clauses FData).
Qed.
Lemma G_new cls r : (forall cl, In cl cls -> Gcl FCodata cl) -> G (FNew cls r).
Proof.
  intros HG k _. rewrite ak_new, Tk_new.
  rewrite glue_word. change (word_token "new") with (TKw KNew). f_equal.
  now apply (G_clauses FCodata).
Qed.
Lemma G_clause pol p x names g body :
  wf_clause pol (FClause p x names g body) = true -> G body -> Gcl pol (FClause p x names g body).
Proof.
  intros Hwf Hb k Hk. cbn [wf_clause] in Hwf. rewrite !andb_true_iff in Hwf.
  destruct Hwf as ((((Hp & Hx) & Hns) & _) & _).
  assert (p = pol) as -> by (destruct p, pol; try discriminate; reflexivity).
  rewrite ak_clause. cbn [Tk_clause]. rewrite glue_word.
  assert (word_token x = match pol with FData => TUpper x | FCodata => TLower x end) as ->
    by (destruct pol; [now apply word_token_upper | now apply word_token_lower]).
  f_equal. rewrite G_names by assumption. f_equal. rewrite glue_sym by reflexivity. f_equal.
  apply Hb. now right.
Qed.
Lemma G_label l t ty : lower_ok l = true -> G t -> G (FLabel l t ty).
Proof.
  intros Hl Ht k _. cbn [d_term Tk_term]. unfold word. cbn [ak].
  rewrite glue_word. change (word_token "label") with (TKw KLabel). f_equal.
  rewrite glue_word, word_token_lower by assumption. f_equal.
  now apply G_block.
Qed.
Lemma G_goto l t ty : lower_ok l = true -> G t -> G (FGoto l t ty).
Proof.
  intros Hl Ht k _. cbn [d_term Tk_term]. unfold word. cbn [ak].
  rewrite glue_word. change (word_token "goto") with (TKw KGoto). f_equal.
  rewrite glue_word, word_token_lower by assumption. f_equal. now apply G_pblock.
Qed.
Lemma G_exit a ty : G a -> G (FExit a ty).
Proof.
  intros Ha k H. cbn [d_term Tk_term]. unfold word. cbn [ak].
  rewrite glue_word. change (word_token "exit") with (TKw KExit). f_equal. apply Ha. exact H.
Qed.
Lemma G_paren t : G t -> G (FParen t).
Proof. intros Ht k _. cbn [d_term Tk_term]. now apply G_pblock. Qed.
End GT.

(* ---------- assembling ---------- *)
Lemma G_all c : forall m t, tsz t <= m -> wf t = true -> G c t.
Proof.
  induction m as [|m IH]; intros t Hm Hwf. { pose proof (tsz_pos t). lia. }
  assert (IHargs : forall args, list_sum (map tsz args) <= m -> forallb wf args = true ->
                               forall a, In a args -> G c a).
  { intros args Hs Hw a Hin. rewrite forallb_forall in Hw. apply IH; [|now apply Hw].
    pose proof (in_list_sum tsz a args Hin). lia. }
  assert (IHcls : forall pol cls, list_sum (map csz cls) <= m -> forallb (wf_clause pol) cls = true ->
                  forall cl, In cl cls -> Gcl c pol cl).
  { intros pol cls Hs Hw cl Hin. rewrite forallb_forall in Hw. specialize (Hw _ Hin).
    destruct cl as [p x ns g body]. apply G_clause; [assumption|].
    cbn [wf_clause] in Hw. rewrite !andb_true_iff in Hw. destruct Hw as (_ & Hb).
    pose proof (in_list_sum csz _ cls Hin) as Hc. rewrite csz_clause in Hc.
    apply IH; [lia | assumption]. }
  destruct t as [v ty chi | z | a o b | s a b th el ty | nl a next ty | v vty bound body ty | f args ret
                 | x args ty | scrut x targs args ty | scrut targs cls ty | cls ty | l u ty | l u ty | a ty | u].
  - cbn [wf] in Hwf. rewrite !andb_true_iff in Hwf. destruct Hwf as ((Hv & _) & _). now apply G_var.
  - apply G_lit.
  - cbn [wf] in Hwf. rewrite !andb_true_iff in Hwf. destruct Hwf as (((Ha & Hb) & _) & _).
    rewrite tsz_op in Hm. apply G_op; apply IH; auto; lia.
  - cbn [wf] in Hwf. rewrite !andb_true_iff in Hwf. destruct Hwf as ((((Ha & Hb) & Hth) & Hel) & _).
    rewrite tsz_if in Hm.
    apply G_if; auto.
    + apply IH; auto; lia.
    + destruct b as [b|]; [|exact I]. apply IH; auto; lia.
    + apply IH; auto; lia.
    + apply IH; auto; lia.
  - cbn [wf] in Hwf. rewrite !andb_true_iff in Hwf. destruct Hwf as ((Ha & Hn) & _).
    rewrite tsz_print in Hm. apply G_print; apply IH; auto; lia.
  - cbn [wf] in Hwf. rewrite !andb_true_iff in Hwf. destruct Hwf as (((((Hv & Hvty) & Hb) & _) & Ht) & _).
    rewrite tsz_let in Hm. apply G_let; auto; apply IH; auto; lia.
  - cbn [wf] in Hwf. rewrite !andb_true_iff in Hwf. destruct Hwf as ((Hf & Hargs) & _).
    rewrite tsz_call in Hm. apply G_call; auto. apply IHargs; auto; lia.
  - cbn [wf] in Hwf. rewrite !andb_true_iff in Hwf. destruct Hwf as ((Hf & Hargs) & _).
    rewrite tsz_ctor in Hm. apply G_ctor; auto. apply IHargs; auto; lia.
  - apply wf_dtor_inv in Hwf. destruct Hwf as (Hs & _ & Hx & Hty & Hargs & _).
    rewrite tsz_dtor in Hm. apply G_dtor; auto.
    + apply IH; auto; lia.
    + apply IHargs; auto; lia.
  - apply wf_case_inv in Hwf. destruct Hwf as (Hs & _ & Hty & Hcls & _).
    rewrite tsz_case in Hm. apply G_case; auto.
    + apply IH; auto; lia.
    + apply (IHcls FData); auto; lia.
  - cbn [wf] in Hwf. rewrite !andb_true_iff in Hwf. destruct Hwf as (Hcls & _).
    rewrite tsz_new in Hm. apply G_new. apply (IHcls FCodata); auto; lia.
  - cbn [wf] in Hwf. rewrite !andb_true_iff in Hwf. destruct Hwf as ((Hl & Ht) & _).
    rewrite tsz_label in Hm. apply G_label; auto. apply IH; auto; lia.
  - cbn [wf] in Hwf. rewrite !andb_true_iff in Hwf. destruct Hwf as ((Hl & Ht) & _).
    rewrite tsz_goto in Hm. apply G_goto; auto. apply IH; auto; lia.
  - cbn [wf] in Hwf. rewrite !andb_true_iff in Hwf. destruct Hwf as (Ha & _).
    rewrite tsz_exit in Hm. apply G_exit. apply IH; auto; lia.
  - cbn [wf] in Hwf. rewrite tsz_paren in Hm. apply G_paren. apply IH; auto; lia.
Qed.

(* ---------- declarations ---------- *)
Lemma ak_sigargs c g k :
  ak (d_sigargs c g) k =
  match g with [] => k | _ => ASym SLPar :: acommas (map (fun b => ak (d_binding c b)) g) (ASym SRPar :: k) end.
Proof.
  unfold d_sigargs. destruct g as [|b g']; [reflexivity|].
  unfold parens, enclose, dsym. cbn [ak]. rewrite ak_ctx. reflexivity.
Qed.
Lemma G_sigargs c g k : wf_ctx g = true -> glue (ak (d_sigargs c g) k) = Tk_sigargs g (glue k).
Proof.
  intros Hwf. rewrite ak_sigargs. destruct g as [|b g']; [reflexivity|]. remember (b :: g') as g eqn:E.
  assert (Tk_sigargs g (glue k) = TSym SLPar :: commas (map Tk_binding g) (TSym SRPar :: glue k)) as ->
    by (subst g; reflexivity).
  rewrite glue_sym by reflexivity. f_equal. rewrite G_ctx_list by auto. now rewrite glue_sym by reflexivity.
Qed.
Lemma ak_decl_body c (sigs : list doc) k :
  ak (d_decl_body c sigs) k = ASym SLBrace :: acommas (map ak sigs) (ASym SRBrace :: k).
Proof.
  unfold d_decl_body, braces, enclose, dsym. destruct sigs as [|s l]; [reflexivity|].
  cbn [ak]. rewrite ak_intersperse by reflexivity. reflexivity.
Qed.
Lemma G_decl c d k : wf_decl d = true -> glue (ak (d_decl c d) k) = Tk_decl d (glue k).
Proof.
  intros Hwf. destruct d as [d|d|d]; cbn [wf_decl d_decl] in *.
  - destruct d as [x ps cs]. cbn [fdaname fdaparams fdactors] in *.
    rewrite !andb_true_iff in Hwf. destruct Hwf as ((Hx & Hps) & Hcs). rewrite forallb_forall in Hcs.
    unfold d_data, Tk_decl, word. cbn [fdaname fdaparams fdactors ak].
    rewrite glue_word. change (word_token "data") with (TKw KData). f_equal.
    rewrite glue_word, word_token_upper by assumption. f_equal.
    rewrite G_typarams by assumption. f_equal.
    rewrite ak_decl_body, map_map. unfold bracketed. rewrite glue_sym by reflexivity. f_equal.
    rewrite (glue_acommas (fun s => ak (d_ctorsig c s)) Tk_ctorsig); [now rewrite glue_sym by reflexivity | | reflexivity].
    intros s Hs k' _. specialize (Hcs s Hs). apply andb_prop in Hcs. destruct Hcs as [Hn Hg].
    unfold d_ctorsig, Tk_ctorsig, word. cbn [ak]. rewrite glue_word, word_token_upper by assumption. f_equal.
    now apply G_sigargs.
  - destruct d as [x ps ds]. cbn [fcoaname fcoparams fcodtors] in *.
    rewrite !andb_true_iff in Hwf. destruct Hwf as ((Hx & Hps) & Hds). rewrite forallb_forall in Hds.
    unfold d_codata, Tk_decl, word. cbn [fcoaname fcoparams fcodtors ak].
    rewrite glue_word. change (word_token "codata") with (TKw KCodata). f_equal.
    rewrite glue_word, word_token_upper by assumption. f_equal.
    rewrite G_typarams by assumption. f_equal.
    rewrite ak_decl_body, map_map. unfold bracketed. rewrite glue_sym by reflexivity. f_equal.
    rewrite (glue_acommas (fun s => ak (d_dtorsig c s)) Tk_dtorsig); [now rewrite glue_sym by reflexivity | | reflexivity].
    intros s Hs k' _. specialize (Hds s Hs). rewrite !andb_true_iff in Hds. destruct Hds as ((Hn & Hg) & Hty).
    unfold d_dtorsig, Tk_dtorsig, word, dsym. cbn [ak]. rewrite glue_word, word_token_lower by assumption. f_equal.
    rewrite G_sigargs by assumption. f_equal.
    rewrite glue_colon by (now apply ty_nocns). f_equal. now apply G_ty'.
  - destruct d as [f g ret body]. cbn [fdname fdctx fdret fdbody] in *.
    rewrite !andb_true_iff in Hwf. destruct Hwf as (((Hf & Hg) & Hret) & Hbody).
    unfold d_def, Tk_decl, word, dsym, parens, braces, enclose, dsym. cbn [fdname fdctx fdret fdbody ak].
    rewrite glue_word. change (word_token "def") with (TKw KDef). f_equal.
    rewrite glue_word, word_token_lower by assumption. f_equal.
    unfold Tk_ctx, bracketed. rewrite glue_sym by reflexivity. f_equal.
    rewrite ak_ctx. rewrite G_ctx_list by auto. f_equal. rewrite glue_sym by reflexivity. f_equal.
    rewrite glue_colon by (now apply ty_nocns). f_equal.
    rewrite G_ty' by assumption. f_equal. rewrite glue_sym by reflexivity. f_equal.
    rewrite (G_all c (tsz body) body) by (auto; right; reflexivity). reflexivity.
Qed.

Lemma ak_intersperse_blank sep (l : list doc) k :
  (forall X, ak sep X = X) -> ak (intersperse l sep) k = fold_right ak k l.
Proof.
  intros Hsep. unfold intersperse. destruct l as [|d l]; [reflexivity|].
  rewrite ak_intersperse_from. cbn [ak fold_right]. f_equal.
  induction l as [|e l IH]; [reflexivity|]. cbn [fold_right]. rewrite Hsep. now rewrite IH.
Qed.

(* The token stream of the printed document, for every configuration. *)
Theorem tokens_print c p : wf_prog p = true -> tokens (d_prog c p) = T_prog p.
Proof.
  intros Hwf. unfold tokens. rewrite atoms_ak. destruct p as [ds]. unfold d_prog, T_prog, wf_prog in *.
  cbn [fpdecls] in *.
  rewrite ak_intersperse_blank by (intros; destruct (pomit_sep c); reflexivity).
  rewrite forallb_forall in Hwf.
  change (@nil token) with (glue []). generalize (@nil atom) as k.
  induction ds as [|d ds IH]; intros k; [reflexivity|].
  cbn [map fold_right Tk_decls]. rewrite G_decl by (apply Hwf; now left).
  f_equal. apply IH; intros x Hx; apply Hwf; now right.
Qed.
