(* Proof/CoreTyChi.v (C12) - a statement typed by Sem/CoreCheck.v respects the discipline of the Rust type
   parameter of Term<C> ([chi_ok_*] of Lang/CoreSyn.v): the prdcns fields are those of the positions. *)
From Coq Require Import List ZArith NArith String Bool Lia.
From SCC Require Import Base.Sexp Lang.SynUtil Lang.CoreSyn Sem.FsCheck Sem.CoreCheck Proof.CoreInd Proof.CoreTyRules.
Import ListNotations.
Open Scope list_scope.

(* ---------- a typed statement respects the prdcns discipline ---------- *)
Section ChiOk.
  Variables (data codata : list ctydecl) (defs : list cdef).
  Notation ct := (ccheck_term data codata defs).
  Notation cs := (ccheck_stmt data codata defs).

  Lemma chi_args_eq : forall args,
    (fix go (l : list carg) : bool := match l with [] => true | y :: r => chi_ok_carg y && go r end) args
    = forallb chi_ok_carg args.
  Proof. induction args as [|a r IH]; simpl; [reflexivity | rewrite IH; reflexivity]. Qed.
  Lemma chi_cls_eq : forall c cls,
    (fix go (l : list cclause) : bool := match l with [] => true | y :: r => chi_ok_cclause c y && go r end) cls
    = forallb (chi_ok_cclause c) cls.
  Proof. intros c. induction cls as [|a r IH]; simpl; [reflexivity | rewrite IH; reflexivity]. Qed.

  Lemma cclauses_match_chi : forall side n cls xs, cclauses_match side n cls xs = None ->
    forall cl, In cl cls -> match cl with CClause c' _ _ _ => c' = side end.
  Proof.
    intros side n. induction cls as [|[c' x ctx body] cr IH]; intros xs H cl Hin; [contradiction|].
    destruct xs as [|sg xr]; [discriminate|]. cbn [cclauses_match] in H.
    apply seqn in H. destruct H as [H1 H]. apply fens in H1. apply ceq_chi in H1.
    apply seqn in H. destruct H as [_ H]. apply seqn in H. destruct H as [_ H]. apply seqn in H. destruct H as [_ H].
    destruct Hin as [<-|Hin]; [exact H1 | eapply IH; eassumption].
  Qed.

  Lemma typed_chi_ok_all :
    (forall t G side ty, ct G side ty t = None -> chi_ok_cterm side t = true) /\
    (forall a G s, arg_typed data codata defs G a s -> chi_ok_carg a = true) /\
    (forall cl G, clause_typed data codata defs G cl -> match cl with CClause _ _ _ body => chi_ok_cstmt body = true end) /\
    (forall s G, cs G s = None -> chi_ok_cstmt s = true).
  Proof.
    apply core_mutind.
    - intros c v t G side ty H. apply ct_var in H. destruct H as [-> _]. simpl. apply ceq_chi_refl.
    - reflexivity.
    - intros a o b IHa IHb G side ty H. apply ct_op in H. destruct H as [_ [_ [Ha Hb]]]. simpl.
      rewrite (IHa _ _ _ Ha), (IHb _ _ _ Hb). reflexivity.
    - intros c v s t IHs G side ty H. apply ct_mu in H. destruct H as [-> [_ H]]. simpl.
      rewrite ceq_chi_refl, (IHs _ H). reflexivity.
    - intros c x args t F G side ty H. apply ct_xtor in H. destruct H as [-> [_ [n [d [sg [_ [_ [_ Ha]]]]]]]].
      cbn [chi_ok_cterm]. rewrite ceq_chi_refl, chi_args_eq. simpl. apply forallb_forall. intros a Hin.
      revert Ha. generalize (cxargs sg). induction F as [|a0 r Fa Fr IH]; intros sig Ha; [contradiction|].
      inversion Ha as [|? s0 ? sr Hs Hrs]; subst. destruct Hin as [->|Hin]; [exact (Fa G s0 Hs) | exact (IH Hin sr Hrs)].
    - intros c cls t F G side ty H. apply ct_xcase in H. destruct H as [-> [_ [n [d [_ [_ [Hm Hc]]]]]]].
      cbn [chi_ok_cterm]. rewrite ceq_chi_refl, chi_cls_eq. simpl. apply forallb_forall. intros cl Hin.
      rewrite Forall_forall in F, Hc. pose proof (cclauses_match_chi _ _ _ _ Hm cl Hin) as Hchi.
      pose proof (F cl Hin G (Hc cl Hin)) as Hb. destruct cl as [c' x ctx body]. subst c'. simpl.
      rewrite ceq_chi_refl, Hb. reflexivity.
    - intros pr IH G s H. unfold arg_typed in H. destruct (cbchi s); [|contradiction]. simpl. eapply IH; exact H.
    - intros k IH G s H. unfold arg_typed in H. destruct (cbchi s); [contradiction|]. simpl. eapply IH; exact H.
    - intros c x ctx body IH G H. unfold clause_typed in H. eapply IH; exact H.
    - intros pr t k IHp IHk G H. apply cs_cut in H. destruct H as [_ [Hp Hk]]. simpl.
      rewrite (IHp _ _ _ Hp), (IHk _ _ _ Hk). reflexivity.
    - intros so a b t e IHa IHb IHt IHe G H. apply cs_ifc in H. destruct H as [Ha [Hb [Ht He]]]. simpl.
      rewrite (IHa _ _ _ Ha), (IHt _ Ht), (IHe _ He).
      destruct b as [b'|]; [|reflexivity]. simpl in IHb. rewrite (IHb _ _ _ Hb). reflexivity.
    - intros nl a next IHa IHn G H. apply cs_print in H. destruct H as [Ha Hn]. simpl.
      rewrite (IHa _ _ _ Ha), (IHn _ Hn). reflexivity.
    - intros f args t F G H. apply cs_call in H. destruct H as [_ [d [_ Ha]]].
      cbn [chi_ok_cstmt]. rewrite chi_args_eq. apply forallb_forall. intros a Hin.
      revert Ha. generalize (cdctx d). induction F as [|a0 r Fa Fr IH]; intros sig Ha; [contradiction|].
      inversion Ha as [|? s0 ? sr Hs Hrs]; subst. destruct Hin as [->|Hin]; [exact (Fa G s0 Hs) | exact (IH Hin sr Hrs)].
    - intros a t IH G H. apply cs_exit in H. destruct H as [_ Ha]. simpl. eapply IH; exact Ha.
  Qed.
  Definition typed_chi_ok := proj2 (proj2 (proj2 typed_chi_ok_all)).
End ChiOk.

