(* C07, forward simulation of the AArch64 code generator, part 4: whole programs of the integer fragment.
   Layout of the code image (`mk_image` of preamble ++ setup ++ translate ++ cleanup: the definitions'
   labels, the branch labels and `cleanup` resolve to the code emitted for them, given the label
   uniqueness that `asm_wf` checks on the real output), the prologue and the epilogue (worker a64abi's theorem
   Proof/A64Entry.v a64_entry_exit_ok: X19-X29 and the LINK REGISTER X30 are stored below the entry SP and
   reloaded by `cleanup`, so that `RET` finds the return marker although X30 served as the 13th variable's
   register in between), and the theorem `a64_codegen_simulates_int`.  Port of Proof/X86SimTop.v. *)
From Coq Require Import List ZArith NArith String Bool Lia FMapPositive.
From SCC Require Import Base.Sexp Lang.AxSyn Sem.AxSem Model.ParMoves Model.Backend Model.A64 Sem.A64Sem
     Model.Linearize Model.LinCheck Generated.Constants Proof.LinBasics
     Proof.A64State Proof.A64ImmHw Proof.A64Imm Proof.A64Sel Proof.A64PM Proof.A64Exec
     Proof.A64MemSubst Proof.SubstGraph Proof.SubstBackends Proof.A64Subst Proof.A64Wf Proof.A64Print Proof.A64Entry
     Proof.A64SimRel Proof.A64SimStmt Proof.A64SimProg.
From SCC Require Import Sem.A64Wf.
Import ListNotations.
Open Scope Z_scope.
Open Scope list_scope.

(* ---------- the image built from an instruction list ---------- *)
Lemma build_code_below : forall cs i a im j, (j < i)%positive -> PM.find j (code (build cs i a im)) = PM.find j (code im).
Proof.
  induction cs as [|c r IH]; intros i a im j Hj; cbn [build code]; auto.
  rewrite IH by lia. cbn [code]. apply PM.gso. lia.
Qed.
Lemma build_code_at : forall cs i a im, code_at (build cs i a im) i cs.
Proof.
  induction cs as [|c r IH]; intros i a im n c0 Hn; [destruct n; discriminate|].
  destruct n as [|n]; cbn [nth_error padd] in *.
  - inversion Hn; subst. cbn [build]. rewrite build_code_below by lia. cbn [code]. apply PM.gss.
  - cbn [build]. eapply IH; eauto.
Qed.
Definition label_names (cs : list acode) : list string :=
  flat_map (fun c => match c with LAB l => [l] | _ => [] end) cs.
Lemma build_labels_old : forall cs i a im l,
  ~ In l (label_names cs) -> find_label (labels (build cs i a im)) l = find_label (labels im) l.
Proof.
  induction cs as [|c r IH]; intros i a im l Hl; cbn [build labels]; auto.
  rewrite IH.
  - cbn [labels]. destruct c; auto. cbn [find_label]. destruct (String.eqb_spec l l0); auto.
    subst. exfalso. apply Hl. cbn. now left.
  - intro H. apply Hl. cbn [label_names flat_map]. apply in_app_iff. now right.
Qed.
Lemma hash_name_is l : hash_name l = is_hash_label l.
Proof. reflexivity. Qed.
Lemma In_label_names_nh l cs : hash_name l = false -> In l (label_names cs) -> In l (defined_labels cs).
Proof.
  intros NH. unfold label_names, defined_labels. rewrite !in_flat_map. intros (c & Hc & Hl). exists c. split; auto.
  destruct c; try (now destruct Hl). destruct Hl as [<-|[]]. rewrite <- hash_name_is, NH. now left.
Qed.
Lemma build_labels_nh : forall cs i a im, NoDup (defined_labels cs) -> labels_at_nh (build cs i a im) i cs.
Proof.
  induction cs as [|c r IH]; intros i a im Hnd n l Hn NH; [destruct n; discriminate|].
  assert (Hnd' : NoDup (defined_labels r)).
  { cbn [defined_labels flat_map] in Hnd. apply NoDup_app_tail in Hnd. exact Hnd. }
  destruct n as [|n]; cbn [nth_error padd] in *.
  - inversion Hn; subst. cbn [build]. rewrite build_labels_old.
    + cbn [labels find_label]. now rewrite String.eqb_refl.
    + intros Hin. apply (In_label_names_nh l r NH) in Hin. cbn [defined_labels flat_map] in Hnd. rewrite <- hash_name_is, NH in Hnd.
      cbn [app] in Hnd. inversion Hnd; auto.
  - cbn [build]. eapply IH; eauto.
Qed.
Lemma first_dup_NoDup l : first_dup l = None -> NoDup l.
Proof.
  induction l as [|x l IH]; cbn [first_dup]; intros H; [constructor|].
  destruct (mem_str x l) eqn:M; [discriminate|]. constructor; auto.
  intros Hin. unfold mem_str in M. assert (existsb (String.eqb x) l = true); [|congruence].
  apply existsb_exists. exists x. split; auto. apply String.eqb_refl.
Qed.
Lemma asm_wf_labels cs : asm_wf cs = None -> NoDup (defined_labels cs).
Proof. unfold asm_wf. destruct (first_dup (defined_labels cs)) eqn:E; [discriminate|]. intros _. now apply first_dup_NoDup. Qed.
Theorem mk_image_layout cs :
  asm_wf cs = None -> code_at (mk_image cs) 1%positive cs /\ labels_at_nh (mk_image cs) 1%positive cs.
Proof. intros H. split; [apply build_code_at|apply build_labels_nh, asm_wf_labels, H]. Qed.

(* ---------- where `translate` puts the definitions ---------- *)
Lemma translate_defs types : forall defs lc code lc',
  translate a64_backend types defs lc = Ok (code, lc') ->
  forall d, In d defs ->
  exists pre lcd cd lcd' post,
    code = pre ++ LAB (show_ident (dname d) +++ "_") :: cd ++ post /\
    acs types (dbody d) (dctx d) lcd = Ok (cd, lcd').
Proof.
  induction defs as [|d0 r IH]; intros lc code lc' H d Hin; [destruct Hin|].
  cbn [translate] in H.
  destruct (acs types (dbody d0) (dctx d0) lc) as [[c1 lc1]|] eqn:C0; cbn [rbind] in H; [|discriminate].
  destruct (translate a64_backend types r lc1) as [[c2 lc2]|] eqn:TR; cbn [rbind] in H; [|discriminate].
  cbn [b_label a64_backend a64_backend_with] in H. inversion H; subst code lc'; clear H.
  destruct Hin as [<-|Hin].
  - exists [], lc, c1, lc1, c2. split; [reflexivity|exact C0].
  - destruct (IH lc1 c2 lc2 TR d Hin) as (pre & lcd & cd & lcd' & post & -> & CD).
    exists (LAB (show_ident (dname d0) +++ "_") :: c1 ++ pre), lcd, cd, lcd', post. split; [|exact CD].
    cbn [app]. f_equal. now rewrite <- app_assoc.
Qed.

(* ---------- entry: what asm_main finds, the prologue, the epilogue ---------- *)
Definition sp0 : Z := STACK_TOP - 2144.

Lemma init_state_facts args :
  (List.length args <= 7)%nat ->
  spv (init_state args) = Some STACK_TOP /\ xget (init_state args) 0 = Some HEAP_BASE /\
  (forall j, (1 <= j <= List.length args)%nat -> xget (init_state args) (N.of_nat j) = Some (nth (j - 1) args 0)) /\
  (forall r, In r callee_saved -> xget (init_state args) r = Some (callee_marker r)) /\
  xget (init_state args) LR = Some RET_MARKER /\ out (init_state args) = [].
Proof.
  intros LE.
  destruct args as [|a1 [|a2 [|a3 [|a4 [|a5 [|a6 [|a7 [|a8 rest]]]]]]]]; cbn [List.length] in LE; try lia.
  all: split; [reflexivity|]; split; [reflexivity|]; split;
    [intros j Hj; cbn [List.length] in Hj; destruct j as [|[|[|[|[|[|[|[|j]]]]]]]]; try lia; reflexivity|].
  all: split; [|split; reflexivity].
  all: intros r Hr; cbn in Hr; repeat (destruct Hr as [<-|Hr]; [reflexivity|]); destruct Hr.
Qed.

Lemma atpos_reg i : (i < 13)%nat -> atpos Snd i = Ok (AR (X (2 * N.of_nat i + 5))).
Proof.
  intros H. unfold tpos. cbn [b_temporary_from_position a64_backend a64_backend_with tnum_n]. unfold temporary_from_position.
  change RESERVED with 4%N. change REGISTER_NUM with 30%N.
  destruct (N.ltb_spec (2 * N.of_nat i + 1 + 4) 30); [|lia]. do 3 f_equal. lia.
Qed.

Section Entry.
Variable im : image.

(* the prologue, from the entry state of asm_main *)
Lemma prologue_ok args su :
  setup (List.length args) = Ok su ->
  exists s, run_straight im su (init_state args) = MOk s /\
    frame_ok s sp0 /\ out s = [] /\ (exists f, rget s FREE = Some f) /\
    (forall i, (i < List.length args)%nat -> rget s (X (2 * N.of_nat i + 5)) = Some (nth i args 0)) /\
    (* and from every later state with the body's SP and the words above the spill area intact, the epilogue
       returns to the caller with the value of X0 *)
    forall pcc s2 z, code_at im pcc cleanup ->
      frame_ok s2 sp0 -> outer_ok (stack s) sp0 s2 -> rget s2 RETURN1 = Some z ->
      finishes im pcc s2 (finish (out s2) (OExit z)).
Proof.
  intros SU.
  assert (LE : (List.length args <= 7)%nat).
  { destruct (Nat.le_gt_cases (List.length args) 7) as [L|L]; [exact L|]. exfalso.
    unfold setup in SU. destruct (List.length args) as [|n]; [lia|]. cbn [move_arguments] in SU.
    destruct (Nat.ltb_spec 7 (S n)); [discriminate|lia]. }
  destruct (init_state_facts args LE) as (I1 & I2 & I3 & I4 & I5 & I6).
  destruct (a64_entry_exit_ok im (List.length args) su (init_state args) STACK_TOP HEAP_BASE SU I1) as
    (s1 & E1 & F1 & H1 & O1 & X0 & X1 & AR & K1 & EPI); [reflexivity|unfold STACK_LIMIT, STACK_TOP; lia|lia|exact I2|].
  exists s1. split; [exact E1|]. split; [exact F1|]. split; [congruence|].
  split; [change FREE with (X 1); cbn [rget]; eauto|]. split.
  - intros i Hi. cbn [rget]. replace (2 * N.of_nat i + 5)%N with (2 * N.of_nat (S i) + 3)%N by lia.
    rewrite AR by lia. rewrite I3 by lia. f_equal. f_equal. lia.
  - intros pcc s2 z CA (S2 & _) OK RV.
    destruct (EPI s2 S2) as (s3 & E3 & S3 & R3 & L3 & H3 & O3 & _).
    { intros k Hk. apply OK. unfold sp0. change SPILL_SPACE with 2048. lia. }
    assert (CL : cleanup = removelast cleanup ++ [RET]) by reflexivity.
    rewrite CL in CA. apply code_at_app in CA as [CA1 CA2]. apply code_at_cons in CA2 as [CR _].
    eapply exec_to_finishes; [apply (run_straight_exec_to im _ pcc s2 s3 CA1 E3)|].
    assert (ST : step im RET s3 = Done s3).
    { cbn [step]. rewrite (R3 LR) by (unfold LR; lia). rewrite I5. reflexivity. }
    pose proof (finishes_done im _ RET s3 _ CR ST) as FD.
    replace (finish (out s2) (OExit z)) with (finish (out s3) (final_check s3)); [exact FD|].
    rewrite O3. f_equal. unfold final_check. rewrite S3, Z.eqb_refl. cbn [negb].
    assert (CS : forallb (fun r => match xget s3 r with Some v => v =? callee_marker r | None => false end) callee_saved = true).
    { apply forallb_forall. intros r Hr. rewrite R3.
      - rewrite (I4 r Hr). apply Z.eqb_refl.
      - cbn in Hr. repeat (destruct Hr as [<-|Hr]; [lia|]). destruct Hr. }
    rewrite CS. cbn [negb]. rewrite L3 by lia. change RETURN1 with (X 0) in RV. cbn [rget] in RV. now rewrite RV.
Qed.
End Entry.

(* the two halves separately *)
Lemma prologue_only im args su :
  setup (List.length args) = Ok su ->
  exists s, run_straight im su (init_state args) = MOk s /\
    frame_ok s sp0 /\ out s = [] /\ (exists f, rget s FREE = Some f) /\
    (forall i, (i < List.length args)%nat -> rget s (X (2 * N.of_nat i + 5)) = Some (nth i args 0)).
Proof. intros SU. destruct (prologue_ok im args su SU) as (s & A & B & C & D & E & _). eauto 8. Qed.
Lemma epilogue_ok im args su s pcc s2 z :
  setup (List.length args) = Ok su -> run_straight im su (init_state args) = MOk s ->
  code_at im pcc cleanup -> frame_ok s2 sp0 -> outer_ok (stack s) sp0 s2 -> rget s2 RETURN1 = Some z ->
  finishes im pcc s2 (finish (out s2) (OExit z)).
Proof.
  intros SU E. destruct (prologue_ok im args su SU) as (s' & A & _ & _ & _ & _ & EPI).
  assert (s' = s) by congruence. subst s'. apply EPI.
Qed.

Lemma entry_rel CL c0 args e0 s :
  bind (vars c0) (map VInt args) = Some e0 -> NoDup (ids c0) -> ctx_int c0 = true -> (List.length args <= 7)%nat ->
  args_i64 args = true ->
  frame_ok s sp0 -> (exists f, rget s FREE = Some f) ->
  (forall i, (i < List.length args)%nat -> rget s (X (2 * N.of_nat i + 5)) = Some (nth i args 0)) ->
  rel CL c0 e0 s sp0.
Proof.
  intros BD ND CI LE AI F FR RG. split; auto.
  - unfold sp0, STACK_LIMIT, STACK_TOP. lia.
  - unfold env_ids. rewrite <- (map_map fst idn), (bind_ids _ _ _ BD). unfold vars, ids. now rewrite map_map.
  - intros i x v Hi. destruct (bind_nth _ _ _ _ _ _ BD Hi) as (Hx & Hv).
    rewrite nth_error_map in Hv. destruct (nth_error args i) as [a|] eqn:Ha; [|discriminate]. cbn in Hv. inversion Hv; subst v.
    unfold vars in Hx. rewrite nth_error_map in Hx. destruct (nth_error c0 i) as [b|] eqn:Hb; [|discriminate].
    assert (Li : (i < List.length args)%nat) by (apply nth_error_Some; congruence).
    destruct (ctx_int_nth c0 i b CI Hb) as (K & T).
    exists b. split; [reflexivity|].
    apply (vrep_int CL s sp0 i b a (AR (X (2 * N.of_nat i + 5))) K T); [apply atpos_reg; lia| |].
    + cbn [lget]. rewrite (RG i Li). f_equal. now apply nth_error_nth.
    + apply lit_i64_in64. unfold args_i64 in AI. rewrite forallb_forall in AI. apply AI. eapply nth_error_In; eauto.
Qed.

(* ---------- whole programs ---------- *)
Lemma layout_at im cs a b c :
  code_at im 1%positive cs -> labels_at_nh im 1%positive cs -> cs = a ++ b ++ c ->
  code_at im (padd 1%positive (List.length a)) b /\ labels_at_nh im (padd 1%positive (List.length a)) b.
Proof.
  intros CA LA ->. apply code_at_app in CA as [_ CA]. apply code_at_app in CA as [CA _].
  apply labels_at_nh_app in LA as [_ LA]. apply labels_at_nh_app in LA as [LA _]. auto.
Qed.

Theorem a64_codegen_simulates_int p lc cs n lc' args fuel o :
  int_frag p = true -> plain_names p = true -> lits_i64 p = true -> lin_check_prog p = true ->
  a64_compile p lc = Ok (cs, n, lc') -> asm_wf cs = None ->
  List.length args = n -> args_i64 args = true ->
  run_linear fuel p args = o -> snd o <> OOutOfFuel ->
  exists outer inner, fst (run_a64 outer inner cs args) = o.
Proof.
  intros INT PL LITS LIN XC WF.
  unfold a64_compile, a64_compile_with in XC.
  destruct (compile (a64_backend_with (fun _ => [])) p lc) as [[[is n0] lc0]|] eqn:CP; cbn [rbind] in XC; [|discriminate].
  destruct (into_aarch64_routine is n0) as [r|] eqn:RT; cbn [rbind] in XC; [|discriminate].
  inversion XC; subst r n0 lc0; clear XC.
  change (a64_backend_with (fun _ => [])) with a64_backend in CP.
  unfold compile in CP. destruct (pdefs p) as [|d0 rest] eqn:PD; [discriminate|].
  destruct (translate a64_backend (ptypes p) (d0 :: rest) lc) as [[is' lc1]|] eqn:TR; cbn [rbind] in CP; [|discriminate].
  cbn in CP. inversion CP; subst is n lc'; clear CP.
  unfold into_aarch64_routine in RT. destruct (setup (List.length (dctx d0))) as [su|] eqn:SU; cbn [rbind] in RT; [|discriminate].
  inversion RT; subst cs; clear RT.
  intros NARGS AI RUN G.
  unfold run_linear in RUN. rewrite PD in RUN.
  assert (LEN : List.length args = List.length (dctx d0)) by exact NARGS.
  destruct (bind_total (vars (dctx d0)) (map VInt args)) as (e0 & EE); [unfold vars; rewrite !map_length; auto|].
  unfold entry_env in RUN. rewrite EE in RUN.
  assert (LE7 : (List.length args <= 7)%nat).
  { rewrite LEN. destruct (Nat.le_gt_cases (List.length (dctx d0)) 7) as [L|L]; [exact L|]. exfalso.
    unfold setup in SU. destruct (List.length (dctx d0)) as [|k]; [lia|]. cbn [move_arguments] in SU.
    destruct (Nat.ltb_spec 7 (S k)); [discriminate|lia]. }
  set (cs := preamble ++ su ++ is' ++ cleanup) in *.
  set (im := mk_image cs).
  destruct (mk_image_layout cs WF) as [CA LA]. fold im in CA, LA.
  (* static facts about every definition *)
  assert (LINd : forall d, In d (pdefs p) -> lin_check (sigs_of p) (dctx d) (dbody d) = true).
  { unfold lin_check_prog in LIN. rewrite forallb_forall in LIN. exact LIN. }
  assert (INTd : forall d, In d (pdefs p) -> def_int d = true).
  { unfold int_frag in INT. rewrite forallb_forall in INT. exact INT. }
  assert (LITd : forall d, In d (pdefs p) -> stmt_lits (dbody d) = true).
  { unfold lits_i64 in LITS. rewrite forallb_forall in LITS. exact LITS. }
  assert (DEFS : forall d, In d (pdefs p) ->
    exists pcd lcd cd lcd', find_label (labels im) (show_ident (dname d) +++ "_") = Some pcd /\
      PM.find pcd (code im) = Some (LAB (show_ident (dname d) +++ "_")) /\
      acs (ptypes p) (dbody d) (dctx d) lcd = Ok (cd, lcd') /\
      code_at im (Pos.succ pcd) cd /\ labels_at_nh im (Pos.succ pcd) cd).
  { intros d Hd. rewrite PD in Hd.
    destruct (translate_defs (ptypes p) _ _ _ _ TR d Hd) as (pre & lcd & cd & lcd' & post & EQ & CD).
    assert (NH : hash_name (show_ident (dname d) +++ "_") = false).
    { unfold plain_names in PL. rewrite forallb_forall in PL. rewrite <- PD in Hd. specialize (PL d Hd).
      destruct (hash_name (show_ident (dname d) +++ "_")) eqn:E; auto.
      apply hash_name_app_ in E. rewrite E in PL. discriminate. }
    destruct (layout_at im cs (preamble ++ su ++ pre) (LAB (show_ident (dname d) +++ "_") :: cd) (post ++ cleanup) CA LA)
      as [CAd LAd].
    { unfold cs. rewrite EQ. rewrite <- !app_assoc. cbn [app]. rewrite <- !app_assoc. reflexivity. }
    exists (padd 1%positive (List.length (preamble ++ su ++ pre))), lcd, cd, lcd'.
    apply code_at_cons in CAd as [C0 C1].
    change (LAB (show_ident (dname d) +++ "_") :: cd) with ([LAB (show_ident (dname d) +++ "_")] ++ cd) in LAd.
    pose proof LAd as LAd'. apply labels_at_nh_app in LAd' as [_ L1]. cbn [List.length padd] in L1.
    split; [exact (LAd O _ eq_refl NH)|]. split; [exact C0|]. split; [exact CD|]. split; [exact C1|exact L1]. }
  (* the run *)
  assert (FIN : finishes im 3%positive (init_state args) o).
  { destruct (layout_at im cs [TEXT; GLOBAL "asm_main"] [LAB "asm_main"] (su ++ is' ++ cleanup) CA LA eq_refl) as [CA0 _].
    destruct (layout_at im cs preamble su (is' ++ cleanup) CA LA eq_refl) as [CA1 _].
    cbn [List.length padd preamble] in CA0, CA1.
    rewrite <- LEN in SU. destruct (prologue_ok im args su SU) as (s1 & E1 & F1 & O1 & FR1 & RG1 & EPI).
    assert (CLEAN : exists pcc, find_label (labels im) "cleanup" = Some pcc /\
      forall s z, frame_ok s sp0 -> outer_ok (stack s1) sp0 s -> rget s RETURN1 = Some z -> finishes im pcc s (finish (out s) (OExit z))).
    { destruct (layout_at im cs (preamble ++ su ++ is') cleanup [] CA LA) as [CAc LAc].
      { unfold cs. rewrite app_nil_r, <- !app_assoc. reflexivity. }
      exists (padd 1%positive (List.length (preamble ++ su ++ is'))). split.
      - exact (LAc O "cleanup"%string eq_refl eq_refl).
      - intros s z Fs OKs RV. eapply EPI; eauto. }
    (* the entry definition follows the prologue *)
    cbn [translate] in TR.
    destruct (acs (ptypes p) (dbody d0) (dctx d0) lc) as [[c0 lc0]|] eqn:C0; cbn [rbind] in TR; [|discriminate].
    destruct (translate a64_backend (ptypes p) rest lc0) as [[c2 lc2]|] eqn:TR2; cbn [rbind] in TR; [|discriminate].
    cbn [b_label a64_backend a64_backend_with] in TR. inversion TR; subst is' lc1; clear TR.
    destruct (layout_at im cs (preamble ++ su) (LAB (show_ident (dname d0) +++ "_") :: c0) (c2 ++ cleanup) CA LA) as [CAe LAe].
    { unfold cs. rewrite <- !app_assoc. cbn [app]. rewrite <- !app_assoc. reflexivity. }
    apply code_at_cons in CAe as [CL CAe].
    change (LAB (show_ident (dname d0) +++ "_") :: c0) with ([LAB (show_ident (dname d0) +++ "_")] ++ c0) in LAe.
    apply labels_at_nh_app in LAe as [_ LAe]. cbn [List.length padd] in LAe.
    assert (D0 : In d0 (pdefs p)) by (rewrite PD; now left).
    rewrite app_length in CL. cbn [List.length preamble] in CL. rewrite padd_add in CL. cbn [padd] in CL.
    eapply exec_to_finishes.
    { eapply exec_next; [apply (CA0 O _ eq_refl)|reflexivity|].
      eapply exec_to_trans; [apply (run_straight_exec_to im su _ _ s1 CA1 E1)|].
      eapply exec_next; [exact CL|reflexivity|apply exec_refl]. }
    subst o.
    pose proof (INTd d0 D0) as ID0. unfold def_int in ID0. apply andb_true_iff in ID0 as [I1 I2].
    assert (R0 : rel (fun _ _ _ => False) (dctx d0) e0 s1 sp0).
    { eapply entry_rel; eauto. eapply lin_nodup. exact (LINd d0 D0). }
    rewrite app_length in CAe, LAe. cbn [List.length preamble] in CAe, LAe. rewrite padd_add in CAe, LAe. cbn [padd] in CAe, LAe.
    eapply (sim_exec im p sp0 (fun _ _ _ => False) (stack s1) DEFS CLEAN LINd INTd LITd) with (c := dctx d0) (lc := lc); eauto.
    intros k _. reflexivity. }
  destruct (finishes_run im _ _ _ FIN) as (outer & inner & RN).
  exists outer, inner. unfold run_a64. cbv zeta. change (mk_image _) with im.
  assert (AM : find_label (labels im) "asm_main" = Some 3%positive).
  { exact (LA 2%nat "asm_main"%string eq_refl eq_refl). }
  rewrite AM. destruct (Nat.ltb_spec 7 (List.length args)); [lia|]. exact RN.
Qed.

(* the arity of a run that ends with a result or an undefined operation is right *)
Lemma a64_compile_arity p lc cs n lc' args fuel o :
  a64_compile p lc = Ok (cs, n, lc') -> run_linear fuel p args = o -> good o -> List.length args = n.
Proof.
  intros XC RUN G.
  unfold a64_compile, a64_compile_with in XC.
  destruct (compile (a64_backend_with (fun _ => [])) p lc) as [[[is n0] lc0]|] eqn:CP; cbn [rbind] in XC; [|discriminate].
  destruct (into_aarch64_routine is n0) as [r|] eqn:RT; cbn [rbind] in XC; [|discriminate].
  inversion XC; subst r n0 lc0; clear XC.
  unfold compile in CP. unfold run_linear in RUN. destruct (pdefs p) as [|d0 rest] eqn:PD; [discriminate|].
  destruct (translate _ (ptypes p) (d0 :: rest) lc) as [[is' lc1]|] eqn:TR; cbn [rbind] in CP; [|discriminate].
  cbn in CP. inversion CP; subst is n lc'; clear CP.
  destruct (entry_env d0 args) as [e0|] eqn:EE; [|subst o; exfalso; destruct G as [(z & H)|(z & H)]; discriminate].
  unfold entry_env in EE. apply bind_length in EE. unfold vars in EE. rewrite !map_length in EE. auto.
Qed.

Corollary a64_codegen_correct_int p lc cs n lc' args fuel o :
  int_frag p = true -> plain_names p = true -> lits_i64 p = true -> lin_check_prog p = true -> asm_wf cs = None ->
  a64_compile p lc = Ok (cs, n, lc') -> args_i64 args = true ->
  run_linear fuel p args = o -> defined o = true ->
  exists outer inner, fst (run_a64 outer inner cs args) = o.
Proof.
  intros I P L LC W X A R D.
  assert (G : good o) by (left; unfold defined in D; destruct (snd o); try discriminate; eauto).
  eapply a64_codegen_simulates_int; eauto; [eapply a64_compile_arity; eauto|apply good_not_oof; exact G].
Qed.
