(* ======================================================================================
   Proof/Fun2CoreRel  -  the simulation relation between the Fun CEK machine (Sem/FunSem.v) and the
   Core abstract machine (Sem/CoreSem.v), designed for the FULL language.

   Both machines are deterministic, fuel-indexed functions.  The basic judgement is

       sim n cf r   :=  every run of the source configuration cf with fuel n that ends in a final
                        outcome (OExit / OUndef: not stuck, not out of fuel) is reproduced - output
                        and outcome - by some run of the Core machine from the step result r

   (a FORWARD simulation, indexed by the source fuel n; it is downward closed in n).  Values and
   continuations are related by a step-indexed relation, defined by recursion on the index:

     vrel n : fval  -> pval -> Prop     FvInt z          ~ PInt z
                                        FvCtor K fields  ~ PCtor K fields'   fields pointwise ([brel n])
                                        FvNew / FvThunk  ~ any producer value that behaves alike under
                                                           every destructor ([Co n], behavioural)
     brel n : fbv   -> bval -> Prop     FbP v ~ BP pv (vrel n),  FbK k ~ BK kv (Kk n false)
     Kk n c : fkont -> kval -> Prop     continuations, by the KIND c of the values they expect (false: data,
                                        true: codata): for every j < n and every value v of kind c with
                                        v ~_j pv:   sim j (FRet k v) (interact_val pv kv)
     Co n   : fval  -> pval -> Prop     for every j < n, destructor x, DATA arguments args ~_j args' and
                                        continuation k ~_j kv of the kind x returns ([dkind]):
                                        sim (S j) (FRet (FkDtor x args k) v)
                                                  (interact_val pv (KDtor x (args' ++ [BK kv])))
                                        (the source machine takes a step at a destructor frame: S j)

   A source environment and a Core environment are related pointwise by brel on the names the Core
   statement mentions (Proof/Fun2CoreFLa.v); a source continuation k is related to the SYNTACTIC Core
   consumer the translation carries along through what that syntax does in every environment that agrees
   with the current one on the consumer's free variables.

   Kinds: in a well-typed program a codata value is only ever returned to a destructor frame (or to a
   covariable standing for one): [Kk_dtor] - a destructor frame FkDtor x args k ~ KDtor x (args' ++ [kv]) is a
   continuation of kind codata.  The Core machine treats a cut at a codata type consumer-first, a
   by-name let binds a thunk (PThunk ~ FvThunk, related by Co through the translation of the bound term).
   The fundamental lemma is proved for the fragment [frag]/[kd] of Model/Fun2CoreGuard.v.
   ====================================================================================== *)
From Coq Require Import List ZArith NArith String Bool Lia.
From SCC Require Import Base.Sexp Lang.SynUtil Lang.FunSyn Lang.FunTy Lang.CoreSyn.
From SCC Require Import Sem.AxSem Sem.CoreSem Sem.FunSem Model.Fun2Core Model.Fun2CoreGuard Proof.Fun2CoreProof Proof.Fun2CoreSim.
Import ListNotations.
Open Scope string_scope.
Open Scope list_scope.

(* final outcomes: normal exit and undefined arithmetic; stuck and out-of-fuel runs are not compared *)
Definition final (o : obs) : Prop :=
  match snd o with OExit _ | OUndef _ => True | _ => False end.
Definition finalb (o : obs) : bool :=
  match snd o with OExit _ | OUndef _ => true | _ => false end.
Lemma finalb_final : forall o, finalb o = true <-> final o.
Proof. intros [out [z|w|w|]]; unfold finalb, final; simpl; split; intros H; try discriminate; try contradiction; auto. Qed.
Lemma final_not_oof : forall o, final o -> snd o <> OOutOfFuel.
Proof. intros [out o] H E. unfold final in H. simpl in *. subst o. exact H. Qed.
Lemma defined_final : forall o, defined o = true -> final o.
Proof. intros [out [z|w|w|]]; unfold defined, final; simpl; intros H; try discriminate; exact I. Qed.

(* data values: integers and constructor values whose fields are data values (no closure, no thunk,
   no continuation stored in a field); [dbv]: what an environment may bind in the fragment - a data
   value or a continuation (label) *)
Fixpoint dval (v : fval) : Prop :=
  match v with
  | FvInt _ => True
  | FvCtor _ args =>
      (fix go (l : list fbv) : Prop :=
         match l with
         | [] => True
         | FbP v' :: r => dval v' /\ go r
         | FbK _ :: _ => False
         end) args
  | _ => False
  end.
Definition dfield (b : fbv) : Prop := match b with FbP v => dval v | FbK _ => False end.
Definition dbv (b : fbv) : Prop := match b with FbP v => dval v | FbK _ => True end.
Lemma dval_ctor : forall tag args, dval (FvCtor tag args) <-> Forall dfield args.
Proof.
  intros tag args. simpl. induction args as [|b r IH].
  - split; [constructor | auto].
  - destruct b as [v|k]; simpl.
    + split.
      * intros [H1 H2]. constructor; [exact H1 | apply IH; exact H2].
      * intros H. inversion H; subst. split; [assumption | apply IH; assumption].
    + split; [intros [] | intros H; inversion H; subst; contradiction].
Qed.
Lemma dfield_dbv : forall b, dfield b -> dbv b.
Proof. intros [v|k] H; simpl in *; [exact H | exact I]. Qed.

Definition kv_ok (kv : kval) : Prop := match kv with KMuT _ _ _ => False | _ => True end.

(* codata values; the kind of a value *)
Definition cval (v : fval) : Prop := match v with FvNew _ _ | FvThunk _ _ => True | _ => False end.
Definition vkind (c : bool) (v : fval) : Prop := if c then cval v else dval v.

Section Rel.
  Variable p : fcprog.
  Variable cp : cprog.

  Definition crun_res (m : nat) (r : sres) (out : prints) : obs :=
    match r with
    | SNext c => crun m cp c out
    | SPrint nl z c => crun m cp c ((nl, z) :: out)
    | SHalt o => finish out o
    end.
  Lemma crun_S : forall m c out, crun (S m) cp c out = crun_res m (cstep cp c) out.
  Proof. intros. simpl. destruct (cstep cp c); reflexivity. Qed.

  Definition sim (n : nat) (cf : fconfig) (r : sres) : Prop :=
    forall out o, frun n p cf out = o -> final o -> exists m, crun_res m r out = o.

  Lemma sim_zero : forall cf r, sim 0 cf r.
  Proof. intros cf r out o H F. simpl in H. subst o. contradiction F. Qed.
  Lemma sim_mono : forall n n' cf r, sim n cf r -> (n' <= n)%nat -> sim n' cf r.
  Proof.
    intros n n' cf r H Hle out o Hr F.
    pose proof (frun_mono p n' cf out o Hr (final_not_oof _ F) (n - n')) as Hm.
    replace (n' + (n - n'))%nat with n in Hm by lia. exact (H out o Hm F).
  Qed.
  Lemma sim_fstep : forall n cf cf' r, fstep p cf = FNext cf' -> sim n cf' r -> sim (S n) cf r.
  Proof. intros n cf cf' r Hs H out o Hr F. rewrite (frun_next p n cf cf' out Hs) in Hr. exact (H out o Hr F). Qed.
  Lemma sim_fstep_inv : forall n cf cf' r, fstep p cf = FNext cf' -> sim (S n) cf r -> sim n cf' r.
  Proof. intros n cf cf' r Hs H out o Hr F. rewrite <- (frun_next p n cf cf' out Hs) in Hr. exact (H out o Hr F). Qed.
  Lemma sim_cstep : forall n cf c, sim n cf (cstep cp c) -> sim n cf (SNext c).
  Proof.
    intros n cf c H out o Hr F. destruct (H out o Hr F) as [m Hm]. exists (S m).
    change (crun (S m) cp c out = o). rewrite crun_S. exact Hm.
  Qed.
  Lemma sim_out : forall n cf cf' nl z c', fstep p cf = FOut nl z cf' -> sim n cf' (SNext c') ->
    sim (S n) cf (SPrint nl z c').
  Proof.
    intros n cf cf' nl z c' Hs H out o Hr F. rewrite (frun_out p n cf cf' nl z out Hs) in Hr.
    exact (H _ o Hr F).
  Qed.
  Lemma sim_halt : forall n cf o, fstep p cf = FHalt o -> sim (S n) cf (SHalt o).
  Proof. intros n cf o Hs out o' Hr F. rewrite (frun_halt p n cf o out Hs) in Hr. exists 0%nat. exact Hr. Qed.
  Lemma sim_stuck : forall n cf w r, fstep p cf = FHalt (OStuck w) -> sim (S n) cf r.
  Proof.
    intros n cf w r Hs out o Hr F. rewrite (frun_halt p n cf _ out Hs) in Hr. subst o. contradiction F.
  Qed.

  (* ---------- the structural part of the value relation, parameterised by the behavioural parts ---------- *)
  Section Struct.
    Variable KbP : fkont -> kval -> Prop.
    Variable CoP : fval -> pval -> Prop.
    Fixpoint vrel_s (v : fval) (pv : pval) {struct v} : Prop :=
      match v with
      | FvInt z => pv = PInt z
      | FvCtor tag args =>
          match pv with
          | PCtor tag' args' =>
              tag' = new_id tag /\
              (fix go (l : list fbv) (l' : list bval) {struct l} : Prop :=
                 match l, l' with
                 | [], [] => True
                 | b :: r, b' :: r' => brel_s b b' /\ go r r'
                 | _, _ => False
                 end) args args'
          | _ => False
          end
      | FvNew _ _ | FvThunk _ _ => CoP v pv
      end
    with brel_s (b : fbv) (b' : bval) {struct b} : Prop :=
      match b with
      | FbP v => match b' with BP pv => vrel_s v pv | BK _ => False end
      | FbK k => match b' with BK kv => KbP k kv | BP _ => False end
      end.

    Lemma vrel_s_ctor : forall tag args pv,
      vrel_s (FvCtor tag args) pv <-> exists args', pv = PCtor (new_id tag) args' /\ Forall2 brel_s args args'.
    Proof.
      intros tag args pv. simpl. destruct pv as [z|tag' args'|cls e|a s e|m];
        try (split; [intros [] | intros [x [H _]]; discriminate H]).
      assert (Hl : forall l l', (fix go (l : list fbv) (l' : list bval) {struct l} : Prop :=
                 match l, l' with
                 | [], [] => True
                 | b :: r, b' :: r' => brel_s b b' /\ go r r'
                 | _, _ => False
                 end) l l' <-> Forall2 brel_s l l').
      { induction l as [|b r IH]; intros [|b' r'].
        - split; [constructor | auto].
        - split; [intros [] | intros H; inversion H].
        - split; [intros [] | intros H; inversion H].
        - rewrite IH. split.
          + intros [H1 H2]. constructor; assumption.
          + intros H. inversion H; subst. split; assumption. }
      rewrite Hl. split.
      - intros [Ht Hf]. subst tag'. exists args'. split; [reflexivity | exact Hf].
      - intros [x [Hx Hf]]. injection Hx as Ht Ha. subst. split; [reflexivity | exact Hf].
    Qed.
  End Struct.

  Lemma vrel_s_impl : forall (K1 K2 : fkont -> kval -> Prop) (C1 C2 : fval -> pval -> Prop),
    (forall k kv, K1 k kv -> K2 k kv) -> (forall v pv, C1 v pv -> C2 v pv) ->
    forall v pv, vrel_s K1 C1 v pv -> vrel_s K2 C2 v pv.
  Proof.
    intros K1 K2 C1 C2 HK HC.
    fix IH 1. intros v pv. destruct v as [z|tag args|cls e|t e].
    - simpl. auto.
    - rewrite !vrel_s_ctor. intros [args' [Hp Hf]]. exists args'. split; [exact Hp|].
      clear Hp. revert args' Hf. induction args as [|b r IHr]; intros args' Hf.
      + inversion Hf. constructor.
      + inversion Hf as [|? b' ? r' Hb Hr]; subst. constructor; [|apply IHr; exact Hr].
        destruct b as [v|k]; destruct b' as [pv'|kv]; simpl in Hb |- *;
          [apply IH; exact Hb | contradiction | contradiction | apply HK; exact Hb].
    - simpl. apply HC.
    - simpl. apply HC.
  Qed.

  (* ---------- the step-indexed behavioural parts ---------- *)
  (* continuations are indexed by the KIND of the values they expect: data (false) or codata (true) *)
  Definition kb_step (K : bool -> fkont -> kval -> Prop) (C : fval -> pval -> Prop) (j : nat) (c : bool)
             (k : fkont) (kv : kval) : Prop :=
    forall v pv, vkind c v -> vrel_s (K false) C v pv -> sim j (FRet k v) (interact_val pv kv).
  (* destructor arguments are data values; the continuation has the kind the destructor returns *)
  Definition co_step (K : bool -> fkont -> kval -> Prop) (C : fval -> pval -> Prop) (j : nat) (v : fval) (pv : pval) : Prop :=
    forall x args args' k kv,
      Forall2 (brel_s (K false) C) args args' -> Forall dfield args -> K (dkind p x) k kv ->
      sim (S j) (FRet (FkDtor x args k) v) (interact_val pv (KDtor (new_id x) (args' ++ [BK kv]))).

  (* a continuation for codata values is never a mu~ closure (at a codata type a cut against a mu~ is
     consumer-first: the mu~ would receive a thunk, not a value) *)
  Fixpoint Kk (n : nat) : bool -> fkont -> kval -> Prop :=
    match n with
    | O => fun c _ kv => c = true -> kv_ok kv
    | S j => fun c k kv => Kk j c k kv /\ kb_step (Kk j) (Co j) j c k kv
    end
  with Co (n : nat) : fval -> pval -> Prop :=
    match n with
    | O => fun _ _ => True
    | S j => fun v pv => Co j v pv /\ co_step (Kk j) (Co j) j v pv
    end.
  Definition Kb (n : nat) : fkont -> kval -> Prop := Kk n false.

  Definition vrel (n : nat) : fval -> pval -> Prop := vrel_s (Kb n) (Co n).
  Definition brel (n : nat) : fbv -> bval -> Prop := brel_s (Kb n) (Co n).

  Lemma Kk_mono : forall n n' c k kv, Kk n c k kv -> (n' <= n)%nat -> Kk n' c k kv.
  Proof.
    induction n as [|n IH]; intros n' c k kv H Hle.
    - assert (n' = 0)%nat by lia. subst. exact H.
    - destruct (Nat.eq_dec n' (S n)) as [->|Hne]; [exact H|]. apply IH; [exact (proj1 H) | lia].
  Qed.
  Lemma Kk_ok : forall n k kv, Kk n true k kv -> kv_ok kv.
  Proof. intros n k kv H. apply (Kk_mono n 0 true k kv H (Nat.le_0_l n)). reflexivity. Qed.
  Lemma Kb_mono : forall n n' k kv, Kb n k kv -> (n' <= n)%nat -> Kb n' k kv.
  Proof. intros n n' k kv. apply Kk_mono. Qed.
  Lemma Co_mono : forall n n' v pv, Co n v pv -> (n' <= n)%nat -> Co n' v pv.
  Proof.
    induction n as [|n IH]; intros n' v pv H Hle.
    - assert (n' = 0)%nat by lia. subst. exact I.
    - destruct (Nat.eq_dec n' (S n)) as [->|Hne]; [exact H|]. apply IH; [exact (proj1 H) | lia].
  Qed.
  Lemma vrel_mono : forall n n' v pv, vrel n v pv -> (n' <= n)%nat -> vrel n' v pv.
  Proof.
    intros n n' v pv H Hle. unfold vrel in *. eapply vrel_s_impl; [| |exact H].
    - intros k kv Hk. eapply Kb_mono; eauto.
    - intros v0 pv0 Hc. eapply Co_mono; eauto.
  Qed.
  Lemma brel_mono : forall n n' b b', brel n b b' -> (n' <= n)%nat -> brel n' b b'.
  Proof.
    intros n n' b b' H Hle. destruct b as [v|k]; destruct b' as [pv|kv]; simpl in *; try contradiction.
    - eapply vrel_mono; eauto.
    - eapply Kb_mono; eauto.
  Qed.
  Lemma brels_mono : forall n n' l l', Forall2 (brel n) l l' -> (n' <= n)%nat -> Forall2 (brel n') l l'.
  Proof. intros n n' l l' H Hle. induction H; constructor; auto. eapply brel_mono; eauto. Qed.

  (* using a related continuation: every smaller index *)
  Lemma Kk_use : forall n c k kv, Kk n c k kv -> forall j, (j < n)%nat ->
    forall v pv, vkind c v -> vrel j v pv -> sim j (FRet k v) (interact_val pv kv).
  Proof.
    intros n c k kv H j Hlt v pv Hd Hv.
    assert (HS : Kk (S j) c k kv) by (eapply Kk_mono; [exact H | lia]).
    exact (proj2 HS v pv Hd Hv).
  Qed.
  Lemma Kb_use : forall n k kv, Kb n k kv -> forall j, (j < n)%nat ->
    forall v pv, dval v -> vrel j v pv -> sim j (FRet k v) (interact_val pv kv).
  Proof. intros n k kv H j Hlt v pv Hd Hv. eapply (Kk_use n false); eauto. Qed.
  (* establishing one *)
  Lemma Kk_intro : forall n c k kv, (c = true -> kv_ok kv) ->
    (forall j, (j < n)%nat -> forall v pv, vkind c v -> vrel j v pv -> sim j (FRet k v) (interact_val pv kv)) ->
    Kk n c k kv.
  Proof.
    induction n as [|n IH]; intros c k kv Hok H; [exact Hok|]. split.
    - apply IH; [exact Hok|]. intros j Hj. apply H. lia.
    - intros v pv Hd Hv. apply (H n); [lia | exact Hd | exact Hv].
  Qed.
  Lemma Kb_intro : forall n k kv,
    (forall j, (j < n)%nat -> forall v pv, dval v -> vrel j v pv -> sim j (FRet k v) (interact_val pv kv)) ->
    Kb n k kv.
  Proof. intros n k kv H. apply (Kk_intro n false); [discriminate | exact H]. Qed.

  (* codata values: established and used through their behaviour under destructors (the source
     machine takes at least one step at a destructor frame, hence the index S j) *)
  Lemma Co_intro : forall n v pv,
    (forall j, (j < n)%nat -> forall x args args' k kv,
       Forall2 (brel j) args args' -> Forall dfield args -> Kk j (dkind p x) k kv ->
       sim (S j) (FRet (FkDtor x args k) v) (interact_val pv (KDtor (new_id x) (args' ++ [BK kv])))) ->
    Co n v pv.
  Proof.
    induction n as [|n IH]; intros v pv H; [exact I|]. split.
    - apply IH. intros j Hj. apply H. lia.
    - intros x args args' k kv Ha Hd Hk. apply (H n); [lia | exact Ha | exact Hd | exact Hk].
  Qed.
  Lemma Co_use : forall n v pv, Co n v pv -> forall j, (j < n)%nat -> forall x args args' k kv,
    Forall2 (brel j) args args' -> Forall dfield args -> Kk j (dkind p x) k kv ->
    sim (S j) (FRet (FkDtor x args k) v) (interact_val pv (KDtor (new_id x) (args' ++ [BK kv]))).
  Proof.
    intros n v pv H j Hlt x args args' k kv Ha Hd Hk.
    assert (HS : Co (S j) v pv) by (eapply Co_mono; [exact H | lia]).
    exact (proj2 HS x args args' k kv Ha Hd Hk).
  Qed.
  (* a destructor frame is a continuation for codata values *)
  Lemma Kk_dtor : forall n x args args' k kv,
    Forall2 (brel n) args args' -> Forall dfield args -> Kk n (dkind p x) k kv ->
    Kk n true (FkDtor x args k) (KDtor (new_id x) (args' ++ [BK kv])).
  Proof.
    intros n x args args' k kv Ha Hd Hk. apply Kk_intro; [intros _; exact I|]. intros j Hj v pv Hc Hv.
    assert (HCo : Co j v pv).
    { destruct v as [z|tag fs|cls e|t e]; simpl in Hc; try contradiction; exact Hv. }
    destruct j as [|j1]; [apply sim_zero|].
    apply (Co_use (S j1) v pv HCo j1 (Nat.lt_succ_diag_r j1)).
    - eapply brels_mono; [exact Ha | lia].
    - exact Hd.
    - eapply Kk_mono; [exact Hk | lia].
  Qed.

  (* data values and their Core counterparts *)
  Lemma vrel_int : forall n z pv, vrel n (FvInt z) pv <-> pv = PInt z.
  Proof. intros. reflexivity. Qed.
  Lemma vrel_ctor : forall n tag args pv,
    vrel n (FvCtor tag args) pv <-> exists args', pv = PCtor (new_id tag) args' /\ Forall2 (brel n) args args'.
  Proof. intros. unfold vrel, brel. apply vrel_s_ctor. Qed.
  Lemma vrel_co : forall n v pv, cval v -> (vrel n v pv <-> Co n v pv).
  Proof. intros n v pv H. destruct v; simpl in H; try contradiction; reflexivity. Qed.
  Lemma brel_P : forall n v b', brel n (FbP v) b' <-> exists pv, b' = BP pv /\ vrel n v pv.
  Proof.
    intros n v b'. destruct b' as [pv|kv]; simpl.
    - split; [intros H; exists pv; split; [reflexivity | exact H] | intros [pv' [E H]]; injection E as E; subst; exact H].
    - split; [intros [] | intros [pv' [E _]]; discriminate E].
  Qed.
  Lemma brel_K : forall n k b', brel n (FbK k) b' <-> exists kv, b' = BK kv /\ Kb n k kv.
  Proof.
    intros n k b'. destruct b' as [pv|kv]; simpl.
    - split; [intros [] | intros [kv' [E _]]; discriminate E].
    - split; [intros H; exists kv; split; [reflexivity | exact H] | intros [kv' [E H]]; injection E as E; subst; exact H].
  Qed.

  (* a data value related to pv is an integer or a constructor value: it is neither forced nor resumed *)
  Lemma dval_interact_ret : forall n v pv m, dval v -> vrel n v pv ->
    interact_val pv (KRet m) = SNext (App m (BP pv)).
  Proof.
    intros n v pv m Hd Hv. destruct v as [z|tag args|cls e|t e]; try contradiction.
    - apply vrel_int in Hv. subst. reflexivity.
    - apply vrel_ctor in Hv. destruct Hv as [args' [Hp _]]. subst. reflexivity.
  Qed.
End Rel.
