(* Refinement of the code of `x_load` (memory.rs load / load_register / load_fields / load_values /
   load_value / load_field, Switch and Invoke of AxCut) on the x86-64 ISA semantics to the abstract
   allocator of Model/Heap.v:
     x86_load_values_rev_ok   the loads of one block (Release: plain loads; Share: every pointer slot
                              loaded is shared), variables in registers or spill slots;
     x86_load_one_block_ok    `x_load` of 1..3 variables = `Heap.load p` (header test, then release or
                              decrement-and-share), the object pointer in a register or a spill slot. *)
From Coq Require Import List ZArith NArith String Bool Lia FMapPositive.
From SCC Require Import Base.Sexp Lang.AxSyn Sem.AxSem Model.Backend Model.X86 Sem.X86Sem Generated.Constants
  Proof.X86State Proof.X86Sel Proof.X86Mem Proof.X86MemFrame Proof.X86MemStore.
From SCC Require Model.Heap.
Import ListNotations.
Open Scope list_scope.
Open Scope Z_scope.

(* ---------- the abstract effect of load_values ---------- *)
Definition share_on (m : load_mode) (b : binding) : bool :=
  match m, bchi b with Share, Ext => false | Share, _ => true | Release, _ => false end.
(* in emission order: the last variable (field ff-1) first *)
Fixpoint lv_abs (m : load_mode) (w : Z -> Z) (bsrev : list binding) (p : Z) (ff : N) (a : Heap.st) : Heap.st :=
  match bsrev with
  | [] => a
  | b :: rest => lv_abs m w rest p (ff - 1) (if share_on m b then Heap.share (w (p + field_offset Fst (ff - 1))) 1 a else a)
  end.
(* the pointer slots that get shared are null or blocks *)
Fixpoint lv_kids (m : load_mode) (w : Z -> Z) (bsrev : list binding) (p : Z) (ff : N) : Prop :=
  match bsrev with
  | [] => True
  | b :: rest => (share_on m b = true -> w (p + field_offset Fst (ff - 1)) = 0 \/ is_blk (w (p + field_offset Fst (ff - 1)))) /\
                 lv_kids m w rest p (ff - 1)
  end.

Lemma lv_abs_congr m bsrev : forall w w' p ff a a',
  st_eqB a a' -> (forall j, (j < ff)%N -> w (p + field_offset Fst j) = w' (p + field_offset Fst j)) ->
  (N.of_nat (List.length bsrev) <= ff)%N -> lv_kids m w bsrev p ff ->
  st_eqB (lv_abs m w bsrev p ff a) (lv_abs m w' bsrev p ff a').
Proof.
  induction bsrev as [|b rest IH]; intros w w' p ff a a' E Hw Hlen K; cbn [lv_abs lv_kids List.length] in *; auto.
  destruct K as [K1 K2]. apply IH; auto.
  - rewrite <- (Hw (ff - 1)%N) by lia. destruct (share_on m b); auto. apply share_st_eqB; auto.
  - intros j Hj. apply Hw. lia.
  - lia.
Qed.
Lemma lv_kids_congr m bsrev : forall w w' p ff,
  (forall j, (j < ff)%N -> w (p + field_offset Fst j) = w' (p + field_offset Fst j)) ->
  (N.of_nat (List.length bsrev) <= ff)%N -> lv_kids m w bsrev p ff -> lv_kids m w' bsrev p ff.
Proof.
  induction bsrev as [|b rest IH]; intros w w' p ff Hw Hlen K; cbn [lv_kids List.length] in *; auto.
  destruct K as [K1 K2]. split.
  - rewrite <- (Hw (ff - 1)%N) by lia. exact K1.
  - apply (IH w); auto; [intros j Hj; apply Hw|]; lia.
Qed.
Lemma lv_kids_all m w bsrev : forall p ff,
  (forall j, (j < ff)%N -> w (p + field_offset Fst j) = 0 \/ is_blk (w (p + field_offset Fst j))) ->
  (N.of_nat (List.length bsrev) <= ff)%N -> lv_kids m w bsrev p ff.
Proof.
  induction bsrev as [|b rest IH]; intros p ff H Hlen; cbn [lv_kids List.length] in *; auto.
  split; [intros _; apply H; lia|]. apply IH; [intros j Hj; apply H|]; lia.
Qed.
Lemma lv_abs_release w bsrev : forall p ff a, lv_abs Release w bsrev p ff a = a.
Proof. induction bsrev as [|b rest IH]; intros; cbn [lv_abs share_on]; auto. Qed.

Lemma abs_heap_same F s s' :
  (forall a, hword s' a = hword s a) -> rget s' HEAP = rget s HEAP -> rget s' FREE = rget s FREE ->
  st_eqB (abs_heap F s') (abs_heap F s).
Proof.
  intros W H1 H2. unfold abs_heap, reg_or0. rewrite H1, H2. split; [reflexivity|]. split; [reflexivity|]. split; [reflexivity|].
  intros x _. cbn [Heap.m]. unfold abs_mem. now rewrite !W.
Qed.

Section Load.
Variable im : image.

Ltac nxt HC k := eapply steps_next; [apply (HC k); reflexivity| |].
Ltac jmp HC k := eapply steps_jump; [apply (HC k); reflexivity| |].

(* ---------- load_field ---------- *)
Definition load_field_code (t : xtemp) (blk : reg) (off : Z) : list xcode :=
  match t with XR r => [MOVL r blk off] | XS p => [MOVL TEMP blk off; MOVS TEMP STACK (stack_offset p)] end.
(* the register that holds the loaded word afterwards *)
Definition held_in (t : xtemp) : reg := match t with XR r => r | XS _ => TEMP end.

Lemma load_field_shape n c blk j cs :
  load_field n c blk j = Ok cs ->
  (2 * N.of_nat (List.length c) + tnum_n n < MAXPOS)%N /\
  cs = load_field_code (tpos (2 * N.of_nat (List.length c) + tnum_n n)) blk (field_offset n j).
Proof.
  unfold load_field. destruct (x_fresh n c) as [t|] eqn:Et; [|discriminate]. cbn [rbind].
  apply x_fresh_tpos in Et as [-> Hk]. intros H. inversion H. split; [exact Hk|]. reflexivity.
Qed.

Lemma x86_load_field_code_ok pos t blk off s sp p :
  code_at im pos (load_field_code t blk off) ->
  frame_ok s sp -> loc_ok t ->
  rget s blk = Some p -> heap_addr (p + off) ->
  exists s', steps im pos s (pnth pos (List.length (load_field_code t blk off))) s' /\
    lget s' sp t = Some (hword s (p + off)) /\ rget s' (held_in t) = Some (hword s (p + off)) /\
    (forall l, loc_ok l -> l <> t -> l <> XR TEMP -> lget s' sp l = lget s sp l) /\
    (forall a, hword s' a = hword s a) /\ out s' = out s /\ frame_ok s' sp.
Proof.
  intros HC FR T R Ha. assert (SP : sp_ok sp) by apply FR.
  destruct t as [r|q]; cbn [load_field_code List.length lget loc_ok held_in] in *.
  - exists (rset s r (Some (hword s (p + off)))). split; [|split; [|split; [|split; [|split; [|split]]]]].
    + nxt HC 0%nat. { eapply step_MOVL_heap; eassumption. } apply steps_refl.
    + apply rget_rset_same.
    + apply rget_rset_same.
    + intros l L N1 N2. destruct l as [r'|q']; cbn [lget]; [apply rget_rset_other; congruence|apply sget_rset].
    + reflexivity.
    + reflexivity.
    + now apply frame_ok_rset.
  - set (s1 := rset s TEMP (Some (hword s (p + off)))).
    assert (F1 : frame_ok s1 sp) by (apply frame_ok_rset; [discriminate|exact FR]).
    exists (sset s1 sp q (Some (hword s (p + off)))). split; [|split; [|split; [|split; [|split; [|split]]]]].
    + nxt HC 0%nat. { eapply step_MOVL_heap; eassumption. }
      nxt HC 1%nat. { rewrite (step_MOVS_slot im s1 sp F1) by exact T. unfold s1 at 2. rewrite rget_rset_same. reflexivity. }
      apply steps_refl.
    + apply sget_sset_same.
    + rewrite rget_sset. apply rget_rset_same.
    + intros l L N1 N2. destruct l as [r'|q']; cbn [lget loc_ok] in *.
      * rewrite rget_sset. apply rget_rset_other; congruence.
      * rewrite sget_sset_other by (auto; congruence). apply sget_rset.
    + reflexivity.
    + reflexivity.
    + now apply frame_ok_sset.
Qed.

(* ---------- load_value: integer slot, pointer slot, share ---------- *)
Lemma load_value_shape b c blk j m lc cs lc' :
  load_value b c blk j m lc = Ok (cs, lc') ->
  let kF := (2 * N.of_nat (List.length c))%N in
  let cS := load_field_code (tpos (kF + 1)) blk (field_offset Snd j) in
  let cF := load_field_code (tpos kF) blk (field_offset Fst j) in
  let sh := x_share_block_n (XR (held_in (tpos kF))) 1 lc in
  (kF + 1 < MAXPOS)%N /\
  ((bchi b = Ext /\ cs = cS /\ lc' = lc) \/
   (bchi b <> Ext /\ m = Release /\ cs = cS ++ cF /\ lc' = lc) \/
   (bchi b <> Ext /\ m = Share /\ cs = cS ++ cF ++ fst sh /\ lc' = snd sh)).
Proof.
  intros H kF cS cF sh. unfold load_value in H.
  destruct (load_field Snd c blk j) as [c1|] eqn:E1; [|discriminate]. cbn [rbind] in H.
  apply load_field_shape in E1 as [K1 ->]. cbn [tnum_n] in *. fold kF in K1 |- *. split; [exact K1|].
  destruct (bchi b) eqn:Echi.
  3:{ inversion H. left. auto. }
  all: right;
    destruct (load_field Fst c blk j) as [c2|] eqn:E2; [|discriminate]; cbn [rbind] in H;
    apply load_field_shape in E2 as [K2 ->]; cbn [tnum_n] in *; rewrite N.add_0_r in *;
    destruct (x_fresh Fst c) as [t|] eqn:Et; [|discriminate]; cbn [rbind] in H;
    apply x_fresh_tpos in Et as [-> _]; cbn [tnum_n] in *; rewrite N.add_0_r in *; fold kF in H |- *;
    destruct m;
    [ left; inversion H; repeat split; auto; discriminate
    | right; change (match tpos kF with XR r => r | XS _ => TEMP end) with (held_in (tpos kF)) in H; fold sh in H;
      destruct sh as [c3 lc1]; inversion H; repeat split; auto; discriminate ].
Qed.

Lemma share_on_ext m b : bchi b = Ext -> share_on m b = false.
Proof. intros H. unfold share_on. rewrite H. now destruct m. Qed.
Lemma share_on_release b : share_on Release b = false.
Proof. reflexivity. Qed.
Lemma share_on_share b : bchi b <> Ext -> share_on Share b = true.
Proof. unfold share_on. destruct (bchi b); congruence. Qed.

Lemma x86_load_value_ok pos b c blk j m lc cs lc' s sp p F :
  load_value b c blk j m lc = Ok (cs, lc') ->
  code_at im pos cs -> labels_at im pos cs -> (j < 3)%N ->
  frame_ok s sp -> rget s blk = Some p -> is_blk p -> blk <> TEMP ->
  let kF := (2 * N.of_nat (List.length c))%N in
  XR blk <> tpos (kF + 1) ->
  let wS := hword s (p + field_offset Snd j) in
  let wF := hword s (p + field_offset Fst j) in
  (share_on m b = true -> wF = 0 \/ is_blk wF) ->
  (share_on m b = true -> wF <> 0 -> wrap (hword s wF + 1) = hword s wF + 1) ->
  exists s', steps im pos s (pnth pos (List.length cs)) s' /\
    st_eqB (abs_heap F s') (if share_on m b then Heap.share wF 1 (abs_heap F s) else abs_heap F s) /\
    lget s' sp (tpos (kF + 1)) = Some wS /\
    (bchi b <> Ext -> lget s' sp (tpos kF) = Some wF) /\
    (forall l, loc_ok l -> l <> tpos kF -> l <> tpos (kF + 1) -> l <> XR TEMP -> lget s' sp l = lget s sp l) /\
    (forall a, hword s' a = if share_on m b && negb (wF =? 0) && (a =? wF) then hword s wF + 1 else hword s a) /\
    out s' = out s /\ frame_ok s' sp.
Proof.
  intros Hlv HC HL Hj FR R Hb NB kF NS wS wF Hkid Hwrap.
  destruct (load_value_shape _ _ _ _ _ _ _ _ Hlv) as (K1 & Hshape). fold kF in K1, Hshape.
  assert (HaS : heap_addr (p + field_offset Snd j)) by (now apply field_addr).
  assert (HaF : heap_addr (p + field_offset Fst j)) by (now apply field_addr).
  assert (K0 : (kF < MAXPOS)%N) by lia.
  (* the integer slot *)
  assert (Snd_step : forall cs', code_at im pos (load_field_code (tpos (kF + 1)) blk (field_offset Snd j) ++ cs') ->
     exists s1, steps im pos s (pnth pos (List.length (load_field_code (tpos (kF + 1)) blk (field_offset Snd j)))) s1 /\
       lget s1 sp (tpos (kF + 1)) = Some wS /\ rget s1 blk = Some p /\
       (forall l, loc_ok l -> l <> tpos (kF + 1) -> l <> XR TEMP -> lget s1 sp l = lget s sp l) /\
       (forall a, hword s1 a = hword s a) /\ out s1 = out s /\ frame_ok s1 sp).
  { intros cs' HC'. apply code_at_app2 in HC' as [HC1 _].
    destruct (x86_load_field_code_ok pos _ blk _ s sp p HC1 FR (tpos_loc_ok _ K1) R HaS) as (s1 & ST1 & V1 & _ & Oth1 & W1 & O1 & FR1).
    exists s1. split; [exact ST1|]. split; [exact V1|]. split; [|auto].
    change (rget s1 blk) with (lget s1 sp (XR blk)). rewrite Oth1; [exact R| | |congruence].
    - cbn [loc_ok]. intros ->. destruct FR as (A & _). rewrite A in R. inversion R; subst. pose proof (is_blk_pos _ Hb).
      destruct FR1 as (_ & (_ & B & _)). unfold STACK_LIMIT, STACK_TOP in B. destruct Hb as (k & Hk & E & Hhi). unfold HEAP_BASE, HEAP_SIZE in *. lia.
    - exact NS. }
  destruct Hshape as [(Hext & -> & ->)|[(Hnext & -> & -> & ->)|(Hnext & -> & -> & ->)]].
  - (* integer variable *)
    rewrite (share_on_ext m b Hext). cbn [andb].
    destruct (Snd_step [] ltac:(rewrite app_nil_r; exact HC)) as (s1 & ST1 & V1 & R1 & Oth1 & W1 & O1 & FR1).
    exists s1. split; [exact ST1|]. split; [|split; [exact V1|split; [intros; contradiction|split; [|split; [exact W1|auto]]]]].
    + apply abs_heap_same; auto.
      * change (lget s1 sp (XR HEAP) = lget s sp (XR HEAP)). apply Oth1; [cbn; discriminate|apply not_eq_sym, tpos_not_reserved|discriminate].
      * change (lget s1 sp (XR FREE) = lget s sp (XR FREE)). apply Oth1; [cbn; discriminate|apply not_eq_sym, tpos_not_reserved|discriminate].
    + intros l L N1 N2 N3. now apply Oth1.
  - (* pointer, the block is released: no sharing *)
    rewrite share_on_release. cbn [andb].
    destruct (Snd_step _ HC) as (s1 & ST1 & V1 & R1 & Oth1 & W1 & O1 & FR1).
    apply code_at_app2 in HC as [_ HC2].
    assert (HaF1 : heap_addr (p + field_offset Fst j)) by exact HaF.
    destruct (x86_load_field_code_ok _ _ blk _ s1 sp p HC2 FR1 (tpos_loc_ok _ K0) R1 HaF1) as (s2 & ST2 & V2 & _ & Oth2 & W2 & O2 & FR2).
    rewrite W1 in V2. fold wF in V2.
    assert (Oth : forall l, loc_ok l -> l <> tpos kF -> l <> tpos (kF + 1) -> l <> XR TEMP -> lget s2 sp l = lget s sp l).
    { intros l L N1 N2 N3. rewrite Oth2, Oth1; auto. }
    exists s2. split; [eapply steps_app_len; eassumption|].
    split; [|split; [|split; [intros _; exact V2|split; [exact Oth|split; [intros a; now rewrite W2, W1|split; [congruence|exact FR2]]]]]].
    + apply abs_heap_same; [intros a; now rewrite W2, W1| |].
      * change (lget s2 sp (XR HEAP) = lget s sp (XR HEAP)). apply Oth; [cbn; discriminate|apply not_eq_sym, tpos_not_reserved|apply not_eq_sym, tpos_not_reserved|discriminate].
      * change (lget s2 sp (XR FREE) = lget s sp (XR FREE)). apply Oth; [cbn; discriminate|apply not_eq_sym, tpos_not_reserved|apply not_eq_sym, tpos_not_reserved|discriminate].
    + rewrite Oth2; [exact V1|now apply tpos_loc_ok| |apply tpos_not_temp]. apply tpos_neq. lia.
  - (* pointer, shared *)
    rewrite (share_on_share b Hnext) in *. cbn [andb].
    destruct (Snd_step _ HC) as (s1 & ST1 & V1 & R1 & Oth1 & W1 & O1 & FR1).
    apply code_at_app2 in HC as [_ HC2]. apply code_at_app2 in HC2 as [HC2 HC3].
    apply labels_at_app2 in HL as [_ HL2]. apply labels_at_app2 in HL2 as [_ HL3].
    destruct (x86_load_field_code_ok _ _ blk _ s1 sp p HC2 FR1 (tpos_loc_ok _ K0) R1 HaF) as (s2 & ST2 & V2 & H2 & Oth2 & W2 & O2 & FR2).
    rewrite W1 in V2, H2. fold wF in V2, H2.
    assert (Oth : forall l, loc_ok l -> l <> tpos kF -> l <> tpos (kF + 1) -> l <> XR TEMP -> lget s2 sp l = lget s sp l).
    { intros l L N1 N2 N3. rewrite Oth2, Oth1; auto. }
    assert (W12 : forall a, hword s2 a = hword s a) by (intros a; now rewrite W2, W1).
    destruct (x86_share_reg_frame im _ (held_in (tpos kF)) 1 lc s2 wF F HC3 HL3 H2 (Hkid eq_refl) eq_refl) as (s3 & ST3 & EQ3 & Rs3 & Stk3 & O3 & W3).
    { intros Hn. rewrite W12. change (Z.of_N 1) with 1. now apply Hwrap. }
    assert (L3 : forall l, lget s3 sp l = lget s2 sp l).
    { intros [r|q]; cbn [lget]; [apply Rs3|unfold sget; now rewrite Stk3]. }
    exists s3. split; [|split; [|split; [|split; [|split; [|split; [|split]]]]]].
    + rewrite app_assoc. eapply steps_app_len; [eapply steps_app_len; eassumption|].
      rewrite app_length, <- pnth_add. exact ST3.
    + eapply st_eqB_trans; [exact EQ3|]. change (Z.of_N 1) with 1. apply share_st_eqB; [|exact (Hkid eq_refl)].
      apply abs_heap_same; [exact W12| |].
      * change (lget s2 sp (XR HEAP) = lget s sp (XR HEAP)). apply Oth; [cbn; discriminate|apply not_eq_sym, tpos_not_reserved|apply not_eq_sym, tpos_not_reserved|discriminate].
      * change (lget s2 sp (XR FREE) = lget s sp (XR FREE)). apply Oth; [cbn; discriminate|apply not_eq_sym, tpos_not_reserved|apply not_eq_sym, tpos_not_reserved|discriminate].
    + rewrite L3, Oth2; [exact V1|now apply tpos_loc_ok| |apply tpos_not_temp]. apply tpos_neq. lia.
    + intros _. rewrite L3. exact V2.
    + intros l L N1 N2 N3. rewrite L3. now apply Oth.
    + intros a. rewrite W3, !W12. change (Z.of_N 1) with 1. reflexivity.
    + congruence.
    + destruct FR2 as (A & B). split; [rewrite Rs3; exact A|exact B].
Qed.

(* ---------- load_values ---------- *)
Lemma x86_load_values_rev_ok : forall bsrev existing blk ff m lc cs lc' pos s sp p F,
  load_values bsrev existing blk ff m lc = Ok (cs, lc') ->
  (N.of_nat (List.length bsrev) <= ff)%N -> (ff <= 3)%N ->
  code_at im pos cs -> labels_at im pos cs ->
  frame_ok s sp -> (bsrev <> [] -> rget s blk = Some p) -> is_blk p -> blk <> TEMP ->
  (forall k, (2 * N.of_nat (List.length existing) < k)%N -> XR blk <> tpos k) ->
  lv_kids m (hword s) bsrev p ff ->
  (forall x, is_blk x -> min_int <= hword s x /\ hword s x + Z.of_nat (List.length bsrev) <= max_int) ->
  exists s', steps im pos s (pnth pos (List.length cs)) s' /\
    st_eqB (abs_heap F s') (lv_abs m (hword s) bsrev p ff (abs_heap F s)) /\
    (forall i b, nth_error (rev bsrev) i = Some b ->
       lget s' sp (tpos (2 * N.of_nat (List.length existing + i) + 1)) =
         Some (hword s (p + field_offset Snd (ff - N.of_nat (List.length bsrev) + N.of_nat i))) /\
       (bchi b <> Ext -> lget s' sp (tpos (2 * N.of_nat (List.length existing + i))) =
         Some (hword s (p + field_offset Fst (ff - N.of_nat (List.length bsrev) + N.of_nat i))))) /\
    (forall l, loc_ok l -> l <> XR TEMP ->
       (forall k, (2 * N.of_nat (List.length existing) <= k < 2 * N.of_nat (List.length existing + List.length bsrev))%N -> l <> tpos k) ->
       lget s' sp l = lget s sp l) /\
    nonblk_same s s' /\
    (forall x, is_blk x -> hword s x <= hword s' x <= hword s x + Z.of_nat (List.length bsrev)) /\
    out s' = out s /\ frame_ok s' sp.
Proof.
  induction bsrev as [|b rest IH]; intros existing blk ff m lc cs lc' pos s sp p F Hlv Hlen Hff HC HL FR R Hb NB NK Kids Room.
  - cbn [load_values] in Hlv. inversion Hlv; subst cs lc'. exists s. cbn [List.length lv_abs pnth rev].
    split; [apply steps_refl|]. split; [apply st_eqB_refl|]. split; [intros i b Hi; destruct i; discriminate|].
    split; [auto|]. split; [apply nonblk_same_refl|]. split; [intros; lia|]. auto.
  - cbn [load_values] in Hlv. cbn [List.length] in Hlen.
    destruct (load_value b (existing ++ rev rest) blk (ff - 1) m lc) as [[c1 lc1]|] eqn:E1; [|discriminate]. cbn [rbind] in Hlv.
    destruct (load_values rest existing blk (ff - 1) m lc1) as [[c2 lc2]|] eqn:E2; [|discriminate]. cbn [rbind] in Hlv.
    inversion Hlv; subst cs lc'. clear Hlv.
    set (E := List.length existing) in *. set (n := List.length rest) in *.
    assert (HL' : List.length (existing ++ rev rest) = (E + n)%nat) by (rewrite app_length, rev_length; reflexivity).
    apply code_at_app2 in HC as [HC1 HC2]. apply labels_at_app2 in HL as [HL1 HL2].
    cbn [lv_kids] in Kids. destruct Kids as [Kid1 Kids2].
    specialize (R ltac:(discriminate)).
    set (wF := hword s (p + field_offset Fst (ff - 1))) in *.
    destruct (x86_load_value_ok pos b (existing ++ rev rest) blk (ff - 1) m lc c1 lc1 s sp p F E1 HC1 HL1 ltac:(lia) FR R Hb NB)
      as (s1 & ST1 & EQ1 & VS & VF & Oth1 & W1 & O1 & FR1).
    { rewrite HL'. apply NK. lia. }
    { exact Kid1. }
    { intros Hsh Hn0. fold wF in Hn0 |- *. apply wrap_id. destruct (Kid1 Hsh) as [|Kb]; [contradiction|].
      destruct (Room wF Kb). cbn [List.length] in *. lia. }
    rewrite HL' in VS, VF, Oth1. fold wF in EQ1, VF, W1.
    assert (NB1 : nonblk_same s s1).
    { intros a Ha. rewrite W1. destruct (share_on m b); cbn [andb]; [|reflexivity].
      destruct (Z.eqb_spec wF 0); cbn [negb andb]; [reflexivity|]. destruct (Z.eqb_spec a wF) as [->|]; [|reflexivity].
      destruct (Kid1 eq_refl); contradiction. }
    assert (Hd1 : forall x, is_blk x -> hword s x <= hword s1 x <= hword s x + 1).
    { intros x Hx. rewrite W1. destruct (share_on m b && negb (wF =? 0) && (x =? wF)) eqn:Eb; [|lia].
      apply andb_true_iff in Eb as [_ Eb]. apply Z.eqb_eq in Eb. subst x. lia. }
    assert (Hfld : forall t j, (j < 3)%N -> hword s1 (p + field_offset t j) = hword s (p + field_offset t j)).
    { intros t j Hj. apply NB1. now apply field_not_blk. }
    assert (R1 : rest <> [] -> rget s1 blk = Some p).
    { intros Hne. change (lget s1 sp (XR blk) = Some p). rewrite Oth1; [exact R| | | |congruence].
      - cbn [loc_ok]. intros ->. destruct FR as (A & (_ & B & _)). rewrite A in R. inversion R; subst.
        unfold STACK_LIMIT, STACK_TOP in B. destruct Hb as (k & Hk & Eq & Hhi). unfold HEAP_BASE, HEAP_SIZE in *. lia.
      - apply NK. destruct rest; [contradiction|]. unfold n. cbn [List.length]. lia.
      - apply NK. lia. }
    destruct (IH existing blk (ff - 1)%N m lc1 c2 lc2 _ s1 sp p F E2 ltac:(lia) ltac:(lia) HC2 HL2 FR1 R1 Hb NB NK)
      as (s2 & ST2 & EQ2 & V2 & Oth2 & NB2 & Hd2 & O2 & FR2).
    { eapply lv_kids_congr; [|lia|exact Kids2]. intros j Hj. symmetry. apply Hfld. lia. }
    { intros x Hx. destruct (Room x Hx), (Hd1 x Hx). cbn [List.length] in *. fold n. lia. }
    fold E n in V2, Oth2, Hd2.
    exists s2. split; [eapply steps_app_len; eassumption|]. split; [|split; [|split; [|split; [|split; [|split]]]]].
    + cbn [lv_abs]. fold wF. eapply st_eqB_trans; [exact EQ2|]. apply lv_abs_congr; auto; [|lia|].
      * intros j Hj. apply Hfld. lia.
      * eapply lv_kids_congr; [|lia|exact Kids2]. intros j Hj. symmetry. apply Hfld. lia.
    + cbn [rev List.length]. fold n. intros i b' Hi. destruct (Nat.lt_ge_cases i n) as [Hlt|Hge].
      * rewrite nth_error_app1 in Hi by (rewrite rev_length; exact Hlt).
        destruct (V2 i b' Hi) as [A B]. rewrite !Hfld in A, B by lia.
        replace (ff - N.of_nat (S n) + N.of_nat i)%N with (ff - 1 - N.of_nat n + N.of_nat i)%N by lia. auto.
      * assert (i = n).
        { assert (i < List.length (rev rest ++ [b]))%nat by (apply nth_error_Some; congruence).
          rewrite app_length, rev_length in H. cbn [List.length] in H. fold n in H. lia. }
        subst i. rewrite nth_error_app2, rev_length, Nat.sub_diag in Hi by (rewrite rev_length; apply Nat.le_refl).
        inversion Hi; subst b'.
        replace (ff - N.of_nat (S n) + N.of_nat n)%N with (ff - 1)%N by lia.
        assert (K1 : (2 * N.of_nat (E + n) + 1 < MAXPOS)%N).
        { destruct (load_value_shape _ _ _ _ _ _ _ _ E1) as (K & _). rewrite HL' in K. exact K. }
        split; [|intros Hne].
        -- rewrite Oth2; [exact VS|apply tpos_loc_ok; lia|apply tpos_not_temp|]. intros k Hk. apply tpos_neq. lia.
        -- rewrite Oth2; [exact (VF Hne)|apply tpos_loc_ok; lia|apply tpos_not_temp|]. intros k Hk. apply tpos_neq. lia.
    + intros l L NT Hl. cbn [List.length] in Hl. fold n in Hl. rewrite Oth2, Oth1; auto.
      * apply Hl. lia.
      * apply Hl. lia.
      * intros k Hk. apply Hl. lia.
    + eapply nonblk_same_trans; eassumption.
    + intros x Hx. destruct (Hd1 x Hx), (Hd2 x Hx). cbn [List.length]. fold n. lia.
    + congruence.
    + exact FR2.
Qed.
End Load.
