(* Refinement of the code of `x_load` (memory.rs load / load_register / load_fields / load_values /
   load_value / load_field, Switch and Invoke of AxCut) on the x86-64 ISA semantics to the abstract
   allocator of Model/Heap.v:
     x86_load_values_rev_ok   the loads of one block (Release: plain loads; Share: every pointer slot
                              loaded is shared), variables in registers or spill slots;
     x86_load_one_block_ok    `x_load` of 1..3 variables = `Heap.load p` (header test, then release or
                              decrement-and-share), the object pointer in a register or a spill slot. *)
From Coq Require Import List ZArith NArith String Bool Lia FMapPositive.
From SCC Require Import Base.Sexp Lang.AxSyn Sem.AxSem Model.Backend Model.X86 Sem.X86Sem Generated.Constants
  Proof.X86State Proof.X86Sel Proof.X86Mem Proof.X86MemFrame Proof.X86MemStore.
From SCC Require Model.Heap.
Import ListNotations.
Open Scope list_scope.
Open Scope Z_scope.

(* ---------- the abstract effect of load_values ---------- *)
Definition share_on (m : load_mode) (b : binding) : bool :=
  match m, bchi b with Share, Ext => false | Share, _ => true | Release, _ => false end.
(* in emission order: the last variable (field ff-1) first *)
Fixpoint lv_abs (m : load_mode) (w : Z -> Z) (bsrev : list binding) (p : Z) (ff : N) (a : Heap.st) : Heap.st :=
  match bsrev with
  | [] => a
  | b :: rest => lv_abs m w rest p (ff - 1) (if share_on m b then Heap.share (w (p + field_offset Fst (ff - 1))) 1 a else a)
  end.
(* the pointer slots that get shared are null or blocks *)
Fixpoint lv_kids (m : load_mode) (w : Z -> Z) (bsrev : list binding) (p : Z) (ff : N) : Prop :=
  match bsrev with
  | [] => True
  | b :: rest => (share_on m b = true -> w (p + field_offset Fst (ff - 1)) = 0 \/ is_blk (w (p + field_offset Fst (ff - 1)))) /\
                 lv_kids m w rest p (ff - 1)
  end.

Lemma lv_abs_congr m bsrev : forall w w' p ff a a',
  st_eqB a a' -> (forall j, (j < ff)%N -> w (p + field_offset Fst j) = w' (p + field_offset Fst j)) ->
  (N.of_nat (List.length bsrev) <= ff)%N -> lv_kids m w bsrev p ff ->
  st_eqB (lv_abs m w bsrev p ff a) (lv_abs m w' bsrev p ff a').
Proof.
  induction bsrev as [|b rest IH]; intros w w' p ff a a' E Hw Hlen K; cbn [lv_abs lv_kids List.length] in *; auto.
  destruct K as [K1 K2]. apply IH; auto.
  - rewrite <- (Hw (ff - 1)%N) by lia. destruct (share_on m b); auto. apply share_st_eqB; auto.
  - intros j Hj. apply Hw. lia.
  - lia.
Qed.
Lemma lv_kids_congr m bsrev : forall w w' p ff,
  (forall j, (j < ff)%N -> w (p + field_offset Fst j) = w' (p + field_offset Fst j)) ->
  (N.of_nat (List.length bsrev) <= ff)%N -> lv_kids m w bsrev p ff -> lv_kids m w' bsrev p ff.
Proof.
  induction bsrev as [|b rest IH]; intros w w' p ff Hw Hlen K; cbn [lv_kids List.length] in *; auto.
  destruct K as [K1 K2]. split.
  - rewrite <- (Hw (ff - 1)%N) by lia. exact K1.
  - apply (IH w); auto; [intros j Hj; apply Hw|]; lia.
Qed.
Lemma lv_kids_all m w bsrev : forall p ff,
  (forall j, (j < ff)%N -> w (p + field_offset Fst j) = 0 \/ is_blk (w (p + field_offset Fst j))) ->
  (N.of_nat (List.length bsrev) <= ff)%N -> lv_kids m w bsrev p ff.
Proof.
  induction bsrev as [|b rest IH]; intros p ff H Hlen; cbn [lv_kids List.length] in *; auto.
  split; [intros _; apply H; lia|]. apply IH; [intros j Hj; apply H|]; lia.
Qed.
Lemma lv_abs_release w bsrev : forall p ff a, lv_abs Release w bsrev p ff a = a.
Proof. induction bsrev as [|b rest IH]; intros; cbn [lv_abs share_on]; auto. Qed.

Lemma abs_heap_same F s s' :
  (forall a, hword s' a = hword s a) -> rget s' HEAP = rget s HEAP -> rget s' FREE = rget s FREE ->
  st_eqB (abs_heap F s') (abs_heap F s).
Proof.
  intros W H1 H2. unfold abs_heap, reg_or0. rewrite H1, H2. split; [reflexivity|]. split; [reflexivity|]. split; [reflexivity|].
  intros x _. cbn [Heap.m]. unfold abs_mem. now rewrite !W.
Qed.

(* ---------- sharing the three pointer slots: the order does not matter ---------- *)
Lemma share_comm x y a : st_eqB (Heap.share x 1 (Heap.share y 1 a)) (Heap.share y 1 (Heap.share x 1 a)).
Proof.
  unfold Heap.share. destruct (Z.eqb_spec x 0), (Z.eqb_spec y 0); try apply st_eqB_refl.
  split; [reflexivity|]. split; [reflexivity|]. split; [reflexivity|]. intros z _.
  cbn [Heap.m]. unfold Heap.set_hdr, Heap.upd.
  destruct (Z.eqb_spec z x), (Z.eqb_spec z y), (Z.eqb_spec x y), (Z.eqb_spec y x); subst; cbn [Heap.hdr Heap.ps]; try congruence;
    f_equal; lia.
Qed.
Lemma share_if b c x : (bchi b = Ext -> c = 0) -> (if share_on Share b then Heap.share c 1 x else x) = Heap.share c 1 x.
Proof. unfold share_on. destruct (bchi b); auto. intros H. now rewrite H. Qed.

Lemma lv_abs_share_list w bs p a :
  (List.length bs <= 3)%nat ->
  (forall j, (j < 3 - N.of_nat (List.length bs))%N -> w (p + field_offset Fst j) = 0) ->
  (forall i b, nth_error bs i = Some b -> bchi b = Ext -> w (p + field_offset Fst (3 - N.of_nat (List.length bs) + N.of_nat i)) = 0) ->
  (forall j, (j < 3)%N -> w (p + field_offset Fst j) = 0 \/ is_blk (w (p + field_offset Fst j))) ->
  st_eqB (lv_abs Share w (rev bs) p 3 a) (Heap.share_list [w (p + 16); w (p + 32); w (p + 48)] a).
Proof.
  intros Hlen Hz He Hk.
  assert (E : lv_abs Share w (rev bs) p 3 a = Heap.share (w (p + 16)) 1 (Heap.share (w (p + 32)) 1 (Heap.share (w (p + 48)) 1 a))).
  { destruct bs as [|b0 [|b1 [|b2 [|]]]]; cbn [List.length] in *; try lia; cbn [rev app lv_abs];
      change (3 - 1)%N with 2%N; change (2 - 1)%N with 1%N; change (1 - 1)%N with 0%N; rewrite ?fo_F0, ?fo_F1, ?fo_F2.
    - pose proof (Hz 0%N ltac:(cbn; lia)) as Z0. pose proof (Hz 1%N ltac:(cbn; lia)) as Z1. pose proof (Hz 2%N ltac:(cbn; lia)) as Z2.
      rewrite fo_F0 in Z0. rewrite fo_F1 in Z1. rewrite fo_F2 in Z2. rewrite Z0, Z1, Z2. reflexivity.
    - pose proof (Hz 0%N ltac:(cbn; lia)) as Z0. pose proof (Hz 1%N ltac:(cbn; lia)) as Z1.
      rewrite fo_F0 in Z0. rewrite fo_F1 in Z1. rewrite Z0, Z1.
      rewrite share_if; [reflexivity|]. intros Hx. exact (He 0%nat b0 eq_refl Hx).
    - pose proof (Hz 0%N ltac:(cbn; lia)) as Z0. rewrite fo_F0 in Z0. rewrite Z0.
      rewrite (share_if b1); [|intros Hx; exact (He 1%nat b1 eq_refl Hx)].
      rewrite (share_if b0); [reflexivity|]. intros Hx. exact (He 0%nat b0 eq_refl Hx).
    - rewrite (share_if b2); [|intros Hx; exact (He 2%nat b2 eq_refl Hx)].
      rewrite (share_if b1); [|intros Hx; exact (He 1%nat b1 eq_refl Hx)].
      rewrite (share_if b0); [reflexivity|]. intros Hx. exact (He 0%nat b0 eq_refl Hx). }
  rewrite E. unfold Heap.share_list. cbn [fold_left].
  pose proof (Hk 0%N ltac:(lia)) as K0. pose proof (Hk 1%N ltac:(lia)) as K1. pose proof (Hk 2%N ltac:(lia)) as K2.
  rewrite fo_F0 in K0. rewrite fo_F1 in K1. rewrite fo_F2 in K2.
  eapply st_eqB_trans; [apply share_st_eqB; [apply share_comm|exact K0]|].
  eapply st_eqB_trans; [apply share_comm|].
  apply share_st_eqB; [apply share_comm|exact K2].
Qed.

Section Load.
Variable im : image.

Ltac nxt HC k := eapply steps_next; [apply (HC k); reflexivity| |].
Ltac jmp HC k := eapply steps_jump; [apply (HC k); reflexivity| |].

(* ---------- load_field ---------- *)
Definition load_field_code (t : xtemp) (blk : reg) (off : Z) : list xcode :=
  match t with XR r => [MOVL r blk off] | XS p => [MOVL TEMP blk off; MOVS TEMP STACK (stack_offset p)] end.
(* the register that holds the loaded word afterwards *)
Definition held_in (t : xtemp) : reg := match t with XR r => r | XS _ => TEMP end.

Lemma load_field_shape n c blk j cs :
  load_field n c blk j = Ok cs ->
  (2 * N.of_nat (List.length c) + tnum_n n < MAXPOS)%N /\
  cs = load_field_code (tpos (2 * N.of_nat (List.length c) + tnum_n n)) blk (field_offset n j).
Proof.
  unfold load_field. destruct (x_fresh n c) as [t|] eqn:Et; [|discriminate]. cbn [rbind].
  apply x_fresh_tpos in Et as [-> Hk]. intros H. inversion H. split; [exact Hk|]. reflexivity.
Qed.

Lemma x86_load_field_code_ok pos t blk off s sp p :
  code_at im pos (load_field_code t blk off) ->
  frame_ok s sp -> loc_ok t ->
  rget s blk = Some p -> heap_addr (p + off) ->
  exists s', steps im pos s (pnth pos (List.length (load_field_code t blk off))) s' /\
    lget s' sp t = Some (hword s (p + off)) /\ rget s' (held_in t) = Some (hword s (p + off)) /\
    (forall l, loc_ok l -> l <> t -> l <> XR TEMP -> lget s' sp l = lget s sp l) /\
    (forall a, hword s' a = hword s a) /\ out s' = out s /\ frame_ok s' sp.
Proof.
  intros HC FR T R Ha. assert (SP : sp_ok sp) by apply FR.
  destruct t as [r|q]; cbn [load_field_code List.length lget loc_ok held_in] in *.
  - exists (rset s r (Some (hword s (p + off)))). split; [|split; [|split; [|split; [|split; [|split]]]]].
    + nxt HC 0%nat. { eapply step_MOVL_heap; eassumption. } apply steps_refl.
    + apply rget_rset_same.
    + apply rget_rset_same.
    + intros l L N1 N2. destruct l as [r'|q']; cbn [lget]; [apply rget_rset_other; congruence|apply sget_rset].
    + reflexivity.
    + reflexivity.
    + now apply frame_ok_rset.
  - set (s1 := rset s TEMP (Some (hword s (p + off)))).
    assert (F1 : frame_ok s1 sp) by (apply frame_ok_rset; [discriminate|exact FR]).
    exists (sset s1 sp q (Some (hword s (p + off)))). split; [|split; [|split; [|split; [|split; [|split]]]]].
    + nxt HC 0%nat. { eapply step_MOVL_heap; eassumption. }
      nxt HC 1%nat. { rewrite (step_MOVS_slot im s1 sp F1) by exact T. unfold s1 at 2. rewrite rget_rset_same. reflexivity. }
      apply steps_refl.
    + apply sget_sset_same.
    + rewrite rget_sset. apply rget_rset_same.
    + intros l L N1 N2. destruct l as [r'|q']; cbn [lget loc_ok] in *.
      * rewrite rget_sset. apply rget_rset_other; congruence.
      * rewrite sget_sset_other by (auto; congruence). apply sget_rset.
    + reflexivity.
    + reflexivity.
    + now apply frame_ok_sset.
Qed.

(* ---------- load_value: integer slot, pointer slot, share ---------- *)
Lemma load_value_shape b c blk j m lc cs lc' :
  load_value b c blk j m lc = Ok (cs, lc') ->
  let kF := (2 * N.of_nat (List.length c))%N in
  let cS := load_field_code (tpos (kF + 1)) blk (field_offset Snd j) in
  let cF := load_field_code (tpos kF) blk (field_offset Fst j) in
  let sh := x_share_block_n (XR (held_in (tpos kF))) 1 lc in
  (kF + 1 < MAXPOS)%N /\
  ((bchi b = Ext /\ cs = cS /\ lc' = lc) \/
   (bchi b <> Ext /\ m = Release /\ cs = cS ++ cF /\ lc' = lc) \/
   (bchi b <> Ext /\ m = Share /\ cs = cS ++ cF ++ fst sh /\ lc' = snd sh)).
Proof.
  intros H kF cS cF sh. unfold load_value in H.
  destruct (load_field Snd c blk j) as [c1|] eqn:E1; [|discriminate]. cbn [rbind] in H.
  apply load_field_shape in E1 as [K1 ->]. cbn [tnum_n] in *. fold kF in K1 |- *. split; [exact K1|].
  destruct (bchi b) eqn:Echi.
  3:{ inversion H. left. auto. }
  all: right;
    destruct (load_field Fst c blk j) as [c2|] eqn:E2; [|discriminate]; cbn [rbind] in H;
    apply load_field_shape in E2 as [K2 ->]; cbn [tnum_n] in *; rewrite N.add_0_r in *;
    destruct (x_fresh Fst c) as [t|] eqn:Et; [|discriminate]; cbn [rbind] in H;
    apply x_fresh_tpos in Et as [-> _]; cbn [tnum_n] in *; rewrite N.add_0_r in *; fold kF in H |- *;
    destruct m;
    [ left; inversion H; repeat split; auto; discriminate
    | right; change (match tpos kF with XR r => r | XS _ => TEMP end) with (held_in (tpos kF)) in H; fold sh in H;
      destruct sh as [c3 lc1]; inversion H; repeat split; auto; discriminate ].
Qed.

Lemma share_on_ext m b : bchi b = Ext -> share_on m b = false.
Proof. intros H. unfold share_on. rewrite H. now destruct m. Qed.
Lemma share_on_release b : share_on Release b = false.
Proof. reflexivity. Qed.
Lemma share_on_share b : bchi b <> Ext -> share_on Share b = true.
Proof. unfold share_on. destruct (bchi b); congruence. Qed.
Lemma share_on_true m b : share_on m b = true -> m = Share.
Proof. destruct m; [discriminate|reflexivity]. Qed.

Lemma x86_load_value_ok pos b c blk j m lc cs lc' s sp p F :
  load_value b c blk j m lc = Ok (cs, lc') ->
  code_at im pos cs -> labels_at im pos cs -> (j < 3)%N ->
  frame_ok s sp -> rget s blk = Some p -> is_blk p -> blk <> TEMP ->
  let kF := (2 * N.of_nat (List.length c))%N in
  XR blk <> tpos (kF + 1) ->
  let wS := hword s (p + field_offset Snd j) in
  let wF := hword s (p + field_offset Fst j) in
  (share_on m b = true -> wF = 0 \/ is_blk wF) ->
  (share_on m b = true -> wF <> 0 -> wrap (hword s wF + 1) = hword s wF + 1) ->
  exists s', steps im pos s (pnth pos (List.length cs)) s' /\
    st_eqB (abs_heap F s') (if share_on m b then Heap.share wF 1 (abs_heap F s) else abs_heap F s) /\
    lget s' sp (tpos (kF + 1)) = Some wS /\
    (bchi b <> Ext -> lget s' sp (tpos kF) = Some wF) /\
    (forall l, loc_ok l -> l <> tpos kF -> l <> tpos (kF + 1) -> l <> XR TEMP -> lget s' sp l = lget s sp l) /\
    (forall a, hword s' a = if share_on m b && negb (wF =? 0) && (a =? wF) then hword s wF + 1 else hword s a) /\
    out s' = out s /\ frame_ok s' sp.
Proof.
  intros Hlv HC HL Hj FR R Hb NB kF NS wS wF Hkid Hwrap.
  destruct (load_value_shape _ _ _ _ _ _ _ _ Hlv) as (K1 & Hshape). fold kF in K1, Hshape.
  assert (HaS : heap_addr (p + field_offset Snd j)) by (now apply field_addr).
  assert (HaF : heap_addr (p + field_offset Fst j)) by (now apply field_addr).
  assert (K0 : (kF < MAXPOS)%N) by lia.
  (* the integer slot *)
  assert (Snd_step : forall cs', code_at im pos (load_field_code (tpos (kF + 1)) blk (field_offset Snd j) ++ cs') ->
     exists s1, steps im pos s (pnth pos (List.length (load_field_code (tpos (kF + 1)) blk (field_offset Snd j)))) s1 /\
       lget s1 sp (tpos (kF + 1)) = Some wS /\ rget s1 blk = Some p /\
       (forall l, loc_ok l -> l <> tpos (kF + 1) -> l <> XR TEMP -> lget s1 sp l = lget s sp l) /\
       (forall a, hword s1 a = hword s a) /\ out s1 = out s /\ frame_ok s1 sp).
  { intros cs' HC'. apply code_at_app2 in HC' as [HC1 _].
    destruct (x86_load_field_code_ok pos _ blk _ s sp p HC1 FR (tpos_loc_ok _ K1) R HaS) as (s1 & ST1 & V1 & _ & Oth1 & W1 & O1 & FR1).
    exists s1. split; [exact ST1|]. split; [exact V1|]. split; [|auto].
    change (rget s1 blk) with (lget s1 sp (XR blk)). rewrite Oth1; [exact R| | |congruence].
    - cbn [loc_ok]. intros ->. destruct FR as (A & _). rewrite A in R. inversion R; subst. pose proof (is_blk_pos _ Hb).
      destruct FR1 as (_ & (_ & B & _)). unfold STACK_LIMIT, STACK_TOP in B. destruct Hb as (k & Hk & E & Hhi). unfold HEAP_BASE, HEAP_SIZE in *. lia.
    - exact NS. }
  destruct Hshape as [(Hext & -> & ->)|[(Hnext & -> & -> & ->)|(Hnext & -> & -> & ->)]].
  - (* integer variable *)
    rewrite (share_on_ext m b Hext). cbn [andb].
    destruct (Snd_step [] ltac:(rewrite app_nil_r; exact HC)) as (s1 & ST1 & V1 & R1 & Oth1 & W1 & O1 & FR1).
    exists s1. split; [exact ST1|]. split; [|split; [exact V1|split; [intros; contradiction|split; [|split; [exact W1|auto]]]]].
    + apply abs_heap_same; auto.
      * change (lget s1 sp (XR HEAP) = lget s sp (XR HEAP)). apply Oth1; [cbn; discriminate|apply not_eq_sym, tpos_not_reserved|discriminate].
      * change (lget s1 sp (XR FREE) = lget s sp (XR FREE)). apply Oth1; [cbn; discriminate|apply not_eq_sym, tpos_not_reserved|discriminate].
    + intros l L N1 N2 N3. now apply Oth1.
  - (* pointer, the block is released: no sharing *)
    rewrite share_on_release. cbn [andb].
    destruct (Snd_step _ HC) as (s1 & ST1 & V1 & R1 & Oth1 & W1 & O1 & FR1).
    apply code_at_app2 in HC as [_ HC2].
    assert (HaF1 : heap_addr (p + field_offset Fst j)) by exact HaF.
    destruct (x86_load_field_code_ok _ _ blk _ s1 sp p HC2 FR1 (tpos_loc_ok _ K0) R1 HaF1) as (s2 & ST2 & V2 & _ & Oth2 & W2 & O2 & FR2).
    rewrite W1 in V2. fold wF in V2.
    assert (Oth : forall l, loc_ok l -> l <> tpos kF -> l <> tpos (kF + 1) -> l <> XR TEMP -> lget s2 sp l = lget s sp l).
    { intros l L N1 N2 N3. rewrite Oth2, Oth1; auto. }
    exists s2. split; [eapply steps_app_len; eassumption|].
    split; [|split; [|split; [intros _; exact V2|split; [exact Oth|split; [intros a; now rewrite W2, W1|split; [congruence|exact FR2]]]]]].
    + apply abs_heap_same; [intros a; now rewrite W2, W1| |].
      * change (lget s2 sp (XR HEAP) = lget s sp (XR HEAP)). apply Oth; [cbn; discriminate|apply not_eq_sym, tpos_not_reserved|apply not_eq_sym, tpos_not_reserved|discriminate].
      * change (lget s2 sp (XR FREE) = lget s sp (XR FREE)). apply Oth; [cbn; discriminate|apply not_eq_sym, tpos_not_reserved|apply not_eq_sym, tpos_not_reserved|discriminate].
    + rewrite Oth2; [exact V1|now apply tpos_loc_ok| |apply tpos_not_temp]. apply tpos_neq. lia.
  - (* pointer, shared *)
    rewrite (share_on_share b Hnext) in *. cbn [andb].
    destruct (Snd_step _ HC) as (s1 & ST1 & V1 & R1 & Oth1 & W1 & O1 & FR1).
    apply code_at_app2 in HC as [_ HC2]. apply code_at_app2 in HC2 as [HC2 HC3].
    apply labels_at_app2 in HL as [_ HL2]. apply labels_at_app2 in HL2 as [_ HL3].
    destruct (x86_load_field_code_ok _ _ blk _ s1 sp p HC2 FR1 (tpos_loc_ok _ K0) R1 HaF) as (s2 & ST2 & V2 & H2 & Oth2 & W2 & O2 & FR2).
    rewrite W1 in V2, H2. fold wF in V2, H2.
    assert (Oth : forall l, loc_ok l -> l <> tpos kF -> l <> tpos (kF + 1) -> l <> XR TEMP -> lget s2 sp l = lget s sp l).
    { intros l L N1 N2 N3. rewrite Oth2, Oth1; auto. }
    assert (W12 : forall a, hword s2 a = hword s a) by (intros a; now rewrite W2, W1).
    destruct (x86_share_reg_frame im _ (held_in (tpos kF)) 1 lc s2 wF F HC3 HL3 H2 (Hkid eq_refl) eq_refl) as (s3 & ST3 & EQ3 & Rs3 & Stk3 & O3 & W3).
    { intros Hn. rewrite W12. change (Z.of_N 1) with 1. now apply Hwrap. }
    assert (L3 : forall l, lget s3 sp l = lget s2 sp l).
    { intros [r|q]; cbn [lget]; [apply Rs3|unfold sget; now rewrite Stk3]. }
    exists s3. split; [|split; [|split; [|split; [|split; [|split; [|split]]]]]].
    + rewrite app_assoc. eapply steps_app_len; [eapply steps_app_len; eassumption|].
      rewrite app_length, <- pnth_add. exact ST3.
    + eapply st_eqB_trans; [exact EQ3|]. change (Z.of_N 1) with 1. apply share_st_eqB; [|exact (Hkid eq_refl)].
      apply abs_heap_same; [exact W12| |].
      * change (lget s2 sp (XR HEAP) = lget s sp (XR HEAP)). apply Oth; [cbn; discriminate|apply not_eq_sym, tpos_not_reserved|apply not_eq_sym, tpos_not_reserved|discriminate].
      * change (lget s2 sp (XR FREE) = lget s sp (XR FREE)). apply Oth; [cbn; discriminate|apply not_eq_sym, tpos_not_reserved|apply not_eq_sym, tpos_not_reserved|discriminate].
    + rewrite L3, Oth2; [exact V1|now apply tpos_loc_ok| |apply tpos_not_temp]. apply tpos_neq. lia.
    + intros _. rewrite L3. exact V2.
    + intros l L N1 N2 N3. rewrite L3. now apply Oth.
    + intros a. rewrite W3, !W12. change (Z.of_N 1) with 1. reflexivity.
    + congruence.
    + destruct FR2 as (A & B). split; [rewrite Rs3; exact A|exact B].
Qed.

(* ---------- load_values ---------- *)
Lemma x86_load_values_rev_ok : forall bsrev existing blk ff m lc cs lc' pos s sp p F,
  load_values bsrev existing blk ff m lc = Ok (cs, lc') ->
  (N.of_nat (List.length bsrev) <= ff)%N -> (ff <= 3)%N ->
  code_at im pos cs -> labels_at im pos cs ->
  frame_ok s sp -> (bsrev <> [] -> rget s blk = Some p) -> is_blk p -> blk <> TEMP ->
  (forall k, (2 * N.of_nat (List.length existing) < k)%N -> XR blk <> tpos k) ->
  lv_kids m (hword s) bsrev p ff ->
  (m = Share -> forall x, is_blk x -> min_int <= hword s x /\ hword s x + Z.of_nat (List.length bsrev) <= max_int) ->
  exists s', steps im pos s (pnth pos (List.length cs)) s' /\
    st_eqB (abs_heap F s') (lv_abs m (hword s) bsrev p ff (abs_heap F s)) /\
    (forall i b, nth_error (rev bsrev) i = Some b ->
       lget s' sp (tpos (2 * N.of_nat (List.length existing + i) + 1)) =
         Some (hword s (p + field_offset Snd (ff - N.of_nat (List.length bsrev) + N.of_nat i))) /\
       (bchi b <> Ext -> lget s' sp (tpos (2 * N.of_nat (List.length existing + i))) =
         Some (hword s (p + field_offset Fst (ff - N.of_nat (List.length bsrev) + N.of_nat i))))) /\
    (forall l, loc_ok l -> l <> XR TEMP ->
       (forall k, (2 * N.of_nat (List.length existing) <= k < 2 * N.of_nat (List.length existing + List.length bsrev))%N -> l <> tpos k) ->
       lget s' sp l = lget s sp l) /\
    nonblk_same s s' /\
    (forall x, is_blk x -> hword s x <= hword s' x <= hword s x + Z.of_nat (List.length bsrev)) /\
    out s' = out s /\ frame_ok s' sp.
Proof.
  induction bsrev as [|b rest IH]; intros existing blk ff m lc cs lc' pos s sp p F Hlv Hlen Hff HC HL FR R Hb NB NK Kids Room.
  - cbn [load_values] in Hlv. inversion Hlv; subst cs lc'. exists s. cbn [List.length lv_abs pnth rev].
    split; [apply steps_refl|]. split; [apply st_eqB_refl|]. split; [intros i b Hi; destruct i; discriminate|].
    split; [auto|]. split; [apply nonblk_same_refl|]. split; [intros; lia|]. auto.
  - cbn [load_values] in Hlv. cbn [List.length] in Hlen.
    destruct (load_value b (existing ++ rev rest) blk (ff - 1) m lc) as [[c1 lc1]|] eqn:E1; [|discriminate]. cbn [rbind] in Hlv.
    destruct (load_values rest existing blk (ff - 1) m lc1) as [[c2 lc2]|] eqn:E2; [|discriminate]. cbn [rbind] in Hlv.
    inversion Hlv; subst cs lc'. clear Hlv.
    set (E := List.length existing) in *. set (n := List.length rest) in *.
    assert (HL' : List.length (existing ++ rev rest) = (E + n)%nat) by (rewrite app_length, rev_length; reflexivity).
    apply code_at_app2 in HC as [HC1 HC2]. apply labels_at_app2 in HL as [HL1 HL2].
    cbn [lv_kids] in Kids. destruct Kids as [Kid1 Kids2].
    specialize (R ltac:(discriminate)).
    set (wF := hword s (p + field_offset Fst (ff - 1))) in *.
    destruct (x86_load_value_ok pos b (existing ++ rev rest) blk (ff - 1) m lc c1 lc1 s sp p F E1 HC1 HL1 ltac:(lia) FR R Hb NB)
      as (s1 & ST1 & EQ1 & VS & VF & Oth1 & W1 & O1 & FR1).
    { rewrite HL'. apply NK. lia. }
    { exact Kid1. }
    { intros Hsh Hn0. fold wF in Hn0 |- *. apply wrap_id. destruct (Kid1 Hsh) as [|Kb]; [contradiction|].
      destruct (Room (share_on_true _ _ Hsh) wF Kb). cbn [List.length] in *. lia. }
    rewrite HL' in VS, VF, Oth1. fold wF in EQ1, VF, W1.
    assert (NB1 : nonblk_same s s1).
    { intros a Ha. rewrite W1. destruct (share_on m b); cbn [andb]; [|reflexivity].
      destruct (Z.eqb_spec wF 0); cbn [negb andb]; [reflexivity|]. destruct (Z.eqb_spec a wF) as [->|]; [|reflexivity].
      destruct (Kid1 eq_refl); contradiction. }
    assert (Hd1 : forall x, is_blk x -> hword s x <= hword s1 x <= hword s x + 1).
    { intros x Hx. rewrite W1. destruct (share_on m b && negb (wF =? 0) && (x =? wF)) eqn:Eb; [|lia].
      apply andb_true_iff in Eb as [_ Eb]. apply Z.eqb_eq in Eb. subst x. lia. }
    assert (Hfld : forall t j, (j < 3)%N -> hword s1 (p + field_offset t j) = hword s (p + field_offset t j)).
    { intros t j Hj. apply NB1. now apply field_not_blk. }
    assert (R1 : rest <> [] -> rget s1 blk = Some p).
    { intros Hne. change (lget s1 sp (XR blk) = Some p). rewrite Oth1; [exact R| | | |congruence].
      - cbn [loc_ok]. intros ->. destruct FR as (A & (_ & B & _)). rewrite A in R. inversion R; subst.
        unfold STACK_LIMIT, STACK_TOP in B. destruct Hb as (k & Hk & Eq & Hhi). unfold HEAP_BASE, HEAP_SIZE in *. lia.
      - apply NK. destruct rest; [contradiction|]. unfold n. cbn [List.length]. lia.
      - apply NK. lia. }
    destruct (IH existing blk (ff - 1)%N m lc1 c2 lc2 _ s1 sp p F E2 ltac:(lia) ltac:(lia) HC2 HL2 FR1 R1 Hb NB NK)
      as (s2 & ST2 & EQ2 & V2 & Oth2 & NB2 & Hd2 & O2 & FR2).
    { eapply lv_kids_congr; [|lia|exact Kids2]. intros j Hj. symmetry. apply Hfld. lia. }
    { intros Hm x Hx. destruct (Room Hm x Hx), (Hd1 x Hx). cbn [List.length] in *. fold n. lia. }
    fold E n in V2, Oth2, Hd2.
    exists s2. split; [eapply steps_app_len; eassumption|]. split; [|split; [|split; [|split; [|split; [|split]]]]].
    + cbn [lv_abs]. fold wF. eapply st_eqB_trans; [exact EQ2|]. apply lv_abs_congr; auto; [|lia|].
      * intros j Hj. apply Hfld. lia.
      * eapply lv_kids_congr; [|lia|exact Kids2]. intros j Hj. symmetry. apply Hfld. lia.
    + cbn [rev List.length]. fold n. intros i b' Hi. destruct (Nat.lt_ge_cases i n) as [Hlt|Hge].
      * rewrite nth_error_app1 in Hi by (rewrite rev_length; exact Hlt).
        destruct (V2 i b' Hi) as [A B]. rewrite !Hfld in A, B by lia.
        replace (ff - N.of_nat (S n) + N.of_nat i)%N with (ff - 1 - N.of_nat n + N.of_nat i)%N by lia. auto.
      * assert (i = n).
        { assert (i < List.length (rev rest ++ [b]))%nat by (apply nth_error_Some; congruence).
          rewrite app_length, rev_length in H. cbn [List.length] in H. fold n in H. lia. }
        subst i. rewrite nth_error_app2, rev_length, Nat.sub_diag in Hi by (rewrite rev_length; apply Nat.le_refl).
        inversion Hi; subst b'.
        replace (ff - N.of_nat (S n) + N.of_nat n)%N with (ff - 1)%N by lia.
        assert (K1 : (2 * N.of_nat (E + n) + 1 < MAXPOS)%N).
        { destruct (load_value_shape _ _ _ _ _ _ _ _ E1) as (K & _). rewrite HL' in K. exact K. }
        split; [|intros Hne].
        -- rewrite Oth2; [exact VS|apply tpos_loc_ok; lia|apply tpos_not_temp|]. intros k Hk. apply tpos_neq. lia.
        -- rewrite Oth2; [exact (VF Hne)|apply tpos_loc_ok; lia|apply tpos_not_temp|]. intros k Hk. apply tpos_neq. lia.
    + intros l L NT Hl. cbn [List.length] in Hl. fold n in Hl. rewrite Oth2, Oth1; auto.
      * apply Hl. lia.
      * apply Hl. lia.
      * intros k Hk. apply Hl. lia.
    + eapply nonblk_same_trans; eassumption.
    + intros x Hx. destruct (Hd1 x Hx), (Hd2 x Hx). cbn [List.length]. fold n. lia.
    + congruence.
    + exact FR2.
Qed.

(* ---------- release_block, with the words ---------- *)
Lemma x86_release_block_frame pos r s p h F :
  code_at im pos (release_block r) ->
  rget s r = Some p -> rget s HEAP = Some h -> is_blk p ->
  exists s', steps im pos s (pnth pos 2) s' /\
     st_eqB (abs_heap F s') (Heap.release p (abs_heap F s)) /\
     (forall r', r' <> HEAP -> rget s' r' = rget s r') /\ rget s' HEAP = Some p /\ stack s' = stack s /\ out s' = out s /\
     (forall a, hword s' a = if a =? p then h else hword s a).
Proof.
  intros HC P Hh Hb. pose proof (blk_heap_addr p Hb) as Ha. unfold release_block in HC.
  exists (rset (hset s p h) HEAP (Some p)). split; [|split; [|split; [|split; [|split; [|split]]]]]; try reflexivity.
  - nxt HC 0%nat. { change NEXT_ELEMENT_OFFSET with 0. eapply step_MOVS_heap; [exact P|exact Ha|exact Hh]. }
    nxt HC 1%nat. { cbn [step]. reflexivity. }
    change (rget (hset s p h) r) with (rget s r). rewrite P. apply steps_refl.
  - unfold Heap.release. split; [|split; [|split; [reflexivity|]]].
    + cbn [abs_heap Heap.heap]. unfold reg_or0. now rewrite rget_rset_same.
    + cbn [abs_heap Heap.free]. unfold reg_or0. now rewrite rget_rset_other by discriminate.
    + intros x Hx. cbn [abs_heap Heap.m Heap.heap]. unfold reg_or0 at 1. rewrite Hh.
      change (abs_mem (rset (hset s p h) HEAP (Some p)) x) with (abs_mem (hset s p h) x). now apply abs_mem_hset.
  - intros r' Hr. rewrite rget_rset_other by congruence. reflexivity.
  - apply rget_rset_same.
  - intros a. rewrite hword_rset. apply hword_hset. now apply is_blk_pos.
Qed.

(* ---------- load_fields of one block ---------- *)
Definition blk_reg_of (t : xtemp) : reg := match t with XR r => r | XS _ => TEMPORARY_TEMP end.
Definition lf_pre (t : xtemp) : list xcode :=
  match t with
  | XR _ => []
  | XS mp => [MOVS TEMPORARY_TEMP STACK (stack_offset SPILL_TEMP); MOVL TEMPORARY_TEMP STACK (stack_offset mp)]
  end.
Definition lf_post (t : xtemp) : list xcode :=
  match t with XR _ => [] | XS _ => [MOVL TEMPORARY_TEMP STACK (stack_offset SPILL_TEMP)] end.
Definition rel_code (m : load_mode) (r : reg) : list xcode := match m with Release => release_block r | Share => [] end.

Lemma load_fields_one_block_shape to_load existing m lc cs fr lc' :
  (1 <= List.length to_load <= 3)%nat ->
  load_fields (S (List.length to_load)) to_load existing Last m false lc = Ok (cs, fr, lc') ->
  let t := tpos (2 * N.of_nat (List.length existing)) in
  (2 * N.of_nat (List.length existing) < MAXPOS)%N /\
  exists lv, load_values (rev to_load) existing (blk_reg_of t) 3 m lc = Ok (lv, lc') /\
    cs = lf_pre t ++ rel_code m (blk_reg_of t) ++ lv ++ lf_post t.
Proof.
  intros Hlen H t. cbn [load_fields] in H.
  destruct to_load as [|x r]; [cbn in Hlen; lia|].
  change (FIELDS_PER_BLOCK - bp_n Last)%N with 3%N in H.
  assert (Hle : N.leb (N.of_nat (List.length (x :: r))) 3 = true) by (apply N.leb_le; cbn [List.length] in *; lia).
  rewrite Hle in H. change (N.to_nat 0) with 0%nat in H. cbn [firstn skipn List.length load_fields rbind] in H.
  rewrite app_nil_r in H.
  destruct (x_fresh Fst existing) as [t'|] eqn:Et; [|discriminate]. cbn [rbind] in H.
  apply x_fresh_tpos in Et as [-> Hk]. cbn [tnum_n] in *. rewrite N.add_0_r in *. fold t in H.
  split; [exact Hk|].
  destruct t as [mr|mp]; cbn [blk_reg_of lf_pre lf_post rel_code].
  - destruct (load_values (rev (x :: r)) existing mr 3 m lc) as [[c3 lc3]|] eqn:E3; [|discriminate]. cbn [rbind] in H.
    inversion H. exists c3. split; [reflexivity|]. cbn [app]. now rewrite app_nil_r.
  - destruct (load_values (rev (x :: r)) existing TEMPORARY_TEMP 3 m lc) as [[c3 lc3]|] eqn:E3; [|discriminate]. cbn [rbind] in H.
    inversion H. exists c3. split; [reflexivity|]. cbn [app]. reflexivity.
Qed.

Lemma lv_kids_release w bsrev : forall p ff, lv_kids Release w bsrev p ff.
Proof. induction bsrev as [|b r IH]; intros; cbn [lv_kids]; auto. split; [discriminate|apply IH]. Qed.

(* release (in Release mode), then the loads; the block pointer in register R *)
Lemma x86_load_mid_ok pos to_load existing m lc lv lc' R s sp p h F :
  load_values (rev to_load) existing R 3 m lc = Ok (lv, lc') ->
  (List.length to_load <= 3)%nat -> to_load <> [] ->
  code_at im pos (rel_code m R ++ lv) -> labels_at im pos (rel_code m R ++ lv) -> frame_ok s sp ->
  rget s R = Some p -> is_blk p -> rget s HEAP = Some h -> R <> TEMP -> R <> HEAP ->
  (forall k, (2 * N.of_nat (List.length existing) < k)%N -> XR R <> tpos k) ->
  lv_kids m (hword s) (rev to_load) p 3 ->
  (m = Share -> forall x, is_blk x -> min_int <= hword s x /\ hword s x + 3 <= max_int) ->
  exists s', steps im pos s (pnth pos (List.length (rel_code m R ++ lv))) s' /\
    st_eqB (abs_heap F s')
      (lv_abs m (hword s) (rev to_load) p 3 (match m with Release => Heap.release p (abs_heap F s) | Share => abs_heap F s end)) /\
    (forall i b, nth_error to_load i = Some b ->
       lget s' sp (tpos (2 * N.of_nat (List.length existing + i) + 1)) =
         Some (hword s (p + field_offset Snd (3 - N.of_nat (List.length to_load) + N.of_nat i))) /\
       (bchi b <> Ext -> lget s' sp (tpos (2 * N.of_nat (List.length existing + i))) =
         Some (hword s (p + field_offset Fst (3 - N.of_nat (List.length to_load) + N.of_nat i))))) /\
    (forall l, loc_ok l -> l <> XR TEMP -> l <> XR HEAP ->
       (forall k, (2 * N.of_nat (List.length existing) <= k < 2 * N.of_nat (List.length existing + List.length to_load))%N -> l <> tpos k) ->
       lget s' sp l = lget s sp l) /\
    out s' = out s /\ frame_ok s' sp.
Proof.
  intros Hlv Hlen Hne HC HL FR R0 Hb Hh NT NH NK Kids Room.
  assert (Hrl : N.of_nat (List.length (rev to_load)) = N.of_nat (List.length to_load)) by now rewrite rev_length.
  apply code_at_app2 in HC as [HC1 HC2]. apply labels_at_app2 in HL as [HL1 HL2].
  destruct m; cbn [rel_code] in *.
  - (* Release *)
    destruct (x86_release_block_frame pos R s p h F HC1 R0 Hh Hb) as (s1 & ST1 & EQ1 & Oth1 & H1 & Stk1 & O1 & W1).
    assert (FR1 : frame_ok s1 sp) by (destruct FR as (A & B); split; [rewrite Oth1 by discriminate; exact A|exact B]).
    assert (Hfld : forall t j, (j < 3)%N -> hword s1 (p + field_offset t j) = hword s (p + field_offset t j)).
    { intros t j Hj. rewrite W1. destruct (Z.eqb_spec (p + field_offset t j) p) as [e|]; [|reflexivity].
      rewrite field_offset_val in e. destruct t; cbn [tnum_n] in e; lia. }
    destruct (x86_load_values_rev_ok (rev to_load) existing R 3 Release lc lv lc' _ s1 sp p F Hlv ltac:(lia) ltac:(lia) HC2 HL2 FR1)
      as (s2 & ST2 & EQ2 & V2 & Oth2 & NB2 & _ & O2 & FR2); auto.
    { intros _. rewrite Oth1 by exact NH. exact R0. }
    { apply lv_kids_release. }
    { discriminate. }
    rewrite lv_abs_release in *. rewrite rev_length in *.
    exists s2. split; [eapply steps_app_len; [exact ST1|exact ST2]|]. split; [eapply st_eqB_trans; eassumption|].
    split; [|split; [|split; [congruence|exact FR2]]].
    + intros i b Hi. rewrite rev_involutive in V2. destruct (V2 i b Hi) as [A B].
      assert (Hi' : (i < List.length to_load)%nat) by (apply nth_error_Some; congruence).
      rewrite !Hfld in A, B by lia. auto.
    + intros l L N1 N2 N3. rewrite Oth2 by auto. destruct l as [r|q]; cbn [lget]; [apply Oth1; congruence|unfold sget; now rewrite Stk1].
  - (* Share *)
    destruct (x86_load_values_rev_ok (rev to_load) existing R 3 Share lc lv lc' _ s sp p F Hlv ltac:(lia) ltac:(lia) HC2 HL2 FR)
      as (s2 & ST2 & EQ2 & V2 & Oth2 & NB2 & _ & O2 & FR2); auto.
    { intros Hm x Hx. destruct (Room Hm x Hx). rewrite rev_length. lia. }
    rewrite rev_length in *.
    exists s2. split; [exact ST2|]. split; [exact EQ2|]. split; [|split; [|split; [congruence|exact FR2]]].
    + intros i b Hi. rewrite rev_involutive in V2. exact (V2 i b Hi).
    + intros l L N1 N2 N3. now apply Oth2.
Qed.

Lemma TT_is_4 : TEMPORARY_TEMP = 4%N. Proof. reflexivity. Qed.
Lemma tpos_0 : tpos 0 = XR TEMPORARY_TEMP. Proof. reflexivity. Qed.

(* ---------- load_fields of one block: evacuation of TEMPORARY_TEMP when the pointer is spilled ---------- *)
Lemma x86_load_fields_one_block_ok pos to_load existing m lc cs fr lc' s sp p h F :
  load_fields (S (List.length to_load)) to_load existing Last m false lc = Ok (cs, fr, lc') ->
  (1 <= List.length to_load <= 3)%nat ->
  code_at im pos cs -> labels_at im pos cs -> frame_ok s sp ->
  lget s sp (tpos (2 * N.of_nat (List.length existing))) = Some p -> is_blk p -> rget s HEAP = Some h ->
  lv_kids m (hword s) (rev to_load) p 3 ->
  (m = Share -> forall x, is_blk x -> min_int <= hword s x /\ hword s x + 3 <= max_int) ->
  exists s', steps im pos s (pnth pos (List.length cs)) s' /\
    st_eqB (abs_heap F s')
      (lv_abs m (hword s) (rev to_load) p 3 (match m with Release => Heap.release p (abs_heap F s) | Share => abs_heap F s end)) /\
    (forall i b, nth_error to_load i = Some b ->
       lget s' sp (tpos (2 * N.of_nat (List.length existing + i) + 1)) =
         Some (hword s (p + field_offset Snd (3 - N.of_nat (List.length to_load) + N.of_nat i))) /\
       (bchi b <> Ext -> lget s' sp (tpos (2 * N.of_nat (List.length existing + i))) =
         Some (hword s (p + field_offset Fst (3 - N.of_nat (List.length to_load) + N.of_nat i))))) /\
    (forall k, (k < 2 * N.of_nat (List.length existing))%N -> lget s' sp (tpos k) = lget s sp (tpos k)) /\
    out s' = out s /\ frame_ok s' sp.
Proof.
  intros Hlf Hlen HC HL FR P Hb Hh Kids Room.
  destruct (load_fields_one_block_shape _ _ _ _ _ _ _ Hlen Hlf) as (Hk & lv & Hlv & ->).
  assert (Hne : to_load <> []) by (intros ->; cbn in Hlen; lia).
  set (E := List.length existing) in *.
  rewrite (app_assoc (rel_code m _) lv _) in *.
  apply code_at_app2 in HC as [HC1 HC2]. apply labels_at_app2 in HL as [_ HL2].
  apply code_at_app2 in HC2 as [HC2 HC3]. apply labels_at_app2 in HL2 as [HL2 _].
  destruct (tpos (2 * N.of_nat E)) as [mr|mp] eqn:Et; cbn [blk_reg_of lf_pre lf_post lget] in *.
  - (* the pointer in a register *)
    cbn [List.length pnth app] in *. rewrite app_nil_r.
    destruct (tpos_not_reserved (2 * N.of_nat E)) as (_ & NT & NH & _). rewrite Et in NT, NH.
    destruct (x86_load_mid_ok pos to_load existing m lc lv lc' mr s sp p h F Hlv ltac:(lia) Hne HC2 HL2 FR P Hb Hh)
      as (s2 & ST & EQ & V & Oth & O & FR2); auto; try congruence.
    { intros k Hk'. rewrite <- Et. apply tpos_neq. fold E. lia. }
    exists s2. split; [exact ST|]. split; [exact EQ|]. split; [exact V|]. split; [|auto].
    intros k Hk'. apply Oth.
    + apply tpos_loc_ok. lia.
    + apply tpos_not_temp.
    + apply tpos_not_reserved.
    + intros k' Hk''. apply tpos_neq. fold E in Hk''. lia.
  - (* the pointer in a spill slot: TEMPORARY_TEMP is saved, used for the pointer, restored *)
    destruct (tpos_slot _ _ Et) as (Emp & HE).
    assert (SP : sp_ok sp) by apply FR.
    assert (Qmp : slot_ok mp) by (pose proof (tpos_loc_ok _ Hk) as L; rewrite Et in L; exact L).
    assert (Q0 : slot_ok SPILL_TEMP) by (unfold slot_ok; reflexivity).
    assert (Nmp : SPILL_TEMP <> mp) by (change SPILL_TEMP with 0%N; lia).
    set (s1 := sset s sp SPILL_TEMP (rget s TEMPORARY_TEMP)).
    set (sA := rset s1 TEMPORARY_TEMP (Some p)).
    assert (F1 : frame_ok s1 sp) by (apply frame_ok_sset; exact FR).
    assert (FA : frame_ok sA sp) by (apply frame_ok_rset; [discriminate|exact F1]).
    assert (STA : steps im pos s (pnth pos 2) sA).
    { nxt HC1 0%nat. { apply (step_MOVS_slot im s sp FR). exact Q0. }
      nxt HC1 1%nat. { rewrite (step_MOVL_slot im s1 sp F1) by exact Qmp. unfold s1 at 2. rewrite sget_sset_other by auto. rewrite P. reflexivity. }
      apply steps_refl. }
    destruct (x86_load_mid_ok (pnth pos 2) to_load existing m lc lv lc' TEMPORARY_TEMP sA sp p h F Hlv ltac:(lia) Hne HC2 HL2 FA)
      as (s2 & ST & EQ & V & Oth & O & FR2); auto; try discriminate.
    { apply rget_rset_same. }
    { unfold sA, s1. rewrite rget_rset_other by discriminate. exact Hh. }
    { intros k Hk'. intro Eq. symmetry in Eq. apply tpos_reg in Eq as [_ Hlt]. fold E in Hk'. lia. }
    set (s3 := rset s2 TEMPORARY_TEMP (sget s2 sp SPILL_TEMP)).
    assert (S0 : sget s2 sp SPILL_TEMP = rget s TEMPORARY_TEMP).
    { change (lget s2 sp (XS SPILL_TEMP) = rget s TEMPORARY_TEMP). rewrite Oth; [|exact Q0|discriminate|discriminate|intros k _; apply not_eq_sym, tpos_not_reserved].
      cbn [lget]. unfold sA. rewrite sget_rset. unfold s1. apply sget_sset_same. }
    assert (EA : st_eqB (abs_heap F sA) (abs_heap F s)).
    { apply abs_heap_same; [reflexivity| |]; unfold sA, s1; rewrite rget_rset_other by discriminate; reflexivity. }
    exists s3. split; [|split; [|split; [|split; [|split]]]].
    + eapply steps_app_len; [exact STA|]. eapply steps_app_len; [exact ST|].
      eapply steps_next; [apply (HC3 0%nat); reflexivity| |apply steps_refl].
      apply (step_MOVL_slot im s2 sp FR2). exact Q0.
    + eapply st_eqB_trans; [|eapply st_eqB_trans; [exact EQ|]].
      * apply abs_heap_same; [reflexivity| |]; unfold s3; rewrite rget_rset_other by discriminate; reflexivity.
      * change (hword sA) with (hword s). apply lv_abs_congr; auto.
        -- destruct m; [apply release_st_eqB; auto|exact EA].
        -- rewrite rev_length. lia.
    + intros i b Hi. destruct (V i b Hi) as [A B].
      assert (N1 : forall k, (12 <= k)%N -> tpos k <> XR TEMPORARY_TEMP).
      { intros k Hk' Eq. apply tpos_reg in Eq as [_ Hlt]. lia. }
      assert (L3 : forall l, l <> XR TEMPORARY_TEMP -> lget s3 sp l = lget s2 sp l).
      { intros [r|q] Hl; cbn [lget]; unfold s3; [apply rget_rset_other; congruence|apply sget_rset]. }
      fold E in A, B.
      split; [|intros Hx; specialize (B Hx)].
      * rewrite L3 by (apply N1; lia). exact A.
      * rewrite L3 by (apply N1; lia). exact B.
    + intros k Hk'. destruct (N.eq_dec k 0) as [->|Hk0].
      * rewrite tpos_0. cbn [lget]. unfold s3. rewrite rget_rset_same. exact S0.
      * assert (N0 : tpos k <> XR TEMPORARY_TEMP) by (rewrite <- tpos_0; now apply tpos_neq).
        assert (LK : loc_ok (tpos k)) by (apply tpos_loc_ok; lia).
        assert (L3 : lget s3 sp (tpos k) = lget s2 sp (tpos k)).
        { unfold s3. destruct (tpos k) as [r|q]; cbn [lget]; [apply rget_rset_other; congruence|apply sget_rset]. }
        rewrite L3, Oth; [|exact LK|apply tpos_not_temp|apply tpos_not_reserved|intros k' Hk''; apply tpos_neq; fold E in Hk''; lia].
        destruct (tpos_not_reserved k) as (_ & _ & _ & _ & NS).
        unfold sA, s1. destruct (tpos k) as [r|q]; cbn [lget loc_ok] in *.
        -- rewrite rget_rset_other by congruence. apply rget_sset.
        -- rewrite sget_rset. apply sget_sset_other; auto. congruence.
    + unfold s3. rewrite out_rset. rewrite O. reflexivity.
    + unfold s3. apply frame_ok_rset; [discriminate|exact FR2].
Qed.

(* ---------- load_register: the header test and the two branches ---------- *)
Lemma load_register_shape br to_load existing lc cs lc' :
  load_register br to_load existing lc = Ok (cs, lc') ->
  exists thn fr1 lc1 els fr2 lc2,
    load_fields (S (List.length to_load)) to_load existing Last Release false lc = Ok (thn, fr1, lc1) /\
    load_fields (S (List.length to_load)) to_load existing Last Share false lc1 = Ok (els, fr2, lc2) /\
    cs = [CMPIM br 0 0; JEL (lab (lc2 + 1))] ++ ([ADDIM br 0 (-1)] ++ els) ++
         [JMPL (lab (lc2 + 2)); LAB (lab (lc2 + 1))] ++ thn ++ [LAB (lab (lc2 + 2))] /\
    lc' = (lc2 + 2)%N.
Proof.
  unfold load_register. intros H.
  destruct (load_fields (S (List.length to_load)) to_load existing Last Release false lc) as [[[thn fr1] lc1]|] eqn:E1; [|discriminate].
  cbn [rbind] in H.
  destruct (load_fields (S (List.length to_load)) to_load existing Last Share false lc1) as [[[els fr2] lc2]|] eqn:E2; [|discriminate].
  cbn [rbind] in H. unfold if_zero_then_else in H. inversion H.
  exists thn, fr1, lc1, els, fr2, lc2. repeat split; auto.
Qed.

Lemma pnth_app_len pos (a b : list xcode) : pnth pos (List.length (a ++ b)) = pnth (pnth pos (List.length a)) (List.length b).
Proof. now rewrite app_length, pnth_add. Qed.

Definition load_pre (s : xstate) (p : Z) (E : nat) (to_load : list binding) : Prop :=
  let n := List.length to_load in
  (forall j, (j < 3)%N -> hword s (p + field_offset Fst j) = 0 \/ is_blk (hword s (p + field_offset Fst j))) /\
  (forall j, (j < 3 - N.of_nat n)%N -> hword s (p + field_offset Fst j) = 0) /\
  (forall i b, nth_error to_load i = Some b -> bchi b = Ext -> hword s (p + field_offset Fst (3 - N.of_nat n + N.of_nat i)) = 0) /\
  (forall x, is_blk x -> min_int + 1 <= hword s x <= max_int - 3).

Lemma x86_load_register_ok pos br to_load existing lc cs lc' s sp p h F :
  load_register br to_load existing lc = Ok (cs, lc') ->
  (1 <= List.length to_load <= 3)%nat ->
  code_at im pos cs -> labels_at im pos cs -> frame_ok s sp ->
  rget s br = Some p -> lget s sp (tpos (2 * N.of_nat (List.length existing))) = Some p -> is_blk p -> rget s HEAP = Some h ->
  load_pre s p (List.length existing) to_load ->
  exists s', steps im pos s (pnth pos (List.length cs)) s' /\
    st_eqB (abs_heap F s') (Heap.load p (abs_heap F s)) /\
    (forall i b, nth_error to_load i = Some b ->
       lget s' sp (tpos (2 * N.of_nat (List.length existing + i) + 1)) =
         Some (hword s (p + field_offset Snd (3 - N.of_nat (List.length to_load) + N.of_nat i))) /\
       (bchi b <> Ext -> lget s' sp (tpos (2 * N.of_nat (List.length existing + i))) =
         Some (hword s (p + field_offset Fst (3 - N.of_nat (List.length to_load) + N.of_nat i))))) /\
    (forall k, (k < 2 * N.of_nat (List.length existing))%N -> lget s' sp (tpos k) = lget s sp (tpos k)) /\
    out s' = out s /\ frame_ok s' sp.
Proof.
  intros Hlr Hlen HC HL FR Rb P Hb Hh (Kall & Kz & Ke & Room).
  destruct (load_register_shape _ _ _ _ _ _ Hlr) as (thn & fr1 & lc1 & els & fr2 & lc2 & Ethn & Eels & -> & _).
  pose proof (blk_heap_addr p Hb) as Ha.
  (* the pieces of the code *)
  set (seg2 := [ADDIM br 0 (-1)] ++ els) in *.
  apply code_at_app2 in HC as [HC1 HCr]. apply labels_at_app2 in HL as [_ HLr].
  apply code_at_app2 in HCr as [HC2 HCr]. apply labels_at_app2 in HLr as [HL2 HLr].
  apply code_at_app2 in HCr as [HC3 HCr]. apply labels_at_app2 in HLr as [HL3 HLr].
  apply code_at_app2 in HCr as [HC4 HC5]. apply labels_at_app2 in HLr as [HL4 HL5].
  rewrite !pnth_app_len.
  set (p2 := pnth pos (List.length [CMPIM br 0 0; JEL (lab (lc2 + 1))])) in *.
  set (p3 := pnth p2 (List.length seg2)) in *.
  set (p4 := pnth p3 (List.length [JMPL (lab (lc2 + 2)); LAB (lab (lc2 + 1))])) in *.
  set (p5 := pnth p4 (List.length thn)) in *.
  pose proof (HL3 1%nat _ eq_refl) as Lthen. pose proof (HL5 0%nat _ eq_refl) as Lelse. cbn [pnth] in Lelse.
  set (sa := set_flags s (Some (hword s p, 0))).
  assert (STa : steps im pos s (Pos.succ pos) sa).
  { nxt HC1 0%nat. { eapply step_CMPIM0_heap; [exact Rb|exact Ha]. } apply steps_refl. }
  assert (FRa : frame_ok sa sp) by (now apply frame_ok_set_flags).
  unfold Heap.load. change (Heap.hdr (Heap.m (abs_heap F s) p)) with (hword s p).
  assert (KidsAll : forall m, lv_kids m (hword s) (rev to_load) p 3).
  { intros m. apply lv_kids_all; [exact Kall|rewrite rev_length; lia]. }
  destruct (Z.eqb_spec (hword s p) 0) as [H0|Hn0].
  - (* last reference: release the block, plain loads *)
    destruct (x86_load_fields_one_block_ok p4 to_load existing Release lc thn fr1 lc1 sa sp p h F Ethn Hlen HC4 HL4 FRa P Hb Hh (KidsAll _))
      as (sb & STb & EQb & Vb & Ob & Outb & FRb); [discriminate|].
    exists sb. split; [|split; [|split; [exact Vb|split; [exact Ob|split; [exact Outb|exact FRb]]]]].
    + eapply steps_trans; [exact STa|].
      eapply steps_jump; [apply (HC1 1%nat); reflexivity| |].
      { rewrite (step_JEL im _ _ (hword s p) 0) by reflexivity. rewrite H0. cbn [Z.eqb]. unfold goto_label. rewrite Lthen. reflexivity. }
      eapply steps_next; [apply (HC3 1%nat); reflexivity|reflexivity|].
      change (Pos.succ (pnth p3 1)) with p4.
      eapply steps_trans; [exact STb|]. fold p5.
      eapply steps_next; [apply (HC5 0%nat); reflexivity|reflexivity|]. apply steps_refl.
    + rewrite lv_abs_release in EQb. eapply st_eqB_trans; [exact EQb|]. apply release_st_eqB; auto.
      apply abs_heap_same; reflexivity.
  - (* other references remain: decrement, load and share *)
    destruct (Room p Hb) as [Rlo Rhi].
    assert (Wd : wrap (hword s p + -1) = hword s p - 1) by (apply wrap_id; unfold min_int, max_int, two63 in *; lia).
    set (sd := set_flags (hset sa p (wrap (hword sa p + -1))) None).
    assert (FRd : frame_ok sd sp) by (apply frame_ok_set_flags, frame_ok_hset; exact FRa).
    assert (Wsd : forall a, hword sd a = if a =? p then hword s p - 1 else hword s a).
    { intros a. unfold sd. rewrite hword_set_flags, hword_hset by (now apply is_blk_pos). change (hword sa) with (hword s). now rewrite Wd. }
    assert (Hfld : forall t j, (j < 3)%N -> hword sd (p + field_offset t j) = hword s (p + field_offset t j)).
    { intros t j Hj. rewrite Wsd. destruct (Z.eqb_spec (p + field_offset t j) p) as [e|]; [|reflexivity].
      rewrite field_offset_val in e. destruct t; cbn [tnum_n] in e; lia. }
    assert (EQd : st_eqB (abs_heap F sd) (Heap.dec p (abs_heap F s))).
    { unfold Heap.dec. split; [reflexivity|]. split; [reflexivity|]. split; [reflexivity|].
      intros x Hx. cbn [abs_heap Heap.m]. unfold sd. change (hword sa p) with (hword s p). rewrite Wd.
      change (abs_mem (set_flags (hset sa p (hword s p - 1)) None) x) with (abs_mem (hset s p (hword s p - 1)) x).
      now apply abs_mem_hset. }
    unfold seg2 in HC2, HL2. apply code_at_app2 in HC2 as [HC2a HC2b]. apply labels_at_app2 in HL2 as [_ HL2b].
    destruct (x86_load_fields_one_block_ok _ to_load existing Share lc1 els fr2 lc2 sd sp p h F Eels Hlen HC2b HL2b FRd P Hb Hh)
      as (se & STe & EQe & Ve & Oe & Oute & FRe).
    { apply lv_kids_all; [|rewrite rev_length; lia]. intros j Hj. rewrite Hfld by exact Hj. now apply Kall. }
    { intros _ x Hx. destruct (Room x Hx). rewrite Wsd. destruct (x =? p); unfold min_int, max_int, two63 in *; lia. }
    exists se. split; [|split; [|split; [|split; [exact Oe|split; [exact Oute|exact FRe]]]]].
    + eapply steps_trans; [exact STa|].
      eapply steps_next; [apply (HC1 1%nat); reflexivity| |].
      { rewrite (step_JEL im _ _ (hword s p) 0) by reflexivity. destruct (Z.eqb_spec (hword s p) 0); [contradiction|reflexivity]. }
      change (Pos.succ (Pos.succ pos)) with p2.
      eapply steps_next; [apply (HC2a 0%nat); reflexivity| |].
      { eapply step_ADDIM_heap; [exact Rb|exact Ha|reflexivity]. }
      fold sd. change (Pos.succ p2) with (pnth p2 (List.length [ADDIM br 0 (-1)])).
      eapply steps_trans; [exact STe|]. rewrite <- pnth_app_len. fold seg2. fold p3.
      eapply steps_jump; [apply (HC3 0%nat); reflexivity| |].
      { cbn [step]. unfold goto_label. rewrite Lelse. reflexivity. }
      eapply steps_next; [apply (HC5 0%nat); reflexivity|reflexivity|]. apply steps_refl.
    + eapply st_eqB_trans; [exact EQe|].
      eapply st_eqB_trans; [apply (lv_abs_congr Share (rev to_load) (hword sd) (hword s) p 3 _ _ EQd)|].
      * intros j Hj. now apply Hfld.
      * rewrite rev_length. lia.
      * apply lv_kids_all; [|rewrite rev_length; lia]. intros j Hj. rewrite Hfld by exact Hj. now apply Kall.
      * unfold Heap.load_share. cbn [abs_heap Heap.m abs_mem Heap.ps]. apply lv_abs_share_list; auto. lia.
    + intros i b Hi. destruct (Ve i b Hi) as [A B].
      assert (Hi' : (i < List.length to_load)%nat) by (apply nth_error_Some; congruence).
      rewrite !Hfld in A, B by lia. auto.
Qed.

(* ---------- 3. x_load of one block = Heap.load ---------- *)
Theorem x86_load_one_block_ok pos to_load existing lc cs lc' s sp p h F :
  x_load to_load existing lc = Ok (cs, lc') ->
  (1 <= List.length to_load <= 3)%nat ->
  code_at im pos cs -> labels_at im pos cs -> frame_ok s sp ->
  lget s sp (tpos (2 * N.of_nat (List.length existing))) = Some p -> is_blk p -> rget s HEAP = Some h ->
  load_pre s p (List.length existing) to_load ->
  exists s', steps im pos s (pnth pos (List.length cs)) s' /\
    st_eqB (abs_heap F s') (Heap.load p (abs_heap F s)) /\
    (forall i b, nth_error to_load i = Some b ->
       lget s' sp (tpos (2 * N.of_nat (List.length existing + i) + 1)) =
         Some (hword s (p + field_offset Snd (3 - N.of_nat (List.length to_load) + N.of_nat i))) /\
       (bchi b <> Ext -> lget s' sp (tpos (2 * N.of_nat (List.length existing + i))) =
         Some (hword s (p + field_offset Fst (3 - N.of_nat (List.length to_load) + N.of_nat i))))) /\
    (forall k, (k < 2 * N.of_nat (List.length existing))%N -> lget s' sp (tpos k) = lget s sp (tpos k)) /\
    out s' = out s /\ frame_ok s' sp.
Proof.
  intros Hx Hlen HC HL FR P Hb Hh Pre. unfold x_load in Hx.
  destruct to_load as [|x0 r0]; [cbn in Hlen; lia|].
  destruct (x_fresh Fst existing) as [t|] eqn:Et; [|discriminate]. cbn [rbind] in Hx.
  apply x_fresh_tpos in Et as [-> Hk]. cbn [tnum_n] in *. rewrite N.add_0_r in *.
  destruct (tpos (2 * N.of_nat (List.length existing))) as [r|q] eqn:Etp.
  - (* the object pointer in a register *)
    rewrite <- Etp in P. cbn [lget] in *.
    eapply (x86_load_register_ok pos r); eauto. rewrite Etp in P. exact P.
  - (* in a spill slot: first moved to the scratch register *)
    destruct (load_register TEMP (x0 :: r0) existing lc) as [[c1 lc1]|] eqn:Elr; [|discriminate]. cbn [rbind fst snd] in Hx.
    inversion Hx; subst cs lc'. clear Hx.
    assert (Q : slot_ok q) by (pose proof (tpos_loc_ok _ Hk) as L; rewrite Etp in L; exact L).
    cbn [lget] in P.
    change (MOVL TEMP STACK (stack_offset q) :: c1) with ([MOVL TEMP STACK (stack_offset q)] ++ c1) in *.
    apply code_at_app2 in HC as [HC1 HC2]. apply labels_at_app2 in HL as [_ HL2].
    set (s0 := rset s TEMP (Some p)).
    assert (FR0 : frame_ok s0 sp) by (apply frame_ok_rset; [discriminate|exact FR]).
    destruct (x86_load_register_ok _ TEMP (x0 :: r0) existing lc c1 lc1 s0 sp p h F Elr Hlen HC2 HL2 FR0)
      as (s' & ST & EQ & V & O & Out & FR'); auto.
    { apply rget_rset_same. }
    { rewrite Etp. cbn [lget]. unfold s0. rewrite sget_rset. exact P. }
    { unfold s0. rewrite rget_rset_other by discriminate. exact Hh. }
    exists s'. split; [|split; [|split; [exact V|split; [|split; [exact Out|exact FR']]]]].
    + eapply steps_app_len; [|exact ST].
      eapply steps_next; [apply (HC1 0%nat); reflexivity| |apply steps_refl].
      rewrite (step_MOVL_slot im s sp FR) by exact Q. rewrite P. reflexivity.
    + eapply st_eqB_trans; [exact EQ|]. unfold Heap.load.
      change (Heap.hdr (Heap.m (abs_heap F s0) p)) with (Heap.hdr (Heap.m (abs_heap F s) p)).
      assert (E0 : st_eqB (abs_heap F s0) (abs_heap F s)) by apply abs_heap_rset_temp.
      destruct (Heap.hdr (Heap.m (abs_heap F s) p) =? 0).
      * apply release_st_eqB; auto.
      * unfold Heap.load_share. change (Heap.ps (Heap.m (abs_heap F s0) p)) with (Heap.ps (Heap.m (abs_heap F s) p)).
        destruct Pre as (Kall & _).
        pose proof (Kall 0%N ltac:(lia)) as K0. pose proof (Kall 1%N ltac:(lia)) as K1. pose proof (Kall 2%N ltac:(lia)) as K2.
        rewrite fo_F0 in K0. rewrite fo_F1 in K1. rewrite fo_F2 in K2.
        cbn [abs_heap Heap.m abs_mem Heap.ps]. unfold Heap.share_list. cbn [fold_left].
        repeat (apply share_st_eqB; [|assumption]). apply dec_st_eqB; auto.
    + intros k Hk'. rewrite O by exact Hk'. unfold s0.
      pose proof (tpos_not_temp k) as NT. destruct (tpos k) as [r|q']; cbn [lget]; [apply rget_rset_other; congruence|apply sget_rset].
Qed.
End Load.

(* ---------- the hypotheses are satisfiable: an object with an integer and a pointer field, shared ---------- *)
Definition ex_lstate : xstate :=
  hset (hset (hset (hset
    (rset (rset (rset (rset (init_state []) 0 (Some ex_sp)) HEAP (Some (HEAP_BASE + 128))) FREE (Some (HEAP_BASE + 192))) 4 (Some HEAP_BASE))
    HEAP_BASE 1) (HEAP_BASE + 40) 42) (HEAP_BASE + 48) (HEAP_BASE + 64)) (HEAP_BASE + 56) 7.
Definition ex_load_code : list xcode := match x_load ex_store [] 0 with Ok (cs, _) => cs | Err _ => [] end.

Example x86_load_one_block_example :
  exists lc', x_load ex_store [] 0 = Ok (ex_load_code, lc') /\
  exists s', steps (mk_image ex_load_code) 1 ex_lstate (pnth 1 (List.length ex_load_code)) s' /\
     st_eqB (abs_heap (HEAP_BASE + 192) s') (Heap.load HEAP_BASE (abs_heap (HEAP_BASE + 192) ex_lstate)) /\
     rget s' 5%N = Some 42 /\ rget s' 6%N = Some (HEAP_BASE + 64) /\ rget s' 7%N = Some 7 /\
     Heap.hdr (Heap.m (Heap.load HEAP_BASE (abs_heap (HEAP_BASE + 192) ex_lstate)) (HEAP_BASE + 64)) = 1.
Proof.
  eexists. split; [vm_compute; reflexivity|].
  destruct (mk_image_code_labels ex_load_code) as [HC HL]; [apply nodupb_sound; vm_compute; reflexivity|].
  assert (Hx : exists lc', x_load ex_store [] 0 = Ok (ex_load_code, lc')) by (eexists; vm_compute; reflexivity).
  destruct Hx as [lc' Hx].
  assert (W16 : hword ex_lstate (HEAP_BASE + 16) = 0) by (vm_compute; reflexivity).
  assert (W32 : hword ex_lstate (HEAP_BASE + 32) = 0) by (vm_compute; reflexivity).
  assert (W48 : hword ex_lstate (HEAP_BASE + 48) = HEAP_BASE + 64) by (vm_compute; reflexivity).
  assert (B0 : is_blk HEAP_BASE) by (exists 0; split; [lia|]; split; [reflexivity|]; vm_compute; easy).
  assert (B1 : is_blk (HEAP_BASE + 64)) by (exists 1; split; [lia|]; split; [reflexivity|]; vm_compute; easy).
  destruct (x86_load_one_block_ok (mk_image ex_load_code) 1 ex_store [] 0 ex_load_code lc' ex_lstate ex_sp HEAP_BASE (HEAP_BASE + 128)
              (HEAP_BASE + 192) Hx ltac:(cbn; lia) HC HL)
    as (s' & ST & EQ & V & _).
  - split; [vm_compute; reflexivity|]. repeat split; vm_compute; easy.
  - vm_compute; reflexivity.
  - exact B0.
  - vm_compute; reflexivity.
  - split; [|split; [|split]].
    + intros j Hj. assert (Hc : (j = 0 \/ j = 1 \/ j = 2)%N) by lia.
      destruct Hc as [->|[->| ->]]; rewrite ?fo_F0, ?fo_F1, ?fo_F2, ?W16, ?W32, ?W48; auto.
    + intros j Hj. cbn in Hj. assert (j = 0%N) by lia. subst j. rewrite fo_F0. exact W16.
    + intros i b Hi Hb. destruct i as [|[|[|i]]]; cbn in Hi; try discriminate; inversion Hi; subst b; cbn in Hb; try discriminate.
      cbn. exact W32.
    + intros x Hx'. unfold ex_lstate. rewrite !hword_hset by (vm_compute; reflexivity). rewrite !hword_rset.
      replace (hword (init_state []) x) with 0 by (unfold hword, init_state; cbn [heap]; now rewrite PM.gempty).
      unfold min_int, max_int, two63, HEAP_BASE.
      repeat match goal with |- context [?a =? ?b] => destruct (Z.eqb_spec a b) end; lia.
  - exists s'. split; [exact ST|]. split; [exact EQ|].
    destruct (V 0%nat _ eq_refl) as [V0 _]. destruct (V 1%nat _ eq_refl) as [V1 V1'].
    split; [exact V0|]. split; [apply V1'; discriminate|]. split; [exact V1|]. vm_compute; reflexivity.
Qed.

Print Assumptions x86_load_values_rev_ok.
Print Assumptions x86_load_one_block_ok.
Print Assumptions x86_load_one_block_example.
