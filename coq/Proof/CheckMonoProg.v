(* C15, program level, fragment without type parameters / type arguments:
   check (faithful or repaired) accepts only programs that satisfy the declarative rules. *)
From Coq Require Import List ZArith String Bool Permutation Lia.
From SCC Require Import Base.Sexp Lang.SynUtil Lang.FunSyn Model.Check Sem.FunTyping
  Proof.FunInd Proof.FunEq Proof.CheckAnn Proof.TypingReject Proof.CheckBuild Proof.CheckMono Proof.CheckMonoSound Proof.CheckDecls.
Import ListNotations.
Open Scope list_scope.

(* ---------- the world of a program of the fragment ---------- *)
Lemma in_tdecls : forall ds td, In td (tdecls ds) -> exists d, In d ds /\ tdecl_of d = Some td.
Proof.
  induction ds as [|d r IH]; simpl; intros td H; [destruct H|].
  destruct (tdecl_of d) as [t|] eqn:E.
  - destruct H as [<-|H]; [eauto|]. destruct (IH _ H) as [d' [? ?]]. eauto.
  - destruct (IH _ H) as [d' [? ?]]. eauto.
Qed.
Lemma in_fdefs : forall ds d, In d (fdefs ds) -> In (FDDef d) ds.
Proof.
  induction ds as [|x r IH]; simpl; intros d H; [destruct H|].
  destruct x; try (right; apply IH; assumption).
  destruct H as [<-|H]; [left; reflexivity|right; apply IH; assumption].
Qed.

Lemma mono_world_of_prog : forall p,
  mono_prog p = true -> names_ok (tdecls (fpdecls p)) (fdefs (fpdecls p)) = true ->
  mono_world (tdecls (fpdecls p)) (fdefs (fpdecls p)).
Proof.
  intros p Hm Hn. unfold mono_prog in Hm. rewrite forallb_forall in Hm.
  constructor; [assumption| | | |].
  - intros td Hin. destruct (in_tdecls _ _ Hin) as [d [Hd Ht]]. specialize (Hm d Hd).
    destruct d as [d|d|d]; simpl in Ht; inversion Ht; subst; simpl in *.
    + destruct (fdaparams d); [reflexivity|discriminate].
    + destruct (fcoparams d); [reflexivity|discriminate].
  - intros td s Hin Hs. destruct (in_tdecls _ _ Hin) as [d [Hd Ht]]. specialize (Hm d Hd).
    destruct d as [d|d|d]; simpl in Ht; inversion Ht; subst; simpl in *.
    + apply andb_true_iff in Hm. destruct Hm as [_ Hm]. rewrite forallb_forall in Hm.
      apply in_map_iff in Hs. destruct Hs as [c [<- Hc]]. simpl. split; [apply Hm; assumption|reflexivity].
    + apply andb_true_iff in Hm. destruct Hm as [_ Hm]. rewrite forallb_forall in Hm.
      apply in_map_iff in Hs. destruct Hs as [c [<- Hc]]. simpl. specialize (Hm c Hc).
      apply andb_true_iff in Hm. exact Hm.
  - intros d Hin. apply in_fdefs in Hin. specialize (Hm _ Hin). simpl in Hm.
    apply andb_true_iff in Hm. destruct Hm as [Hm _]. apply andb_true_iff in Hm. exact Hm.
  - intros td s Hin Hp Hs. destruct (in_tdecls _ _ Hin) as [d [Hd Ht]].
    destruct d as [d|d|d]; simpl in Ht; inversion Ht; subst; simpl in *; [discriminate|].
    apply in_map_iff in Hs. destruct Hs as [c [<- Hc]]. simpl. discriminate.
Qed.
Lemma mono_def_body : forall p d, mono_prog p = true -> In d (fdefs (fpdecls p)) -> mono_term (fdbody d) = true.
Proof.
  intros p d Hm Hin. unfold mono_prog in Hm. rewrite forallb_forall in Hm.
  apply in_fdefs in Hin. specialize (Hm _ Hin). simpl in Hm. apply andb_true_iff in Hm. tauto.
Qed.

(* ---------- declarations: Data::check / Codata::check ----------
   Proof/CheckDecls.v check_type_decls_ok (all programs; since fix eb42971 the declaration types are checked
   completely, so the lemma no longer needs the fragment) ---------- *)

(* ---------- definitions ---------- *)
Lemma ctx_no_dups_go_ok : forall c seen, ctx_no_dups_go seen c = COk tt ->
  nodup (map fbvar c) = true /\ forall x, In x (map fbvar c) -> ~ In x seen.
Proof.
  induction c as [|b r IH]; intros seen H; simpl in H; [split; [reflexivity|intros ? []]|].
  destruct (mem_name (fbvar b) seen) eqn:E; [destruct (fbchi b); discriminate|].
  apply IH in H. destruct H as [Hn Hs]. split.
  - simpl. rewrite Hn, andb_true_r. destruct (mem (fbvar b) (map fbvar r)) eqn:Em; [|reflexivity].
    apply mem_In in Em. exfalso. eapply Hs; [eassumption|left; reflexivity].
  - intros y [<-|Hy] Hin.
    + assert (mem (fbvar b) seen = true) by (apply mem_In; assumption). unfold mem_name, mem in *. congruence.
    + eapply Hs; [eassumption|right; assumption].
Qed.

Section Defs.
  Variable ts : list tdecl.
  Variable fs : list fdef.
  Hypothesis W : mono_world ts fs.

  Lemma ctx_check_sound : forall c st st', mono_ctx c = true -> tables ts fs st -> minv st ->
    ctx_check c st = COk st' ->
    forallb (fun b => wf_ty ts (fbty b)) c = true /\ minv st' /\ same_templates st st' /\ grows st st'.
  Proof.
    induction c as [|b r IH]; intros st st' Hm Tb I H; simpl in *.
    - inversion H; subst. auto using same_templates_refl, grows_refl.
    - apply andb_true_iff in Hm. destruct Hm as [Hb Hr].
      apply cbind_ok in H. destruct H as [st1 [H1 H]].
      destruct (ty_check_mono_sound ts fs (W_ret _ _ W) _ _ _ Hb Tb I H1) as [Hw [I1 [S1 [G1 _]]]].
      destruct (IH st1 st' Hr (tables_same _ _ _ _ Tb S1) I1 H) as [Hwr [I2 [S2 G2]]].
      rewrite Hw, Hwr. splits; eauto using same_templates_trans, grows_trans.
  Qed.

  (* def.rs, since fix 5b8c76f: the return type of `main` is compared with i64 *)
  Lemma main_ret_check_mono_sound : forall d st st', mono_ty (fdret d) = true -> tables ts fs st -> minv st ->
    main_ret_check d st = COk st' -> main_ret_ok d = true /\ minv st' /\ same_templates st st' /\ grows st st'.
  Proof.
    intros d st st' Hm Tb I H. unfold main_ret_check in H. unfold main_ret_ok.
    destruct (String.eqb (fdname d) "main").
    - destruct (check_equality_mono_sound ts fs (W_ret _ _ W) FI64 (fdret d) st st' eq_refl Hm Tb I H) as [E [_ [I' [S [G _]]]]].
      rewrite <- E. splits; auto.
    - inversion H; subst. splits; auto using same_templates_refl, grows_refl.
  Qed.

  Lemma def_check_gen_sound : forall eager d st d' st',
    mono_ctx (fdctx d) = true -> mono_ty (fdret d) = true -> mono_term (fdbody d) = true ->
    tables ts fs st -> minv st -> def_check_gen eager d st = COk (d', st') ->
    def_ok ts fs d = true /\ minv st' /\ same_templates st st'.
  Proof.
    intros eager d st d' st' Hmc Hmr Hmb Tb I H. unfold def_check_gen in H.
    apply cbind_ok in H. destruct H as [[] [Hnd H]].
    apply cbind_ok in H. destruct H as [st1 [H1 H]].
    apply cbind_ok in H. destruct H as [st2a [H2 H]].
    apply cbind_ok in H. destruct H as [st2 [H2m H]].
    apply cbind_ok in H. destruct H as [[body' st3] [H3 H]]. inversion H; subst.
    apply ctx_no_dups_go_ok in Hnd. destruct Hnd as [Hnd _].
    destruct (ctx_check_sound _ _ _ Hmc Tb I H1) as [Hwc [I1 [S1 G1]]].
    destruct (ty_check_mono_sound ts fs (W_ret _ _ W) _ _ _ Hmr (tables_same _ _ _ _ Tb S1) I1 H2) as [Hwr [I2a [S2a [G2a _]]]].
    assert (S02a : same_templates st st2a) by eauto using same_templates_trans.
    destruct (main_ret_check_mono_sound d st2a st2 Hmr (tables_same _ _ _ _ Tb S02a) I2a H2m) as [Hmain [I2 [S2 G2]]].
    assert (S02 : same_templates st st2) by eauto using same_templates_trans.
    destruct (check_term_gen_sound ts fs W (fdbody d) eager st2 (fdctx d) (fdret d) body' st' Hmb Hmc Hmr (tables_same _ _ _ _ Tb S02) I2 H3)
      as [K [I3 [S3 G3]]].
    unfold def_ok. unfold E in K. rewrite Hmain, Hnd, Hwc, Hwr, K. splits; eauto using same_templates_trans.
  Qed.

  Lemma check_defs_gen_sound : forall eager ds st ds' st',
    (forall d, In d ds -> mono_ctx (fdctx d) = true /\ mono_ty (fdret d) = true /\ mono_term (fdbody d) = true) ->
    tables ts fs st -> minv st -> check_defs_gen eager ds st = COk (ds', st') ->
    forallb (def_ok ts fs) ds = true.
  Proof.
    intros eager ds. induction ds as [|d r IH]; intros st ds' st' Hm Tb I H; [reflexivity|].
    simpl in H. apply cbind_ok in H. destruct H as [[d' st1] [H1 H]].
    apply cbind_ok in H. destruct H as [[r' st2] [H2 H]].
    destruct (Hm d (or_introl eq_refl)) as [Hc [Hr Hb]].
    destruct (def_check_gen_sound eager d st d' st1 Hc Hr Hb Tb I H1) as [Hd [I1 S1]].
    simpl. rewrite Hd. simpl. eapply IH; [|exact (tables_same _ _ _ _ Tb S1)|exact I1|exact H2].
    intros d0 Hd0. apply Hm. right. assumption.
  Qed.
End Defs.

Lemma defs_of_fdefs : forall ds, defs_of ds = fdefs ds.
Proof. induction ds as [|[d|d|d] r IH]; simpl; try rewrite IH; reflexivity. Qed.

(* ---------- the theorem ---------- *)
Theorem check_gen_sound_mono : forall eager p q,
  mono_prog p = true -> check_gen eager p = COk q -> has_type_b p = true.
Proof.
  intros eager p q Hm H. unfold check_gen in H.
  apply cbind_ok in H. destruct H as [st [Hb H]].
  destruct (build_symbol_table_spec p st Hb) as [Tb [Hn [Ht [Hc [Hd Hps]]]]].
  pose proof (mono_world_of_prog p Hm Hn) as W.
  unfold check_with_table_gen in H.
  apply cbind_ok in H. destruct H as [[] [Hdecls H]].
  apply cbind_ok in H. destruct H as [[defs st1] [Hdefs H]].
  unfold has_type_b. rewrite Hn. simpl.
  apply andb_true_iff. split.
  - unfold decls_ok. apply forallb_forall. intros td Hin. unfold tdecl_ok.
    destruct (Hps td Hin) as [Hp1 Hp2]. rewrite Hp1, Hp2. simpl.
    eapply check_type_decls_ok; try eassumption. intros td0 Hin0. exact (proj2 (Hps td0 Hin0)).
  - rewrite defs_of_fdefs in Hdefs.
    eapply check_defs_gen_sound; [exact W| |exact Tb|apply minv_start; assumption|exact Hdefs].
    intros d Hin. destruct (W_defs _ _ W d Hin). splits; auto. eapply mono_def_body; eassumption.
Qed.
