(* C03, semantic preservation, part 5: one transition of the source machine is matched by zero or
   more transitions of the focused program ([sim_step]), for every configuration related by [crel]
   that is not a kind clash. *)
From Coq Require Import List ZArith NArith String Bool Lia.
From SCC Require Import Base.Sexp Lang.CoreSyn Sem.AxSem Sem.CoreSem Model.Backend Model.Uniquify Model.Focus
     Model.FocusCheck Proof.FocusKont Proof.FocusRel Proof.FocusMono Proof.FocusSim Proof.FocusStep.
From SCC Require Import Model.FocusGuard.
Import ListNotations.
Open Scope list_scope.
Open Scope N_scope.

Ltac rinvn H a b E := apply rbind_ok in H; destruct H as ([a b] & E & H).
Ltac bsplit :=
  repeat match goal with
         | H : _ && _ = true |- _ => apply andb_true_iff in H; destruct H
         end.

Section Main.
Variables (ps qt : cprog) (M0 : N).
Hypothesis Hcod : forall ty, is_codata qt ty = is_codata ps ty.
Hypothesis Hdefs : forall f d, cfind_def ps f = Some d ->
  exists b' mc m2, focus_stmt (cdbody d) mc = Ok (b', m2) /\ M0 <= mc /\ ids_le_stmt M0 (cdbody d) = true /\
                   cfind_def qt f = Some (mkcd (cdname d) (cdctx d) (fs2c_stmt b')).

Notation V := (V ps M0).
Notation Vs := (Vs ps M0).
Notation env_rel := (env_rel ps M0).
Notation mk_rel := (mk_rel ps M0).
Notation kv_rel := (kv_rel ps M0).
Notation crel := (crel ps M0).
Notation tsteps := (tsteps qt).
Notation thalt := (thalt qt).
Notation sres_sim := (sres_sim ps qt M0).
Notation sres_rel := (sres_rel ps M0).

Definition fs_head (t : fsterm) : Prop := match t with FsXtor _ _ _ _ | FsOp _ _ _ => False | _ => True end.

Lemma cstep_cut_heads : forall p' q' ty e', fs_head p' -> fs_head q' ->
  cstep qt (Run (CCut (fs2c_term p') ty (fs2c_term q')) e') =
  match khead (fs2c_term q') e' with
  | inl kv => cut_with_k (is_codata qt ty) (fs2c_term p') e' kv
  | inr why => stuck why
  end.
Proof. intros p' q' ty e' Hp Hq. destruct p'; try contradiction; destruct q'; try contradiction; reflexivity. Qed.

Lemma sim_cut_heads : forall p k ty e p' q' e' mc m1 m2,
  focus_term CPrd p mc = Ok (p', m1) -> focus_term CCns k m1 = Ok (q', m2) -> M0 <= mc ->
  ids_le_term M0 p = true -> ids_le_term M0 k = true -> env_rel e e' ->
  match khead k e with inl kv => clash_cut (is_codata ps ty) p e kv | inr _ => false end = false ->
  sres_sim (match khead k e with inl kv => cut_with_k (is_codata ps ty) p e kv | inr why => stuck why end)
           (Run (CCut (fs2c_term p') ty (fs2c_term q')) e').
Proof.
  intros p k ty e p' q' e' mc m1 m2 FP FK L IP IK E CL.
  destruct (khead k e) as [kv|why] eqn:KH; [|exact I].
  pose proof (focus_term_mono _ _ _ _ _ FP) as Mp.
  destruct (khead_sim ps M0 _ _ _ _ _ _ _ FK ltac:(lia) IK E KH) as (kv' & KH' & HK).
  eapply sres_rel_sim; [|apply tsteps_refl|].
  2: { rewrite cstep_cut_heads by (eapply focus_term_shape; eauto). rewrite KH', Hcod. reflexivity. }
  eapply cut_with_k_sim; eauto.
Qed.

(* ---------- statements ---------- *)
Lemma sim_run : forall s e s' e' mc m2,
  focus_stmt s mc = Ok (s', m2) -> M0 <= mc -> ids_le_stmt M0 s = true -> env_rel e e' ->
  clash_config ps (Run s e) = false ->
  sres_sim (cstep ps (Run s e)) (Run (fs2c_stmt s') e').
Proof.
  intros s e s' e' mc m2 F L IS E CL.
  destruct s as [p ty k|so a b t el|nl a next|f args ty|a ty].
  - (* Cut *)
    simpl in IS. apply andb_true_iff in IS. destruct IS as [IP IK].
    assert (XP : forall pc px pargs pt, p = CXtor pc px pargs pt ->
                 sres_sim (cstep ps (Run (CCut p ty k) e)) (Run (fs2c_stmt s') e')).
    { intros pc px pargs pt ->. rewrite focus_cut_xtorP in F. simpl cstep. simpl in IP.
      eapply start_sim with (c := mc); eauto; try lia. apply KV_cutP; assumption. }
    assert (XK : forall qc qx qargs qt0, not_xtor p -> k = CXtor qc qx qargs qt0 ->
                 sres_sim (cstep ps (Run (CCut p ty k) e)) (Run (fs2c_stmt s') e')).
    { intros qc qx qargs qt0 NP ->. rewrite focus_cut_xtorK in F by exact NP. simpl in IK.
      replace (cstep ps (Run (CCut p ty (CXtor qc qx qargs qt0)) e))
        with (start_args ps qargs e (FinXtorK qx (MCutP (is_codata ps ty) p e)))
        by (destruct p; try contradiction; reflexivity).
      eapply start_sim with (c := mc); eauto; try lia. apply KV_cutK; assumption. }
    assert (XO : forall a o b, not_xtor k -> p = COp a o b ->
                 sres_sim (cstep ps (Run (CCut p ty k) e)) (Run (fs2c_stmt s') e')).
    { intros a o b NK ->. rewrite focus_cut_op in F by exact NK. simpl in IP. apply andb_true_iff in IP. destruct IP as [IA IB].
      replace (cstep ps (Run (CCut (COp a o b) ty k) e))
        with (SNext (Arg (CProducer a) e (MOpL o b e (MCutK k e))))
        by (destruct k; try contradiction; reflexivity).
      eexists. split; [apply tsteps_refl|].
      eapply CR_arg with (c := mc) (k := cutopL_k b o ty k); eauto; try lia.
      apply MR_cutopL; assumption. }
    assert (XH : head_prd p -> not_xtor k ->
                 sres_sim (cstep ps (Run (CCut p ty k) e)) (Run (fs2c_stmt s') e')).
    { intros HP NK. rewrite focus_cut_heads in F by assumption.
      rinvn F p' m1 FP. rinvn F q' m3 FK. okinv F.
      replace (cstep ps (Run (CCut p ty k) e))
        with (match khead k e with inl kv => cut_with_k (is_codata ps ty) p e kv | inr why => stuck why end)
        by (destruct p; try contradiction; destruct k; try contradiction; reflexivity).
      simpl fs2c_stmt. eapply sim_cut_heads; eauto.
      simpl in CL. destruct p; try contradiction; destruct k; try contradiction; exact CL. }
    destruct p; try (eapply XP; reflexivity);
      destruct k; try (eapply XK; [exact I|reflexivity]); try (eapply XO; [exact I|reflexivity]);
      apply XH; exact I.
  - (* IfC *)
    rewrite focus_ifc in F. simpl in IS. bsplit. simpl cstep.
    eexists. split; [apply tsteps_refl|].
    eapply CR_arg with (c := mc) (k := if1_k so b t el); eauto; try lia.
    apply MR_if1; assumption.
  - (* Print *)
    rewrite focus_print in F. simpl in IS. bsplit. simpl cstep.
    eexists. split; [apply tsteps_refl|].
    eapply CR_arg with (c := mc) (k := print_k nl next); eauto; try lia.
    apply MR_print; assumption.
  - (* Call *)
    rewrite focus_call in F. simpl in IS. simpl cstep.
    eapply start_sim with (c := mc); eauto; try lia. apply KV_call.
  - (* Exit *)
    rewrite focus_exit in F. simpl in IS. simpl cstep.
    eexists. split; [apply tsteps_refl|].
    eapply CR_arg with (c := mc) (k := exit_k); eauto; try lia.
    apply MR_exit.
Qed.

(* ---------- arguments: the `Bind` cases ---------- *)
Lemma sim_arg : forall a e m k c mc s' m2 e',
  bind_arg a k mc = Ok (s', m2) -> M0 <= c -> c <= mc -> ids_le_arg M0 a = true -> env_rel e e' ->
  mk_rel c m k e' ->
  sres_sim (cstep ps (Arg a e m)) (Run (fs2c_stmt s') e').
Proof.
  intros a e m k c mc s' m2 e' B L0 L1 IA E R.
  pose proof (mk_rel_kmono ps M0 _ _ _ _ R) as KM.
  destruct a as [t|t].
  - (* producers *)
    rewrite bind_arg_prd in B. simpl in IA.
    destruct t as [c0 v ty|n|a o b|c0 v s ty|c0 tag args ty|c0 cls ty].
    + (* variable *)
      rewrite bind_xvar in B. apply N.leb_le in IA. simpl cstep.
      destruct (clookup e v) as [[pv|kv]|] eqn:LK; try exact I.
      destruct (env_lookup_some ps M0 _ _ _ _ E IA LK) as (v' & LK' & HV).
      eexists. split; [apply tsteps_refl|].
      eapply CR_app with (c := c) (b := mkcb v CPrd ty); eauto; simpl; lia.
    + (* literal *)
      rewrite bind_lit in B. rinvn B s0 m3 K. okinv B. simpl cstep.
      eapply sres_rel_sim; [|apply tsteps_refl|simpl; reflexivity].
      eexists. split; [reflexivity|].
      eapply (crel_resume ps M0) with (b := mkcb ("x"%string, mc + 1) CPrd CI64) (c := c); eauto; simpl; try lia.
      constructor.
    + (* operator *)
      rewrite bind_op in B. apply andb_true_iff in IA. destruct IA as [IA IB]. simpl cstep.
      eexists. split; [apply tsteps_refl|].
      eapply CR_arg with (c := c) (k := opL_k b o k); eauto. apply MR_opL; assumption.
    + (* mu *)
      rewrite bind_mu_prd in B. rinvn B s1 ma FS. rinvn B sk m3 K. okinv B.
      apply andb_true_iff in IA. destruct IA as [_ IS].
      pose proof (focus_stmt_mono _ _ _ _ FS) as Ms.
      simpl cstep. destruct (is_codata ps ty) eqn:CD.
      * eapply sres_rel_sim; [|apply tsteps_refl|simpl; rewrite Hcod, CD; reflexivity].
        eexists. split; [reflexivity|].
        eapply (crel_resume ps M0) with (b := mkcb ("x"%string, mc + 1) CPrd ty) (c := c); eauto; simpl; try lia.
        eapply V_thunk; eauto. lia.
      * eapply sres_rel_sim; [|apply tsteps_refl|simpl; rewrite Hcod, CD; reflexivity].
        eexists. split; [reflexivity|].
        eapply CR_run; eauto; try lia. apply ER_both; [|assumption].
        eapply V_ret with (b := mkcb ("x"%string, mc + 1) CPrd ty) (c := c); eauto; simpl; lia.
    + (* constructor *)
      rewrite bind_xtor_prd in B. simpl cstep.
      eapply start_sim with (c := c); eauto. apply KV_xtorP; assumption.
    + (* cocase *)
      rewrite bind_xcase_prd in B. rinvn B sk mb K. rinvn B cls' m3 FC. okinv B.
      pose proof (KM _ _ _ _ K) as Mk.
      simpl cstep.
      eapply sres_rel_sim; [|apply tsteps_refl|simpl; reflexivity].
      eexists. split; [reflexivity|].
      eapply (crel_resume ps M0) with (b := mkcb ("x"%string, mc + 1) CPrd ty) (c := c); eauto; simpl; try lia.
      eapply V_cocase; eauto. lia.
  - (* consumers *)
    rewrite bind_arg_cns in B. simpl in IA.
    destruct t as [c0 v ty|n|a o b|c0 v s ty|c0 tag args ty|c0 cls ty]; try discriminate.
    + (* covariable *)
      rewrite bind_xvar in B. apply N.leb_le in IA. simpl cstep.
      destruct (clookup e v) as [[pv|kv]|] eqn:LK; try exact I.
      destruct (env_lookup_some ps M0 _ _ _ _ E IA LK) as (v' & LK' & HV).
      eexists. split; [apply tsteps_refl|].
      eapply CR_app with (c := c) (b := mkcb v CCns ty); eauto; simpl; lia.
    + (* mu~ *)
      rewrite bind_mu_cns in B. rinvn B sk mb K. rinvn B s1 m3 FS. okinv B.
      apply andb_true_iff in IA. destruct IA as [_ IS].
      pose proof (KM _ _ _ _ K) as Mk.
      simpl cstep. destruct (is_codata ps ty) eqn:CD.
      * eapply sres_rel_sim; [|apply tsteps_refl|simpl; rewrite Hcod, CD; reflexivity].
        eexists. split; [reflexivity|].
        eapply CR_run; eauto; try lia. apply ER_both; [|assumption].
        eapply V_delay with (b := mkcb ("a"%string, mc + 1) CCns ty) (c := c); eauto; simpl; lia.
      * eapply sres_rel_sim; [|apply tsteps_refl|simpl; rewrite Hcod, CD; reflexivity].
        eexists. split; [reflexivity|].
        eapply (crel_resume ps M0) with (b := mkcb ("a"%string, mc + 1) CCns ty) (c := c); eauto; simpl; try lia.
        eapply V_mut; eauto. lia.
    + (* destructor *)
      rewrite bind_xtor_cns in B. simpl cstep.
      eapply start_sim with (c := c); eauto. apply KV_xtorK; assumption.
    + (* case *)
      rewrite bind_xcase_cns in B. rinvn B sk mb K. rinvn B cls' m3 FC. okinv B.
      pose proof (KM _ _ _ _ K) as Mk.
      simpl cstep.
      eapply sres_rel_sim; [|apply tsteps_refl|simpl; destruct (is_codata qt ty); reflexivity].
      eexists. split; [reflexivity|].
      eapply (crel_resume ps M0) with (b := mkcb ("a"%string, mc + 1) CCns ty) (c := c); eauto; simpl; try lia.
      eapply V_case; eauto. lia.
Qed.

(* ---------- a value arrives at a machine continuation ---------- *)
Lemma as_int_some : forall v x, as_int v = Some x -> v = BP (PInt x).
Proof. intros [[]|] x H; simpl in H; try discriminate. congruence. Qed.
Lemma V_int_inv : forall x v', V (BP (PInt x)) v' -> v' = BP (PInt x).
Proof. intros x v' H. inversion H. reflexivity. Qed.
Lemma fs_head_not_xtor : forall t, fs_head t -> not_xtor (fs2c_term t).
Proof. intros t H. destruct t; try contradiction; exact I. Qed.

Lemma sim_app : forall m v k b c mc sk m2 e' v',
  k b mc = Ok (sk, m2) -> M0 <= c -> c <= mc -> cid_id (cbvar b) <= mc ->
  clookup e' (cbvar b) = Some v' -> V v v' -> bkind v = cbchi b -> mk_rel c m k e' ->
  sres_sim (cstep ps (App m v)) (Run (fs2c_stmt sk) e').
Proof.
  intros m v k b c mc sk m2 e' v' K L0 L1 LB LK HV HB R.
  inversion R; subst.
  - (* MOpL *)
    simpl cstep. destruct (as_int v) as [x|] eqn:AI; [|exact I].
    apply as_int_some in AI. subst v. apply V_int_inv in HV. subst v'.
    unfold opL_k in K. eexists. split; [apply tsteps_refl|].
    eapply CR_arg with (c := mc) (k := opR_k b o k0); eauto; try lia.
    apply MR_opR; [assumption | lia |]. eapply mk_rel_mono; eauto.
  - (* MOpR *)
    unfold opR_k in K. simpl in K. rinvn K s0 m3 K0. okinv K.
    simpl cstep. destruct (as_int v) as [y|] eqn:AI; [|exact I].
    apply as_int_some in AI. subst v. apply V_int_inv in HV. subst v'.
    pose proof (t_op qt e' (cbvar b1) (cbvar b) x y o CI64 (CMu CCns ("x"%string, mc + 1) (fs2c_stmt s0) CI64) I H LK) as T.
    destruct (eval_op (ax_binop o) x y) as [z|w] eqn:EO.
    + eapply sres_rel_sim with
        (c1' := App (MCutK (CMu CCns ("x"%string, mc + 1) (fs2c_stmt s0) CI64) e') (BP (PInt z))).
      2: { eapply tsteps_trans0; [exact T|]. eapply tsteps_next; [simpl; rewrite EO; reflexivity | apply tsteps_refl]. }
      2: { simpl. reflexivity. }
      eexists. split; [reflexivity|].
      eapply (crel_resume ps M0) with (b := mkcb ("x"%string, mc + 1) CPrd CI64) (c := c); eauto; simpl; try lia.
      constructor.
    + simpl. eapply thalt_steps; [exact T|]. apply thalt_now. simpl. rewrite EO. reflexivity.
  - (* MOpL, operator of a cut *)
    simpl cstep. destruct (as_int v) as [x|] eqn:AI; [|exact I].
    apply as_int_some in AI. subst v. apply V_int_inv in HV. subst v'.
    unfold cutopL_k in K. eexists. split; [apply tsteps_refl|].
    eapply CR_arg with (c := mc) (k := cutopR_k b o ty q); eauto; try lia.
    apply MR_cutopR; try assumption; lia.
  - (* MOpR, operator of a cut *)
    unfold cutopR_k in K. rinvn K q' m3 FK. okinv K.
    simpl cstep. destruct (as_int v) as [y|] eqn:AI; [|exact I].
    apply as_int_some in AI. subst v. apply V_int_inv in HV. subst v'.
    pose proof (focus_term_shape _ _ _ _ _ FK) as SH.
    pose proof (t_op qt e' (cbvar b1) (cbvar b) x y o ty (fs2c_term q') (fs_head_not_xtor _ SH) H LK) as T.
    destruct (eval_op (ax_binop o) x y) as [z|w] eqn:EO.
    + eapply sres_rel_sim; [|exact T|simpl; rewrite EO; reflexivity].
      eexists. split; [reflexivity|]. eapply CR_cutK; eauto; try lia. constructor.
    + simpl. eapply thalt_steps; [exact T|]. apply thalt_now. simpl. rewrite EO. reflexivity.
  - (* MIf1 *)
    simpl cstep. destruct (as_int v) as [x|] eqn:AI; [|exact I].
    apply as_int_some in AI. subst v. apply V_int_inv in HV. subst v'.
    unfold if1_k in K. destruct b0 as [t2|].
    + eexists. split; [apply tsteps_refl|].
      eapply CR_arg with (c := mc) (k := if2_k so b t el); eauto; try lia.
      apply MR_if2; try assumption; lia.
    + rinvn K t' m3 FT. rinvn K el' m4 FE. okinv K.
      pose proof (focus_stmt_mono _ _ _ _ FT) as Mt.
      eexists. split; [apply (t_if1 qt); exact LK|].
      destruct (eval_cmp (ax_ifsort so) x 0); eapply CR_run; eauto; lia.
  - (* MIf2 *)
    unfold if2_k in K. rinvn K t' m3 FT. rinvn K el' m4 FE. okinv K.
    simpl cstep. destruct (as_int v) as [y|] eqn:AI; [|exact I].
    apply as_int_some in AI. subst v. apply V_int_inv in HV. subst v'.
    pose proof (focus_stmt_mono _ _ _ _ FT) as Mt.
    eexists. split; [apply (t_if2 qt); [exact H | exact LK]|].
    destruct (eval_cmp (ax_ifsort so) x y); eapply CR_run; eauto; lia.
  - (* MPrint *)
    unfold print_k in K. rinvn K n' m3 FN. okinv K.
    simpl cstep. destruct (as_int v) as [z|] eqn:AI; [|exact I].
    apply as_int_some in AI. subst v. apply V_int_inv in HV. subst v'.
    eexists. split; [apply (t_print qt); exact LK|]. eapply CR_run; eauto; lia.
  - (* MExit *)
    unfold exit_k in K. okinv K.
    simpl cstep. destruct (as_int v) as [z|] eqn:AI; [|exact I].
    apply as_int_some in AI. subst v. apply V_int_inv in HV. subst v'.
    simpl. apply (t_exit qt). exact LK.
  - (* MArgs *)
    unfold many_k in K. destruct rest as [|a r].
    + rewrite bind_many_nil in K. unfold cons_kv in K. simpl cstep.
      destruct (kv_unwind ps M0 _ _ _ _ _ H1) as (bs0 & vs0' & kvf & EQ & LKS & VR & FR).
      rewrite EQ in K.
      eapply finish_sim with (c := c) (bs := bs0 ++ [b]) (vs' := vs0' ++ [v']); eauto.
      * apply Forall2_app; [exact LKS|]. constructor; [|constructor]. split; [exact LK|].
        rewrite (V_kind _ _ _ _ HV). exact HB.
      * rewrite rev_append_rev. simpl. rewrite ?app_nil_r. apply Vs_app; [exact VR|].
        constructor; [exact HV|constructor].
    + rewrite bind_many_cons in K. simpl cstep. simpl in H0. apply andb_true_iff in H0. destruct H0 as [IA IR].
      eexists. split; [apply tsteps_refl|].
      eapply CR_arg with (c := mc) (k := many_k r (cons_kv b kv)); eauto; try lia.
      apply MR_args; try assumption.
      eapply KV_cons; eauto. eapply kv_rel_mono; eauto.
Qed.

(* ---------- the two remaining configurations: a cut whose xtor/operator side is evaluated ---------- *)
Lemma sim_cutK : forall q e q' e' mc m2 pv pv',
  focus_term CCns q mc = Ok (q', m2) -> M0 <= mc -> ids_le_term M0 q = true -> env_rel e e' ->
  V (BP pv) (BP pv') -> clash_config ps (App (MCutK q e) (BP pv)) = false ->
  sres_sim (cstep ps (App (MCutK q e) (BP pv))) (App (MCutK (fs2c_term q') e') (BP pv')).
Proof.
  intros q e q' e' mc m2 pv pv' F L IQ E HP CL. simpl cstep. simpl in CL.
  destruct (khead q e) as [kv|why] eqn:KH; [|exact I].
  destruct (khead_sim ps M0 _ _ _ _ _ _ _ F L IQ E KH) as (kv' & KH' & HK).
  eapply sres_rel_sim; [|apply tsteps_refl|simpl; rewrite KH'; reflexivity].
  apply interact_val_sim; assumption.
Qed.

Lemma sim_cutP : forall cd p e p' e' mc m2 kv kv',
  focus_term CPrd p mc = Ok (p', m2) -> M0 <= mc -> ids_le_term M0 p = true -> env_rel e e' ->
  V (BK kv) (BK kv') -> clash_config ps (App (MCutP cd p e) (BK kv)) = false ->
  sres_sim (cstep ps (App (MCutP cd p e) (BK kv))) (App (MCutP cd (fs2c_term p') e') (BK kv')).
Proof.
  intros cd p e p' e' mc m2 kv kv' F L IP E HK CL. simpl cstep. simpl in CL.
  eapply sres_rel_sim; [|apply tsteps_refl|simpl; reflexivity].
  eapply cut_with_k_sim; eauto.
Qed.

(* ---------- one source transition ---------- *)
Theorem sim_step : forall c c', crel c c' -> clash_config ps c = false -> sres_sim (cstep ps c) c'.
Proof.
  intros c c' R CL. inversion R; subst.
  - eapply sim_run; eauto.
  - eapply sim_arg; eauto.
  - eapply sim_app; eauto.
  - eapply sim_cutK; eauto.
  - eapply sim_cutP; eauto.
Qed.

End Main.
