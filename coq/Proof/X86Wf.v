(* C14 lemmas for the x86-64 back end: the jump-table stride, and encodability of everything the
   instruction-selection functions of the model emit, for all operands. *)
From Coq Require Import List ZArith NArith String Bool Lia FMapPositive.
From SCC Require Import Base.Sexp Lang.AxSyn Model.Backend Model.X86 Sem.X86Sem Sem.X86Wf Generated.Constants Proof.X86State.
Import ListNotations.
Open Scope Z_scope.

(* ---------- jump tables: entry k lies jump_length k bytes after the table label ---------- *)
(* addresses assigned by the image builder to a run of `jmp near` entries *)
Fixpoint addrs (cs : list xcode) (a : Z) : list Z :=
  match cs with [] => [] | c :: r => a :: addrs r (a + isize c) end.
Lemma addrs_table (ls : list string) (a : Z) (k : nat) :
  (k < List.length ls)%nat ->
  nth k (addrs (map JMPLN ls) a) 0 = a + jump_length (N.of_nat k).
Proof.
  revert a k; induction ls as [|l ls IH]; intros a k Hk; cbn [List.length] in Hk; [lia|].
  destruct k as [|k]; cbn [map addrs nth].
  - unfold jump_length; cbn; lia.
  - rewrite IH by lia. unfold jump_length. cbn [isize]. lia.
Qed.
(* the image builder records exactly these addresses *)
Lemma build_addr_of cs : forall i a im,
  (forall j, (i <= j)%positive -> PM.find j (addr_of im) = None) ->
  forall k, (k < List.length cs)%nat ->
    PM.find (Pos.of_nat (Pos.to_nat i + k)) (addr_of (build cs i a im)) = Some (nth k (addrs cs a) 0).
Proof.
  induction cs as [|c cs IH]; intros i a im Hfresh k Hk; cbn [List.length] in Hk; [lia|].
  cbn [build addrs].
  set (im' := {| code := _; addr_of := PM.add i a (addr_of im); index_at := _; labels := _; len := i |}).
  destruct k as [|k].
  - rewrite Nat.add_0_r, Pos2Nat.id. cbn [nth].
    (* the entry for i is written now and never overwritten by later indices *)
    assert (G : forall cs' j b im0, (i < j)%positive -> PM.find i (addr_of (build cs' j b im0)) = PM.find i (addr_of im0)).
    { induction cs' as [|c' cs' IH']; intros j b im0 Hj; cbn [build]; [reflexivity|].
      rewrite IH' by lia. cbn [addr_of]. apply PM.gso. lia. }
    rewrite G by lia. subst im'; cbn [addr_of]. apply PM.gss.
  - replace (Pos.of_nat (Pos.to_nat i + S k)) with (Pos.of_nat (Pos.to_nat (Pos.succ i) + k)) by (f_equal; lia).
    cbn [nth]. apply IH; [|lia].
    intros j Hj. subst im'; cbn [addr_of]. rewrite PM.gso by lia. apply Hfresh. lia.
Qed.

(* ---------- encodability of selected instructions ---------- *)
Definition temp_enc (t : xtemp) : Prop :=
  match t with XR r => (r < 16)%N | XS p => (p < SPILL_NUM)%N end.

Lemma stack_offset_fits p : (p < SPILL_NUM)%N -> fits32 (stack_offset p) = true.
Proof.
  intros H. unfold fits32, stack_offset. change SPILL_SPACE with 2048.
  assert (0 <= Z.of_N p < 256) by (change SPILL_NUM with 256%N in H; lia).
  apply andb_true_iff; split; apply Z.leb_le; lia.
Qed.

Ltac enc :=
  repeat match goal with
  | |- Forall _ (_ ++ _) => apply Forall_app; split
  | |- Forall _ (_ :: _) => constructor
  | |- Forall _ [] => constructor
  end;
  cbn [instr_wf]; rewrite ?stack_offset_fits by assumption;
  repeat (apply andb_true_iff; split); try reflexivity;
  try (apply N.ltb_lt; first [assumption | (vm_compute; reflexivity)]).

Lemma arith_encodable o t s1 s2 :
  o <> Prod \/ (forall p, t <> XS p \/ (t <> s1 /\ t <> s2)) ->
  temp_enc t -> temp_enc s1 -> temp_enc s2 ->
  Forall (fun c => instr_wf c = true) (x_arith o t s1 s2).
Proof.
  intros NP T S1 S2.
  destruct o; cbn [x_arith]; unfold x_div, x_rem, op_commutative, sub, div_core;
    destruct t as [tr|tp], s1 as [r1|p1], s2 as [r2|p2]; cbn [temp_enc] in *;
    repeat match goal with |- context [xtemp_eqb ?a ?b] => destruct (xtemp_eqb a b) eqn:? end;
    repeat match goal with |- context [N.eqb ?a ?b] => destruct (N.eqb a b) eqn:? end;
    cbn [move_to_register move_from_register add_to_register add_to_spill mul_to_register mul_to_spill
         sub_to_register sub_to_spill app];
    try solve [enc].
  (* what remains are the two `imul [mem], reg` forms: target spill slot aliasing an operand *)
  all: exfalso; destruct NP as [NP|NP]; [congruence|];
    match goal with
    | H : xtemp_eqb (XS ?a) ?b = true |- _ =>
        destruct (NP a) as [NP'|[NP1 NP2]]; [congruence|];
        cbn in H; try discriminate; apply N.eqb_eq in H; subst; congruence
    end.
Qed.

Lemma load_immediate_encodable t i :
  temp_enc t -> (-9223372036854775808 <= i <= 9223372036854775807) ->
  Forall (fun c => instr_wf c = true) (x_load_immediate t i).
Proof.
  intros T R. unfold x_load_immediate. destruct t as [r|p]; cbn [temp_enc] in T.
  - enc; apply Z.leb_le; lia.
  - destruct (fits_i32 i) eqn:F.
    + constructor; [|constructor]. cbn [instr_wf]. rewrite stack_offset_fits by assumption.
      change (fits32 i) with (fits_i32 i). rewrite F. reflexivity.
    + enc; apply Z.leb_le; lia.
Qed.

Lemma mov_encodable t s : temp_enc t -> temp_enc s -> Forall (fun c => instr_wf c = true) (x_mov t s).
Proof.
  intros T S. unfold x_mov. destruct s as [sr|sp], t as [tr|tp]; cbn [temp_enc] in *;
    cbn [move_to_register move_from_register app]; enc.
Qed.

Lemma compare_encodable a b : temp_enc a -> temp_enc b -> Forall (fun c => instr_wf c = true) (compare a b).
Proof. intros A B. destruct a, b; cbn [temp_enc compare] in *; enc. Qed.

(* ================= C13: the calling convention, arithmetically =================
   sp_delta: the net change of rsp caused by a straight-line instruction list *)
Definition sp_delta1 (c : xcode) : Z :=
  match c with
  | PUSH _ => -8 | POP _ => 8
  | SUBI r i => if N.eqb r STACK then - i else 0
  | ADDI r i => if N.eqb r STACK then i else 0
  | _ => 0
  end.
Definition sp_delta (cs : list xcode) : Z := fold_right (fun c acc => sp_delta1 c + acc) 0 cs.
Lemma sp_delta_cons c l : sp_delta (c :: l) = sp_delta1 c + sp_delta l.
Proof. reflexivity. Qed.
Lemma sp_delta_app a b : sp_delta (a ++ b) = sp_delta a + sp_delta b.
Proof.
  induction a as [|c a IH]; [reflexivity|].
  change (sp_delta ((c :: a) ++ b)) with (sp_delta1 c + sp_delta (a ++ b)).
  change (sp_delta (c :: a)) with (sp_delta1 c + sp_delta a). rewrite IH. lia.
Qed.

Lemma sp_delta_movs {X} (f : X -> xcode) (l : list X) :
  (forall x, sp_delta1 (f x) = 0) -> sp_delta (map f l) = 0.
Proof. intros H. induction l as [|x l IH]; cbn [map sp_delta fold_right]; [reflexivity|]. fold (sp_delta (map f l)). rewrite H, IH. reflexivity. Qed.
Lemma sp_delta_push l : sp_delta (map PUSH l) = -8 * Z.of_nat (List.length l).
Proof. induction l as [|x l IH]; cbn [map sp_delta fold_right List.length]; [reflexivity|]. fold (sp_delta (map PUSH l)). rewrite IH. cbn [sp_delta1]. lia. Qed.
Lemma sp_delta_pop l : sp_delta (map POP l) = 8 * Z.of_nat (List.length l).
Proof. induction l as [|x l IH]; cbn [map sp_delta fold_right List.length]; [reflexivity|]. fold (sp_delta (map POP l)). rewrite IH. cbn [sp_delta1]. lia. Qed.

Lemma even_pad_mod16 (k : nat) : (-8 * Z.of_nat k + (if Nat.even k then -8 else 0)) mod 16 = 8.
Proof.
  destruct (Nat.even k) eqn:E.
  - apply Nat.even_spec in E as (h & ->). replace (-8 * Z.of_nat (2 * h) + -8) with (8 + (- Z.of_nat h - 1) * 16) by lia.
    rewrite Z.mod_add by lia. reflexivity.
  - assert (O : Nat.odd k = true) by (rewrite <- Nat.negb_even, E; reflexivity).
    apply Nat.odd_spec in O as (h & ->). replace (-8 * Z.of_nat (2 * h + 1) + 0) with (8 + (- Z.of_nat h - 1) * 16) by lia.
    rewrite Z.mod_add by lia. reflexivity.
Qed.

(* with rsp = 8 mod 16 in the body (see body_alignment below), rsp = 0 mod 16 at the call, for
   EVERY context: any number of live variables of any kinds *)
Theorem save_caller_save_alignment fb regs :
  sp_delta (save_caller_save_registers fb regs) mod 16 = 8.
Proof.
  unfold save_caller_save_registers. rewrite !sp_delta_app.
  rewrite sp_delta_movs by (intros [a b]; reflexivity). rewrite sp_delta_push.
  rewrite skipn_length.
  set (k := (List.length regs - backup_used fb regs)%nat).
  replace (sp_delta (if Nat.even k then [SUBI STACK (address 1)] else [])) with (if Nat.even k then -8 else 0)
    by (destruct (Nat.even k); reflexivity).
  rewrite Z.add_0_l. apply even_pad_mod16.
Qed.
Theorem save_restore_balanced fb regs :
  sp_delta (save_caller_save_registers fb regs) + sp_delta (restore_caller_save_registers fb regs) = 0.
Proof.
  unfold save_caller_save_registers, restore_caller_save_registers. rewrite !sp_delta_app.
  rewrite (sp_delta_movs (fun or_ : N * N => MOV (fb + fst or_)%N (snd or_))) by (intros [a b]; reflexivity).
  rewrite (sp_delta_movs (fun or_ : N * N => MOV (snd or_) (fb + fst or_)%N)) by (intros [a b]; reflexivity).
  rewrite sp_delta_push, sp_delta_pop, rev_length.
  set (k := (List.length regs - backup_used fb regs)%nat).
  replace (sp_delta (if Nat.even k then [SUBI STACK (address 1)] else [])) with (if Nat.even k then -8 else 0)
    by (destruct (Nat.even k); reflexivity).
  replace (sp_delta (if Nat.even k then [ADDI STACK (address 1)] else [])) with (if Nat.even k then 8 else 0)
    by (destruct (Nat.even k); reflexivity).
  match goal with |- context [-8 * Z.of_nat ?a + _] =>
    match goal with |- context [8 * Z.of_nat ?b] => change b with a end end.
  generalize (Nat.even k); intros []; lia.
Qed.
(* the registers popped after the call are the pushed ones, in reverse order; the register-to-register
   backups are undone pairwise *)
Theorem restore_mirrors_save fb regs :
  let used := backup_used fb regs in
  exists movs_out movs_back pad_out pad_back,
    save_caller_save_registers fb regs = movs_out ++ map PUSH (skipn used regs) ++ pad_out /\
    restore_caller_save_registers fb regs = movs_back ++ pad_back ++ map POP (rev (skipn used regs)) /\
    movs_back = map (fun c => match c with MOV a b => MOV b a | c => c end) movs_out.
Proof.
  cbv zeta. unfold save_caller_save_registers, restore_caller_save_registers.
  eexists _, _, _, _. split; [reflexivity|]. split; [reflexivity|].
  rewrite map_map. apply map_ext. intros [a b]. reflexivity.
Qed.

(* prologue / epilogue *)
Theorem body_alignment n cs : setup n = Ok cs -> sp_delta cs mod 16 = 0.
Proof.
  unfold setup, rbind. destruct (move_arguments n) as [ma|] eqn:M; [|discriminate].
  intros E; injection E as <-. rewrite !sp_delta_cons.
  assert (sp_delta ma = 0) as ->.
  { clear - M. revert ma M. induction n as [|m IH]; cbn [move_arguments]; intros ma M.
    - injection M as <-. reflexivity.
    - destruct (Nat.ltb 5 (S m)); [discriminate|]. destruct (move_arguments m) as [r|]; cbn [rbind] in M; [|discriminate].
      injection M as <-. cbn [app sp_delta fold_right sp_delta1]. fold (sp_delta r). rewrite (IH r eq_refl). reflexivity. }
  vm_compute. reflexivity.
Qed.
Theorem prologue_epilogue_balanced n cs :
  setup n = Ok cs -> sp_delta cs + sp_delta (removelast cleanup) = 0.
Proof.
  unfold setup, rbind. destruct (move_arguments n) as [ma|] eqn:M; [|discriminate].
  intros E; injection E as <-. rewrite !sp_delta_cons.
  assert (sp_delta ma = 0) as ->.
  { clear - M. revert ma M. induction n as [|m IH]; cbn [move_arguments]; intros ma M.
    - injection M as <-. reflexivity.
    - destruct (Nat.ltb 5 (S m)); [discriminate|]. destruct (move_arguments m) as [r|]; cbn [rbind] in M; [|discriminate].
      injection M as <-. cbn [app sp_delta fold_right sp_delta1]. fold (sp_delta r). rewrite (IH r eq_refl). reflexivity. }
  vm_compute. reflexivity.
Qed.
(* the epilogue pops exactly the callee-saved registers the prologue pushed, in reverse order *)
Theorem epilogue_restores_callee_saved :
  flat_map (fun c => match c with POP r => [r] | _ => [] end) cleanup =
  rev (flat_map (fun c => match c with PUSH r => [r] | _ => [] end)
         (match setup 0 with Ok cs => cs | Err _ => [] end)) /\
  flat_map (fun c => match c with PUSH r => [r] | _ => [] end) (match setup 0 with Ok cs => cs | Err _ => [] end)
  = Sem.X86Sem.callee_saved.
Proof. split; vm_compute; reflexivity. Qed.
