(* Proof/ShrinkExample2Ok.v - the hypotheses of C04_shrink_correct_fragment2 hold of the real focused
   program of Proof/ShrinkExample2.v (data, codata, continuations, recursion, two lifted statements);
   both machines are run on it by vm_compute. *)
From Coq Require Import List ZArith NArith String Bool.
From SCC Require Import Sem.FsFrag2 Base.Sexp Lang.CoreSyn Lang.AxSyn Sem.FsCheck Sem.AxCheck Sem.AxSem Model.Shrink Model.WtDefs
     Proof.ShrinkSimProg Proof.ShrinkTyProg Proof.ShrinkExample2.
From SCC Require Sem.CoreSem.
Import ListNotations.
Local Open Scope Z_scope.

Definition frag2_expected (n : Z) : obs :=
  ([(false, 7); (true, if Z.eqb n 0 then 0 else n + 1); (true, 2); (false, 5);
    (false, if Z.eqb n 0 then 3 else 4); (false, if Z.eqb n 0 then 3 else 4);
    (true, if Z.eqb n 0 then -1 else n - 4)], OExit 0).

Example frag2_example_ok :
  match frag2_focused with
  | Some p =>
      match shrink_prog p with
      | SOk q =>
          frag2_prog p && decls_ok p && wt_fs p && unique_binders p && ids_bounded p && wt_ax q
          && Nat.eqb (List.length (filter (fun d => is_lifted_name (dname d)) (pdefs q))) 2
          && existsb (fun t => negb (Nat.eqb (List.length (txtors t)) 0)) (ptypes q)
          && obs_eqb (CoreSem.run_fs 3000 p [0]) (frag2_expected 0) && obs_eqb (run_named 1000 q [0]) (frag2_expected 0)
          && obs_eqb (CoreSem.run_fs 3000 p [3]) (frag2_expected 3) && obs_eqb (run_named 1000 q [3]) (frag2_expected 3)
      | SErr _ => false
      end
  | None => false
  end = true.
Proof. vm_compute. reflexivity. Qed.
