(* C19, fun2core: the size of the translation of ONE definition body (wc / cmp), every term form, no
   fragment.  For a list U of bindings containing the typed occurrences of the term,
       L = |U| + 2,   Q = 6 + (2 + k) * L,
       |wc t cont| + lifted + 2 <= Q * |t| + |cont|        |cmp t ty| + lifted <= Q * |t|
   in the measure cz k of Core (k = weight of a clause-context entry) and fz k of Fun.
   Why it is linear in |t|: a continuation is used twice or more only by `if` and multi-clause `case`,
   and then it is either small (<= 3 nodes) or replaced by `share` with a call of size 2 + n, n = the
   number of free bindings of the continuation (+1), which is at most L by the free-variable inclusion
   (Proof/SizeFun2CoreFv.v) and the duplicate-freeness of typed_free_vars; the lifted definition costs
   the continuation once more plus its n parameters. *)
From Coq Require Import List ZArith NArith String Bool Lia Sorted.
From SCC Require Import Base.Sexp Lang.SynUtil Lang.FunSyn Lang.FunTy Lang.CoreSyn Lang.AxSize.
From SCC Require Import Model.Fun2Core Model.SizeFun Proof.Fun2CoreProof Proof.Fun2CoreTfv Proof.Fun2CoreInv
     Proof.SizeLin Proof.SizeGen Proof.SizeFun2CoreFv.
Import ListNotations.
Open Scope string_scope.
Open Scope list_scope.
Open Scope N_scope.
Local Arguments N.add : simpl never.
Local Arguments N.mul : simpl never.
Local Arguments len : simpl never.

Lemma bsorted_NoDup : forall s, bsorted s -> NoDup s.
Proof.
  intros s H. induction H as [|a r Hr IH Hall]; constructor; [|exact IH].
  intros Hin. rewrite Forall_forall in Hall. exact (blt_irrefl a (Hall a Hin)).
Qed.
Lemma fvs_len : forall s (l : list cbinding), incl (fvs s) l -> len (fvs s) <= len l.
Proof.
  intros s l H. pose proof (NoDup_incl_length (bsorted_NoDup _ (fvs_sorted s)) H). unfold len. lia.
Qed.
Lemma flat_map_incl : forall {X Y} (f : X -> list Y) l U, incl (flat_map f l) U -> Forall (fun y => incl (f y) U) l.
Proof.
  intros X Y f l U. induction l as [|y r IH]; intros H; constructor.
  - intros z Hz. apply H. simpl. apply in_or_app. left. exact Hz.
  - apply IH. intros z Hz. apply H. simpl. apply in_or_app. right. exact Hz.
Qed.
Lemma nsum_cons : forall {X} (f : X -> N) x r, nsum f (x :: r) = f x + nsum f r.
Proof. reflexivity. Qed.

Section SZ.
  Variable codata : list ctydecl.
  Variable cur : string.
  Variable k : N.
  Variable U : list cbinding.
  Notation wc' := (wc codata cur false).
  Notation cmp' := (cmp codata cur false).
  Notation zt := (cz_term k).
  Notation za := (cz_arg k).
  Notation zc := (cz_clause k).
  Notation zs := (cz_stmt k).

  Definition L : N := len U + 2.
  Definition kL : N := k * L.
  Definition Q : N := 6 + 2 * L + kL.
  Definition lz (st : cstate) : N := cz_defs k (st_lifted st).
  Definition P (t : fterm) : N := fz k t * Q.
  Definition PL (l : list fterm) : N := nsum (fz k) l * Q.
  Definition PC (l : list fclause) : N := nsum (fz_clause k) l * Q.

  Lemma L_ge : 2 <= L. Proof. unfold L. lia. Qed.
  Lemma k_le_kL : k <= kL.
  Proof. unfold kL. pose proof L_ge. rewrite <- (N.mul_1_r k) at 1. apply N.mul_le_mono_l. lia. Qed.
  Lemma Q_eq : Q = 6 + 2 * L + kL. Proof. reflexivity. Qed.
  Lemma mulQ_ge : forall x, x <= x * Q.
  Proof. intros x. rewrite <- (N.mul_1_r x) at 1. apply N.mul_le_mono_l. unfold Q. lia. Qed.
  Lemma k_mul_le : forall n, n <= L -> k * n <= kL.
  Proof. intros n H. unfold kL. apply N.mul_le_mono_l. exact H. Qed.

  (* P per constructor *)
  Lemma P_pos : forall t, Q <= P t.
  Proof.
    intros t. unfold P. rewrite <- (N.mul_1_l Q) at 1. apply N.mul_le_mono_r. destruct t; cbn [fz]; lia.
  Qed.
  Lemma P_var : forall v ty chi, P (FVar v ty chi) = Q. Proof. intros. unfold P. cbn [fz]. lia. Qed.
  Lemma P_lit : forall n, P (FLit n) = Q. Proof. intros. unfold P. cbn [fz]. lia. Qed.
  Lemma P_op : forall a o b, P (FOp a o b) = Q + P a + P b. Proof. intros. unfold P. cbn [fz]. lia. Qed.
  Lemma P_ifc : forall s a b t e ty, P (FIfC s a b t e ty) = Q + P a + match b with Some b' => P b' | None => 0 end + P t + P e.
  Proof. intros. unfold P. cbn [fz]. destruct b; lia. Qed.
  Lemma P_print : forall nl a next ty, P (FPrint nl a next ty) = Q + P a + P next. Proof. intros. unfold P. cbn [fz]. lia. Qed.
  Lemma P_let : forall v vty a b ty, P (FLet v vty a b ty) = Q + P a + P b. Proof. intros. unfold P. cbn [fz]. lia. Qed.
  Lemma P_call : forall f args r, P (FCall f args r) = Q + PL args. Proof. intros. unfold P, PL. cbn [fz]. lia. Qed.
  Lemma P_ctor : forall f args r, P (FCtor f args r) = Q + PL args. Proof. intros. unfold P, PL. cbn [fz]. lia. Qed.
  Lemma P_dtor : forall s x ta args r, P (FDtor s x ta args r) = Q + P s + PL args. Proof. intros. unfold P, PL. cbn [fz]. lia. Qed.
  Lemma P_case : forall s ta cls r, P (FCase s ta cls r) = Q + P s + PC cls. Proof. intros. unfold P, PC. cbn [fz]. fold (fz_clause k). lia. Qed.
  Lemma P_new : forall cls r, P (FNew cls r) = Q + PC cls. Proof. intros. unfold P, PC. cbn [fz]. fold (fz_clause k). lia. Qed.
  Lemma P_label : forall l t ty, P (FLabel l t ty) = Q + P t. Proof. intros. unfold P. cbn [fz]. lia. Qed.
  Lemma P_goto : forall l t ty, P (FGoto l t ty) = Q + P t. Proof. intros. unfold P. cbn [fz]. lia. Qed.
  Lemma P_exit : forall t ty, P (FExit t ty) = Q + P t. Proof. intros. unfold P. cbn [fz]. lia. Qed.
  Lemma P_paren : forall t, P (FParen t) = Q + P t. Proof. intros. unfold P. cbn [fz]. lia. Qed.
  Lemma PL_nil : PL [] = 0. Proof. reflexivity. Qed.
  Lemma PL_cons : forall y r, PL (y :: r) = P y + PL r. Proof. intros. unfold PL, P. rewrite nsum_cons. lia. Qed.
  Lemma PC_nil : PC [] = 0. Proof. reflexivity. Qed.
  Lemma PC_cons : forall pl x names ctx body r,
    PC (FClause pl x names ctx body :: r) = Q + (k * len ctx) * Q + P body + PC r.
  Proof. intros. unfold PC, P. rewrite nsum_cons. cbn [fz_clause]. lia. Qed.

  (* continuations: consumers whose free bindings are, up to one, in U *)
  Definition cok (cont : cterm) : Prop := cont_cns cont /\ exists e, incl (fvt cont) (e :: U).
  Lemma cok_var : forall c v ty, cok (CXVar c v ty).
  Proof.
    intros c v ty. split; [exact I|]. exists (mkcb v c ty). intros bb Hb. apply fvt_var in Hb. left. symmetry. exact Hb.
  Qed.
  Lemma cok_sub : forall c c0, cont_cns c -> cok c0 ->
    (forall bb, In bb (fvt c) -> In bb U \/ In bb (fvt c0)) -> cok c.
  Proof.
    intros c c0 Hc [_ [e He]] H. split; [exact Hc|]. exists e. intros bb Hb.
    destruct (H bb Hb) as [Hu|Hu]; [right; exact Hu | apply He; exact Hu].
  Qed.

  Lemma small_size : forall cont, cont_is_small cont = true -> zt cont <= 3.
  Proof.
    intros cont H. destruct cont as [| | | c v s ty | |]; try discriminate; cbn [cz_term].
    destruct s as [| | | |a ty']; try discriminate. destruct a; try discriminate; cbn [cz_stmt cz_term]; lia.
  Qed.

  Lemma cz_args_bindings : forall bs, cz_args k (map arg_of_binding bs) = len bs.
  Proof.
    induction bs as [|b r IH]; [reflexivity|]. cbn [map cz_args]. rewrite IH, len_cons.
    unfold arg_of_binding. destruct (cbchi b); cbn [cz_arg cz_term]; lia.
  Qed.

  Lemma share_nonmu : forall cont st x stv ty body e,
    fresh_var st = Ok (x, stv) -> body = CCut (CXVar CPrd (new_id x) ty) ty cont -> incl (fvt cont) (e :: U) ->
    len (fvs body) <= L /\ lz stv = lz st /\ zs body <= 2 + zt cont.
  Proof.
    intros cont st x stv ty body e Hf Hbody He. apply fresh_in_vars_inv in Hf. destruct Hf as (_ & _ & _ & Hf).
    split; [|split; [unfold lz; rewrite Hf; reflexivity | subst body; cbn [cz_stmt cz_term]; lia]].
    apply N.le_trans with (len (mkcb (new_id x) CPrd ty :: e :: U)); [|rewrite !len_cons; unfold L; lia].
    apply fvs_len. subst body. intros bb Hb. apply fvs_cut in Hb. destruct Hb as [Hb|Hb].
    - apply fvt_var in Hb. left. symmetry. exact Hb.
    - right. apply He. exact Hb.
  Qed.

  (* `share`: the continuation is replaced by a call of size 2 + n <= 2 + L; the lifted definition
     costs the continuation once more, 3 nodes and its n parameters *)
  Lemma share_size : forall cont st k1 st', share cur cont st = Ok (k1, st') -> cok cont ->
    cok k1 /\ zt k1 <= 2 + L /\ lz st' <= lz st + 3 + kL + zt cont.
  Proof.
    intros cont st k1 st' H [Hc [e He]].
    destruct (share_fvt cur _ _ _ _ H Hc) as [Hc1 Hsub].
    split; [split; [exact Hc1|]; exists e; intros bb Hb; apply He; apply Hsub; exact Hb|].
    destruct (share_inv _ _ _ _ _ H) as [var [ty [body [stv [name [Hm [Hv [Hl Hk]]]]]]]].
    assert (Hn : len (fvs body) <= L /\ lz stv = lz st /\ zs body <= 2 + zt cont).
    { destruct cont as [c v t|n|a o b|c v s t|c x args t|c cls t];
        try (destruct Hm as [xx [Hf [Hvar [Hty Hbody]]]]; eapply share_nonmu; eauto).
      destruct Hm as [Hvar [Hty [Hbody Hst]]]. subst. simpl in Hc. subst c.
      split; [|split; [reflexivity | cbn [cz_term]; lia]].
      apply N.le_trans with (len (mkcb v CPrd t :: e :: U)); [|rewrite !len_cons; unfold L; lia].
      apply (fvs_len s (mkcb v CPrd t :: e :: U)). intros bb Hb.
      destruct (cbinding_eqb bb (mkcb v CPrd t)) eqn:Eb.
      - apply cbinding_eqb_eq in Eb. left. symmetry. exact Eb.
      - right. apply He. apply fvt_mu_iff. split; [exact Hb|]. intros E. subst bb.
        simpl in Eb. rewrite (proj2 (cbinding_eqb_eq _ _) eq_refl) in Eb. discriminate. }
    destruct Hn as (Hn & Hlz & Hb). subst k1. split.
    - cbn [cz_term]. rewrite cz_stmt_call, cz_args_bindings. fold (fvs body). lia.
    - unfold lz at 1. rewrite Hl. cbn [cz_defs]. unfold cz_def. cbn [cdctx cdbody]. fold (fvs body). fold (lz stv).
      pose proof (k_mul_le _ Hn). lia.
  Qed.

  Definition szw (t : fterm) : Prop :=
    forall cont st s st', wc' t cont st = Ok (s, st') -> cok cont -> incl (tocc t) U ->
      zs s + lz st' + 2 <= lz st + P t + zt cont.
  Definition szc (t : fterm) : Prop :=
    forall ty st c st', cmp' t ty st = Ok (c, st') -> incl (tocc t) U -> zt c + lz st' <= lz st + P t.

  Lemma fresh_covar_lz : forall st a sta, fresh_covar st = Ok (a, sta) -> lz sta = lz st.
  Proof. intros st a sta H. apply fresh_in_vars_inv in H. destruct H as (_ & _ & _ & H). unfold lz. rewrite H. reflexivity. Qed.

  Lemma sz_default : forall (w : cterm -> M cstmt) X,
    (forall cont st s st', w cont st = Ok (s, st') -> cok cont -> zs s + lz st' + 2 <= lz st + X + zt cont) ->
    forall ty st c st', default_compile w ty st = Ok (c, st') -> zt c + lz st' <= lz st + X.
  Proof.
    intros w X Hw ty st c st' H. apply default_compile_inv in H. destruct H as [a [sta [s [Ha [Hs Hc]]]]]. subst c.
    apply fresh_covar_lz in Ha. pose proof (Hw _ _ _ _ Hs (cok_var _ _ _)) as Hi. cbn [cz_term] in *. lia.
  Qed.

  (* the repaired placement of a continuation under binders (fix d5d4151): < mu a. w(a) | cont > costs 3
     more nodes than w(a), a being 1 node *)
  Lemma sz_guard : forall binders (w : cterm -> M cstmt) lty X,
    (forall cont st s st', w cont st = Ok (s, st') -> cok cont -> zs s + lz st' + 2 + 3 <= lz st + X + zt cont) ->
    forall cont st s st', guard_capture false binders w lty cont st = Ok (s, st') -> cok cont ->
      zs s + lz st' + 2 <= lz st + X + zt cont.
  Proof.
    intros binders w lty X Hw cont st s st' H Hc. apply guard_capture_inv in H.
    destruct H as [[_ H]|[_ [ty0 [a [sta [s0 [_ [Ha [_ [H ->]]]]]]]]]].
    - pose proof (Hw _ _ _ _ H Hc). lia.
    - apply fresh_covar_lz in Ha. pose proof (Hw _ _ _ _ H (cok_var _ _ _)) as Hi. cbn [cz_stmt cz_term] in *. lia.
  Qed.

  Lemma sz_args : forall args, Forall szc args ->
    forall st l st', subst_with (fun y => cmp' y) args st = Ok (l, st') -> incl (flat_map occ_arg args) U ->
    cz_args k l + lz st' <= lz st + PL args.
  Proof.
    intros args H. induction H as [|y r Hy Hr IH]; intros st l st' Hs Hi.
    - simpl in Hs. apply mret_inv in Hs. destruct Hs; subst. cbn [cz_args]. rewrite PL_nil. lia.
    - apply subst_with_cons_inv in Hs. destruct Hs as [a [st1 [rest [Ha [Hrest Hl]]]]]. subst l.
      cbn [flat_map] in Hi. apply incl_app_inv in Hi. destruct Hi as [Hi1 Hi2].
      pose proof (IH _ _ _ Hrest Hi2) as Hr'. rewrite PL_cons. cbn [cz_args].
      apply compile_arg_inv in Ha. destruct Ha as [[v [ty [ty0 [Ey [Ety [Ea Est]]]]]]|[Hn [ty0 [c [Ety [Ec Ea]]]]]].
      + subst. cbn [cz_arg cz_term]. rewrite P_var. pose proof Q_eq. lia.
      + subst a. cbn [cz_arg]. assert (E : occ_arg y = tocc y).
        { unfold occ_arg, occ_arg_with. destruct y; try reflexivity. destruct chi as [[|]|]; try reflexivity. contradiction. }
        rewrite E in Hi1. pose proof (Hy _ _ _ _ Ec Hi1). lia.
  Qed.

  (* one clause of a `case`, any continuation *)
  Lemma sz_clause : forall x ctx body cont st c st', szw body ->
    compile_clause x ctx (fun co => wc' body co) cont st = Ok (c, st') -> cok cont -> incl (tocc body) U ->
    zc c + lz st' + 1 <= lz st + (k * len ctx) * Q + P body + zt cont.
  Proof.
    intros x ctx body cont st c st' Hb H Hc Hi. apply compile_clause_inv in H. destruct H as [body' [Hbody Ec]]. subst c.
    pose proof (Hb _ _ _ _ Hbody Hc Hi). cbn [cz_clause]. unfold compile_ctx. rewrite len_map.
    pose proof (mulQ_ge (k * len ctx)). lia.
  Qed.
  (* all clauses against a continuation that is small or shared *)
  Lemma sz_clauses : forall cont1 cls, Forall (fun c => szw (clause_body c)) cls -> cok cont1 -> zt cont1 <= Q + 1 ->
    forall st l st', clauses_with (fun b => wc' b) cont1 cls st = Ok (l, st') -> incl (flat_map cl_occ cls) U ->
    cz_clauses k l + lz st' <= lz st + PC cls.
  Proof.
    intros cont1 cls H Hc Hz. induction H as [|c r Hy Hr IH]; intros st l st' Hs Hi.
    - simpl in Hs. apply mret_inv in Hs. destruct Hs; subst. cbn [cz_clauses]. rewrite PC_nil. lia.
    - destruct c as [pl x names ctx body]. apply clauses_with_cons_inv in Hs.
      destruct Hs as [c' [st1 [rest [Ha [Hrest Hl]]]]]. subst l.
      cbn [flat_map cl_occ] in Hi. apply incl_app_inv in Hi. destruct Hi as [Hi1 Hi2].
      pose proof (IH _ _ _ Hrest Hi2) as Hr'. rewrite PC_cons. cbn [cz_clauses].
      pose proof (sz_clause _ _ _ _ _ _ _ Hy Ha Hc Hi1) as Hcl. cbn [clause_body] in Hcl. lia.
  Qed.

  Lemma sz_coclauses : forall cls, Forall (fun c => szw (clause_body c)) cls ->
    forall st l st', coclauses_with (fun b => wc' b) cls st = Ok (l, st') -> incl (flat_map cl_occ cls) U ->
    cz_clauses k l + lz st' <= lz st + PC cls.
  Proof.
    intros cls H. induction H as [|c r Hy Hr IH]; intros st l st' Hs Hi.
    - simpl in Hs. apply mret_inv in Hs. destruct Hs; subst. cbn [cz_clauses]. rewrite PC_nil. lia.
    - destruct c as [pl x names ctx body]. apply coclauses_with_cons_inv in Hs.
      destruct Hs as [c' [st1 [rest [Ha [Hrest Hl]]]]]. subst l.
      cbn [flat_map cl_occ] in Hi. apply incl_app_inv in Hi. destruct Hi as [Hi1 Hi2].
      pose proof (IH _ _ _ Hrest Hi2) as Hr'. rewrite PC_cons. cbn [cz_clauses].
      apply compile_coclause_inv in Ha. destruct Ha as [ty0 [a [sta [body' [Ety [Hfr [Hbody Ec]]]]]]]. subst c'.
      apply fresh_covar_lz in Hfr. simpl in Hy. pose proof (Hy _ _ _ _ Hbody (cok_var _ _ _) Hi1) as Hb.
      cbn [cz_clause cz_term] in *. rewrite len_app, len_cons, len_nil. unfold compile_ctx. rewrite len_map.
      pose proof (mulQ_ge (k * len ctx)). pose proof k_le_kL. pose proof Q_eq. lia.
  Qed.

  (* free bindings of translated argument lists / clause lists are in U *)
  Lemma args_in_U : forall args st l st', subst_with (fun y => cmp' y) args st = Ok (l, st') ->
    incl (flat_map occ_arg args) U -> forall bb, In bb (fva l) -> In bb U.
  Proof.
    intros args st l st' Hs Hi bb Hb. apply Hi. eapply occ_args; eauto.
    apply Forall_forall. intros y _. apply occ_cmp.
  Qed.

  Lemma sz_both : forall t, szw t /\ szc t.
  Proof.
    induction t using fterm_ind'.
    - (* FVar *)
      split.
      + intros cont st s st' H Hc Hi. rewrite wc_unfold in H. apply wc_var_inv in H.
        destruct H as [ty0 [Ety [Es Est]]]. subst. rewrite P_var. cbn [cz_stmt cz_term]. pose proof Q_eq. lia.
      + intros ty0' st c st' H Hi. rewrite cmp_unfold in H. apply cmp_var_inv in H.
        destruct H as [ty0 [Ety [Es Est]]]. subst. rewrite P_var. cbn [cz_term]. pose proof Q_eq. lia.
    - (* FLit *)
      split.
      + intros cont st s st' H Hc Hi. rewrite wc_unfold in H. unfold wc_lit in H.
        apply mret_inv in H. destruct H; subst. rewrite P_lit. cbn [cz_stmt cz_term]. pose proof Q_eq. lia.
      + intros ty0' st c st' H Hi. rewrite cmp_unfold in H. unfold cmp_lit in H.
        apply mret_inv in H. destruct H; subst. rewrite P_lit. cbn [cz_term]. pose proof Q_eq. lia.
    - (* FOp *)
      destruct IHt1 as [_ C1], IHt2 as [_ C2].
      assert (HC : szc (FOp t1 o t2)).
      { intros ty0' st c st' H Hi. rewrite cmp_unfold in H. apply cmp_op_inv in H.
        destruct H as [a [st1 [b [Ha [Hb' Ec]]]]]. subst c. cbn [tocc] in Hi. apply incl_app_inv in Hi. destruct Hi as [Hi1 Hi2].
        pose proof (C1 _ _ _ _ Ha Hi1). pose proof (C2 _ _ _ _ Hb' Hi2). rewrite P_op. cbn [cz_term]. pose proof Q_eq. lia. }
      split; [|exact HC].
      intros cont st s st' H Hc Hi. rewrite wc_unfold in H. apply wc_op_inv in H.
      destruct H as [a [st1 [b [Ha [Hb' Es]]]]]. subst s.
      cbn [tocc] in Hi. apply incl_app_inv in Hi. destruct Hi as [Hi1 Hi2].
      pose proof (C1 _ _ _ _ Ha Hi1). pose proof (C2 _ _ _ _ Hb' Hi2). rewrite P_op. cbn [cz_stmt cz_term]. pose proof Q_eq. lia.
    - (* FIfC *)
      destruct IHt1 as [_ C1], IHt2 as [W2 _], IHt3 as [W3 _].
      assert (HW : szw (FIfC s t1 b t2 t3 ty)).
      { intros cont st s0 st' H0 Hc Hi. rewrite wc_unfold in H0. apply wc_ifc_inv in H0.
        destruct H0 as [cont1 [st0 [a [sta [b' [stb [t [stt [e [Hsh [Ha [Hbb [Ht [He Er]]]]]]]]]]]]]]. subst s0.
        cbn [tocc] in Hi. apply incl_app_inv in Hi. destruct Hi as [Hi1 Hi]. apply incl_app_inv in Hi. destruct Hi as [Hib Hi].
        apply incl_app_inv in Hi. destruct Hi as [Hi2 Hi3].
        assert (Hc1 : cok cont1 /\ lz st0 + 2 * zt cont1 <= lz st + 7 + 2 * L + kL + zt cont).
        { destruct (cont_is_small cont) eqn:Hsm.
          - destruct Hsh; subst. split; [exact Hc|]. pose proof (small_size _ Hsm). lia.
          - destruct (share_size _ _ _ _ Hsh Hc) as (A & B & C). split; [exact A|]. lia. }
        destruct Hc1 as [Hc1 Hz].
        pose proof (C1 _ _ _ _ Ha Hi1) as Sa.
        pose proof (W2 _ _ _ _ Ht Hc1 Hi2) as St.
        pose proof (W3 _ _ _ _ He Hc1 Hi3) as Se.
        rewrite P_ifc. cbn [cz_stmt]. pose proof Q_eq.
        destruct b as [b0|].
        - destruct Hbb as [b1 [Hb1 Eb]]. subst b'. simpl in H. destruct H as [_ Cb].
          pose proof (Cb _ _ _ _ Hb1 Hib). lia.
        - destruct Hbb as [Eb Est]. subst b' stb. lia. }
      split; [exact HW|].
      intros ty0' st c st' H0 Hi. rewrite cmp_unfold in H0.
      eapply sz_default; [|exact H0]. intros cont st0 s0 st0' Hs Hc.
      eapply HW; eauto; rewrite wc_unfold; exact Hs.
    - (* FPrint *)
      destruct IHt1 as [_ C1], IHt2 as [W2 _].
      assert (HW : szw (FPrint nl t1 t2 ty)).
      { intros cont st s0 st' H0 Hc Hi. rewrite wc_unfold in H0. apply wc_print_inv in H0.
        destruct H0 as [a [st1 [next [Ha [Hn Es]]]]]. subst s0.
        cbn [tocc] in Hi. apply incl_app_inv in Hi. destruct Hi as [Hi1 Hi2].
        pose proof (C1 _ _ _ _ Ha Hi1). pose proof (W2 _ _ _ _ Hn Hc Hi2). rewrite P_print. cbn [cz_stmt]. pose proof Q_eq. lia. }
      split; [exact HW|].
      intros ty0' st c st' H0 Hi. rewrite cmp_unfold in H0.
      eapply sz_default; [|exact H0]. intros cont st0 s0 st0' Hs Hc.
      eapply HW; eauto; rewrite wc_unfold; exact Hs.
    - (* FLet *)
      destruct IHt1 as [W1 C1], IHt2 as [W2 _].
      assert (HW : szw (FLet v vty t1 t2 ty)).
      { intros cont st s0 st' H0 Hc Hi. rewrite wc_unfold in H0. revert cont st s0 st' H0 Hc. apply sz_guard.
        intros cont st s0 st' H0 Hc.
        cbn [tocc] in Hi. apply incl_app_inv in Hi. destruct Hi as [Hi1 Hi2]. rewrite P_let. pose proof Q_eq. pose proof L_ge.
        assert (Hk : forall body st1, wc' t2 cont st = Ok (body, st1) -> cok (CMu CCns (new_id v) body (compile_ty vty))).
        { intros body st1 Hbody. apply (cok_sub _ cont); [reflexivity | exact Hc|].
          intros bb Hb. apply fvt_mu_iff in Hb. destruct Hb as [Hb _].
          destruct (occ_wc codata cur t2 _ _ _ _ Hbody (proj1 Hc) bb Hb) as [Hg|Hg]; [left; apply Hi2; exact Hg | right; exact Hg]. }
        destruct (ty_is_codata codata (compile_ty vty)) eqn:Hcd.
        - apply wc_let_inv_codata in H0; [|exact Hcd]. destruct H0 as [body [st1 [pb [Hbody0 [Hpb Es]]]]]. subst s0.
          pose proof (W2 _ _ _ _ Hbody0 Hc Hi2). pose proof (C1 _ _ _ _ Hpb Hi1). cbn [cz_stmt cz_term]. lia.
        - apply wc_let_inv in H0; [|exact Hcd]. destruct H0 as [body [st1 [Hbody0 Hbound]]].
          pose proof (W2 _ _ _ _ Hbody0 Hc Hi2). pose proof (W1 _ _ _ _ Hbound (Hk _ _ Hbody0) Hi1) as Hb.
          cbn [cz_term] in Hb. lia. }
      split; [exact HW|].
      intros ty0' st c st' H0 Hi. rewrite cmp_unfold in H0.
      eapply sz_default; [|exact H0]. intros cont st0 s0 st0' Hs Hc.
      eapply HW; eauto; rewrite wc_unfold; exact Hs.
    - (* FCall *)
      assert (HA : Forall szc args). { eapply Forall_impl; [|exact H]. intros a [_ Ca]. exact Ca. }
      assert (HW : szw (FCall f args ret)).
      { intros cont st s0 st' H0 Hc Hi. rewrite wc_unfold in H0. apply wc_call_inv in H0.
        destruct H0 as [args' [ret0 [Hargs [Eret Es]]]]. subst s0. cbn [tocc] in Hi. fold occ_arg in Hi.
        pose proof (sz_args args HA _ _ _ Hargs Hi). rewrite P_call, cz_stmt_call, cz_args_app. cbn [cz_args cz_arg].
        pose proof Q_eq. lia. }
      split; [exact HW|].
      intros ty0' st c st' H0 Hi. rewrite cmp_unfold in H0.
      eapply sz_default; [|exact H0]. intros cont st0 s0 st0' Hs Hc.
      eapply HW; eauto; rewrite wc_unfold; exact Hs.
    - (* FCtor *)
      assert (HA : Forall szc args). { eapply Forall_impl; [|exact H]. intros a [_ Ca]. exact Ca. }
      assert (HC : forall ty0' st c st', cmp' (FCtor x args ty) ty0' st = Ok (c, st') -> incl (tocc (FCtor x args ty)) U ->
                   zt c + lz st' + 3 <= lz st + P (FCtor x args ty)).
      { intros ty0' st c st' H0 Hi. rewrite cmp_unfold in H0. apply cmp_ctor_inv in H0.
        destruct H0 as [args' [ty0 [Hargs [Ety Ec]]]]. subst c. cbn [tocc] in Hi. fold occ_arg in Hi.
        pose proof (sz_args args HA _ _ _ Hargs Hi). rewrite P_ctor, cz_term_xtor. pose proof Q_eq. lia. }
      split.
      + intros cont st s0 st' H0 Hc Hi. rewrite wc_unfold in H0. apply wc_ctor_inv in H0.
        destruct H0 as [args' [ty0 [Hargs [Ety Es]]]]. subst s0. cbn [tocc] in Hi. fold occ_arg in Hi.
        pose proof (sz_args args HA _ _ _ Hargs Hi). rewrite P_ctor. cbn [cz_stmt]. rewrite cz_term_xtor. pose proof Q_eq. lia.
      + intros ty0' st c st' H0 Hi. pose proof (HC _ _ _ _ H0 Hi). lia.
    - (* FDtor *)
      destruct IHt as [Ws _].
      assert (HA : Forall szc args). { eapply Forall_impl; [|exact H]. intros a [_ Ca]. exact Ca. }
      assert (HW : szw (FDtor t x targs args ty)).
      { intros cont st s0 st' H0 Hc Hi. rewrite wc_unfold in H0. apply wc_dtor_inv in H0.
        destruct H0 as [args' [st1 [sty0 [Hargs [Esty Hscrut]]]]].
        cbn [tocc] in Hi. fold occ_arg in Hi. apply incl_app_inv in Hi. destruct Hi as [Hi1 Hi2].
        pose proof (sz_args args HA _ _ _ Hargs Hi2) as Sa.
        assert (Hk : cok (CXtor CCns (new_id x) (args' ++ [CConsumer cont]) (compile_ty sty0))).
        { apply (cok_sub _ cont); [exact I | exact Hc|]. intros bb Hb. apply fvt_xtor in Hb. apply fva_app in Hb.
          destruct Hb as [Hb|Hb]; [left; eapply args_in_U; eauto|].
          right. apply fva_cons in Hb. destruct Hb as [Hb|Hb]; [exact Hb | apply fva_nil in Hb; contradiction]. }
        pose proof (Ws _ _ _ _ Hscrut Hk Hi1) as Ss. rewrite cz_term_xtor, cz_args_app in Ss. cbn [cz_args cz_arg] in Ss.
        rewrite P_dtor. pose proof Q_eq. lia. }
      split; [exact HW|].
      intros ty0' st c st' H0 Hi. rewrite cmp_unfold in H0.
      eapply sz_default; [|exact H0]. intros cont st0 s0 st0' Hs Hc.
      eapply HW; eauto; rewrite wc_unfold; exact Hs.
    - (* FCase *)
      destruct IHt as [Ws _].
      assert (HB : Forall (fun c => szw (clause_body c)) cls).
      { eapply Forall_impl; [|exact H]. intros a [Wa _]. exact Wa. }
      assert (HW : szw (FCase t targs cls ty)).
      { intros cont st s0 st' H0 Hc Hi. rewrite wc_unfold in H0. revert cont st s0 st' H0 Hc. apply sz_guard.
        intros cont st s0 st' H0 Hc. apply wc_case_inv in H0.
        destruct H0 as [cont1 [st0 [cls' [st1 [sty0 [Hsh [Hcls [Esty Hscrut]]]]]]]].
        cbn [tocc] in Hi. apply incl_app_inv in Hi. destruct Hi as [Hi1 Hi2]. fold cl_occ in Hi2.
        rewrite P_case. pose proof Q_eq as HQ. pose proof L_ge as HL2.
        assert (Hocc : forall cont1, cok cont1 -> forall st0 cls' st1, clauses_with (fun b => wc' b) cont1 cls st0 = Ok (cls', st1) ->
                  cok (CXCase CCns cls' (compile_ty sty0))).
        { intros c1 Hc1 sta l stb Hl. apply (cok_sub _ c1); [exact I | exact Hc1|]. intros bb Hb. apply fvt_xcase in Hb.
          destruct (occ_clauses codata cur c1 cls (proj2 (Forall_forall _ _) (fun c _ => occ_wc codata cur (clause_body c))) (proj1 Hc1) _ _ _ Hl bb Hb) as [Hg|Hg];
            [left; apply Hi2; exact Hg | right; exact Hg]. }
        (* the clauses cost PC cls plus what the continuation costs *)
        assert (Hmain : cok cont1 /\ cz_clauses k cls' + lz st1 <= lz st + PC cls + 3 + kL + zt cont).
        { destruct (Nat.leb (List.length cls) 1 || cont_is_small cont) eqn:Hcond.
          - destruct Hsh; subst cont1 st0. split; [exact Hc|].
            destruct (cont_is_small cont) eqn:Hsm.
            + pose proof (small_size _ Hsm). pose proof (sz_clauses cont cls HB Hc ltac:(lia) _ _ _ Hcls Hi2). lia.
            + rewrite orb_false_r in Hcond. destruct cls as [|[pl x names ctx body] [|c2 r]]; [| |discriminate].
              * simpl in Hcls. apply mret_inv in Hcls. destruct Hcls; subst. cbn [cz_clauses]. rewrite PC_nil. lia.
              * apply clauses_with_cons_inv in Hcls. destruct Hcls as [c' [st2 [rest [Ha [Hrest Hl]]]]]. subst cls'.
                simpl in Hrest. apply mret_inv in Hrest. destruct Hrest; subst.
                inversion HB as [|? ? Hy _]; subst. cbn [flat_map cl_occ] in Hi2. rewrite app_nil_r in Hi2.
                pose proof (sz_clause _ _ _ _ _ _ _ Hy Ha Hc Hi2) as Hcl. cbn [clause_body] in Hcl. rewrite PC_cons, PC_nil. cbn [cz_clauses]. lia.
          - destruct (share_size _ _ _ _ Hsh Hc) as (A & B & C). split; [exact A|].
            pose proof (sz_clauses cont1 cls HB A ltac:(lia) _ _ _ Hcls Hi2). lia. }
        destruct Hmain as [Hc1 Hm].
        pose proof (Ws _ _ _ _ Hscrut (Hocc _ Hc1 _ _ _ Hcls) Hi1) as Ss. rewrite cz_term_xcase in Ss. lia. }
      split; [exact HW|].
      intros ty0' st c st' H0 Hi. rewrite cmp_unfold in H0.
      eapply sz_default; [|exact H0]. intros cont st0 s0 st0' Hs Hc.
      eapply HW; eauto; rewrite wc_unfold; exact Hs.
    - (* FNew *)
      assert (HB : Forall (fun c => szw (clause_body c)) cls).
      { eapply Forall_impl; [|exact H]. intros a [Wa _]. exact Wa. }
      assert (HC : forall ty0' st c st', cmp' (FNew cls ty) ty0' st = Ok (c, st') -> incl (tocc (FNew cls ty)) U ->
                   zt c + lz st' + 3 <= lz st + P (FNew cls ty)).
      { intros ty0' st c st' H0 Hi. rewrite cmp_unfold in H0. apply cmp_new_inv in H0.
        destruct H0 as [cls' [ty0 [Hcls [Ety Ec]]]]. subst c. cbn [tocc] in Hi. fold cl_occ in Hi.
        pose proof (sz_coclauses cls HB _ _ _ Hcls Hi). rewrite P_new, cz_term_xcase. pose proof Q_eq. lia. }
      split.
      + intros cont st s0 st' H0 Hc Hi. rewrite wc_unfold in H0. apply wc_new_inv in H0.
        destruct H0 as [cls' [ty0 [Hcls [Ety Es]]]]. subst s0. cbn [tocc] in Hi. fold cl_occ in Hi.
        pose proof (sz_coclauses cls HB _ _ _ Hcls Hi). rewrite P_new. cbn [cz_stmt]. rewrite cz_term_xcase. pose proof Q_eq. lia.
      + intros ty0' st c st' H0 Hi. pose proof (HC _ _ _ _ H0 Hi). lia.
    - (* FLabel *)
      destruct IHt as [W _].
      assert (HC : forall ty0' st c st', cmp' (FLabel l t ty) ty0' st = Ok (c, st') -> incl (tocc (FLabel l t ty)) U ->
                   zt c + lz st' + 3 <= lz st + P (FLabel l t ty)).
      { intros ty0' st c st' H0 Hi. rewrite cmp_unfold in H0. apply cmp_label_inv in H0.
        destruct H0 as [ty0 [s0 [Ety [Hs Ec]]]]. subst c ty. cbn [tocc] in Hi.
        pose proof (W _ _ _ _ Hs (cok_var _ _ _) Hi) as Sw. rewrite P_label. cbn [cz_term] in *. pose proof Q_eq. lia. }
      split.
      + intros cont st s0 st' H0 Hc Hi. rewrite wc_unfold in H0. apply wc_label_inv in H0.
        destruct H0 as [ty0 [s1 [Ety [Hs Es]]]]. subst s0 ty. cbn [tocc] in Hi.
        pose proof (W _ _ _ _ Hs (cok_var _ _ _) Hi) as Sw. rewrite P_label. cbn [cz_stmt cz_term] in *. pose proof Q_eq. lia.
      + intros ty0' st c st' H0 Hi. pose proof (HC _ _ _ _ H0 Hi). lia.
    - (* FGoto *)
      destruct IHt as [W _].
      assert (HW : szw (FGoto l t ty)).
      { intros cont st s0 st' H0 Hc Hi. rewrite wc_unfold in H0. apply wc_goto_inv in H0.
        destruct H0 as [ty0 [Ety Hs]]. cbn [tocc] in Hi. apply incl_app_inv in Hi. destruct Hi as [_ Hi].
        pose proof (W _ _ _ _ Hs (cok_var _ _ _) Hi) as Sw. rewrite P_goto. cbn [cz_term] in Sw.
        pose proof Q_eq. pose proof (cz_term_pos k cont). lia. }
      split; [exact HW|].
      intros ty0' st c st' H0 Hi. rewrite cmp_unfold in H0.
      eapply (sz_default (fun _ => wc_goto false l (wc' t) ty (fterm_type t))); [|exact H0].
      intros cont st0 s0 st0' Hs Hc.
      eapply (HW cont); eauto; rewrite wc_unfold; exact Hs.
    - (* FExit *)
      destruct IHt as [_ C].
      assert (HW : szw (FExit t ty)).
      { intros cont st s0 st' H0 Hc Hi. rewrite wc_unfold in H0. apply wc_exit_inv in H0.
        destruct H0 as [a [ty0 [Ha [Ety Es]]]]. subst s0. cbn [tocc] in Hi.
        pose proof (C _ _ _ _ Ha Hi). rewrite P_exit. cbn [cz_stmt]. pose proof Q_eq. lia. }
      split; [exact HW|].
      intros ty0' st c st' H0 Hi. rewrite cmp_unfold in H0.
      eapply (sz_default (fun _ => wc_exit (cmp' t CI64) ty)); [|exact H0].
      intros cont st0 s0 st0' Hs Hc.
      eapply (HW cont); eauto; rewrite wc_unfold; exact Hs.
    - (* FParen *)
      destruct IHt as [W C]. split.
      + intros cont st s0 st' H0 Hc Hi. rewrite wc_unfold in H0. cbn [tocc] in Hi.
        pose proof (W _ _ _ _ H0 Hc Hi). rewrite P_paren. lia.
      + intros ty0' st c st' H0 Hi. rewrite cmp_unfold in H0. cbn [tocc] in Hi.
        pose proof (C _ _ _ _ H0 Hi). rewrite P_paren. lia.
  Qed.

  Definition sz_wc (t : fterm) := proj1 (sz_both t).
  Definition sz_cmp (t : fterm) := proj2 (sz_both t).
End SZ.
