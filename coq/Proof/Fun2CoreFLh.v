(* ======================================================================================
   Proof/Fun2CoreFLh  -  the fundamental lemma: calls of top-level definitions (any number of
   definitions, recursion: induction on the source fuel), constructors, case; and the assembly
   [fl_all]: for every fuel bound N and every term of the fragment, flw and flc.
   ====================================================================================== *)
From Coq Require Import List ZArith NArith String Bool Lia Wf_nat.
From SCC Require Import Base.Sexp Lang.SynUtil Lang.FunSyn Lang.FunTy Lang.CoreSyn.
From SCC Require Import Sem.AxSem Sem.CoreSem Sem.FunSem Model.Fun2Core.
From SCC Require Import Proof.Fun2CoreProof Proof.Fun2CoreSim Proof.Fun2CoreTfv Proof.Fun2CoreInv Proof.Fun2CoreUB
     Proof.Fun2CoreRel Proof.Fun2CoreFLa Proof.Fun2CoreFLb Proof.Fun2CoreFLc Proof.Fun2CoreFLd Proof.Fun2CoreFLe
     Proof.Fun2CoreFLf Proof.Fun2CoreFLg.
Import ListNotations.
Open Scope string_scope.
Open Scope list_scope.

Arguments var_ok : simpl never.

Lemma cbind_snoc_gen : forall xs vs y w e ce1, cbind xs vs ((y, w) :: e) = Some ce1 -> cbind (xs ++ [y]) (vs ++ [w]) e = Some ce1.
Proof.
  induction xs as [|x r IH]; intros vs y w e ce1 H; destruct vs as [|v vr]; simpl in *; try discriminate.
  - exact H.
  - destruct (cbind r vr ((y, w) :: e)) as [e0|] eqn:E; [|discriminate]. rewrite (IH _ _ _ _ _ E). exact H.
Qed.

Section FLh.
  Variable p : fcprog.
  Variable cp : cprog.
  Hypothesis Hcod : cpcodata cp = codata_of p.
  Hypothesis Hdefs : forall f d, ffind_def p f = Some d -> (f <> "main" \/ calls_main_prog p = true) -> callee_ok p cp d.

  (* ---------- calls ---------- *)
  Lemma fl_call : forall N f args ret,
    (forall N', (N' < N)%nat -> forall t, flw p cp N' t) -> Forall (flc p cp N) args -> Forall (flt p cp N) args ->
    flw p cp N (FCall f args ret).
  Proof.
    intros N f args ret IHN HA HT.
    intros n Hn G cur cont st s st' e ce k Hwc Hf Hkd Hws Hl HG Hbn Hni Hsh He HCK.
    rewrite wc_unfold in Hwc. apply wc_call_inv in Hwc. destruct Hwc as [args' [ret0 [Hargs [Eret Es]]]]. subst s.
    simpl in Hf, Hkd, Hws.
    apply andb_prop in Hf. destruct Hf as [Hf Hfa]. apply andb_prop in Hf. destruct Hf as [Hnm Hck].
    assert (Hnm' : f <> "main" \/ calls_main_prog p = true).
    { apply orb_prop in Hnm. destruct Hnm as [Hnm|Hnm]; [left; apply negb_true_iff in Hnm; apply String.eqb_neq in Hnm; exact Hnm | right; exact Hnm]. }
    clear Hnm. rename Hnm' into Hnm.
    change (tkind p (FCall f args ret)) with (f_is_codata_o p ret) in *.
    assert (HKS : KS p cp n (f_is_codata_o p ret) k cont ce).
    { apply (proj2 HCK). intros x Hx. unfold Sof. apply in_cnames_inv in Hx. destruct Hx as [bb [Hbb E]]. subst x.
      apply in_cnames. apply (proj2 (fvs_call _ _ _ _)). apply fva_app. right. apply fva_cons. left. exact Hbb. }
    destruct n as [|n1]; [apply sim_zero|].
    eapply sim_fstep; [reflexivity|]. apply sim_cstep. simpl. rewrite start_args_eq.
    apply (args_sim p cp Hcod N args HA HT n1 ltac:(lia) false G cur st args' st' e ce [CConsumer cont]
             (AfCall f) (FinCall (new_id f)) k [] [] Hargs Hfa Hkd).
    - intros E. discriminate E.
    - exact Hws.
    - exact Hl.
    - exact HG.
    - exact Hbn.
    - eapply erel_weaken; [exact He | | lia]. apply Sof_incl. intros bb Hx.
      apply (proj2 (fvs_call _ _ _ _)). apply fva_app. left. exact Hx.
    - intros j Hj new new' Hnew Hkinds.
      apply (call_finish p cp Hcod Hdefs N IHN j ltac:(lia) f args ret e ce k cont new new' Hnm Hck Hnew Hkinds Hsh).
      eapply KS_mono; [exact HKS | lia].
  Qed.

  (* ---------- constructors ---------- *)
  Lemma darg_props : forall args, forallb (darg_ok p) args = true ->
    forallb (arg_ok p) args = true /\ forallb (fun y => negb (is_cns_var y) && negb (tkind p y)) args = true.
  Proof.
    induction args as [|y r IH]; intros H; [split; reflexivity|]. simpl in H. apply andb_prop in H. destruct H as [Hy Hr].
    destruct (IH Hr) as [IH1 IH2]. simpl. rewrite IH1, IH2. unfold darg_ok in Hy.
    apply andb_prop in Hy. destruct Hy as [Hy Hd]. apply andb_prop in Hy. destruct Hy as [Hc Hf].
    assert (Hs : is_some (fterm_type y) = true) by (unfold data_ty in Hd; destruct (fterm_type y); [reflexivity | discriminate]).
    assert (Hk : tkind p y = false).
    { unfold tkind, data_ty in *. destruct (fterm_type y); [|reflexivity]. simpl. apply negb_true_iff in Hd. exact Hd. }
    rewrite Hc, Hk. split; [|reflexivity]. rewrite andb_true_r.
    unfold arg_ok. destruct y; try (rewrite Hf, Hs; reflexivity). destruct chi as [[|]|]; try (rewrite Hf, Hs; reflexivity). reflexivity.
  Qed.

  Lemma ctor_core : forall N x args, Forall (flc p cp N) args -> Forall (flt p cp N) args ->
    forall n, (n <= N)%nat -> forall G cur st args' st' e ce k m,
    subst_with (fun y => cmp (codata_of p) cur false y) args st = Ok (args', st') ->
    forallb (darg_ok p) args = true -> forallb (arg_kd p) args = true ->
    forallb (ws_arg G) args = true ->
    lifted_ok cp st' -> Gused G st -> incl (flat_map bnd args) (st_used_vars st) ->
    erel p cp n G (Sof (fva args')) e ce ->
    Kb p cp n k (KRet m) ->
    sim p cp n (FArgs [] args e (AfCtor x) k) (cargs_res cp [] args' ce (FinXtorP (new_id x) m)).
  Proof.
    intros N x args HA HT n Hn G cur st args' st' e ce k m Hargs Hda Hkd Hws Hl HG Hbn He HK.
    destruct (darg_props args Hda) as [Hfa Hpo].
    rewrite <- (app_nil_r args').
    apply (args_sim p cp Hcod N args HA HT n Hn true G cur st args' st' e ce [] (AfCtor x) (FinXtorP (new_id x) m) k [] []
             Hargs Hfa Hkd (fun _ => Hpo) Hws Hl HG Hbn He).
    intros j Hj new new' Hnew Hkinds.
    destruct j as [|j1]; [apply sim_zero|].
    eapply sim_fstep; [simpl; rewrite rev_append_nil_twice; reflexivity|].
    unfold cargs_res. simpl finish_args. rewrite rev_append_nil_twice.
    eapply Kb_ret; [exact HK | lia | |].
    - apply dval_ctor. clear -Hkinds. induction Hkinds as [|b y r r' [Hb _] Hr IH]; constructor; [exact Hb | exact IH].
    - apply vrel_ctor. exists new'. split; [reflexivity|]. eapply brels_mono; [exact Hnew | lia].
  Qed.

  Lemma fl_ctor : forall N x args ty, Forall (flc p cp N) args -> Forall (flt p cp N) args ->
    flw p cp N (FCtor x args ty) /\ flc p cp N (FCtor x args ty).
  Proof.
    intros N x args ty HA HT. split.
    - intros n Hn G cur cont st s st' e ce k Hwc Hf Hkd Hws Hl HG Hbn Hni Hsh He HCK.
      rewrite wc_unfold in Hwc. apply wc_ctor_inv in Hwc. destruct Hwc as [args' [ty0 [Hargs [Ety Es]]]]. subst s.
      simpl in Hf, Hkd, Hws. apply andb_prop in Hkd. destruct Hkd as [Hkd Hkty]. apply negb_true_iff in Hkty.
      assert (Hkind : tkind p (FCtor x args ty) = false) by (unfold tkind; simpl; exact Hkty).
      rewrite Hkind in *.
      destruct n as [|n1]; [apply sim_zero|].
      eapply sim_fstep; [reflexivity|]. apply sim_cstep. simpl. rewrite start_args_eq.
      apply (ctor_core N x args HA HT n1 ltac:(lia) G cur st args' st' e ce k (MCutK cont ce) Hargs Hf Hkd Hws Hl HG Hbn).
      + eapply erel_weaken; [exact He | | lia]. apply Sof_incl. intros bb Hx. apply fvs_cut. left. exact Hx.
      + eapply Kb_mono; [eapply (CK_mcutk p cp (S n1)); eauto | lia].
        intros bb Hbb. apply Sof_in. apply fvs_cut. right. exact Hbb.
    - intros n Hn G cur ty' st c st' e ce k m Hc Hf Hkd Hk0 Hws Hl HG Hbn Hty He HK.
      rewrite cmp_unfold in Hc. apply cmp_ctor_inv in Hc. destruct Hc as [args' [ty0 [Hargs [Ety Ec]]]]. subst c.
      simpl in Hf, Hkd, Hws. apply andb_prop in Hkd. destruct Hkd as [Hkd Hkty].
      destruct n as [|n1]; [apply sim_zero|].
      eapply sim_fstep; [reflexivity|]. apply sim_cstep. simpl. rewrite start_args_eq.
      apply (ctor_core N x args HA HT n1 ltac:(lia) G cur st args' st' e ce k m Hargs Hf Hkd Hws Hl HG Hbn).
      + eapply erel_weaken; [exact He | | lia]. intros z Hz. exact Hz.
      + eapply Kb_mono; [exact HK | lia].
  Qed.

  (* ---------- case ---------- *)
  Lemma fl_case_in : forall N scrut targs cls ty,
    flw p cp N scrut -> Forall (fun c => flw p cp N (clause_body c)) cls ->
    flw_in p cp N (FCase scrut targs cls ty)
      (flat_map (fun c => match c with FClause _ _ _ ctx _ => fvars ctx end) cls)
      (fun cur => wc_case cur (wc (codata_of p) cur false scrut) (fterm_type scrut) (List.length cls)
                    (fun cont' => clauses_with (fun b => wc (codata_of p) cur false b) cont' cls)).
  Proof.
    intros N scrut targs cls ty Hscrut Hcls.
    intros n Hn G cur cont st s st' e ce k Hwc H8 Hf Hkd Hws Hl HG Hbn Hni Hsh He HCK.
    apply wc_case_inv in Hwc.
    destruct Hwc as [cont1 [st0 [cls' [st1 [sty0 [Hshare [Hclauses [Esty Hwscrut]]]]]]]].
    simpl in Hf, Hkd, Hws.
    apply andb_prop in Hf. destruct Hf as [Hf Hfc]. apply andb_prop in Hf. destruct Hf as [Hfs Hdt].
    apply andb_prop in Hws. destruct Hws as [Hws Hwcl].
    apply andb_prop in Hkd. destruct Hkd as [Hkd Hkcl]. apply andb_prop in Hkd. destruct Hkd as [Hks Hkty].
    apply negb_true_iff in Hkty.
    assert (Hkind : tkind p (FCase scrut targs cls ty) = false) by (unfold tkind; simpl; exact Hkty).
    rewrite Hkind in *.
    assert (Hkscrut : tkind p scrut = false).
    { unfold tkind, data_ty in *. rewrite Esty in *. simpl. apply negb_true_iff in Hdt. exact Hdt. }
    set (kcont := CXCase CCns cls' (compile_ty sty0)) in *.
    assert (Hg2 : grows st1 st') by (eapply wc_grows; exact Hwscrut).
    assert (Hg1 : grows st0 st1).
    { revert Hclauses. apply mgrows_clauses_with. apply Forall_forall. intros c0 _ k0.
      apply (proj1 (wc_cmp_grows (codata_of p) cur false (clause_body c0))). }
    assert (Lst1 : lifted_ok cp st1) by (eapply lifted_ok_grows; [exact Hl | exact Hg2]).
    assert (Lst0 : lifted_ok cp st0) by (eapply lifted_ok_grows; [exact Lst1 | exact Hg1]).
    destruct (shared_CK p cp n cur (Nat.leb (List.length cls) 1 || cont_is_small cont) cont st cont1 st0 k ce
                (Sof (fvs s)) Hshare) as [HCK1 [Hsh1 [Hg0 Hsub]]]; auto.
    { intros E. apply orb_false_iff in E. tauto. }
    assert (G1 : grows st st1) by (eapply grows_trans; [exact Hg0 | exact Hg1]).
    assert (Hsc1 : cont_cns cont1) by (apply (cont_shape_cns cp false); exact Hsh1).
    assert (HB : Forall (fun c => ubw p cur (clause_body c)) cls).
    { apply Forall_forall. intros c _. apply (ub_wc p cur). }
    assert (Hsrc : forall bb, In bb (fvt kcont) -> inG G (flat_map cl_nm cls) bb \/ In bb (fvt cont)).
    { intros bb Hbb. apply fvt_xcase in Hbb.
      destruct (ub_clauses p cur G cont1 cls HB Hsc1 _ _ _ Hclauses Hfc Hwcl bb Hbb) as [Hg|Hg]; [left; exact Hg | right; apply Hsub; exact Hg]. }
    assert (Hcd : is_codata cp (compile_ty sty0) = false).
    { rewrite (is_codata_compile p cp Hcod). unfold data_ty in Hdt. rewrite Esty in Hdt. apply negb_true_iff in Hdt. exact Hdt. }
    assert (Hbs : incl (bnd scrut) (st_used_vars st)) by (intros z Hz; apply Hbn; simpl; apply in_or_app; left; exact Hz).
    destruct n as [|n1]; [apply sim_zero|].
    eapply sim_fstep; [reflexivity|].
    apply (Hscrut n1 ltac:(lia) G cur kcont st1 s st' e ce (FkCase cls e k) Hwscrut Hfs Hks Hws Hl).
    - eapply Gused_grows; eauto.
    - eapply incl_grows; eauto.
    - intros x Hx. apply in_cnames_inv in Hx. destruct Hx as [bb [Hbb E]]. subst x.
      destruct (Hsrc bb Hbb) as [Hg|Hc].
      + destruct (inG_used G _ bb st HG Hg) as [y [Ey Hy]]. exists y. split; [exact Ey|]. eapply grows_vars_incl; eauto.
      + eapply names_in_grows; [exact Hni | exact G1 | apply in_cnames; exact Hc].
    - rewrite Hkscrut. simpl. split; [reflexivity | exact Hcd].
    - eapply erel_weaken; [exact He | | lia]. intros x Hx. exact Hx.
    - rewrite Hkscrut. split.
      + intros bb Hbb Hs. destruct (Hsrc bb Hbb) as [[Hg _]|Hc].
        * eapply erel_kind; eauto.
        * apply (proj1 HCK); assumption.
      + intros Hall ce' Ha. exists (KCase cls' ce'). split; [reflexivity|].
        apply (Kb_intro p cp). intros j Hj v pv Hd Hv.
        destruct j as [|j1]; [apply sim_zero|].
        destruct v as [z|tag fields|cls0 e0|t0 e0]; try contradiction;
          [eapply sim_stuck; reflexivity|].
        apply vrel_ctor in Hv. destruct Hv as [fields' [Epv Hfields]]. subst pv.
        apply dval_ctor in Hd.
        pose proof (clauses_find p cur cont1 cls st0 cls' st1 Hclauses tag) as Hfind.
        destruct (ffind_clause cls tag) as [[pl x names ctx body]|] eqn:Efc;
          [|eapply sim_stuck; simpl; unfold fselect; rewrite Efc; reflexivity].
        destruct Hfind as [body' [sta [stb [Ecf [Hwb [Hga [Hgb [Hfvc Hin]]]]]]]].
        destruct (fbind (fvars ctx) fields e) as [e1|] eqn:Ebind;
          [|eapply sim_stuck; simpl; unfold fselect; rewrite Efc; simpl; rewrite Ebind; reflexivity].
        eapply sim_fstep; [simpl; unfold fselect; rewrite Efc; simpl; rewrite Ebind; reflexivity|].
        (* what the fragment says about this clause *)
        rewrite forallb_forall in Hfc, Hwcl, Hkcl.
        specialize (Hfc _ Hin). specialize (Hwcl _ Hin). specialize (Hkcl _ Hin).
        simpl in Hfc, Hwcl, Hkcl.
        apply andb_prop in Hfc. destruct Hfc as [Hfc Hfb]. apply andb_prop in Hfc. destruct Hfc as [_ Hprd].
        apply andb_prop in Hkcl. destruct Hkcl as [Hkb Hkb0]. apply negb_true_iff in Hkb0.
        destruct (kinds_of_fields p cp Hcod ctx fields e e1 Hd Hprd Ebind) as [Hk1 Hk2].
        assert (Hctx_bnd : forall y, In y (fvars ctx) -> In y (bnd (FCase scrut targs cls ty))).
        { intros y Hy. simpl. apply in_or_app. right. apply in_flat_map.
          exists (FClause pl x names ctx body). split; [exact Hin | apply in_or_app; left; exact Hy]. }
        assert (Hbody_bnd : forall y, In y (bnd body) -> In y (bnd (FCase scrut targs cls ty))).
        { intros y Hy. simpl. apply in_or_app. right. apply in_flat_map.
          exists (FClause pl x names ctx body). split; [exact Hin | apply in_or_app; right; exact Hy]. }
        assert (Hcv : forall x0, In x0 (cvars (compile_ctx ctx)) -> exists y, x0 = new_id y /\ In y (fvars ctx)).
        { intros x0 Hx0. unfold cvars, compile_ctx in Hx0. rewrite map_map in Hx0. apply in_map_iff in Hx0.
          destruct Hx0 as [b0 [E Hb0]]. exists (fbvar b0). split; [symmetry; exact E | unfold fvars; apply in_map; exact Hb0]. }
        assert (Hout : forall x0, Sof (fvs body') x0 -> ~ In x0 (cvars (compile_ctx ctx)) -> In x0 (cnames (fvc cls'))).
        { intros x0 Hx0 Hn0. unfold Sof in Hx0. apply in_cnames_inv in Hx0. destruct Hx0 as [bb [Hbb E]]. subst x0.
          apply in_cnames. apply Hfvc; [exact Hbb|]. intros Hc. apply Hn0. unfold cvars. apply in_map. exact Hc. }
        destruct (erel_binds p cp j1 G ctx (Sof (fvs body'))
                    (fun x0 => Sof (fvs body') x0 /\ ~ In x0 (cvars (compile_ctx ctx))) fields fields' e ce' e1)
          as [ce1 [Hcb [Hr Hlk]]].
        { eapply brels_mono; [exact Hfields | lia]. }
        { exact Hk2. }
        { exact Hk1. }
        { exact Ebind. }
        { eapply erel_agree with (S := Sof (fvs s)) (ce := ce).
          - eapply erel_weaken; [exact He | | lia]. intros x0 Hx0. exact Hx0.
          - intros x0 [Hx0 Hn0]. pose proof (Hout x0 Hx0 Hn0) as Hc0. split; [apply Hall; exact Hc0 | apply Ha; exact Hc0]. }
        { intros x0 Hx0 Hn0. split; assumption. }
        simpl. unfold select. rewrite Ecf. cbn [cl_ctx cl_body]. rewrite Hcb.
        rewrite Forall_forall in Hcls. specialize (Hcls _ Hin). simpl in Hcls.
        rewrite <- Hkb0 in Hsh1, HCK1.
        apply (Hcls j1 ltac:(lia) (compile_ctx ctx ++ G) cur cont1 sta body' stb e1 ce1 k Hwb Hfb Hkb Hwcl).
        * eapply lifted_ok_grows; [exact Lst1 | exact Hgb].
        * intros bb Hbb. apply in_app_or in Hbb. destruct Hbb as [Hbb|Hbb].
          -- destruct (Hcv (cbvar bb) (in_map cbvar _ _ Hbb)) as [y [Ey Hy]]. exists y. split; [exact Ey|].
             eapply grows_vars_incl; [eapply grows_trans; [exact Hg0 | exact Hga]|]. apply Hbn. apply Hctx_bnd. exact Hy.
          -- eapply Gused_grows; [exact HG | eapply grows_trans; [exact Hg0 | exact Hga] | exact Hbb].
        * eapply incl_grows; [|eapply grows_trans; [exact Hg0 | exact Hga]]. intros y Hy. apply Hbn. apply Hbody_bnd. exact Hy.
        * intros x0 Hx0. apply in_cnames_inv in Hx0. destruct Hx0 as [bb [Hbb E]]. subst x0.
          eapply names_in_grows; [exact Hni | eapply grows_trans; [exact Hg0 | exact Hga] | apply in_cnames; apply Hsub; exact Hbb].
        * exact Hsh1.
        * exact Hr.
        * eapply CK_transfer; [exact Hsh1 | exact HCK1 | | lia].
          intros x0 Hxc Hxb.
          assert (Hn0 : ~ In x0 (cvars (compile_ctx ctx))).
          { intros Hc0. destruct (Hcv x0 Hc0) as [y [Ey Hy]]. subst x0.
            apply (H8 y).
            { apply in_flat_map. exists (FClause pl x names ctx body). split; [exact Hin | exact Hy]. }
            apply in_cnames_inv in Hxc. destruct Hxc as [bb [Hbb E]]. rewrite <- E. apply in_cnames. apply Hsub. exact Hbb. }
          pose proof (Hout x0 Hxb Hn0) as Hc0.
          split; [apply Hall; exact Hc0|]. rewrite (Hlk x0 Hn0). apply Ha. exact Hc0.
  Qed.
  Lemma fl_case : forall N scrut targs cls ty,
    flw p cp N scrut -> Forall (fun c => flw p cp N (clause_body c)) cls ->
    flw p cp N (FCase scrut targs cls ty).
  Proof.
    intros N scrut targs cls ty Hscrut Hcls.
    eapply (fl_guard p cp Hcod); [| |apply fl_case_in; assumption].
    - intros cur cont. rewrite wc_unfold. reflexivity.
    - reflexivity.
  Qed.

  (* ---------- new ---------- *)
  Lemma coclauses_find : forall cur cls st cls' st',
    coclauses_with (fun b => wc (codata_of p) cur false b) cls st = Ok (cls', st') ->
    forall tag,
    match ffind_clause cls tag with
    | None => cfind_clause cls' (new_id tag) = None
    | Some (FClause pl x names ctx body) =>
        exists ty0 a sta sta' body' stb,
          cfind_clause cls' (new_id tag) =
            Some (CClause CPrd (new_id x) (compile_ctx ctx ++ [mkcb (new_id a) CCns (compile_ty ty0)]) body') /\
          fterm_type body = Some ty0 /\ fresh_covar sta = Ok (a, sta') /\
          wc (codata_of p) cur false body (CXVar CCns (new_id a) (compile_ty ty0)) sta' = Ok (body', stb) /\
          grows st sta /\ grows stb st' /\
          (forall bb, In bb (fvs body') -> ~ In bb (compile_ctx ctx ++ [mkcb (new_id a) CCns (compile_ty ty0)]) -> In bb (fvc cls')) /\
          In (FClause pl x names ctx body) cls /\ x = tag
    end.
  Proof.
    intros cur. induction cls as [|c r IH]; intros st cls' st' H tag.
    - simpl in H. apply mret_inv in H. destruct H; subst. reflexivity.
    - destruct c as [pl x names ctx body]. apply coclauses_with_cons_inv in H.
      destruct H as [c' [st1 [rest [Hc [Hrest El]]]]]. subst cls'.
      apply compile_coclause_inv in Hc. destruct Hc as [ty0 [a [sta' [body' [Ety [Hfr [Hbody Ec]]]]]]]. subst c'.
      assert (Hg0 : grows st sta') by (eapply mgrows_fresh_covar; exact Hfr).
      assert (Hg1 : grows sta' st1) by (eapply wc_grows; exact Hbody).
      assert (Hg2 : grows st1 st').
      { revert Hrest. apply mgrows_coclauses_with. apply Forall_forall. intros c0 _ k0.
        apply (proj1 (wc_cmp_grows (codata_of p) cur false (clause_body c0))). }
      unfold ffind_clause, cfind_clause. simpl. rewrite cid_eqb_new_id.
      destruct (String.eqb x tag) eqn:E.
      + exists ty0, a, st, sta', body', st1. split; [reflexivity|]. split; [exact Ety|]. split; [exact Hfr|].
        split; [exact Hbody|]. split; [apply grows_refl|]. split; [exact Hg2|]. split; [|split; [left; reflexivity | apply String.eqb_eq; exact E]].
        intros bb Hb Hn. apply fvc_cons_body; assumption.
      + specialize (IH _ _ _ Hrest tag). unfold ffind_clause, cfind_clause in IH.
        destruct (find (fun c => String.eqb (fcl_xtor c) tag) r) as [[pl0 x0 names0 ctx0 body0]|].
        * destruct IH as [ty1 [a1 [sta1 [sta1' [b' [stb [E1 [E2 [E3 [E4 [E5 [E6 [E7 [E8 E9]]]]]]]]]]]]]].
          exists ty1, a1, sta1, sta1', b', stb.
          split; [exact E1|]. split; [exact E2|]. split; [exact E3|]. split; [exact E4|].
          split; [eapply grows_trans; [eapply grows_trans; [exact Hg0 | exact Hg1] | exact E5]|]. split; [exact E6|].
          split; [|split; [right; exact E8 | exact E9]].
          intros bb Hb Hn. apply fvc_cons_tail. apply E7; assumption.
        * exact IH.
  Qed.

  Definition clauses_frag (cls : list fclause) : bool :=
    forallb (fun c => match c with FClause _ _ names ctx body =>
                list_eqb String.eqb names (fvars ctx) && ctx_data p ctx && frag p body end) cls.
  Definition coclauses_kd (cls : list fclause) : bool :=
    forallb (fun c => match c with FClause _ x _ _ body => kd p body && Bool.eqb (tkind p body) (dkind p x) end) cls.

  Lemma new_core : forall N cls, Forall (fun c => flw p cp N (clause_body c)) cls ->
    forall n, (n <= N)%nat -> forall G cur st cls' st' e ce,
    coclauses_with (fun b => wc (codata_of p) cur false b) cls st = Ok (cls', st') ->
    clauses_frag cls = true -> coclauses_kd cls = true ->
    forallb (fun c => match c with FClause _ _ _ ctx body => ws (compile_ctx ctx ++ G) body end) cls = true ->
    lifted_ok cp st' -> Gused G st -> incl (flat_map cl_bnd cls) (st_used_vars st) ->
    erel p cp n G (Sof (fvc cls')) e ce ->
    Co p cp n (FvNew cls e) (PCocase cls' ce).
  Proof.
    intros N cls Hcls n Hn G cur st cls' st' e ce Hco Hfc Hkc Hwc Hl HG Hbn He.
    apply Co_intro. intros j Hj x args args' k kv Hargs Hdf Hk.
    pose proof (coclauses_find cur cls st cls' st' Hco x) as Hfind.
    destruct (ffind_clause cls x) as [[pl x0 names ctx body]|] eqn:Efc;
      [|eapply sim_stuck; simpl; unfold fselect; rewrite Efc; reflexivity].
    destruct Hfind as [ty0 [a [sta [sta' [body' [stb [Ecf [Ety [Hfr [Hwb [Hga [Hgb [Hfvc [Hin Ex]]]]]]]]]]]]]]. subst x0.
    destruct (fbind (fvars ctx) args e) as [e1|] eqn:Ebind;
      [|eapply sim_stuck; simpl; unfold fselect; rewrite Efc; simpl; rewrite Ebind; reflexivity].
    eapply sim_fstep; [simpl; unfold fselect; rewrite Efc; simpl; rewrite Ebind; reflexivity|].
    unfold clauses_frag, coclauses_kd in *. rewrite forallb_forall in Hfc, Hwc, Hkc.
    specialize (Hfc _ Hin). specialize (Hwc _ Hin). specialize (Hkc _ Hin).
    simpl in Hfc, Hwc, Hkc.
    apply andb_prop in Hfc. destruct Hfc as [Hfc Hfb]. apply andb_prop in Hfc. destruct Hfc as [_ Hprd].
    apply andb_prop in Hkc. destruct Hkc as [Hkb Hkx]. apply Bool.eqb_prop in Hkx.
    destruct (kinds_of_fields p cp Hcod ctx args e e1 Hdf Hprd Ebind) as [Hk1 Hk2].
    destruct (fresh_in_vars_inv _ _ _ _ Hfr) as [Hfresh [Hused _]].
    assert (Hgfr : grows sta sta') by (eapply mgrows_fresh_covar; exact Hfr).
    assert (Hgall : grows st sta') by (eapply grows_trans; [exact Hga | exact Hgfr]).
    set (ab := mkcb (new_id a) CCns (compile_ty ty0)) in *.
    assert (Hctx_bnd : forall y, In y (fvars ctx) -> In y (st_used_vars st)).
    { intros y Hy. apply Hbn. apply in_flat_map. exists (FClause pl x names ctx body). split; [exact Hin | simpl; apply in_or_app; left; exact Hy]. }
    assert (Hbody_bnd : forall y, In y (bnd body) -> In y (st_used_vars st)).
    { intros y Hy. apply Hbn. apply in_flat_map. exists (FClause pl x names ctx body). split; [exact Hin | simpl; apply in_or_app; right; exact Hy]. }
    assert (Hcv : forall x0, In x0 (cvars (compile_ctx ctx)) -> exists y, x0 = new_id y /\ In y (fvars ctx)).
    { intros x0 Hx0. unfold cvars, compile_ctx in Hx0. rewrite map_map in Hx0. apply in_map_iff in Hx0.
      destruct Hx0 as [b0 [E Hb0]]. exists (fbvar b0). split; [symmetry; exact E | unfold fvars; apply in_map; exact Hb0]. }
    assert (Ha_ctx : ~ In (new_id a) (cvars (compile_ctx ctx))).
    { intros Hc0. destruct (Hcv _ Hc0) as [y [Ey Hy]]. apply new_id_inj in Ey. subst y.
      apply Hfresh. eapply grows_vars_incl; [exact Hga|]. apply Hctx_bnd. exact Hy. }
    assert (Hout : forall x0, Sof (fvs body') x0 -> ~ In x0 (cvars (compile_ctx ctx)) -> x0 <> new_id a -> In x0 (cnames (fvc cls'))).
    { intros x0 Hx0 Hn0 Hna. unfold Sof in Hx0. apply in_cnames_inv in Hx0. destruct Hx0 as [bb [Hbb E]]. subst x0.
      apply in_cnames. apply Hfvc; [exact Hbb|]. intros Hc. apply in_app_or in Hc. destruct Hc as [Hc|[Hc|[]]].
      - apply Hn0. unfold cvars. apply in_map. exact Hc.
      - apply Hna. subst bb. reflexivity. }
    destruct (erel_binds p cp j G ctx (Sof (fvs body'))
                (fun x0 => Sof (fvs body') x0 /\ ~ In x0 (cvars (compile_ctx ctx))) args args' e ((new_id a, BK kv) :: ce) e1)
      as [ce1 [Hcb [Hr Hlk]]].
    { exact Hargs. }
    { exact Hk2. }
    { exact Hk1. }
    { exact Ebind. }
    { eapply erel_gen with (S := Sof (fvc cls')).
      - eapply erel_weaken; [exact He | | lia]. intros x0 Hx0. exact Hx0.
      - intros bb Hbb E. destruct (HG bb Hbb) as [y [Ey Hy]]. rewrite Ey in E. apply new_id_inj in E. subst y.
        apply Hfresh. eapply grows_vars_incl; [exact Hga | exact Hy].
      - intros x0 [Hx0 Hn0] Hna. apply Hout; assumption. }
    { intros x0 Hx0 Hn0. split; assumption. }
    simpl. unfold select. rewrite Ecf. cbn [cl_ctx cl_body].
    unfold cvars. rewrite map_app. simpl map. fold (cvars (compile_ctx ctx)).
    rewrite (cbind_snoc_gen _ _ _ _ _ _ Hcb).
    rewrite Forall_forall in Hcls. specialize (Hcls _ Hin). simpl in Hcls.
    apply (Hcls j ltac:(lia) (compile_ctx ctx ++ G) cur (CXVar CCns (new_id a) (compile_ty ty0)) sta' body' stb e1 ce1 k Hwb Hfb Hkb Hwc).
    - eapply lifted_ok_grows; [exact Hl | exact Hgb].
    - intros bb Hbb. apply in_app_or in Hbb. destruct Hbb as [Hbb|Hbb].
      + destruct (Hcv (cbvar bb) (in_map cbvar _ _ Hbb)) as [y [Ey Hy]]. exists y. split; [exact Ey|].
        eapply grows_vars_incl; [exact Hgall|]. apply Hctx_bnd. exact Hy.
      + eapply Gused_grows; [exact HG | exact Hgall | exact Hbb].
    - intros y Hy. eapply grows_vars_incl; [exact Hgall|]. apply Hbody_bnd. exact Hy.
    - intros x0 Hx0. simpl in Hx0. destruct Hx0 as [Hx0|[]]. subst x0. exists a. split; [reflexivity|]. rewrite Hused. left. reflexivity.
    - exact I.
    - exact Hr.
    - apply CK_covar with (kv := kv).
      + rewrite (Hlk _ Ha_ctx). rewrite clookup_cons, cid_eqb_refl. reflexivity.
      + rewrite Hkx. exact Hk.
  Qed.

  Lemma fl_new : forall N cls ty, Forall (fun c => flw p cp N (clause_body c)) cls ->
    flw p cp N (FNew cls ty) /\ flc p cp N (FNew cls ty) /\ flt p cp N (FNew cls ty).
  Proof.
    intros N cls ty Hcls.
    assert (Hcore : forall n, (n <= N)%nat -> forall G cur ty' st c st' e ce,
              cmp (codata_of p) cur false (FNew cls ty) ty' st = Ok (c, st') ->
              frag p (FNew cls ty) = true -> kd p (FNew cls ty) = true -> ws G (FNew cls ty) = true ->
              lifted_ok cp st' -> Gused G st -> incl (bnd (FNew cls ty)) (st_used_vars st) ->
              erel p cp n G (Sof (fvt c)) e ce ->
              exists cls' cty, c = CXCase CPrd cls' cty /\ Co p cp n (FvNew cls e) (PCocase cls' ce)).
    { intros n Hn G cur ty' st c st' e ce Hc Hf Hkd Hws Hl HG Hbn He.
      rewrite cmp_unfold in Hc. apply cmp_new_inv in Hc. destruct Hc as [cls' [ty0 [Hco [Ety Ec]]]]. subst c.
      simpl in Hf, Hkd, Hws. apply andb_prop in Hkd. destruct Hkd as [_ Hkc].
      exists cls', (compile_ty ty0). split; [reflexivity|].
      eapply (new_core N cls Hcls n Hn G cur st cls' st' e ce); eauto. }
    split; [|split].
    - intros n Hn G cur cont st s st' e ce k Hwc Hf Hkd Hws Hl HG Hbn Hni Hsh He HCK.
      rewrite wc_unfold in Hwc. apply wc_new_inv in Hwc. destruct Hwc as [cls0 [ty0 [Hco0 [Ety0 Es]]]]. subst s ty.
      destruct (Hcore n Hn G cur CI64 st (CXCase CPrd cls0 (compile_ty ty0)) st' e ce) as [cls' [cty [Ec HCo]]]; auto.
      { rewrite cmp_unfold. unfold cmp_new, mbind. rewrite Hco0. reflexivity. }
      { eapply erel_weaken; [exact He | | apply Nat.le_refl]. apply Sof_incl. intros bb Hx. apply fvs_cut. left. exact Hx. }
      injection Ec as Ec1 Ec2. subst cls0 cty.
      assert (HKS : KS p cp n (tkind p (FNew cls (Some ty0))) k cont ce).
      { eapply CK_KS; [exact HCK|]. intros bb Hbb. apply Sof_in. apply fvs_cut. right. exact Hbb. }
      destruct (KS_cut p cp n _ k cont ce (CXCase CPrd cls' (compile_ty ty0)) (compile_ty ty0) Hsh HKS I) as [kv [Hr Hk]].
      destruct n as [|n1]; [apply sim_zero|].
      eapply sim_fstep; [reflexivity|].
      apply sim_cstep. eapply sim_rreach; [|exact Hr]. simpl.
      simpl in Hkd. apply andb_prop in Hkd. destruct Hkd as [Hkty _].
      eapply Kk_use; [exact Hk | lia | | ].
      + unfold tkind. simpl. rewrite Hkty. exact I.
      + simpl. eapply Co_mono; [exact HCo | lia].
    - intros n Hn G cur ty' st c st' e ce k m Hc Hf Hkd Hk0 Hws Hl HG Hbn Hty He HK.
      simpl in Hkd. apply andb_prop in Hkd. destruct Hkd as [Hkty _]. unfold tkind in Hk0. simpl in Hk0. congruence.
    - intros n Hn G cur ty' st c st' e ce Hc Hf Hkd Hk1 Hws Hl HG Hbn Hty He.
      destruct (Hcore n Hn G cur ty' st c st' e ce Hc Hf Hkd Hws Hl HG Hbn He) as [cls' [cty [Ec HCo]]]. subst c.
      exists (PCocase cls' ce). split; [|split; [|split; [|split]]].
      + intros m. reflexivity.
      + intros v s0 ty1. reflexivity.
      + intros cd tag vals. reflexivity.
      + apply Co_intro. intros j Hj x args args' k kv Hargs Hdf Hk.
        eapply sim_fstep; [reflexivity|].
        destruct j as [|j1]; [apply sim_zero|].
        eapply sim_fstep; [reflexivity|].
        destruct j1 as [|j2]; [apply sim_zero|].
        apply (Co_use p cp n _ _ HCo j2 ltac:(lia)).
        * eapply brels_mono; [exact Hargs | lia].
        * exact Hdf.
        * eapply Kk_mono; [exact Hk | lia].
      + intros y ty0 chi E. discriminate E.
  Qed.

  (* ---------- destructor calls (scrutinee a variable or a `new`) ---------- *)
  Lemma wc_atomic_cut : forall cur t cont st s st', scrut_atomic t = true ->
    wc (codata_of p) cur false t cont st = Ok (s, st') ->
    exists c ty0, fterm_type t = Some ty0 /\ (forall ty, cmp (codata_of p) cur false t ty st = Ok (c, st')) /\
                  s = CCut c (compile_ty ty0) cont.
  Proof.
    intros cur t cont st s st' Ha H. destruct t; simpl in Ha; try discriminate; rewrite wc_unfold in H.
    - apply wc_var_inv in H. destruct H as [ty0 [Ety [Es Est]]]. subst.
      exists (CXVar CPrd (new_id v) (compile_ty ty0)), ty0. split; [reflexivity|]. split; [|reflexivity].
      intros ty1. rewrite cmp_unfold. reflexivity.
    - unfold wc_new in H. minv H. apply mlift_inv in E. destruct E as [E ->]. apply expect_ty_inv in E.
      minv H. apply mret_inv in H. destruct H; subst.
      exists x0, x. split; [reflexivity|]. split; [|reflexivity]. intros ty1. rewrite cmp_unfold. exact E0.
  Qed.

  Lemma fl_dtor_atomic : forall N scrut x targs args ty, scrut_atomic scrut = true ->
    flt p cp N scrut -> Forall (flc p cp N) args -> Forall (flt p cp N) args ->
    flw p cp N (FDtor scrut x targs args ty).
  Proof.
    intros N scrut x targs args ty Hat0 HTs HA HT.
    intros n Hn G cur cont st s st' e ce k Hwc Hf Hkd Hws Hl HG Hbn Hni Hsh He HCK.
    rewrite wc_unfold in Hwc. apply wc_dtor_inv in Hwc.
    destruct Hwc as [args' [st1 [sty0 [Hargs [Esty Hwscrut]]]]].
    simpl in Hf, Hkd, Hws.
    apply andb_prop in Hf. destruct Hf as [Hf _]. pose proof Hat0 as Hat. apply andb_prop in Hf. destruct Hf as [Hfs Hfa].
    apply andb_prop in Hws. destruct Hws as [Hws Hwa].
    apply andb_prop in Hkd. destruct Hkd as [Hkd Hkx]. apply andb_prop in Hkd. destruct Hkd as [Hkd Hka].
    apply andb_prop in Hkd. destruct Hkd as [Hks Hkscrut]. apply Bool.eqb_prop in Hkx.
    assert (Hkind : tkind p (FDtor scrut x targs args ty) = dkind p x) by (unfold tkind; simpl; exact Hkx).
    rewrite Hkind in *.
    destruct (wc_atomic_cut cur scrut _ st1 s st' Hat Hwscrut) as [c [ty0 [Ety [Hcmp Es]]]].
    rewrite Esty in Ety. injection Ety as Ety. subst ty0 s.
    set (dcont := CXtor CCns (new_id x) (args' ++ [CConsumer cont]) (compile_ty sty0)) in *.
    assert (Hg1 : grows st st1).
    { revert Hargs. apply mgrows_subst_with. apply Forall_forall. intros a0 _ ty1.
      apply (proj2 (wc_cmp_grows (codata_of p) cur false a0)). }
    assert (Hcd : is_codata cp (compile_ty sty0) = true).
    { rewrite (is_codata_compile p cp Hcod). unfold tkind in Hkscrut. rewrite Esty in Hkscrut. exact Hkscrut. }
    destruct (HTs n Hn G cur (compile_ty sty0) st1 c st' e ce (Hcmp _) Hfs Hks Hkscrut Hws Hl) as [pv [_ [_ [Hcutd [HCo _]]]]].
    { eapply Gused_grows; eauto. }
    { eapply incl_grows; [|exact Hg1]. intros z Hz. apply Hbn. simpl. apply in_or_app. left. exact Hz. }
    { exact Hcd. }
    { eapply erel_weaken; [exact He | | apply Nat.le_refl]. apply Sof_incl. intros bb Hx. apply fvs_cut. left. exact Hx. }
    assert (HKS : KS p cp n (dkind p x) k cont ce).
    { eapply CK_KS; [exact HCK|]. intros bb Hbb. apply Sof_in. apply fvs_cut. right.
      apply fvt_xtor. apply fva_app. right. apply fva_cons. left. exact Hbb. }
    destruct (darg_props args Hfa) as [Hfa' Hpo].
    assert (Hstep : cstep cp (Run (CCut c (compile_ty sty0) dcont) ce) =
                    start_args cp (args' ++ [CConsumer cont]) ce
                      (FinXtorK (new_id x) (MCutP (is_codata cp (compile_ty sty0)) c ce))).
    { destruct scrut; simpl in Hat; try discriminate.
      - specialize (Hcmp CI64). rewrite cmp_unfold in Hcmp. apply cmp_var_inv in Hcmp. destruct Hcmp as [t0 [_ [Ec _]]]. subst c. reflexivity.
      - specialize (Hcmp CI64). rewrite cmp_unfold in Hcmp. apply cmp_new_inv in Hcmp. destruct Hcmp as [cl [t0 [_ [_ Ec]]]]. subst c. reflexivity. }
    destruct n as [|n1]; [apply sim_zero|].
    eapply sim_fstep; [reflexivity|]. apply sim_cstep. rewrite Hstep, start_args_eq.
    apply (args_sim p cp Hcod N args HA HT n1 ltac:(lia) true G cur st args' st1 e ce [CConsumer cont]
             (AfDtor scrut x) (FinXtorK (new_id x) (MCutP (is_codata cp (compile_ty sty0)) c ce)) k [] [] Hargs Hfa' Hka (fun _ => Hpo) Hwa).
    - eapply lifted_ok_grows; [exact Hl|]. eapply cmp_grows. apply (Hcmp CI64).
    - exact HG.
    - intros z Hz. apply Hbn. simpl. apply in_or_app. right. exact Hz.
    - eapply erel_weaken; [exact He | | lia]. apply Sof_incl. intros bb Hx. apply fvs_cut. right.
      apply fvt_xtor. apply fva_app. left. exact Hx.
    - intros j Hj new new' Hnew Hkinds.
      destruct j as [|j1]; [apply sim_zero|].
      eapply sim_fstep; [simpl; rewrite rev_append_nil_twice; reflexivity|].
      unfold cargs_res. apply sim_cstep.
      destruct (KS_arg p cp _ _ _ _ ce (MArgs (rev_append new' []) [] ce (FinXtorK (new_id x) (MCutP (is_codata cp (compile_ty sty0)) c ce))) Hsh
                  (KS_mono p cp _ (S j1) _ _ _ _ HKS ltac:(lia))) as [kv [Hreach Hkk]].
      eapply sim_rreach; [|exact Hreach].
      apply sim_cstep. rewrite cstep_app_margs. unfold cargs_res. simpl finish_args.
      change (rev_append (BK kv :: rev_append new' []) []) with (rev_append (rev_append new' []) [BK kv]).
      rewrite rev_append_twice_app.
      apply sim_cstep. simpl cstep. rewrite Hcutd.
      (* the scrutinee: the thunk of the term, forced by the destructor frame *)
      assert (Hdf : Forall dfield new).
      { clear -Hkinds. induction Hkinds as [|b y r r' [Hb _] Hr IH]; constructor; [exact Hb | exact IH]. }
      assert (Hth : sim p cp (S j1) (FRet (FkDtor x new k) (FvThunk scrut e))
                        (interact_val pv (KDtor (new_id x) (new' ++ [BK kv])))).
      { apply (Co_use p cp (S n1) _ pv HCo j1 ltac:(lia)).
        - eapply brels_mono; [exact Hnew | lia].
        - exact Hdf.
        - eapply Kk_mono; [exact Hkk | lia]. }
      intros out o Hr Fo. apply (Hth out o); [|exact Fo].
      rewrite (frun_next p j1 _ _ out (eq_refl : fstep p (FRet (FkDtor x new k) (FvThunk scrut e)) = FNext (FEval scrut e (FkDtor x new k)))).
      exact Hr.
  Qed.

  (* ---------- destructor calls with an arbitrary scrutinee and atomic arguments: the source
     evaluates the arguments (lookups) first, the translation hands the destructor consumer - with the
     arguments still as syntax - to the scrutinee ---------- *)
  Definition atom_val (e : fenv) (y : fterm) : option fbv :=
    match y with
    | FLit z => Some (FbP (FvInt z))
    | FVar v _ _ => match flookup e v with Some (FbP val) => Some (FbP val) | _ => None end
    | _ => None
    end.
  Fixpoint atoms (e : fenv) (args : list fterm) : option (list fbv) :=
    match args with
    | [] => Some []
    | y :: r => match atom_val e y, atoms e r with Some b, Some l => Some (b :: l) | _, _ => None end
    end.

  Lemma sim_after_step : forall cf cf' r, fstep p cf = FNext cf' -> (forall j, sim p cp j cf' r) -> forall j, sim p cp j cf r.
  Proof. intros cf cf' r Hs H j. destruct j as [|j]; [apply sim_zero | eapply sim_fstep; [exact Hs | apply H]]. Qed.
  Lemma sim_all_stuck : forall cf w r, fstep p cf = FHalt (OStuck w) -> forall j, sim p cp j cf r.
  Proof. intros cf w r Hs j. destruct j as [|j]; [apply sim_zero | eapply sim_stuck; exact Hs]. Qed.

  Definition plain_data_arg (y : fterm) : Prop :=
    match y with FVar _ _ (Some FCns) => False | _ => True end /\ tkind p y = false.

  Lemma atomic_src : forall e args, forallb atomic args = true -> (forall y, In y args -> plain_data_arg y) ->
    match atoms e args with
    | Some vals => forall f k done r j, sim p cp j (FArgs (rev_append vals done) [] e f k) r ->
                                        sim p cp (3 * List.length args + j) (FArgs done args e f k) r
    | None => forall f k done r j, sim p cp j (FArgs done args e f k) r
    end.
  Proof.
    intros e. induction args as [|y r IH]; intros Hat Hpl.
    - simpl. intros f k done r0 j H. exact H.
    - simpl in Hat. apply andb_prop in Hat. destruct Hat as [Hat1 Hat2].
      specialize (IH Hat2 (fun y0 Hy0 => Hpl y0 (or_intror Hy0))).
      destruct (Hpl y (or_introl eq_refl)) as [Hncns Htk].
      assert (Hstep1 : forall done f k, fstep p (FArgs done (y :: r) e f k) = FNext (FEval y e (FkArgs done r e f k))).
      { intros done f k. apply fstep_args_eval; assumption. }
      simpl atoms. destruct y; simpl in Hat1; try discriminate; simpl atom_val.
      + (* variable *)
        destruct (flookup e v) as [[val|k0]|] eqn:El.
        * destruct (atoms e r) as [vals|].
          -- intros f k done r0 j H.
             replace (3 * List.length (FVar v ty chi :: r) + j)%nat with (S (S (S (3 * List.length r + j)))) by (simpl; lia).
             eapply sim_fstep; [apply Hstep1|]. eapply sim_fstep; [simpl; rewrite El; reflexivity|].
             eapply sim_fstep; [reflexivity|]. apply IH. exact H.
          -- intros f k done r0 j. eapply sim_after_step; [apply Hstep1|]. intros j1.
             eapply sim_after_step; [simpl; rewrite El; reflexivity|]. intros j2.
             eapply sim_after_step; [reflexivity|]. intros j3. apply IH.
        * intros f k done r0 j. eapply sim_after_step; [apply Hstep1|].
          apply (sim_all_stuck _ "var-kind"). simpl. rewrite El. reflexivity.
        * intros f k done r0 j. eapply sim_after_step; [apply Hstep1|].
          apply (sim_all_stuck _ "var-unbound"). simpl. rewrite El. reflexivity.
      + (* literal *)
        destruct (atoms e r) as [vals|].
        * intros f k done r0 j H.
          replace (3 * List.length (FLit n :: r) + j)%nat with (S (S (S (3 * List.length r + j)))) by (simpl; lia).
          eapply sim_fstep; [reflexivity|]. eapply sim_fstep; [reflexivity|].
          eapply sim_fstep; [reflexivity|]. apply IH. exact H.
        * intros f k done r0 j. eapply sim_after_step; [reflexivity|]. intros j1.
          eapply sim_after_step; [reflexivity|]. intros j2.
          eapply sim_after_step; [reflexivity|]. intros j3. apply IH.
  Qed.

  Lemma darg_plain : forall args, forallb (darg_ok p) args = true -> forall y, In y args -> plain_data_arg y.
  Proof.
    intros args H y Hy. rewrite forallb_forall in H. specialize (H y Hy). unfold darg_ok in H.
    apply andb_prop in H. destruct H as [H Hdt]. apply andb_prop in H. destruct H as [Hc _]. apply negb_true_iff in Hc.
    split.
    - destruct y; try exact I. destruct chi as [[|]|]; try exact I. simpl in Hc. discriminate.
    - unfold tkind, data_ty in *. destruct (fterm_type y); [|reflexivity]. simpl. apply negb_true_iff in Hdt. exact Hdt.
  Qed.

  Lemma atomic_rel : forall n G cur args st args' st' e ce vals,
    subst_with (fun y => cmp (codata_of p) cur false y) args st = Ok (args', st') ->
    forallb atomic args = true -> forallb (darg_ok p) args = true -> forallb (ws_arg G) args = true ->
    erel p cp n G (Sof (fva args')) e ce -> atoms e args = Some vals ->
    exists vals',
      Forall2 (brel p cp n) vals vals' /\ Forall dfield vals /\
      (forall ce', agree (cnames (fva args')) ce ce' -> forall done' tail fin,
         rreach cp (cargs_res cp done' (args' ++ tail) ce' fin) (cargs_res cp (rev_append vals' done') tail ce' fin)).
  Proof.
    intros n G cur. induction args as [|y r IH]; intros st args' st' e ce vals Hs Hat Hda Hw He Hatoms.
    - simpl in Hs. apply mret_inv in Hs. destruct Hs; subst. simpl in Hatoms. injection Hatoms as Hatoms. subst vals.
      exists []. split; [constructor|]. split; [constructor|]. intros ce' _ done' tail fin. apply rreach_refl.
    - apply subst_with_cons_inv in Hs. destruct Hs as [a [st1 [rest [Ha [Hrest El]]]]]. subst args'.
      simpl in Hat, Hda, Hw. apply andb_prop in Hat. destruct Hat as [Hat1 Hat2].
      apply andb_prop in Hda. destruct Hda as [Hda1 Hda2]. apply andb_prop in Hw. destruct Hw as [Hw1 Hw2].
      simpl in Hatoms. destruct (atom_val e y) as [b|] eqn:Eb; [|discriminate].
      destruct (atoms e r) as [vr|] eqn:Er; [|discriminate]. injection Hatoms as Hatoms. subst vals.
      destruct (IH st1 rest st' e ce vr Hrest Hat2 Hda2 Hw2) as [vals' [Hrel [Hdf Hcore]]]; [|exact Er|].
      { eapply erel_weaken; [exact He | | apply Nat.le_refl]. apply Sof_incl. intros bb Hx. apply fva_cons. right. exact Hx. }
      assert (Hpl : plain_data_arg y) by (apply (darg_plain [y]); [simpl; rewrite Hda1; reflexivity | left; reflexivity]).
      destruct Hpl as [Hncns Htk].
      apply compile_arg_inv in Ha. destruct Ha as [[v [ty [ty0 [Ey _]]]]|[_ [ty0 [c [Ety [Ec Ea]]]]]].
      { subst y. contradiction. }
      subst a.
      destruct y; simpl in Hat1; try discriminate.
      + (* a variable *)
        rewrite cmp_unfold in Ec. apply cmp_var_inv in Ec. destruct Ec as [ty1 [Ety1 [Ec Est]]]. subst c st1 ty.
        assert (Hwv : ws G (FVar v (Some ty1) chi) = true).
        { destruct chi as [[|]|]; try exact Hw1. contradiction. }
        simpl in Hwv. apply var_ok_inv in Hwv. destruct Hwv as [ty2 [E2 Hg]]. injection E2 as E2. subst ty2.
        destruct (erel_var p cp n G _ e ce v _ He Hg) as [val [pv [Elk [Eclk [Hv Hd]]]]].
        { apply (Sof_in (mkcb (new_id v) CPrd (compile_ty ty1))). apply fva_cons. left. apply fvt_var. reflexivity. }
        unfold tkind in Htk. simpl in Htk. rewrite (is_codata_compile p cp Hcod), Htk in Hd. simpl in Hd.
        simpl in Eb. rewrite Elk in Eb. injection Eb as Eb. subst b.
        exists (BP pv :: vals'). split; [constructor; [exact Hv | exact Hrel]|].
        split; [constructor; [exact Hd | exact Hdf]|].
        intros ce' Hag done' tail fin. simpl app. unfold cargs_res at 1. apply rreach_step.
        simpl. rewrite (Hag (new_id v)); [|apply (in_cnames (mkcb (new_id v) CPrd (compile_ty ty1))); apply fva_cons; left; apply fvt_var; reflexivity].
        rewrite Eclk. apply rreach_step. rewrite cstep_app_margs.
        apply Hcore. intros z Hz. apply Hag. apply in_cnames_inv in Hz. destruct Hz as [bb [Hbb E]]. subst z.
        apply in_cnames. apply fva_cons. right. exact Hbb.
      + (* a literal *)
        rewrite cmp_unfold in Ec. unfold cmp_lit in Ec. apply mret_inv in Ec. destruct Ec; subst c st1.
        simpl in Eb. injection Eb as Eb. subst b.
        exists (BP (PInt n0) :: vals'). split; [constructor; [reflexivity | exact Hrel]|].
        split; [constructor; [exact I | exact Hdf]|].
        intros ce' Hag done' tail fin. simpl app. unfold cargs_res at 1. apply rreach_step.
        simpl. apply rreach_step. rewrite cstep_app_margs.
        apply Hcore. intros z Hz. apply Hag. apply in_cnames_inv in Hz. destruct Hz as [bb [Hbb E]]. subst z.
        apply in_cnames. apply fva_cons. right. exact Hbb.
  Qed.

  Lemma fl_dtor_general : forall N scrut x targs args ty, forallb atomic args = true ->
    flw p cp N scrut ->
    flw p cp N (FDtor scrut x targs args ty).
  Proof.
    intros N scrut x targs args ty Hatom Hscrut.
    intros n Hn G cur cont st s st' e ce k Hwc Hf Hkd Hws Hl HG Hbn Hni Hsh He HCK.
    rewrite wc_unfold in Hwc. apply wc_dtor_inv in Hwc.
    destruct Hwc as [args' [st1 [sty0 [Hargs [Esty Hwscrut]]]]].
    simpl in Hf, Hkd, Hws.
    apply andb_prop in Hf. destruct Hf as [Hf _]. apply andb_prop in Hf. destruct Hf as [Hfs Hfa].
    apply andb_prop in Hws. destruct Hws as [Hws Hwa].
    apply andb_prop in Hkd. destruct Hkd as [Hkd Hkx]. apply andb_prop in Hkd. destruct Hkd as [Hkd Hka].
    apply andb_prop in Hkd. destruct Hkd as [Hks Hkscrut]. apply Bool.eqb_prop in Hkx.
    assert (Hkind : tkind p (FDtor scrut x targs args ty) = dkind p x) by (unfold tkind; simpl; exact Hkx).
    rewrite Hkind in *.
    set (dcont := CXtor CCns (new_id x) (args' ++ [CConsumer cont]) (compile_ty sty0)) in *.
    assert (Hg1 : grows st st1).
    { revert Hargs. apply mgrows_subst_with. apply Forall_forall. intros a0 _ ty1.
      apply (proj2 (wc_cmp_grows (codata_of p) cur false a0)). }
    destruct (darg_arg_ok p args Hfa) as [Hfa' _].
    assert (HAub : Forall (ubc p cur) args) by (apply Forall_forall; intros a0 _; apply (ub_cmp p cur)).
    (* where the free bindings of the destructor consumer come from *)
    assert (Hsrc : forall bb, In bb (fvt dcont) -> inG G (flat_map nm args) bb \/ In bb (fvt cont)).
    { intros bb Hbb. apply fvt_xtor in Hbb. apply fva_app in Hbb. destruct Hbb as [Hbb|Hbb].
      - left. eapply (ub_args p cur G args HAub); eauto.
      - right. apply fva_cons in Hbb. destruct Hbb as [Hbb|Hbb]; [exact Hbb | apply fva_nil in Hbb; contradiction]. }
    destruct n as [|n1]; [apply sim_zero|].
    eapply sim_fstep; [reflexivity|].
    pose proof (atomic_src e args Hatom (darg_plain args Hfa)) as Hsrcargs.
    destruct (atoms e args) as [vals|] eqn:Eatoms; [|apply Hsrcargs].
    eapply sim_mono; [apply (Hsrcargs (AfDtor scrut x) k [] _ n1)|lia].
    destruct n1 as [|n2]; [apply sim_zero|].
    eapply sim_fstep; [simpl; rewrite rev_append_nil_twice; reflexivity|].
    apply (Hscrut n2 ltac:(lia) G cur dcont st1 s st' e ce (FkDtor x vals k) Hwscrut Hfs Hks Hws Hl).
    - eapply Gused_grows; eauto.
    - eapply incl_grows; [|exact Hg1]. intros z Hz. apply Hbn. simpl. apply in_or_app. left. exact Hz.
    - intros z Hz. apply in_cnames_inv in Hz. destruct Hz as [bb [Hbb E]]. subst z.
      destruct (Hsrc bb Hbb) as [Hg|Hc].
      + destruct (inG_used G _ bb st HG Hg) as [y [Ey Hy]]. exists y. split; [exact Ey|]. eapply grows_vars_incl; eauto.
      + eapply names_in_grows; [exact Hni | exact Hg1 | apply in_cnames; exact Hc].
    - rewrite Hkscrut. reflexivity.
    - eapply erel_weaken; [exact He | | lia]. intros z Hz. exact Hz.
    - rewrite Hkscrut. split.
      + intros bb Hbb Hs. destruct (Hsrc bb Hbb) as [[Hg _]|Hc].
        * eapply erel_kind; eauto.
        * apply (proj1 HCK); assumption.
      + intros Hall.
        assert (He_args : erel p cp n2 G (Sof (fva args')) e ce).
        { eapply erel_weaken; [exact He | | lia]. intros z Hz. apply Hall. unfold Sof in Hz.
          apply in_cnames_inv in Hz. destruct Hz as [bb [Hbb E]]. subst z. apply in_cnames. apply fvt_xtor. apply fva_app. left. exact Hbb. }
        destruct (atomic_rel n2 G cur args st args' st1 e ce vals Hargs Hatom Hfa Hwa He_args Eatoms) as [vals' [Hrel [Hdf Hcore]]].
        assert (HKS : KS p cp (S (S n2)) (dkind p x) k cont ce).
        { eapply CK_KS; [exact HCK|]. intros bb Hbb. apply Hall. apply in_cnames. apply fvt_xtor. apply fva_app. right.
          apply fva_cons. left. exact Hbb. }
        unfold dcont. simpl. intros ce' Hag m.
        assert (Hag_args : agree (cnames (fva args')) ce ce').
        { intros z Hz. apply Hag. apply in_cnames_inv in Hz. destruct Hz as [bb [Hbb E]]. subst z.
          apply in_cnames. apply fvt_xtor. apply fva_app. left. exact Hbb. }
        assert (Hag_cont : agree (cnames (fvt cont)) ce ce').
        { intros z Hz. apply Hag. apply in_cnames_inv in Hz. destruct Hz as [bb [Hbb E]]. subst z.
          apply in_cnames. apply fvt_xtor. apply fva_app. right. apply fva_cons. left. exact Hbb. }
        destruct (KS_arg p cp _ _ _ _ ce' (MArgs (rev_append vals' []) [] ce' (FinXtorK (new_id x) m)) Hsh
                    (KS_agree p cp _ _ _ _ _ _ Hsh HKS Hag_cont)) as [kv0 [Hreach Hkk]].
        exists (KDtor (new_id x) (vals' ++ [BK kv0])). split.
        * rewrite start_args_eq.
          eapply rreach_trans; [apply (Hcore ce' Hag_args [] [CConsumer cont])|].
          unfold cargs_res at 1. apply rreach_step.
          eapply rreach_trans; [exact Hreach|]. apply rreach_step. rewrite cstep_app_margs. unfold cargs_res. simpl finish_args.
          change (rev_append (BK kv0 :: rev_append vals' []) []) with (rev_append (rev_append vals' []) [BK kv0]).
          rewrite rev_append_twice_app. apply rreach_refl.
        * apply Kk_dtor; [exact Hrel | exact Hdf | eapply Kk_mono; [exact Hkk | lia]].
  Qed.

  Lemma fl_dtor : forall N scrut x targs args ty,
    flw p cp N scrut -> flt p cp N scrut -> Forall (flc p cp N) args -> Forall (flt p cp N) args ->
    flw p cp N (FDtor scrut x targs args ty).
  Proof.
    intros N scrut x targs args ty Hw HTs HA HT.
    intros n Hn G cur cont st s st' e ce k Hwc Hf.
    pose proof Hf as Hf0. simpl in Hf0. apply andb_prop in Hf0. destruct Hf0 as [_ Hor]. apply orb_prop in Hor.
    destruct Hor as [Hat|Hat].
    - eapply (fl_dtor_atomic N scrut x targs args ty Hat HTs HA HT); eauto.
    - eapply (fl_dtor_general N scrut x targs args ty Hat Hw); eauto.
  Qed.

  (* ---------- assembly: every term, every fuel bound ---------- *)
  Theorem fl_all : forall N t, flw p cp N t /\ flc p cp N t /\ flt p cp N t.
  Proof.
    induction N as [N IHN] using lt_wf_ind.
    assert (IHw : forall N', (N' < N)%nat -> forall t, flw p cp N' t).
    { intros N' HN t. apply (IHN N' HN t). }
    (* terms compiled by the default method: flc and flt from flw *)
    assert (Hdef : forall t (W : string -> cterm -> M cstmt),
              (forall cur cont, wc (codata_of p) cur false t cont = W cur cont) ->
              (forall cur ty, cmp (codata_of p) cur false t ty = default_compile (W cur) ty) ->
              (forall y ty0 chi, t <> FVar y ty0 chi) ->
              flw p cp N t -> flw p cp N t /\ flc p cp N t /\ flt p cp N t).
    { intros t W HW HC Hnv H. split; [exact H|]. split.
      - eapply flc_default; eauto.
      - eapply flt_default; eauto. }
    assert (Hnotflt : forall t, (kd p t = true -> tkind p t = true -> False) -> flt p cp N t).
    { intros t Hno n Hn G cur ty st c st' e ce Hc Hf Hkd Hk1. exfalso. exact (Hno Hkd Hk1). }
    induction t using fterm_ind'.
    - apply fl_var; assumption.
    - destruct (fl_lit p cp N n) as [Hw Hc]. split; [exact Hw|]. split; [exact Hc|].
      apply Hnotflt. intros _ Hk. unfold tkind in Hk. simpl in Hk. discriminate.
    - destruct IHt1 as [_ [C1 _]], IHt2 as [_ [C2 _]].
      destruct (fl_op p cp N t1 o t2 C1 C2) as [Hw Hc]. split; [exact Hw|]. split; [exact Hc|].
      apply Hnotflt. intros _ Hk. unfold tkind in Hk. simpl in Hk. discriminate.
    - destruct IHt1 as [_ [C1 _]], IHt2 as [W2 _], IHt3 as [W3 _].
      eapply (Hdef _ (fun cur => wc_ifc cur s (cmp (codata_of p) cur false t1 CI64)
                           (match b with Some b' => Some (cmp (codata_of p) cur false b' CI64) | None => None end)
                           (wc (codata_of p) cur false t2) (wc (codata_of p) cur false t3))).
      + intros cur cont. apply wc_unfold.
      + intros cur ty0. apply cmp_unfold.
      + intros y ty0 chi E. discriminate E.
      + apply fl_ifc; try assumption. destruct b as [b'|]; [simpl in H; tauto | exact I].
    - destruct IHt1 as [_ [C1 _]], IHt2 as [W2 _].
      eapply (Hdef _ (fun cur => wc_print nl (cmp (codata_of p) cur false t1 CI64) (wc (codata_of p) cur false t2))).
      + intros cur cont. apply wc_unfold.
      + intros cur ty0. apply cmp_unfold.
      + intros y ty0 chi E. discriminate E.
      + apply fl_print; assumption.
    - destruct IHt1 as [W1 [_ T1]], IHt2 as [W2 _].
      eapply (Hdef _ (fun cur => guard_capture false [v]
                                (wc_let (codata_of p) v vty (cmp (codata_of p) cur false t1) (wc (codata_of p) cur false t1)
                                   (wc (codata_of p) cur false t2)) ty)).
      + intros cur cont. apply wc_unfold.
      + intros cur ty0. apply cmp_unfold.
      + intros y ty0 chi E. discriminate E.
      + apply fl_let; assumption.
    - assert (HA : Forall (flc p cp N) args) by (eapply Forall_impl; [|exact H]; intros a [_ [Ha _]]; exact Ha).
      assert (HT : Forall (flt p cp N) args) by (eapply Forall_impl; [|exact H]; intros a [_ [_ Ha]]; exact Ha).
      eapply (Hdef _ (fun cur => wc_call f (subst_with (fun y => cmp (codata_of p) cur false y) args) ret)).
      + intros cur cont. apply wc_unfold.
      + intros cur ty0. apply cmp_unfold.
      + intros y ty0 chi E. discriminate E.
      + apply fl_call; assumption.
    - assert (HA : Forall (flc p cp N) args) by (eapply Forall_impl; [|exact H]; intros a [_ [Ha _]]; exact Ha).
      assert (HT : Forall (flt p cp N) args) by (eapply Forall_impl; [|exact H]; intros a [_ [_ Ha]]; exact Ha).
      destruct (fl_ctor N x args ty HA HT) as [Hw Hc]. split; [exact Hw|]. split; [exact Hc|].
      apply Hnotflt. intros Hkd Hk. simpl in Hkd. apply andb_prop in Hkd. destruct Hkd as [_ Hkty].
      unfold tkind in Hk. simpl in Hk. rewrite Hk in Hkty. discriminate.
    - destruct IHt as [Wsc [_ Ts]].
      assert (HA : Forall (flc p cp N) args) by (eapply Forall_impl; [|exact H]; intros a [_ [Ha _]]; exact Ha).
      assert (HT : Forall (flt p cp N) args) by (eapply Forall_impl; [|exact H]; intros a [_ [_ Ha]]; exact Ha).
      eapply (Hdef _ (fun cur => wc_dtor (wc (codata_of p) cur false t) (fterm_type t) x (subst_with (fun y => cmp (codata_of p) cur false y) args))).
      + intros cur cont. apply wc_unfold.
      + intros cur ty0. apply cmp_unfold.
      + intros y ty0 chi E. discriminate E.
      + apply fl_dtor; assumption.
    - destruct IHt as [Ws _].
      eapply (Hdef _ (fun cur => guard_capture false (flat_map (fun c => match c with FClause _ _ _ ctx _ => fvars ctx end) cls)
                           (wc_case cur (wc (codata_of p) cur false t) (fterm_type t) (List.length cls)
                              (fun cont' => clauses_with (fun b => wc (codata_of p) cur false b) cont' cls)) ty)).
      + intros cur cont. apply wc_unfold.
      + intros cur ty0. apply cmp_unfold.
      + intros y ty0 chi E. discriminate E.
      + apply fl_case; try assumption. eapply Forall_impl; [|exact H]. intros a [Ha _]. exact Ha.
    - apply fl_new. eapply Forall_impl; [|exact H]. intros a [Ha _]. exact Ha.
    - destruct IHt as [W _]. destruct (fl_label p cp Hcod N l t ty W) as [Hw Hc]. split; [exact Hw|]. split; [exact Hc|].
      apply Hnotflt. intros Hkd Hk. simpl in Hkd. apply andb_prop in Hkd. destruct Hkd as [_ Hkty].
      unfold tkind in Hk. simpl in Hk. rewrite Hk in Hkty. discriminate.
    - destruct IHt as [W _].
      eapply (Hdef _ (fun cur _ => wc_goto false l (wc (codata_of p) cur false t) ty (fterm_type t))).
      + intros cur cont. apply wc_unfold.
      + intros cur ty0. apply cmp_unfold.
      + intros y ty0 chi E. discriminate E.
      + apply fl_goto; assumption.
    - destruct IHt as [_ [C _]].
      eapply (Hdef _ (fun cur _ => wc_exit (cmp (codata_of p) cur false t CI64) ty)).
      + intros cur cont. apply wc_unfold.
      + intros cur ty0. apply cmp_unfold.
      + intros y ty0 chi E. discriminate E.
      + apply fl_exit; assumption.
    - destruct IHt as [W [C T]]. apply fl_paren; assumption.
  Qed.
End FLh.
