(* ======================================================================================
   Proof/Fun2CoreFLh  -  the fundamental lemma: calls of top-level definitions (any number of
   definitions, recursion: induction on the source fuel), constructors, case; and the assembly
   [fl_all]: for every fuel bound N and every term of the fragment, flw and flc.
   ====================================================================================== *)
From Coq Require Import List ZArith NArith String Bool Lia Wf_nat.
From SCC Require Import Base.Sexp Lang.SynUtil Lang.FunSyn Lang.FunTy Lang.CoreSyn.
From SCC Require Import Sem.AxSem Sem.CoreSem Sem.FunSem Model.Fun2Core.
From SCC Require Import Proof.Fun2CoreProof Proof.Fun2CoreSim Proof.Fun2CoreTfv Proof.Fun2CoreInv Proof.Fun2CoreUB
     Proof.Fun2CoreRel Proof.Fun2CoreFLa Proof.Fun2CoreFLb Proof.Fun2CoreFLc Proof.Fun2CoreFLd Proof.Fun2CoreFLe
     Proof.Fun2CoreFLf Proof.Fun2CoreFLg.
Import ListNotations.
Open Scope string_scope.
Open Scope list_scope.

Arguments var_ok : simpl never.

Lemma cbind_snoc_gen : forall xs vs y w e ce1, cbind xs vs ((y, w) :: e) = Some ce1 -> cbind (xs ++ [y]) (vs ++ [w]) e = Some ce1.
Proof.
  induction xs as [|x r IH]; intros vs y w e ce1 H; destruct vs as [|v vr]; simpl in *; try discriminate.
  - exact H.
  - destruct (cbind r vr ((y, w) :: e)) as [e0|] eqn:E; [|discriminate]. rewrite (IH _ _ _ _ _ E). exact H.
Qed.

Section FLh.
  Variable p : fcprog.
  Variable cp : cprog.
  Hypothesis Hcod : cpcodata cp = codata_of p.
  Hypothesis Hdefs : forall f d, ffind_def p f = Some d -> f <> "main" -> callee_ok p cp d.

  (* ---------- calls ---------- *)
  Lemma fl_call : forall N f args ret,
    (forall N', (N' < N)%nat -> forall t, flw p cp N' t) -> Forall (flc p cp N) args -> Forall (flt p cp N) args ->
    flw p cp N (FCall f args ret).
  Proof.
    intros N f args ret IHN HA HT.
    intros n Hn G cur cont st s st' e ce k Hwc Hf Hkd Hws Hnc Hl HG Hbn Hni H8 Hsh He HCK.
    rewrite wc_unfold in Hwc. apply wc_call_inv in Hwc. destruct Hwc as [args' [ret0 [Hargs [Eret Es]]]]. subst s.
    simpl in Hf, Hkd, Hws, Hnc.
    apply andb_prop in Hf. destruct Hf as [Hf Hfa]. apply andb_prop in Hf. destruct Hf as [Hnm Hck].
    apply negb_true_iff in Hnm. apply String.eqb_neq in Hnm.
    change (tkind p (FCall f args ret)) with (f_is_codata_o p ret) in *.
    assert (HKS : KS p cp n (f_is_codata_o p ret) k cont ce).
    { apply (proj2 HCK). intros x Hx. unfold Sof. apply in_cnames_inv in Hx. destruct Hx as [bb [Hbb E]]. subst x.
      apply in_cnames. apply (proj2 (fvs_call _ _ _ _)). apply fva_app. right. apply fva_cons. left. exact Hbb. }
    destruct n as [|n1]; [apply sim_zero|].
    eapply sim_fstep; [reflexivity|]. apply sim_cstep. simpl. rewrite start_args_eq.
    apply (args_sim p cp Hcod N args HA HT n1 ltac:(lia) false G cur st args' st' e ce [CConsumer cont]
             (AfCall f) (FinCall (new_id f)) k [] [] Hargs Hfa Hkd).
    - intros E. discriminate E.
    - exact Hws.
    - exact Hnc.
    - exact Hl.
    - exact HG.
    - exact Hbn.
    - eapply erel_weaken; [exact He | | lia]. apply Sof_incl. intros bb Hx.
      apply (proj2 (fvs_call _ _ _ _)). apply fva_app. left. exact Hx.
    - intros j Hj new new' Hnew Hkinds.
      apply (call_finish p cp Hcod Hdefs N IHN j ltac:(lia) f args ret e ce k cont new new' Hnm Hck Hnew Hkinds Hsh).
      eapply KS_mono; [exact HKS | lia].
  Qed.

  (* ---------- constructors ---------- *)
  Lemma darg_props : forall args, forallb (darg_ok p) args = true ->
    forallb (arg_ok p) args = true /\ forallb (fun y => negb (is_cns_var y) && negb (tkind p y)) args = true.
  Proof.
    induction args as [|y r IH]; intros H; [split; reflexivity|]. simpl in H. apply andb_prop in H. destruct H as [Hy Hr].
    destruct (IH Hr) as [IH1 IH2]. simpl. rewrite IH1, IH2. unfold darg_ok in Hy.
    apply andb_prop in Hy. destruct Hy as [Hy Hd]. apply andb_prop in Hy. destruct Hy as [Hc Hf].
    assert (Hs : is_some (fterm_type y) = true) by (unfold data_ty in Hd; destruct (fterm_type y); [reflexivity | discriminate]).
    assert (Hk : tkind p y = false).
    { unfold tkind, data_ty in *. destruct (fterm_type y); [|reflexivity]. simpl. apply negb_true_iff in Hd. exact Hd. }
    rewrite Hc, Hk. split; [|reflexivity]. rewrite andb_true_r.
    unfold arg_ok. destruct y; try (rewrite Hf, Hs; reflexivity). destruct chi as [[|]|]; try (rewrite Hf, Hs; reflexivity). reflexivity.
  Qed.

  Lemma ctor_core : forall N x args, Forall (flc p cp N) args -> Forall (flt p cp N) args ->
    forall n, (n <= N)%nat -> forall G cur st args' st' e ce k m,
    subst_with (fun y => cmp (codata_of p) cur false y) args st = Ok (args', st') ->
    forallb (darg_ok p) args = true -> forallb (arg_kd p) args = true ->
    forallb (ws_arg G) args = true -> forallb nocap args = true ->
    lifted_ok cp st' -> Gused G st -> incl (flat_map bnd args) (st_used_vars st) ->
    erel p cp n G (Sof (fva args')) e ce ->
    Kb p cp n k (KRet m) ->
    sim p cp n (FArgs [] args e (AfCtor x) k) (cargs_res cp [] args' ce (FinXtorP (new_id x) m)).
  Proof.
    intros N x args HA HT n Hn G cur st args' st' e ce k m Hargs Hda Hkd Hws Hnc Hl HG Hbn He HK.
    destruct (darg_props args Hda) as [Hfa Hpo].
    rewrite <- (app_nil_r args').
    apply (args_sim p cp Hcod N args HA HT n Hn true G cur st args' st' e ce [] (AfCtor x) (FinXtorP (new_id x) m) k [] []
             Hargs Hfa Hkd (fun _ => Hpo) Hws Hnc Hl HG Hbn He).
    intros j Hj new new' Hnew Hkinds.
    destruct j as [|j1]; [apply sim_zero|].
    eapply sim_fstep; [simpl; rewrite rev_append_nil_twice; reflexivity|].
    unfold cargs_res. simpl finish_args. rewrite rev_append_nil_twice.
    eapply Kb_ret; [exact HK | lia | |].
    - apply dval_ctor. clear -Hkinds. induction Hkinds as [|b y r r' [Hb _] Hr IH]; constructor; [exact Hb | exact IH].
    - apply vrel_ctor. exists new'. split; [reflexivity|]. eapply brels_mono; [exact Hnew | lia].
  Qed.

  Lemma fl_ctor : forall N x args ty, Forall (flc p cp N) args -> Forall (flt p cp N) args ->
    flw p cp N (FCtor x args ty) /\ flc p cp N (FCtor x args ty).
  Proof.
    intros N x args ty HA HT. split.
    - intros n Hn G cur cont st s st' e ce k Hwc Hf Hkd Hws Hnc Hl HG Hbn Hni H8 Hsh He HCK.
      rewrite wc_unfold in Hwc. apply wc_ctor_inv in Hwc. destruct Hwc as [args' [ty0 [Hargs [Ety Es]]]]. subst s.
      simpl in Hf, Hkd, Hws, Hnc. apply andb_prop in Hkd. destruct Hkd as [Hkd Hkty]. apply negb_true_iff in Hkty.
      assert (Hkind : tkind p (FCtor x args ty) = false) by (unfold tkind; simpl; exact Hkty).
      rewrite Hkind in *.
      destruct n as [|n1]; [apply sim_zero|].
      eapply sim_fstep; [reflexivity|]. apply sim_cstep. simpl. rewrite start_args_eq.
      apply (ctor_core N x args HA HT n1 ltac:(lia) G cur st args' st' e ce k (MCutK cont ce) Hargs Hf Hkd Hws Hnc Hl HG Hbn).
      + eapply erel_weaken; [exact He | | lia]. apply Sof_incl. intros bb Hx. apply fvs_cut. left. exact Hx.
      + eapply Kb_mono; [eapply (CK_mcutk p cp (S n1)); eauto | lia].
        intros bb Hbb. apply Sof_in. apply fvs_cut. right. exact Hbb.
    - intros n Hn G cur ty' st c st' e ce k m Hc Hf Hkd Hk0 Hws Hnc Hl HG Hbn Hty He HK.
      rewrite cmp_unfold in Hc. apply cmp_ctor_inv in Hc. destruct Hc as [args' [ty0 [Hargs [Ety Ec]]]]. subst c.
      simpl in Hf, Hkd, Hws, Hnc. apply andb_prop in Hkd. destruct Hkd as [Hkd Hkty].
      destruct n as [|n1]; [apply sim_zero|].
      eapply sim_fstep; [reflexivity|]. apply sim_cstep. simpl. rewrite start_args_eq.
      apply (ctor_core N x args HA HT n1 ltac:(lia) G cur st args' st' e ce k m Hargs Hf Hkd Hws Hnc Hl HG Hbn).
      + eapply erel_weaken; [exact He | | lia]. intros z Hz. exact Hz.
      + eapply Kb_mono; [exact HK | lia].
  Qed.

  (* ---------- case ---------- *)
  Lemma fl_case : forall N scrut targs cls ty,
    flw p cp N scrut -> Forall (fun c => flw p cp N (clause_body c)) cls ->
    flw p cp N (FCase scrut targs cls ty).
  Proof.
    intros N scrut targs cls ty Hscrut Hcls.
    intros n Hn G cur cont st s st' e ce k Hwc Hf Hkd Hws Hnc Hl HG Hbn Hni H8 Hsh He HCK.
    rewrite wc_unfold in Hwc. apply wc_case_inv in Hwc.
    destruct Hwc as [cont1 [st0 [cls' [st1 [sty0 [Hshare [Hclauses [Esty Hwscrut]]]]]]]].
    simpl in Hf, Hkd, Hws, Hnc.
    apply andb_prop in Hf. destruct Hf as [Hf Hfc]. apply andb_prop in Hf. destruct Hf as [Hfs Hdt].
    apply andb_prop in Hws. destruct Hws as [Hws Hwcl].
    apply andb_prop in Hnc. destruct Hnc as [Hnn Hncc]. apply andb_prop in Hnn. destruct Hnn as [Hdisj Hns].
    apply andb_prop in Hkd. destruct Hkd as [Hkd Hkcl]. apply andb_prop in Hkd. destruct Hkd as [Hks Hkty].
    apply negb_true_iff in Hkty.
    assert (Hkind : tkind p (FCase scrut targs cls ty) = false) by (unfold tkind; simpl; exact Hkty).
    rewrite Hkind in *.
    assert (Hkscrut : tkind p scrut = false).
    { unfold tkind, data_ty in *. rewrite Esty in *. simpl. apply negb_true_iff in Hdt. exact Hdt. }
    set (kcont := CXCase CCns cls' (compile_ty sty0)) in *.
    assert (Hg2 : grows st1 st') by (eapply wc_grows; exact Hwscrut).
    assert (Hg1 : grows st0 st1).
    { revert Hclauses. apply mgrows_clauses_with. apply Forall_forall. intros c0 _ k0.
      apply (proj1 (wc_cmp_grows (codata_of p) cur false (clause_body c0))). }
    assert (Lst1 : lifted_ok cp st1) by (eapply lifted_ok_grows; [exact Hl | exact Hg2]).
    assert (Lst0 : lifted_ok cp st0) by (eapply lifted_ok_grows; [exact Lst1 | exact Hg1]).
    destruct (shared_CK p cp n cur (Nat.leb (List.length cls) 1 || cont_is_small cont) cont st cont1 st0 k ce
                (Sof (fvs s)) Hshare) as [HCK1 [Hsh1 [Hg0 Hsub]]]; auto.
    { intros E. apply orb_false_iff in E. tauto. }
    assert (G1 : grows st st1) by (eapply grows_trans; [exact Hg0 | exact Hg1]).
    assert (Hsc1 : cont_cns cont1) by (apply (cont_shape_cns cp false); exact Hsh1).
    assert (HB : Forall (fun c => ubw p cur (clause_body c)) cls).
    { apply Forall_forall. intros c _. apply (ub_wc p cur). }
    assert (Hsrc : forall bb, In bb (fvt kcont) -> inG G (flat_map cl_nm cls) bb \/ In bb (fvt cont)).
    { intros bb Hbb. apply fvt_xcase in Hbb.
      destruct (ub_clauses p cur G cont1 cls HB Hsc1 _ _ _ Hclauses Hfc Hwcl bb Hbb) as [Hg|Hg]; [left; exact Hg | right; apply Hsub; exact Hg]. }
    assert (Hcd : is_codata cp (compile_ty sty0) = false).
    { rewrite (is_codata_compile p cp Hcod). unfold data_ty in Hdt. rewrite Esty in Hdt. apply negb_true_iff in Hdt. exact Hdt. }
    assert (Hbs : incl (bnd scrut) (st_used_vars st)) by (intros z Hz; apply Hbn; simpl; apply in_or_app; left; exact Hz).
    destruct n as [|n1]; [apply sim_zero|].
    eapply sim_fstep; [reflexivity|].
    apply (Hscrut n1 ltac:(lia) G cur kcont st1 s st' e ce (FkCase cls e k) Hwscrut Hfs Hks Hws Hns Hl).
    - eapply Gused_grows; eauto.
    - eapply incl_grows; eauto.
    - intros x Hx. apply in_cnames_inv in Hx. destruct Hx as [bb [Hbb E]]. subst x.
      destruct (Hsrc bb Hbb) as [Hg|Hc].
      + destruct (inG_used G _ bb st HG Hg) as [y [Ey Hy]]. exists y. split; [exact Ey|]. eapply grows_vars_incl; eauto.
      + eapply names_in_grows; [exact Hni | exact G1 | apply in_cnames; exact Hc].
    - intros x Hx Hin. apply in_cnames_inv in Hin. destruct Hin as [bb [Hbb E]].
      destruct (Hsrc bb Hbb) as [Hg|Hc].
      + destruct (inG_name _ _ _ Hg) as [y [Ey Hy]]. rewrite E in Ey. apply new_id_inj in Ey. subst y.
        exact (disj_spec _ _ Hdisj x Hx Hy).
      + apply (H8 x); [simpl; apply in_or_app; left; exact Hx|]. rewrite <- E. apply in_cnames. exact Hc.
    - rewrite Hkscrut. simpl. split; [reflexivity | exact Hcd].
    - eapply erel_weaken; [exact He | | lia]. intros x Hx. exact Hx.
    - rewrite Hkscrut. split.
      + intros bb Hbb Hs. destruct (Hsrc bb Hbb) as [[Hg _]|Hc].
        * eapply erel_kind; eauto.
        * apply (proj1 HCK); assumption.
      + intros Hall ce' Ha. exists (KCase cls' ce'). split; [reflexivity|].
        apply (Kb_intro p cp). intros j Hj v pv Hd Hv.
        destruct j as [|j1]; [apply sim_zero|].
        destruct v as [z|tag fields|cls0 e0|t0 e0]; try contradiction;
          [eapply sim_stuck; reflexivity|].
        apply vrel_ctor in Hv. destruct Hv as [fields' [Epv Hfields]]. subst pv.
        apply dval_ctor in Hd.
        pose proof (clauses_find p cur cont1 cls st0 cls' st1 Hclauses tag) as Hfind.
        destruct (ffind_clause cls tag) as [[pl x names ctx body]|] eqn:Efc;
          [|eapply sim_stuck; simpl; unfold fselect; rewrite Efc; reflexivity].
        destruct Hfind as [body' [sta [stb [Ecf [Hwb [Hga [Hgb [Hfvc Hin]]]]]]]].
        destruct (fbind (fvars ctx) fields e) as [e1|] eqn:Ebind;
          [|eapply sim_stuck; simpl; unfold fselect; rewrite Efc; simpl; rewrite Ebind; reflexivity].
        eapply sim_fstep; [simpl; unfold fselect; rewrite Efc; simpl; rewrite Ebind; reflexivity|].
        (* what the fragment says about this clause *)
        rewrite forallb_forall in Hfc, Hwcl, Hncc, Hkcl.
        specialize (Hfc _ Hin). specialize (Hwcl _ Hin). specialize (Hncc _ Hin). specialize (Hkcl _ Hin).
        simpl in Hfc, Hwcl, Hncc, Hkcl.
        apply andb_prop in Hfc. destruct Hfc as [Hfc Hfb]. apply andb_prop in Hfc. destruct Hfc as [_ Hprd].
        apply andb_prop in Hkcl. destruct Hkcl as [Hkb Hkb0]. apply negb_true_iff in Hkb0.
        destruct (kinds_of_fields p cp Hcod ctx fields e e1 Hd Hprd Ebind) as [Hk1 Hk2].
        assert (Hctx_bnd : forall y, In y (fvars ctx) -> In y (bnd (FCase scrut targs cls ty))).
        { intros y Hy. simpl. apply in_or_app. right. apply in_flat_map.
          exists (FClause pl x names ctx body). split; [exact Hin | apply in_or_app; left; exact Hy]. }
        assert (Hbody_bnd : forall y, In y (bnd body) -> In y (bnd (FCase scrut targs cls ty))).
        { intros y Hy. simpl. apply in_or_app. right. apply in_flat_map.
          exists (FClause pl x names ctx body). split; [exact Hin | apply in_or_app; right; exact Hy]. }
        assert (Hcv : forall x0, In x0 (cvars (compile_ctx ctx)) -> exists y, x0 = new_id y /\ In y (fvars ctx)).
        { intros x0 Hx0. unfold cvars, compile_ctx in Hx0. rewrite map_map in Hx0. apply in_map_iff in Hx0.
          destruct Hx0 as [b0 [E Hb0]]. exists (fbvar b0). split; [symmetry; exact E | unfold fvars; apply in_map; exact Hb0]. }
        assert (Hout : forall x0, Sof (fvs body') x0 -> ~ In x0 (cvars (compile_ctx ctx)) -> In x0 (cnames (fvc cls'))).
        { intros x0 Hx0 Hn0. unfold Sof in Hx0. apply in_cnames_inv in Hx0. destruct Hx0 as [bb [Hbb E]]. subst x0.
          apply in_cnames. apply Hfvc; [exact Hbb|]. intros Hc. apply Hn0. unfold cvars. apply in_map. exact Hc. }
        destruct (erel_binds p cp j1 G ctx (Sof (fvs body'))
                    (fun x0 => Sof (fvs body') x0 /\ ~ In x0 (cvars (compile_ctx ctx))) fields fields' e ce' e1)
          as [ce1 [Hcb [Hr Hlk]]].
        { eapply brels_mono; [exact Hfields | lia]. }
        { exact Hk2. }
        { exact Hk1. }
        { exact Ebind. }
        { eapply erel_agree with (S := Sof (fvs s)) (ce := ce).
          - eapply erel_weaken; [exact He | | lia]. intros x0 Hx0. exact Hx0.
          - intros x0 [Hx0 Hn0]. pose proof (Hout x0 Hx0 Hn0) as Hc0. split; [apply Hall; exact Hc0 | apply Ha; exact Hc0]. }
        { intros x0 Hx0 Hn0. split; assumption. }
        simpl. unfold select. rewrite Ecf. cbn [cl_ctx cl_body]. rewrite Hcb.
        rewrite Forall_forall in Hcls. specialize (Hcls _ Hin). simpl in Hcls.
        rewrite <- Hkb0 in Hsh1, HCK1.
        apply (Hcls j1 ltac:(lia) (compile_ctx ctx ++ G) cur cont1 sta body' stb e1 ce1 k Hwb Hfb Hkb Hwcl Hncc).
        * eapply lifted_ok_grows; [exact Lst1 | exact Hgb].
        * intros bb Hbb. apply in_app_or in Hbb. destruct Hbb as [Hbb|Hbb].
          -- destruct (Hcv (cbvar bb) (in_map cbvar _ _ Hbb)) as [y [Ey Hy]]. exists y. split; [exact Ey|].
             eapply grows_vars_incl; [eapply grows_trans; [exact Hg0 | exact Hga]|]. apply Hbn. apply Hctx_bnd. exact Hy.
          -- eapply Gused_grows; [exact HG | eapply grows_trans; [exact Hg0 | exact Hga] | exact Hbb].
        * eapply incl_grows; [|eapply grows_trans; [exact Hg0 | exact Hga]]. intros y Hy. apply Hbn. apply Hbody_bnd. exact Hy.
        * intros x0 Hx0. apply in_cnames_inv in Hx0. destruct Hx0 as [bb [Hbb E]]. subst x0.
          eapply names_in_grows; [exact Hni | eapply grows_trans; [exact Hg0 | exact Hga] | apply in_cnames; apply Hsub; exact Hbb].
        * intros y Hy Hiny. apply (H8 y (Hbody_bnd y Hy)).
          apply in_cnames_inv in Hiny. destruct Hiny as [bb [Hbb E]]. rewrite <- E. apply in_cnames. apply Hsub. exact Hbb.
        * exact Hsh1.
        * exact Hr.
        * eapply CK_transfer; [exact Hsh1 | exact HCK1 | | lia].
          intros x0 Hxc Hxb.
          assert (Hn0 : ~ In x0 (cvars (compile_ctx ctx))).
          { intros Hc0. destruct (Hcv x0 Hc0) as [y [Ey Hy]]. subst x0.
            apply (H8 y (Hctx_bnd y Hy)).
            apply in_cnames_inv in Hxc. destruct Hxc as [bb [Hbb E]]. rewrite <- E. apply in_cnames. apply Hsub. exact Hbb. }
          pose proof (Hout x0 Hxb Hn0) as Hc0.
          split; [apply Hall; exact Hc0|]. rewrite (Hlk x0 Hn0). apply Ha. exact Hc0.
  Qed.

  (* ---------- assembly: every term, every fuel bound ---------- *)
  Theorem fl_all : forall N t, flw p cp N t /\ flc p cp N t.
  Proof.
    induction N as [N IHN] using lt_wf_ind.
    assert (IHw : forall N', (N' < N)%nat -> forall t, flw p cp N' t).
    { intros N' HN t. apply (IHN N' HN t). }
    induction t using fterm_ind'.
    - apply fl_var; assumption.
    - apply fl_lit; assumption.
    - apply fl_op; tauto.
    - apply fl_ifc; try tauto. destruct b as [b'|]; [simpl in H; tauto | exact I].
    - apply fl_print; tauto.
    - apply fl_let; tauto.
    - apply fl_call; try assumption. eapply Forall_impl; [|exact H]. intros a [_ Ha]. exact Ha.
    - apply fl_ctor; try assumption. eapply Forall_impl; [|exact H]. intros a [_ Ha]. exact Ha.
    - split; intros n Hn; intros; discriminate.
    - apply fl_case; try assumption; [tauto|]. eapply Forall_impl; [|exact H]. intros a [Ha _]. exact Ha.
    - split; intros n Hn; intros; discriminate.
    - apply fl_label; tauto.
    - apply fl_goto; tauto.
    - apply fl_exit; tauto.
    - apply fl_paren; tauto.
  Qed.
End FLh.
