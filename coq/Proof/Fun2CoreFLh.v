(* ======================================================================================
   Proof/Fun2CoreFLh  -  the fundamental lemma: calls of top-level definitions (any number of
   definitions, recursion: induction on the source fuel), constructors, case; and the assembly
   [fl_all]: for every fuel bound N and every term of the fragment, flw and flc.
   ====================================================================================== *)
From Coq Require Import List ZArith NArith String Bool Lia Wf_nat.
From SCC Require Import Base.Sexp Lang.SynUtil Lang.FunSyn Lang.FunTy Lang.CoreSyn.
From SCC Require Import Sem.AxSem Sem.CoreSem Sem.FunSem Model.Fun2Core.
From SCC Require Import Proof.Fun2CoreProof Proof.Fun2CoreSim Proof.Fun2CoreTfv Proof.Fun2CoreInv Proof.Fun2CoreUB
     Proof.Fun2CoreRel Proof.Fun2CoreFLa Proof.Fun2CoreFLb Proof.Fun2CoreFLc Proof.Fun2CoreFLd Proof.Fun2CoreFLe
     Proof.Fun2CoreFLf Proof.Fun2CoreFLg.
Import ListNotations.
Open Scope string_scope.
Open Scope list_scope.

Arguments var_ok : simpl never.

Section FLh.
  Variable p : fcprog.
  Variable cp : cprog.
  Hypothesis Hcod : cpcodata cp = codata_of p.
  Hypothesis Hdefs : forall f d, ffind_def p f = Some d -> f <> "main" -> callee_ok p cp d.

  (* ---------- calls ---------- *)
  Lemma fl_call : forall N f args ret,
    (forall N', (N' < N)%nat -> forall t, flw p cp N' t) -> Forall (flc p cp N) args ->
    flw p cp N (FCall f args ret) /\ flc p cp N (FCall f args ret).
  Proof.
    intros N f args ret IHN HA.
    assert (HW : flw p cp N (FCall f args ret)).
    { intros n Hn G cur cont st s st' e ce k Hwc Hf Hws Hnc Hl HG Hbn Hni H8 Hsh He HCK.
      rewrite wc_unfold in Hwc. apply wc_call_inv in Hwc. destruct Hwc as [args' [ret0 [Hargs [Eret Es]]]]. subst s.
      simpl in Hf, Hws, Hnc.
      apply andb_prop in Hf. destruct Hf as [Hf Hfa]. apply andb_prop in Hf. destruct Hf as [Hnm Hck].
      apply negb_true_iff in Hnm. apply String.eqb_neq in Hnm.
      assert (HKS : KS p cp n k cont ce).
      { apply (proj2 HCK). intros x Hx. unfold Sof. apply in_cnames_inv in Hx. destruct Hx as [bb [Hbb E]]. subst x.
        apply in_cnames. apply (proj2 (fvs_call _ _ _ _)). apply fva_app. right. apply fva_cons. left. exact Hbb. }
      destruct n as [|n1]; [apply sim_zero|].
      eapply sim_fstep; [reflexivity|]. apply sim_cstep. simpl. rewrite start_args_eq.
      apply (args_sim p cp Hcod N args HA n1 ltac:(lia) false G cur st args' st' e ce [CConsumer cont]
               (AfCall f) (FinCall (new_id f)) k [] [] Hargs Hfa).
      - intros E. discriminate E.
      - exact Hws.
      - exact Hnc.
      - exact Hl.
      - exact HG.
      - exact Hbn.
      - eapply erel_weaken; [exact He | | lia]. apply Sof_incl. intros bb Hx.
        apply (proj2 (fvs_call _ _ _ _)). apply fva_app. left. exact Hx.
      - intros j Hj new new' Hnew Hkinds.
        apply (call_finish p cp Hdefs N IHN j ltac:(lia) f args e ce k cont new new' Hnm Hck Hnew Hkinds Hsh).
        eapply KS_mono; [exact HKS | lia]. }
    split; [exact HW|].
    apply (flc_default p cp N (FCall f args ret)
             (fun cur => wc_call f (subst_with (fun y => cmp (codata_of p) cur false y) args) ret)); [| |exact HW].
    - intros cur cont. apply wc_unfold.
    - intros cur ty0. apply cmp_unfold.
  Qed.

  (* ---------- constructors ---------- *)
  Lemma ctor_core : forall N x args, Forall (flc p cp N) args ->
    forall n, (n <= N)%nat -> forall G cur st args' st' e ce k m,
    subst_with (fun y => cmp (codata_of p) cur false y) args st = Ok (args', st') ->
    forallb (fun y => negb (is_cns_var y)) args = true -> forallb (arg_ok p) args = true ->
    forallb (ws_arg G) args = true -> forallb nocap args = true ->
    lifted_ok cp st' -> Gused G st -> incl (flat_map bnd args) (st_used_vars st) ->
    erel p cp n G (Sof (fva args')) e ce ->
    Kb p cp n k (KRet m) ->
    sim p cp n (FArgs [] args e (AfCtor x) k) (cargs_res cp [] args' ce (FinXtorP (new_id x) m)).
  Proof.
    intros N x args HA n Hn G cur st args' st' e ce k m Hargs Hpo Hfa Hws Hnc Hl HG Hbn He HK.
    rewrite <- (app_nil_r args').
    apply (args_sim p cp Hcod N args HA n Hn true G cur st args' st' e ce [] (AfCtor x) (FinXtorP (new_id x) m) k [] []
             Hargs Hfa (fun _ => Hpo) Hws Hnc Hl HG Hbn He).
    intros j Hj new new' Hnew Hkinds.
    destruct j as [|j1]; [apply sim_zero|].
    eapply sim_fstep; [simpl; rewrite rev_append_nil_twice; reflexivity|].
    unfold cargs_res. simpl finish_args. rewrite rev_append_nil_twice.
    eapply Kb_ret; [exact HK | lia | |].
    - apply dval_ctor. clear -Hkinds. induction Hkinds as [|b y r r' [Hb _] Hr IH]; constructor; [exact Hb | exact IH].
    - apply vrel_ctor. exists new'. split; [reflexivity|]. eapply brels_mono; [exact Hnew | lia].
  Qed.

  Lemma fl_ctor : forall N x args ty, Forall (flc p cp N) args ->
    flw p cp N (FCtor x args ty) /\ flc p cp N (FCtor x args ty).
  Proof.
    intros N x args ty HA. split.
    - intros n Hn G cur cont st s st' e ce k Hwc Hf Hws Hnc Hl HG Hbn Hni H8 Hsh He HCK.
      rewrite wc_unfold in Hwc. apply wc_ctor_inv in Hwc. destruct Hwc as [args' [ty0 [Hargs [Ety Es]]]]. subst s.
      simpl in Hf, Hws, Hnc. apply andb_prop in Hf. destruct Hf as [Hpo Hfa].
      destruct n as [|n1]; [apply sim_zero|].
      eapply sim_fstep; [reflexivity|]. apply sim_cstep. simpl. rewrite start_args_eq.
      apply (ctor_core N x args HA n1 ltac:(lia) G cur st args' st' e ce k (MCutK cont ce) Hargs Hpo Hfa Hws Hnc Hl HG Hbn).
      + eapply erel_weaken; [exact He | | lia]. apply Sof_incl. intros bb Hx. apply fvs_cut. left. exact Hx.
      + eapply Kb_mono; [eapply (CK_mcutk p cp (S n1)); eauto | lia].
        intros bb Hbb. apply Sof_in. apply fvs_cut. right. exact Hbb.
    - intros n Hn G cur ty' st c st' e ce k m Hc Hf Hws Hnc Hl HG Hbn Hty He HK.
      rewrite cmp_unfold in Hc. apply cmp_ctor_inv in Hc. destruct Hc as [args' [ty0 [Hargs [Ety Ec]]]]. subst c.
      simpl in Hf, Hws, Hnc. apply andb_prop in Hf. destruct Hf as [Hpo Hfa].
      destruct n as [|n1]; [apply sim_zero|].
      eapply sim_fstep; [reflexivity|]. apply sim_cstep. simpl. rewrite start_args_eq.
      apply (ctor_core N x args HA n1 ltac:(lia) G cur st args' st' e ce k m Hargs Hpo Hfa Hws Hnc Hl HG Hbn).
      + eapply erel_weaken; [exact He | | lia]. intros z Hz. exact Hz.
      + eapply Kb_mono; [exact HK | lia].
  Qed.
End FLh.
