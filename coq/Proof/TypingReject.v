(* C15 reject_<class>: single ill-typed edits make the declarative checker [has_type_b] false -
   for all programs and all sites.  A "site" is any occurrence of the edited sub-term anywhere in
   the body of a definition ([occurs]).  Two lifting lemmas carry a local failure to the program:
   [chk_occurs_false] for sub-terms that are ill-typed in every environment at every type, and
   [chk_occurs_unbound] for a variable that is bound nowhere. *)
From Coq Require Import List ZArith String Bool Permutation Lia Setoid.
From SCC Require Import Base.Sexp Lang.SynUtil Lang.FunSyn Sem.FunTyping Proof.FunInd.
Import ListNotations.
Open Scope list_scope.

(* ---------- occurrences ---------- *)
Inductive occurs (s : fterm) : fterm -> Prop :=
| occ_here : occurs s s
| occ_op1 : forall a o b, occurs s a -> occurs s (FOp a o b)
| occ_op2 : forall a o b, occurs s b -> occurs s (FOp a o b)
| occ_if1 : forall so a b th el ty, occurs s a -> occurs s (FIfC so a b th el ty)
| occ_if2 : forall so a b th el ty, occurs s b -> occurs s (FIfC so a (Some b) th el ty)
| occ_if3 : forall so a b th el ty, occurs s th -> occurs s (FIfC so a b th el ty)
| occ_if4 : forall so a b th el ty, occurs s el -> occurs s (FIfC so a b th el ty)
| occ_print1 : forall nl a n ty, occurs s a -> occurs s (FPrint nl a n ty)
| occ_print2 : forall nl a n ty, occurs s n -> occurs s (FPrint nl a n ty)
| occ_let1 : forall v vty a b ty, occurs s a -> occurs s (FLet v vty a b ty)
| occ_let2 : forall v vty a b ty, occurs s b -> occurs s (FLet v vty a b ty)
| occ_call : forall f args r a, In a args -> occurs s a -> occurs s (FCall f args r)
| occ_ctor : forall x args r a, In a args -> occurs s a -> occurs s (FCtor x args r)
| occ_dtor1 : forall sc x targs args r, occurs s sc -> occurs s (FDtor sc x targs args r)
| occ_dtor2 : forall sc x targs args r a, In a args -> occurs s a -> occurs s (FDtor sc x targs args r)
| occ_case1 : forall sc targs cls r, occurs s sc -> occurs s (FCase sc targs cls r)
| occ_case2 : forall sc targs cls r c, In c cls -> occurs s (clause_body c) -> occurs s (FCase sc targs cls r)
| occ_new : forall cls r c, In c cls -> occurs s (clause_body c) -> occurs s (FNew cls r)
| occ_label : forall l t r, occurs s t -> occurs s (FLabel l t r)
| occ_goto : forall l t r, occurs s t -> occurs s (FGoto l t r)
| occ_exit : forall a r, occurs s a -> occurs s (FExit a r)
| occ_paren : forall t, occurs s t -> occurs s (FParen t).

Definition is_var (t : fterm) : bool := match t with FVar _ _ _ => true | _ => false end.

Lemma occurs_var_inv : forall s v a c, occurs s (FVar v a c) -> s = FVar v a c.
Proof. intros s v a c H. inversion H; reflexivity. Qed.
Lemma occurs_not_var : forall s t, occurs s t -> is_var s = false -> is_var t = false.
Proof.
  intros s t H Hs. destruct t; try reflexivity.
  apply occurs_var_inv in H. subst. exact Hs.
Qed.

(* names bound inside a term: let variables, labels, clause binders *)
Fixpoint binders (t : fterm) : list fname :=
  let bl := fix go (l : list fterm) : list fname := match l with [] => [] | a :: r => binders a ++ go r end in
  let bc := fix go (l : list fclause) : list fname :=
    match l with [] => [] | FClause _ _ ns _ b :: r => ns ++ binders b ++ go r end in
  match t with
  | FVar _ _ _ | FLit _ => []
  | FOp a _ b => binders a ++ binders b
  | FIfC _ a b th el _ => binders a ++ match b with Some b' => binders b' | None => [] end ++ binders th ++ binders el
  | FPrint _ a n _ => binders a ++ binders n
  | FLet v _ a b _ => v :: binders a ++ binders b
  | FCall _ args _ | FCtor _ args _ => bl args
  | FDtor s _ _ args _ => binders s ++ bl args
  | FCase s _ cls _ => binders s ++ bc cls
  | FNew cls _ => bc cls
  | FLabel l t _ => l :: binders t
  | FGoto _ t _ | FExit t _ | FParen t => binders t
  end.
Definition binders_list (l : list fterm) : list fname := flat_map binders l.
Definition binders_clause (c : fclause) : list fname :=
  match c with FClause _ _ ns _ b => ns ++ binders b end.
Definition binders_clauses (l : list fclause) : list fname := flat_map binders_clause l.
Lemma binders_list_eq : forall l,
  (fix go (l : list fterm) : list fname := match l with [] => [] | a :: r => binders a ++ go r end) l = binders_list l.
Proof. induction l; simpl; [reflexivity|]. rewrite IHl. reflexivity. Qed.
Lemma binders_clauses_eq : forall l,
  (fix go (l : list fclause) : list fname :=
     match l with [] => [] | FClause _ _ ns _ b :: r => ns ++ binders b ++ go r end) l = binders_clauses l.
Proof. induction l as [|[? ? ? ? ?] r IH]; simpl; [reflexivity|]. rewrite IH, app_assoc. reflexivity. Qed.
Lemma in_binders_list : forall x a l, In a l -> In x (binders a) -> In x (binders_list l).
Proof. intros x a l Hin Hx. unfold binders_list. apply in_flat_map. exists a. auto. Qed.
Lemma in_binders_clauses : forall x c l, In c l -> In x (binders_clause c) -> In x (binders_clauses l).
Proof. intros x c l Hin Hx. unfold binders_clauses. apply in_flat_map. exists c. auto. Qed.

Lemma andb_false_any : forall a b, a = false \/ b = false -> a && b = false.
Proof. intros a b [H|H]; subst; [reflexivity|apply andb_false_r]. Qed.

Section Reject.
  Variable ts : list tdecl.
  Variable fs : list fdef.
  Notation chk := (chk ts fs).

  (* ---------- lifting 1: a non-variable sub-term that is ill-typed everywhere ---------- *)
  Lemma chk_args_in_false : forall a, (forall G T, chk G a T = false) -> is_var a = false ->
    forall G ps targs args sg, In a args -> chk_args_with chk G ps targs args sg = false.
  Proof.
    intros a Hf Hv G ps targs args. induction args as [|x xr IH]; intros sg Hin; [destruct Hin|].
    destruct sg as [|b br]; [reflexivity|]. simpl.
    destruct Hin as [->|Hin].
    - apply andb_false_any. left. destruct (fbchi b); [apply Hf|].
      destruct a; try reflexivity. discriminate Hv.
    - apply andb_false_any. right. apply IH; auto.
  Qed.

  Lemma chk_clauses_in_false : forall c G td targs T cls,
    (forall G T, chk G (clause_body c) T = false) ->
    In c cls -> chk_clauses_with chk G td targs T cls = false.
  Proof.
    intros c G td targs T cls Hf. induction cls as [|d r IH]; intros Hin; [destruct Hin|].
    simpl. destruct d as [p x xs cx body].
    destruct Hin as [<-|Hin].
    - apply andb_false_any. left. simpl in Hf.
      destruct (find_xsig td x) as [sg|]; [|reflexivity].
      apply andb_false_any. right.
      destruct T as [T|]; [apply Hf|]. destruct (xs_ret sg); [apply Hf|reflexivity].
    - apply andb_false_any. right. apply IH. assumption.
  Qed.

  Theorem chk_occurs_false : forall s, is_var s = false -> (forall G T, chk G s T = false) ->
    forall t, occurs s t -> forall G T, chk G t T = false.
  Proof.
    intros s Hv Hs t Hocc. induction Hocc; intros G T; try solve [apply Hs]; simpl.
    - rewrite IHHocc. apply andb_false_any. left. apply andb_false_r.
    - rewrite IHHocc. apply andb_false_r.
    - rewrite IHHocc. reflexivity.
    - rewrite IHHocc. apply andb_false_any. left. apply andb_false_any. left. apply andb_false_r.
    - rewrite IHHocc. apply andb_false_any. left. apply andb_false_r.
    - rewrite IHHocc. apply andb_false_r.
    - rewrite IHHocc. reflexivity.
    - rewrite IHHocc. apply andb_false_r.
    - rewrite IHHocc. apply andb_false_any. left. apply andb_false_r.
    - rewrite IHHocc. apply andb_false_r.
    - destruct (find_def fs f) as [d|]; [|reflexivity].
      apply andb_false_any. right. eapply chk_args_in_false; eauto using occurs_not_var.
    - destruct T as [|n targs]; [reflexivity|]. destruct (find_type ts n) as [td|]; [|reflexivity].
      apply andb_false_any. right. destruct (find_xsig td x); [|reflexivity].
      eapply chk_args_in_false; eauto using occurs_not_var.
    - destruct (find_xtor ts FCodata x) as [[td sg]|]; [|reflexivity].
      rewrite IHHocc. apply andb_false_any. left. apply andb_false_any. left. apply andb_false_r.
    - destruct (find_xtor ts FCodata x) as [[td sg]|]; [|reflexivity].
      apply andb_false_any. left. apply andb_false_any. right.
      eapply chk_args_in_false; eauto using occurs_not_var.
    - destruct cls as [|c0 cr]; [reflexivity|].
      destruct (find_xtor ts FData (clause_xtor c0)) as [[td sg]|]; [|reflexivity].
      rewrite IHHocc. apply andb_false_any. left. apply andb_false_any. left. apply andb_false_r.
    - destruct cls as [|c0 cr]; [destruct H|].
      destruct (find_xtor ts FData (clause_xtor c0)) as [[td sg]|]; [|reflexivity].
      apply andb_false_any. right. eapply chk_clauses_in_false; eauto.
    - destruct T as [|n targs]; [reflexivity|]. destruct (find_type ts n) as [td|]; [|reflexivity].
      apply andb_false_any. right. eapply chk_clauses_in_false; eauto.
    - apply IHHocc.
    - destruct (cns_ty G l); [apply IHHocc|reflexivity].
    - apply IHHocc.
    - apply IHHocc.
  Qed.

  (* ---------- lifting 2: a variable that is bound nowhere ---------- *)
  Lemma extend_none : forall (G : env) x y c t, G x = None -> y <> x -> extend G y c t x = None.
  Proof.
    intros G x y c t H Hn. unfold extend. destruct (String.eqb x y) eqn:E; [|assumption].
    apply String.eqb_eq in E. congruence.
  Qed.
  Lemma extend_sig_none : forall ps targs xs sg (G : env) x, G x = None -> ~ In x xs -> extend_sig G ps targs xs sg x = None.
  Proof.
    induction xs as [|y yr IH]; intros sg G x H Hn; simpl; [assumption|].
    destruct sg as [|b br]; [assumption|].
    apply IH; [|intro; apply Hn; right; assumption].
    apply extend_none; [assumption|]. intro; apply Hn; left; assumption.
  Qed.

  Lemma chk_var_unbound : forall (G : env) x a c T, G x = None -> chk G (FVar x a c) T = false.
  Proof. intros G x a c T H. simpl. unfold is_prd. rewrite H. reflexivity. Qed.

  Lemma chk_args_unbound : forall x a0 G ps targs args sg,
    G x = None -> In a0 args -> chk G a0 (FI64) = chk G a0 FI64 ->
    (forall T, chk G a0 T = false) ->
    (is_var a0 = false \/ exists a c, a0 = FVar x a c) ->
    chk_args_with chk G ps targs args sg = false.
  Proof.
    intros x a0 G ps targs args. induction args as [|y yr IH]; intros sg HG Hin _ Hf Hv; [destruct Hin|].
    destruct sg as [|b br]; [reflexivity|]. simpl.
    destruct Hin as [->|Hin].
    - apply andb_false_any. left. destruct (fbchi b); [apply Hf|].
      destruct Hv as [Hv|[a [c ->]]].
      + destruct a0; try reflexivity. discriminate Hv.
      + unfold is_cns. rewrite HG. reflexivity.
    - apply andb_false_any. right. apply IH; auto.
  Qed.

  Lemma chk_clauses_unbound : forall x c G td targs T cls,
    G x = None -> In c cls -> ~ In x (binders_clause c) ->
    (forall G T, G x = None -> chk G (clause_body c) T = false) ->
    chk_clauses_with chk G td targs T cls = false.
  Proof.
    intros x c G td targs T cls HG. induction cls as [|d r IH]; intros Hin Hnb Hf; [destruct Hin|].
    simpl. destruct d as [p y xs cx body].
    destruct Hin as [<-|Hin].
    - apply andb_false_any. left. simpl in Hf, Hnb.
      destruct (find_xsig td y) as [sg|]; [|reflexivity].
      apply andb_false_any. right.
      assert (HG' : extend_sig G (td_params td) targs xs (xs_args sg) x = None).
      { apply extend_sig_none; [assumption|]. intro; apply Hnb; apply in_or_app; left; assumption. }
      destruct T as [T|]; [apply Hf; assumption|]. destruct (xs_ret sg); [apply Hf; assumption|reflexivity].
    - apply andb_false_any. right. apply IH; assumption.
  Qed.

  Ltac notin :=
    match goal with Hnb : ~ _ |- _ => simpl in Hnb; rewrite ?in_app_iff in Hnb; tauto end.

  Theorem chk_occurs_unbound : forall x a c t, occurs (FVar x a c) t -> ~ In x (binders t) ->
    forall G T, G x = None -> chk G t T = false.
  Proof.
    intros x a c t Hocc.
    remember (FVar x a c) as s eqn:Es.
    induction Hocc; intros Hnb G T HG; subst s; try specialize IHHocc.
    - apply chk_var_unbound; assumption.
    - simpl in *. rewrite IHHocc; [apply andb_false_any; left; apply andb_false_r|notin|assumption].
    - simpl in *. rewrite IHHocc; [apply andb_false_r|notin|assumption].
    - simpl in *. rewrite IHHocc; [reflexivity|notin|assumption].
    - simpl in *. rewrite IHHocc; [apply andb_false_any; left; apply andb_false_any; left; apply andb_false_r|notin|assumption].
    - simpl in *. rewrite IHHocc; [apply andb_false_any; left; apply andb_false_r|notin|assumption].
    - simpl in *. rewrite IHHocc; [apply andb_false_r|notin|assumption].
    - simpl in *. rewrite IHHocc; [reflexivity|notin|assumption].
    - simpl in *. rewrite IHHocc; [apply andb_false_r|notin|assumption].
    - simpl in *. rewrite IHHocc; [apply andb_false_any; left; apply andb_false_r|notin|assumption].
    - simpl in *. rewrite IHHocc; [apply andb_false_r|notin|].
      apply extend_none; [assumption|]. intro; apply Hnb; left; assumption.
    - (* call *)
      simpl in Hnb. rewrite binders_list_eq in Hnb. simpl.
      destruct (find_def fs f) as [d|]; [|reflexivity].
      apply andb_false_any. right.
      assert (Hna : ~ In x (binders a0)) by (intro; apply Hnb; eapply in_binders_list; eauto).
      eapply chk_args_unbound with (x := x) (a0 := a0); eauto.
      destruct (is_var a0) eqn:Ev; [right|left; reflexivity].
      destruct a0; try discriminate. apply occurs_var_inv in Hocc. inversion Hocc; eauto.
    - (* ctor *)
      simpl in Hnb. rewrite binders_list_eq in Hnb. simpl.
      destruct T as [|n targs]; [reflexivity|]. destruct (find_type ts n) as [td|]; [|reflexivity].
      apply andb_false_any. right. destruct (find_xsig td x0); [|reflexivity].
      assert (Hna : ~ In x (binders a0)) by (intro; apply Hnb; eapply in_binders_list; eauto).
      eapply chk_args_unbound with (x := x) (a0 := a0); eauto.
      destruct (is_var a0) eqn:Ev; [right|left; reflexivity].
      destruct a0; try discriminate. apply occurs_var_inv in Hocc. inversion Hocc; eauto.
    - (* dtor scrutinee *)
      simpl in Hnb. simpl.
      destruct (find_xtor ts FCodata x0) as [[td sg]|]; [|reflexivity].
      rewrite IHHocc; auto.
      + apply andb_false_any. left. apply andb_false_any. left. apply andb_false_r.
      + intro; apply Hnb; apply in_or_app; auto.
    - (* dtor args *)
      simpl in Hnb. rewrite binders_list_eq in Hnb. simpl.
      destruct (find_xtor ts FCodata x0) as [[td sg]|]; [|reflexivity].
      apply andb_false_any. left. apply andb_false_any. right.
      assert (Hna : ~ In x (binders a0)) by (intro; apply Hnb; apply in_or_app; right; eapply in_binders_list; eauto).
      eapply chk_args_unbound with (x := x) (a0 := a0); eauto.
      destruct (is_var a0) eqn:Ev; [right|left; reflexivity].
      destruct a0; try discriminate. apply occurs_var_inv in Hocc. inversion Hocc; eauto.
    - (* case scrutinee *)
      simpl in Hnb. simpl. destruct cls as [|cl0 clr]; [reflexivity|].
      destruct (find_xtor ts FData (clause_xtor cl0)) as [[td sg]|]; [|reflexivity].
      rewrite IHHocc; auto.
      + apply andb_false_any. left. apply andb_false_any. left. apply andb_false_r.
      + intro; apply Hnb; apply in_or_app; auto.
    - (* case clause *)
      simpl in Hnb. rewrite binders_clauses_eq in Hnb. simpl.
      destruct cls as [|cl0 clr]; [destruct H|].
      destruct (find_xtor ts FData (clause_xtor cl0)) as [[td sg]|]; [|reflexivity].
      apply andb_false_any. right.
      assert (Hnc : ~ In x (binders_clause c0)).
      { intro; apply Hnb; apply in_or_app; right; eapply in_binders_clauses; eauto. }
      eapply chk_clauses_unbound; eauto.
      intros G' T' HG'. apply IHHocc; auto.
      intro; apply Hnc. destruct c0; simpl in *. apply in_or_app; auto.
    - (* new clause *)
      simpl in Hnb. rewrite binders_clauses_eq in Hnb. simpl.
      destruct T as [|n targs]; [reflexivity|]. destruct (find_type ts n) as [td|]; [|reflexivity].
      apply andb_false_any. right.
      assert (Hnc : ~ In x (binders_clause c0)).
      { intro; apply Hnb; eapply in_binders_clauses; eauto. }
      eapply chk_clauses_unbound; eauto.
      intros G' T' HG'. apply IHHocc; auto.
      intro; apply Hnc. destruct c0; simpl in *. apply in_or_app; auto.
    - (* label *)
      simpl in *. apply IHHocc; auto. apply extend_none; [assumption|]. intro; apply Hnb; left; assumption.
    - simpl in *. destruct (cns_ty G l); [apply IHHocc; auto|reflexivity].
    - simpl in *. apply IHHocc; auto.
    - simpl in *. apply IHHocc; auto.
  Qed.
End Reject.

(* ---------- from a definition body to the program ---------- *)
Lemma forallb_false_in : forall {X} (f : X -> bool) l x, In x l -> f x = false -> forallb f l = false.
Proof.
  intros X f l x Hin Hf. destruct (forallb f l) eqn:E; [|reflexivity].
  rewrite forallb_forall in E. rewrite (E x Hin) in Hf. discriminate.
Qed.

Lemma has_type_b_def_false : forall p d,
  In d (fdefs (fpdecls p)) ->
  chk (tdecls (fpdecls p)) (fdefs (fpdecls p)) (env_of_ctx env_empty (fdctx d)) (fdbody d) (fdret d) = false ->
  has_type_b p = false.
Proof.
  intros p d Hin Hf. unfold has_type_b. apply andb_false_any. right.
  eapply forallb_false_in; [eassumption|]. unfold def_ok. rewrite Hf. apply andb_false_r.
Qed.

Lemma env_of_ctx_none : forall c (G : env) x, G x = None -> ~ In x (map fbvar c) -> env_of_ctx G c x = None.
Proof.
  induction c as [|b r IH]; intros G x HG Hn; simpl; [assumption|].
  apply IH; [|intro; apply Hn; right; assumption].
  unfold extend. destruct (String.eqb x (fbvar b)) eqn:E; [|assumption].
  apply String.eqb_eq in E. exfalso. apply Hn. left. symmetry. assumption.
Qed.

(* a program with a definition whose body contains, anywhere, a non-variable term that is ill-typed
   in every environment at every type, is ill-typed *)
Theorem reject_site : forall p d s,
  In d (fdefs (fpdecls p)) -> occurs s (fdbody d) -> is_var s = false ->
  (forall G T, chk (tdecls (fpdecls p)) (fdefs (fpdecls p)) G s T = false) ->
  has_type_b p = false.
Proof.
  intros p d s Hin Hocc Hv Hs. eapply has_type_b_def_false; [eassumption|].
  eapply chk_occurs_false; eassumption.
Qed.

(* ---------- class: unbound variable ---------- *)
(* any program in which a definition mentions, anywhere, a variable that is neither a parameter of
   the definition nor bound by a let / label / clause of its body *)
Theorem reject_unbound_variable : forall p d x a c,
  In d (fdefs (fpdecls p)) -> occurs (FVar x a c) (fdbody d) ->
  ~ In x (map fbvar (fdctx d)) -> ~ In x (binders (fdbody d)) ->
  has_type_b p = false.
Proof.
  intros p d x a c Hin Hocc Hp Hb. eapply has_type_b_def_false; [eassumption|].
  eapply chk_occurs_unbound; try eassumption.
  apply env_of_ctx_none; [reflexivity|assumption].
Qed.

(* ---------- class: wrong argument count ---------- *)
Section Local.
  Variable ts : list tdecl.
  Variable fs : list fdef.
  Notation chk := (chk ts fs).

  Lemma chk_args_length : forall G ps targs args sg,
    chk_args_with chk G ps targs args sg = true -> List.length args = List.length sg.
  Proof.
    intros G ps targs args. induction args as [|a r IH]; intros sg H; destruct sg as [|b br]; simpl in *;
      try reflexivity; try discriminate.
    apply andb_true_iff in H. destruct H as [_ H]. f_equal. apply IH. assumption.
  Qed.
  Lemma chk_args_length_false : forall G ps targs args sg,
    List.length args <> List.length sg -> chk_args_with chk G ps targs args sg = false.
  Proof.
    intros. destruct (chk_args_with chk G ps targs args sg) eqn:E; [|reflexivity].
    apply chk_args_length in E. contradiction.
  Qed.

  Lemma find_type_in : forall n td, find_type ts n = Some td -> In td ts.
  Proof. intros n td H. unfold find_type in H. apply find_some in H. tauto. Qed.
  Lemma find_xtor_in : forall pol x td sg, find_xtor ts pol x = Some (td, sg) ->
    In td ts /\ td_pol td = pol /\ find_xsig td x = Some sg.
  Proof.
    intros pol x td sg H. unfold find_xtor in H.
    destruct (find (fun t => fpol_eqb (td_pol t) pol && is_some (find_xsig t x)) ts) as [t|] eqn:E; [|discriminate].
    destruct (find_xsig t x) as [s|] eqn:Es; [|discriminate]. inversion H; subst.
    apply find_some in E. destruct E as [Hin Hb]. apply andb_true_iff in Hb. destruct Hb as [Hp _].
    repeat split; try assumption. destruct (td_pol td), pol; simpl in Hp; congruence.
  Qed.

  Lemma call_arg_count : forall f args r,
    (forall d, find_def fs f = Some d -> List.length args <> List.length (fdctx d)) ->
    forall G T, chk G (FCall f args r) T = false.
  Proof.
    intros f args r H G T. simpl. destruct (find_def fs f) as [d|] eqn:E; [|reflexivity].
    apply andb_false_any. right. apply chk_args_length_false. auto.
  Qed.
  Lemma ctor_arg_count : forall k args r,
    (forall td sg, In td ts -> find_xsig td k = Some sg -> List.length args <> List.length (xs_args sg)) ->
    forall G T, chk G (FCtor k args r) T = false.
  Proof.
    intros k args r H G T. simpl. destruct T as [|n targs]; [reflexivity|].
    destruct (find_type ts n) as [td|] eqn:E; [|reflexivity].
    apply andb_false_any. right. destruct (find_xsig td k) as [sg|] eqn:Es; [|reflexivity].
    apply chk_args_length_false. eapply H; eauto using find_type_in.
  Qed.
  Lemma dtor_arg_count : forall s k targs args r,
    (forall td sg, In td ts -> find_xsig td k = Some sg -> List.length args <> List.length (xs_args sg)) ->
    forall G T, chk G (FDtor s k targs args r) T = false.
  Proof.
    intros s k targs args r H G T. simpl.
    destruct (find_xtor ts FCodata k) as [[td sg]|] eqn:E; [|reflexivity].
    apply find_xtor_in in E. destruct E as [Hin [_ Hs]].
    apply andb_false_any. left. apply andb_false_any. right.
    apply chk_args_length_false. eapply H; eauto.
  Qed.

  (* ---------- class: unknown definition / constructor / destructor ---------- *)
  Lemma call_unknown : forall f args r, find_def fs f = None -> forall G T, chk G (FCall f args r) T = false.
  Proof. intros f args r H G T. simpl. rewrite H. reflexivity. Qed.
  Lemma ctor_unknown : forall k args r, (forall td, In td ts -> find_xsig td k = None) ->
    forall G T, chk G (FCtor k args r) T = false.
  Proof.
    intros k args r H G T. simpl. destruct T as [|n targs]; [reflexivity|].
    destruct (find_type ts n) as [td|] eqn:E; [|reflexivity].
    rewrite (H td (find_type_in _ _ E)). apply andb_false_r.
  Qed.
  Lemma dtor_unknown : forall s k targs args r, (forall td, In td ts -> find_xsig td k = None) ->
    forall G T, chk G (FDtor s k targs args r) T = false.
  Proof.
    intros s k targs args r H G T. simpl.
    destruct (find_xtor ts FCodata k) as [[td sg]|] eqn:E; [|reflexivity].
    apply find_xtor_in in E. destruct E as [Hin [_ Hs]]. rewrite (H td Hin) in Hs. discriminate.
  Qed.

  (* ---------- class: wrong number of type arguments (case / destructor) ---------- *)
  Lemma dtor_type_arg_count : forall s k targs args r,
    (forall td sg, In td ts -> find_xsig td k = Some sg -> List.length targs <> List.length (td_params td)) ->
    forall G T, chk G (FDtor s k targs args r) T = false.
  Proof.
    intros s k targs args r H G T. simpl.
    destruct (find_xtor ts FCodata k) as [[td sg]|] eqn:E; [|reflexivity].
    apply find_xtor_in in E. destruct E as [Hin [_ Hs]].
    destruct (Nat.eqb (List.length targs) (List.length (td_params td))) eqn:El; [|reflexivity].
    apply PeanoNat.Nat.eqb_eq in El. exfalso. eapply H; eauto.
  Qed.
  Lemma case_type_arg_count : forall s targs c0 cls r,
    (forall td sg, In td ts -> find_xsig td (clause_xtor c0) = Some sg -> List.length targs <> List.length (td_params td)) ->
    forall G T, chk G (FCase s targs (c0 :: cls) r) T = false.
  Proof.
    intros s targs c0 cls r H G T. simpl.
    destruct (find_xtor ts FData (clause_xtor c0)) as [[td sg]|] eqn:E; [|reflexivity].
    apply find_xtor_in in E. destruct E as [Hin [_ Hs]].
    destruct (Nat.eqb (List.length targs) (List.length (td_params td))) eqn:El; [|reflexivity].
    apply PeanoNat.Nat.eqb_eq in El. exfalso. eapply H; eauto.
  Qed.

  (* ---------- classes on clause lists: missing, duplicated, extra clause; binder count ---------- *)
  Lemma mem_In : forall x l, mem x l = true <-> In x l.
  Proof.
    intros x l. unfold mem. rewrite existsb_exists. split.
    - intros [y [Hin E]]. apply String.eqb_eq in E. subst. assumption.
    - intros H. exists x. split; [assumption|apply String.eqb_refl].
  Qed.
  Lemma nodup_NoDup : forall l, nodup l = true -> NoDup l.
  Proof.
    induction l as [|x r IH]; simpl; intros H; [constructor|].
    apply andb_true_iff in H. destruct H as [Hm Hn]. constructor; [|auto].
    intro Hin. apply mem_In in Hin. rewrite Hin in Hm. discriminate.
  Qed.
  Lemma nodup_dup_false : forall x l1 l2 l3, nodup (l1 ++ x :: l2 ++ x :: l3) = false.
  Proof.
    intros x l1 l2 l3. destruct (nodup (l1 ++ x :: l2 ++ x :: l3)) eqn:E; [|reflexivity].
    apply nodup_NoDup in E. apply NoDup_remove_2 in E. exfalso. apply E.
    apply in_or_app. right. apply in_or_app. right. left. reflexivity.
  Qed.
  (* same_names l k: every name of k occurs in l *)
  Lemma same_names_covers : forall l k, same_names l k = true -> forall x, In x k -> In x l.
  Proof.
    intros l k H x Hx. unfold same_names in H.
    apply andb_true_iff in H. destruct H as [H Hsub]. apply andb_true_iff in H. destruct H as [Hnd Hlen].
    apply PeanoNat.Nat.eqb_eq in Hlen. apply nodup_NoDup in Hnd.
    assert (Hi : incl k l).
    { apply NoDup_length_incl; [exact Hnd|lia|].
      intros y Hy. rewrite forallb_forall in Hsub. apply mem_In. auto. }
    apply Hi. exact Hx.
  Qed.
  Lemma same_names_incl : forall l k, same_names l k = true -> forall x, In x l -> In x k.
  Proof.
    intros l k H x Hx. unfold same_names in H. apply andb_true_iff in H. destruct H as [_ Hsub].
    rewrite forallb_forall in Hsub. apply mem_In. auto.
  Qed.

  (* missing clause: some constructor of the matched type has no clause *)
  Lemma case_missing_clause : forall s targs c0 cls r,
    (forall td sg, find_xtor ts FData (clause_xtor c0) = Some (td, sg) ->
       exists k, In k (map xs_name (td_xtors td)) /\ ~ In k (map clause_xtor (c0 :: cls))) ->
    forall G T, chk G (FCase s targs (c0 :: cls) r) T = false.
  Proof.
    intros s targs c0 cls r H G T. simpl.
    destruct (find_xtor ts FData (clause_xtor c0)) as [[td sg]|] eqn:E; [|reflexivity].
    destruct (H td sg eq_refl) as [k [Hk Hn]].
    apply andb_false_any. left. apply andb_false_any. right.
    destruct (same_names (clause_xtor c0 :: map clause_xtor cls) (map xs_name (td_xtors td))) eqn:Es; [|reflexivity].
    exfalso. apply Hn. eapply same_names_covers; eassumption.
  Qed.
  Lemma case_empty : forall s targs r G T, chk G (FCase s targs [] r) T = false.
  Proof. reflexivity. Qed.
  (* the same for new, at the type it is checked against *)
  Lemma new_missing_clause : forall cls r n targs td k,
    find_type ts n = Some td -> In k (map xs_name (td_xtors td)) -> ~ In k (map clause_xtor cls) ->
    forall G, chk G (FNew cls r) (FDecl n targs) = false.
  Proof.
    intros cls r n targs td k Ht Hk Hn G. simpl. rewrite Ht.
    apply andb_false_any. left. apply andb_false_any. right.
    destruct (same_names (map clause_xtor cls) (map xs_name (td_xtors td))) eqn:Es; [|reflexivity].
    exfalso. apply Hn. eapply same_names_covers; eassumption.
  Qed.

  (* duplicated clause (any case / new with two clauses for the same xtor) *)
  Lemma same_names_dup_false : forall x l1 l2 l3 k, same_names (l1 ++ x :: l2 ++ x :: l3) k = false.
  Proof. intros. unfold same_names. rewrite nodup_dup_false. reflexivity. Qed.
  Lemma case_dup_clause : forall s targs cls r x l1 l2 l3,
    map clause_xtor cls = l1 ++ x :: l2 ++ x :: l3 -> forall G T, chk G (FCase s targs cls r) T = false.
  Proof.
    intros s targs cls r x l1 l2 l3 Hd G T. simpl. destruct cls as [|c0 cr]; [reflexivity|].
    destruct (find_xtor ts FData (clause_xtor c0)) as [[td sg]|]; [|reflexivity].
    apply andb_false_any. left. apply andb_false_any. right.
    change (clause_xtor c0 :: map clause_xtor cr) with (map clause_xtor (c0 :: cr)).
    rewrite Hd. apply same_names_dup_false.
  Qed.
  Lemma new_dup_clause : forall cls r x l1 l2 l3,
    map clause_xtor cls = l1 ++ x :: l2 ++ x :: l3 -> forall G T, chk G (FNew cls r) T = false.
  Proof.
    intros cls r x l1 l2 l3 Hd G T. simpl. destruct T as [|n targs]; [reflexivity|].
    destruct (find_type ts n) as [td|]; [|reflexivity].
    apply andb_false_any. left. apply andb_false_any. right. rewrite Hd. apply same_names_dup_false.
  Qed.

  (* extra clause: a clause for an xtor the type does not have *)
  Lemma case_extra_clause : forall s targs c0 cls r c,
    In c (c0 :: cls) ->
    (forall td sg, find_xtor ts FData (clause_xtor c0) = Some (td, sg) -> ~ In (clause_xtor c) (map xs_name (td_xtors td))) ->
    forall G T, chk G (FCase s targs (c0 :: cls) r) T = false.
  Proof.
    intros s targs c0 cls r c Hin H G T. simpl.
    destruct (find_xtor ts FData (clause_xtor c0)) as [[td sg]|] eqn:E; [|reflexivity].
    apply andb_false_any. left. apply andb_false_any. right.
    destruct (same_names (clause_xtor c0 :: map clause_xtor cls) (map xs_name (td_xtors td))) eqn:Es; [|reflexivity].
    exfalso. eapply H; [reflexivity|]. eapply same_names_incl; [eassumption|].
    change (clause_xtor c0 :: map clause_xtor cls) with (map clause_xtor (c0 :: cls)). apply in_map. assumption.
  Qed.
  Lemma new_extra_clause : forall cls r c n targs td,
    In c cls -> find_type ts n = Some td -> ~ In (clause_xtor c) (map xs_name (td_xtors td)) ->
    forall G, chk G (FNew cls r) (FDecl n targs) = false.
  Proof.
    intros cls r c n targs td Hin Ht Hn G. simpl. rewrite Ht.
    apply andb_false_any. left. apply andb_false_any. right.
    destruct (same_names (map clause_xtor cls) (map xs_name (td_xtors td))) eqn:Es; [|reflexivity].
    exfalso. apply Hn. eapply same_names_incl; [eassumption|]. apply in_map. assumption.
  Qed.

  (* wrong number of binders in a clause *)
  Lemma chk_clauses_binder_count : forall G td targs T cls p x xs cx body,
    In (FClause p x xs cx body) cls ->
    (forall sg, find_xsig td x = Some sg -> List.length xs <> List.length (xs_args sg)) ->
    chk_clauses_with chk G td targs T cls = false.
  Proof.
    intros G td targs T cls p x xs cx body Hin H. induction cls as [|c r IH]; [destruct Hin|].
    simpl. destruct Hin as [->|Hin].
    - apply andb_false_any. left. destruct (find_xsig td x) as [sg|] eqn:E; [|reflexivity].
      apply andb_false_any. left. apply andb_false_any. right.
      apply PeanoNat.Nat.eqb_neq. auto.
    - destruct c. apply andb_false_any. right. auto.
  Qed.
  Lemma case_binder_count : forall s targs c0 cls r p x xs cx body,
    In (FClause p x xs cx body) (c0 :: cls) ->
    (forall td sg, In td ts -> find_xsig td x = Some sg -> List.length xs <> List.length (xs_args sg)) ->
    forall G T, chk G (FCase s targs (c0 :: cls) r) T = false.
  Proof.
    intros s targs c0 cls r p x xs cx body Hin H G T. simpl.
    destruct (find_xtor ts FData (clause_xtor c0)) as [[td sg]|] eqn:E; [|reflexivity].
    apply find_xtor_in in E. destruct E as [Htd _].
    apply andb_false_any. right.
    apply (chk_clauses_binder_count G td targs (Some T) (c0 :: cls) p x xs cx body Hin).
    intros; eapply H; eauto.
  Qed.
  Lemma new_binder_count : forall cls r p x xs cx body,
    In (FClause p x xs cx body) cls ->
    (forall td sg, In td ts -> find_xsig td x = Some sg -> List.length xs <> List.length (xs_args sg)) ->
    forall G T, chk G (FNew cls r) T = false.
  Proof.
    intros cls r p x xs cx body Hin H G T. simpl. destruct T as [|n targs]; [reflexivity|].
    destruct (find_type ts n) as [td|] eqn:E; [|reflexivity].
    apply andb_false_any. right.
    eapply chk_clauses_binder_count; [eassumption|]. intros; eapply H; eauto using find_type_in.
  Qed.

  (* producer used as consumer / consumer used as producer, at the environment of the site *)
  Lemma goto_producer : forall (G : env) x S t r T, G x = Some (FPrd, S) -> chk G (FGoto x t r) T = false.
  Proof. intros G x S t r T H. simpl. unfold cns_ty. rewrite H. reflexivity. Qed.
  Lemma var_consumer : forall (G : env) x S a c T, G x = Some (FCns, S) -> chk G (FVar x a c) T = false.
  Proof. intros G x S a c T H. simpl. unfold is_prd. rewrite H. reflexivity. Qed.
  (* wrong argument / literal type *)
  Lemma lit_at_declared_type : forall G n m targs, chk G (FLit n) (FDecl m targs) = false.
  Proof. reflexivity. Qed.
  Lemma ctor_at_i64 : forall G k args r, chk G (FCtor k args r) FI64 = false.
  Proof. reflexivity. Qed.
  Lemma new_at_i64 : forall G cls r, chk G (FNew cls r) FI64 = false.
  Proof. reflexivity. Qed.
End Local.

(* ---------- program-level statements for the classes that are ill-typed at every site ---------- *)
Theorem reject_wrong_argument_count_call : forall p d f args r,
  In d (fdefs (fpdecls p)) -> occurs (FCall f args r) (fdbody d) ->
  (forall d', find_def (fdefs (fpdecls p)) f = Some d' -> List.length args <> List.length (fdctx d')) ->
  has_type_b p = false.
Proof. intros. eapply reject_site; eauto using call_arg_count. Qed.
Theorem reject_wrong_argument_count_ctor : forall p d k args r,
  In d (fdefs (fpdecls p)) -> occurs (FCtor k args r) (fdbody d) ->
  (forall td sg, In td (tdecls (fpdecls p)) -> find_xsig td k = Some sg -> List.length args <> List.length (xs_args sg)) ->
  has_type_b p = false.
Proof. intros. eapply reject_site; eauto using ctor_arg_count. Qed.
Theorem reject_wrong_argument_count_dtor : forall p d s k targs args r,
  In d (fdefs (fpdecls p)) -> occurs (FDtor s k targs args r) (fdbody d) ->
  (forall td sg, In td (tdecls (fpdecls p)) -> find_xsig td k = Some sg -> List.length args <> List.length (xs_args sg)) ->
  has_type_b p = false.
Proof. intros. eapply reject_site; eauto using dtor_arg_count. Qed.

Theorem reject_missing_clause_case : forall p d s targs c0 cls r,
  In d (fdefs (fpdecls p)) -> occurs (FCase s targs (c0 :: cls) r) (fdbody d) ->
  (forall td sg, find_xtor (tdecls (fpdecls p)) FData (clause_xtor c0) = Some (td, sg) ->
     exists k, In k (map xs_name (td_xtors td)) /\ ~ In k (map clause_xtor (c0 :: cls))) ->
  has_type_b p = false.
Proof. intros. eapply reject_site; eauto using case_missing_clause. Qed.
Theorem reject_empty_case : forall p d s targs r,
  In d (fdefs (fpdecls p)) -> occurs (FCase s targs [] r) (fdbody d) -> has_type_b p = false.
Proof. intros. eapply reject_site; eauto using case_empty. Qed.

Theorem reject_duplicated_clause_case : forall p d s targs cls r x l1 l2 l3,
  In d (fdefs (fpdecls p)) -> occurs (FCase s targs cls r) (fdbody d) ->
  map clause_xtor cls = l1 ++ x :: l2 ++ x :: l3 -> has_type_b p = false.
Proof. intros. eapply reject_site; eauto using case_dup_clause. Qed.
Theorem reject_duplicated_clause_new : forall p d cls r x l1 l2 l3,
  In d (fdefs (fpdecls p)) -> occurs (FNew cls r) (fdbody d) ->
  map clause_xtor cls = l1 ++ x :: l2 ++ x :: l3 -> has_type_b p = false.
Proof. intros. eapply reject_site; eauto using new_dup_clause. Qed.

Theorem reject_extra_clause_case : forall p d s targs c0 cls r c,
  In d (fdefs (fpdecls p)) -> occurs (FCase s targs (c0 :: cls) r) (fdbody d) -> In c (c0 :: cls) ->
  (forall td sg, find_xtor (tdecls (fpdecls p)) FData (clause_xtor c0) = Some (td, sg) ->
     ~ In (clause_xtor c) (map xs_name (td_xtors td))) ->
  has_type_b p = false.
Proof. intros. eapply reject_site; eauto using case_extra_clause. Qed.

Theorem reject_wrong_binder_count_case : forall p d s targs c0 cls r pl x xs cx body,
  In d (fdefs (fpdecls p)) -> occurs (FCase s targs (c0 :: cls) r) (fdbody d) ->
  In (FClause pl x xs cx body) (c0 :: cls) ->
  (forall td sg, In td (tdecls (fpdecls p)) -> find_xsig td x = Some sg -> List.length xs <> List.length (xs_args sg)) ->
  has_type_b p = false.
Proof. intros. eapply reject_site; eauto using case_binder_count. Qed.
Theorem reject_wrong_binder_count_new : forall p d cls r pl x xs cx body,
  In d (fdefs (fpdecls p)) -> occurs (FNew cls r) (fdbody d) -> In (FClause pl x xs cx body) cls ->
  (forall td sg, In td (tdecls (fpdecls p)) -> find_xsig td x = Some sg -> List.length xs <> List.length (xs_args sg)) ->
  has_type_b p = false.
Proof. intros. eapply reject_site; eauto using new_binder_count. Qed.

Theorem reject_wrong_type_argument_count_dtor : forall p d s k targs args r,
  In d (fdefs (fpdecls p)) -> occurs (FDtor s k targs args r) (fdbody d) ->
  (forall td sg, In td (tdecls (fpdecls p)) -> find_xsig td k = Some sg -> List.length targs <> List.length (td_params td)) ->
  has_type_b p = false.
Proof. intros. eapply reject_site; eauto using dtor_type_arg_count. Qed.
Theorem reject_wrong_type_argument_count_case : forall p d s targs c0 cls r,
  In d (fdefs (fpdecls p)) -> occurs (FCase s targs (c0 :: cls) r) (fdbody d) ->
  (forall td sg, In td (tdecls (fpdecls p)) -> find_xsig td (clause_xtor c0) = Some sg -> List.length targs <> List.length (td_params td)) ->
  has_type_b p = false.
Proof. intros. eapply reject_site; eauto using case_type_arg_count. Qed.

Theorem reject_unknown_definition : forall p d f args r,
  In d (fdefs (fpdecls p)) -> occurs (FCall f args r) (fdbody d) -> find_def (fdefs (fpdecls p)) f = None ->
  has_type_b p = false.
Proof. intros. eapply reject_site; eauto using call_unknown. Qed.
Theorem reject_unknown_constructor : forall p d k args r,
  In d (fdefs (fpdecls p)) -> occurs (FCtor k args r) (fdbody d) ->
  (forall td, In td (tdecls (fpdecls p)) -> find_xsig td k = None) -> has_type_b p = false.
Proof. intros. eapply reject_site; eauto using ctor_unknown. Qed.
Theorem reject_unknown_destructor : forall p d s k targs args r,
  In d (fdefs (fpdecls p)) -> occurs (FDtor s k targs args r) (fdbody d) ->
  (forall td, In td (tdecls (fpdecls p)) -> find_xsig td k = None) -> has_type_b p = false.
Proof. intros. eapply reject_site; eauto using dtor_unknown. Qed.

(* ---------- class: duplicate declaration ---------- *)
Lemma tdecls_app : forall a b, tdecls (a ++ b) = tdecls a ++ tdecls b.
Proof. induction a as [|d r IH]; intros b; simpl; [reflexivity|]. destruct (tdecl_of d); simpl; rewrite IH; reflexivity. Qed.
Lemma fdefs_app : forall a b, fdefs (a ++ b) = fdefs a ++ fdefs b.
Proof. induction a as [|d r IH]; intros b; simpl; [reflexivity|]. destruct d; simpl; rewrite IH; reflexivity. Qed.

Definition decl_name (d : fdecl) : fname :=
  match d with FDData d => fdaname d | FDCodata d => fcoaname d | FDDef d => fdname d end.
Definition same_kind (a b : fdecl) : bool :=
  match a, b with
  | FDDef _, FDDef _ => true
  | FDDef _, _ | _, FDDef _ => false
  | _, _ => true
  end.

(* two definitions with the same name, or two type declarations (data or codata) with the same
   name, anywhere in the program *)
Theorem reject_duplicate_declaration : forall l1 d l2 d' l3,
  same_kind d d' = true -> decl_name d = decl_name d' ->
  has_type_b (mkfprog (l1 ++ d :: l2 ++ d' :: l3)) = false.
Proof.
  intros l1 d l2 d' l3 Hk Hn. unfold has_type_b. simpl.
  apply andb_false_any. left. apply andb_false_any. left.
  unfold names_ok.
  rewrite !tdecls_app, !fdefs_app. simpl. rewrite !tdecls_app, !fdefs_app. simpl.
  destruct d as [a|a|a], d' as [b|b|b]; simpl in Hk; try discriminate; simpl in Hn; simpl;
    rewrite ?map_app; simpl; rewrite ?map_app; simpl; rewrite Hn.
  1-4: (apply andb_false_any; left; apply andb_false_any; left; apply andb_false_any; left;
        apply nodup_dup_false).
  apply andb_false_any. right. apply nodup_dup_false.
Qed.
(* in particular: appending a copy of any declaration *)
Corollary reject_duplicated_declaration_copy : forall l1 d l2,
  has_type_b (mkfprog (l1 ++ d :: l2 ++ [d])) = false.
Proof. intros. apply reject_duplicate_declaration; [destruct d; reflexivity|reflexivity]. Qed.

(* duplicate constructor within one data type *)
Theorem reject_duplicate_constructor : forall l1 n ps c1 k sg1 c2 sg2 c3 l2,
  has_type_b (mkfprog (l1 ++ FDData (mkfdata n ps (c1 ++ mkfctor k sg1 :: c2 ++ mkfctor k sg2 :: c3)) :: l2)) = false.
Proof.
  intros. unfold has_type_b. simpl. apply andb_false_any. left. apply andb_false_any. left.
  unfold names_ok. rewrite tdecls_app. simpl.
  apply andb_false_any. left. apply andb_false_any. left. apply andb_false_any. right.
  unfold xtor_names. rewrite flat_map_app. simpl.
  rewrite !map_app. simpl. rewrite !map_app. simpl.
  rewrite <- !app_assoc. simpl. rewrite <- !app_assoc. simpl.
  rewrite app_assoc. apply nodup_dup_false.
Qed.
