(* C19: how many pseudo-instructions the parallel-move algorithm (Model/ParMoves.v) emits.
   For a move graph with in-degree <= 1 and duplicate-free target sets:
       #(Mov / Save / Restore) <= 2 * #edges + #keys
   (one Mov per target: every target is visited once and then deleted from the graph; at most one
   Save per visited node, because a node's target set mentions the root at most once; at most one
   Restore per root).  Without in-degree <= 1 the spanning "tree" of a root unfolds a DAG and the
   count can be exponential. *)
From Coq Require Import List Bool Arith NArith Lia.
From SCC Require Import Model.ParMoves.
Import ListNotations.

Section Count.
Variable T : Type.
Variable eqb : T -> T -> bool.
Hypothesis eqb_spec : forall a b, reflect (a = b) (eqb a b).
Notation tree := (tree T).
Notation amap := (amap T).

Lemma tree_moves_len : forall (tr : tree) p, length (tree_moves T p tr) = length (nodes T tr) + length (backs T p tr).
Proof.
  induction tr as [|t cs IH] using tree_ind2; intros p; cbn [tree_moves nodes backs]; [reflexivity|].
  rewrite app_length. cbn [length].
  assert (G : length (flat_map (tree_moves T t) cs) = length (flat_map (nodes T) cs) + length (flat_map (backs T t) cs)).
  { induction IH as [|c r Hc Hr IHr]; [reflexivity|]. cbn [flat_map]. rewrite !app_length, Hc, IHr. lia. }
  lia.
Qed.
Lemma children_moves_len : forall (cs : list tree) t,
  length (flat_map (tree_moves T t) cs) = length (flat_map (nodes T) cs) + length (flat_map (backs T t) cs).
Proof.
  induction cs as [|c r IH]; intros t; [reflexivity|]. cbn [flat_map]. rewrite !app_length, tree_moves_len, IH. lia.
Qed.

(* at most one back edge per node *)
Lemma st_backs_le pm (NT : nodup_targets T eqb pm) r : forall fuel n tr p,
  spanning_tree T eqb fuel pm r n = Some tr -> n <> r -> length (backs T p tr) <= length (nodes T tr).
Proof.
  induction fuel as [|f IH]; intros n tr p H Hn; [discriminate|]. cbn [spanning_tree] in H.
  destruct (eqb_spec r n) as [E|_]; [congruence|].
  destruct (lookup T eqb pm n) as [ts|] eqn:Lk.
  - destruct (mapM (spanning_tree T eqb f pm r) ts) as [cs|] eqn:M; [|discriminate]. inversion H; subst; clear H.
    cbn [backs nodes length]. apply mapM_Forall2 in M. pose proof (NT _ _ Lk) as ND.
    assert (G : length (flat_map (backs T n) cs) <= (if mem T eqb r ts then 1 else 0) + length (flat_map (nodes T) cs)).
    { clear Lk. induction M as [|t c ts cs Hc M IHM]; [cbn; lia|]. inversion ND as [|? ? Hnin ND']; subst.
      specialize (IHM ND'). cbn [flat_map mem existsb]. rewrite !app_length. fold (mem T eqb r ts).
      destruct (eqb_spec r t) as [E|Hne].
      - subst t. apply (st_root T eqb eqb_spec) in Hc. subst c. cbn [backs nodes length].
        assert (mem T eqb r ts = false) as Hm.
        { destruct (mem T eqb r ts) eqn:Em; [|reflexivity]. apply (mem_In T eqb eqb_spec) in Em. contradiction. }
        rewrite Hm in IHM. cbn [orb]. lia.
      - assert (length (backs T n c) <= length (nodes T c)) by (eapply IH; eauto).
        cbn [orb]. lia. }
    destruct (mem T eqb r ts); lia.
  - inversion H; subst. cbn. lia.
Qed.

Lemma root_moves_len pm (NT : nodup_targets T eqb pm) fuel k cs :
  root_for T eqb fuel pm k = Some (StartNode T k cs) ->
  length (root_moves T (StartNode T k cs)) <= 2 * length (flat_map (nodes T) cs) + 1.
Proof.
  unfold root_for. destruct (lookup T eqb pm k) as [ts|] eqn:Lk; [|discriminate].
  destruct (mapM _ _) as [cs'|] eqn:M; [|discriminate]. intros H; inversion H; subst cs'; clear H.
  apply mapM_Forall2 in M. cbn [root_moves]. rewrite app_length, children_moves_len.
  assert (G : length (flat_map (backs T k) cs) <= length (flat_map (nodes T) cs)).
  { assert (Hne : forall t, In t (remove1 T eqb k ts) -> t <> k) by (intros t Ht; apply (remove1_In T eqb eqb_spec) in Ht; tauto).
    induction M as [|t c ts' cs Hc M IHM]; [cbn; lia|]. cbn [flat_map]. rewrite !app_length.
    assert (length (backs T k c) <= length (nodes T c)) by (eapply st_backs_le; eauto; apply Hne; now left).
    assert (length (flat_map (backs T k) cs) <= length (flat_map (nodes T) cs)) by (apply IHM; intros; apply Hne; now right).
    lia. }
  destruct (existsb (refers_back T) cs); cbn [length]; lia.
Qed.

Lemma all_targets_filter D (pm : amap) :
  all_targets T (delete_targets T eqb D pm) = filter (fun t => negb (mem T eqb t D)) (all_targets T pm).
Proof.
  unfold all_targets, delete_targets. induction pm as [|[k ts] pm IH]; [reflexivity|].
  cbn [map flat_map fst snd]. rewrite IH. clear IH.
  generalize (flat_map snd pm). intros l. induction ts as [|x r IHr]; [reflexivity|].
  cbn [filter app]. destruct (negb (mem T eqb x D)); cbn [app]; rewrite IHr; reflexivity.
Qed.
Lemma filter_split_len {A} (f : A -> bool) l : length (filter f l) + length (filter (fun x => negb (f x)) l) = length l.
Proof. induction l as [|x r IH]; [reflexivity|]. cbn [filter]. destruct (f x); cbn [negb length]; lia. Qed.

Lemma delete_potential D (pm : amap) N :
  NoDup N -> incl N D -> incl N (all_targets T pm) ->
  length (all_targets T (delete_targets T eqb D pm)) + length N <= length (all_targets T pm).
Proof.
  intros ND HD HA. rewrite all_targets_filter.
  pose proof (filter_split_len (fun t => negb (mem T eqb t D)) (all_targets T pm)) as E.
  assert (length N <= length (filter (fun x => negb (negb (mem T eqb x D))) (all_targets T pm))).
  { apply NoDup_incl_length; [exact ND|]. intros x Hx. apply filter_In. split; [apply HA; exact Hx|].
    rewrite negb_involutive. apply (mem_In T eqb eqb_spec). apply HD. exact Hx. }
  lia.
Qed.

Theorem forest_moves_len fuel : forall keys (pm : amap) rs,
  indeg1 T eqb pm -> nodup_targets T eqb pm -> forest_loop T eqb fuel keys pm = Some rs ->
  length (flat_map (root_moves T) rs) <= 2 * length (all_targets T pm) + length keys.
Proof.
  induction keys as [|k ks IH]; intros pm rs ID NT H; cbn [forest_loop] in H.
  - inversion H; subst. cbn. lia.
  - destruct (root_for T eqb fuel pm k) as [r|] eqn:R; [|discriminate].
    destruct (forest_loop T eqb fuel ks _) as [rs'|] eqn:F; [|discriminate]. inversion H; subst; clear H.
    assert (exists cs, r = StartNode T k cs) as (cs & ->).
    { unfold root_for in R. destruct (lookup T eqb pm k); [|discriminate]. destruct (mapM _ _); inversion R; eauto. }
    destruct (root_for_spec T eqb eqb_spec pm ID NT fuel k cs R) as (ND & Hk & HE & _).
    pose proof (root_moves_len pm NT fuel k cs R) as HL.
    set (D := visited_by T (StartNode T k cs)) in *.
    assert (HD : incl (flat_map (nodes T) cs) D) by (intros x Hx; unfold D; cbn [visited_by]; apply in_or_app; right; exact Hx).
    assert (HA : incl (flat_map (nodes T) cs) (all_targets T pm)).
    { intros b Hb. apply in_flat_map in Hb as (c0 & Hc0 & Hb).
      destruct (nodes_have_edges T c0 k b Hb) as (a & Ha).
      apply (edge_all_targets T eqb pm a b). apply HE. apply in_flat_map. eauto. }
    pose proof (delete_potential D pm _ ND HD HA) as HP.
    assert (ID' : indeg1 T eqb (delete_targets T eqb D pm)).
    { intros a a' b E1 E2. apply (edge_delete T eqb eqb_spec) in E1 as [E1 _], E2 as [E2 _]. eapply ID; eauto. }
    assert (NT' : nodup_targets T eqb (delete_targets T eqb D pm)).
    { intros a ts Lk. rewrite lookup_delete in Lk. destruct (lookup T eqb pm a) as [ts0|] eqn:L0; [|discriminate].
      inversion Lk; subst. apply NoDup_filter. eauto. }
    specialize (IH _ _ ID' NT' F).
    cbn [flat_map length]. rewrite app_length. lia.
Qed.

Theorem parallel_moves_len fuel (A : amap) rs :
  indeg1 T eqb A -> nodup_targets T eqb A -> spanning_forest T eqb fuel A = Some rs ->
  length (flat_map (root_moves T) rs) <= 2 * length (all_targets T A) + length A.
Proof.
  intros ID NT H. unfold spanning_forest in H. pose proof (forest_moves_len fuel _ _ _ ID NT H) as G.
  rewrite map_length in G. exact G.
Qed.

(* with distinct keys the target lists are pairwise disjoint: the edge list has no duplicates *)
Lemma lookup_nodup_keys (m : amap) k ts : NoDup (map fst m) -> In (k, ts) m -> lookup T eqb m k = Some ts.
Proof.
  induction m as [|[k0 t0] m IH]; intros ND H; [contradiction|]. cbn [lookup]. inversion ND as [|? ? Hn ND']; subst.
  destruct H as [H|H].
  - inversion H; subst. destruct (eqb_spec k k); [reflexivity|congruence].
  - destruct (eqb_spec k k0) as [E|_]; [|apply IH; assumption]. subst k0. exfalso. apply Hn.
    apply in_map_iff. exists (k, ts). split; [reflexivity|exact H].
Qed.
Lemma all_targets_nodup (A : amap) :
  indeg1 T eqb A -> nodup_targets T eqb A -> NoDup (map fst A) -> NoDup (all_targets T A).
Proof.
  intros ID NT NK. assert (G : forall m, incl m A -> NoDup (map fst m) -> NoDup (all_targets T m)).
  { induction m as [|[k ts] m IH]; intros Hi ND; [constructor|]. unfold all_targets. cbn [flat_map snd].
    inversion ND as [|? ? Hn ND']; subst.
    assert (Lk : lookup T eqb A k = Some ts) by (apply lookup_nodup_keys; [exact NK | apply Hi; now left]).
    apply NoDup_app_intro.
    - eapply NT; eauto.
    - apply IH; [intros x Hx; apply Hi; now right | exact ND'].
    - intros b Hb1 Hb2. apply in_flat_map in Hb2 as ([k' ts'] & Hin & Hb2). cbn [snd] in Hb2.
      assert (Lk' : lookup T eqb A k' = Some ts') by (apply lookup_nodup_keys; [exact NK | apply Hi; now right]).
      assert (k = k') by (eapply ID; [exists ts; eauto | exists ts'; eauto]). subst k'.
      apply Hn. apply in_map_iff. exists (k, ts'). split; [reflexivity|exact Hin]. }
  apply G; [apply incl_refl | exact NK].
Qed.
End Count.

(* in-degree <= 1 is needed: on a chain of d diamonds (a -> b, c; b -> e; c -> e; e -> ...) the spanning
   tree of the first root unfolds the DAG: 2^(d+2) - 4 pseudo-instructions for 4 d edges *)
Fixpoint diamonds (d : nat) (base : nat) : amap nat :=
  match d with
  | O => []
  | S d' => (base, [base + 1; base + 2]) :: (base + 1, [base + 3]) :: (base + 2, [base + 3]) :: diamonds d' (base + 3)
  end.
Definition diamonds_count (d : nat) : option (N * N * N) :=
  let A := diamonds d 0 in
  match spanning_forest nat Nat.eqb (List.length (all_targets nat A) + 2) A with
  | Some rs => Some (N.of_nat (List.length (flat_map (root_moves nat) rs)), N.of_nat (List.length (all_targets nat A)), N.of_nat (List.length A))
  | None => None
  end.
