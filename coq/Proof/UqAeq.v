(* C03, uniquify preserves behaviour, part 2: alpha-equivalence with a binder correspondence.

   [gam] = list of (source binder, chirality of the variable, target binder), innermost first; it is
   the zip of the binder names of two corresponding machine environments.  An occurrence x matches
   x' ([vmatch]) when looking x up in the source names and x' in the target names stops at the SAME
   position (or at none, and then x = x').  The chirality component plays no role in [aeq] (the
   machine has one namespace); it is used by the scoping checker [cs_*] (every occurrence refers to
   a binder of its own chirality - a consequence of typing that `uniquify` relies on, because its
   substitution keeps separate lists for variables and covariables). *)
From Coq Require Import List ZArith NArith String Bool Lia.
From SCC Require Import Base.Sexp Lang.CoreSyn Model.Backend Model.Uniquify Model.FocusCheck Proof.SubstProof.
From SCC Require Import Model.FocusGuard.
Import ListNotations.
Open Scope list_scope.

Definition gam := list (cident * cchi * cident).

Fixpoint vmatch (G : gam) (x x' : cident) : bool :=
  match G with
  | [] => cident_eqb x x'
  | (y, _, y') :: r =>
      if cident_eqb y x then cident_eqb y' x'
      else if cident_eqb y' x' then false else vmatch r x x'
  end.

Fixpoint gfind (G : gam) (x : cident) : option (cchi * cident) :=
  match G with
  | [] => None
  | (y, ch, y') :: r => if cident_eqb y x then Some (ch, y') else gfind r x
  end.

Fixpoint gzip (ctx ctx' : cctx) : gam :=
  match ctx, ctx' with
  | b :: r, b' :: r' => (cbvar b, cbchi b, cbvar b') :: gzip r r'
  | _, _ => []
  end.
Definition ctx_like (ctx ctx' : cctx) : Prop := Forall2 (fun b b' => cbchi b' = cbchi b /\ cbty b' = cbty b) ctx ctx'.

Inductive aeq_t : gam -> cterm -> cterm -> Prop :=
| A_var : forall G c x ty c2 x' ty2, vmatch G x x' = true -> aeq_t G (CXVar c x ty) (CXVar c2 x' ty2)
| A_lit : forall G n, aeq_t G (CLit n) (CLit n)
| A_op : forall G a o b a' b', aeq_t G a a' -> aeq_t G b b' -> aeq_t G (COp a o b) (COp a' o b')
| A_mu : forall G c v s ty v' s',
    aeq_s ((v, mu_binds c, v') :: G) s s' -> aeq_t G (CMu c v s ty) (CMu c v' s' ty)
| A_xtor : forall G c x args args' ty, aeq_as G args args' -> aeq_t G (CXtor c x args ty) (CXtor c x args' ty)
| A_xcase : forall G c cls cls' ty, aeq_cs G cls cls' -> aeq_t G (CXCase c cls ty) (CXCase c cls' ty)
with aeq_a : gam -> carg -> carg -> Prop :=
| A_prd : forall G p p', aeq_t G p p' -> aeq_a G (CProducer p) (CProducer p')
| A_cns : forall G p p', aeq_t G p p' -> aeq_a G (CConsumer p) (CConsumer p')
with aeq_as : gam -> list carg -> list carg -> Prop :=
| A_anil : forall G, aeq_as G [] []
| A_acons : forall G a a' l l', aeq_a G a a' -> aeq_as G l l' -> aeq_as G (a :: l) (a' :: l')
with aeq_c : gam -> cclause -> cclause -> Prop :=
| A_clause : forall G c x ctx ctx' b b',
    ctx_like ctx ctx' -> aeq_s (gzip ctx ctx' ++ G) b b' -> aeq_c G (CClause c x ctx b) (CClause c x ctx' b')
with aeq_cs : gam -> list cclause -> list cclause -> Prop :=
| A_cnil : forall G, aeq_cs G [] []
| A_ccons : forall G a a' l l', aeq_c G a a' -> aeq_cs G l l' -> aeq_cs G (a :: l) (a' :: l')
with aeq_s : gam -> cstmt -> cstmt -> Prop :=
| A_cut : forall G p ty k p' k', aeq_t G p p' -> aeq_t G k k' -> aeq_s G (CCut p ty k) (CCut p' ty k')
| A_ifc : forall G so a b t e a' b' t' e',
    aeq_t G a a' -> aeq_o G b b' -> aeq_s G t t' -> aeq_s G e e' -> aeq_s G (CIfC so a b t e) (CIfC so a' b' t' e')
| A_print : forall G nl a n a' n', aeq_t G a a' -> aeq_s G n n' -> aeq_s G (CPrint nl a n) (CPrint nl a' n')
| A_call : forall G f args args' ty, aeq_as G args args' -> aeq_s G (CCall f args ty) (CCall f args' ty)
| A_exit : forall G a a' ty, aeq_t G a a' -> aeq_s G (CExit a ty) (CExit a' ty)
with aeq_o : gam -> option cterm -> option cterm -> Prop :=
| A_none : forall G, aeq_o G None None
| A_some : forall G a a', aeq_t G a a' -> aeq_o G (Some a) (Some a').

Definition gsrc (G : gam) : list (cident * cchi) := map (fun e => (fst (fst e), snd (fst e))) G.

Lemma sfind_gsrc : forall G x, sfind (gsrc G) x = option_map fst (gfind G x).
Proof.
  induction G as [|[[y ch] y'] r IH]; simpl; intros x; [reflexivity|].
  destruct (cident_eqb y x); [reflexivity | apply IH].
Qed.
Lemma gsrc_app : forall a b, gsrc (a ++ b) = gsrc a ++ gsrc b.
Proof. intros. unfold gsrc. apply map_app. Qed.
Lemma gsrc_gzip : forall ctx ctx', List.length ctx = List.length ctx' -> gsrc (gzip ctx ctx') = ctx_sc ctx.
Proof.
  induction ctx as [|b r IH]; intros [|b' r'] H; simpl in *; try discriminate; [reflexivity|].
  f_equal. apply IH. lia.
Qed.
Lemma gfind_app : forall a b x, gfind (a ++ b) x = match gfind a x with Some r => Some r | None => gfind b x end.
Proof.
  induction a as [|[[y ch] y'] a IH]; simpl; intros b x; [reflexivity|].
  destruct (cident_eqb y x); [reflexivity | apply IH].
Qed.

(* ---------- the target name of an occurrence and when it matches ---------- *)
Definition img (G : gam) (x : cident) : cident := match gfind G x with Some (_, x') => x' | None => x end.

(* every target binder is the source binder itself (id <= T) or a fresh name (T < id <= m) different
   from every other target binder *)
Inductive GOK (T m : N) : gam -> Prop :=
| GOK_nil : GOK T m []
| GOK_cons : forall x ch x' G,
    GOK T m G ->
    (x' = x /\ (cid_id x <= T)%N) \/ ((T < cid_id x' <= m)%N /\ forall z c z', In (z, c, z') G -> z' <> x') ->
    GOK T m ((x, ch, x') :: G).

Lemma GOK_mono : forall T m m2 G, GOK T m G -> (m <= m2)%N -> GOK T m2 G.
Proof.
  induction 1 as [|x ch x' G H IH K]; intros L; constructor; auto.
  destruct K as [K|[K1 K2]]; [left; exact K | right; split; [lia | exact K2]].
Qed.

Lemma gfind_in : forall G x ch x', gfind G x = Some (ch, x') -> In (x, ch, x') G.
Proof.
  induction G as [|[[y c] y'] r IH]; simpl; intros x ch x' H; [discriminate|].
  destruct (cident_eqb y x) eqn:E.
  - apply cident_eqb_eq in E. subst. inversion H; subst. auto.
  - right. apply IH; exact H.
Qed.

Lemma GOK_in : forall T m G z c z', GOK T m G -> In (z, c, z') G ->
  (z' = z /\ (cid_id z <= T)%N) \/ (T < cid_id z' <= m)%N.
Proof.
  induction 1 as [|x ch x' G H IH K]; intros I; [destruct I|].
  destruct I as [I|I]; [inversion I; subst; destruct K as [K|[K _]]; auto | auto].
Qed.

Lemma vmatch_img : forall T m G x, GOK T m G -> (cid_id x <= T)%N -> vmatch G x (img G x) = true.
Proof.
  induction 1 as [|y ch y' G H IH K]; intros Lx; unfold img; simpl.
  - apply cident_eqb_refl.
  - destruct (cident_eqb y x) eqn:E; [apply cident_eqb_refl|].
    fold (img G x).
    destruct (cident_eqb y' (img G x)) eqn:E2; [|apply IH; exact Lx].
    exfalso. apply cident_eqb_eq in E2.
    assert (NE : y <> x) by (intros ->; rewrite cident_eqb_refl in E; discriminate).
    unfold img in E2. destruct (gfind G x) as [[c1 x1]|] eqn:F.
    + subst y'. apply gfind_in in F.
      destruct K as [[K1 K2]|[K1 K2]].
      * subst x1. destruct (GOK_in _ _ _ _ _ _ H F) as [[Q _]|Q]; [congruence | lia].
      * exact (K2 _ _ _ F eq_refl).
    + subst y'. destruct K as [[K _]|[K1 _]]; [congruence | lia].
Qed.
