(* C18: stability of the seven mutually recursive parsing functions under more fuel, and the fuel theorem for [parse]. *)
From Coq Require Import List ZArith NArith String Ascii Bool Lia.
From SCC Require Import Base.Sexp Lang.SynUtil Lang.FunSyn Model.Printer Model.Parser Proof.ParseFuel.
Import ListNotations.
Open Scope string_scope.

Definition stable {X} (f : nat -> list token -> pr X) (c : nat) (ts : list token) : Prop :=
  forall n m, 8 * List.length ts + c <= n -> 8 * List.length ts + c <= m -> f n ts = f m ts.

Definition all_stable (ts : list token) : Prop :=
  stable p_term 4 ts /\ stable p_term3 3 ts /\ stable p_block 1 ts /\ stable p_term2 2 ts /\ stable p_term1 1 ts
  /\ (forall e b, stable (fun n => p_postfix n e b) 1 ts) /\ (forall pol, stable (fun n => p_clause n pol) 1 ts).

Ltac lenfact E :=
  match type of E with
  | expect _ _ = Some _ => apply expect_len in E
  | p_term _ _ = Some _ => apply p_term_shorter in E
  | p_term3 _ _ = Some _ => apply p_term3_shorter in E
  | p_block _ _ = Some _ => apply p_block_shorter in E
  | p_term2 _ _ = Some _ => apply p_term2_shorter in E
  | p_term1 _ _ = Some _ => apply p_term1_shorter in E
  | p_postfix _ _ _ _ = Some _ => apply p_postfix_nolonger in E
  | p_clause _ _ _ = Some _ => apply p_clause_shorter in E
  | comma_loop (p_term _) _ _ _ = Some _ => apply (comma_loop_shorter _ _ _ (p_term_shorter _)) in E
  | comma_loop (p_clause _ _) _ _ _ = Some _ => apply (comma_loop_shorter _ _ _ (p_clause_shorter _ _)) in E
  | p_ty _ _ = Some _ => apply p_ty_shorter in E
  | p_opttyargs _ _ = Some _ => apply p_opttyargs_nolonger in E
  | p_optnames _ _ = Some _ => apply p_optnames_nolonger in E
  | p_upper _ = Some _ => apply p_upper_shorter in E
  | p_lower _ = Some _ => apply p_lower_shorter in E
  | _ => idtac
  end.

Section Step.
  Variable L : nat.
  Hypothesis IH : forall ts, List.length ts < L -> all_stable ts.

  Lemma Ht ts n m : List.length ts < L -> 8 * List.length ts + 4 <= n -> 8 * List.length ts + 4 <= m -> p_term n ts = p_term m ts.
  Proof. intros H. exact (proj1 (IH ts H) n m). Qed.
  Lemma Ht3 ts n m : List.length ts < L -> 8 * List.length ts + 3 <= n -> 8 * List.length ts + 3 <= m -> p_term3 n ts = p_term3 m ts.
  Proof. intros H. exact (proj1 (proj2 (IH ts H)) n m). Qed.
  Lemma Hb ts n m : List.length ts < L -> 8 * List.length ts + 1 <= n -> 8 * List.length ts + 1 <= m -> p_block n ts = p_block m ts.
  Proof. intros H. exact (proj1 (proj2 (proj2 (IH ts H))) n m). Qed.
  Lemma Ht2 ts n m : List.length ts < L -> 8 * List.length ts + 2 <= n -> 8 * List.length ts + 2 <= m -> p_term2 n ts = p_term2 m ts.
  Proof. intros H. exact (proj1 (proj2 (proj2 (proj2 (IH ts H)))) n m). Qed.
  Lemma Ht1 ts n m : List.length ts < L -> 8 * List.length ts + 1 <= n -> 8 * List.length ts + 1 <= m -> p_term1 n ts = p_term1 m ts.
  Proof. intros H. exact (proj1 (proj2 (proj2 (proj2 (proj2 (IH ts H))))) n m). Qed.
  Lemma Hp e b ts n m : List.length ts < L -> 8 * List.length ts + 1 <= n -> 8 * List.length ts + 1 <= m -> p_postfix n e b ts = p_postfix m e b ts.
  Proof. intros H. exact (proj1 (proj2 (proj2 (proj2 (proj2 (proj2 (IH ts H)))))) e b n m). Qed.
  Lemma Hc pol ts n m : List.length ts < L -> 8 * List.length ts + 1 <= n -> 8 * List.length ts + 1 <= m -> p_clause n pol ts = p_clause m pol ts.
  Proof. intros H. exact (proj2 (proj2 (proj2 (proj2 (proj2 (proj2 (IH ts H)))))) pol n m). Qed.

  Ltac arith := cbn [List.length] in *; lia.
  Ltac solve_call :=
    first
      [ reflexivity
      | apply Ht; arith | apply Ht3; arith | apply Hb; arith | apply Ht2; arith | apply Ht1; arith | apply Hp; arith | apply Hc; arith
      | apply p_opttyargs_stable; arith | apply p_optnames_stable; arith
      | apply (p_ty_stable _ _ (le_n _)); arith
      | apply comma_loop_stable; [apply p_term_shorter | intros; apply Ht; arith | arith | arith]
      | apply comma_loop_stable; [apply p_clause_shorter | intros; apply Hc; arith | arith | arith]
      | match goal with S : stable _ _ _ |- _ => apply S; arith end ].
  Ltac stab :=
    repeat first
      [ reflexivity
      | match goal with
        | |- obind ?e1 _ = obind ?e2 _ =>
            first [ constr_eq e1 e2
                  | let Q := fresh "Q" in assert (Q : e1 = e2) by solve_call; rewrite Q; clear Q ];
            let E := fresh "E" in let p := fresh "p" in
            destruct e2 as [p|] eqn:E; cbn [obind]; [|reflexivity];
            match type of p with (_ * _)%type => destruct p | _ => idtac end; lenfact E
        | |- (let (_, _) := ?p in _) = _ => destruct p
        | |- (if ?b then _ else _) = _ => destruct b
        | |- (match ?x with _ => _ end) = _ => destruct x
        end
      | solve_call ].

  Section Same.
    Variable ts : list token.
    Hypothesis HL : List.length ts <= L.

    Lemma S_term1 : stable p_term1 1 ts.
    Proof.
      intros n m Hn Hm. destruct n as [|n]; [lia|]. destruct m as [|m]; [lia|].
      cbn [p_term1]. stab.
    Qed.
    Lemma S_postfix e b : stable (fun n => p_postfix n e b) 1 ts.
    Proof.
      intros n m Hn Hm. destruct n as [|n]; [lia|]. destruct m as [|m]; [lia|].
      cbn [p_postfix]. stab.
    Qed.
    Lemma S_clause pol : stable (fun n => p_clause n pol) 1 ts.
    Proof.
      intros n m Hn Hm. destruct n as [|n]; [lia|]. destruct m as [|m]; [lia|].
      cbn [p_clause]. destruct pol; stab.
    Qed.
    Lemma S_block : stable p_block 1 ts.
    Proof.
      intros n m Hn Hm. destruct n as [|n]; [lia|]. destruct m as [|m]; [lia|].
      cbn [p_block]. stab.
    Qed.
    Lemma S_term2 : stable p_term2 2 ts.
    Proof.
      pose proof S_term1 as S1.
      intros n m Hn Hm. destruct n as [|n]; [lia|]. destruct m as [|m]; [lia|].
      cbn [p_term2]. stab.
    Qed.
    Lemma S_term3 : stable p_term3 3 ts.
    Proof.
      pose proof S_term2 as S2.
      intros n m Hn Hm. destruct n as [|n]; [lia|]. destruct m as [|m]; [lia|].
      cbn [p_term3]. stab.
    Qed.
    Lemma S_term : stable p_term 4 ts.
    Proof.
      pose proof S_term3 as S3.
      intros n m Hn Hm. destruct n as [|n]; [lia|]. destruct m as [|m]; [lia|].
      cbn [p_term]. stab.
    Qed.
  End Same.
End Step.

Theorem terms_stable : forall L ts, List.length ts < L -> all_stable ts.
Proof.
  induction L as [|L IH]; intros ts H; [lia|].
  assert (HL : List.length ts <= L) by lia.
  repeat split.
  - exact (S_term L IH ts HL).
  - exact (S_term3 L IH ts HL).
  - exact (S_block L IH ts HL).
  - exact (S_term2 L IH ts HL).
  - exact (S_term1 L IH ts HL).
  - intros e b. exact (S_postfix L IH ts HL e b).
  - intros pol. exact (S_clause L IH ts HL pol).
Qed.

(* ---- stand-alone corollaries ---- *)
Lemma p_term_stable ts n m : 8 * List.length ts + 4 <= n -> 8 * List.length ts + 4 <= m -> p_term n ts = p_term m ts.
Proof. exact (proj1 (terms_stable (S (List.length ts)) ts (Nat.lt_succ_diag_r _)) n m). Qed.
Lemma p_block_stable ts n m : 8 * List.length ts + 1 <= n -> 8 * List.length ts + 1 <= m -> p_block n ts = p_block m ts.
Proof. exact (proj1 (proj2 (proj2 (terms_stable (S (List.length ts)) ts (Nat.lt_succ_diag_r _)))) n m). Qed.

(* ---- declarations ---- *)
Lemma p_ctorsig_shorter n : shorter (p_ctorsig n).
Proof.
  intros ts x r H. unfold p_ctorsig in H.
  inv_obind H. destruct p as [c r0]. inv_obind H. destruct p as [g r1]. injection H as <- <-.
  apply p_upper_shorter in E. apply p_optctx_nolonger in E0. lia.
Qed.
Lemma p_dtorsig_shorter n : shorter (p_dtorsig n).
Proof.
  intros ts x r H. unfold p_dtorsig in H.
  inv_obind H. destruct p as [c r0]. inv_obind H. destruct p as [g r1]. inv_obind H. inv_obind H. destruct p as [t r3].
  injection H as <- <-.
  apply p_lower_shorter in E. apply p_optctx_nolonger in E0. apply expect_len in E1. apply p_ty_shorter in E2. lia.
Qed.
Lemma p_ctorsig_stable n m ts : List.length ts < n -> List.length ts < m -> p_ctorsig n ts = p_ctorsig m ts.
Proof.
  intros Hn Hm. unfold p_ctorsig.
  destruct (p_upper ts) as [[x r]|] eqn:E; cbn [obind]; [|reflexivity].
  apply p_upper_shorter in E. rewrite (p_optctx_stable n m r) by lia. reflexivity.
Qed.
Lemma p_dtorsig_stable n m ts : List.length ts < n -> List.length ts < m -> p_dtorsig n ts = p_dtorsig m ts.
Proof.
  intros Hn Hm. unfold p_dtorsig.
  destruct (p_lower ts) as [[x r]|] eqn:E; cbn [obind]; [|reflexivity].
  apply p_lower_shorter in E. rewrite (p_optctx_stable n m r) by lia.
  destruct (p_optctx m r) as [[g r1]|] eqn:E1; cbn [obind]; [|reflexivity].
  apply p_optctx_nolonger in E1.
  destruct (expect SColon r1) as [r2|] eqn:E2; cbn [obind]; [|reflexivity].
  apply expect_len in E2.
  rewrite (p_ty_stable _ r2 (le_n _) n m) by lia. reflexivity.
Qed.

Lemma p_decl_shorter n : shorter (p_decl n).
Proof.
  intros ts x r H. unfold p_decl in H.
  destruct ts as [|t ts]; [discriminate H|]. destruct t; try discriminate H. destruct k; try discriminate H.
  all: destruct ts as [|t' ts']; [discriminate H|]; destruct t'; try discriminate H.
  - inv_obind H. destruct p as [g r1]. inv_obind H. inv_obind H. destruct p as [t r3]. inv_obind H. destruct p as [b r4].
    injection H as <- <-.
    apply p_optctx_nolonger in E. apply expect_len in E0. apply p_ty_shorter in E1. apply p_block_shorter in E2.
    cbn [List.length]. lia.
  - inv_obind H. destruct p as [ps r1]. inv_obind H. inv_obind H. destruct p as [cs r3]. injection H as <- <-.
    apply p_opttypectx_nolonger in E. apply expect_len in E0.
    apply (comma_loop_shorter _ _ _ (p_ctorsig_shorter n)) in E1. cbn [List.length]. lia.
  - inv_obind H. destruct p as [ps r1]. inv_obind H. inv_obind H. destruct p as [cs r3]. injection H as <- <-.
    apply p_opttypectx_nolonger in E. apply expect_len in E0.
    apply (comma_loop_shorter _ _ _ (p_dtorsig_shorter n)) in E1. cbn [List.length]. lia.
Qed.

Lemma p_decl_stable ts n m : 8 * List.length ts + 4 <= n -> 8 * List.length ts + 4 <= m -> p_decl n ts = p_decl m ts.
Proof.
  intros Hn Hm. unfold p_decl.
  destruct ts as [|t ts]; [reflexivity|]. destruct t; try reflexivity. destruct k; try reflexivity.
  all: destruct ts as [|t' ts']; [reflexivity|]; destruct t'; try reflexivity; cbn [List.length] in *.
  - rewrite (p_optctx_stable n m ts') by lia.
    destruct (p_optctx m ts') as [[g r1]|] eqn:E; cbn [obind]; [|reflexivity]. apply p_optctx_nolonger in E.
    destruct (expect SColon r1) as [r2|] eqn:E0; cbn [obind]; [|reflexivity]. apply expect_len in E0.
    rewrite (p_ty_stable _ r2 (le_n _) n m) by lia.
    destruct (p_ty m r2) as [[t r3]|] eqn:E1; cbn [obind]; [|reflexivity]. apply p_ty_shorter in E1.
    rewrite (p_block_stable r3 n m) by lia. reflexivity.
  - rewrite (p_opttypectx_stable n m ts') by lia.
    destruct (p_opttypectx m ts') as [[ps r1]|] eqn:E; cbn [obind]; [|reflexivity]. apply p_opttypectx_nolonger in E.
    destruct (expect SLBrace r1) as [r2|] eqn:E0; cbn [obind]; [|reflexivity]. apply expect_len in E0.
    rewrite (comma_loop_stable (p_ctorsig n) (p_ctorsig m) SRBrace (p_ctorsig_shorter m) n m r2); [reflexivity| |lia|lia].
    intros ts'' Hl. apply p_ctorsig_stable; lia.
  - rewrite (p_opttypectx_stable n m ts') by lia.
    destruct (p_opttypectx m ts') as [[ps r1]|] eqn:E; cbn [obind]; [|reflexivity]. apply p_opttypectx_nolonger in E.
    destruct (expect SLBrace r1) as [r2|] eqn:E0; cbn [obind]; [|reflexivity]. apply expect_len in E0.
    rewrite (comma_loop_stable (p_dtorsig n) (p_dtorsig m) SRBrace (p_dtorsig_shorter m) n m r2); [reflexivity| |lia|lia].
    intros ts'' Hl. apply p_dtorsig_stable; lia.
Qed.

Lemma p_decls_stable : forall m1 m2 n1 n2 ts,
  List.length ts < m1 -> List.length ts < m2 -> 8 * List.length ts + 4 <= n1 -> 8 * List.length ts + 4 <= n2 ->
  p_decls m1 n1 ts = p_decls m2 n2 ts.
Proof.
  induction m1 as [|m1 IH]; intros m2 n1 n2 ts H1 H2 N1 N2; [lia|].
  destruct m2 as [|m2]; [lia|].
  cbn [p_decls]. destruct ts as [|t ts]; [reflexivity|].
  rewrite (p_decl_stable (t :: ts) n1 n2 N1 N2).
  destruct (p_decl n2 (t :: ts)) as [[d r]|] eqn:E; cbn [obind]; [|reflexivity].
  apply p_decl_shorter in E.
  rewrite (IH m2 n1 n2 r) by lia. reflexivity.
Qed.

(* THE FUEL THEOREM: any iteration bound above |ts| and any fuel from [fuel_of ts] on give the answer of [parse];
   so the answer of [parse] is that of the unbounded recursive descent, and its None is a genuine reject. *)
Definition parse_with (m n : nat) (ts : list token) : option fprog :=
  do ds <- p_decls m n ts; Some (mkfprog ds).

Theorem parse_fuel_suffices : forall ts m n,
  List.length ts < m -> fuel_of ts <= n -> parse_with m n ts = parse ts.
Proof.
  intros ts m n Hm Hn. unfold parse_with, parse, fuel_of in *.
  rewrite (p_decls_stable m (S (List.length ts)) n (8 * List.length ts + 16) ts) by lia. reflexivity.
Qed.

Corollary parse_reject_is_genuine : forall ts,
  parse ts = None -> forall m n, List.length ts < m -> fuel_of ts <= n -> parse_with m n ts = None.
Proof. intros ts H m n Hm Hn. rewrite (parse_fuel_suffices ts m n Hm Hn). exact H. Qed.

