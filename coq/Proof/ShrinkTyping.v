(* Proof/ShrinkTyping.v (property C12): shrinking preserves typing on the FIRST-ORDER INTEGER FRAGMENT
   (the fragment of C04's semantic theorem, Proof/ShrinkSem.v: <n | mu~x.s>, <a op b | mu~x.s>, ifc,
   print, exit, calls with integer producer arguments; all parameters integer producers).
   GAP to shrink_preserves_typing: everything that involves a consumer - continuations at i64
   (_Cont/Ret), renaming cuts (substitution), data and codata (let/switch/create/invoke, known
   cuts), eta expansion of unknown cuts and critical pairs, lifted statements; and the global
   distinctness of binders (binders_ok), which path-uniqueness of the input does not give. *)
From Coq Require Import List ZArith NArith String Bool Lia.
From SCC Require Import Base.Sexp Lang.SynUtil Lang.CoreSyn Lang.AxSyn Sem.FsCheck Model.Shrink Model.LinCheck Model.WtDefs.
From SCC Require Sem.AxCheck.
From SCC Require Import Proof.ShrinkProof Proof.ShrinkSem.
Import ListNotations.
Open Scope list_scope.

Lemma ax_seq_none {X} (a b : option X) : match a with None => b | Some e => Some e end = None -> a = None /\ b = None.
Proof. destruct a; [discriminate|auto]. Qed.

Lemma int_binding_eq b : int_binding b = true -> cbchi b = CPrd /\ cbty b = CI64.
Proof.
  unfold int_binding. intros H. apply andb_true_iff in H as [H1 H2]. split.
  - destruct (cbchi b); [reflexivity|discriminate].
  - apply cty_eqb_eq_i64. exact H2.
Qed.
Lemma shrink_int cd b : int_binding b = true -> shrink_binding cd b = mkb (cbvar b) Ext I64.
Proof. intros H. destruct (int_binding_eq b H) as [Hc Ht]. unfold shrink_binding. rewrite Hc, Ht. reflexivity. Qed.

Section Ctx.
Variable cd : list ctydecl.
Notation sc := (shrink_context cd).

Lemma lookup_shrink : forall G x, forallb int_binding G = true ->
  AxCheck.lookup_b (sc G) x = option_map (fun b => mkb (cbvar b) Ext I64) (flookup G x).
Proof.
  induction G as [|b G IH]; intros x H; [reflexivity|]. cbn [forallb] in H. apply andb_true_iff in H as [Hb HG].
  cbn [shrink_context map AxCheck.lookup_b flookup]. rewrite (shrink_int cd b Hb). cbn [bvar idn].
  unfold cid_id, idn. destruct (N.eqb (snd (cbvar b)) x); [reflexivity|]. apply IH. exact HG.
Qed.
Lemma bound_shrink G v : forallb int_binding G = true ->
  fbound G v CPrd CI64 = None -> AxCheck.bound (sc G) v Ext I64 = None.
Proof.
  intros HG H. unfold fbound in H. unfold AxCheck.bound. rewrite (lookup_shrink G _ HG). unfold cid_id, idn in *.
  destruct (flookup G (snd v)) as [b|]; [|discriminate]. reflexivity.
Qed.
Lemma fresh_shrink G v scope : forallb int_binding G = true ->
  (forall i, In i (cids G) -> In i scope) -> mem_id (cid_id v) scope = false ->
  AxCheck.fresh_for (sc G) v = None.
Proof.
  intros HG Hs Hm. unfold AxCheck.fresh_for. rewrite (lookup_shrink G _ HG). unfold idn, cid_id in *.
  destruct (flookup G (snd v)) as [b|] eqn:E; [|reflexivity]. exfalso.
  assert (In (snd v) scope).
  { apply Hs. clear -E. induction G as [|b0 G IH]; [discriminate|]. cbn [flookup] in E. cbn [cids map].
    unfold cid_id in *. destruct (N.eqb (snd (cbvar b0)) (snd v)) eqn:Q; [left; apply N.eqb_eq; exact Q|right; apply IH; exact E]. }
  unfold mem_id in Hm. assert (existsb (N.eqb (snd v)) scope = true) by (apply existsb_exists; exists (snd v); split; [assumption|apply N.eqb_refl]).
  congruence.
Qed.
Lemma args_shrink what what' G : forallb int_binding G = true -> forall args sig,
  forallb int_binding args = true -> fargs_ok what G args sig = None ->
  AxCheck.args_ok what' (sc G) (sc args) (sc sig) = None.
Proof.
  intros HG. induction args as [|a ar IH]; intros [|s sr] Ha H; cbn [fargs_ok] in H; try discriminate; [reflexivity|].
  cbn [forallb] in Ha. apply andb_true_iff in Ha as [Ha1 Ha2].
  apply seq_none in H as [H1 H]. apply seq_none in H as [H2 H]. apply fensure_none in H1.
  destruct (int_binding_eq a Ha1) as [Hc Ht]. unfold csame_sig in H1. rewrite Hc, Ht in H1.
  apply andb_true_iff in H1 as [S1 S2].
  assert (Hs : int_binding s = true).
  { unfold int_binding. destruct (cbchi s); [|discriminate]. destruct (cbty s); [reflexivity|discriminate]. }
  cbn [shrink_context map AxCheck.args_ok]. rewrite (shrink_int cd a Ha1), (shrink_int cd s Hs).
  unfold AxCheck.same_sig. cbn [bchi bty bvar chi_eqb ty_eqb andb AxCheck.ensure].
  rewrite Hc, Ht in H2. rewrite (bound_shrink G (cbvar a) HG H2). apply (IH sr Ha2 H).
Qed.
End Ctx.

Section Frag.
Variable data codata : list ctydecl.
Variable defs : list fsdef.
Variable ts : list tydecl.
Notation sc := (shrink_context codata).
Notation ds' := (map (shf_def codata) defs).

Lemma find_shf f d : find (fun d => cident_eqb (fsdname d) f) defs = Some d ->
  find (fun d' => ident_eqb (dname d') f) ds' = Some (shf_def codata d).
Proof.
  induction defs as [|d0 r IH]; cbn [find map]; [discriminate|].
  unfold shf_def at 1. cbn [dname]. change (ident_eqb (fsdname d0) f) with (cident_eqb (fsdname d0) f).
  destruct (cident_eqb (fsdname d0) f); [intros H; inversion H; reflexivity|exact IH].
Qed.

Lemma frag_typed : forall (n : nat) s, (fsz s <= n)%nat -> forall G scope,
  frag s = true -> forallb int_binding G = true ->
  check_stmt data codata defs G s = None ->
  ub_stmt scope s = true -> (forall i, In i (cids G) -> In i scope) ->
  AxCheck.check_stmt ts ds' (sc G) (shf codata s) = None /\ pre_linear (shf codata s) = true.
Proof.
  induction n as [|n IH]; intros s Hsz G scope Hf HG HC HU HS; [pose proof (fsz_pos s); lia|].
  destruct s as [p ty k|so a b t e|nl a nx|f args|v]; cbn [frag] in Hf.
  - (* cut: literal / operation against mu~ *)
    destruct p; try discriminate Hf; destruct k; try discriminate Hf; cbn [fsz fsz_term] in Hsz;
      rewrite check_stmt_cut_eq in HC; apply seq_none in HC as [A HC]; apply seq_none in HC as [B C];
      rewrite check_term_mu_eq in C; apply seq_none in C as [C1 C]; apply seq_none in C as [C2 C];
      cbn [check_term] in B; apply seq_none in B as [B1 B];
      cbn [ub_stmt ub_term andb] in HU; apply andb_true_iff in HU as [HU1 HU2]; apply negb_true_iff in HU1.
    + apply fensure_none in B. apply cty_eqb_eq_i64 in B. subst ty. cbn [opp] in C.
      destruct (IH s ltac:(lia) (mkcb v CPrd CI64 :: G) (cid_id v :: scope) Hf) as [I1 I2].
      { cbn [forallb]. rewrite HG. reflexivity. }
      { exact C. } { exact HU2. }
      { intros i [<-|Hi]; [left; reflexivity|right; apply HS; exact Hi]. }
      cbn [shf AxCheck.check_stmt pre_linear]. rewrite (fresh_shrink codata G v scope HG HS HU1). split; [exact I1|exact I2].
    + apply seq_none in B as [B2 B]. apply fensure_none in B2. apply cty_eqb_eq_i64 in B2. subst ty. cbn [opp] in C.
      apply seq_none in B as [B3 B4].
      destruct (IH s ltac:(lia) (mkcb v CPrd CI64 :: G) (cid_id v :: scope) Hf) as [I1 I2].
      { cbn [forallb]. rewrite HG. reflexivity. }
      { exact C. } { exact HU2. }
      { intros i [<-|Hi]; [left; reflexivity|right; apply HS; exact Hi]. }
      cbn [shf AxCheck.check_stmt pre_linear].
      rewrite (bound_shrink codata G a HG B3), (bound_shrink codata G b HG B4), (fresh_shrink codata G v scope HG HS HU1).
      split; [exact I1|exact I2].
  - (* ifc *)
    apply andb_true_iff in Hf as [Hf1 Hf2]. cbn [fsz] in Hsz. rewrite check_stmt_ifc_eq in HC.
    apply seq_none in HC as [A HC]. apply seq_none in HC as [B HC]. apply seq_none in HC as [Ct Ce].
    cbn [ub_stmt] in HU. apply andb_true_iff in HU as [HU1 HU2].
    destruct (IH t ltac:(lia) G scope Hf1 HG Ct HU1 HS) as [T1 T2].
    destruct (IH e ltac:(lia) G scope Hf2 HG Ce HU2 HS) as [E1 E2].
    cbn [shf AxCheck.check_stmt pre_linear]. rewrite (bound_shrink codata G a HG A), T1, E1, T2, E2.
    destruct b as [b|]; cbn [option_map]; [rewrite (bound_shrink codata G b HG B)|]; split; reflexivity.
  - (* print *)
    cbn [fsz] in Hsz. rewrite check_stmt_print_eq in HC. apply seq_none in HC as [A HC]. cbn [ub_stmt] in HU.
    destruct (IH nx ltac:(lia) G scope Hf HG HC HU HS) as [N1 N2].
    cbn [shf AxCheck.check_stmt pre_linear]. rewrite (bound_shrink codata G a HG A). split; [exact N1|exact N2].
  - (* call *)
    cbn [check_stmt] in HC. destruct (find _ defs) as [d|] eqn:F; [|discriminate].
    cbn [shf AxCheck.check_stmt pre_linear]. rewrite (find_shf _ _ F). unfold shf_def. cbn [dctx].
    split; [|reflexivity]. eapply args_shrink; eauto.
  - (* exit *)
    cbn [check_stmt] in HC. cbn [shf AxCheck.check_stmt pre_linear]. split; [|reflexivity]. apply bound_shrink; assumption.
Qed.
End Frag.

(* ---------- program level ---------- *)
Lemma nodup_by_same : forall l : list cident, AxCheck.nodup_by ident_eqb l = FsCheck.nodup_by cident_eqb l.
Proof. induction l as [|x r IH]; cbn; [reflexivity|]. rewrite IH. reflexivity. Qed.
Lemma nodup_by_sameN : forall l : list N, AxCheck.nodup_by N.eqb l = FsCheck.nodup_by N.eqb l.
Proof. induction l as [|x r IH]; cbn; [reflexivity|]. rewrite IH. reflexivity. Qed.
Lemma cident_eqb_sym a b : cident_eqb a b = cident_eqb b a.
Proof.
  destruct (cident_eqb a b) eqn:E.
  - apply cident_eqb_eq in E. subst. symmetry. apply cident_eqb_refl.
  - destruct (cident_eqb b a) eqn:E'; [|reflexivity]. apply cident_eqb_eq in E'. subst. rewrite cident_eqb_refl in E. discriminate.
Qed.
Lemma nodup_insert c : forall l1 l2 : list cident,
  FsCheck.nodup_by cident_eqb (l1 ++ l2) = true -> existsb (fun x => cident_eqb x c) (l1 ++ l2) = false ->
  FsCheck.nodup_by cident_eqb (l1 ++ c :: l2) = true.
Proof.
  induction l1 as [|a r IH]; intros l2 H E; cbn [app FsCheck.nodup_by] in *.
  - rewrite H, andb_true_r. apply negb_true_iff. rewrite <- E. clear. induction l2 as [|y l IH]; cbn; [reflexivity|].
    rewrite (cident_eqb_sym c y), IH. reflexivity.
  - cbn [existsb] in E. apply orb_false_iff in E as [E1 E2]. apply andb_true_iff in H as [H1 H2].
    rewrite (IH l2 H2 E2), andb_true_r. apply negb_true_iff. apply negb_true_iff in H1.
    rewrite existsb_app in *. cbn [existsb]. apply orb_false_iff in H1 as [H3 H4]. rewrite H3, H4, E1. reflexivity.
Qed.

Lemma tname_shrink cd l : map tname (map (shrink_declaration cd) l) = map ctname l.
Proof. induction l as [|t r IH]; cbn; [reflexivity|]. rewrite IH. reflexivity. Qed.
Lemma existsb_map_ {X Y} (f : Y -> bool) (g : X -> Y) l : existsb f (map g l) = existsb (fun x => f (g x)) l.
Proof. induction l as [|x r IH]; cbn; [reflexivity|]. rewrite IH. reflexivity. Qed.

Lemma forallb_map_ {X Y} (f : Y -> bool) (g : X -> Y) l : forallb f (map g l) = forallb (fun x => f (g x)) l.
Proof. induction l as [|x r IH]; cbn; [reflexivity|]. rewrite IH. reflexivity. Qed.

Definition names_plain (p : fsprog) : bool := forallb (fun d => N.eqb (snd (fsdname d)) 0) (fspdefs p).

Theorem shrink_preserves_typing_frag : forall p q,
  frag_prog p = true -> names_plain p = true -> wt_fs p = true -> unique_binders p = true ->
  shrink_prog p = SOk q ->
  AxCheck.check_prog q = None /\ pre_linear_prog q = true.
Proof.
  intros p q Hfrag Hnames Hwt Hub Hsh.
  unfold wt_fs in Hwt. destruct (check_fs p) eqn:Hc; [discriminate|]. clear Hwt.
  unfold check_fs in Hc.
  apply seq_none in Hc as [C0 Hc]. apply seq_none in Hc as [C1 Hc]. apply seq_none in Hc as [C2 Hc].
  apply seq_none in Hc as [C3 Hc]. apply seq_none in Hc as [C4 C5].
  apply fensure_none in C1. apply fensure_none in C2. apply fensure_none in C3. apply fensure_none in C4.
  unfold shrink_prog in Hsh. destruct (_ || _); [discriminate|].
  rewrite shrink_defs_frag in Hsh; [|exact Hfrag]. cbn [sbind] in Hsh. inversion Hsh; subst q; clear Hsh.
  cbn [frev rev_append app].
  set (codata := fspcodata p) in *. set (data := fspdata p) in *.
  set (ts := map (shrink_declaration codata) (data ++ [cont_int]) ++ map (shrink_declaration codata) codata).
  set (ds' := map (shf_def codata) (fspdefs p)).
  assert (DEFS : forall d, In d (fspdefs p) ->
            AxCheck.check_def ts ds' (shf_def codata d) = None /\ pre_linear (shf codata (fsdbody d)) = true).
  { intros d Hd.
    pose proof (check_defs_in p _ d C5 Hd) as Hs.
    assert (Hn : nodup_by N.eqb (cids (fsdctx d)) = true).
    { clear -C5 Hd. induction (fspdefs p) as [|a r IH]; [contradiction|]. cbn [check_defs] in C5.
      apply seq_none in C5 as [A B]. apply fensure_none in A.
      destruct (check_stmt _ _ _ (fsdctx a) (fsdbody a)); [discriminate|]. destruct Hd as [->|Hd]; [exact A|apply IH; assumption]. }
    unfold frag_prog in Hfrag. pose proof (proj1 (forallb_forall _ _) Hfrag d Hd) as Hfd. unfold frag_def in Hfd.
    apply andb_true_iff in Hfd as [Hfc Hfb].
    unfold unique_binders in Hub. pose proof (proj1 (forallb_forall _ _) Hub d Hd) as Hu. cbn beta in Hu.
    apply andb_true_iff in Hu as [_ Hu].
    unfold names_plain in Hnames. pose proof (proj1 (forallb_forall _ _) Hnames d Hd) as Hnm. cbn beta in Hnm.
    destruct (frag_typed data codata (fspdefs p) ts (fsz (fsdbody d)) (fsdbody d) (le_n _) (fsdctx d) (cids (fsdctx d))
                Hfb Hfc Hs Hu (fun i H => H)) as [T1 T2].
    split; [|exact T2].
    unfold AxCheck.check_def, shf_def. cbn [dname dctx dbody]. unfold AxCheck.is_lifted_name. cbn [snd]. rewrite Hnm, andb_false_r.
    rewrite ids_shrink_context, nodup_by_sameN, Hn. cbn [AxCheck.ensure].
    assert (TD : forallb (fun b => AxCheck.ty_declared ts (bty b)) (shrink_context codata (fsdctx d)) = true).
    { clear -Hfc. induction (fsdctx d) as [|b r IH]; [reflexivity|]. cbn [forallb] in Hfc. apply andb_true_iff in Hfc as [Hb Hr].
      cbn [shrink_context map forallb]. rewrite (shrink_int codata b Hb). cbn [bty AxCheck.ty_declared andb]. apply IH. exact Hr. }
    rewrite TD. cbn [AxCheck.ensure]. exact T1. }
  split.
  - unfold AxCheck.check_prog. cbn [ptypes pdefs]. fold ts. fold ds'.
    assert (CT : AxCheck.check_types ts = None).
    { unfold AxCheck.check_types.
      assert (N1 : AxCheck.nodup_by ident_eqb (map tname ts) = true).
      { unfold ts. rewrite map_app, !tname_shrink, map_app. cbn [map]. rewrite <- app_assoc. cbn [app].
        rewrite nodup_by_same. rewrite map_app in C1. apply nodup_insert; [exact C1|].
        apply negb_true_iff in C2. rewrite <- map_app, existsb_map_. exact C2. }
      rewrite N1. cbn [AxCheck.ensure].
      assert (N2 : forallb (fun t => AxCheck.nodup_by ident_eqb (map xname (txtors t))) ts = true).
      { unfold ts. rewrite forallb_app, !forallb_map_.
        assert (G : forall l, forallb (fun t => FsCheck.nodup_by cident_eqb (map cxname (ctxtors t))) l = true ->
                              forallb (fun t => AxCheck.nodup_by ident_eqb (map xname (txtors (shrink_declaration codata t)))) l = true).
        { induction l as [|t r IH]; [reflexivity|]. cbn [forallb]. intros H. apply andb_true_iff in H as [H1 H2].
          rewrite (IH H2), andb_true_r. cbn [shrink_declaration txtors]. rewrite map_map. cbn [shrink_xtor xname shrink_identifier].
          rewrite nodup_by_same. exact H1. }
        rewrite forallb_app in C3. apply andb_true_iff in C3 as [D1 D2]. rewrite forallb_app.
        rewrite (G _ D1), (G _ D2). reflexivity. }
      rewrite N2. reflexivity. }
    rewrite CT.
    assert (ND : AxCheck.nodup_by ident_eqb (map dname ds') = true).
    { unfold ds'. rewrite map_map. cbn [shf_def dname]. rewrite nodup_by_same. exact C4. }
    rewrite ND. cbn [AxCheck.ensure].
    unfold ds' at 2. assert (IN : forall d, In d (fspdefs p) -> In d (fspdefs p)) by auto. revert IN.
    generalize (fspdefs p) at 1 3. induction l as [|d r IH]; intros IN; [reflexivity|]. cbn [map].
    rewrite (proj1 (DEFS d (IN d (or_introl eq_refl)))). apply IH. intros d' H. apply IN. right. exact H.
  - unfold pre_linear_prog. cbn [pdefs]. apply forallb_forall. intros d' Hd'. apply in_map_iff in Hd' as (d & <- & Hd).
    unfold shf_def. cbn [dbody]. exact (proj2 (DEFS d Hd)).
Qed.
Print Assumptions shrink_preserves_typing_frag.
