(* C06, forward simulation of the x86-64 code generator, part 4: programs of the integer fragment.
   - `int_frag`: every variable is `ext i64`, statements are Substitute / Call / Literal / Op / PrintI64 /
     IfC / Exit;
   - the frame above the spill area (callee-saved registers and the return marker pushed by the prologue)
     and the epilogue `cleanup`;
   - `sim_exec`: by induction on the fuel of the linear machine, the code emitted for a statement, placed
     in an image in which the definitions' labels and `cleanup` resolve, runs to the machine's observation
     (results and undefined operations; print trace included). *)
From Coq Require Import List ZArith NArith String Bool Lia FMapPositive.
From SCC Require Import Base.Sexp Lang.AxSyn Sem.AxSem Model.ParMoves Model.Backend Model.X86 Sem.X86Sem Sem.X86Wf
     Model.Linearize Model.LinCheck Generated.Constants Proof.LinBasics
     Proof.X86State Proof.X86Sel Proof.X86Exec Proof.X86ParMoves Proof.SubstGraph Proof.X86Subst
     Proof.X86SimRel Proof.X86SimStmt Proof.X86SimPrint.
From SCC Require Export Proof.SimFrag.
Import ListNotations.
Open Scope Z_scope.
Open Scope list_scope.
(* names that lived in this file before they moved to Proof/SimFrag.v (kept for qualified uses) *)
Notation stmt_int := SimFrag.stmt_int (only parsing).
Notation def_int := SimFrag.def_int (only parsing).
Notation int_frag := SimFrag.int_frag (only parsing).
Notation plain_names := SimFrag.plain_names (only parsing).
Notation good := SimFrag.good (only parsing).
Notation not_good_stuck := SimFrag.not_good_stuck (only parsing).
Notation not_good_fuel := SimFrag.not_good_fuel (only parsing).
Notation lookup_of_in := SimFrag.lookup_of_in (only parsing).
Notation lookups_total := SimFrag.lookups_total (only parsing).
Notation lookup_label_find_def := SimFrag.lookup_label_find_def (only parsing).
Notation not_oof := SimFrag.not_oof (only parsing).
Notation good_not_oof := SimFrag.good_not_oof (only parsing).

(* ---------- the fragment ---------- *)
(* stmt_int, def_int, int_frag, plain_names, good, not_oof: Proof/SimFrag.v *)

(* ---------- the frame above the spill area ---------- *)
Definition outer_ok (s : xstate) (sp : Z) : Prop :=
  sp + SPILL_SPACE + 56 = STACK_TOP /\
  kget s (sp + SPILL_SPACE) = Some (callee_marker 15) /\
  kget s (sp + SPILL_SPACE + 8) = Some (callee_marker 14) /\
  kget s (sp + SPILL_SPACE + 16) = Some (callee_marker 13) /\
  kget s (sp + SPILL_SPACE + 24) = Some (callee_marker 12) /\
  kget s (sp + SPILL_SPACE + 32) = Some (callee_marker 3) /\
  kget s (sp + SPILL_SPACE + 40) = Some (callee_marker 2) /\
  kget s (sp + SPILL_SPACE + 48) = Some RET_MARKER.

Lemma above_eq_outer s s' sp : above_eq s s' sp -> outer_ok s sp -> outer_ok s' sp.
Proof.
  intros (_ & K) (A & B). split; [exact A|]. change SPILL_SPACE with 2048 in *.
  rewrite !K by lia. exact B.
Qed.
Lemma frame_eq_above s s' sp : sp_ok sp -> frame_eq s s' sp -> above_eq s s' sp -> True.
Proof. auto. Qed.
Lemma frame_eq_outer s s' sp : sp_ok sp -> frame_eq s s' sp -> outer_ok s sp -> outer_ok s' sp.
Proof.
  intros SP (_ & _ & K) (A & B). split; [exact A|]. change SPILL_SPACE with 2048 in *.
  assert (G : forall a, sp + 2048 <= a -> kget s' a = kget s a).
  { intros a Ha. unfold kget. apply K. intros p P E.
    destruct (slot_addr_facts sp p SP P) as (_ & _ & _ & _ & NN).
    apply key_inj in E; [|unfold sp_ok, STACK_LIMIT, STACK_TOP in SP; lia|exact NN].
    unfold slot_addr, stack_offset in E. change SPILL_SPACE with 2048 in E. lia. }
  rewrite !G by lia. exact B.
Qed.

Section Epilogue.
Variable im : image.

Lemma step_ADDI_frame s x : rget s 0%N = Some x -> 0 <= x <= STACK_TOP ->
  step im (ADDI STACK SPILL_SPACE) s = Next (set_flags (rset s 0%N (Some (x + 2048))) None).
Proof.
  intros R K. change (ADDI STACK SPILL_SPACE) with (ADDI 0%N 2048). cbn [step]. change (fits32 2048) with true. cbv iota.
  unfold need. rewrite R. rewrite wrap_small; [reflexivity|]. unfold min_int, max_int, two63, STACK_TOP in *. lia.
Qed.

(* from `cleanup` the run ends with the value of rax, the entry rsp and the entry callee-saved registers *)
Lemma epilogue_ok pcc s sp z :
  code_at im pcc cleanup -> frame_ok s sp -> outer_ok s sp -> rget s RETURN1 = Some z ->
  finishes im pcc s (finish (out s) (OExit z)).
Proof.
  intros CA (SP & _) (TOP & K15 & K14 & K13 & K12 & K3 & K2 & KR) RAX.
  change SPILL_SPACE with 2048 in *. unfold STACK_TOP in TOP.
  assert (SPV : sp = 2147418112 - 2104) by lia. clear TOP.
  unfold cleanup in CA.
  repeat match type of CA with code_at _ _ (_ :: _) => let C := fresh "C" in apply code_at_cons in CA as [C CA] end.
  eapply exec_to_finishes.
  { eapply exec_next; [exact C|reflexivity|].
    eapply exec_next; [exact C0|apply (step_ADDI_frame s sp SP); unfold STACK_TOP; lia|].
    eapply exec_next; [exact C1|erewrite step_POP; [reflexivity|rdk; reflexivity|subst sp; stk]|].
    eapply exec_next; [exact C2|erewrite step_POP; [reflexivity|rdk; reflexivity|subst sp; stk]|].
    eapply exec_next; [exact C3|erewrite step_POP; [reflexivity|rdk; reflexivity|subst sp; stk]|].
    eapply exec_next; [exact C4|erewrite step_POP; [reflexivity|rdk; reflexivity|subst sp; stk]|].
    eapply exec_next; [exact C5|erewrite step_POP; [reflexivity|rdk; reflexivity|subst sp; stk]|].
    eapply exec_next; [exact C6|erewrite step_POP; [reflexivity|rdk; reflexivity|subst sp; stk]|].
    apply exec_refl. }
  rdk.
  match goal with |- finishes _ ?pc ?st _ =>
    assert (RSP : rget st 0%N = Some (sp + 2048 + 8 + 8 + 8 + 8 + 8 + 8)) by (rdk; reflexivity);
    assert (KM : kget st (sp + 2048 + 8 + 8 + 8 + 8 + 8 + 8) = Some RET_MARKER)
      by (rdk; rewrite <- KR; f_equal; lia);
    assert (OUT : out st = out s) by (rdk; reflexivity);
    assert (R15 : rget st 15%N = Some (callee_marker 15)) by (rdk; exact K15);
    assert (R14 : rget st 14%N = Some (callee_marker 14)) by (rdk; rewrite <- K14; f_equal; lia);
    assert (R13 : rget st 13%N = Some (callee_marker 13)) by (rdk; rewrite <- K13; f_equal; lia);
    assert (R12 : rget st 12%N = Some (callee_marker 12)) by (rdk; rewrite <- K12; f_equal; lia);
    assert (R3 : rget st 3%N = Some (callee_marker 3)) by (rdk; rewrite <- K3; f_equal; lia);
    assert (R2 : rget st 2%N = Some (callee_marker 2)) by (rdk; rewrite <- K2; f_equal; lia);
    assert (R4 : rget st 4%N = Some z) by (rdk; exact RAX);
    generalize dependent st
  end.
  intros st RSP KM OUT R15 R14 R13 R12 R3 R2 R4.
  assert (ST : step im RET st = Done (rset st 0%N (Some (sp + 2048 + 8 + 8 + 8 + 8 + 8 + 8 + 8)))).
  { cbn [step]. unfold need, withm. rewrite RSP. rewrite mload_stk by (subst sp; stk). rewrite KM.
    change (RET_MARKER =? RET_MARKER) with true. reflexivity. }
  pose proof (finishes_done im _ RET st _ C7 ST) as FD.
  replace (finish (out s) (OExit z)) with
    (finish (out (rset st 0%N (Some (sp + 2048 + 8 + 8 + 8 + 8 + 8 + 8 + 8))))
            (final_check (rset st 0%N (Some (sp + 2048 + 8 + 8 + 8 + 8 + 8 + 8 + 8))))); [exact FD|].
  rewrite out_rset, OUT. f_equal. unfold final_check. rewrite rget_rset_same.
  replace (sp + 2048 + 8 + 8 + 8 + 8 + 8 + 8 + 8 =? STACK_TOP) with true by (symmetry; apply Z.eqb_eq; unfold STACK_TOP; lia).
  cbn [negb callee_saved forallb].
  rewrite !rget_rset_other by congruence. rewrite R2, R3, R12, R13, R14, R15, R4. rewrite !Z.eqb_refl. reflexivity.
Qed.
End Epilogue.

(* ---------- the simulation, by induction on the fuel of the linear machine ---------- *)
Lemma is_hash_app_ s : is_hash_label (s +++ "_") = true -> is_hash_label s = true.
Proof. destruct s as [|c s]; cbn; auto. Qed.

(* ---------- progress: a linearly well-typed statement of the fragment does not get stuck ---------- *)
Lemma has_ext_lookup_int CL c e st sp a : rel CL c e st sp -> has_ext c a = true -> exists x, lookup_int e a = Some x.
Proof.
  intros R H. unfold has_ext, has in H. destruct (lookup_b c (idn a)) as [b|] eqn:L; [|discriminate].
  apply lookup_b_Some in L as [Hin Hid]. apply andb_true_iff in H as [K T]. apply chi_eqb_eq in K. apply ty_eqb_eq in T.
  assert (I : In (idn a) (env_ids e)).
  { rewrite (rel_ids R), <- Hid. now apply In_ids. }
  destruct (lookup_of_in e _ I) as (v & Lv). destruct (lookup_nth e _ _ Lv) as (i & y & Hi & Ey).
  destruct (rel_vals R i y v Hi) as (b' & Hb' & V).
  destruct (env_ctx_nth c e i y v (rel_ids R) Hi) as (b0 & Hb0 & Eb0). assert (b0 = b') by congruence. subst b0.
  apply In_nth_error in Hin as (i' & Hi').
  assert (i' = i) by (eapply (ids_nth_inj c i' i b b'); eauto using (rel_nodup R); congruence). subst i'.
  assert (b' = b) by congruence. subst b'.
  inversion V; subst; [|congruence]. exists z. unfold lookup_int, lookup_id. now rewrite Lv.
Qed.
Lemma has_lookup_id CL c e st sp a k t : rel CL c e st sp -> has c a k t = true -> exists v, lookup_id e a = Some v.
Proof.
  intros R H. unfold has in H. destruct (lookup_b c (idn a)) as [b|] eqn:L; [|discriminate].
  apply lookup_b_Some in L as [Hin Hid]. apply lookup_of_in. rewrite (rel_ids R), <- Hid. now apply In_ids.
Qed.

Section Main.
Variable im : image.
Variable p : prog.
Variable sp : Z.
Variable CL : Z -> ident -> list clause -> Prop.
Local Notation rel := (rel CL).
Hypothesis DEFS : forall d, In d (pdefs p) ->
  exists pcd lcd cd lcd', find_label (labels im) (show_ident (dname d) +++ "_") = Some pcd /\
    PM.find pcd (code im) = Some (LAB (show_ident (dname d) +++ "_")) /\
    xcs (ptypes p) (dbody d) (dctx d) lcd = Ok (cd, lcd') /\
    code_at im (Pos.succ pcd) cd /\ labels_at_nh im (Pos.succ pcd) cd.
Hypothesis CLEAN : exists pcc, find_label (labels im) "cleanup" = Some pcc /\ code_at im pcc cleanup.
Hypothesis LIN : forall d, In d (pdefs p) -> lin_check (sigs_of p) (dctx d) (dbody d) = true.
Hypothesis INT : forall d, In d (pdefs p) -> def_int d = true.


Lemma sim_exec : forall fuel s c e ot st pc code lc lc',
  stmt_int s = true -> ctx_int c = true -> lin_check (sigs_of p) c s = true ->
  xcs (ptypes p) s c lc = Ok (code, lc') -> code_at im pc code -> labels_at_nh im pc code ->
  rel c e st sp -> outer_ok st sp -> out st = ot ->
  not_oof (exec_linear fuel p e s ot) -> finishes im pc st (exec_linear fuel p e s ot).
Proof.
  induction fuel as [|fuel IH]; intros s c e ot st pc code lc lc' SI CI LC CS CA LA R OK OUT G.
  { exfalso. apply G. reflexivity. }
  pose proof (rel_frame R) as F. pose proof (proj2 F) as SPOK.
  destruct s as [re next|label args|v t tag args next|v t cls|v t env cls next|v tag t args|n v next|a op b v next|nl v next|so a b thenc elsec|v];
    cbn [stmt_int] in SI; try discriminate; cbn [exec_linear] in G |- *.
  - (* Substitute *)
    apply andb_true_iff in SI as [SI1 SI2].
    cbn [lin_check] in LC. apply andb_true_iff in LC as [_ LC]. apply andb_true_iff in LC as [LCs LC].
    destruct (lookups_total e (map snd re)) as (vs & LK & LV).
    { intros x Hx. apply in_map_iff in Hx as (q & <- & Hq). rewrite forallb_forall in LCs. eapply (has_lookup_id CL); eauto. }
    destruct (bind_total (map (fun r : binding * ident => bvar (fst r)) re) vs) as (e' & BD); [rewrite LV, !map_length; reflexivity|].
    rewrite LK, BD in G |- *.
    destruct (cs_substitute _ _ _ _ _ _ _ CS) as (c1 & lc1 & c2 & c3 & WC & CE & NX & ->).
    assert (NDn : NoDup (new_ids re)) by (rewrite <- ids_new; exact (lin_nodup _ _ _ LC)).
    rewrite app_assoc in CA, LA. apply code_at_app in CA as [CA2 CA3]. apply labels_at_nh_app in LA as [LA2 LA3].
    destruct (sim_substitute im CL c e st sp re vs e' c1 lc lc1 c2 pc R NDn) as (s' & X & R' & FE); auto.
    { intros q Hq. rewrite forallb_forall in LCs. exact (LCs q Hq). }
    eapply exec_to_finishes; [exact X|].
    eapply (IH next (map fst re) e' ot s'); eauto.
    + unfold ctx_int. rewrite forallb_forall in *. intros b Hb. apply in_map_iff in Hb as (q & <- & Hq). auto.
    + eapply frame_eq_outer; eauto.
    + destruct FE as (_ & O & _). congruence.
  - (* Call *)
    cbn [lin_check] in LC. apply andb_true_iff in LC as [_ LC].
    destruct (lookup_label (sigs_of p) label) as [ps|] eqn:LL; [|discriminate].
    destruct (lookup_label_find_def p label ps LL) as (d & FD & <-).
    destruct (bind_total (vars (dctx d)) (map snd e)) as (e' & BD).
    { apply sig_match_iff, same_kt_length in LC. unfold vars. rewrite !map_length, (rel_length R). auto. }
    rewrite FD, BD in G |- *.
    unfold find_def in FD. apply find_some in FD as [IN EQ]. apply ident_eqb_eq in EQ. subst label.
    destruct (cs_call _ _ _ _ _ _ _ CS) as (-> & _).
    destruct (DEFS d IN) as (pcd & lcd & cd & lcd' & FL & CLb & CSd & CAd & LAd).
    apply code_at_cons in CA as [CJ _].
    eapply exec_to_finishes.
    { eapply exec_jump; [exact CJ|cbn [step]; unfold goto_label; rewrite FL; reflexivity|].
      eapply exec_next; [exact CLb|reflexivity|apply exec_refl]. }
    specialize (INT d IN). unfold def_int in INT. apply andb_true_iff in INT as [I1 I2].
    eapply (IH (dbody d) (dctx d) e' ot st); eauto.
    eapply bind_rel; eauto. exact (lin_nodup _ _ _ (LIN d IN)).
  - (* Literal *)
    cbn [lin_check] in LC. apply andb_true_iff in LC as [_ LC].
    destruct (cs_literal _ _ _ _ _ _ _ _ CS) as (tv & c2 & TV & NX & ->).
    destruct (sim_literal im CL c e st sp n v tv R (lin_nodup _ _ _ LC) TV) as (s' & E & R' & FE).
    apply code_at_app in CA as [CA1 CA2]. apply labels_at_nh_app in LA as [_ LA2].
    eapply exec_to_finishes; [apply (exec_straight_exec_to im _ pc st s' CA1 E)|].
    eapply (IH next (c ++ [mkb v Ext I64]) _ ot s'); eauto.
    + unfold ctx_int in *. rewrite forallb_app, CI. reflexivity.
    + eapply frame_eq_outer; eauto.
    + destruct FE as (_ & O & _). congruence.
  - (* Op *)
    cbn [lin_check] in LC. apply andb_true_iff in LC as [_ LC]. apply andb_true_iff in LC as [LCo LC].
    apply andb_true_iff in LCo as [HA HB].
    destruct (has_ext_lookup_int CL c e st sp a R HA) as (x & LA1).
    destruct (has_ext_lookup_int CL c e st sp b R HB) as (y & LB1).
    rewrite LA1, LB1 in G |- *.
    destruct (cs_op _ _ _ _ _ _ _ _ _ _ CS) as (tv & ta & tb & c2 & TV & TA & TB & NX & ->).
    apply code_at_app in CA as [CA1 CA2]. apply labels_at_nh_app in LA as [_ LA2].
    destruct (eval_op op x y) as [z|w] eqn:EV.
    + destruct (sim_op im CL c e st sp a op b v x y z tv ta tb R (lin_nodup _ _ _ LC) LA1 LB1 EV TV TA TB) as (s' & E & R' & FE).
      eapply exec_to_finishes; [apply (exec_straight_exec_to im _ pc st s' CA1 E)|].
      eapply (IH next (c ++ [mkb v Ext I64]) _ ot s'); eauto.
      * unfold ctx_int in *. rewrite forallb_app, CI. reflexivity.
      * eapply frame_eq_outer; eauto.
      * destruct FE as (_ & O & _). congruence.
    + destruct (sim_op_undef im CL c e st sp a op b v x y w tv ta tb R (lin_nodup _ _ _ LC) LA1 LB1 EV TV TA TB) as (s' & E & O).
      rewrite <- OUT, <- O. eapply exec_undef_finishes; eauto.
  - (* PrintI64 *)
    cbn [lin_check] in LC. apply andb_true_iff in LC as [_ LC]. apply andb_true_iff in LC as [HV LC].
    destruct (has_ext_lookup_int CL c e st sp v R HV) as (z & LV).
    rewrite LV in G |- *.
    destruct (cs_print _ _ _ _ _ _ _ _ CS) as (tv & c2 & TV & NX & ->).
    destruct (sim_print im CL c e st sp nl v z tv R LV TV) as (s' & E & R' & O & AE).
    apply code_at_app in CA as [CA1 CA2]. apply labels_at_nh_app in LA as [_ LA2].
    eapply exec_to_finishes; [apply (exec_straight_exec_to im _ pc st s' CA1 E)|].
    eapply (IH next c e ((nl, z) :: ot) s'); eauto.
    + eapply above_eq_outer; eauto.
    + congruence.
  - (* IfC *)
    apply andb_true_iff in SI as [SI1 SI2].
    cbn [lin_check] in LC. apply andb_true_iff in LC as [_ LC].
    apply andb_true_iff in LC as [LC LCe]. apply andb_true_iff in LC as [LCo LCt]. apply andb_true_iff in LCo as [HA HB].
    destruct (has_ext_lookup_int CL c e st sp a R HA) as (x & LA1).
    assert (LB1 : exists y, match b with Some b0 => lookup_int e b0 | None => Some 0 end = Some y).
    { destruct b as [b|]; [|eauto]. exact (has_ext_lookup_int CL c e st sp b R HB). }
    destruct LB1 as (y & LB1). rewrite LA1, LB1 in G |- *.
    destruct (sim_ifc im CL c e st sp so a b x y (ptypes p) thenc elsec lc code lc' pc R LA1 LB1 CS CA LA)
      as (c1 & c2 & lc2 & c3 & s' & -> & EL & TH & X & R' & FE).
    assert (OK' : outer_ok s' sp) by (eapply frame_eq_outer; eauto).
    assert (O' : out s' = ot) by (destruct FE as (_ & O & _); congruence).
    eapply exec_to_finishes; [exact X|].
    apply code_at_app in CA as [_ CA]. apply code_at_app in CA as [CA2 CA]. apply code_at_app in CA as [_ CA3].
    apply labels_at_nh_app in LA as [_ LA]. apply labels_at_nh_app in LA as [LA2 LA]. apply labels_at_nh_app in LA as [_ LA3].
    rewrite <- !padd_add in CA3, LA3. cbn [List.length] in CA3, LA3. rewrite Nat.add_assoc in CA3, LA3.
    destruct (eval_cmp so x y).
    + eapply (IH thenc c e ot s'); eauto.
    + eapply (IH elsec c e ot s'); eauto.
  - (* Exit *)
    cbn [lin_check] in LC. apply andb_true_iff in LC as [_ HV].
    destruct (has_ext_lookup_int CL c e st sp v R HV) as (z & LV).
    rewrite LV in G |- *.
    destruct (cs_exit _ _ _ _ _ _ CS) as (tv & TV & -> & _).
    destruct (sim_exit_mov im CL c e st sp v z tv R LV TV) as (s' & E & RAX & F' & FE).
    apply code_at_app in CA as [CA1 CA2]. apply code_at_cons in CA2 as [CJ _].
    destruct CLEAN as (pcc & FL & CAc).
    eapply exec_to_finishes; [apply (exec_straight_exec_to im _ pc st s' CA1 E)|].
    eapply exec_to_finishes.
    { eapply exec_jump; [exact CJ|cbn [step]; unfold goto_label; rewrite FL; reflexivity|apply exec_refl]. }
    replace ot with (out s') by (destruct FE as (_ & O & _); congruence).
    eapply epilogue_ok; eauto. eapply frame_eq_outer; eauto.
Qed.
End Main.
