(* Proof/WtExamples2.v (property C12): the hypotheses of the round-2 typing theorems are satisfiable.
   The five multi-definition programs of Proof/Fun2CoreExamples.v (recursion, shared continuations, data with
   case, labels/goto with a consumer argument, codata with `new` and by-name values) satisfy the guard of
   C12_fun2core_preserves_typing_fragment2 and every boolean condition of C12_pipeline_wt; the conclusions are
   evaluated as well (vm_compute on the models of the passes). *)
From Coq Require Import List ZArith NArith String Bool.
From SCC Require Import Lang.FunSyn Lang.CoreSyn Sem.FsCheck Sem.CoreCheck Sem.FsFrag2
     Model.Fun2Core Model.Fun2CoreTyGuard Model.FocusCheck Model.FocusTyGuard Model.Backend Model.Focus
     Model.WtDefs Proof.Fun2CoreProof Proof.Fun2CoreExamples.
Import ListNotations.

(* guard and conclusion of the fun2core theorem *)
Definition f2c_ok (p : fcprog) : bool :=
  prog_tyguard p &&
  match compile_prog p with
  | Fun2Core.Ok c => wt_core c && pre_check c && xtor_tys_ok c && names_le c
  | Fun2Core.Err _ => false
  end.
(* hypotheses and conclusion of the focus theorem, and the stage-output conditions of the composition *)
Definition focus_ok (p : fcprog) : bool :=
  match compile_prog p with
  | Fun2Core.Ok c =>
      match focus_prog c with
      | Backend.Ok f => wt_fs f && unique_binders f && ids_bounded f && gub f && FsFrag2.names_ok f && FsFrag2.decls_ok f
      | Backend.Err _ => false
      end
  | Fun2Core.Err _ => false
  end.

Lemma f2c_examples_ok :
  f2c_ok ex_calls = true /\ f2c_ok ex_shared = true /\ f2c_ok ex_data = true /\ f2c_ok ex_labels = true /\ f2c_ok ex_codata = true.
Proof. repeat split; vm_compute; reflexivity. Qed.
Lemma focus_examples_ok :
  focus_ok ex_calls = true /\ focus_ok ex_shared = true /\ focus_ok ex_data = true /\ focus_ok ex_labels = true /\ focus_ok ex_codata = true.
Proof. repeat split; vm_compute; reflexivity. Qed.
(* lifted definitions exist in the examples (the key lemma is exercised): share_<f>_<n> *)
Lemma shared_example_lifts : (2 <= List.length (cpdefs (compiled_or_empty ex_shared)) - 2)%nat.
Proof. vm_compute. repeat constructor. Qed.
(* the guard is not implied by acceptance of the checker before fix 5b8c76f: the witness of the former finding
   main-non-integer-result is outside.  The witness of the former finding call-to-main (repaired in /repo by f929eb7; the
   guard has no call-of-main exclusion any more) is INSIDE, and the conclusion of the theorem is evaluated on it.  The two witnesses of the former finding capture-under-binder (repaired in /repo
   by d5d4151; the guard has no capture clause any more) are INSIDE, although the syntactic detector
   [shadowing_risk_prog] fires on them, and the conclusion of the theorem is evaluated on them too. *)
Lemma guard_on_witnesses :
  (prog_tyguard call_main_witness = true /\ calls_main_prog call_main_witness = true /\ f2c_ok call_main_witness = true) /\
  prog_tyguard main_nonint_witness = false /\
  (prog_tyguard capture_witness = true /\ shadowing_risk_prog capture_witness = true /\ f2c_ok capture_witness = true) /\
  (prog_tyguard WtDefs.capture_typing_witness = true /\ shadowing_risk_prog WtDefs.capture_typing_witness = true /\
   f2c_ok WtDefs.capture_typing_witness = true).
Proof. repeat split; vm_compute; reflexivity. Qed.

(* ---------- hypothesis H_focus_wt of the old compositions is FALSE as stated ----------
   H_focus_wt asks wt_fs /\ unique_binders /\ ids_bounded of the focused program from wt_core and pre_check alone.
   (1) ids_bounded also bounds the id of every definition NAME, which neither wt_core nor pre_check look at:
       def main_5() { exit 0 } with max_id = 0.
   (2) wt_core does not ask for declared field types, focusing cuts every non-variable argument at the field type
       and wt_fs demands a declared type at every cut:  data T { K(x: U) }, U undeclared,
       def main() { < K(mu a. exit 0) | T | mu~ z. exit 0 > }.
   The proved theorem C12_focus_preserves_typing has the two boolean side conditions names_le and xtor_tys_ok. *)
From SCC Require Import Proof.WtPreserve.
Definition focus_wt_witness1 : cprog :=
  mkcp [mkcd ("main"%string, 5%N) [] (CExit (CLit 0%Z) CI64)] [] [] 0%N.
Definition tyT : cty := CDecl ("T"%string, 0%N).
Definition tyU : cty := CDecl ("U"%string, 0%N).
Definition focus_wt_witness2 : cprog :=
  mkcp [mkcd ("main"%string, 0%N) []
          (CCut (CXtor CPrd ("K"%string, 0%N) [CProducer (CMu CPrd ("a"%string, 0%N) (CExit (CLit 0%Z) CI64) tyU)] tyT) tyT
                (CMu CCns ("z"%string, 0%N) (CExit (CLit 0%Z) CI64) tyT))]
       [mkct CData ("T"%string, 0%N) [mkcx CData ("K"%string, 0%N) [mkcb ("x"%string, 0%N) CPrd tyU]]] [] 0%N.

Lemma focus_wt_witnesses :
  (wt_core focus_wt_witness1 = true /\ pre_check focus_wt_witness1 = true /\ names_le focus_wt_witness1 = false /\
   exists f, focus_prog focus_wt_witness1 = Backend.Ok f /\ wt_fs f = true /\ ids_bounded f = false) /\
  (wt_core focus_wt_witness2 = true /\ pre_check focus_wt_witness2 = true /\ xtor_tys_ok focus_wt_witness2 = false /\
   exists f, focus_prog focus_wt_witness2 = Backend.Ok f /\ wt_fs f = false).
Proof.
  split.
  - split; [vm_compute; reflexivity|]. split; [vm_compute; reflexivity|]. split; [vm_compute; reflexivity|].
    destruct (focus_prog focus_wt_witness1) as [f|m] eqn:E; [|vm_compute in E; discriminate].
    exists f. split; [reflexivity|]. revert E. vm_compute. intros E. inversion E. split; reflexivity.
  - split; [vm_compute; reflexivity|]. split; [vm_compute; reflexivity|]. split; [vm_compute; reflexivity|].
    destruct (focus_prog focus_wt_witness2) as [f|m] eqn:E; [|vm_compute in E; discriminate].
    exists f. split; [reflexivity|]. revert E. vm_compute. intros E. inversion E. reflexivity.
Qed.
Lemma H_focus_wt_refuted : ~ H_focus_wt.
Proof.
  intros H. destruct focus_wt_witnesses as [[W1 [P1 [_ [f [Ef [_ Hib]]]]]] _].
  destruct (H _ _ W1 P1 Ef) as [_ [_ Hib']]. congruence.
Qed.
