(* C08, forward simulation for HEAP statements, ALL statement forms: the program-level theorem.
   Every run of the linear AxCut machine that does not run out of fuel is reproduced by the RISC-V code on the ISA
   model, with the same observation, for every linearly checked program whose entry takes integers - objects and
   closure environments of ANY number of fields (chains of blocks).  The chain version of Proof/RVHSimTop.v.
     rv_codegen_simulates       for the residual predicate `k_frag` of Proof/RVKFrag.v (no print, annotated closures);
     rv_codegen_simulates_all   `k_frag` discharged: no print statement follows from `rv_compile ... = Ok` (the back end
                                rejects print), annotated closures from `ann_check_prog`.  No fragment predicate is left.
   Hypotheses as for the other back ends: the checks of C14 on the output (`asm_wf`, `code_small`; theorems under program
   guards, Proof/RVKWfCor.v), the capacity of the register file for the entry (`main_arity p <= 14`; every other context
   is within capacity because the code generator succeeded - RISC-V does not spill), `ann_check_prog`, `heap_fits`. *)
From Coq Require Import List ZArith NArith String Bool Lia FMapPositive Permutation.
From SCC Require Import Base.Sexp Lang.AxSyn Sem.AxSem Sem.AxHeap Model.ParMoves Model.Backend Model.RV Sem.RVSem Sem.RVWf
     Model.Linearize Model.LinCheck Model.Capacity Generated.Constants Proof.LinBasics Proof.LinTyping Proof.LinMachine
     Proof.RVSel Proof.SubstGraph Proof.SubstBackends Proof.RVSubst Proof.RVSimAddr Proof.BackendInv Proof.RVSimRel Proof.RVSimStmt
     Proof.RVSimClo Proof.RVSimProg Proof.RVSimTop
     Proof.RVHeapAbs Proof.RVHDefs Proof.RVHMem Proof.RVHBridge Proof.RVKSimRel Proof.RVKSimStmt Proof.RVKSimSubst
     Proof.RVKSimStore Proof.RVKSimLoad Proof.RVHLayout Proof.RVKFrag Proof.RVKClo Proof.X86HAnn
     Proof.RVKSimProgA Proof.RVKSimHeapB Proof.RVKSimHeapC Proof.RVKSimProg.
From SCC Require Model.Heap Proof.HeapMore Proof.HeapTrace Proof.HeapRep Proof.AxHeapErase Proof.AxHeapTyping Proof.AxHeapSafe Proof.RVHSimTop.
Import ListNotations.
Open Scope Z_scope.
Open Scope list_scope.

(* the SAME predicate as in the one-block development (decided along a terminating run by RVHSimExample.fits_run) *)
Notation heap_fits := RVHSimTop.heap_fits.

Lemma ctx_int_all_ext c : XR.ctx_int c = true -> AxHeapTyping.all_ext c = true.
Proof.
  unfold AxHeapTyping.all_ext, XR.ctx_int. rewrite !forallb_forall. intros H b Hb. specialize (H b Hb).
  unfold XR.is_int_binding in H. destruct (bchi b); try discriminate. destruct (bty b); try discriminate. reflexivity.
Qed.

Theorem rv_codegen_simulates p lc cs n lc' args fuel o :
  k_frag p = true -> XTC.entry_int p = true -> lin_check_prog p = true -> ann_check_prog p = true ->
  rv_compile p lc = Ok (cs, n, lc') -> asm_wf cs = None -> code_small cs = true ->
  Nat.leb (main_arity p) 14 = true -> List.length args = n -> heap_fits p args ->
  run_linear fuel p args = o -> snd o <> OOutOfFuel ->
  exists outer inner, fst (run_rv outer inner cs args) = o.
Proof.
  intros FRG EI LIN ANN XC WF SM CAP.
  unfold rv_compile in XC. destruct (prog_has_print p) eqn:NP; [discriminate|].
  unfold compile in XC. destruct (pdefs p) as [|d0 rest] eqn:PD; [discriminate|].
  destruct (translate rv_backend (ptypes p) (d0 :: rest) lc) as [[is' lc1]|] eqn:TR; cbn [rbind] in XC; [|discriminate].
  cbn in XC. inversion XC; subst cs n lc'; clear XC.
  intros NARGS FITS RUN G.
  assert (FRG' : forall d, In d (pdefs p) -> stmt_k (dbody d) = true).
  { unfold k_frag in FRG. rewrite forallb_forall in FRG. exact FRG. }
  assert (LEN : List.length args = List.length (dctx d0)) by exact NARGS.
  assert (LE14 : (List.length args <= 14)%nat).
  { unfold main_arity in CAP. rewrite PD in CAP. apply Nat.leb_le in CAP. lia. }
  destruct (XS.bind_total (vars (dctx d0)) (map VInt args)) as (e0 & EE); [unfold vars; rewrite !map_length; auto|].
  set (full := is' ++ [LAB "cleanup"%string]).
  set (im := mk_image full).
  pose proof (asm_wf_labels is' WF) as NDL. fold full in NDL.
  assert (PLF : placed im 1%positive full).
  { pose proof (placed_mk_image [] full []) as H. cbn [app List.length padd] in H. rewrite app_nil_r in H. exact (H NDL). }
  set (stop := padd 1%positive (List.length is')).
  assert (NTH : nth_error full (List.length is') = Some (LAB "cleanup"%string)) by (unfold full; apply nth_error_mid).
  assert (STOPL : find_label (labels im) "cleanup" = Some stop) by exact (proj2 PLF _ _ NTH).
  assert (STOPC : exists l, PM.find stop (code im) = Some (LAB l)) by (eexists; exact (proj1 (proj1 PLF _ _ NTH))).
  assert (ENDC : PM.find (Pos.succ stop) (code im) = None).
  { unfold stop. rewrite <- padd_1', <- padd_add. replace (List.length is' + 1)%nat with (List.length full) by (unfold full; now rewrite app_length).
    apply mk_image_code_end. }
  assert (IMG : rimg_ok im) by apply mk_image_ok.
  assert (FWD : fwd_ok im) by apply mk_image_fwd.
  assert (EVEN : forall pc a, PM.find pc (addr_of im) = Some a -> a mod 2 = 0) by (apply mk_image_even).
  assert (SMALL : forall pc a, PM.find pc (addr_of im) = Some a -> a < 4611686018427387904 - 32).
  { apply mk_image_small. apply code_small_cleanup. exact SM. }
  assert (ENC : forall pc c, PM.find pc (code im) = Some c -> instr_wf c = true).
  { intros pc c Hc. apply mk_image_code_in in Hc. unfold full in Hc. apply in_app_or in Hc as [Hc|[<-|[]]]; [|reflexivity].
    apply (asm_wf_enc is' WF c Hc). }
  assert (DEFS : forall d, In d (pdefs p) ->
    exists pcd lcd cd lcd', find_label (labels im) (show_ident (dname d) +++ "_") = Some pcd /\
      (exists a, PM.find pcd (code im) = Some (LAB (show_ident (dname d) +++ "_")) /\ PM.find pcd (addr_of im) = Some a) /\
      rcs (ptypes p) (dbody d) (dctx d) lcd = Ok (cd, lcd') /\ placed im (Pos.succ pcd) cd).
  { intros d Hd. rewrite PD in Hd.
    destruct (translate_defs rv_backend (ptypes p) _ _ _ _ TR d Hd) as (pre & lcd & cd & lcd' & post & EQ & CD).
    cbn [b_label rv_backend] in EQ.
    assert (PLd : placed im (padd 1%positive (List.length pre)) (LAB (show_ident (dname d) +++ "_") :: cd)).
    { assert (E : full = pre ++ (LAB (show_ident (dname d) +++ "_") :: cd) ++ (post ++ [LAB "cleanup"%string])).
      { unfold full. rewrite EQ. rewrite <- app_assoc. cbn [app]. rewrite <- app_assoc. reflexivity. }
      rewrite E in PLF. apply placed_app in PLF as [_ PLF]. apply placed_app in PLF as [PLF _]. exact PLF. }
    exists (padd 1%positive (List.length pre)), lcd, cd, lcd'.
    split; [exact (proj2 PLd O _ eq_refl)|]. split.
    - destruct (proj1 PLd O _ eq_refl) as (HC & (a & HA)). eauto.
    - split; [exact CD|]. change (LAB (show_ident (dname d) +++ "_") :: cd) with ([LAB (show_ident (dname d) +++ "_")] ++ cd) in PLd.
      apply placed_app in PLd as [_ PLd]. exact PLd. }
  (* the run of the instrumented machine *)
  assert (ERUN : o = fst (fst (hexec fuel p (mkhc (attach e0 []) (Heap.init HEAP_BASE) (dbody d0)) [] []))).
  { rewrite AxHeapErase.hexec_erase. cbn [hc_env hc_stmt]. rewrite AxHeapErase.erase_attach.
    unfold run_linear in RUN. rewrite PD in RUN. unfold entry_env in RUN. rewrite EE in RUN. congruence. }
  assert (D0 : In d0 (pdefs p)) by (rewrite PD; now left).
  assert (I1 : XR.ctx_int (dctx d0) = true) by (unfold XTC.entry_int in EI; rewrite PD in EI; exact EI).
  assert (EI' : AxHeapTyping.entry_ext p = true).
  { unfold AxHeapTyping.entry_ext. rewrite PD. apply ctx_int_all_ext. exact I1. }
  assert (LINd : forall d, In d (pdefs p) -> lin_check (sigs_of p) (dctx d) (dbody d) = true).
  { unfold lin_check_prog in LIN. rewrite forallb_forall in LIN. exact LIN. }
  assert (HI0 : hinv p (attach e0 []) (Heap.init HEAP_BASE) (dbody d0)).
  { split.
    - apply (AxHeapSafe.hinit_inv HEAP_BASE d0 e0 args); [unfold HEAP_BASE; lia|exact EE].
    - apply (AxHeapTyping.hinit_wt HEAP_BASE p d0 rest e0 args LIN EI' PD EE).
    - apply P03_init.
    - intros tr c' HSs. apply (FITS tr c'). exists d0, rest, e0. repeat split; auto. }
  assert (FIN : rfin im stop 1%positive (init_state args) o).
  { cbn [translate] in TR.
    destruct (rcs (ptypes p) (dbody d0) (dctx d0) lc) as [[c0 lc0]|] eqn:C0; cbn [rbind] in TR; [|discriminate].
    destruct (translate rv_backend (ptypes p) rest lc0) as [[c2 lc2]|] eqn:TR2; cbn [rbind] in TR; [|discriminate].
    cbn in TR. inversion TR; subst is' lc1; clear TR.
    assert (PL0 : placed im 1%positive ([LAB (show_ident (dname d0) +++ "_")] ++ c0 ++ (c2 ++ [LAB "cleanup"%string]))).
    { unfold full in PLF. cbn [app] in PLF |- *. rewrite <- app_assoc in PLF. exact PLF. }
    pose proof PL0 as PL1. apply placed_app in PL1 as [PLl PL1]. apply placed_app in PL1 as [PLc _]. cbn [List.length padd] in PLc.
    eapply (star_rfin im stop STOPC ENDC).
    { eapply star_next; [exact (proj1 PLl)|reflexivity]. }
    rewrite ERUN.
    assert (R0 : hrel (ptypes p) (hclo_ok im p stop) (dctx d0) (attach e0 []) (Heap.init HEAP_BASE) (init_state args)).
    { eapply hentry_rel; eauto. eapply XS.lin_nodup. exact (LINd d0 D0). }
    eapply proj1. eapply (hsim_exec im p stop IMG FWD EVEN SMALL STOPL STOPC ENDC DEFS LIN ANN FRG') with (c := dctx d0) (lc := lc); eauto.
    - unfold ann_check_prog in ANN. rewrite forallb_forall in ANN. exact (ANN d0 D0).
    - rewrite attach_names. exact (XS.bind_ids _ _ _ EE).
    - unfold XP.not_oof. rewrite <- ERUN. exact G. }
  destruct (rfin_run im stop _ _ _ FIN) as (outer & inner & RN).
  exists outer, inner. unfold run_rv. cbv zeta. fold full. fold im.
  assert (HD : exists l r, is' = LAB l :: r).
  { cbn [translate] in TR. destruct (rcs (ptypes p) (dbody d0) (dctx d0) lc) as [[c0 lc0]|]; cbn [rbind] in TR; [|discriminate].
    destruct (translate rv_backend (ptypes p) rest lc0) as [[c2 lc2]|]; cbn [rbind] in TR; [|discriminate].
    cbn in TR. inversion TR. eauto. }
  destruct HD as (l0 & r0 & HD). rewrite HD at 1.
  unfold im. rewrite (duplicate_labels_nil full NDL). fold im. rewrite STOPL.
  destruct (Nat.ltb_spec 14 (List.length args)); [lia|]. exact RN.
Qed.

Theorem rv_codegen_simulates_all p lc cs n lc' args fuel o :
  XTC.entry_int p = true -> lin_check_prog p = true -> ann_check_prog p = true ->
  rv_compile p lc = Ok (cs, n, lc') -> asm_wf cs = None -> code_small cs = true ->
  Nat.leb (main_arity p) 14 = true -> List.length args = n -> heap_fits p args ->
  run_linear fuel p args = o -> snd o <> OOutOfFuel ->
  exists outer inner, fst (run_rv outer inner cs args) = o.
Proof.
  intros EI LIN ANN XC. apply (rv_codegen_simulates p lc cs n lc' args fuel o); auto.
  apply k_frag_intro; [|exact ANN].
  unfold rv_compile in XC. destruct (prog_has_print p); [discriminate|reflexivity].
Qed.
