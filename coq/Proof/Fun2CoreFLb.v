(* ======================================================================================
   Proof/Fun2CoreFLb  -  Core-side multi-step lemmas and the SHARING lemma of the simulation:
   if k is what cont means (CK), it is also what the shared continuation
        mu~ x. share_f_n(free variables of the lifted body)
   means, because the lifted definition share_f_n - looked up in the compiled program, its
   parameters bound positionally to the values of exactly the free variables of its body - runs the
   body of cont in an environment that agrees with the closure's on those free variables.
   ====================================================================================== *)
From Coq Require Import List ZArith NArith String Bool Lia.
From SCC Require Import Base.Sexp Lang.SynUtil Lang.FunSyn Lang.FunTy Lang.CoreSyn.
From SCC Require Import Sem.AxSem Sem.CoreSem Sem.FunSem Model.Fun2Core.
From SCC Require Import Proof.Fun2CoreProof Proof.Fun2CoreSim Proof.Fun2CoreTfv Proof.Fun2CoreInv Proof.Fun2CoreUB
     Proof.Fun2CoreRel Proof.Fun2CoreFLa.
Import ListNotations.
Open Scope string_scope.
Open Scope list_scope.

Section FLb.
  Variable p : fcprog.
  Variable cp : cprog.
  Hypothesis Hcod : cpcodata cp = codata_of p.

  (* ---------- argument lists ---------- *)
  Definition cargs_res (done : list bval) (rest : list carg) (ce : cenv) (f : fin) : sres :=
    match rest with
    | [] => finish_args cp f (rev_append done [])
    | a :: r => SNext (Arg a ce (MArgs done r ce f))
    end.
  Lemma start_args_eq : forall args ce f, start_args cp args ce f = cargs_res [] args ce f.
  Proof. intros [|a r] ce f; reflexivity. Qed.
  Lemma cstep_app_margs : forall done rest ce f b,
    cstep cp (App (MArgs done rest ce f) b) = cargs_res (b :: done) rest ce f.
  Proof. intros done [|a r] ce f b; reflexivity. Qed.

  Definition lookups (env : cenv) (bs : list cbinding) : list bval :=
    map (fun bb => match clookup env (cbvar bb) with Some b => b | None => BP (PInt 0) end) bs.

  Lemma bind_args_run : forall bs env f done,
    (forall bb, In bb bs -> exists b', clookup env (cbvar bb) = Some b' /\ ckind b' = cbchi bb) ->
    rreach cp (cargs_res done (map arg_of_binding bs) env f)
           (finish_args cp f (rev_append done [] ++ lookups env bs)).
  Proof.
    induction bs as [|bb r IH]; intros env f done Hk.
    - simpl. rewrite app_nil_r. apply rreach_refl.
    - destruct (Hk bb (or_introl eq_refl)) as [b' [Hl Hkind]].
      change (map arg_of_binding (bb :: r)) with (arg_of_binding bb :: map arg_of_binding r).
      unfold cargs_res at 1. apply rreach_step.
      assert (Hstep : cstep cp (Arg (arg_of_binding bb) env (MArgs done (map arg_of_binding r) env f)) =
                      SNext (App (MArgs done (map arg_of_binding r) env f) b')).
      { unfold arg_of_binding. destruct bb as [v c ty]. simpl in *. destruct c; simpl; rewrite Hl;
          destruct b' as [pv|kv]; simpl in Hkind; try discriminate; reflexivity. }
      rewrite Hstep. apply rreach_step. rewrite cstep_app_margs.
      eapply rreach_trans; [apply IH; intros bb0 Hb0; apply Hk; right; exact Hb0|].
      assert (E : rev_append (b' :: done) [] ++ lookups env r = rev_append done [] ++ lookups env (bb :: r)).
      { simpl. rewrite Hl. rewrite !rev_append_rev. simpl. rewrite !app_nil_r. rewrite <- app_assoc. reflexivity. }
      rewrite E. apply rreach_refl.
  Qed.

  (* the same in front of further arguments (the entry point of a program that calls main: the parameters, then
     the exit continuation) *)
  Lemma bind_args_run_tail : forall bs env f done tail,
    (forall bb, In bb bs -> exists b', clookup env (cbvar bb) = Some b' /\ ckind b' = cbchi bb) ->
    rreach cp (cargs_res done (map arg_of_binding bs ++ tail) env f)
           (cargs_res (rev_append (lookups env bs) done) tail env f).
  Proof.
    induction bs as [|bb r IH]; intros env f done tail Hk.
    - simpl. apply rreach_refl.
    - destruct (Hk bb (or_introl eq_refl)) as [b' [Hl Hkind]].
      change (map arg_of_binding (bb :: r) ++ tail) with (arg_of_binding bb :: (map arg_of_binding r ++ tail)).
      unfold cargs_res at 1. apply rreach_step.
      assert (Hstep : cstep cp (Arg (arg_of_binding bb) env (MArgs done (map arg_of_binding r ++ tail) env f)) =
                      SNext (App (MArgs done (map arg_of_binding r ++ tail) env f) b')).
      { unfold arg_of_binding. destruct bb as [v c ty]. simpl in *. destruct c; simpl; rewrite Hl;
          destruct b' as [pv|kv]; simpl in Hkind; try discriminate; reflexivity. }
      rewrite Hstep. apply rreach_step. rewrite cstep_app_margs.
      eapply rreach_trans; [apply IH; intros bb0 Hb0; apply Hk; right; exact Hb0|].
      simpl. rewrite Hl. apply rreach_refl.
  Qed.

  Lemma cbind_lookups : forall bs env,
    (forall bb, In bb bs -> exists b', clookup env (cbvar bb) = Some b') ->
    exists env_l, cbind (cvars bs) (lookups env bs) [] = Some env_l /\
                  forall x, In x (cvars bs) -> clookup env_l x = clookup env x.
  Proof.
    induction bs as [|bb r IH]; intros env Hk.
    - exists []. split; [reflexivity | intros x []].
    - destruct (IH env) as [el [Hb Hl]]; [intros bb0 Hb0; apply Hk; right; exact Hb0|].
      destruct (Hk bb (or_introl eq_refl)) as [b' Hb'].
      unfold cvars in *. simpl. rewrite Hb. rewrite Hb'. eexists. split; [reflexivity|].
      intros x Hx. rewrite clookup_cons. destruct (cident_eqb (cbvar bb) x) eqn:E.
      + apply cid_eqb_eq in E. subst x. symmetry. exact Hb'.
      + destruct Hx as [Hx|Hx]; [apply cid_eqb_neq in E; congruence | apply Hl; exact Hx].
  Qed.

  (* calling a definition whose parameters are exactly the bindings bs, with those variables as
     arguments: the body runs in an environment that agrees with the caller's on the names of bs *)
  Lemma call_bindings_run : forall name bs body ty env,
    cfind_def cp (new_id name) = Some (mkcd (new_id name) bs body) ->
    (forall bb, In bb bs -> exists b', clookup env (cbvar bb) = Some b' /\ ckind b' = cbchi bb) ->
    exists env_l, agree (cnames bs) env env_l /\
                  rreach cp (SNext (Run (CCall (new_id name) (map arg_of_binding bs) ty) env)) (SNext (Run body env_l)).
  Proof.
    intros name bs body ty env Hf Hk.
    destruct (cbind_lookups bs env) as [env_l [Hb Hl]].
    { intros bb Hb. destruct (Hk bb Hb) as [b' [E _]]. eauto. }
    exists env_l. split; [intros x Hx; apply Hl; exact Hx|].
    apply rreach_step. simpl. rewrite start_args_eq.
    eapply rreach_trans; [apply bind_args_run; exact Hk|].
    simpl. rewrite Hf. simpl. rewrite Hb. apply rreach_refl.
  Qed.

  (* ---------- sharing ---------- *)
  Lemma share_CK : forall n cur cont st cont1 st0 k ce (S : cident -> Prop),
    share cur cont st = Ok (cont1, st0) -> cont_is_small cont = false -> cont_shape cp false cont ->
    (forall x, In x (cnames (fvt cont)) -> exists y, x = new_id y /\ In y (st_used_vars st)) ->
    (forall d, In d (st_lifted st0) -> cfind_def cp (cdname d) = Some d) ->
    CK p cp n false k cont ce S -> CK p cp n false k cont1 ce S /\ cont_shape cp false cont1.
  Proof.
    intros n cur cont st cont1 st0 k ce S Hsh Hns Hshape Hnames Hlift [Hkinds HK].
    destruct (share_inv _ _ _ _ _ Hsh) as [var [ty [body [stv [name [Hm [Hv [Hl Hk1]]]]]]]].
    assert (Hdef : cfind_def cp (new_id name) = Some (mkcd (new_id name) (tfv_stmt body []) body)).
    { apply (Hlift (mkcd (new_id name) (tfv_stmt body []) body)). rewrite Hl. left. reflexivity. }
    fold (fvs body) in Hdef.
    (* facts about the body and the variable, uniform in the two cases *)
    assert (HF : (forall bb, In bb (fvs body) -> bb = mkcb var CPrd ty \/ In bb (fvt cont)) /\
                 (forall bb, In bb (fvt cont) -> In bb (fvs body) /\ bb <> mkcb var CPrd ty) /\
                 ~ In var (cnames (fvt cont)) /\ is_codata cp ty = false /\
                 (KS p cp n false k cont ce ->
                  forall j, (j < n)%nat -> forall v pv, dval v -> vrel p cp j v pv ->
                  forall env, agree (cnames (fvs body)) ((var, BP pv) :: ce) env ->
                  sim p cp j (FRet k v) (SNext (Run body env)))).
    { destruct cont; simpl in Hshape; try contradiction; try discriminate Hns; try discriminate Hshape.
      - (* mu~ *)
        destruct Hm as [E1 [E2 [E3 E4]]]. subst. destruct Hshape as [_ [Hc [Hcd Hclean]]]. subst c.
        split; [|split; [|split; [|split]]].
        + intros bb Hb. destruct (cbinding_eqb bb (mkcb v CPrd t)) eqn:E.
          * left. apply cbinding_eqb_eq. exact E.
          * right. apply fvt_mu_2; [exact Hb|]. intros Eb. subst bb. rewrite (proj2 (cbinding_eqb_eq _ _) eq_refl) in E. discriminate.
        + intros bb Hb. apply fvt_mu_iff in Hb. exact Hb.
        + exact Hclean.
        + exact Hcd.
        + intros HKS. exact HKS.
      - (* case: through a fresh variable *)
        destruct Hm as [x [Hfr [E1 [E2 E3]]]]. subst var ty body.
        destruct (fresh_in_vars_inv _ _ _ _ Hfr) as [Hfresh _].
        assert (Hx : ~ In (new_id x) (cnames (fvt (CXCase c cls t)))).
        { intros Hin. destruct (Hnames _ Hin) as [y [Ey Hy]]. apply new_id_inj in Ey. subst y. exact (Hfresh Hy). }
        split; [|split; [|split; [|split]]].
        + intros bb Hb. apply fvs_cut in Hb. destruct Hb as [Hb|Hb]; [left; apply fvt_var in Hb; exact Hb | right; exact Hb].
        + intros bb Hb. split; [apply fvs_cut; right; exact Hb|]. intros Eb. subst bb. apply Hx. apply (in_cnames _ _ Hb).
        + exact Hx.
        + exact (proj2 Hshape).
        + intros HKS j Hj v pv Hd Hvr env Ha. apply sim_cstep. rewrite cstep_cut_var; [|exact Hshape].
          assert (Hag : agree (cnames (fvt (CXCase c cls t))) ce env).
          { intros y Hy. rewrite (Ha y).
            - rewrite clookup_cons. destruct (cident_eqb (new_id x) y) eqn:E; [|reflexivity].
              apply cid_eqb_eq in E. subst y. contradiction.
            - apply in_cnames_inv in Hy. destruct Hy as [bb [Hb E]]. subst y. apply in_cnames. apply fvs_cut. right. exact Hb. }
          destruct (HKS env Hag) as [kv [Hh Hkb]]. rewrite Hh.
          rewrite (Ha (new_id x)).
          * rewrite clookup_cons, cid_eqb_refl. eapply Kb_use; eauto.
          * apply (in_cnames (mkcb (new_id x) CPrd (cterm_type (CXCase c cls t)))). apply fvs_cut. left. apply fvt_var. reflexivity. }
    destruct HF as [F2 [F3 [F4 [F6 F5]]]].
    assert (F1 : forall bb, In bb (fvt cont1) <-> In bb (fvs body) /\ bb <> mkcb var CPrd ty).
    { intros bb. subst cont1. rewrite fvt_mu_iff. simpl flip_chi.
      rewrite (fvs_call bb (new_id name) (map arg_of_binding (tfv_stmt body [])) ty).
      rewrite fva_arg_of_binding. reflexivity. }
    split; [split|].
    - (* kinds *)
      intros bb Hb Hs. apply F1 in Hb. destruct Hb as [Hb Hne]. destruct (F2 bb Hb) as [E|Hc]; [contradiction|].
      apply Hkinds; assumption.
    - (* meaning *)
      intros Hall.
      assert (HKS : KS p cp n false k cont ce).
      { apply HK. intros x Hx. apply Hall. apply in_cnames_inv in Hx. destruct Hx as [bb [Hb E]]. subst x.
        apply in_cnames. apply F1. apply F3. exact Hb. }
      subst cont1. simpl. intros j Hj v pv Hd Hvr env Ha.
      destruct (call_bindings_run name (fvs body) body ty env Hdef) as [env_l [Hal Hreach]].
      { intros bb Hb.
        assert (Hlook : clookup env (cbvar bb) = clookup ((var, BP pv) :: ce) (cbvar bb)).
        { apply Ha. apply in_cnames. apply (proj2 (fvs_call _ _ _ _)). apply fva_arg_of_binding. exact Hb. }
        rewrite Hlook, clookup_cons. destruct (F2 bb Hb) as [E|Hc].
        - subst bb. simpl. rewrite cid_eqb_refl. exists (BP pv). split; reflexivity.
        - assert (Hne : cident_eqb var (cbvar bb) = false).
          { apply cid_eqb_neq. intros E. apply F4. rewrite E. apply in_cnames. exact Hc. }
          rewrite Hne. apply Hkinds; [exact Hc|]. apply Hall. apply in_cnames. apply F1. apply F3. exact Hc. }
      eapply sim_rreach; [|exact Hreach]. apply (F5 HKS j Hj v pv Hd Hvr).
      intros y Hy. rewrite (Hal y Hy). apply Ha.
      apply in_cnames_inv in Hy. destruct Hy as [bb [Hb E]]. subst y. apply in_cnames.
      apply (proj2 (fvs_call _ _ _ _)). apply fva_arg_of_binding. exact Hb.
    - (* shape *)
      subst cont1. simpl. split; [reflexivity|]. split; [reflexivity|]. split; [exact F6|].
      intros Hin. apply in_cnames_inv in Hin. destruct Hin as [bb [Hb E]].
      change (In bb (fvt (CMu CCns var (CCall (new_id name) (map arg_of_binding (tfv_stmt body [])) ty) ty))) in Hb.
      apply F1 in Hb.
      destruct Hb as [Hb1 Hne]. destruct (F2 bb Hb1) as [Eb|Hc]; [contradiction|].
      apply F4. rewrite <- E. apply in_cnames. exact Hc.
  Qed.
End FLb.
