(* Proof/Compose2.v (C01) - the composition of Proof/Compose.v with the shrink link DISCHARGED by
   C04_shrink_correct_fragment2: instead of hypothesis H_shrink, boolean conditions on the focused
   program f that the theorem already names (fragment predicates of Sem/FsFrag2.v and the checkers of
   Sem/FsCheck.v). *)
From Coq Require Import List ZArith NArith String Ascii Bool Lia.
From SCC Require Import Base.Sexp Lang.AxSyn Lang.FunSyn Lang.CoreSyn Sem.AxSem Sem.CoreSem Sem.FunSem Sem.X86Sem Sem.FsCheck Sem.FsFrag2
     Model.Backend Model.Fun2Core Model.Focus Model.FocusCheck Model.Shrink Model.Linearize Model.LinCheck Model.X86 Model.Runtime
     Proof.RuntimeProof Proof.LinSim Proof.Compose Proof.ShrinkSem Proof.ShrinkSimClosed.
Import ListNotations.
Open Scope Z_scope.

Section Pipeline2.
Hypothesis fun2core_correct :
  forall (p : fcprog) (c : cprog) (args : list Z) (n : nat) (o : obs),
    annotated_fcprog p = true -> effect_sequenced p = true -> barendregt p = true ->
    compile_prog p = Fun2Core.Ok c -> run_fun n p args = o -> defined o = true ->
    exists m, run_core m c args = o.
Hypothesis focus_preserves :
  forall p q args fuel, pre_check p = true -> focus_wf p = true -> focus_prog p = Backend.Ok q ->
    let o := run_core fuel p args in
    ((exists z, snd o = OExit z) \/ (exists w, snd o = OUndef w)) ->
    exists fuel', run_fs fuel' q args = o.
Hypothesis x86_codegen_correct :
  forall (p : prog) (lc : N) (cs : list xcode) (n : nat) (lc' : N) (args : list Z) (fuel : nat) (o : obs),
    x86_compile p lc = Backend.Ok (cs, n, lc') ->
    run_linear fuel p args = o -> defined o = true ->
    exists outer inner, fst (run_x86 outer inner cs args) = o.

Theorem compile_correct_fragment2 :
  forall (p : fcprog) (c : cprog) (f : fsprog) (a : prog) (cs : list xcode) (nargs : nat) (lc lc' : N)
         (args : list Z) (n : nat) (o : obs),
    annotated_fcprog p = true -> effect_sequenced p = true -> barendregt p = true ->
    compile_prog p = Fun2Core.Ok c -> pre_check c = true -> focus_wf c = true ->
    focus_prog c = Backend.Ok f ->
    (* the focused program lies in the fragment of C04_shrink_correct_fragment2 *)
    frag2_prog f = true -> decls_ok f = true -> wt_fs f = true -> unique_binders f = true -> ids_bounded f = true ->
    shrink_prog f = SOk a -> prog_ok a = true ->
    x86_compile (linearize a) lc = Backend.Ok (cs, nargs, lc') ->
    run_fun n p args = o -> out_ok o ->
    (exists outer inner, fst (run_x86 outer inner cs args) = o) /\
    (Forall (fun pz => in_i64 (snd pz)) (fst o) ->
     bytes_of_string (render_prints (fst o)) = flat_map runtime_bytes (fst o)).
Proof.
  intros p c f a cs nargs lc lc' args n o An Es Ba Hc Hpre Hwf Hf F1 F2 F3 F4 F5 Hs Hok Hx Hrun (z & Hz).
  assert (D : defined o = true) by (unfold defined; now rewrite Hz).
  assert (G : (exists z, snd o = OExit z) \/ (exists w, snd o = OUndef w)) by (left; eauto).
  split; [|apply render_prints_is_runtime_output].
  destruct (fun2core_correct p c args n o An Es Ba Hc Hrun D) as (m1 & R1).
  pose proof (focus_preserves c f args m1 Hpre Hwf Hf) as FP. cbv zeta in FP. rewrite R1 in FP.
  destruct (FP G) as (m2 & R2).
  assert (Gd : ShrinkSem.good o) by (unfold ShrinkSem.good; rewrite Hz; exact I).
  destruct (shrink_correct_fragment2_closed f a m2 args o F1 F2 F3 F4 F5 Hs R2 Gd) as (m3 & R3).
  destruct (linearize_preserves_stable a Hok args m3 o R3 G) as (m4 & R4).
  specialize (R4 0%nat). rewrite Nat.add_0_r in R4.
  exact (x86_codegen_correct (linearize a) lc cs nargs lc' args m4 o Hx R4 D).
Qed.
End Pipeline2.
