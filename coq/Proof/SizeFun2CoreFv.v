(* C19, fun2core: the free-variable inclusion for ALL terms (no fragment, no scoping hypothesis):
     free bindings of  wc t cont   are typed occurrences of t (Model/SizeFun.v tocc) or free in cont,
     free bindings of  cmp t ty    are typed occurrences of t.
   Compiler-generated covariables are bound where they are introduced (default_compile, coclauses);
   `share` only removes free bindings from a continuation.  This is the unguarded form of
   Proof/Fun2CoreUB.v (which says more under scoping: the occurrence is THE binding in scope). *)
From Coq Require Import List ZArith NArith String Bool Lia.
From SCC Require Import Base.Sexp Lang.SynUtil Lang.FunSyn Lang.FunTy Lang.CoreSyn.
From SCC Require Import Model.Fun2Core Model.SizeFun Proof.Fun2CoreProof Proof.Fun2CoreTfv Proof.Fun2CoreInv.
Import ListNotations.
Open Scope string_scope.
Open Scope list_scope.

Definition cont_cns (cont : cterm) : Prop := match cont with CMu c _ _ _ => c = CCns | _ => True end.

Ltac inc := let z := fresh "z" in let Hz := fresh "Hz" in
  intros z Hz; simpl; rewrite ?in_app_iff; simpl; tauto.

Section FV.
  Variable codata : list ctydecl.
  Variable cur : string.
  Notation wc' := (wc codata cur false).
  Notation cmp' := (cmp codata cur false).

  Lemma share_fvt : forall cont st k st', share cur cont st = Ok (k, st') -> cont_cns cont ->
    cont_cns k /\ forall bb, In bb (fvt k) -> In bb (fvt cont).
  Proof.
    intros cont st k st' H Hc.
    destruct (share_inv _ _ _ _ _ H) as [var [ty [body [stv [name [Hm [Hv [Hl Hk]]]]]]]]. subst k.
    split; [reflexivity|]. intros bb Hb. apply fvt_mu_iff in Hb. destruct Hb as [Hb Hne]. simpl in Hne.
    apply (proj1 (fvs_call _ _ _ _)) in Hb. apply (proj1 (fva_arg_of_binding _ _)) in Hb. fold (fvs body) in Hb.
    destruct cont;
      try (destruct Hm as [xx [_ [Hvar [Hty Hbody]]]]; subst body; apply fvs_cut in Hb; destruct Hb as [Hb|Hb];
           [apply fvt_var in Hb; subst var; congruence | exact Hb]).
    destruct Hm as [Hvar [Hty [Hbody _]]]. simpl in Hc. subst.
    apply fvt_mu_iff. split; assumption.
  Qed.

  Definition occw (t : fterm) : Prop :=
    forall cont st s st', wc' t cont st = Ok (s, st') -> cont_cns cont ->
      forall bb, In bb (fvs s) -> In bb (tocc t) \/ In bb (fvt cont).
  Definition occc (t : fterm) : Prop :=
    forall ty st c st', cmp' t ty st = Ok (c, st') -> forall bb, In bb (fvt c) -> In bb (tocc t).

  Lemma occ_default : forall (w : cterm -> M cstmt) (l : list cbinding),
    (forall cont st s st', w cont st = Ok (s, st') -> cont_cns cont ->
       forall bb, In bb (fvs s) -> In bb l \/ In bb (fvt cont)) ->
    forall ty st c st', default_compile w ty st = Ok (c, st') -> forall bb, In bb (fvt c) -> In bb l.
  Proof.
    intros w l Hw ty st c st' H bb Hb. apply default_compile_inv in H.
    destruct H as [a [sta [s [Ha [Hs Hc]]]]]. subst c. apply fvt_mu_iff in Hb. destruct Hb as [Hb Hne].
    destruct (Hw _ _ _ _ Hs I bb Hb) as [Hg|Hg]; [exact Hg|]. apply fvt_var in Hg. simpl in Hne. congruence.
  Qed.

  (* the repaired placement of a continuation under binders (fix d5d4151): < mu a. w(a) | cont > *)
  Lemma occ_guard : forall binders (w : cterm -> M cstmt) lty (l : list cbinding),
    (forall cont st s st', w cont st = Ok (s, st') -> cont_cns cont ->
       forall bb, In bb (fvs s) -> In bb l \/ In bb (fvt cont)) ->
    forall cont st s st', guard_capture false binders w lty cont st = Ok (s, st') -> cont_cns cont ->
      forall bb, In bb (fvs s) -> In bb l \/ In bb (fvt cont).
  Proof.
    intros binders w lty l Hw cont st s st' H Hc bb Hb. apply guard_capture_inv in H.
    destruct H as [[_ H]|[_ [ty0 [a [sta [s0 [_ [Ha [_ [H ->]]]]]]]]]]; [eapply Hw; eauto|].
    apply fvs_cut in Hb. destruct Hb as [Hb|Hb]; [|right; exact Hb].
    apply fvt_mu_iff in Hb. destruct Hb as [Hb Hne].
    destruct (Hw _ _ _ _ H I bb Hb) as [Hg|Hg]; [left; exact Hg|]. apply fvt_var in Hg. simpl in Hne. congruence.
  Qed.

  Lemma occ_args : forall args, Forall occc args ->
    forall st l st', subst_with (fun y => cmp' y) args st = Ok (l, st') ->
    forall bb, In bb (fva l) -> In bb (flat_map occ_arg args).
  Proof.
    intros args H. induction H as [|y r Hy Hr IH]; intros st l st' Hs bb Hb.
    - simpl in Hs. apply mret_inv in Hs. destruct Hs; subst. apply fva_nil in Hb. contradiction.
    - apply subst_with_cons_inv in Hs. destruct Hs as [a [st1 [rest [Ha [Hrest Hl]]]]]. subst l.
      apply fva_cons in Hb. cbn [flat_map]. apply in_or_app. destruct Hb as [Hb|Hb].
      + left. apply compile_arg_inv in Ha. destruct Ha as [[v [ty [ty0 [Ey [Ety [Ea Est]]]]]]|[Hn [ty0 [c [Ety [Ec Ea]]]]]].
        * subst. apply fvt_var in Hb. subst bb. simpl. left. reflexivity.
        * subst a. assert (E : occ_arg y = tocc y).
          { unfold occ_arg, occ_arg_with. destruct y; try reflexivity. destruct chi as [[|]|]; try reflexivity. contradiction. }
          rewrite E. eapply Hy; eauto.
      + right. eapply IH; eauto.
  Qed.

  Lemma occ_clauses : forall cont1 cls, Forall (fun c => occw (clause_body c)) cls -> cont_cns cont1 ->
    forall st l st', clauses_with (fun b => wc' b) cont1 cls st = Ok (l, st') ->
    forall bb, In bb (fvc l) -> In bb (flat_map cl_occ cls) \/ In bb (fvt cont1).
  Proof.
    intros cont1 cls H Hc. induction H as [|c r Hy Hr IH]; intros st l st' Hs bb Hb.
    - simpl in Hs. apply mret_inv in Hs. destruct Hs; subst. apply fvc_nil in Hb. contradiction.
    - destruct c as [pl x names ctx body]. apply clauses_with_cons_inv in Hs.
      destruct Hs as [c' [st1 [rest [Ha [Hrest Hl]]]]]. subst l.
      apply compile_clause_inv in Ha. destruct Ha as [body' [Hbody Ec]]. subst c'.
      apply fvc_cons_iff in Hb. cbn [flat_map cl_occ]. rewrite in_app_iff. destruct Hb as [[Hb Hn]|Hb].
      + simpl in Hy. destruct (Hy _ _ _ _ Hbody Hc bb Hb) as [Hg|Hg]; tauto.
      + destruct (IH _ _ _ Hrest bb Hb) as [Hg|Hg]; tauto.
  Qed.

  Lemma occ_coclauses : forall cls, Forall (fun c => occw (clause_body c)) cls ->
    forall st l st', coclauses_with (fun b => wc' b) cls st = Ok (l, st') ->
    forall bb, In bb (fvc l) -> In bb (flat_map cl_occ cls).
  Proof.
    intros cls H. induction H as [|c r Hy Hr IH]; intros st l st' Hs bb Hb.
    - simpl in Hs. apply mret_inv in Hs. destruct Hs; subst. apply fvc_nil in Hb. contradiction.
    - destruct c as [pl x names ctx body]. apply coclauses_with_cons_inv in Hs.
      destruct Hs as [c' [st1 [rest [Ha [Hrest Hl]]]]]. subst l.
      apply compile_coclause_inv in Ha. destruct Ha as [ty0 [a [sta [body' [Ety [Hfr [Hbody Ec]]]]]]]. subst c'.
      apply fvc_cons_iff in Hb. cbn [flat_map cl_occ]. rewrite in_app_iff. destruct Hb as [[Hb Hn]|Hb].
      + simpl in Hy. destruct (Hy _ _ _ _ Hbody I bb Hb) as [Hg|Hg]; [left; exact Hg|].
        apply fvt_var in Hg. exfalso. apply Hn. apply in_or_app. right. left. symmetry. exact Hg.
      + right. eapply IH; eauto.
  Qed.

  Lemma occ_both : forall t, occw t /\ occc t.
  Proof.
    induction t using fterm_ind'.
    - (* FVar *)
      split.
      + intros cont st s st' H Hc bb Hb. rewrite wc_unfold in H. apply wc_var_inv in H.
        destruct H as [ty0 [Ety [Es Est]]]. subst.
        apply fvs_cut in Hb. destruct Hb as [Hb|Hb]; [left | right; exact Hb].
        apply fvt_var in Hb. subst bb. simpl. left. reflexivity.
      + intros ty0' st c st' H bb Hb. rewrite cmp_unfold in H. apply cmp_var_inv in H.
        destruct H as [ty0 [Ety [Es Est]]]. subst.
        apply fvt_var in Hb. subst bb. simpl. left. reflexivity.
    - (* FLit *)
      split.
      + intros cont st s st' H Hc bb Hb. rewrite wc_unfold in H. unfold wc_lit in H.
        apply mret_inv in H. destruct H; subst. apply fvs_cut in Hb. destruct Hb as [Hb|Hb]; [|right; exact Hb].
        apply fvt_lit in Hb. contradiction.
      + intros ty0' st c st' H bb Hb. rewrite cmp_unfold in H. unfold cmp_lit in H.
        apply mret_inv in H. destruct H; subst. apply fvt_lit in Hb. contradiction.
    - (* FOp *)
      destruct IHt1 as [_ C1], IHt2 as [_ C2].
      assert (HC : occc (FOp t1 o t2)).
      { intros ty0' st c st' H bb Hb. rewrite cmp_unfold in H. apply cmp_op_inv in H.
        destruct H as [a [st1 [b [Ha [Hb' Ec]]]]]. subst c.
        apply fvt_op in Hb. cbn [tocc]. rewrite in_app_iff. destruct Hb as [Hb|Hb].
        - left. eapply C1; eauto.
        - right. eapply C2; eauto. }
      split; [|exact HC].
      intros cont st s st' H Hc bb Hb. rewrite wc_unfold in H. unfold wc_op in H.
      minv H. apply mret_inv in H. destruct H; subst. apply fvs_cut in Hb. destruct Hb as [Hb|Hb]; [left | right; exact Hb].
      eapply (HC CI64); [rewrite cmp_unfold; exact E | exact Hb].
    - (* FIfC *)
      destruct IHt1 as [_ C1], IHt2 as [W2 _], IHt3 as [W3 _].
      assert (HW : occw (FIfC s t1 b t2 t3 ty)).
      { intros cont st s0 st' H0 Hc bb Hb. rewrite wc_unfold in H0. apply wc_ifc_inv in H0.
        destruct H0 as [cont1 [st0 [a [sta [b' [stb [t [stt [e [Hsh [Ha [Hbb [Ht [He Er]]]]]]]]]]]]]]. subst s0.
        assert (Hc1 : cont_cns cont1 /\ forall bb, In bb (fvt cont1) -> In bb (fvt cont)).
        { destruct (cont_is_small cont); [destruct Hsh; subst; auto | eapply share_fvt; eauto]. }
        destruct Hc1 as [Hc1 Hsub]. cbn [tocc]. rewrite !in_app_iff.
        apply fvs_ifc in Hb. destruct Hb as [Hb|[Hb|[Hb|Hb]]].
        - left. left. eapply C1; eauto.
        - left. right. left. destruct b as [b0|].
          + destruct Hbb as [b1 [Hb1 Eb]]. subst b'. simpl in H. destruct H as [_ Cb]. eapply Cb; eauto.
          + destruct Hbb as [Eb _]. subst b'. contradiction.
        - destruct (W2 _ _ _ _ Ht Hc1 bb Hb) as [Hg|Hg]; [left; tauto | right; apply Hsub; exact Hg].
        - destruct (W3 _ _ _ _ He Hc1 bb Hb) as [Hg|Hg]; [left; tauto | right; apply Hsub; exact Hg]. }
      split; [exact HW|].
      intros ty0' st c st' H0 bb Hb. rewrite cmp_unfold in H0.
      eapply occ_default; [|exact H0|exact Hb]. intros cont st0 s0 st0' Hs Hc bb0 Hb0.
      eapply HW; eauto; rewrite wc_unfold; exact Hs.
    - (* FPrint *)
      destruct IHt1 as [_ C1], IHt2 as [W2 _].
      assert (HW : occw (FPrint nl t1 t2 ty)).
      { intros cont st s0 st' H0 Hc bb Hb. rewrite wc_unfold in H0. apply wc_print_inv in H0.
        destruct H0 as [a [st1 [next [Ha [Hn Es]]]]]. subst s0. cbn [tocc]. rewrite in_app_iff.
        apply fvs_print in Hb. destruct Hb as [Hb|Hb].
        - left. left. eapply C1; eauto.
        - destruct (W2 _ _ _ _ Hn Hc bb Hb) as [Hg|Hg]; tauto. }
      split; [exact HW|].
      intros ty0' st c st' H0 bb Hb. rewrite cmp_unfold in H0.
      eapply occ_default; [|exact H0|exact Hb]. intros cont st0 s0 st0' Hs Hc bb0 Hb0.
      eapply HW; eauto; rewrite wc_unfold; exact Hs.
    - (* FLet *)
      destruct IHt1 as [W1 C1], IHt2 as [W2 _].
      assert (HW : occw (FLet v vty t1 t2 ty)).
      { intros cont st s0 st' H0 Hc bb Hb. rewrite wc_unfold in H0. revert cont st s0 st' H0 Hc bb Hb. apply occ_guard.
        intros cont st s0 st' H0 Hc bb Hb. cbn [tocc]. rewrite in_app_iff.
        assert (Hbody : forall body st1, wc' t2 cont st = Ok (body, st1) ->
                  forall bb, In bb (fvt (CMu CCns (new_id v) body (compile_ty vty))) ->
                  In bb (tocc t2) \/ In bb (fvt cont)).
        { intros body st1 Hbody bb0 Hg. apply fvt_mu_iff in Hg. destruct Hg as [Hg Hne].
          exact (W2 _ _ _ _ Hbody Hc bb0 Hg). }
        destruct (ty_is_codata codata (compile_ty vty)) eqn:Hcd.
        - apply wc_let_inv_codata in H0; [|exact Hcd]. destruct H0 as [body [st1 [pb [Hbody0 [Hpb Es]]]]]. subst s0.
          apply fvs_cut in Hb. destruct Hb as [Hb|Hb].
          + left. left. eapply C1; eauto.
          + destruct (Hbody _ _ Hbody0 bb Hb); tauto.
        - apply wc_let_inv in H0; [|exact Hcd]. destruct H0 as [body [st1 [Hbody0 Hbound]]].
          destruct (W1 _ _ _ _ Hbound eq_refl bb Hb) as [Hg|Hg].
          + left. left. exact Hg.
          + destruct (Hbody _ _ Hbody0 bb Hg); tauto. }
      split; [exact HW|].
      intros ty0' st c st' H0 bb Hb. rewrite cmp_unfold in H0.
      eapply occ_default; [|exact H0|exact Hb]. intros cont st0 s0 st0' Hs Hc bb0 Hb0.
      eapply HW; eauto; rewrite wc_unfold; exact Hs.
    - (* FCall *)
      assert (HA : Forall occc args). { eapply Forall_impl; [|exact H]. intros a [_ Ca]. exact Ca. }
      assert (HW : occw (FCall f args ret)).
      { intros cont st s0 st' H0 Hc bb Hb. rewrite wc_unfold in H0. apply wc_call_inv in H0.
        destruct H0 as [args' [ret0 [Hargs [Eret Es]]]]. subst s0. cbn [tocc]. fold occ_arg.
        apply fvs_call in Hb. apply fva_app in Hb. destruct Hb as [Hb|Hb].
        - left. eapply (occ_args args HA); eauto.
        - right. apply fva_cons in Hb. destruct Hb as [Hb|Hb]; [exact Hb | apply fva_nil in Hb; contradiction]. }
      split; [exact HW|].
      intros ty0' st c st' H0 bb Hb. rewrite cmp_unfold in H0.
      eapply occ_default; [|exact H0|exact Hb]. intros cont st0 s0 st0' Hs Hc bb0 Hb0.
      eapply HW; eauto; rewrite wc_unfold; exact Hs.
    - (* FCtor *)
      assert (HA : Forall occc args). { eapply Forall_impl; [|exact H]. intros a [_ Ca]. exact Ca. }
      assert (HC : occc (FCtor x args ty)).
      { intros ty0' st c st' H0 bb Hb. rewrite cmp_unfold in H0. apply cmp_ctor_inv in H0.
        destruct H0 as [args' [ty0 [Hargs [Ety Ec]]]]. subst c. cbn [tocc]. fold occ_arg.
        apply fvt_xtor in Hb. eapply (occ_args args HA); eauto. }
      split; [|exact HC].
      intros cont st s0 st' H0 Hc bb Hb. rewrite wc_unfold in H0. unfold wc_ctor in H0.
      minv H0. apply mlift_inv in E. destruct E as [E ->]. minv H0. apply mret_inv in H0. destruct H0; subst.
      apply fvs_cut in Hb. destruct Hb as [Hb|Hb]; [left | right; exact Hb].
      eapply (HC CI64); [rewrite cmp_unfold; exact E0 | exact Hb].
    - (* FDtor *)
      destruct IHt as [Ws _].
      assert (HA : Forall occc args). { eapply Forall_impl; [|exact H]. intros a [_ Ca]. exact Ca. }
      assert (HW : occw (FDtor t x targs args ty)).
      { intros cont st s0 st' H0 Hc bb Hb. rewrite wc_unfold in H0. apply wc_dtor_inv in H0.
        destruct H0 as [args' [st1 [sty0 [Hargs [Esty Hscrut]]]]]. cbn [tocc]. fold occ_arg. rewrite in_app_iff.
        destruct (Ws _ _ _ _ Hscrut I bb Hb) as [Hg|Hg].
        - left. left. exact Hg.
        - apply fvt_xtor in Hg. apply fva_app in Hg. destruct Hg as [Hg|Hg].
          + left. right. eapply (occ_args args HA); eauto.
          + right. apply fva_cons in Hg. destruct Hg as [Hg|Hg]; [exact Hg | apply fva_nil in Hg; contradiction]. }
      split; [exact HW|].
      intros ty0' st c st' H0 bb Hb. rewrite cmp_unfold in H0.
      eapply occ_default; [|exact H0|exact Hb]. intros cont st0 s0 st0' Hs Hc bb0 Hb0.
      eapply HW; eauto; rewrite wc_unfold; exact Hs.
    - (* FCase *)
      destruct IHt as [Ws _].
      assert (HB : Forall (fun c => occw (clause_body c)) cls).
      { eapply Forall_impl; [|exact H]. intros a [Wa _]. exact Wa. }
      assert (HW : occw (FCase t targs cls ty)).
      { intros cont st s0 st' H0 Hc bb Hb. rewrite wc_unfold in H0. revert cont st s0 st' H0 Hc bb Hb. apply occ_guard.
        intros cont st s0 st' H0 Hc bb Hb. apply wc_case_inv in H0.
        destruct H0 as [cont1 [st0 [cls' [st1 [sty0 [Hsh [Hcls [Esty Hscrut]]]]]]]].
        assert (Hc1 : cont_cns cont1 /\ forall bb, In bb (fvt cont1) -> In bb (fvt cont)).
        { destruct (Nat.leb (List.length cls) 1 || cont_is_small cont);
            [destruct Hsh; subst; auto | eapply share_fvt; eauto]. }
        destruct Hc1 as [Hc1 Hsub]. cbn [tocc]. rewrite in_app_iff.
        destruct (Ws _ _ _ _ Hscrut I bb Hb) as [Hg|Hg].
        - left. left. exact Hg.
        - apply fvt_xcase in Hg.
          destruct (occ_clauses cont1 cls HB Hc1 _ _ _ Hcls bb Hg) as [Hg2|Hg2]; [left; right; exact Hg2 | right; apply Hsub; exact Hg2]. }
      split; [exact HW|].
      intros ty0' st c st' H0 bb Hb. rewrite cmp_unfold in H0.
      eapply occ_default; [|exact H0|exact Hb]. intros cont st0 s0 st0' Hs Hc bb0 Hb0.
      eapply HW; eauto; rewrite wc_unfold; exact Hs.
    - (* FNew *)
      assert (HB : Forall (fun c => occw (clause_body c)) cls).
      { eapply Forall_impl; [|exact H]. intros a [Wa _]. exact Wa. }
      assert (HC : occc (FNew cls ty)).
      { intros ty0' st c st' H0 bb Hb. rewrite cmp_unfold in H0. apply cmp_new_inv in H0.
        destruct H0 as [cls' [ty0 [Hcls [Ety Ec]]]]. subst c. cbn [tocc].
        apply fvt_xcase in Hb. eapply (occ_coclauses cls HB); eauto. }
      split; [|exact HC].
      intros cont st s0 st' H0 Hc bb Hb. rewrite wc_unfold in H0. unfold wc_new in H0.
      minv H0. apply mlift_inv in E. destruct E as [E ->]. minv H0. apply mret_inv in H0. destruct H0; subst.
      apply fvs_cut in Hb. destruct Hb as [Hb|Hb]; [left | right; exact Hb].
      eapply (HC CI64); [rewrite cmp_unfold; exact E0 | exact Hb].
    - (* FLabel *)
      destruct IHt as [W _].
      assert (HC : occc (FLabel l t ty)).
      { intros ty0' st c st' H0 bb Hb. rewrite cmp_unfold in H0. apply cmp_label_inv in H0.
        destruct H0 as [ty0 [s0 [Ety [Hs Ec]]]]. subst c ty. cbn [tocc].
        apply fvt_mu_iff in Hb. destruct Hb as [Hb Hne]. simpl in Hne.
        destruct (W _ _ _ _ Hs I bb Hb) as [Hg|Hg]; [exact Hg|].
        apply fvt_var in Hg. congruence. }
      split; [|exact HC].
      intros cont st s0 st' H0 Hc bb Hb. rewrite wc_unfold in H0. unfold wc_label in H0.
      minv H0. apply mlift_inv in E. destruct E as [E ->]. minv H0. apply mret_inv in H0. destruct H0; subst.
      apply fvs_cut in Hb. destruct Hb as [Hb|Hb]; [left | right; exact Hb].
      eapply (HC CI64); [rewrite cmp_unfold; exact E0 | exact Hb].
    - (* FGoto *)
      destruct IHt as [W _].
      assert (HW : occw (FGoto l t ty)).
      { intros cont st s0 st' H0 Hc bb Hb. rewrite wc_unfold in H0. apply wc_goto_inv in H0.
        destruct H0 as [ty0 [Ety Hs]]. left. cbn [tocc]. rewrite in_app_iff.
        destruct (W _ _ _ _ Hs I bb Hb) as [Hg|Hg]; [right; exact Hg|].
        apply fvt_var in Hg. subst bb. left. rewrite Ety. simpl. left. reflexivity. }
      split; [exact HW|].
      intros ty0' st c st' H0 bb Hb. rewrite cmp_unfold in H0.
      eapply (occ_default (fun _ => wc_goto false l (wc' t) ty (fterm_type t))); [|exact H0|exact Hb].
      intros cont st0 s0 st0' Hs Hc bb0 Hb0.
      eapply (HW cont); eauto; rewrite wc_unfold; exact Hs.
    - (* FExit *)
      destruct IHt as [_ C].
      assert (HW : occw (FExit t ty)).
      { intros cont st s0 st' H0 Hc bb Hb. rewrite wc_unfold in H0. apply wc_exit_inv in H0.
        destruct H0 as [a [ty0 [Ha [Ety Es]]]]. subst s0. left. cbn [tocc].
        apply fvs_exit in Hb. eapply C; eauto. }
      split; [exact HW|].
      intros ty0' st c st' H0 bb Hb. rewrite cmp_unfold in H0.
      eapply (occ_default (fun _ => wc_exit (cmp' t CI64) ty)); [|exact H0|exact Hb].
      intros cont st0 s0 st0' Hs Hc bb0 Hb0.
      eapply (HW cont); eauto; rewrite wc_unfold; exact Hs.
    - (* FParen *)
      destruct IHt as [W C]. split.
      + intros cont st s0 st' H0 Hc bb Hb. rewrite wc_unfold in H0. eapply W; eauto.
      + intros ty0' st c st' H0 bb Hb. rewrite cmp_unfold in H0. eapply C; eauto.
  Qed.

  Definition occ_wc (t : fterm) := proj1 (occ_both t).
  Definition occ_cmp (t : fterm) := proj2 (occ_both t).
End FV.
