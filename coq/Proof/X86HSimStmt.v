(* C06, forward simulation for HEAP statements, part 2: the statements that do not touch the heap
   (Literal, Op, IfC, Exit, PrintI64, Call) under the relation `hrel` of Proof/X86HSimRel.v.  The proofs are
   those of Proof/X86SimStmt.v / X86SimPrint.v (the selection lemmas, `print_core`, nothing re-proved); the heap
   and the allocator registers are untouched, every live location of every other variable is preserved. *)
From Coq Require Import List ZArith NArith String Bool Lia FMapPositive.
From SCC Require Import Proof.X86Mem Proof.X86MemFrame.
From SCC Require Import Base.Sexp Lang.AxSyn Sem.AxSem Sem.AxHeap Model.ParMoves Model.Backend Model.X86 Sem.X86Sem Sem.X86Wf
     Model.Linearize Model.LinCheck Generated.Constants Proof.LinBasics Proof.X86State Proof.X86Sel Proof.X86Exec Proof.X86ParMoves
     Proof.SubstGraph Proof.X86Subst Proof.X86SimRel Proof.X86SimStmt Proof.X86SimPrint Proof.X86HeapDefs Proof.X86HSimRel.
From SCC Require Model.Heap.
Import ListNotations.
Open Scope Z_scope.
Open Scope list_scope.

Section HSim.
Variable im : image.
Variable types : list tydecl.
Variable CLO : Z -> ident -> list clause -> ctx -> Prop.
Local Notation hrel := (hrel types CLO).

(* ---------- Literal ---------- *)
Theorem hsim_literal c he hs s sp n v tv :
  hrel c he hs s sp -> NoDup (ids (c ++ [mkb v Ext I64])) ->
  xvt (c ++ [mkb v Ext I64]) (idn v) = Ok tv ->
  exists s', exec_straight im (x_load_immediate tv n) s = Some s' /\
             hrel (c ++ [mkb v Ext I64]) (he ++ [(v, VInt n, 0)]) hs s' sp /\ frame_eq s s' sp.
Proof.
  intros R ND TV. apply (vt_fresh c v tv ND) in TV.
  destruct (xtpos_ok _ _ _ TV) as (L & NT & _).
  destruct (x86_load_immediate_ok im s sp tv n (hr_frame R) L NT) as (s' & E & V & P).
  exists s'. split; [exact E|]. split; [eapply hrel_push; eauto|].
  eapply exec_straight_local; eauto using hr_frame. apply local_load_immediate, loc_ok_lok, L.
Qed.

(* ---------- Op ---------- *)
Lemma hop_temps c he hs s sp a b v x y tv ta tb :
  hrel c he hs s sp -> NoDup (ids (c ++ [mkb v Ext I64])) ->
  lookup_int (erase_env he) a = Some x -> lookup_int (erase_env he) b = Some y ->
  xvt (c ++ [mkb v Ext I64]) (idn v) = Ok tv ->
  xvt (c ++ [mkb v Ext I64]) (idn a) = Ok ta -> xvt (c ++ [mkb v Ext I64]) (idn b) = Ok tb ->
  xtpos Snd (List.length c) = Ok tv /\ div_pre tv ta tb /\ lget s sp ta = Some x /\ lget s sp tb = Some y.
Proof.
  intros R ND LA LB TV TA TB. apply (vt_fresh c v tv ND) in TV.
  destruct (hrel_lookup types CLO c he hs s sp a x R LA) as (i & bi & ti & Hi & Ei & Ti & Vi).
  destruct (hrel_lookup types CLO c he hs s sp b y R LB) as (j & bj & tj & Hj & Ej & Tj & Vj).
  rewrite <- Ei, (vt_of_nth c _ i bi ND Hi), Ti in TA. inversion TA; subst ti.
  rewrite <- Ej, (vt_of_nth c _ j bj ND Hj), Tj in TB. inversion TB; subst tj.
  assert (Li : (i < List.length c)%nat) by (apply nth_error_Some; congruence).
  assert (Lj : (j < List.length c)%nat) by (apply nth_error_Some; congruence).
  destruct (xtpos_ok _ _ _ TV) as (L0 & N0 & _). destruct (xtpos_ok _ _ _ Ti) as (L1 & N1 & _).
  destruct (xtpos_ok _ _ _ Tj) as (L2 & N2 & _).
  split; [exact TV|]. split; [|auto].
  unfold div_pre. repeat split; auto.
  - eapply xtpos_snd_not_rax; eauto.
  - intros E. pose proof (xtpos_snd_rdx _ _ TV E). lia.
  - intros E; subst. destruct (SubstGraph.tpos_inj x86_backend x86_backend_ok _ _ _ _ _ TV Ti). lia.
  - intros E; subst. destruct (SubstGraph.tpos_inj x86_backend x86_backend_ok _ _ _ _ _ TV Tj). lia.
  - eapply xtpos_snd_not_rax; eauto.
  - eapply xtpos_snd_not_rax; eauto.
Qed.

Theorem hsim_op c he hs s sp a o b v x y z tv ta tb :
  hrel c he hs s sp -> NoDup (ids (c ++ [mkb v Ext I64])) ->
  lookup_int (erase_env he) a = Some x -> lookup_int (erase_env he) b = Some y -> eval_op o x y = OpVal z ->
  xvt (c ++ [mkb v Ext I64]) (idn v) = Ok tv ->
  xvt (c ++ [mkb v Ext I64]) (idn a) = Ok ta -> xvt (c ++ [mkb v Ext I64]) (idn b) = Ok tb ->
  exists s', exec_straight im (x_arith o tv ta tb) s = Some s' /\
             hrel (c ++ [mkb v Ext I64]) (he ++ [(v, VInt z, 0)]) hs s' sp /\ frame_eq s s' sp.
Proof.
  intros R ND LA LB EV TV TA TB.
  destruct (hop_temps c he hs s sp a b v x y tv ta tb R ND LA LB TV TA TB) as (TV' & PRE & VA & VB).
  destruct (x86_arith_ok im o s sp tv ta tb x y z (hr_frame R) PRE VA VB EV) as (s' & E & V & P).
  exists s'. split; [exact E|]. split; [eapply hrel_push; eauto|].
  eapply exec_straight_local; eauto using hr_frame. apply local_x_arith, loc_ok_lok, PRE.
Qed.

Theorem hsim_op_undef c he hs s sp a o b v x y w tv ta tb :
  hrel c he hs s sp -> NoDup (ids (c ++ [mkb v Ext I64])) ->
  lookup_int (erase_env he) a = Some x -> lookup_int (erase_env he) b = Some y -> eval_op o x y = OpUndef w ->
  xvt (c ++ [mkb v Ext I64]) (idn v) = Ok tv ->
  xvt (c ++ [mkb v Ext I64]) (idn a) = Ok ta -> xvt (c ++ [mkb v Ext I64]) (idn b) = Ok tb ->
  exists s', exec_undef im (x_arith o tv ta tb) s = Some (w, s') /\ out s' = out s.
Proof.
  intros R ND LA LB EV TV TA TB.
  destruct (hop_temps c he hs s sp a b v x y tv ta tb R ND LA LB TV TA TB) as (TV' & PRE & VA & VB).
  destruct o; cbn [eval_op x_arith] in *; try discriminate.
  - apply (div_rem_undef im false s sp tv ta tb x y w (hr_frame R) PRE VA VB).
    destruct (y =? 0); [exact EV|]. destruct ((x =? min_int) && (y =? -1)); [exact EV|discriminate].
  - apply (div_rem_undef im true s sp tv ta tb x y w (hr_frame R) PRE VA VB).
    destruct (y =? 0); [exact EV|]. destruct ((x =? min_int) && (y =? -1)); [exact EV|discriminate].
Qed.

(* ---------- IfC ---------- *)
Theorem hsim_compare2 c he hs s sp a b x y ta tb :
  hrel c he hs s sp -> lookup_int (erase_env he) a = Some x -> lookup_int (erase_env he) b = Some y ->
  xvt c (idn a) = Ok ta -> xvt c (idn b) = Ok tb ->
  exists s', exec_straight im (compare ta tb) s = Some s' /\ flags s' = Some (x, y) /\
             hrel c he hs s' sp /\ frame_eq s s' sp.
Proof.
  intros R LA LB TA TB.
  destruct (hrel_lookup types CLO c he hs s sp a x R LA) as (i & bi & ti & Hi & Ei & Ti & Vi).
  destruct (hrel_lookup types CLO c he hs s sp b y R LB) as (j & bj & tj & Hj & Ej & Tj & Vj).
  rewrite <- Ei, (vt_of_nth0 c i bi (hr_nodup R) Hi), Ti in TA. inversion TA; subst ti.
  rewrite <- Ej, (vt_of_nth0 c j bj (hr_nodup R) Hj), Tj in TB. inversion TB; subst tj.
  destruct (xtpos_ok _ _ _ Ti) as (L1 & N1 & _). destruct (xtpos_ok _ _ _ Tj) as (L2 & N2 & _).
  destruct (x86_compare_ok im s sp ta tb x y (hr_frame R) L1 L2 N1 N2 Vi Vj) as (s' & E & FL & K & HE & _ & F').
  assert (FE : frame_eq s s' sp) by (eapply exec_straight_local; eauto using hr_frame; apply local_compare).
  exists s'. split; [exact E|]. split; [exact FL|]. split; [|exact FE].
  apply (hrel_keep types CLO c he hs s s' sp R F').
  - apply FE.
  - apply (K (XR HEAP)); [cbn; discriminate|discriminate].
  - apply (K (XR FREE)); [cbn; discriminate|discriminate].
  - intros k b0 n t _ _ Hk. destruct (xtpos_ok _ _ _ Hk) as (A & B & _). now apply K.
Qed.
Theorem hsim_compare1 c he hs s sp a x ta :
  hrel c he hs s sp -> lookup_int (erase_env he) a = Some x -> xvt c (idn a) = Ok ta ->
  exists s', exec_straight im (compare_immediate ta 0) s = Some s' /\ flags s' = Some (x, 0) /\
             hrel c he hs s' sp /\ frame_eq s s' sp.
Proof.
  intros R LA TA.
  destruct (hrel_lookup types CLO c he hs s sp a x R LA) as (i & bi & ti & Hi & Ei & Ti & Vi).
  rewrite <- Ei, (vt_of_nth0 c i bi (hr_nodup R) Hi), Ti in TA. inversion TA; subst ti.
  destruct (xtpos_ok _ _ _ Ti) as (L1 & N1 & _).
  exists (set_flags s (Some (x, 0))). split; [apply (x86_compare_zero_ok im s sp ta x (hr_frame R) L1 Vi)|].
  split; [reflexivity|]. split; [|apply frame_eq_set_flags].
  apply (hrel_keep types CLO c he hs s _ sp R); [apply frame_ok_set_flags, (hr_frame R)|reflexivity|reflexivity|reflexivity|].
  intros k b0 n t _ _ _. apply lget_set_flags.
Qed.

Theorem hsim_ifc c he hs s sp so a b x y thenc elsec lc code lc' pc :
  hrel c he hs s sp -> lookup_int (erase_env he) a = Some x ->
  match b with Some b => lookup_int (erase_env he) b | None => Some 0 end = Some y ->
  xcs types (IfC so a b thenc elsec) c lc = Ok (code, lc') ->
  code_at im pc code -> labels_at_nh im pc code ->
  exists c1 c2 lc2 c3 s',
    code = c1 ++ c2 ++ [LAB (iflabel lc)] ++ c3 /\
    xcs types elsec c (lc + 1)%N = Ok (c2, lc2) /\ xcs types thenc c lc2 = Ok (c3, lc') /\
    exec_to im pc s (if eval_cmp so x y then padd pc (List.length c1 + List.length c2 + 1)
                     else padd pc (List.length c1)) s' /\
    hrel c he hs s' sp /\ frame_eq s s' sp.
Proof.
  intros R LA LB CS CA LBL.
  destruct (cs_ifc _ _ _ _ _ _ _ _ _ _ CS) as (ta & c1 & c2 & lc2 & c3 & TA & C1 & EL & TH & ->).
  exists c1, c2, lc2, c3.
  assert (PRE : exists pre s1, c1 = pre ++ [jcc so (iflabel lc)] /\ exec_straight im pre s = Some s1 /\
                               flags s1 = Some (x, y) /\ hrel c he hs s1 sp /\ frame_eq s s1 sp).
  { destruct b as [b|].
    - destruct C1 as (tb & TB & ->).
      destruct (hsim_compare2 c he hs s sp a b x y ta tb R LA LB TA TB) as (s1 & E & FL & R1 & FE). eauto 8.
    - inversion LB; subst y. destruct (hsim_compare1 c he hs s sp a x ta R LA TA) as (s1 & E & FL & R1 & FE). eauto 8. }
  destruct PRE as (pre & s1 & -> & E & FL & R1 & FE).
  pose proof CA as CA'. rewrite <- app_assoc in CA'. apply code_at_app in CA' as [CApre CArest].
  pose proof (exec_straight_exec_to im pre pc s s1 CApre E) as X1.
  assert (CJ : PM.find (padd pc (List.length pre)) (code im) = Some (jcc so (iflabel lc))).
  { cbn [app] in CArest. apply code_at_cons in CArest as [C0 _]. exact C0. }
  assert (LL : nth_error ((pre ++ [jcc so (iflabel lc)]) ++ c2 ++ [LAB (iflabel lc)] ++ c3)
                         (List.length (pre ++ [jcc so (iflabel lc)]) + List.length c2) = Some (LAB (iflabel lc))).
  { rewrite nth_error_app2 by lia. rewrite nth_error_app2 by lia.
    replace (_ + _ - _ - _)%nat with O by lia. reflexivity. }
  exists s1. split; [reflexivity|]. split; [exact EL|]. split; [exact TH|]. split; [|split; [exact R1|exact FE]].
  pose proof (x86_jcc_step im so (iflabel lc) s1 x y FL) as ST.
  rewrite app_length. cbn [List.length].
  destruct (eval_cmp so x y).
  - rewrite (goto_label_at im pc _ _ _ s1 LBL LL eq_refl) in ST.
    eapply exec_to_trans; [exact X1|].
    eapply exec_jump; [exact CJ|exact ST|].
    eapply exec_next; [apply (code_at_nth im pc _ _ _ CA LL)|reflexivity|].
    rewrite <- padd_succ. rewrite app_length. cbn [List.length].
    replace (S (List.length pre + 1 + List.length c2)) with (List.length pre + 1 + List.length c2 + 1)%nat by lia.
    apply exec_refl.
  - eapply exec_to_trans; [exact X1|].
    eapply exec_next; [exact CJ|exact ST|]. rewrite <- padd_succ.
    replace (S (List.length pre)) with (List.length pre + 1)%nat by lia. apply exec_refl.
Qed.

(* ---------- Exit ---------- *)
Theorem hsim_exit_mov c he hs s sp v z tv :
  hrel c he hs s sp -> lookup_int (erase_env he) v = Some z -> xvt c (idn v) = Ok tv ->
  exists s', exec_straight im (x_mov (XR RETURN1) tv) s = Some s' /\ rget s' RETURN1 = Some z /\
             frame_ok s' sp /\ frame_eq s s' sp.
Proof.
  intros R LV TV.
  destruct (hrel_lookup types CLO c he hs s sp v z R LV) as (i & bi & ti & Hi & Ei & Ti & Vi).
  rewrite <- Ei, (vt_of_nth0 c i bi (hr_nodup R) Hi), Ti in TV. inversion TV; subst ti.
  destruct (xtpos_ok _ _ _ Ti) as (L1 & N1 & _).
  destruct (x86_mov_ok im s sp (XR RETURN1) tv (hr_frame R)) as (s' & E & V & P); auto; try (cbn; discriminate).
  exists s'. split; [exact E|]. split; [cbn [lget] in V; congruence|].
  eapply exec_straight_local; eauto using hr_frame. apply local_x_mov. reflexivity.
Qed.

(* ---------- PrintI64 ---------- *)
Theorem hsim_print c he hs s sp nl v z tv :
  hrel c he hs s sp -> lookup_int (erase_env he) v = Some z -> xvt c (idn v) = Ok tv ->
  exists s', exec_straight im (x_print nl tv c) s = Some s' /\
    hrel c he hs s' sp /\ out s' = (nl, z) :: out s /\ above_eq s s' sp.
Proof.
  intros R LV TV.
  destruct (hrel_lookup types CLO c he hs s sp v z R LV) as (i & bi & ti & Hi & Ei & Ti & Vi).
  rewrite <- Ei, (vt_of_nth0 c i bi (hr_nodup R) Hi), Ti in TV. inversion TV; subst ti.
  assert (Li : (i < List.length c)%nat) by (apply nth_error_Some; congruence).
  pose proof (hr_frame R) as F.
  pose proof (csri_regs_ok c) as RO. pose proof (csri_shape c) as SH.
  destruct (caller_save_registers_info c) as [fb regs] eqn:CS. cbn [snd] in RO.
  assert (FB : fb = N.max (2 * N.of_nat (List.length c) + 4) 12) by congruence. clear SH.
  assert (FB12 : (12 <= fb)%N) by (rewrite FB; lia).
  assert (FBn : (2 * N.of_nat (List.length c) + 4 <= fb)%N) by (rewrite FB; lia).
  destruct RO as [RNG NDr RSND RFST].
  assert (CORE : forall s0 rs, frame_ok s0 sp -> rget s0 rs = Some z -> rs <> 0%N -> (rs < fb)%N ->
            (forall r, r <> 1%N -> rget s0 r = rget s r) -> (forall a, kget s0 a = kget s a) ->
            out s0 = out s -> heap s0 = heap s ->
            exists s', exec_straight im (save_caller_save_registers fb regs ++ [MOV (arg 0) rs] ++ [CALL (print_name nl)]
                               ++ restore_caller_save_registers fb regs) s0 = Some s' /\
              hrel c he hs s' sp /\ out s' = (nl, z) :: out s /\ above_eq s s' sp).
  { intros s0 rs F0 RS NZ LT RGs KG OU HE.
    destruct (print_core im fb regs s0 sp nl z rs FB12 RNG NDr F0 (hr_align R) (hr_room R) RS NZ LT)
      as (s' & E & SP' & RG' & CSV & KG' & OU' & HE').
    exists s'. split; [exact E|].
    assert (F' : frame_ok s' sp) by (split; [exact SP'|apply F]).
    split; [|split; [congruence|split; [congruence|intros a Ha; rewrite KG' by exact Ha; apply KG]]].
    apply (hrel_keep types CLO c he hs s s' sp R F').
    - congruence.
    - rewrite CSV; [apply RGs; discriminate|discriminate|reflexivity|change HEAP with 2%N; lia].
    - rewrite CSV; [apply RGs; discriminate|discriminate|reflexivity|change FREE with 3%N; lia].
    - intros j b n t Hj AL Tj.
      assert (Lj : (j < List.length c)%nat) by (apply nth_error_Some; congruence).
      destruct (xtpos_shape n j t Tj) as [(J & ->)|(J & p & -> & P)]; cbn [lget].
      + assert (TN : (tnum_n n <= 1)%N) by (destruct n; cbn; lia).
        destruct (Nat.lt_ge_cases j 4) as [J4|J4].
        * rewrite RG'; [apply RGs; lia|].
          destruct n; cbn [tnum_n].
          -- replace (4 + 2 * N.of_nat j + 0)%N with (4 + 2 * N.of_nat j)%N by lia. apply (RFST j b Hj J4).
             destruct AL as [AL|AL]; [discriminate|exact AL].
          -- replace (4 + 2 * N.of_nat j + 1)%N with (5 + 2 * N.of_nat j)%N by lia. apply (RSND j b Hj J4).
        * rewrite CSV; [apply RGs; lia|lia|apply caller_saved_high; lia|lia].
      + rewrite !sget_kget. destruct (slot_addr_facts sp p (proj2 F) P) as (_ & _ & _ & GE & _).
        rewrite KG' by exact GE. apply KG. }
  unfold x_print. rewrite CS.
  change (if nl then "println_i64" else "print_i64")%string with (print_name nl).
  destruct (xtpos_shape Snd i tv Ti) as [(J & ->)|(J & p & -> & P)]; cbn [lget tnum_n] in Vi.
  - cbn [app]. cbn [tnum_n]. apply (CORE s); auto; lia.
  - cbn [move_to_register]. rewrite exec_straight_app. cbn [exec_straight].
    rewrite (step_MOVL_slot im s sp F) by exact P. rewrite Vi.
    apply (CORE (rset s TEMP (Some z)) TEMP); auto.
    + apply frame_ok_rset; [discriminate|exact F].
    + apply rget_rset_same.
    + discriminate.
    + change TEMP with 1%N. lia.
    + intros r Hr. apply rget_rset_other. change TEMP with 1%N. congruence.
Qed.
End HSim.

(* ---------- Call: relabelling by a context of the same kinds ---------- *)
Lemma attach_nth : forall (e : env) (ps : list Z) i x v q,
  nth_error (attach e ps) i = Some (x, v, q) -> nth_error e i = Some (x, v) /\ q = nth i ps 0.
Proof.
  induction e as [|xv e IH]; intros ps i x v q H; [destruct i; discriminate|].
  destruct ps as [|p ps]; destruct i as [|i]; cbn [attach nth_error nth] in *.
  - inversion H; subst. auto.
  - destruct (IH [] i x v q H) as [A B]. split; [exact A|]. rewrite B. destruct i; reflexivity.
  - inversion H; subst. auto.
  - exact (IH ps i x v q H).
Qed.
Lemma attach_erase : forall (e : env) ps, erase_env (attach e ps) = e.
Proof.
  induction e as [|xv e IH]; intros ps; [reflexivity|]. destruct ps as [|p ps]; cbn [attach erase_env map fst]; f_equal; apply IH.
Qed.
Lemma ptrs_nth (he : henv) i x v q : nth_error he i = Some (x, v, q) -> nth i (ptrs he) 0 = q.
Proof.
  revert i. induction he as [|en he IH]; intros [|i] H; cbn in *; try discriminate; [inversion H; reflexivity|auto].
Qed.

Lemma nth_error_erase : forall (he : henv) i y v, nth_error (erase_env he) i = Some (y, v) -> exists q, nth_error he i = Some (y, v, q).
Proof.
  induction he as [|[[y0 v0] q0] he IH]; intros [|i] y v H; cbn in *; try discriminate.
  - inversion H; subst. eauto.
  - eauto.
Qed.

Lemma hbind_rel types CLO c he hs st sp (c' : ctx) e' :
  hrel types CLO c he hs st sp -> NoDup (ids c') -> sig_match c c' = true ->
  bind (vars c') (map snd (erase_env he)) = Some e' -> hrel types CLO c' (attach e' (ptrs he)) hs st sp.
Proof.
  intros R ND SM BD. pose proof (hrel_length R) as LE. destruct R as [F Al Ro Hr Fr HQ Ids ND0 Vals]. split; auto.
  - rewrite attach_erase. unfold env_ids. rewrite <- (map_map fst idn), (bind_ids _ _ _ BD). unfold vars, ids. now rewrite map_map.
  - intros i x v q Hi. destruct (attach_nth _ _ _ _ _ _ Hi) as [He' Eq].
    destruct (bind_nth _ _ _ _ _ _ BD He') as (_ & Hv).
    rewrite nth_error_map in Hv. destruct (nth_error (erase_env he) i) as [[y w]|] eqn:He; [|discriminate]. cbn in Hv. inversion Hv; subst w.
    destruct (nth_error_erase he i y v He) as (q0 & Hh).
    destruct (Vals i y v q0 Hh) as (b & Hb & V). destruct (sig_match_nth c c' i b SM Hb) as (b' & Hb' & K & T).
    exists b'. split; [exact Hb'|]. rewrite Eq, (ptrs_nth he i y v q0 Hh).
    apply (hvrep_kind types CLO st sp i b b' v q0); [congruence|congruence|exact V].
Qed.
