(* C15, symbol-table construction: after a successful build_symbol_table the four template tables
   are exactly the declaration lists of the program (in order, without duplicate keys), so a lookup
   in a table is the corresponding lookup of the declarative specification (find_type, find_xtor,
   find_def); and the uniqueness conditions [names_ok] and the type-parameter conditions of
   [tdecl_ok] hold.  Nothing here assumes the monomorphic fragment. *)
From Coq Require Import List ZArith String Bool Permutation Lia.
From SCC Require Import Base.Sexp Lang.SynUtil Lang.FunSyn Model.Check Sem.FunTyping Proof.CheckAnn Proof.TypingReject.
Import ListNotations.
Open Scope list_scope.

(* ---------- association lists ---------- *)
Lemma aget_app : forall {V} (a b : amap V) k,
  aget (a ++ b) k = match aget a k with Some v => Some v | None => aget b k end.
Proof.
  induction a as [|[k' v] r IH]; intros b k; simpl; [reflexivity|].
  destruct (String.eqb k' k); [reflexivity|apply IH].
Qed.
Lemma aget_In : forall {V} (m : amap V) k v, aget m k = Some v -> In (k, v) m.
Proof.
  induction m as [|[k' v'] r IH]; simpl; intros k v H; [discriminate|].
  destruct (String.eqb k' k) eqn:E.
  - apply String.eqb_eq in E. inversion H; subst. left; reflexivity.
  - right. auto.
Qed.
Lemma aget_none_notin : forall {V} (m : amap V) k, aget m k = None -> ~ In k (map fst m).
Proof.
  induction m as [|[k' v'] r IH]; simpl; intros k H; [tauto|].
  destruct (String.eqb k' k) eqn:E; [discriminate|].
  apply String.eqb_neq in E. intros [Hk|Hk]; [congruence|]. eapply IH; eauto.
Qed.
Lemma ainsert_fresh : forall {V} (m : amap V) k v, aget m k = None -> ainsert m k v = m ++ [(k, v)].
Proof.
  induction m as [|[k' v'] r IH]; simpl; intros k v H; [reflexivity|].
  destruct (String.eqb k' k); [discriminate|]. rewrite IH by assumption. reflexivity.
Qed.
Lemma aget_ainsert : forall {V} (m : amap V) k v k',
  aget (ainsert m k v) k' = if String.eqb k k' then Some v else aget m k'.
Proof.
  induction m as [|[k0 v0] r IH]; simpl; intros k v k'.
  - destruct (String.eqb k k'); reflexivity.
  - destruct (String.eqb k0 k) eqn:E0; simpl.
    + apply String.eqb_eq in E0. subst k0. destruct (String.eqb k k'); reflexivity.
    + destruct (String.eqb k0 k') eqn:E1.
      * apply String.eqb_eq in E1. subst k0. rewrite String.eqb_sym in E0. rewrite E0. reflexivity.
      * apply IH.
Qed.
Lemma ahas_false : forall {V} (m : amap V) k, ahas m k = false -> aget m k = None.
Proof. intros V m k H. unfold ahas in H. destruct (aget m k); [discriminate|reflexivity]. Qed.
Lemma ahas_true : forall {V} (m : amap V) k, ahas m k = true -> exists v, aget m k = Some v.
Proof. intros V m k H. unfold ahas in H. destruct (aget m k); [eauto|discriminate]. Qed.

Lemma aget_map_find : forall {X V} (key : X -> fname) (val : X -> V) (l : list X) k,
  aget (map (fun x => (key x, val x)) l) k = option_map val (find (fun x => String.eqb (key x) k) l).
Proof.
  induction l as [|x r IH]; intros k; simpl; [reflexivity|].
  destruct (String.eqb (key x) k); [reflexivity|apply IH].
Qed.

(* ---------- boolean / propositional no-duplicates ---------- *)
Lemma NoDup_nodup : forall l, NoDup l -> nodup l = true.
Proof.
  induction 1 as [|x l Hn _ IH]; simpl; [reflexivity|].
  rewrite IH, andb_true_r. destruct (mem x l) eqn:E; [|reflexivity].
  apply (mem_In) in E. contradiction.
Qed.

Lemma NoDup_app_snoc : forall {X} (l : list X) x, NoDup l -> ~ In x l -> NoDup (l ++ [x]).
Proof.
  intros X l x Hn Hx. apply NoDup_rev in Hn. rewrite <- (rev_involutive (l ++ [x])).
  apply NoDup_rev. rewrite rev_app_distr. simpl. constructor; [|assumption].
  intro H. apply Hx. apply in_rev. assumption.
Qed.

(* ---------- the table entries a declaration contributes ---------- *)
Definition tt_of_decl (d : fdecl) : amap (fpol * fnamectx * list fname) :=
  match d with
  | FDData d => [(fdaname d, (FData, fdaparams d, map fctname (fdactors d)))]
  | FDCodata d => [(fcoaname d, (FCodata, fcoparams d, map fdtname (fcodtors d)))]
  | FDDef _ => []
  end.
Definition ct_of_decl (d : fdecl) : amap fctx :=
  match d with FDData d => map (fun c => (fctname c, fctargs c)) (fdactors d) | _ => [] end.
Definition dt_of_decl (d : fdecl) : amap (fctx * fty) :=
  match d with FDCodata d => map (fun c => (fdtname c, (fdtargs c, fdtcont c))) (fcodtors d) | _ => [] end.
Definition df_of_decl (d : fdecl) : amap (fctx * fty) :=
  match d with FDDef d => [(fdname d, (fdctx d, fdret d))] | _ => [] end.

Lemma build_ctors_spec : forall cs st st',
  build_ctors cs st = COk st' ->
  st' = set_ctor_templates st (st_ctor_templates st ++ map (fun c => (fctname c, fctargs c)) cs)
  /\ (NoDup (map fst (st_ctor_templates st)) -> NoDup (map fst (st_ctor_templates st'))).
Proof.
  induction cs as [|c r IH]; intros st st' H; simpl in H.
  - inversion H as [Heq]. subst st'. split; [destruct st; unfold set_ctor_templates, set_dtor_templates; simpl; rewrite app_nil_r; reflexivity|auto].
  - destruct (ahas (st_ctor_templates st) (fctname c)) eqn:E; [discriminate|].
    apply ahas_false in E. apply IH in H. destruct H as [-> Hnd]. simpl in *.
    rewrite ainsert_fresh in * by assumption. split.
    + unfold set_ctor_templates; simpl. rewrite <- app_assoc. reflexivity.
    + intros Hn. apply Hnd. rewrite map_app. simpl.
      apply NoDup_app_snoc; [assumption|]. apply aget_none_notin. assumption.
Qed.

Lemma build_dtors_spec : forall cs st st',
  build_dtors cs st = COk st' ->
  st' = set_dtor_templates st (st_dtor_templates st ++ map (fun c => (fdtname c, (fdtargs c, fdtcont c))) cs)
  /\ (NoDup (map fst (st_dtor_templates st)) -> NoDup (map fst (st_dtor_templates st'))).
Proof.
  induction cs as [|c r IH]; intros st st' H; simpl in H.
  - inversion H as [Heq]. subst st'. split; [destruct st; unfold set_ctor_templates, set_dtor_templates; simpl; rewrite app_nil_r; reflexivity|auto].
  - destruct (ahas (st_dtor_templates st) (fdtname c)) eqn:E; [discriminate|].
    apply ahas_false in E. apply IH in H. destruct H as [-> Hnd]. simpl in *.
    rewrite ainsert_fresh in * by assumption. split.
    + unfold set_dtor_templates; simpl. rewrite <- app_assoc. reflexivity.
    + intros Hn. apply Hnd. rewrite map_app. simpl.
      apply NoDup_app_snoc; [assumption|]. apply aget_none_notin. assumption.
Qed.

(* the state of the tables relative to a list of declarations already processed *)
Record built (ds : list fdecl) (st : symtab) : Prop := {
  b_tt : st_type_templates st = flat_map tt_of_decl ds;
  b_ct : st_ctor_templates st = flat_map ct_of_decl ds;
  b_dt : st_dtor_templates st = flat_map dt_of_decl ds;
  b_df : st_defs st = flat_map df_of_decl ds;
  b_types : st_types st = [];
  b_ctors : st_ctors st = [];
  b_dtors : st_dtors st = [];
  b_nd_tt : NoDup (map fst (st_type_templates st));
  b_nd_ct : NoDup (map fst (st_ctor_templates st));
  b_nd_dt : NoDup (map fst (st_dtor_templates st));
  b_nd_df : NoDup (map fst (st_defs st))
}.

Lemma built_empty : built [] st_empty.
Proof. constructor; simpl; try reflexivity; constructor. Qed.

Lemma build_decl_spec : forall pre d st st',
  built pre st -> build_decl d st = COk st' -> built (pre ++ [d]) st'.
Proof.
  intros pre d st st' B H. destruct B.
  destruct d as [d|d|d]; simpl in H.
  - destruct (ahas (st_type_templates st) (fdaname d)) eqn:E; [discriminate|]. apply ahas_false in E.
    apply build_ctors_spec in H. destruct H as [-> Hnd]. simpl in *.
    rewrite ainsert_fresh by assumption.
    constructor; simpl; rewrite ?flat_map_app; simpl; rewrite ?app_nil_r; try congruence.
    + rewrite map_app. simpl. apply NoDup_app_snoc; [assumption|]. apply aget_none_notin; assumption.
    + auto.
  - destruct (ahas (st_type_templates st) (fcoaname d)) eqn:E; [discriminate|]. apply ahas_false in E.
    apply build_dtors_spec in H. destruct H as [-> Hnd]. simpl in *.
    rewrite ainsert_fresh by assumption.
    constructor; simpl; rewrite ?flat_map_app; simpl; rewrite ?app_nil_r; try congruence.
    + rewrite map_app. simpl. apply NoDup_app_snoc; [assumption|]. apply aget_none_notin; assumption.
    + auto.
  - destruct (ahas (st_defs st) (fdname d)) eqn:E; [discriminate|]. apply ahas_false in E.
    inv_ok. simpl in *. rewrite ainsert_fresh by assumption.
    constructor; simpl; rewrite ?flat_map_app; simpl; rewrite ?app_nil_r; try congruence.
    rewrite map_app. simpl. apply NoDup_app_snoc; [assumption|]. apply aget_none_notin; assumption.
Qed.

Lemma build_decls_spec : forall ds pre st st',
  built pre st -> build_decls ds st = COk st' -> built (pre ++ ds) st'.
Proof.
  induction ds as [|d r IH]; intros pre st st' B H; simpl in H.
  - inv_ok. rewrite app_nil_r. assumption.
  - inv_ok. replace (pre ++ d :: r) with ((pre ++ [d]) ++ r) by (rewrite <- app_assoc; reflexivity).
    eapply IH; [|eassumption]. eapply build_decl_spec; eassumption.
Qed.

(* ---------- table lookups are the specification's lookups ---------- *)
Definition tt_val (td : tdecl) : fpol * fnamectx * list fname := (td_pol td, td_params td, map xs_name (td_xtors td)).

Lemma aget_tt : forall ds n,
  aget (flat_map tt_of_decl ds) n = option_map tt_val (find_type (tdecls ds) n).
Proof.
  induction ds as [|d r IH]; intros n; simpl; [reflexivity|].
  destruct d as [d|d|d]; simpl; try apply IH; unfold find_type; simpl;
    (destruct (String.eqb _ n) eqn:E; [unfold tt_val; simpl; rewrite map_map; reflexivity|apply IH]).
Qed.

Lemma find_xsig_data : forall d c,
  find_xsig (mktdecl (fdaname d) FData (fdaparams d) (map (fun c => mkxsig (fctname c) (fctargs c) None) (fdactors d))) c
  = option_map (fun k => mkxsig (fctname k) (fctargs k) None) (find (fun k => String.eqb (fctname k) c) (fdactors d)).
Proof.
  intros d c. unfold find_xsig. simpl. induction (fdactors d) as [|k r IH]; simpl; [reflexivity|].
  destruct (String.eqb (fctname k) c); [reflexivity|apply IH].
Qed.
Lemma find_xsig_codata : forall d c,
  find_xsig (mktdecl (fcoaname d) FCodata (fcoparams d) (map (fun c => mkxsig (fdtname c) (fdtargs c) (Some (fdtcont c))) (fcodtors d))) c
  = option_map (fun k => mkxsig (fdtname k) (fdtargs k) (Some (fdtcont k))) (find (fun k => String.eqb (fdtname k) c) (fcodtors d)).
Proof.
  intros d c. unfold find_xsig. simpl. induction (fcodtors d) as [|k r IH]; simpl; [reflexivity|].
  destruct (String.eqb (fdtname k) c); [reflexivity|apply IH].
Qed.

Lemma find_xtor_cons : forall t ts pol x,
  find_xtor (t :: ts) pol x =
  if fpol_eqb (td_pol t) pol && is_some (find_xsig t x)
  then match find_xsig t x with Some s => Some (t, s) | None => None end
  else find_xtor ts pol x.
Proof.
  intros t ts pol x. unfold find_xtor. simpl.
  destruct (fpol_eqb (td_pol t) pol && is_some (find_xsig t x)); reflexivity.
Qed.

Lemma aget_ct : forall ds c,
  aget (flat_map ct_of_decl ds) c = option_map (fun p => xs_args (snd p)) (find_xtor (tdecls ds) FData c).
Proof.
  induction ds as [|d r IH]; intros c; simpl; [reflexivity|].
  destruct d as [d|d|d]; simpl; try apply IH.
  - rewrite aget_app, find_xtor_cons. simpl td_pol. simpl fpol_eqb.
    rewrite find_xsig_data. rewrite (aget_map_find fctname fctargs).
    destruct (find (fun k => String.eqb (fctname k) c) (fdactors d)) as [k|]; simpl; [reflexivity|apply IH].
Qed.

Definition dt_val (p : tdecl * xsig) : option (fctx * fty) :=
  match xs_ret (snd p) with Some r => Some (xs_args (snd p), r) | None => None end.
Lemma aget_dt : forall ds c,
  aget (flat_map dt_of_decl ds) c = match find_xtor (tdecls ds) FCodata c with Some p => dt_val p | None => None end.
Proof.
  induction ds as [|d r IH]; intros c; simpl; [reflexivity|].
  destruct d as [d|d|d]; simpl; try apply IH.
  - rewrite aget_app, find_xtor_cons. simpl td_pol. simpl fpol_eqb.
    rewrite find_xsig_codata. rewrite (aget_map_find fdtname (fun c => (fdtargs c, fdtcont c))).
    destruct (find (fun k => String.eqb (fdtname k) c) (fcodtors d)) as [k|]; simpl; [reflexivity|apply IH].
Qed.

Lemma aget_df : forall ds f,
  aget (flat_map df_of_decl ds) f = option_map (fun d => (fdctx d, fdret d)) (find_def (fdefs ds) f).
Proof.
  induction ds as [|d r IH]; intros f; simpl; [reflexivity|].
  destruct d as [d|d|d]; simpl; try apply IH.
  unfold find_def. simpl. destruct (String.eqb (fdname d) f); [reflexivity|apply IH].
Qed.

(* ---------- keys ---------- *)
Lemma keys_tt : forall ds, map fst (flat_map tt_of_decl ds) = map td_name (tdecls ds).
Proof. induction ds as [|[d|d|d] r IH]; simpl; try rewrite IH; reflexivity. Qed.
Lemma keys_ct : forall ds, map fst (flat_map ct_of_decl ds) = xtor_names FData (tdecls ds).
Proof.
  induction ds as [|[d|d|d] r IH]; simpl; try assumption; try reflexivity.
  rewrite map_app, IH. unfold xtor_names. simpl. rewrite !map_map. reflexivity.
Qed.
Lemma keys_dt : forall ds, map fst (flat_map dt_of_decl ds) = xtor_names FCodata (tdecls ds).
Proof.
  induction ds as [|[d|d|d] r IH]; simpl; try assumption; try reflexivity.
  rewrite map_app, IH. unfold xtor_names. simpl. rewrite !map_map. reflexivity.
Qed.
Lemma keys_df : forall ds, map fst (flat_map df_of_decl ds) = map fdname (fdefs ds).
Proof. induction ds as [|[d|d|d] r IH]; simpl; try rewrite IH; reflexivity. Qed.

Lemma built_names_ok : forall ds st, built ds st -> names_ok (tdecls ds) (fdefs ds) = true.
Proof.
  intros ds st B. destruct B. unfold names_ok.
  rewrite b_tt0, keys_tt in b_nd_tt0. rewrite b_ct0, keys_ct in b_nd_ct0.
  rewrite b_dt0, keys_dt in b_nd_dt0. rewrite b_df0, keys_df in b_nd_df0.
  rewrite !NoDup_nodup by assumption. reflexivity.
Qed.

(* ---------- check_type_params ---------- *)
Lemma names_no_dups_go_ok : forall l seen, names_no_dups_go seen l = COk tt ->
  nodup l = true /\ forall x, In x l -> ~ In x seen.
Proof.
  induction l as [|x r IH]; intros seen H; simpl in H; [split; [reflexivity|intros ? []]|].
  destruct (mem_name x seen) eqn:E; [discriminate|].
  apply IH in H. destruct H as [Hn Hs]. split.
  - simpl. rewrite Hn, andb_true_r. destruct (mem x r) eqn:Em; [|reflexivity].
    apply mem_In in Em. exfalso. eapply Hs; [eassumption|left; reflexivity].
  - intros y [->|Hy] Hin.
    + assert (mem y seen = true) by (apply mem_In; assumption). unfold mem_name, mem in *. congruence.
    + eapply Hs; [eassumption|right; assumption].
Qed.
Lemma names_no_dups_ok : forall l, names_no_dups l = COk tt -> nodup l = true.
Proof. intros l H. apply names_no_dups_go_ok in H. tauto. Qed.

Lemma check_type_params_go_ok : forall all l,
  check_type_params_go all l = COk tt ->
  forall k pol ps xs, In (k, (pol, ps, xs)) l -> nodup ps = true /\ forallb (fun p => negb (ahas all p)) ps = true.
Proof.
  induction l as [|[k0 [[pol0 ps0] xs0]] r IH]; intros H k pol ps xs Hin; [destruct Hin|].
  simpl in H. apply cbind_ok in H. destruct H as [[] [Hnd H]].
  destruct (existsb (fun p => ahas all p) ps0) eqn:E; [discriminate|].
  destruct Hin as [Heq|Hin]; [|eapply IH; eassumption].
  inversion Heq; subst. split; [apply names_no_dups_ok; assumption|].
  apply forallb_forall. intros p Hp. destruct (ahas all p) eqn:Ea; [|reflexivity].
  exfalso. assert (existsb (fun p => ahas all p) ps = true) by (apply existsb_exists; eauto). congruence.
Qed.

Lemma tt_in : forall ds td, In td (tdecls ds) -> In (td_name td, tt_val td) (flat_map tt_of_decl ds).
Proof.
  induction ds as [|[d|d|d] r IH]; intros td Hin; simpl in *; try tauto; try (apply IH; assumption);
    (destruct Hin as [<-|Hin]; [left; unfold tt_val; simpl; rewrite map_map; reflexivity|right; auto]).
Qed.

(* the type-parameter part of tdecl_ok *)
Lemma built_type_params_ok : forall ds st,
  built ds st -> check_type_params_go (st_type_templates st) (st_type_templates st) = COk tt ->
  forall td, In td (tdecls ds) ->
    nodup (td_params td) = true /\ forallb (fun p => negb (is_some (find_type (tdecls ds) p))) (td_params td) = true.
Proof.
  intros ds st B H td Hin. destruct B. rewrite b_tt0 in H.
  destruct (check_type_params_go_ok _ _ H (td_name td) (td_pol td) (td_params td) (map xs_name (td_xtors td)) (tt_in _ _ Hin)) as [Hn Hf].
  split; [assumption|]. apply forallb_forall. intros p Hp. rewrite forallb_forall in Hf. specialize (Hf p Hp).
  unfold ahas in Hf. rewrite aget_tt in Hf. destruct (find_type (tdecls ds) p); simpl in *; assumption.
Qed.

(* the tables after build_symbol_table, as one statement *)
Record tables (ts : list tdecl) (fs : list fdef) (st : symtab) : Prop := {
  t_tt : forall n, aget (st_type_templates st) n = option_map tt_val (find_type ts n);
  t_ct : forall c, aget (st_ctor_templates st) c = option_map (fun p => xs_args (snd p)) (find_xtor ts FData c);
  t_dt : forall c, aget (st_dtor_templates st) c = match find_xtor ts FCodata c with Some p => dt_val p | None => None end;
  t_df : forall f, aget (st_defs st) f = option_map (fun d => (fdctx d, fdret d)) (find_def fs f);
  t_tt_list : st_type_templates st = map (fun td => (td_name td, tt_val td)) ts
}.

Lemma tt_list : forall ds, flat_map tt_of_decl ds = map (fun td => (td_name td, tt_val td)) (tdecls ds).
Proof.
  induction ds as [|[d|d|d] r IH]; simpl; try rewrite IH; try reflexivity;
    unfold tt_val; simpl; rewrite map_map; reflexivity.
Qed.

Theorem build_symbol_table_spec : forall p st,
  build_symbol_table p = COk st ->
  let ts := tdecls (fpdecls p) in let fs := fdefs (fpdecls p) in
  tables ts fs st /\ names_ok ts fs = true
  /\ st_types st = [] /\ st_ctors st = [] /\ st_dtors st = []
  /\ (forall td, In td ts -> nodup (td_params td) = true
                            /\ forallb (fun p => negb (is_some (find_type ts p))) (td_params td) = true).
Proof.
  intros p st H. unfold build_symbol_table in H. inv_ok.
  match goal with Hb : build_decls _ st_empty = COk _ |- _ =>
    pose proof (build_decls_spec _ [] _ _ built_empty Hb) as B end.
  simpl in B. intros ts fs. subst ts fs.
  split; [|split; [eapply built_names_ok; eassumption|]].
  - destruct B. constructor; intros.
    + rewrite b_tt0. apply aget_tt.
    + rewrite b_ct0. apply aget_ct.
    + rewrite b_dt0. apply aget_dt.
    + rewrite b_df0. apply aget_df.
    + rewrite b_tt0. apply tt_list.
  - split; [apply (b_types _ _ B)|]. split; [apply (b_ctors _ _ B)|]. split; [apply (b_dtors _ _ B)|].
    intros td Hin. eapply built_type_params_ok; [eassumption| |eassumption].
    match goal with Hc : check_type_params_go _ _ = COk ?u |- _ => destruct u; exact Hc end.
Qed.
