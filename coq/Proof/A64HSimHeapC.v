(* C07, forward simulation for HEAP statements on AArch64, part 6c: Switch (dispatch through the jump table
   `ADR TEMP, table; ADD TEMP, TEMP, tag; BR TEMP`, or fall-through for at most one clause, then the load of the
   fields) and Invoke (indirect branch `BR r` / `ADD r, r, #4k; BR r` through the data word of the closure, then
   the load of the captured environment).  Port of Proof/X86HSimHeapC.v.

   WHERE THE PORT DIFFERS FROM x86-64.
     - Switch: unchanged statement (`exec_to` up to the clause body); `a + 4k` is the address of table entry k, a
       real instruction, from which an `exec_to` leads to the clause (`dispatch_layout_exec`).
     - Invoke: the indirect branch lands on the first instruction of non-zero size at the closure's address, which
       lies behind the labels in front of the clause code (possibly inside it), so the conclusion is in
       `finishes`-form: every run from the start of the clause body (state s') is a run from the Invoke (state s).
       No encodability hypothesis (`instr_wf` on x86-64): ADDI has no fault in Sem/A64Sem.v.
     - `hrel_temp`: the dispatch changes X2 (TEMP) and, for a spilled tag, X3 (TEMP2). *)
From Coq Require Import List ZArith NArith String Bool Lia FMapPositive Permutation.
From SCC Require Import Base.Sexp Lang.AxSyn Sem.AxSem Sem.AxHeap Model.ParMoves Model.Backend Model.A64 Sem.A64Sem
     Model.Linearize Model.LinCheck Generated.Constants Proof.LinBasics Proof.LinTyping
     Proof.A64State Proof.A64ImmHw Proof.A64Imm Proof.A64Sel Proof.A64PM Proof.A64Exec
     Proof.A64MemSubst Proof.SubstGraph Proof.SubstBackends Proof.A64Subst Proof.A64Wf Proof.A64Print
     Proof.A64SimRel Proof.A64SimStmt Proof.A64SimAddr Proof.A64SimClo Proof.HRep Proof.A64Mem Proof.A64MemOps
     Proof.A64HSimRel Proof.A64HSimStmt Proof.A64HConv Proof.A64HSimStore Proof.A64HSimLoad Proof.A64HLayout
     Proof.A64HSimHeapA Proof.X86HAnn Proof.A64HSimHeapB.
From SCC Require Model.Heap Proof.HeapMore Proof.HeapTrace Proof.HeapRep
     Proof.X86Mem Proof.X86MemFrame Proof.X86HeapDefs Proof.X86HeapCongr Proof.X86HBridge Proof.X86HFrame
     Proof.X86HSimHeapA Proof.X86HSimHeapB Proof.X86HSimHeapC.
Import ListNotations.
Open Scope Z_scope.
Open Scope list_scope.

Notation bind_snd := X86HSimHeapC.bind_snd.
Notation attach_nil_r := X86HSimHeapC.attach_nil_r.
Notation load_ops_run := X86HSimHeapC.load_ops_run.
Notation ptrs_attach := X86HSimHeapC.ptrs_attach.

(* the lemmas of Proof/X86HSimHeapC.v about `same_kinds` / `ctx_of_env`, for the constants of Proof/HRep.v *)
Lemma kinds_join (cx sg : ctx) (fs : list value) : same_kt cx sg -> HRep.same_kinds fs sg ->
  Forall2 (fun b f => chi_of f = bchi b /\ ty_of f = bty b) cx fs.
Proof.
  intros H. revert fs. induction H as [|b1 b2 l1 l2 [A1 A2] _ IH]; intros fs SK; inversion SK; subst; constructor.
  - match goal with H : _ /\ _ |- _ => destruct H as [B1 B2] end. split; congruence.
  - apply IH. assumption.
Qed.
Lemma ctx_of_env_kinds (ce : list (ident * value)) :
  Forall2 (fun b f => chi_of f = bchi b /\ ty_of f = bty b) (HRep.ctx_of_env ce) (map snd ce).
Proof. induction ce as [|[x v] ce IH]; cbn; constructor; auto. Qed.
Lemma ctx_of_env_ids (ce : list (ident * value)) : env_ids ce = ids (HRep.ctx_of_env ce).
Proof. unfold env_ids, ids, HRep.ctx_of_env. rewrite map_map. reflexivity. Qed.
Lemma ctx_of_env_length (ce : list (ident * value)) : List.length (HRep.ctx_of_env ce) = List.length ce.
Proof. unfold HRep.ctx_of_env. apply map_length. Qed.

Section HC.
Variable im : image.
Variable p : prog.
Hypothesis IMG : img_ok im.
Hypothesis SMALL : forall pc a, PM.find pc (addr_of im) = Some a -> a < 4611686018427387904.
Local Notation CLO := (hclo_ok im p).
Local Notation hrel := (hrel (ptypes p) CLO).
Local Notation hvrep := (hvrep (ptypes p) CLO).
Local Notation xrep := (HRep.xrep (ptypes p) CLO jump_length in64).
Local Notation xflds := (HRep.xflds (ptypes p) CLO jump_length in64).
Local Notation ctx_of_env := HRep.ctx_of_env.

(* a state that differs from s in X2, X3 (TEMP, TEMP2) and the flags only keeps the relation *)
Lemma hrel_temp c he hs s s' sp :
  hrel c he hs s sp -> frame_ok s' sp -> heap s' = heap s ->
  (forall l, loc_ok l -> l <> AR TEMP -> l <> AR TEMP2 -> lget s' sp l = lget s sp l) ->
  hrel c he hs s' sp.
Proof.
  intros R F' HE LG. apply (hrel_keep (ptypes p) CLO c he hs s s' sp R F' HE).
  - apply (LG (AR HEAP)); [exact I|discriminate|discriminate].
  - apply (LG (AR FREE)); [exact I|discriminate|discriminate].
  - intros i b n t _ _ T. destruct (atpos_ok _ _ _ T) as (((A & B & C) & _) & _). apply LG; assumption.
Qed.

Theorem hsim_switch c he hs s sp v t cls lc code lc' pc he0 x tn tag fs q cl e1 lk hl fl cl0 :
  hrel c he hs s sp -> lin_check (sigs_of p) c (Switch v t cls) = true ->
  acs (ptypes p) (Switch v t cls) c lc = Ok (code, lc') -> code_at im pc code -> labels_at_nh im pc code ->
  (forall lcx, hash_name (type_label t lcx) = false) ->
  AxSem.split_last 1 he = Some (he0, [(x, VObj tn tag fs, q)]) ->
  find_clause cls tag = Some cl -> bind (vars (cl_ctx cl)) fs = Some e1 ->
  InvA X86Sem.HEAP_BASE hs (roots he) hl fl cl0 -> P03 hs -> Heap.frontier hs <= LIMIT ->
  (fs <> [] -> HeapRep.rep_flds lk (Heap.m hs) fs q) ->
  let c0 := removelast c in
  exists pcb lcb cb lcb' s',
    exec_to im pc s pcb s' /\
    acs (ptypes p) (cl_body cl) (c0 ++ cl_ctx cl) lcb = Ok (cb, lcb') /\ code_at im pcb cb /\ labels_at_nh im pcb cb /\
    lin_check (sigs_of p) (c0 ++ cl_ctx cl) (cl_body cl) = true /\
    hrel (c0 ++ cl_ctx cl) (he0 ++ attach e1 (load_ptrs hs (List.length (cl_ctx cl)) q))
         (hrun (load_ops (List.length (cl_ctx cl)) q) hs) s' sp /\
    hframe_eq s s' sp.
Proof.
  intros R LC CS CA LA NHL SL FC BD IA K03 HFr RF c0'.
  apply split_last1_inv in SL. subst he.
  pose proof (hrel_length R) as LEN. rewrite app_length in LEN. cbn [List.length] in LEN.
  rewrite lin_check_switch in LC. apply andb_true_iff in LC as [_ LC].
  destruct (split_lastn 1 c) as [[c0 [|b [|b' r]]]|] eqn:SLc; try discriminate.
  apply split_lastn_Some in SLc as [-> _]. unfold c0'. rewrite removelast_last. clear c0'.
  apply andb_true_iff in LC as [LC LCc]. apply andb_true_iff in LC as [LC CO]. apply andb_true_iff in LC as [LC TY].
  apply andb_true_iff in LC as [IDb CH]. apply N.eqb_eq in IDb. apply ty_eqb_eq in TY. apply chi_eqb_eq in CH.
  rewrite app_length in LEN. cbn [List.length] in LEN. assert (L0 : List.length he0 = List.length c0) by lia.
  destruct (cs_switch _ _ _ _ _ _ _ _ CS) as (c1 & c3 & C1 & GC & ->).
  rewrite removelast_last in GC.
  (* the scrutinee *)
  destruct (hr_vals R (List.length he0) x (VObj tn tag fs) q) as (b0 & Hb0 & V); [apply nth_error_mid|].
  rewrite L0, nth_error_mid in Hb0. inversion Hb0; subst b0. clear Hb0.
  inversion V as [|b1 v1 q1 dw t1 t2 NE K1 K2 T1 T2 L1 L2 X]; subst. clear V.
  cbn in K2. rewrite <- K2 in *.
  set (fresh := type_label (Decl tn) (lc + 1)%N) in *.
  inversion X as [|tn1 tag1 fs1 q1 a1 TW XF|]; subst. clear X.
  destruct TW as (d & k' & xk & FD & XP' & -> & FX & SK).
  unfold cls_ok, type_xtors in CO. cbn [sigs_of sg_types] in CO. rewrite FD in CO.
  destruct (find_clause_pos cls (txtors d) tag cl 0%N CO FC) as (k & xk0 & Hk & Hxk & XP & FX' & SMk).
  assert (xk0 = xk) by congruence. subst xk0.
  assert (Ek : k' = N.of_nat k) by (rewrite XP in XP'; inversion XP'; lia). subst k'.
  destruct (bind_snd _ _ _ BD) as [E1S E1N].
  assert (Lfs : List.length fs = List.length (cl_ctx cl)).
  { apply bind_length in BD. unfold vars in BD. rewrite map_length in BD. lia. }
  (* the label, the table, the clauses *)
  pose proof CA as CA0. apply code_at_app in CA as [CA1 CA]. apply labels_at_nh_app in LA as [_ LA].
  set (pcl := padd pc (List.length c1)) in *.
  assert (CL0 : PM.find pcl (code im) = Some (LAB fresh)).
  { pose proof CA as X. rewrite <- app_assoc in X. cbn [app] in X. apply code_at_cons in X as [X _]. exact X. }
  destruct (io_addr im IMG pcl _ CL0) as (a & AL & GE).
  assert (FL : find_label (labels im) fresh = Some pcl).
  { pose proof LA as X. rewrite <- app_assoc in X. cbn [app] in X. rewrite (X O fresh eq_refl (NHL _)). reflexivity. }
  pose proof (label_addr_at im fresh pcl a FL AL) as LAD.
  destruct (dispatch_layout_exec im IMG (ptypes p) (fun cx lc0 => a_load cx c0 lc0) (fun cx => c0 ++ cx) pcl fresh cls c3 (lc + 1)%N lc' a
              CA LA (NHL _) GC AL k cl Hk) as (pcc & lcl & cl1 & lcb & cb & lcb' & LD & BDY & CAb & LAb & ONE & TAB).
  pose proof (hr_frame R) as F.
  (* control reaches the code of the clause; only X2, X3 change *)
  unfold clause in *.
  assert (JUMP : exists sj, exec_to im pc s pcc sj /\ frame_ok sj sp /\ heap sj = heap s /\ hframe_eq s sj sp /\
                            (forall l, loc_ok l -> l <> AR TEMP -> l <> AR TEMP2 -> lget sj sp l = lget s sp l)).
  { destruct (Nat.leb (List.length cls) 1) eqn:LE.
    - subst c1. destruct (ONE eq_refl) as (DOWN & _). exists s. split; [apply DOWN|]. split; [exact F|]. split; [reflexivity|].
      split; [apply hframe_eq_refl|auto].
    - destruct C1 as (tmpv & TVs & ->). destruct (TAB eq_refl) as (i & IX & PA & ARR).
      assert (tmpv = t2).
      { rewrite <- IDb in TVs. rewrite (vt_of_nth0 (c0 ++ [b]) (List.length c0) b (hr_nodup R) (nth_error_mid _ _ _)) in TVs.
        rewrite L0 in T2. congruence. }
      subst tmpv. unfold switch_head in CA1. unfold clause in CA1. rewrite LE in CA1.
      set (off := jump_length (N.of_nat k)) in *.
      assert (OFF : 0 <= off) by (unfold off, jump_length; lia).
      pose proof (SMALL _ _ PA) as SM.
      assert (WR : wrap (a + off) = a + off) by (apply wrap_small_range; unfold CODE_BASE in GE; lia).
      destruct (atpos_ok _ _ _ T2) as ((O2 & _) & _ & _).
      destruct (a64_switch_dispatch_ok im s sp t2 fresh a off F O2 LAD L2) as (sj & E & GO & KEEP & HEj & OUj).
      rewrite app_assoc in CA1. apply code_at_app in CA1 as [CAh CAj].
      cbn [a_jump] in CAj. apply code_at_cons in CAj as [CJ _].
      assert (LOC : local_code (a_load_label (AR TEMP) fresh ++ a_arith Sum (AR TEMP) (AR TEMP) t2) = true).
      { rewrite local_code_app, local_load_label, local_a_arith by reflexivity. reflexivity. }
      destruct (run_straight_local im _ s sp sj LOC F E) as [Fj FEj].
      exists sj. split; [|split; [exact Fj|split; [exact HEj|split; [apply frame_eq_hframe; exact FEj|exact KEEP]]]].
      eapply exec_to_trans; [apply (run_straight_exec_to im _ pc s sj CAh E)|].
      eapply exec_jump; [exact CJ| |apply ARR].
      rewrite GO, WR. unfold goto_addr. rewrite IX. reflexivity. }
  destruct JUMP as (sj & XJ & Fj & HEj & FEj & LGj).
  pose proof (hrel_temp _ _ _ s sj sp R Fj HEj LGj) as Rj.
  assert (LCb : lin_check (sigs_of p) (c0 ++ cl_ctx cl) (cl_body cl) = true).
  { unfold lin_clauses_sw in LCc. rewrite forallb_forall in LCc. apply LCc. eapply nth_error_In; eauto. }
  apply code_at_app in CAb as [CAl CAbd]. apply labels_at_nh_app in LAb as [LAl LAbd].
  destruct fs as [|f0 fr].
  - (* no field: nothing to load *)
    assert (ECX : cl_ctx cl = []) by (destruct (cl_ctx cl); [reflexivity|cbn in Lfs; lia]).
    assert (e1 = []) by (rewrite ECX in BD; cbn in BD; congruence). subst e1.
    rewrite ECX in *. cbn [a_load] in LD. inversion LD; subst cl1 lcb. cbn [List.length padd] in CAbd, LAbd.
    exists pcc, lcl, cb, lcb', sj. split; [exact XJ|]. split; [exact BDY|]. split; [exact CAbd|]. split; [exact LAbd|].
    split; [exact LCb|]. split; [|exact FEj].
    cbn [List.length load_ops hrun fold_left attach]. rewrite !app_nil_r.
    eapply (hrel_prefix (ptypes p) CLO); exact Rj.
  - set (fs := f0 :: fr) in *.
    assert (NEf : fs <> []) by discriminate.
    assert (XFj : xflds (hword sj) fs q).
    { eapply HRep.xflds_ext; [|exact XF]. intros a0 _. apply hword_heap. exact HEj. }
    assert (LQ : lget sj sp (mtpos (2 * N.of_nat (List.length c0))) = Some q).
    { pose proof T1 as T1'. apply atpos_mtpos in T1' as [E1 _]. cbn [tnum_n] in E1. rewrite N.add_0_r, L0 in E1. rewrite <- E1.
      destruct (atpos_ok _ _ _ T1) as (((A1 & B1 & C1') & _) & _). rewrite LGj by assumption. exact L1. }
    assert (KIN : Forall2 (fun b0 f => chi_of f = bchi b0 /\ ty_of f = bty b0) (cl_ctx cl) fs).
    { apply sig_match_iff in SMk. exact (kinds_join _ _ _ SMk SK). }
    assert (E1F : env_ids e1 = ids (cl_ctx cl)).
    { unfold env_ids. rewrite <- (map_map fst idn), E1N. unfold vars, ids. now rewrite map_map. }
    destruct (hsim_load im (ptypes p) CLO c0 (cl_ctx cl) he0 x (VObj tn tag fs) q fs e1 hs sj sp lcl cl1 lcb pcc lk hl fl cl0
                (hrel_prefix (ptypes p) CLO c0 b he0 _ hs sj sp Rj) LQ XFj NEf E1S E1F KIN (lin_nodup _ _ _ LCb) IA K03 (RF NEf) HFr LD CAl LAl)
      as (s' & XL & FEL & RL).
    exists (padd pcc (List.length cl1)), lcb, cb, lcb', s'.
    split; [eapply exec_to_trans; eassumption|]. split; [exact BDY|]. split; [exact CAbd|]. split; [exact LAbd|]. split; [exact LCb|].
    split.
    + rewrite <- Lfs. rewrite load_ops_run by (cbn; lia). exact RL.
    + eapply hframe_eq_trans; [exact FEj|exact FEL].
Qed.

(* ---------- Invoke ---------- *)
Theorem hsim_invoke c he hs s sp v tag t args cd lc lc' pc he0 x tn cls ce q cl e1 lk hl fl cl0 :
  hrel c he hs s sp ->
  AxSem.split_last 1 he = Some (he0, [(x, VClo tn cls ce, q)]) ->
  find_clause cls tag = Some cl -> bind (vars (cl_ctx cl)) (map snd (erase_env he0)) = Some e1 ->
  lin_check (sigs_of p) c (Invoke v tag t args) = true ->
  acs (ptypes p) (Invoke v tag t args) c lc = Ok (cd, lc') -> code_at im pc cd ->
  InvA X86Sem.HEAP_BASE hs (roots he) hl fl cl0 -> P03 hs -> Heap.frontier hs <= LIMIT ->
  (ce <> [] -> HeapRep.rep_flds lk (Heap.m hs) (map snd ce) q) ->
  exists pcb lcb cb lcb' s',
    (forall o, finishes im pcb s' o -> finishes im pc s o) /\
    acs (ptypes p) (cl_body cl) (cl_ctx cl ++ ctx_of_env ce) lcb = Ok (cb, lcb') /\ code_at im pcb cb /\ labels_at_nh im pcb cb /\
    lin_check (sigs_of p) (cl_ctx cl ++ ctx_of_env ce) (cl_body cl) = true /\
    ann_check (cl_ctx cl ++ ctx_of_env ce) (cl_body cl) = true /\ stmt_lits (cl_body cl) = true /\
    hrel (cl_ctx cl ++ ctx_of_env ce) (attach e1 (ptrs he0) ++ attach ce (load_ptrs hs (List.length ce) q))
         (hrun (load_ops (List.length ce) q) hs) s' sp /\
    hframe_eq s s' sp.
Proof.
  intros R SL FC BD LC CS CA IA K03 HFr RF.
  apply split_last1_inv in SL. subst he.
  pose proof (hrel_length R) as LEN. rewrite app_length in LEN. cbn [List.length] in LEN.
  cbn [lin_check] in LC. apply andb_true_iff in LC as [_ LC].
  destruct (split_lastn 1 c) as [[c0 [|b [|b' r]]]|] eqn:SLc; try discriminate.
  apply split_lastn_Some in SLc as [-> _].
  apply andb_true_iff in LC as [LC AO]. apply andb_true_iff in LC as [LC TY]. apply andb_true_iff in LC as [IDb CH].
  apply N.eqb_eq in IDb. apply ty_eqb_eq in TY. apply chi_eqb_eq in CH.
  rewrite app_length in LEN. cbn [List.length] in LEN. assert (L0 : List.length he0 = List.length c0) by lia.
  (* the closure *)
  destruct (hr_vals R (List.length he0) x (VClo tn cls ce) q) as (b0 & Hb0 & V); [apply nth_error_mid|].
  rewrite L0, nth_error_mid in Hb0. inversion Hb0; subst b0. clear Hb0.
  inversion V as [|b1 v1 q1 a t1 t2 NE K1 K2 T1 T2 L1 L2 X]; subst. clear V.
  cbn in K2. rewrite <- K2 in *.
  inversion X as [| |tn1 cls1 ce1 q1 a1 CLOa XF]; subst. clear X.
  destruct CLOa as (CO & AB & ENTRY).
  destruct (cs_invoke _ _ _ _ _ _ _ _ _ CS) as (tmpv & d & TV & LT & _ & CODE).
  assert (TVeq : tmpv = t2).
  { rewrite <- IDb in TV. rewrite (vt_of_nth0 (c0 ++ [b]) (List.length c0) b (hr_nodup R) (nth_error_mid _ _ _)) in TV.
    rewrite L0 in T2. congruence. }
  subst tmpv.
  unfold cls_ok, type_xtors in CO. cbn [sigs_of sg_types] in CO.
  unfold lookup_type in LT.
  destruct (find (fun d => ident_eqb (tname d) tn) (ptypes p)) as [d'|] eqn:FD; [|discriminate]. inversion LT; subst d'. clear LT.
  destruct (find_clause_pos cls (txtors d) tag cl 0%N CO FC) as (k & xk & Hk & Hxk & XP & FX & SMk).
  pose proof (cls_sig_length _ _ CO) as LCL.
  destruct (ENTRY k cl Hk) as (i & pcc & lcl & cl1 & lcb & cb & lcb' & IX & SMa & ARR & LD & BDY & CAb & LAb & LCb & ANb & LITb).
  pose proof (hr_frame R) as F.
  assert (T2' : atpos Snd (List.length c0) = Ok t2) by (rewrite <- L0; exact T2).
  assert (T1' : atpos Fst (List.length c0) = Ok t1) by (rewrite <- L0; exact T1).
  destruct (atpos_ok _ _ _ T2') as (((Lt2 & Nt2 & Nt22) & _) & NFt2 & NHt2).
  destruct (atpos_ok _ _ _ T1') as (((Lt1 & Nt1 & Nt12) & _) & _).
  assert (NE12 : t1 <> t2).
  { intros E; subst. destruct (SubstGraph.tpos_inj a64_backend a64_backend_ok _ _ _ _ _ T1' T2') as [E _]. discriminate. }
  (* the arguments, relabelled *)
  assert (SM0 : sig_match c0 (cl_ctx cl) = true).
  { unfold args_ok, lookup_xtor, type_xtors in AO. cbn [sigs_of sg_types] in AO. rewrite FD, FX in AO. eapply sig_match_join; eauto. }
  assert (LC0 : List.length (cl_ctx cl) = List.length c0) by (apply sig_match_iff, same_kt_length in SM0; lia).
  assert (NDc : NoDup (ids (cl_ctx cl))).
  { pose proof (lin_nodup _ _ _ LCb) as X. unfold ids in *. rewrite map_app in X. eapply NoDup_app_l; eauto. }
  pose proof (hbind_rel (ptypes p) CLO c0 he0 hs s sp (cl_ctx cl) e1 (hrel_prefix (ptypes p) CLO c0 b he0 _ hs s sp R) NDc SM0 BD) as R1.
  assert (Le1 : List.length e1 = List.length (ptrs he0)).
  { destruct (bind_snd _ _ _ BD) as [_ B2]. apply (f_equal (@List.length ident)) in B2. unfold vars, ptrs in *. rewrite !map_length in *. lia. }
  (* what the jump leaves alone *)
  assert (KEEPJ : forall s', frame_ok s' sp -> frame_eq s s' sp ->
             (forall l, loc_ok l -> l <> AR TEMP -> l <> AR TEMP2 -> l <> t2 -> lget s' sp l = lget s sp l) ->
             hrel (cl_ctx cl) (attach e1 (ptrs he0)) hs s' sp /\ lget s' sp (mtpos (2 * N.of_nat (List.length (cl_ctx cl)))) = Some q /\
             hframe_eq s s' sp /\ heap s' = heap s).
  { intros s' F' FE' LG. pose proof FE' as (HE' & _ & _).
    split; [|split; [|split; [apply frame_eq_hframe; exact FE'|exact HE']]].
    - apply (hrel_keep (ptypes p) CLO _ _ hs s s' sp R1 F' HE').
      + apply (LG (AR HEAP)); [exact I|discriminate|discriminate|congruence].
      + apply (LG (AR FREE)); [exact I|discriminate|discriminate|congruence].
      + intros j bj n tj Hj _ Tj. destruct (atpos_ok _ _ _ Tj) as (((A & B & B2) & _) & _). apply LG; auto.
        intros E; subst tj. assert (Lj : (j < List.length (cl_ctx cl))%nat) by (apply nth_error_Some; congruence).
        destruct (SubstGraph.tpos_inj a64_backend a64_backend_ok _ _ _ _ _ Tj T2') as [_ E]. lia.
    - rewrite LC0. pose proof T1' as T1''. apply atpos_mtpos in T1'' as [E1 _]. cbn [tnum_n] in E1. rewrite N.add_0_r in E1.
      rewrite <- E1. rewrite LG; auto. }
  set (off := if Nat.leb (List.length cls) 1 then 0 else jump_length (N.of_nat k)) in *.
  assert (GO : forall rj s1, rget s1 rj = Some (a + off) -> step im (BR rj) s1 = Jump s1 i).
  { intros rj s1 RG. cbn [step]. unfold need. rewrite RG. unfold goto_addr. now rewrite IX. }
  assert (JUMP : exists sj, exec_to im pc s i sj /\ hrel (cl_ctx cl) (attach e1 (ptrs he0)) hs sj sp /\
                            lget sj sp (mtpos (2 * N.of_nat (List.length (cl_ctx cl)))) = Some q /\ hframe_eq s sj sp /\ heap sj = heap s).
  { rewrite <- LCL in CODE. subst off. destruct (Nat.leb (List.length cls) 1) eqn:LE.
    - (* one destructor: branch through the temporary *)
      subst cd. rewrite Z.add_0_r in GO. destruct t2 as [r|q']; cbn [a_jump lget loc_ok] in *.
      + apply code_at_cons in CA as [CJ _].
        destruct (KEEPJ s F (frame_eq_refl s sp) (fun _ _ _ _ _ => eq_refl)) as (A1 & A2 & A3 & A4).
        exists s. split; [|auto]. eapply exec_jump; [exact CJ|apply (GO r s L2)|apply exec_refl].
      + apply code_at_cons in CA as [C0 CA]. apply code_at_cons in CA as [CJ _].
        set (s1 := rset s TEMP (Some a)).
        destruct (KEEPJ s1) as (A1 & A2 & A3 & A4).
        { apply frame_ok_rset; [rewrite TEMP_is; discriminate|exact F]. }
        { apply frame_eq_rset. }
        { intros l Ll Nl _ _. apply (lget_lset_other s sp (AR TEMP) l); [apply F|rewrite TEMP_is; exact I|exact Ll|congruence]. }
        exists s1. split; [|auto].
        eapply exec_next; [exact C0|rewrite (step_LDR_slot im s sp F) by exact Lt2; rewrite L2; reflexivity|].
        eapply exec_jump; [exact CJ|apply GO; rewrite TEMP_is; apply rget_rset_same; exact I|apply exec_refl].
    - (* several destructors: add the table offset, then branch *)
      destruct CODE as (k' & XP' & ->). assert (k' = N.of_nat k) by (rewrite XP in XP'; inversion XP'; lia). subst k'.
      set (off := jump_length (N.of_nat k)) in *.
      assert (OFF : 0 <= off) by (unfold off, jump_length; lia).
      assert (W : wrap (a + off) = a + off) by (apply wrap_small_range; lia).
      assert (IV : add_imm_fits off = false -> in64 off) by (intros _; unfold in64, two63; lia).
      assert (KEEPX : forall sb s1 rn, spv s1 = spv sb -> stack s1 = stack sb ->
                (forall m, m <> rn -> m <> 3%N -> xget s1 m = xget sb m) ->
                forall l, loc_ok l -> l <> AR (X rn) -> l <> AR TEMP2 -> lget s1 sp l = lget sb sp l).
      { intros sb s1 rn Hsp Hst KP l Ll N1 N2. destruct l as [[m| |]|ql]; cbn [loc_ok gp] in Ll; try tauto; cbn [lget rget].
        - apply KP; [congruence|]. intros ->. apply N2. rewrite TEMP2_is. reflexivity.
        - unfold sget. rewrite Hst. reflexivity. }
      destruct t2 as [r|q']; cbn [a_add_and_jump lget loc_ok] in *.
      + destruct r as [rn| |]; cbn [gp] in Lt2; try tauto.
        apply code_at_app in CA as [CA0 CJ]. apply code_at_cons in CJ as [CJ _].
        assert (N3 : rn <> 3%N) by (intros ->; apply Nt22; rewrite TEMP2_is; reflexivity).
        destruct (a64_add_offset_ok im s rn off a Lt2 N3 L2 IV) as (s1 & RS & V1' & KP & Hsp & Hh & Hst & Ho).
        rewrite W in V1'.
        destruct (KEEPJ s1) as (A1 & A2 & A3 & A4).
        { split; [rewrite Hsp; apply F|apply F]. }
        { split; [exact Hh|split; [exact Ho|intros kk _; rewrite Hst; reflexivity]]. }
        { intros l Ll Nl N2' N3'. apply (KEEPX s s1 rn Hsp Hst KP l Ll N3' N2'). }
        exists s1. split; [|auto].
        eapply exec_to_trans; [apply (run_straight_exec_to im _ pc s s1 CA0 RS)|].
        eapply exec_jump; [exact CJ|apply GO; exact V1'|apply exec_refl].
      + apply code_at_cons in CA as [C0 CA]. apply code_at_app in CA as [CA0 CJ]. apply code_at_cons in CJ as [CJ _].
        set (s0 := rset s TEMP (Some a)).
        assert (F0 : frame_ok s0 sp) by (unfold s0; rewrite TEMP_is; apply frame_ok_rset; [discriminate|exact F]).
        assert (V0 : xget s0 2 = Some a) by (unfold s0; rewrite TEMP_is; cbn [rset]; apply xget_xset_same).
        rewrite TEMP_is in CA0.
        destruct (a64_add_offset_ok im s0 2 off a I ltac:(discriminate) V0 IV) as (s1 & RS & V1' & KP & Hsp & Hh & Hst & Ho).
        rewrite W in V1'.
        destruct (KEEPJ s1) as (A1 & A2 & A3 & A4).
        { split; [rewrite Hsp; apply F0|apply F]. }
        { split; [rewrite Hh; reflexivity|split; [rewrite Ho; reflexivity|intros kk _; rewrite Hst; reflexivity]]. }
        { intros l Ll Nl N2' _. rewrite TEMP_is in Nl. rewrite (KEEPX s0 s1 2%N Hsp Hst KP l Ll Nl N2'). unfold s0.
          apply (lget_lset_other s sp (AR TEMP) l); [apply F|rewrite TEMP_is; exact I|exact Ll|rewrite TEMP_is; congruence]. }
        exists s1. split; [|auto].
        eapply exec_next; [exact C0|rewrite (step_LDR_slot im s sp F) by exact Lt2; rewrite L2; reflexivity|].
        eapply exec_to_trans; [apply (run_straight_exec_to im _ _ s0 s1 CA0 RS)|].
        eapply exec_jump; [exact CJ|apply GO; rewrite TEMP_is; exact V1'|apply exec_refl]. }
  destruct JUMP as (sj & XJ & Rj & LQ & FEj & HEj).
  apply code_at_app in CAb as [CAl CAbd]. apply labels_at_nh_app in LAb as [LAl LAbd].
  destruct ce as [|ce0 cer].
  - (* nothing captured *)
    cbn [HRep.ctx_of_env map a_load] in *. inversion LD; subst cl1 lcb. cbn [List.length padd] in CAbd, LAbd.
    exists pcc, lcl, cb, lcb', sj.
    split; [intros o FIN; apply (exec_to_finishes im _ _ _ _ o XJ); apply ARR; exact FIN|].
    split; [exact BDY|]. split; [exact CAbd|]. split; [exact LAbd|].
    split; [exact LCb|]. split; [exact ANb|]. split; [exact LITb|]. split; [|exact FEj]. cbn [List.length load_ops hrun fold_left attach]. rewrite !app_nil_r. exact Rj.
  - set (ce := ce0 :: cer) in *.
    assert (NEc : map snd ce <> []) by discriminate.
    assert (XFj : xflds (hword sj) (map snd ce) q).
    { eapply HRep.xflds_ext; [|exact XF]. intros a0 _. apply hword_heap. exact HEj. }
    assert (IA' : InvA X86Sem.HEAP_BASE hs (roots (attach e1 (ptrs he0) ++ [(x, VClo tn cls ce, q)])) hl fl cl0).
    { assert (ER : roots (attach e1 (ptrs he0) ++ [(x, VClo tn cls ce, q)]) = roots (he0 ++ [(x, VClo tn cls ce, q)])).
      { unfold roots. f_equal. unfold ptrs at 1 3. rewrite !map_app. f_equal. exact (ptrs_attach e1 (ptrs he0) Le1). }
      rewrite ER. exact IA. }
    destruct (hsim_load im (ptypes p) CLO (cl_ctx cl) (ctx_of_env ce) (attach e1 (ptrs he0)) x (VClo tn cls ce) q (map snd ce) ce hs sj sp lcl cl1 lcb pcc lk hl fl cl0
                Rj LQ XFj NEc eq_refl (ctx_of_env_ids ce) (ctx_of_env_kinds ce) (lin_nodup _ _ _ LCb) IA' K03 (RF ltac:(discriminate)) HFr LD CAl LAl)
      as (s' & XL & FEL & RL).
    rewrite map_length in RL.
    exists (padd pcc (List.length cl1)), lcb, cb, lcb', s'.
    split.
    { intros o FIN. apply (exec_to_finishes im _ _ _ _ o XJ). apply ARR. exact (exec_to_finishes im _ _ _ _ o XL FIN). }
    split; [exact BDY|]. split; [exact CAbd|]. split; [exact LAbd|]. split; [exact LCb|]. split; [exact ANb|]. split; [exact LITb|].
    split; [rewrite load_ops_run by (cbn; lia); exact RL|eapply hframe_eq_trans; eassumption].
Qed.
End HC.
