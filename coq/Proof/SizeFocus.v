(* C19, focusing: the focused statement is at most 4 times as heavy as the statement it comes from.
   Every non-value argument is named ONCE by a cut against a fresh mu / mu~ binding (3 nodes for the
   node it replaces); the continuation of `bind` is used exactly once, so nothing is copied.
   (Prog::focus first uniquifies the program; that renaming pass is not covered here.) *)
From Coq Require Import String List ZArith NArith Bool Lia.
From SCC Require Import Base.Sexp Lang.SynUtil Lang.CoreSyn Lang.SynInd Lang.AxSize Lang.FsSize Lang.CoreSize
     Model.Backend Model.Uniquify Model.Focus Proof.SizeLin.
Import ListNotations.
Open Scope list_scope.
Open Scope N_scope.
Local Arguments N.add : simpl never.
Local Arguments N.mul : simpl never.
Local Arguments N.of_nat : simpl never.
Local Arguments len : simpl never.

Lemma c_wterm_xtor : forall c x args t, c_wterm (CXtor c x args t) = 1 + c_wargs args.
Proof. intros; simpl; f_equal; induction args as [|y r IH]; simpl; auto; rewrite IH; auto. Qed.
Lemma c_wterm_xcase : forall c cls t, c_wterm (CXCase c cls t) = 1 + c_wclauses cls.
Proof. intros; simpl; f_equal; induction cls as [|y r IH]; simpl; auto; rewrite IH; auto. Qed.
Lemma c_wstmt_call : forall f args t, c_wstmt (CCall f args t) = 1 + c_wargs args.
Proof. intros; simpl; f_equal; induction args as [|y r IH]; simpl; auto; rewrite IH; auto. Qed.
Lemma fs_wterm_xcase' : forall c cls t, fs_wterm (FsXCase c cls t) = 1 + fs_wclauses cls.
Proof. intros; simpl; f_equal; induction cls as [|y r IH]; simpl; auto; rewrite IH; auto. Qed.
Lemma c_warg_pos : forall a, 1 <= c_warg a.
Proof. destruct a as [p|p]; destruct p; simpl; lia. Qed.
Lemma c_wargs_len : forall l, len l <= c_wargs l.
Proof. induction l as [|a r IH]; simpl; unfold len in *; simpl List.length; [lia|]. pose proof (c_warg_pos a). lia. Qed.

Definition kbound (k : kont) (B : N) : Prop := forall b m s m', k b m = Ok (s, m') -> fs_wstmt s <= B.

Ltac bind H :=
  match type of H with
  | rbind ?e _ = Ok _ => let E := fresh "E" in destruct e eqn:E; [cbn [rbind] in H | discriminate H]
  end.

(* the five mutually recursive functions, one invariant each.  Binding a term costs at most
   4 * weight - 1 (a variable costs nothing, a literal 3 nodes); the "- 1" per argument pays for the
   argument list of the focused xtor / call *)
Definition Pb (t : cterm) : Prop :=
  forall c k m s m' B, bind_term c t k m = Ok (s, m') -> kbound k B -> fs_wstmt s + 1 <= B + 4 * c_wterm t.
Definition Pa (a : carg) : Prop :=
  forall k m s m' B, bind_arg a k m = Ok (s, m') -> kbound k B -> fs_wstmt s + 1 <= B + 4 * c_warg a.
(* focus_stmt looks one level into the two sides of a cut (xtor arguments, operands): the invariant
   of a term carries those of its immediate sub-terms *)
Definition Pt (t : cterm) : Prop :=
  (forall c m t' m', focus_term c t m = Ok (t', m') -> fs_wterm t' <= 4 * c_wterm t) /\
  Pb t /\
  (forall c x args ty, t = CXtor c x args ty -> Forall Pa args) /\
  (forall a o b, t = COp a o b -> Pb a /\ Pb b).
Definition Pc (cl : cclause) : Prop :=
  forall m cl' m', focus_clause cl m = Ok (cl', m') -> fs_wclause cl' <= 4 * c_wclause cl.
Definition Ps (s : cstmt) : Prop :=
  forall m s' m', focus_stmt s m = Ok (s', m') -> fs_wstmt s' <= 4 * c_wstmt s.

Lemma bind_many_size : forall l, Forall Pa l ->
  forall (k : kontv) m s m' B, bind_many_with bind_arg l k m = Ok (s, m') ->
  (forall bs m s m', List.length bs = List.length l -> k bs m = Ok (s, m') -> fs_wstmt s <= B) ->
  fs_wstmt s + len l <= B + 4 * c_wargs l.
Proof.
  induction l as [|a r IH]; intros HF k m s m' B H Hk; cbn [bind_many_with] in H.
  - assert (Hs : fs_wstmt s <= B) by (apply (Hk [] m s m'); [reflexivity|exact H]). change (len (@nil carg)) with 0. cbn [c_wargs]. lia.
  - inversion HF as [|? ? Ha Hr]; subst. unfold Pa in Ha. rewrite len_cons.
    assert (Hr0 : len r <= 4 * c_wargs r) by (pose proof (c_wargs_len r); lia).
    eapply Ha with (B := B + 4 * c_wargs r - len r) in H.
    + simpl. lia.
    + intros b m1 s1 m1' H1. eapply IH with (B := B) in H1; eauto; [lia|].
      intros bs m2 s2 m2' Hl H2. eapply Hk; eauto. simpl. congruence.
Qed.

Lemma focus_clauses_size : forall cls, Forall Pc cls ->
  forall m cls' m', maprs focus_clause cls m = Ok (cls', m') -> fs_wclauses cls' <= 4 * c_wclauses cls.
Proof.
  induction cls as [|c r IH]; intros HF m cls' m' H; cbn [maprs] in H.
  - inversion H; subst. simpl. lia.
  - inversion HF as [|? ? Hc Hr]; subst. bind H. destruct x as [y m1]. bind H. destruct x as [r' m2]. inversion H; subst; clear H.
    apply Hc in E. eapply IH in E0; eauto. simpl. lia.
Qed.

Theorem focus_size_all : (forall t, Pt t) /\ (forall a, Pa a) /\ (forall c, Pc c) /\ (forall s, Ps s).
Proof.
  apply cterm_mutind; unfold Pt, Pb, Pc, Ps; fold Pa.
  - (* XVar *) intros c v t. split; [|split; [|split; [intros; try discriminate|intros; try discriminate]]].
    + intros c0 m t' m' H. cbn [focus_term] in H. inversion H; subst. simpl. lia.
    + intros c0 k m s m' B H Hk. cbn [bind_term] in H. apply Hk in H. simpl. lia.
  - (* Lit *) intros n. split; [|split; [|split; [intros; try discriminate|intros; try discriminate]]].
    + intros c m t' m' H. cbn [focus_term] in H. destruct c; inversion H; subst. simpl. lia.
    + intros c k m s m' B H Hk. cbn [bind_term] in H. destruct c; [|discriminate].
      destruct (fresh_var m) as [x m1]. bind H. destruct x0 as [s0 m2]. inversion H; subst; clear H.
      apply Hk in E. simpl. lia.
  - (* Op *) intros a o b (_ & Ha & _) (_ & Hb & _). split; [|split; [|split; [intros; try discriminate|intros; try discriminate]]].
    + intros c m t' m' H. cbn [focus_term] in H. destruct c; discriminate.
    + intros c k m s m' B H Hk. cbn [bind_term] in H. destruct c; [|discriminate].
      assert (1 <= c_wterm b) by (destruct b; simpl; lia).
      eapply Ha with (B := B + 2 + 4 * c_wterm b) in H; [simpl; lia|].
      intros b1 ma s1 m1' H1. eapply Hb with (B := B + 3) in H1; [lia|].
      intros b2 mb s2 m2' H2. destruct (fresh_var mb) as [x m1]. bind H2. destruct x0 as [s0 m2]. inversion H2; subst; clear H2.
      apply Hk in E. simpl. lia.
    + match goal with H : COp _ _ _ = COp _ _ _ |- _ => inversion H; subst; auto end.
  - (* Mu *) intros c v s t Hs. split; [|split; [|split; [intros; try discriminate|intros; try discriminate]]].
    + intros c0 m t' m' H. cbn [focus_term] in H. bind H. destruct x as [s' m1]. inversion H; subst. apply Hs in E. simpl. lia.
    + intros c0 k m s0 m' B H Hk. cbn [bind_term] in H. destruct c0.
      * destruct (fresh_var m) as [x m1]. bind H. destruct x0 as [s' m2]. bind H. destruct x0 as [sk m3]. inversion H; subst; clear H.
        apply Hs in E. apply Hk in E0. simpl. lia.
      * destruct (fresh_covar m) as [a m1]. bind H. destruct x as [sk m2]. bind H. destruct x as [s' m3]. inversion H; subst; clear H.
        apply Hk in E. apply Hs in E0. simpl. lia.
  - (* Xtor *) intros c x args t HF. split; [|split; [|split; [intros; try discriminate|intros; try discriminate]]].
    + intros c0 m t' m' H. cbn [focus_term] in H. discriminate.
    + intros c0 k m s m' B H Hk. cbn [bind_term] in H. rewrite c_wterm_xtor.
      destruct c0.
      * eapply bind_many_size with (B := B + 3 + len args) in H; eauto; [lia|].
        intros bs mb s1 m1' Hlen H1. destruct (fresh_var mb) as [nv m1]. bind H1. destruct x0 as [sk m2]. inversion H1; subst; clear H1.
        apply Hk in E. simpl. unfold len in *. rewrite Hlen. lia.
      * eapply bind_many_size with (B := B + 3 + len args) in H; eauto; [lia|].
        intros bs mb s1 m1' Hlen H1. destruct (fresh_covar mb) as [na m1]. bind H1. destruct x0 as [sk m2]. inversion H1; subst; clear H1.
        apply Hk in E. simpl. unfold len in *. rewrite Hlen. lia.
    + match goal with H : CXtor _ _ _ _ = CXtor _ _ _ _ |- _ => inversion H; subst; auto end.
  - (* XCase *) intros c cls t HF. split; [|split; [|split; [intros; try discriminate|intros; try discriminate]]].
    + intros c0 m t' m' H. cbn [focus_term] in H. bind H. destruct x as [cls' m1]. inversion H; subst.
      eapply focus_clauses_size in E; eauto. rewrite fs_wterm_xcase', c_wterm_xcase. lia.
    + intros c0 k m s m' B H Hk. cbn [bind_term] in H. rewrite c_wterm_xcase. destruct c0.
      * destruct (fresh_var m) as [x m1]. bind H. destruct x0 as [sk m2]. bind H. destruct x0 as [cls' m3]. inversion H; subst; clear H.
        apply Hk in E. eapply focus_clauses_size in E0; eauto. cbn [fs_wstmt]. rewrite fs_wterm_xcase'. simpl. lia.
      * destruct (fresh_covar m) as [a m1]. bind H. destruct x as [sk m2]. bind H. destruct x as [cls' m3]. inversion H; subst; clear H.
        apply Hk in E. eapply focus_clauses_size in E0; eauto. cbn [fs_wstmt]. rewrite fs_wterm_xcase'. simpl. lia.
  - (* Producer *) intros p (_ & Hp & _) k m s m' B H Hk. cbn [bind_arg] in H. eapply Hp in H; eauto.
  - (* Consumer *) intros p (_ & Hp & _) k m s m' B H Hk. cbn [bind_arg] in H. eapply Hp in H; eauto.
  - (* Clause *) intros c x cx body Hb m cl' m' H. cbn [focus_clause] in H. bind H. destruct x0 as [b' m1]. inversion H; subst.
    apply Hb in E. simpl. lia.
  - (* Cut *) intros p t q (Hpf & Hpb & Hpx & Hpo) (Hqf & Hqb & Hqx & Hqo) m s' m' H. cbn [focus_stmt] in H.
    assert (Gen : (dor (p', m1) <- focus_term CPrd p m; dor (q', m2) <- focus_term CCns q m1; Ok (FsCut p' t q', m2)) = Ok (s', m') ->
                  fs_wstmt s' <= 4 * c_wstmt (CCut p t q)).
    { intros G. bind G. destruct x as [p' m1]. bind G. destruct x as [q' m2]. inversion G; subst. apply Hpf in E. apply Hqf in E0. simpl. lia. }
    assert (GenQ : forall qc qx qargs qt, q = CXtor qc qx qargs qt ->
       bind_many_with bind_arg qargs (fun bs mb => dor (p', m1) <- focus_term CPrd p mb; Ok (FsCut p' t (FsXtor qc qx bs t), m1)) m = Ok (s', m') ->
       fs_wstmt s' <= 4 * c_wstmt (CCut p t q)).
    { intros qc qx qargs qt Hq G. pose proof (Hqx _ _ _ _ Hq) as HFq. subst q.
      eapply bind_many_size with (B := 2 + len qargs + 4 * c_wterm p) in G; eauto.
      - cbn [c_wstmt]. rewrite c_wterm_xtor. lia.
      - intros bs mb s1 m1' Hlen H1. bind H1. destruct x as [p' m1]. inversion H1; subst. apply Hpf in E. simpl. unfold len in *. rewrite Hlen. lia. }
    assert (GenO : forall a o b, p = COp a o b ->
       bind_term CPrd a (fun b1 ma => bind_term CPrd b (fun b2 mb =>
          dor (q', m1) <- focus_term CCns q mb; Ok (FsCut (FsOp (cbvar b1) o (cbvar b2)) t q', m1)) ma) m = Ok (s', m') ->
       fs_wstmt s' <= 4 * c_wstmt (CCut p t q)).
    { intros a o b Hp G. destruct (Hpo _ _ _ Hp) as [Ha Hb]. subst p.
      eapply Ha with (B := 2 + 4 * c_wterm q + 4 * c_wterm b) in G; [simpl; lia|].
      intros b1 ma s1 m1' H1. eapply Hb with (B := 2 + 4 * c_wterm q) in H1; [lia|].
      intros b2 mb s2 m2' H2. bind H2. destruct x as [q' m1]. inversion H2; subst. apply Hqf in E. simpl. lia. }
    destruct p as [pc pv pt|pn|pa po pb|pc pv ps pt|pc px pargs pt|pc pcls pt].
    6:{ destruct q; eauto. }
    5:{ (* Xtor on the left *)
      pose proof (Hpx _ _ _ _ eq_refl) as HFp.
      eapply bind_many_size with (B := 2 + len pargs + 4 * c_wterm q) in H; eauto.
      - cbn [c_wstmt]. rewrite c_wterm_xtor. lia.
      - intros bs mb s1 m1' Hlen H1. bind H1. destruct x as [q' m1]. inversion H1; subst. apply Hqf in E. simpl. unfold len in *. rewrite Hlen. lia. }
    all: destruct q; eauto.
  - (* IfC *) intros so a b t e (_ & Ha & _) Hb Ht He m s' m' H. cbn [focus_stmt] in H.
    destruct b as [b0|].
    + destruct (Hb b0 eq_refl) as (_ & Hb0 & _).
      eapply Ha with (B := 1 + 4 * c_wterm b0 + 4 * c_wstmt t + 4 * c_wstmt e) in H; [simpl; lia|].
      intros b1 ma s1 m1' H1. eapply Hb0 with (B := 1 + 4 * c_wstmt t + 4 * c_wstmt e) in H1; [lia|].
      intros b2 mb s2 m2' H2. bind H2. destruct x as [t' m1]. bind H2. destruct x as [e' m2]. inversion H2; subst.
      apply Ht in E. apply He in E0. simpl. lia.
    + eapply Ha with (B := 1 + 4 * c_wstmt t + 4 * c_wstmt e) in H; [simpl; lia|].
      intros b1 ma s1 m1' H1. bind H1. destruct x as [t' m1]. bind H1. destruct x as [e' m2]. inversion H1; subst.
      apply Ht in E. apply He in E0. simpl. lia.
  - (* Print *) intros nl a next (_ & Ha & _) Hn m s' m' H. cbn [focus_stmt] in H.
    eapply Ha with (B := 1 + 4 * c_wstmt next) in H; [simpl; lia|].
    intros b1 ma s1 m1' H1. bind H1. destruct x as [n' m1]. inversion H1; subst. apply Hn in E. simpl. lia.
  - (* Call *) intros f args t HF m s' m' H. cbn [focus_stmt] in H. rewrite c_wstmt_call.
    eapply bind_many_size with (B := 1 + len args) in H; eauto; [lia|].
    intros bs mb s1 m1' Hlen H1. inversion H1; subst. simpl. unfold len in *. rewrite Hlen. lia.
  - (* Exit *) intros a t (_ & Ha & _) m s' m' H. cbn [focus_stmt] in H.
    eapply Ha with (B := 1) in H; [simpl; lia|].
    intros b1 ma s1 m1' H1. inversion H1; subst. simpl. lia.
Qed.

Theorem focus_stmt_size : forall s m s' m', focus_stmt s m = Ok (s', m') -> fs_wstmt s' <= 4 * c_wstmt s.
Proof. intros s. destruct focus_size_all as (_ & _ & _ & H). apply H. Qed.

Lemma focus_defs_size : forall ds m ds' m', maprs focus_def ds m = Ok (ds', m') -> fs_wdefs ds' <= 4 * c_wdefs ds.
Proof.
  induction ds as [|d r IH]; intros m ds' m' H; cbn [maprs] in H.
  - inversion H; subst. simpl. lia.
  - bind H. destruct x as [d' m1]. bind H. destruct x as [r' m2]. inversion H; subst; clear H.
    apply IH in E0. unfold focus_def in E. bind E. destruct x as [b m3]. inversion E; subst; clear E.
    apply focus_stmt_size in E1. simpl. unfold fs_wdef, c_wdef. cbn [fsdctx fsdbody]. lia.
Qed.

(* Prog::focus = uniquify, then focus every definition: the bound relative to the UNIQUIFIED program *)
Theorem focus_prog_size_partial_lemma : forall p p1 q,
  uniquify_prog p = Ok p1 -> focus_prog p = Ok q -> fs_wprog q <= 4 * c_wprog p1.
Proof.
  intros p p1 q Hu H. unfold focus_prog in H. rewrite Hu in H. cbn [rbind] in H.
  bind H. destruct x as [ds m]. inversion H; subst. apply focus_defs_size in E. exact E.
Qed.
