(* C13 on AArch64, the SP discipline of WHOLE compiled programs (model level): in the code
   Backend.compile a64_backend emits for any program, SP is written only inside the save/restore
   bracket of a print sequence; walking the code linearly with the displacement d of SP from its
   body value, d = 0 (mod 16) at every BL and every SP-relative load/store, and d = 0 at every
   label, branch and RET - so every control transfer (to a label, into a jump table of B
   instructions, through BR to an ADR'ed label) leaves and arrives at displacement 0 and the linear
   walk accounts for every execution path.  With C13_a64_body_alignment (SP = 0 mod 16 in the body)
   this is "SP is 16-byte aligned at every stack access and at every call of the print runtime".
   Instance of Proof/CodegenForall.v. *)
From Coq Require Import List ZArith NArith String Bool Lia.
From SCC Require Import Base.Sexp Lang.AxSyn Model.ParMoves Model.Backend Model.A64 Generated.Constants
     Proof.A64Wf Proof.CodegenForall.
From SCC Require Proof.A64PM.
Import ListNotations.
Open Scope Z_scope.

Definition is_control (c : acode) : bool :=
  match c with
  | B _ | BR _ | BEQ _ | BNE _ | BLT _ | BLE _ | BGT _ | BGE _ | RET | LAB _ | TEXT | GLOBAL _ => true
  | _ => false
  end.
Fixpoint sp_flow_safe (d : Z) (cs : list acode) : Prop :=
  match cs with
  | [] => True
  | c :: r => (sp_sensitive c = true -> d mod 16 = 0) /\ (is_control c = true -> d = 0) /\ sp_tracked c = true /\
              sp_flow_safe (d + sp_delta1 c) r
  end.
Definition sp_disciplined (cs : list acode) : Prop := sp_flow_safe 0 cs /\ sp_delta cs = 0.

Lemma sp_flow_safe_app d a b : sp_flow_safe d (a ++ b) <-> sp_flow_safe d a /\ sp_flow_safe (d + sp_delta a) b.
Proof.
  revert d; induction a as [|c a IH]; intros d.
  - cbn [app sp_flow_safe]. change (sp_delta []) with 0. rewrite Z.add_0_r. tauto.
  - change ((c :: a) ++ b)%list with (c :: (a ++ b))%list. cbn [sp_flow_safe]. rewrite IH, sp_delta_cons, Z.add_assoc. tauto.
Qed.
Lemma disciplined_nil : sp_disciplined [].
Proof. split; [exact I|reflexivity]. Qed.
Lemma disciplined_app a b : sp_disciplined a -> sp_disciplined b -> sp_disciplined (a ++ b).
Proof.
  intros [A1 A2] [B1 B2]. split; [apply sp_flow_safe_app; rewrite A2; auto|rewrite sp_delta_app; lia].
Qed.
Lemma neutral_disciplined l : Forall sp_neutral l -> sp_disciplined l.
Proof.
  intros F. split; [|apply sp_delta_neutral; exact F].
  induction F as [|c l [Ht Hc] _ IH]; cbn [sp_flow_safe]; [exact I|]. rewrite Hc. auto.
Qed.
Lemma safe_flow d cs : sp_safe d cs -> Forall (fun c => is_control c = false) cs -> sp_flow_safe d cs.
Proof.
  revert d; induction cs as [|c cs IH]; intros d S F; cbn [sp_safe sp_flow_safe] in *; [exact I|].
  inversion F as [|? ? Fc F']; subst. destruct S as (A & T & S). repeat split; auto. rewrite Fc; discriminate.
Qed.

(* ---------- temporaries whose register, if any, is a general-purpose one ---------- *)
Definition Tt (t : atemp) : Prop := match t with AR (X _) => True | AR _ => False | AS _ => True end.
Lemma tfp_Tt p t : temporary_from_position p = Ok t -> Tt t.
Proof.
  unfold temporary_from_position. destruct (N.ltb _ _); [intros E; inversion E; exact I|].
  destruct (N.ltb _ _); [intros E; inversion E; exact I|discriminate].
Qed.

Notation NL := (Forall sp_neutral).
Lemma NL_app a b : NL a -> NL b -> NL (a ++ b). Proof. intros; apply Forall_app; auto. Qed.
Ltac nt :=
  repeat first [ assumption | apply Forall_nil | apply NL_app
               | apply Forall_cons; [split; reflexivity|] ].

(* ---------- instruction selection ---------- *)
Lemma imm_pieces_NL n v inv ign fd is : NL (imm_pieces (X n) v inv ign fd is).
Proof.
  revert fd; induction is as [|i is IH]; intros fd; cbn [imm_pieces]; [constructor|].
  destruct (Z.eqb _ ign); [apply IH|]. destruct fd; [|destruct inv]; (constructor; [split; reflexivity|apply IH]).
Qed.
Lemma imm_code_NL n v : NL (imm_code (X n) v).
Proof. unfold imm_code. destruct (Z.eqb v 0); [nt|]. destruct (Z.eqb v (-1)); [nt|]. apply imm_pieces_NL. Qed.
Lemma load_immediate_NL t v : Tt t -> NL (a_load_immediate t v).
Proof.
  destruct t as [[n| |]|p]; cbn [Tt a_load_immediate]; try tauto; intros _.
  - apply imm_code_NL.
  - apply NL_app; [change TEMP with (X 2); apply imm_code_NL|nt].
Qed.
Lemma mov_NL t s : Tt t -> Tt s -> NL (a_mov t s).
Proof.
  destruct t as [[tn| |]|tp], s as [[sn| |]|sp]; cbn [Tt a_mov move_from_register move_to_register app]; try tauto; intros _ _; nt.
Qed.
Lemma op_NL f t s1 s2 :
  (forall n a b, NL (f (X n) a b)) -> Tt t -> NL (a_op f t s1 s2).
Proof.
  intros Hf. change TEMP with (X 2) in *. change TEMP2 with (X 3) in *.
  destruct t as [[tn| |]|tp]; cbn [Tt]; try tauto; intros _;
    destruct s1 as [r1|p1], s2 as [r2|p2]; cbn [a_op]; unfold scratch_for; change TEMP with (X 2); change TEMP2 with (X 3);
    repeat match goal with |- context [areg_eqb ?a ?b] => destruct (areg_eqb a b) end;
    repeat (apply NL_app); try apply Hf; nt.
Qed.
Lemma rem_NL n a b : NL (r_rem (X n) a b).
Proof.
  unfold r_rem. change TEMP with (X 2). change TEMP2 with (X 3). change TEMPORARY_TEMP with (X 10).
  repeat match goal with |- context [areg_eqb ?x ?y] => destruct (areg_eqb x y) end; nt.
Qed.
Lemma arith_NL o t s1 s2 : Tt t -> NL (a_arith o t s1 s2).
Proof.
  intros T. destruct o; cbn [a_arith]; apply op_NL; auto; intros; try apply rem_NL; unfold r_add, r_sub, r_mul, r_div; nt.
Qed.
Lemma compare_NL a b : NL (compare a b).
Proof. change TEMP with (X 2). change TEMP2 with (X 3). destruct a, b; cbn [compare]; nt. Qed.
Lemma compare_immediate_NL a i : NL (compare_immediate a i).
Proof. change TEMP with (X 2). destruct a; cbn [compare_immediate]; nt. Qed.
Lemma bcc_NL s l : sp_neutral (bcc s l).
Proof. destruct s; split; reflexivity. Qed.

(* ---------- memory.rs ---------- *)
Lemma skip_if_zero_NL c body lc : NL body -> NL (fst (skip_if_zero c body lc)).
Proof. intros H. unfold skip_if_zero. cbn [fst]. nt. Qed.
Lemma if_zero_NL c a b lc : NL a -> NL b -> NL (fst (if_zero_then_else c a b lc)).
Proof. intros Ha Hb. unfold if_zero_then_else. cbn [fst]. nt. Qed.
Lemma erase_valid_NL r lc : NL (fst (erase_valid_object r lc)).
Proof. unfold erase_valid_object. change TEMP2 with (X 3). change FREE with (X 1). apply if_zero_NL; nt. Qed.
Lemma erase_block_NL t lc : NL (fst (a_erase_block t lc)).
Proof.
  unfold a_erase_block. change TEMP with (X 2). change TEMP2 with (X 3).
  destruct t as [r|p].
  - pose proof (erase_valid_NL r lc) as E. destruct (erase_valid_object r lc) as [c lc1]. cbn [fst] in E. apply skip_if_zero_NL. nt.
  - pose proof (erase_valid_NL (X 2) lc) as E. change TEMP with (X 2) in E. destruct (erase_valid_object (X 2) lc) as [c lc1]. cbn [fst] in E.
    pose proof (skip_if_zero_NL (X 2) ([LDR (X 3) (X 2) REFERENCE_COUNT_OFFSET] ++ c) lc1) as S.
    destruct (skip_if_zero (X 2) _ lc1) as [c2 lc2]. cbn [fst] in *. constructor; [split; reflexivity|]. apply S. nt.
Qed.
Lemma share_code_NL r n : NL (share_code r n).
Proof. unfold share_code. change TEMP2 with (X 3). nt. Qed.
Lemma share_block_NL t n lc : NL (fst (a_share_block_n t n lc)).
Proof.
  unfold a_share_block_n. change TEMP with (X 2). destruct t as [r|p].
  - apply skip_if_zero_NL. apply share_code_NL.
  - pose proof (skip_if_zero_NL (X 2) (share_code (X 2) n) lc (share_code_NL _ _)) as S.
    destruct (skip_if_zero (X 2) (share_code (X 2) n) lc) as [c lc1]. cbn [fst] in *. nt.
Qed.
Lemma erase_fields_NL r lc : NL (fst (erase_fields r lc)).
Proof.
  unfold erase_fields. generalize (nseq 0 FIELDS_PER_BLOCK). intros l.
  assert (G : forall acc : list acode * N, NL (fst acc) ->
            NL (fst (fold_left (fun (acc : list acode * N) (offset : N) =>
                                  let '(c, lc) := acc in
                                  let '(c1, lc1) := a_erase_block (AR TEMP) lc in
                                  (c ++ [LDR TEMP r (field_offset Fst offset)] ++ c1, lc1)) l acc))).
  { induction l as [|o l IH]; intros [c lc0] H; cbn [fold_left]; [exact H|].
    pose proof (erase_block_NL (AR TEMP) lc0) as E. destruct (a_erase_block (AR TEMP) lc0) as [c1 lc1]. cbn [fst] in *.
    apply IH. cbn [fst]. change TEMP with (X 2). nt. }
  apply G. constructor.
Qed.
Lemma acquire_block_NL t lc : Tt t -> NL (fst (acquire_block t lc)).
Proof.
  intros T. unfold acquire_block. change TEMP with (X 2). change HEAP with (X 0). change FREE with (X 1).
  pose proof (erase_fields_NL (X 0) lc) as EF. change HEAP with (X 0) in EF. destruct (erase_fields (X 0) lc) as [ef lc1]. cbn [fst] in EF.
  match goal with |- context [if_zero_then_else (X 1) ?a ?b lc1] =>
    pose proof (if_zero_NL (X 1) a b lc1) as I1; destruct (if_zero_then_else (X 1) a b lc1) as [inner lc2] end.
  cbn [fst] in I1. assert (NI : NL inner) by (apply I1; nt). clear I1.
  match goal with |- context [if_zero_then_else (X 0) ?a ?b lc2] =>
    pose proof (if_zero_NL (X 0) a b lc2) as I2; destruct (if_zero_then_else (X 0) a b lc2) as [outer lc3] end.
  cbn [fst] in *. destruct t as [[n| |]|p]; cbn [Tt] in T; try tauto; (apply NL_app; [nt|apply I2; nt]).
Qed.
Lemma store_zeros_NL k r : NL (store_zeros k r).
Proof. unfold store_zeros. induction (nseq 0 k) as [|o l IH]; cbn [flat_map]; [constructor|]. unfold store_zero at 1. nt. Qed.

Lemma fresh_Tt n c t : a_fresh n c = Ok t -> Tt t.
Proof. apply tfp_Tt. Qed.
Lemma store_field_NL n c block off cs : store_field n c block off = Ok cs -> NL cs.
Proof.
  unfold store_field. destruct (a_fresh n c) as [t|]; cbn [rbind]; [|discriminate]. intros E; inversion E; subst.
  change TEMP with (X 2). destruct t; nt.
Qed.
Lemma load_field_NL n c block off cs : load_field n c block off = Ok cs -> NL cs.
Proof.
  unfold load_field. destruct (a_fresh n c) as [t|] eqn:F; cbn [rbind]; [|discriminate]. intros E; inversion E; subst.
  apply fresh_Tt in F. change TEMP with (X 2). destruct t as [[m| |]|p]; cbn [Tt] in F; try tauto; nt.
Qed.
Lemma store_value_NL b c block off cs : store_value b c block off = Ok cs -> NL cs.
Proof.
  unfold store_value. destruct (store_field Snd c block off) as [c1|] eqn:E1; cbn [rbind]; [|discriminate].
  apply store_field_NL in E1. destruct (bchi b).
  - destruct (store_field Fst c block off) as [c2|] eqn:E2; cbn [rbind]; [|discriminate]. apply store_field_NL in E2. intros E; inversion E; subst. nt.
  - destruct (store_field Fst c block off) as [c2|] eqn:E2; cbn [rbind]; [|discriminate]. apply store_field_NL in E2. intros E; inversion E; subst. nt.
  - intros E; inversion E; subst. unfold store_zero. nt.
Qed.
Lemma load_value_NL b c block off m lc cs lc' : load_value b c block off m lc = Ok (cs, lc') -> NL cs.
Proof.
  unfold load_value. destruct (load_field Snd c block off) as [c1|] eqn:E1; cbn [rbind]; [|discriminate].
  apply load_field_NL in E1.
  assert (G : (dor c2 <- load_field Fst c block off;
               dor t <- a_fresh Fst c;
               let r := match t with AR r => r | AS _ => TEMP end in
               match m with
               | Share => let '(c3, lc1) := a_share_block_n (AR r) 1 lc in Ok (c1 ++ c2 ++ c3, lc1)
               | Release => Ok (c1 ++ c2, lc)
               end) = Ok (cs, lc') -> NL cs).
  { destruct (load_field Fst c block off) as [c2|] eqn:E2; cbn [rbind]; [|discriminate]. apply load_field_NL in E2.
    destruct (a_fresh Fst c) as [t|]; cbn [rbind]; [|discriminate].
    destruct m.
    - intros E; inversion E; subst. nt.
    - match goal with |- context [a_share_block_n ?a 1 lc] => pose proof (share_block_NL a 1 lc) as S; destruct (a_share_block_n a 1 lc) as [c3 lc1] end.
      cbn [fst] in S. intros E; inversion E; subst. nt. }
  destruct (bchi b); try exact G. intros E; inversion E; subst. exact E1.
Qed.
Lemma store_values_NL block : forall l remaining ff cs, store_values l remaining block ff = Ok cs -> NL cs.
Proof.
  induction l as [|b l IH]; intros remaining ff cs H; cbn [store_values] in H.
  - inversion H; subst. apply store_zeros_NL.
  - destruct (store_value b _ block _) as [c1|] eqn:E1; cbn [rbind] in H; [|discriminate]. apply store_value_NL in E1.
    destruct (store_values l remaining block _) as [c2|] eqn:E2; cbn [rbind] in H; [|discriminate]. apply IH in E2.
    inversion H; subst. nt.
Qed.
Lemma load_values_NL block m : forall l existing ff lc cs lc', load_values l existing block ff m lc = Ok (cs, lc') -> NL cs.
Proof.
  induction l as [|b l IH]; intros existing ff lc cs lc' H; cbn [load_values] in H.
  - inversion H; subst. constructor.
  - destruct (load_value b _ block _ m lc) as [[c1 lc1]|] eqn:E1; cbn [rbind] in H; [|discriminate]. apply load_value_NL in E1.
    destruct (load_values l existing block _ m lc1) as [[c2 lc2]|] eqn:E2; cbn [rbind] in H; [|discriminate]. apply IH in E2.
    inversion H; subst. nt.
Qed.
Lemma store_fields_NL : forall fuel to_store remaining bp lc cs lc',
  store_fields fuel to_store remaining bp lc = Ok (cs, lc') -> NL cs.
Proof.
  induction fuel as [|fuel IH]; intros to_store remaining bp lc cs lc' H; cbn [store_fields] in H; [discriminate|].
  destruct to_store as [|b0 rest0].
  - destruct bp; [|inversion H; subst; constructor].
    destruct (a_fresh Fst remaining) as [t|] eqn:F; cbn [rbind] in H; [|discriminate]. inversion H; subst.
    apply load_immediate_NL. eapply fresh_Tt; eauto.
  - set (ts := b0 :: rest0) in *. clearbody ts.
    match type of H with rbind ?e _ = _ => destruct e as [c0|] eqn:E0; cbn [rbind] in H; [|discriminate] end.
    assert (N0 : NL c0).
    { destruct bp; [inversion E0; subst; constructor|]. eapply store_field_NL; eauto. }
    match type of H with rbind ?e _ = _ => destruct e as [c1|] eqn:E1; cbn [rbind] in H; [|discriminate] end.
    apply store_values_NL in E1.
    match type of H with rbind ?e _ = _ => destruct e as [t|] eqn:F; cbn [rbind] in H; [|discriminate] end.
    apply fresh_Tt in F. pose proof (acquire_block_NL t lc F) as A. destruct (acquire_block t lc) as [c2 lc2]. cbn [fst] in A.
    match type of H with rbind ?e _ = _ => destruct e as [[c3 lc3]|] eqn:E3; cbn [rbind] in H; [|discriminate] end.
    apply IH in E3. inversion H; subst. nt.
Qed.
Lemma release_block_NL n : NL (release_block (X n)).
Proof. unfold release_block. change HEAP with (X 0). nt. Qed.
Lemma load_fields_NL : forall fuel to_load existing bp m freed lc cs freed' lc',
  load_fields fuel to_load existing bp m freed lc = Ok (cs, freed', lc') -> NL cs.
Proof.
  induction fuel as [|fuel IH]; intros to_load existing bp m freed lc cs freed' lc' H; cbn [load_fields] in H; [discriminate|].
  destruct to_load as [|b0 rest0]; [inversion H; subst; constructor|].
  set (tl := b0 :: rest0) in *. clearbody tl.
  match type of H with rbind ?e _ = _ => destruct e as [[[c0 fr0] lc0]|] eqn:E0; cbn [rbind] in H; [|discriminate] end.
  apply IH in E0.
  match type of H with rbind ?e _ = _ => destruct e as [mb|] eqn:F; cbn [rbind] in H; [|discriminate] end.
  apply fresh_Tt in F. change TEMPORARY_TEMP with (X 10) in H.
  destruct mb as [[mr| |]|mp]; cbn [Tt] in F; try tauto.
  - match type of H with rbind ?e _ = _ => destruct e as [c2|] eqn:E2; cbn [rbind] in H; [|discriminate] end.
    assert (N2 : NL c2) by (destruct bp; [inversion E2; subst; constructor|eapply load_field_NL; eauto]).
    match type of H with rbind ?e _ = _ => destruct e as [[c3 lc3]|] eqn:E3; cbn [rbind] in H; [|discriminate] end.
    apply load_values_NL in E3. inversion H; subst.
    assert (N1 : NL (match m with Release => release_block (X mr) | Share => [] end)) by (destruct m; [apply release_block_NL|constructor]).
    nt.
  - match type of H with rbind ?e _ = _ => destruct e as [c2|] eqn:E2; cbn [rbind] in H; [|discriminate] end.
    assert (N2 : NL c2) by (destruct bp; [inversion E2; subst; constructor|eapply load_field_NL; eauto]).
    match type of H with rbind ?e _ = _ => destruct e as [[c3 lc3]|] eqn:E3; cbn [rbind] in H; [|discriminate] end.
    apply load_values_NL in E3. inversion H; subst.
    assert (N1 : NL (match m with Release => release_block (X 10) | Share => [] end)) by (destruct m; [apply release_block_NL|constructor]).
    assert (Ne : NL (if fr0 then [] else [STR (X 10) SP (stack_offset SPILL_TEMP)])) by (destruct fr0; nt).
    assert (N4 : NL (match bp with Last => [LDR (X 10) SP (stack_offset SPILL_TEMP)] | Other => [] end)) by (destruct bp; nt).
    nt.
Qed.
Lemma a_store_NL a r lc c lc' : a_store a r lc = Ok (c, lc') -> NL c.
Proof. apply store_fields_NL. Qed.
Lemma load_register_NL block to_load existing lc c lc' : load_register block to_load existing lc = Ok (c, lc') -> NL c.
Proof.
  unfold load_register. change TEMP2 with (X 3).
  destruct (load_fields _ to_load existing Last Release false lc) as [[[tb f1] lc1]|] eqn:E1; cbn [rbind]; [|discriminate].
  apply load_fields_NL in E1.
  destruct (load_fields _ to_load existing Last Share false lc1) as [[[eb f2] lc2]|] eqn:E2; cbn [rbind]; [|discriminate].
  apply load_fields_NL in E2. intros E.
  replace c with (fst (if_zero_then_else (X 3) tb ([SUBI (X 3) (X 3) 1; STR (X 3) block REFERENCE_COUNT_OFFSET] ++ eb) lc2))
    by (inversion E; reflexivity).
  apply if_zero_NL; nt.
Qed.
Lemma a_load_NL a r lc c lc' : a_load a r lc = Ok (c, lc') -> NL c.
Proof.
  unfold a_load. destruct a as [|b0 a0]; [intros E; inversion E; constructor|]. change TEMP with (X 2). change TEMP2 with (X 3).
  destruct (a_fresh Fst r) as [[rr|p]|]; cbn [rbind]; [| |discriminate].
  - destruct (load_register rr _ r lc) as [[c1 l1]|] eqn:E1; cbn [rbind]; [|discriminate]. apply load_register_NL in E1.
    intros E; inversion E; subst. cbn [fst]. nt.
  - destruct (load_register (X 2) _ r lc) as [[c1 l1]|] eqn:E1; cbn [rbind]; [|discriminate]. apply load_register_NL in E1.
    intros E; inversion E; subst. cbn [fst]. nt.
Qed.

(* ---------- the print sequence ---------- *)
Lemma print_no_control newline s context : Tt s -> Forall (fun c => is_control c = false) (a_print newline s context).
Proof.
  intros T. unfold a_print. destruct (caller_save_registers_info context) as [fb regs].
  rewrite save_shape, restore_shape.
  assert (M : forall (f : N * N -> acode) l, (forall p, is_control (f p) = false) -> Forall (fun c => is_control c = false) (map f l)).
  { intros f l H. induction l; cbn; constructor; auto. }
  apply Forall_app; split; [destruct s as [r|p]; [constructor|]; cbn [move_to_register]; repeat constructor|].
  apply Forall_app; split.
  { apply Forall_app; split; [apply M; intros [a b]; reflexivity|].
    destruct (Nat.eqb _ 0); [constructor|]. apply Forall_app; split; [repeat constructor|]. apply M. intros [a b]; reflexivity. }
  apply Forall_app; split; [destruct s; repeat constructor|].
  apply Forall_app; split; [destruct newline; repeat constructor|].
  apply Forall_app; split; [apply M; intros [a b]; reflexivity|].
  destruct (Nat.eqb _ 0); [constructor|]. apply Forall_app; split; [|repeat constructor]. apply M. intros [a b]; reflexivity.
Qed.
Lemma print_disciplined newline s context : Tt s -> sp_disciplined (a_print newline s context).
Proof.
  intros T. destruct (print_sp_safe newline s context 0 eq_refl) as [S D].
  split; [apply safe_flow; [exact S|apply print_no_control; exact T]|exact D].
Qed.

(* ---------- every compiled program ---------- *)
Theorem a64_compile_disciplined (p : prog) (lc : N) code n lc' :
  compile a64_backend p lc = Ok (code, n, lc') -> sp_disciplined code.
Proof.
  apply (compile_Q a64_backend A64PM.atemp_compare_eq Tt sp_disciplined disciplined_nil disciplined_app);
    cbn [a64_backend a64_backend_with b_temporary_from_position b_temp b_return1 b_label b_mark b_jump b_jump_label b_jump_label_fixed
         b_jcc2 b_jcc1 b_load_immediate b_load_label b_add_and_jump b_arith b_mov b_print b_erase b_share_n b_store b_load
         b_store_temporary b_restore_temporary].
  - exact tfp_Tt.
  - exact I.
  - exact I.
  - intros l. apply neutral_disciplined. nt.
  - intros c. exact disciplined_nil.
  - intros t T. apply neutral_disciplined. change TEMP with (X 2). destruct t; cbn [a_jump]; nt.
  - intros l. apply neutral_disciplined. nt.
  - intros l. apply neutral_disciplined. nt.
  - intros s a b l _ _. apply neutral_disciplined. apply NL_app; [apply compare_NL|]. constructor; [apply bcc_NL|constructor].
  - intros s a l _. apply neutral_disciplined. apply NL_app; [apply compare_immediate_NL|]. constructor; [apply bcc_NL|constructor].
  - intros t i T. apply neutral_disciplined. apply load_immediate_NL; exact T.
  - intros t l T. apply neutral_disciplined. change TEMP with (X 2). destruct t as [[m| |]|q]; cbn [Tt a_load_label] in *; try tauto; nt.
  - intros t i T. apply neutral_disciplined. change TEMP with (X 2).
    assert (AO : forall m, NL (add_offset (X m) i)).
    { intros m. unfold add_offset. destruct (add_imm_fits i); [nt|]. apply NL_app; [change TEMP2 with (X 3); apply imm_code_NL|nt]. }
    destruct t as [[m| |]|q]; cbn [Tt a_add_and_jump] in *; try tauto; nt; apply AO.
  - intros o t a b T _ _. apply neutral_disciplined. apply arith_NL; exact T.
  - intros t s T S. apply neutral_disciplined. apply mov_NL; assumption.
  - intros nl t c T. apply print_disciplined; exact T.
  - intros t l _. apply neutral_disciplined. apply erase_block_NL.
  - intros t k l _. apply neutral_disciplined. apply share_block_NL.
  - intros a r l c l' H. apply neutral_disciplined. eapply a_store_NL; eauto.
  - intros a r l c l' H. apply neutral_disciplined. eapply a_load_NL; eauto.
  - intros t f T. apply neutral_disciplined. change TEMP with (X 2). destruct t as [[m| |]|q]; cbn [Tt a_store_temporary] in *; try tauto; nt.
  - intros t f T. apply neutral_disciplined. change TEMP with (X 2). destruct t as [[m| |]|q]; cbn [Tt a_restore_temporary] in *; try tauto; nt.
Qed.

Lemma move_arguments_no_control n : forall ma, move_arguments n = Ok ma -> Forall (fun c => is_control c = false) ma.
Proof.
  induction n as [|k IH]; cbn [move_arguments]; intros ma M.
  - inversion M; constructor.
  - destruct (Nat.ltb 7 (S k)); [discriminate|]. destruct (move_arguments k) as [r0|]; cbn [rbind] in M; [|discriminate].
    inversion M; subst. constructor; [reflexivity|apply IH; reflexivity].
Qed.

(* the whole routine: preamble, prologue, the program, epilogue *)
Theorem a64_routine_sp_discipline (p : prog) (lc : N) r n lc' :
  a64_compile p lc = Ok (r, n, lc') ->
  exists s body,
    r = preamble ++ s ++ body ++ cleanup /\ setup n = Ok s /\
    sp_disciplined preamble /\
    (sp_delta s mod 16 = 0 /\ sp_safe 0 s /\ Forall (fun c => is_control c = false) s) /\
    sp_disciplined body /\
    (sp_delta s + sp_delta cleanup = 0 /\ sp_safe (sp_delta s) cleanup).
Proof.
  unfold a64_compile, a64_compile_with. fold a64_backend.
  destruct (compile a64_backend p lc) as [[[is n0] l0]|] eqn:C; cbn [rbind]; [|discriminate].
  unfold into_aarch64_routine. destruct (setup n0) as [s|] eqn:S; cbn [rbind]; [|discriminate].
  intros E; inversion E; subst. exists s, is.
  split; [reflexivity|]. split; [exact S|]. split; [apply neutral_disciplined; unfold preamble; nt|].
  split.
  - destruct (body_alignment _ _ S) as [A B]. split; [exact A|]. split; [exact B|].
    unfold setup in S. destruct (move_arguments _) as [ma|] eqn:M; cbn [rbind] in S; [|discriminate]. inversion S; subst.
    do 7 (constructor; [reflexivity|]). apply Forall_app; split; [|repeat constructor].
    eapply move_arguments_no_control; eauto.
  - split; [eapply a64_compile_disciplined; eauto|apply (prologue_epilogue_balanced _ _ S)].
Qed.

(* the hypothesis is satisfiable: a program with two arguments that prints one of them twice *)
Definition ex_print_prog : prog :=
  mkp [mkd ("main"%string, 0%N) [mkb ("x"%string, 1%N) Ext I64; mkb ("y"%string, 2%N) Ext I64]
           (PrintI64 true ("x"%string, 1%N) (PrintI64 false ("y"%string, 2%N) (Exit ("x"%string, 1%N))))] [] 2.
Example a64_routine_sp_discipline_instance :
  exists r, a64_compile ex_print_prog 0 = Ok (r, 2%nat, 0%N) /\ List.length r = 46%nat.
Proof. eexists. split; vm_compute; reflexivity. Qed.
